/-
Model of the two doors through which a partial signature enters a node — executable, core Lean only.

* `core/validatorapi/validatorapi.go`: every method of `Component` that reaches the subscriber
  fan-out `c.subs` (ten endpoints), `verifyPartialSig`, the gates `propDataMatchesDuty`
  (proposals) and the inner selection-proof checks (aggregate-and-proof, contribution-and-proof).
* `core/parsigex/parsigex.go`: `(*ParSigEx).handle` and `NewEth2Verifier`.
* `core/eth2signeddata.go`: `VerifyEth2SignedData` and the `DomainName` of each implementation.
* `eth2util/signing/signing.go`: `Verify` (zero-signature check before `tbls.Verify`).
* `core/gater.go`: `NewDutyGater`.

Cryptography is symbolic: `verify key domain epoch root sig` is a parameter. Objects are abstracted
to what the checks read: the Go type (it fixes the domain), the result of `Epoch()` and of
`MessageRoot()` (`none` = the accessor returned an error), the signature (`0` = the all-zero
signature) and an opaque identity `id` of the whole content (so that "the payload handed to the
subscriber is the submitted object" can be stated).
-/
namespace CharonV.Admit

abbrev Validator := Nat
abbrev Key := Nat
abbrev Root := Nat
abbrev Sig := Nat
abbrev Epoch := Nat
abbrev ShareIdx := Int

/-- The implementations of `core.Eth2SignedData` (eth2signeddata.go, the `var _ Eth2SignedData`
block) plus `rawSig` = `core.Signature` (what `DutySignature` parses to), which is not one. -/
inductive SigType where
  | proposal | attestation | exit | registration | randao | bcSelection
  | aggProof | vAggProof | syncMessage | contribution | syncSelection
  | rawSig
  deriving DecidableEq, Repr

/-- `signing.DomainName` values used by the implementations. -/
inductive Domain where
  | beaconProposer | beaconAttester | voluntaryExit | applicationBuilder | randao
  | selectionProof | aggregateAndProof | syncCommittee | contributionAndProof
  | syncCommitteeSelectionProof
  deriving DecidableEq, Repr

/-- `DomainName()` per implementation; `none`: the value does not implement `Eth2SignedData`. -/
def domainOf : SigType → Option Domain
  | .proposal => some .beaconProposer
  | .attestation => some .beaconAttester
  | .exit => some .voluntaryExit
  | .registration => some .applicationBuilder
  | .randao => some .randao
  | .bcSelection => some .selectionProof
  | .aggProof => some .aggregateAndProof
  | .vAggProof => some .aggregateAndProof
  | .syncMessage => some .syncCommittee
  | .contribution => some .contributionAndProof
  | .syncSelection => some .syncCommitteeSelectionProof
  | .rawSig => none

structure Obj where
  id    : Nat
  ty    : SigType
  epoch : Option Epoch
  root  : Option Root
  sig   : Sig
  deriving DecidableEq, Repr

/-- `core.ParSignedData`. -/
structure Par where
  obj : Obj
  idx : ShareIdx
  deriving DecidableEq, Repr

abbrev VerifyFn := Key → Domain → Epoch → Root → Sig → Bool

/-- The cluster lock as both components receive it: `map[core.PubKey]map[int]tbls.PublicKey`. -/
abbrev Lock := Validator → Option (ShareIdx → Option Key)

/-- the public key share recorded in the lock for validator `v` and share index `i`. -/
def pubshare (L : Lock) (v : Validator) (i : ShareIdx) : Option Key := (L v).bind (· i)

/-- result classes (the Go driver maps error texts to the same enum). -/
inductive Res where
  | ok
  | pre          -- an accessor / constructor of the submitted object failed
  | notFound     -- the endpoint's validator lookup failed ("validator not found", …)
  | gate         -- propDataMatchesDuty / inner selection proof rejected
  | unknownValidator
  | badShare     -- "invalid shareIdx" (peer path)
  | notEth2      -- "invalid eth2 signed data"
  | objErr       -- Epoch() or MessageRoot() returned an error
  | zeroSig      -- "no signature found"
  | badSig       -- tbls.Verify failed
  | malformed    -- nil message / duty / data set (peer path)
  | gated        -- duty gater said no (peer path)
  | parse        -- ParSignedDataSetFromProto failed (peer path)
  | subErr       -- a subscriber returned an error (VC path; the calls made so far stand)
  deriving DecidableEq, Repr

/-- `core.VerifyEth2SignedData` + `signing.Verify`, preceded by the cast to `Eth2SignedData`
that both callers perform right before. -/
def verifyEth2 (verify : VerifyFn) (k : Key) (o : Obj) : Res :=
  match domainOf o.ty with
  | none => .notEth2
  | some d =>
    match o.epoch with
    | none => .objErr
    | some e =>
      match o.root with
      | none => .objErr
      | some r =>
        if o.sig = 0 then .zeroSig
        else if verify k d e r o.sig then .ok else .badSig

/-- first non-`ok` result of a list of checks performed in order with early return. -/
def firstFail (rs : List Res) : Option Res := rs.find? (· ≠ .ok)

/-- a Go map filled by successive `m[k] = v`: the last value per key stays. -/
def lastWins : List (Validator × Par) → List (Validator × Par)
  | [] => []
  | e :: es => if es.any (·.1 = e.1) then lastWins es else e :: lastWins es

/-- one invocation of a subscriber (`sub(ctx, duty, set)`): which subscriber, the duty, the set. -/
structure Call where
  sub    : Nat
  dutyTy : Int
  slot   : Nat
  set    : List (Validator × Par)
  deriving DecidableEq, Repr

/-! ### Validator client door: `validatorapi.Component` -/

inductive Endpoint where
  | submitAttestations | proposal | submitProposal | submitBlindedProposal | submitVoluntaryExit
  | beaconCommitteeSelections | submitAggregateAttestations | submitSyncCommitteeMessages
  | submitSyncCommitteeContributions | syncCommitteeSelections
  deriving DecidableEq, Repr

def Endpoint.all : List Endpoint :=
  [.submitAttestations, .proposal, .submitProposal, .submitBlindedProposal, .submitVoluntaryExit,
   .beaconCommitteeSelections, .submitAggregateAttestations, .submitSyncCommitteeMessages,
   .submitSyncCommitteeContributions, .syncCommitteeSelections]

/-- the Go method name. -/
def Endpoint.goName : Endpoint → String
  | .submitAttestations => "SubmitAttestations"
  | .proposal => "Proposal"
  | .submitProposal => "SubmitProposal"
  | .submitBlindedProposal => "SubmitBlindedProposal"
  | .submitVoluntaryExit => "SubmitVoluntaryExit"
  | .beaconCommitteeSelections => "BeaconCommitteeSelections"
  | .submitAggregateAttestations => "SubmitAggregateAttestations"
  | .submitSyncCommitteeMessages => "SubmitSyncCommitteeMessages"
  | .submitSyncCommitteeContributions => "SubmitSyncCommitteeContributions"
  | .syncCommitteeSelections => "SyncCommitteeSelections"

/-- the endpoint has a second gate besides the partial-signature check: `propDataMatchesDuty`
(both proposal submissions) or the verification of the inner selection proof under the
validator's group key (`VerifyAggregateAndProofSelection`, `VerifyEth2SignedData` of the
`SyncContributionAndProof`). -/
def Endpoint.hasGate : Endpoint → Bool
  | .submitProposal | .submitBlindedProposal => true
  | .submitAggregateAttestations | .submitSyncCommitteeContributions => true
  | _ => false

/-- sets are grouped by (slot, sync subcommittee) instead of slot only. -/
def Endpoint.bySubcomm : Endpoint → Bool
  | .submitSyncCommitteeContributions | .syncCommitteeSelections => true
  | _ => false

/-- `core.DutyType` of the duty handed to the subscribers. -/
def Endpoint.dutyTy : Endpoint → Int
  | .submitAttestations => 2
  | .proposal => 7
  | .submitProposal | .submitBlindedProposal => 1
  | .submitVoluntaryExit => 4
  | .beaconCommitteeSelections => 8
  | .submitAggregateAttestations => 9
  | .submitSyncCommitteeMessages => 10
  | .submitSyncCommitteeContributions => 12
  | .syncCommitteeSelections => 11

/-- One element of a request as the handler sees it. -/
structure Item where
  pre     : Bool              -- accessors and the `NewPartial…` constructor succeed
  val     : Option Validator  -- validator the endpoint resolves the element to (`none`: lookup failed)
  gate    : Bool              -- outcome of the endpoint's second gate (read only if `hasGate`)
  slot    : Nat               -- slot of the duty the element is filed under
  subcomm : Nat               -- sync subcommittee index (read only if `bySubcomm`)
  obj     : Obj
  deriving DecidableEq, Repr

/-- `verifyPartialSig`: `getVerifyShareFunc` (unknown public key), then the eth2 verification under
this node's share. `NewComponent` stores `shares[shareIdx]` — the zero key if the lock has no such
index, under which nothing verifies. -/
def verifyPartialSig (verify : VerifyFn) (L : Lock) (idx : ShareIdx) (v : Validator) (o : Obj) : Res :=
  match L v with
  | none => .unknownValidator
  | some m =>
    match m idx with
    | some k => verifyEth2 verify k o
    | none => verifyEth2 (fun _ _ _ _ _ => false) 0 o

/-- the checks one element goes through, in program order. -/
def checkItem (verify : VerifyFn) (L : Lock) (idx : ShareIdx) (ep : Endpoint) (it : Item) : Res :=
  if !it.pre then .pre else
  match it.val with
  | none => .notFound
  | some v =>
    if ep.hasGate && !it.gate then .gate
    else verifyPartialSig verify L idx v it.obj

abbrev GKey := Nat × Nat

def gkey (ep : Endpoint) (it : Item) : GKey := (it.slot, if ep.bySubcomm then it.subcomm else 0)

/-- distinct elements in order of first appearance. -/
def dedup : List GKey → List GKey
  | [] => []
  | g :: gs => g :: (dedup gs).filter (· ≠ g)

/-- distinct group keys in order of first appearance. -/
def groupKeys (ep : Endpoint) (items : List Item) : List GKey := dedup (items.map (gkey ep))

def entryOf (idx : ShareIdx) (it : Item) : Option (Validator × Par) :=
  it.val.map (fun v => (v, { obj := it.obj, idx := idx }))

/-- the `ParSignedDataSet` built for one group. -/
def setOf (idx : ShareIdx) (ep : Endpoint) (items : List Item) (g : GKey) : List (Validator × Par) :=
  lastWins ((items.filter (fun it => gkey ep it = g)).filterMap (entryOf idx))

/-- all subscriber invocations of a request that passed every check: for each group (in the map
iteration order `ord`) every subscriber in registration order. -/
def callsFor (idx : ShareIdx) (nsub : Nat) (ep : Endpoint) (items : List Item) (gs : List GKey) : List Call :=
  gs.flatMap fun g => (List.range nsub).map fun s =>
    { sub := s, dutyTy := ep.dutyTy, slot := g.1, set := setOf idx ep items g }

/-- A complete call of an endpoint. `idx`: this node's share index, `nsub`: number of registered
subscribers, `ord`: Go's iteration order over the per-slot map, `failAt`: the k-th subscriber
invocation (0-based) returns an error. Result: the class of the returned error and the subscriber
invocations that happened. -/
def admitVC (verify : VerifyFn) (L : Lock) (idx : ShareIdx) (nsub : Nat)
    (ord : List GKey → List GKey) (failAt : Option Nat) (ep : Endpoint) (items : List Item) :
    Res × List Call :=
  match firstFail (items.map (checkItem verify L idx ep)) with
  | some r => (r, [])
  | none =>
    let all := callsFor idx nsub ep items (ord (groupKeys ep items))
    match failAt with
    | none => (.ok, all)
    | some k => if k < all.length then (.subErr, all.take (k + 1)) else (.ok, all)

/-! ### Peer door: `parsigex.handle` -/

/-- `core.NewDutyGater` at a given instant. -/
structure Gater where
  spe      : Nat   -- slots per epoch
  curEpoch : Nat   -- epoch of the wall clock
  allowed  : Nat   -- allowedFutureEpochs
  sentinel : Int   -- dutySentinel
  deriving Repr

def Gater.allows (g : Gater) (ty : Int) (slot : Nat) : Bool :=
  decide (0 < ty) && decide (ty < g.sentinel) && decide (slot / g.spe ≤ g.curEpoch + g.allowed)

structure PeerMsg where
  wellFormed : Bool     -- message, duty and data set are non-nil
  dutyTy     : Int
  slot       : Nat
  parseOk    : Bool     -- ParSignedDataSetFromProto(duty.Type, …) succeeded
  entries    : List (Validator × Par)   -- the parsed set (a map: validators are distinct)
  deriving Repr

/-- the function returned by `NewEth2Verifier`. -/
def peerVerify (verify : VerifyFn) (L : Lock) (e : Validator × Par) : Res :=
  match L e.1 with
  | none => .unknownValidator
  | some m =>
    match m e.2.idx with
    | none => .badShare
    | some k => verifyEth2 verify k e.2.obj

/-- `handle`. `ord`: Go's iteration order over the received set in the verification loop (it only
decides which error is reported when several entries are bad). Subscriber errors are logged and
ignored, every subscriber is called. -/
def admitPeer (verify : VerifyFn) (L : Lock) (g : Gater) (nsub : Nat)
    (ord : List (Validator × Par) → List (Validator × Par)) (m : PeerMsg) : Res × List Call :=
  if !m.wellFormed then (.malformed, [])
  else if !g.allows m.dutyTy m.slot then (.gated, [])
  else if !m.parseOk then (.parse, [])
  else
    match firstFail ((ord m.entries).map (peerVerify verify L)) with
    | some r => (r, [])
    | none =>
      match firstFail (m.entries.map (peerVerify verify L)) with
      | some r => (r, [])
      | none =>
        (.ok, (List.range nsub).map fun s =>
          { sub := s, dutyTy := m.dutyTy, slot := m.slot, set := m.entries })

/-! ### What the translator T-vapi reports per handler (see `Generated/Vapi.lean`) -/

structure HandlerRow where
  method           : String
  verifiesBeforeSub : Bool   -- a checked `verifyPartialSig`/`verifyFunc` call dominates every subscriber call
  sameValue        : Bool   -- every value put into the set handed to subscribers is the verified value
  pubkeyArgSame    : Bool   -- … filed under the public key it was verified for
  deriving DecidableEq, Repr

def HandlerRow.good (r : HandlerRow) : Bool := r.verifiesBeforeSub && r.sameValue && r.pubkeyArgSame

end CharonV.Admit
