/-
Model of charon's FROST message routing in `dkg/frost.go` (core Lean only).

A Go `map[msgKey]T` is an association list in *iteration order*; the order is arbitrary (it is
the oracle all theorems quantify over), the keys are pairwise different.

* `round1Keys`      — the keys under which `round1` files a node's outgoing broadcasts / p2p shares
* `r2Cast`, `r2Share` — what `getRound2Inputs(castR1, p2pR1, vIdx)` hands to the participant of
  validator `vIdx` for source `src`: the loops `if key.ValIdx != vIdx {continue};
  m[key.SourceID] = &x` leave, for each source id, the *last* matching entry in iteration order
* `pubShareAt`      — `makeShares`: `pubShares[key.ValIdx][key.SourceID] = VkShare`, looked up
  as `PublicShares[v][j]`
-/
namespace CharonV.FrostGlue

/-- `msgKey` of `dkg/frost.go`. `targetID = 0` marks a broadcast. -/
structure MsgKey where
  valIdx   : Nat
  sourceID : Nat
  targetID : Nat
  deriving DecidableEq, Repr

/-- value of the last entry (in iteration order) whose key satisfies `pred`: the result of
`for k, x := range m { if !pred(k) {continue}; out = x }`. -/
def lastMatch {α : Type} (pred : MsgKey → Bool) : List (MsgKey × α) → Option α
  | [] => none
  | (k, a) :: rest =>
    match lastMatch pred rest with
    | some b => some b
    | none => if pred k then some a else none

/-- `getRound2Inputs`: the `Round1Bcast` given to validator `v`'s participant for source `src`. -/
def r2Cast {C : Type} (castR1 : List (MsgKey × C)) (v src : Nat) : Option C :=
  lastMatch (fun k => k.valIdx == v && k.sourceID == src) castR1

/-- `getRound2Inputs`: the Shamir share given to validator `v`'s participant for source `src`. -/
def r2Share {S : Type} (p2pR1 : List (MsgKey × S)) (v src : Nat) : Option S :=
  lastMatch (fun k => k.valIdx == v && k.sourceID == src) p2pR1

/-- source ids present in the round-2 input map of validator `v` (the map's key set). -/
def r2Sources {α : Type} (m : List (MsgKey × α)) (v : Nat) : List Nat :=
  ((m.filter (fun e => e.1.valIdx == v)).map (·.1.sourceID)).eraseDups

/-- `makeShares`: `PublicShares[v][j]` from the round-2 broadcasts. -/
def pubShareAt {P : Type} (r2Result : List (MsgKey × P)) (v j : Nat) : Option P :=
  lastMatch (fun k => k.valIdx == v && k.sourceID == j) r2Result

/-- key set of `PublicShares[v]`. -/
def pubShareKeys {P : Type} (r2Result : List (MsgKey × P)) (v : Nat) : List Nat :=
  r2Sources r2Result v

/-- `round1`: keys of the outgoing broadcasts and p2p shares of node `self` running validators
`vals`, each participant returning shares for the node ids `targets` (all other nodes). -/
def round1Keys (self : Nat) (vals targets : List Nat) : List MsgKey × List MsgKey :=
  (vals.map fun v => ⟨v, self, 0⟩,
   vals.flatMap fun v => targets.map fun tgt => ⟨v, self, tgt⟩)

/-- node ids other than `self` (`newFrostParticipants`' `otherIDs`), ids `1..n`. -/
def otherIDs (n self : Nat) : List Nat := ((List.range n).map (· + 1)).filter (· != self)

end CharonV.FrostGlue
