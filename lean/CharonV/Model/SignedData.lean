/-
Generic model of an implementation of `core.SignedData` (core/signeddata.go), parameterised by one ROW of the
table the translator T-signeddata (harness/cmd/trans-signeddata) extracts from the Go source for every
implementation and fork version:

  getSig    the field path `Signature()` reads              (SigFromETH2 of that field)
  setSig    the field path `SetSignature()` writes           (sig.ToETH2() into that field)
  setOn     which object is written and returned: the clone obtained from `clone()`, the receiver, or — for the
            bare `Signature` type — nothing is written and the parameter itself is returned
  rootKind / rootPaths   what `MessageRoot()` hashes
  cloneKind how `Clone()` copies (ssz / json round trip, byte copy, element-wise, or a plain struct copy)
  jsonEnc / jsonDec      the field MarshalJSON serialises / UnmarshalJSON fills for that version

A signed object is a flat content tree: one value per field path (`Obj.cells`); the sub-object at a path is the
restriction to the paths below it. Writing a leaf value at a path replaces that cell and clears whatever was
below it. The hash function is a parameter (`H`), so every statement holds for any hash.

Core Lean only.
-/
namespace CharonV.SignedData

abbrev Path := List String

/-- a field value: an opaque value (some content, or a 96-byte signature that was already in an object), or a
byte string handed in by a caller -/
inductive Val where
  | sym (n : Nat)
  | bytes (bs : List Nat)
deriving DecidableEq, Repr, Inhabited

def sigLen : Nat := 96

/-- `SigFromETH2 (s.ToETH2())`: `ToETH2` copies into a 96-byte array (truncating / zero padding), `SigFromETH2`
copies the array into a fresh 96-byte slice -/
def norm : Val → Val
  | .sym n => .sym n
  | .bytes bs => .bytes (bs.take sigLen ++ List.replicate (sigLen - bs.length) 0)

/-- a signature of the BLS signature length -/
def WellFormed : Val → Prop
  | .sym _ => True
  | .bytes bs => bs.length = sigLen

def Val.len : Val → Nat
  | .sym _ => sigLen
  | .bytes bs => bs.length

structure Obj where
  cells : Path → Val

/-- one path is a prefix of the other: the two fields overlap -/
def comparable (a b : Path) : Bool := a.isPrefixOf b || b.isPrefixOf a

/-- assignment of a leaf value to the field at `p` -/
def Obj.write (x : Obj) (p : Path) (v : Val) : Obj :=
  ⟨fun q => if q = p then v else if p.isPrefixOf q then .sym 0 else x.cells q⟩

/-- the sub-object at `p` -/
def Obj.sub (x : Obj) (p : Path) : Path → Val := fun q => x.cells (p ++ q)

inductive SetOn where
  | clone | receiver | param | mixed
deriving DecidableEq, Repr

inductive RootKind where
  | htr | htrWith | composite | func | field | unsupported | unknown
deriving DecidableEq, Repr

inductive CloneKind where
  | ssz | json | bytescopy | elementwise | structcopy | unknown
deriving DecidableEq, Repr

def CloneKind.deep : CloneKind → Bool
  | .ssz | .json | .bytescopy | .elementwise => true
  | _ => false

structure Row where
  typ : String
  variant : String
  getSig : Path
  setSig : Path
  setOn : SetOn
  rootKind : RootKind
  rootPaths : List Path
  cloneKind : CloneKind
  jsonEnc : Path
  jsonDec : Path
deriving DecidableEq, Repr

def SetOn.ofString (s : String) : SetOn :=
  if s == "clone" then .clone else if s == "receiver" then .receiver else if s == "param" then .param else .mixed

def RootKind.ofString (s : String) : RootKind :=
  if s == "htr" then .htr else if s == "htrWith" then .htrWith else if s == "composite" then .composite
  else if s == "func" then .func else if s == "field" then .field
  else if s == "unsupported" then .unsupported else .unknown

def CloneKind.ofString (s : String) : CloneKind :=
  if s == "ssz" then .ssz else if s == "json" then .json else if s == "bytescopy" then .bytescopy
  else if s == "elementwise" then .elementwise else if s == "structcopy" then .structcopy else .unknown

/-- decode one generated tuple -/
def Row.ofTuple (t : String × String × List String × List String × String × String × List (List String) × String × List String × List String) : Row :=
  let (typ, variant, g, s, on, rk, rps, ck, je, jd) := t
  { typ, variant, getSig := g, setSig := s, setOn := .ofString on, rootKind := .ofString rk, rootPaths := rps,
    cloneKind := .ofString ck, jsonEnc := je, jsonDec := jd }

/-! ### the four methods -/

/-- `Signature()` -/
def getSig (r : Row) (x : Obj) : Val := x.cells r.getSig

structure SetResult where
  /-- the returned object -/
  result : Obj
  /-- the receiver after the call -/
  receiver : Obj

/-- `SetSignature(s)`: the bare signature type returns its argument as it is; every other type writes
`s.ToETH2()` into the signature field of the clone (or, for a row that says so, of the receiver) -/
def setSig (r : Row) (x : Obj) (s : Val) : SetResult :=
  match r.setOn with
  | .param => ⟨x.write r.setSig s, x⟩
  | .clone => ⟨x.write r.setSig (norm s), x⟩
  | _ => ⟨x.write r.setSig (norm s), x.write r.setSig (norm s)⟩

/-- `MessageRoot()`: `none` = the type does not support it (error) -/
def root (H : List (Path → Val) → Val) (r : Row) (x : Obj) : Option Val :=
  match r.rootKind with
  | .unsupported => none
  | _ => some (H (r.rootPaths.map x.sub))

structure CloneResult where
  copy : Obj
  /-- the copy shares mutable memory with the original -/
  shares : Bool

/-- `Clone()` -/
def clone (r : Row) (x : Obj) : CloneResult := ⟨x, !r.cloneKind.deep⟩

/-- `UnmarshalJSON (MarshalJSON x)` into a fresh value: the field `jsonEnc` travels and lands at `jsonDec`
(the version tag and the blinded flag travel in the wrapper); every other field of the fresh value stays zero -/
def jsonRoundTrip (r : Row) (x : Obj) : Obj :=
  ⟨fun q => if r.jsonDec.isPrefixOf q then x.cells (r.jsonEnc ++ q.drop r.jsonDec.length) else .sym 0⟩

/-! ### the decidable well-formedness of a row -/

/-- what the laws need of a row: `Signature()` reads what `SetSignature()` writes; `SetSignature()` writes into
and returns the clone (or is the bare signature, which has no message); no hashed path overlaps the signature
field; a supported root hashes at least one field; `Clone()` is a deep copy; JSON carries one field that
contains both the signature and everything hashed, and decodes into the field it encoded. -/
def RowOk (r : Row) : Bool :=
  r.getSig == r.setSig
  && (r.setOn == .clone || (r.setOn == .param && r.getSig == [] && r.rootKind == .unsupported))
  && r.rootPaths.all (fun p => !comparable r.getSig p)
  && (r.rootKind != .unknown)
  && ((r.rootKind == .unsupported) == r.rootPaths.isEmpty)
  && r.cloneKind.deep
  && r.jsonEnc == r.jsonDec && r.jsonEnc.isPrefixOf r.getSig && r.rootPaths.all (fun p => r.jsonEnc.isPrefixOf p)

end CharonV.SignedData
