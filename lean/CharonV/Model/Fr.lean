/-
Executable scalar arithmetic of BLS12-381: the field `Fr = Z / r Z` on `Nat` representatives,
Shamir evaluation and Lagrange interpolation as computed by `tbls/herumi.go` (through herumi's
`SecretKey.Set` / `Recover`) and by kryptology's FROST DKG (`dkg/frost.go`).  Core Lean only.

All functions return canonical representatives (`< r`).  `inv` is Fermat inversion `a^(r-2)`
(`r` prime is *not* proved here; the correspondence drivers compare every result bit-for-bit with
the Go implementation, and `Props/C08.lean` proves the algebra over an arbitrary field).
-/
namespace CharonV.Fr

/-- order of the BLS12-381 groups G1, G2 (scalar field modulus). -/
def r : Nat := 0x73eda753299d7d483339d80809a1d80553bda402fffe5bfeffffffff00000001

def norm (a : Nat) : Nat := a % r
def add (a b : Nat) : Nat := (a + b) % r
def sub (a b : Nat) : Nat := (a % r + (r - b % r)) % r
def mul (a b : Nat) : Nat := (a * b) % r

/-- square-and-multiply; `fuel` ≥ number of bits of `e`. -/
def powAux : Nat → Nat → Nat → Nat → Nat
  | 0, _, _, acc => acc
  | fuel + 1, b, e, acc =>
    if e = 0 then acc
    else powAux fuel (mul b b) (e / 2) (if e % 2 = 1 then mul acc b else acc)

def pow (a e : Nat) : Nat := powAux 256 (a % r) e 1

/-- Fermat inverse (0 ↦ 0). -/
def inv (a : Nat) : Nat := pow a (r - 2)

def sum (xs : List Nat) : Nat := xs.foldl add 0

/-- Horner evaluation of `c₀ + c₁ x + … ` (coefficients lowest first), as `SecretKey.Set`. -/
def evalPoly (coeffs : List Nat) (x : Nat) : Nat :=
  coeffs.foldr (fun c acc => add c (mul acc x)) 0

/-- Lagrange coefficient of node `j` at the evaluation point `x` within the node list `ids`:
`∏_{k ≠ j} (x - k) / (j - k)`.  One inversion per coefficient. -/
def lagCoeffAt (ids : List Nat) (j x : Nat) : Nat :=
  let num := ids.foldl (fun acc k => if k = j then acc else mul acc (sub x k)) 1
  let den := ids.foldl (fun acc k => if k = j then acc else mul acc (sub j k)) 1
  mul num (inv den)

/-- value at `x` of the interpolation polynomial through `pts = [(id, y), …]`. -/
def interpolateAt (pts : List (Nat × Nat)) (x : Nat) : Nat :=
  let ids := pts.map (·.1)
  pts.foldl (fun acc p => add acc (mul (lagCoeffAt ids p.1 x) p.2)) 0

/-- `RecoverSecret` / `Recover`: interpolation at 0, `Σ_j (∏_{k≠j} k/(k-j)) · y_j`. -/
def lagrangeAt0 (pts : List (Nat × Nat)) : Nat := interpolateAt pts 0

/-- Lagrange coefficient at 0 (what `ThresholdAggregate` applies to the partial signature of `j`). -/
def lagCoeff0 (ids : List Nat) (j : Nat) : Nat := lagCoeffAt ids j 0

/-- do the points `rest` lie on the polynomial of degree `< base.length` through `base`? -/
def onPolynomial (base rest : List (Nat × Nat)) : Bool :=
  rest.all fun p => interpolateAt base p.1 == norm p.2

/-- `pts` (at least `t` of them) lie on one polynomial of degree `< t`. -/
def degreeLt (t : Nat) (pts : List (Nat × Nat)) : Bool :=
  onPolynomial (pts.take t) (pts.drop t)

/-! ### byte / hex helpers (big-endian, as herumi and kryptology serialise scalars) -/

def hexDigit? (c : Char) : Option Nat :=
  if '0' ≤ c ∧ c ≤ '9' then some (c.toNat - '0'.toNat)
  else if 'a' ≤ c ∧ c ≤ 'f' then some (c.toNat - 'a'.toNat + 10)
  else none

/-- parse a lower-case hex string as a big-endian number. -/
def ofHex? (s : String) : Option Nat :=
  s.toList.foldl (fun acc c => match acc, hexDigit? c with
    | some a, some d => some (a * 16 + d)
    | _, _ => none) (some 0)

def hexChar (d : Nat) : Char :=
  if d < 10 then Char.ofNat ('0'.toNat + d) else Char.ofNat ('a'.toNat + d - 10)

/-- `len` bytes big-endian, lower-case hex. -/
def toHex (len : Nat) (v : Nat) : String :=
  let rec go : Nat → Nat → List Char → List Char
    | 0, _, acc => acc
    | k + 1, v, acc => go k (v / 16) (hexChar (v % 16) :: acc)
  String.ofList (go (2 * len) v [])

def toHex32 (v : Nat) : String := toHex 32 v

/-- split a hex string into 32-byte (64 digit) big-endian chunks; a trailing partial chunk is dropped. -/
def chunks32 (s : String) : List Nat :=
  let rec go : Nat → List Char → List Nat → List Nat
    | 0, _, acc => acc.reverse
    | fuel + 1, cs, acc =>
      if cs.length < 64 then acc.reverse
      else match ofHex? (String.ofList (cs.take 64)) with
        | some v => go fuel (cs.drop 64) (v :: acc)
        | none => acc.reverse
  go (s.length / 64 + 1) s.toList []

end CharonV.Fr

/-!
## Model of `tbls/herumi.go` on scalars

`thresholdSplitInsecure` mirrors `Herumi.ThresholdSplitInsecure` (threshold check, secret
deserialisation, `generateInsecureSecret`'s retry loop over 32-byte big-endian reads, share `i` =
polynomial at identifier `i`, `i = 1..total`); `recoverSecret` mirrors `Herumi.RecoverSecret`.
The group operations (`SecretToPublicKey`, `Sign`, `ThresholdAggregate`, `Verify`) are linear in
the scalar, so the model predicts their *outcome* from the scalar combination (`combine`).
-/
namespace CharonV.TblsExec

open CharonV.Fr

inductive SplitRes where
  | errThreshold
  | errSecret
  | errRandom
  | ok (shares : List (Nat × Nat))
  deriving Repr, DecidableEq

/-- `generateInsecureSecret`: at most 100 reads; a read `≥ r` fails to deserialise and is retried. -/
def genInsecure : Nat → List Nat → Option (Nat × List Nat)
  | 0, _ => none
  | _ + 1, [] => none
  | fuel + 1, c :: cs => if c < r then some (c, cs) else genInsecure fuel cs

/-- coefficients 1..threshold-1 from the byte stream. -/
def genCoeffs : Nat → List Nat → Option (List Nat)
  | 0, _ => some []
  | k + 1, cs =>
    match genInsecure 100 cs with
    | none => none
    | some (c, rest) => (genCoeffs k rest).map (c :: ·)

def thresholdSplitInsecure (secret total threshold : Nat) (chunks : List Nat) : SplitRes :=
  if threshold ≤ 1 then .errThreshold
  else if secret ≥ r then .errSecret
  else match genCoeffs (threshold - 1) chunks with
    | none => .errRandom
    | some cs =>
      let poly := secret :: cs
      .ok ((List.range total).map fun i => (i + 1, evalPoly poly (i + 1)))

/-- `RecoverSecret` over the map `shares` (identifier ↦ share). herumi rejects an empty input,
identifier 0 and repeated identifiers. -/
def recoverSecret (shares : List (Nat × Nat)) : Option Nat :=
  let ids := shares.map (·.1)
  if shares.isEmpty ∨ ids.any (· % r == 0) ∨ ¬ ids.Nodup then none
  else some (lagrangeAt0 shares)

/-- scalar "in the exponent" of the Lagrange combination of group elements `y_j • P`. -/
def combine (shares : List (Nat × Nat)) : Option Nat := recoverSecret shares

end CharonV.TblsExec
