/-
`app/sse/listener.go` `handleChainReorgEvent` / `notifyChainReorg`: from the beacon node's
chain_reorg event (head slot, depth) to the epoch handed to the subscribers (`DutiesCache.InvalidateCache`,
`Scheduler.HandleChainReorgEvent`). Core Lean only.
-/
namespace CharonV.SseReorg

/-- outcome of one chain_reorg event at a listener whose last notified epoch is `last`. -/
inductive Out where
  | err                 -- depth exceeds slot: refused, nobody is notified
  | dup                 -- same epoch as the last notification: nobody is notified
  | notify (e : Nat)    -- subscribers are called with epoch `e`
  deriving DecidableEq, Repr

/-- `(slot - depth) / slotsPerEpoch`: the epoch of the common ancestor. -/
def reorgEpoch (slot depth spe : Nat) : Nat := (slot - depth) / spe

/-- the handler: new `lastReorgEpoch` and what happens. -/
def handle (spe last slot depth : Nat) : Nat × Out :=
  if slot < depth then (last, .err)
  else
    let e := reorgEpoch slot depth spe
    if e = last then (last, .dup) else (e, .notify e)

end CharonV.SseReorg
