/-
Executable model of the duty pipeline of a whole cluster for ONE duty and ONE validator
(C01): consensus decision → duty store → validator client signs → partial-signature store and
exchange → threshold → aggregation → broadcast. Core Lean only.

Each arrow is the guarantee of a component proved/checked elsewhere:
* `decide`  — `Consensus.Subscribe(DutyDB.Store)`: first store wins, a conflicting store is
              rejected (C06). Nothing here assumes that members decide the same value (C02 gives
              that; see `Props/C01.lean` for what each theorem needs).
* `sign`    — the validator client of member `i` signs only what its own duty store serves, with
              member `i`'s key share (share index = member index); `VAPI.Subscribe(ParSigDB.StoreInternal)`.
* `deliver` — `ParSigEx.Subscribe(ParSigDB.StoreExternal)`: a partial signature (share k, root r)
              reaches member `j`'s store only if it verifies for share k (C10); signatures are
              symbolic, so such a partial EXISTS only if member k is Byzantine or k's validator
              client signed r (unforgeability is built into the guard).
* store     — `parsigdb.MemDB.store` for one key: same share & same root → duplicate ignored;
              same share & other root → rejected, nothing changes; otherwise appended, and when
              some root's group then has exactly `threshold` entries the threshold subscribers run
              (`ParSigDB.SubscribeThreshold(SigAgg.Aggregate)`).
* aggregate — `sigagg`: threshold matching partials of distinct shares combine into a signature
              valid under the group key (C08/C09); the result goes to `AggSigDB.Store` and
              `Broadcaster.Broadcast` — recorded in `emitted`.
-/
namespace CharonV.Cluster

/-- `cluster.Threshold`: ⌈2n/3⌉. -/
def threshold (n : Nat) : Nat := (2 * n + 2) / 3

structure Cfg where
  n    : Nat
  byz  : Nat → Bool      -- Byzantine members
  root : Nat → Nat       -- decided unsigned value ↦ signing root of the object the VC signs

structure NodeSt where
  decided : Option Nat := none           -- duty store content (value)
  signed  : Option Nat := none           -- root the member's validator client signed
  parsigs : List (Nat × Nat) := []       -- partial-signature store: (share, root), newest first
  emitted : List Nat := []               -- roots of aggregates handed to Broadcast, newest first
  deriving Repr

abbrev State := Nat → NodeSt

inductive Op where
  | decide (i v : Nat)
  | sign (i : Nat)
  | deliver (j k r : Nat)
  deriving Repr

inductive Res where
  | ok | dup | clash | refused | noop
  deriving DecidableEq, Repr

/-- number of stored partials with root `r`. -/
def countRoot (ps : List (Nat × Nat)) (r : Nat) : Nat := (ps.filter (fun e => e.2 == r)).length

/-- `getThresholdMatching`: only the group of the partial just stored (root `r`) can have reached
the threshold now; it is reported when it has exactly `threshold` entries. -/
def thresholdRoot (n : Nat) (ps : List (Nat × Nat)) (r : Nat) : Option Nat :=
  if countRoot ps r = threshold n then some r else none

/-- `MemDB.store` + threshold subscribers for one key. Returns the new node state, the result
class and the roots emitted by this call. -/
def storePartial (n : Nat) (nd : NodeSt) (k r : Nat) : NodeSt × Res × List Nat :=
  match nd.parsigs.find? (fun e => e.1 == k) with
  | some e => if e.2 = r then (nd, .dup, []) else (nd, .clash, [])
  | none =>
    let ps := (k, r) :: nd.parsigs
    match thresholdRoot n ps r with
    | some r' => ({ nd with parsigs := ps, emitted := r' :: nd.emitted }, .ok, [r'])
    | none => ({ nd with parsigs := ps }, .ok, [])

def upd (s : State) (i : Nat) (nd : NodeSt) : State := fun j => if j = i then nd else s j

def step (c : Cfg) (s : State) : Op → State × Res × List Nat
  | .decide i v =>
    match (s i).decided with
    | none => (upd s i { s i with decided := some v }, .ok, [])
    | some w => if w = v then (s, .dup, []) else (s, .clash, [])
  | .sign i =>
    if c.byz i = true ∨ ¬ i < c.n then (s, .noop, []) else
    match (s i).decided, (s i).signed with
    | some v, none =>
      let nd1 := { s i with signed := some (c.root v) }
      let r := storePartial c.n nd1 i (c.root v)
      (upd s i r.1, r.2.1, r.2.2)
    | _, _ => (s, .noop, [])
  | .deliver j k r =>
    -- admission: the partial must verify for share k, i.e. it exists
    if k < c.n ∧ (c.byz k = true ∨ (s k).signed = some r) then
      let res := storePartial c.n (s j) k r
      (upd s j res.1, res.2.1, res.2.2)
    else (s, .refused, [])

def init : State := fun _ => {}

def run (c : Cfg) (s : State) : List Op → State
  | [] => s
  | o :: os => run c (step c s o).1 os

end CharonV.Cluster
