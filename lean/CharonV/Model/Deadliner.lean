/-
Model of `core/deadline.go` (`deadliner.run`, `Add`, `getCurrDuty`) — executable, core Lean only.

Correspondence with the Go code (one goroutine owns all state, so every execution is a
sequence of the atomic steps below):

* `duties`     — keys of the `duties` map (no duplicates).
* `curr`       — `currDuty`/`currDeadline`; `none` is the year-9999 sentinel.
* `fired`      — the current timer's channel holds a value (the fake/real clock reached
                 `currDeadline`, or the timer was created with a non-positive duration).
* `out`        — content of the buffered `deadlineChan` (capacity `cap`, 10 in the code).
* `reported`   — ghost history: every duty ever sent on `deadlineChan` (oldest first).
* `dropped`    — ghost history: duties hit by the `default:` branch (buffer full).
* `sched`      — ghost history: duties for which some `Add` returned `DeadlineScheduled`.

Events: `add d o` (a complete `Add` call, `o` = map-iteration oracle for `getCurrDuty`),
`advance k` (clock moves forward by `k`), `fire o` (the goroutine takes the timer branch of
its `select`; a no-op when the timer has not fired), `read` (consumer receives from `C()`).
-/
namespace CharonV.Deadliner

abbrev Duty := Nat

inductive Status where
  | expired | scheduled | exempt
  deriving DecidableEq, Repr

structure State where
  now      : Nat := 0
  duties   : List Duty := []
  curr     : Option Duty := none
  fired    : Bool := false
  out      : List Duty := []
  reported : List Duty := []
  dropped  : List Duty := []
  sched    : List Duty := []
  deriving Repr

inductive Ev where
  | add (d : Duty) (o : Nat)
  | advance (k : Nat)
  | fire (o : Nat)
  | read
  deriving Repr

inductive Out where
  | status (s : Status)
  | recv (d : Option Duty)
  | none
  deriving Repr

/-- deadline of a duty known to expire (0 for exempt duties, which never enter `duties`). -/
def dlOf (dl : Duty → Option Nat) (d : Duty) : Nat := (dl d).getD 0

/-- minimum deadline over a list of duties (`none` for the empty list). -/
def minDl (dl : Duty → Option Nat) : List Duty → Option Nat
  | [] => none
  | d :: ds =>
    match minDl dl ds with
    | none => some (dlOf dl d)
    | some m => some (Nat.min (dlOf dl d) m)

/-- `getCurrDuty`: some duty with the minimal deadline; which one among equals is decided by
Go's map iteration order, here the oracle `o`. -/
def getCurr (dl : Duty → Option Nat) (duties : List Duty) (o : Nat) : Option Duty :=
  match minDl dl duties with
  | none => none
  | some m =>
    let cands := duties.filter (fun d => dlOf dl d == m)
    cands[o % cands.length]?

/-- `setCurrState`: recompute the current duty and arm a new timer (which fires at once when
its duration is not positive; a value pending in the old timer's channel is discarded). -/
def setCurr (dl : Duty → Option Nat) (s : State) (o : Nat) : State :=
  let c := getCurr dl s.duties o
  { s with curr := c,
           fired := match c with
                    | none => false
                    | some d => decide (dlOf dl d ≤ s.now) }

/-- `deadline.Before(currDeadline)` (the sentinel is later than every real deadline). -/
def isEarlier (dl : Duty → Option Nat) (curr : Option Duty) (t : Nat) : Bool :=
  match curr with
  | none => true
  | some c => decide (t < dlOf dl c)

def step (dl : Duty → Option Nat) (cap : Nat) (s : State) : Ev → State × Out
  | .add d o =>
    match dl d with
    | none => (s, .status .exempt)
    | some t =>
      -- `!deadline.After(now)` (fix D-3; was `deadline.Before(now)`)
      if t ≤ s.now then (s, .status .expired)
      else
        let s0 := { s with sched := d :: s.sched }
        let s1 := if d ∈ s.duties then s0 else { s0 with duties := d :: s.duties }
        -- `if deadline.Before(currDeadline) { setCurrState() }`
        ((if isEarlier dl s.curr t then setCurr dl s1 o else s1), .status .scheduled)
  | .advance k =>
    let now' := s.now + k
    let f := match s.curr with
             | none => s.fired
             | some c => s.fired || decide (dlOf dl c ≤ now')
    ({ s with now := now', fired := f }, .none)
  | .fire o =>
    if s.fired then
      match s.curr with
      | none => (s, .none)  -- unreachable (invariant), kept total
      | some c =>
        let s1 := if s.out.length < cap
                  then { s with out := s.out ++ [c], reported := s.reported ++ [c] }
                  else { s with dropped := s.dropped ++ [c] }
        let s2 := { s1 with duties := s1.duties.erase c }
        (setCurr dl s2 o, .none)
    else (s, .none)
  | .read =>
    match s.out with
    | [] => (s, .recv none)
    | d :: rest => ({ s with out := rest }, .recv (some d))

def run (dl : Duty → Option Nat) (cap : Nat) (s : State) : List Ev → State
  | [] => s
  | e :: es => run dl cap (step dl cap s e).1 es

/-- Process timer events until the timer is no longer fired (at most `fuel` times). This is what
the lock-step harness observes after each `advance`/`add`: it waits for quiescence. -/
def flush (dl : Duty → Option Nat) (cap : Nat) : Nat → State → State
  | 0, s => s
  | fuel + 1, s => if s.fired then flush dl cap fuel (step dl cap s (.fire 0)).1 else s

end CharonV.Deadliner
