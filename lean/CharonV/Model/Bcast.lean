/-
C13 — model of the DKG reliable-broadcast protocol (`dkg/bcast/{impl,server,client}.go`).

Core Lean only. Cryptography is symbolic: the model is parametric in a `Crypto` record (hash,
sign, verify); every assumption on it is an explicit hypothesis of the theorems in
`CharonV.Props.C13`. The *input encoding* of the hash (`newHashAny`) is concrete.

Go                                                   model
---------------------------------------------------  ---------------------------------------
newHashAny: for each of session,id,typeUrl,value       `encode` = `field s ++ field i ++ field t ++ field v`
  write uint64 big-endian length, then the bytes        `field b` = `be64 |b| ++ b`
server.dedup  map[{PeerID,MsgID}]hash                  `Member.dedup`  (assoc list, `dget`)
Component.allowedMsgIDs / server.msgIDFuncs             `Member.allowed` (always updated together)
server.handleSigRequest                                 `onSigRequest`
Component.newPeerK1Verifier                             `verifySigs` / `verifyLoop`
server.handleMessage                                    `onMessage`
client.Broadcast                                        `cstart` (self-sign, NOT through dedup),
                                                         then `sigReq` at every other peer, the
                                                         client-side `verifySigs`, then `msg`;
                                                         sequential composite: `broadcast`
-/
namespace CharonV.Bcast

abbrev Peer := Nat

/-- A Go byte slice: its length is an `int`, hence below 2^64 (needed by the 8-byte prefix). -/
structure Bytes where
  data : List Nat
  small : data.length < 18446744073709551616

instance : DecidableEq Bytes := fun a b =>
  match a, b with
  | ⟨x, _⟩, ⟨y, _⟩ =>
    if h : x = y then isTrue (by subst h; rfl) else isFalse (fun e => h (by cases e; rfl))

theorem Bytes.ext {a b : Bytes} (h : a.data = b.data) : a = b := by
  cases a; cases b; cases h; rfl

def Bytes.ofList? (l : List Nat) : Option Bytes :=
  if h : l.length < 18446744073709551616 then some ⟨l, h⟩ else none

def Bytes.empty : Bytes := ⟨[], by decide⟩

/-- `binary.Write(h, binary.BigEndian, uint64(n))`. -/
def be64 (n : Nat) : List Nat :=
  [n / 72057594037927936 % 256, n / 281474976710656 % 256, n / 1099511627776 % 256,
   n / 4294967296 % 256, n / 16777216 % 256, n / 65536 % 256, n / 256 % 256, n % 256]

/-- The four fields written into the hash, in order. -/
structure HashIn where
  session : Bytes
  id : Bytes
  typeUrl : Bytes
  value : Bytes
  deriving DecidableEq

def field (b : Bytes) : List Nat := be64 b.data.length ++ b.data

/-- Byte string fed to SHA-256 by `newHashAny`. -/
def encode (h : HashIn) : List Nat :=
  field h.session ++ (field h.id ++ (field h.typeUrl ++ field h.value))

/-- `anypb.Any` (type URL and value bytes). -/
structure Payload where
  typeUrl : Bytes
  value : Bytes
  deriving DecidableEq

def hinOf (session id : Bytes) (P : Payload) : HashIn := ⟨session, id, P.typeUrl, P.value⟩

/-- Symbolic cryptography. `Digest` = SHA-256 output, `Sig` = 65-byte K1 signature.
The key of a peer is the peer itself (libp2p peer ids are public keys: `p2p.PeerIDToKey`). -/
structure Crypto (Digest Sig : Type) where
  hash : List Nat → Digest
  sign : Peer → Digest → Sig
  verify : Peer → Digest → Sig → Bool
  /-- `len(sig) == 65` -/
  wellFormed : Sig → Bool

/-- The application side: the registered `CheckMessage`, `Any.UnmarshalNew`, and the registered
`Callback` (`binds id P q` = the callback returns nil for payload `P` delivered from peer `q`). -/
structure Env where
  check : Peer → Bytes → Payload → Bool
  unm : Payload → Bool
  binds : Bytes → Payload → Peer → Bool

/-- Ceremony configuration shared by the members: ordered peer list and session hash. -/
structure Cfg where
  peers : List Peer
  session : Bytes

def dget {K V : Type} [DecidableEq K] : List (K × V) → K → Option V
  | [], _ => none
  | (a, v) :: t, k => if k = a then some v else dget t k

/-- State of one member's component. -/
structure Member (Digest : Type) where
  allowed : List Bytes := []
  dedup : List ((Peer × Bytes) × Digest) := []

inductive SigResp (Sig : Type) where
  | ok (s : Sig)
  | unknownId
  | checkFail
  | dup
  deriving DecidableEq

section
variable {Digest Sig : Type} [DecidableEq Digest]

/-- `RegisterMessageIDFuncs`. -/
def register (m : Member Digest) (id : Bytes) : Member Digest :=
  { m with allowed := id :: m.allowed }

/-- `server.handleSigRequest` at member `self`, request `(id, P)` received from `frm`.
`dedupHash` stores the hash when the key is absent and otherwise only accepts the same hash
(Go rewrites the equal value: no observable change). The signer's allow-list test cannot fail
here because the allow-list and `msgIDFuncs` are always updated together. -/
def onSigRequest (C : Crypto Digest Sig) (E : Env) (cfg : Cfg) (self : Peer) (m : Member Digest)
    (frm : Peer) (id : Bytes) (P : Payload) : Member Digest × SigResp Sig :=
  if m.allowed.contains id = false then (m, .unknownId)
  else if E.check frm id P = false then (m, .checkFail)
  else
    let d := C.hash (encode (hinOf cfg.session id P))
    match dget m.dedup (frm, id) with
    | some d' => if d' = d then (m, .ok (C.sign self d)) else (m, .dup)
    | none => ({ m with dedup := ((frm, id), d) :: m.dedup }, .ok (C.sign self d))

inductive VerifyRes where
  | ok | wrongCount | notAllowed | badLen | badSig
  deriving DecidableEq

/-- the loop of `newPeerK1Verifier`: `sigs[i]` against `peers[i]`, first failure wins. -/
def verifyLoop (C : Crypto Digest Sig) (d : Digest) : List Peer → List Sig → VerifyRes
  | p :: ps, s :: ss =>
    if C.wellFormed s = false then .badLen
    else if C.verify p d s = false then .badSig
    else verifyLoop C d ps ss
  | _, _ => .ok

/-- `newPeerK1Verifier`. -/
def verifySigs (C : Crypto Digest Sig) (cfg : Cfg) (m : Member Digest) (id : Bytes) (P : Payload)
    (sigs : List Sig) : VerifyRes :=
  if sigs.length ≠ cfg.peers.length then .wrongCount
  else if m.allowed.contains id = false then .notAllowed
  else verifyLoop C (C.hash (encode (hinOf cfg.session id P))) cfg.peers sigs

inductive MsgResp where
  | ok | wrongCount | notAllowed | badLen | badSig | badAny | cbErr
  deriving DecidableEq

/-- `server.handleMessage` (no state change). `ok` and `cbErr` are exactly the outcomes in which
the application callback was invoked; `ok` is the one in which it accepted. -/
def onMessage (C : Crypto Digest Sig) (E : Env) (cfg : Cfg) (m : Member Digest)
    (frm : Peer) (id : Bytes) (P : Payload) (sigs : List Sig) : MsgResp :=
  match verifySigs C cfg m id P sigs with
  | .wrongCount => .wrongCount
  | .notAllowed => .notAllowed
  | .badLen => .badLen
  | .badSig => .badSig
  | .ok =>
    if E.unm P = false then .badAny
    else if E.binds id P frm then .ok else .cbErr

def MsgResp.invoked : MsgResp → Bool
  | .ok => true | .cbErr => true | _ => false

/-! ## The ceremony as a system: members, network, ghost logs -/

inductive Via where
  | req (q : Peer)   -- answered a signature request of `q`
  | client           -- self-signed as the broadcasting client
  | foreign          -- signed with the same key in another session
  deriving DecidableEq

/-- ghost: one signature produced by `signer` over `hash (encode hin)`. -/
structure SignRec where
  signer : Peer
  hin : HashIn
  via : Via
  deriving DecidableEq

/-- ghost: one invocation of the application callback at member `at_`. -/
structure Delivery where
  at_ : Peer
  sender : Peer
  id : Bytes
  payload : Payload
  accepted : Bool
  deriving DecidableEq

structure World (Digest : Type) where
  mem : Peer → Member Digest := fun _ => {}
  signed : List SignRec := []
  started : List (Peer × Bytes × Payload) := []
  delivered : List Delivery := []

def upd {α : Type} (f : Peer → α) (k : Peer) (v : α) : Peer → α := fun x => if x = k then v else f x

inductive Ev (Sig : Type) where
  | reg (h : Peer) (id : Bytes)
  /-- member `a` calls `Broadcast(id, P)`: hash and self-sign (`signFunc`, no dedup). -/
  | cstart (a : Peer) (id : Bytes) (P : Payload)
  /-- member `h` handles a signature request carrying transport identity `q`. -/
  | sigReq (h q : Peer) (id : Bytes) (P : Payload)
  /-- member `h` handles a broadcast message carrying transport identity `q`. -/
  | msg (h q : Peer) (id : Bytes) (P : Payload) (sigs : List Sig)
  /-- key `k` signs `hin` while taking part in another session. -/
  | foreign (k : Peer) (hin : HashIn)

inductive Out (Sig : Type) where
  | none
  | selfSig (s : Option Sig)
  | sig (r : SigResp Sig)
  | msg (r : MsgResp)

def step (C : Crypto Digest Sig) (E : Env) (cfg : Cfg) (w : World Digest) :
    Ev Sig → World Digest × Out Sig
  | .reg h id => ({ w with mem := upd w.mem h (register (w.mem h) id) }, .none)
  | .cstart a id P =>
    let w1 := { w with started := (a, id, P) :: w.started }
    if (w.mem a).allowed.contains id then
      ({ w1 with signed := ⟨a, hinOf cfg.session id P, .client⟩ :: w1.signed },
        .selfSig (some (C.sign a (C.hash (encode (hinOf cfg.session id P))))))
    else (w1, .selfSig none)
  | .sigReq h q id P =>
    match onSigRequest C E cfg h (w.mem h) q id P with
    | (m', .ok s) =>
      ({ w with mem := upd w.mem h m', signed := ⟨h, hinOf cfg.session id P, .req q⟩ :: w.signed },
        .sig (.ok s))
    | (_, r) => (w, .sig r)
  | .msg h q id P sigs =>
    let r := onMessage C E cfg (w.mem h) q id P sigs
    if r.invoked then
      ({ w with delivered := ⟨h, q, id, P, r == .ok⟩ :: w.delivered }, .msg r)
    else (w, .msg r)
  | .foreign k hin => ({ w with signed := ⟨k, hin, .foreign⟩ :: w.signed }, .none)

def run (C : Crypto Digest Sig) (E : Env) (cfg : Cfg) (w : World Digest) : List (Ev Sig) → World Digest
  | [] => w
  | e :: es => run C E cfg (step C E cfg w e).1 es

/-- Assumptions on the environment of the honest members, checked per event against the state
it is applied to (`honest p = false`: `p`'s key is in the adversary's hands).

* authenticated transport + honest client behaviour: a request/message carrying the transport
  identity of an honest member `q` was really sent by `q`'s client, i.e. `q` called
  `Broadcast(id,P)`, never sends to itself, and sends the message only after every peer answered
  its signature request without error (for honest peers: they signed for requester `q`);
* unforgeability: a signature in a message that verifies for an honest key over digest `d` was
  produced by that key over `d` (in this or any other session);
* sessions: what honest keys sign elsewhere is signed under a different session hash. -/
def admissible [DecidableEq Sig] (C : Crypto Digest Sig) (cfg : Cfg) (honest : Peer → Bool)
    (w : World Digest) : Ev Sig → Bool
  | .reg _ _ => true
  | .cstart _ _ _ => true
  | .sigReq _ q id P => !honest q || w.started.contains (q, id, P)
  | .msg h q id P sigs =>
    (!honest q ||
      (h != q && w.started.contains (q, id, P) &&
        cfg.peers.all fun h' =>
          !honest h' || h' == q || w.signed.contains ⟨h', hinOf cfg.session id P, .req q⟩)) &&
    (cfg.peers.zip sigs).all fun ks =>
      !honest ks.1 || !C.verify ks.1 (C.hash (encode (hinOf cfg.session id P))) ks.2 ||
        w.signed.any fun r => r.signer == ks.1 &&
          decide (C.hash (encode r.hin) = C.hash (encode (hinOf cfg.session id P)))
  | .foreign _ hin => hin.session != cfg.session

def admRun [DecidableEq Sig] (C : Crypto Digest Sig) (E : Env) (cfg : Cfg) (honest : Peer → Bool)
    (w : World Digest) : List (Ev Sig) → Bool
  | [] => true
  | e :: es => admissible C cfg honest w e && admRun C E cfg honest (step C E cfg w e).1 es

/-! ## `client.Broadcast` as a sequential composite (used by the correspondence driver)

`ov h` describes what the transport returns for peer `h`'s signature request: `none` = the
request reaches `h`'s real handler; `some (some s)` = a (faulty) peer answers with `s` without
running the handler; `some none` = transport error. Requests are forked concurrently in Go; each
peer's handler only touches that peer's state, so the result does not depend on their order, and
with all requests in flight before the first failure every non-overridden handler runs. -/

inductive BcastRes where
  | ok | signFail | reqFail | verifyFail
  deriving DecidableEq

structure BcastOut (Sig : Type) where
  res : BcastRes
  reqs : List (Peer × Option (SigResp Sig)) := []   -- handler answers (none: overridden peer)
  sigs : List Sig := []                                -- the signature list sent, if any
  msgs : List (Peer × Option MsgResp) := []          -- per receiving peer (none: overridden peer)

def collect (C : Crypto Digest Sig) (E : Env) (cfg : Cfg) (a : Peer) (id : Bytes) (P : Payload)
    (ov : Peer → Option (Option Sig)) (self : Sig) :
    List Peer → World Digest → World Digest × List (Peer × Option (SigResp Sig)) × List (Option Sig)
  | [], w => (w, [], [])
  | h :: hs, w =>
    if h = a then
      let (w', rs, ss) := collect C E cfg a id P ov self hs w
      (w', rs, some self :: ss)
    else
      match ov h with
      | some o =>
        let (w', rs, ss) := collect C E cfg a id P ov self hs w
        (w', (h, none) :: rs, o :: ss)
      | none =>
        let (w1, o) := step C E cfg w (.sigReq h a id P)
        let r : SigResp Sig := match o with | .sig r => r | _ => .unknownId
        let (w', rs, ss) := collect C E cfg a id P ov self hs w1
        (w', (h, some r) :: rs, (match r with | .ok s => some s | _ => none) :: ss)

def sendAll (C : Crypto Digest Sig) (E : Env) (cfg : Cfg) (a : Peer) (id : Bytes) (P : Payload)
    (ov : Peer → Option (Option Sig)) (sigs : List Sig) :
    List Peer → World Digest → World Digest × List (Peer × Option MsgResp)
  | [], w => (w, [])
  | h :: hs, w =>
    if h = a then sendAll C E cfg a id P ov sigs hs w
    else
      match ov h with
      | some _ =>
        let (w', ms) := sendAll C E cfg a id P ov sigs hs w
        (w', (h, none) :: ms)
      | none =>
        let (w1, o) := step C E cfg w (.msg h a id P sigs)
        let r : MsgResp := match o with | .msg r => r | _ => .badAny
        let (w', ms) := sendAll C E cfg a id P ov sigs hs w1
        (w', (h, some r) :: ms)

def broadcast (C : Crypto Digest Sig) (E : Env) (cfg : Cfg) (w : World Digest) (a : Peer)
    (id : Bytes) (P : Payload) (ov : Peer → Option (Option Sig)) : World Digest × BcastOut Sig :=
  match step C E cfg w (.cstart a id P) with
  | (w1, .selfSig (some self)) =>
    let (w2, rs, ss) := collect C E cfg a id P ov self cfg.peers w1
    if ss.all Option.isSome then
      let sigs := ss.filterMap (fun x => x)
      match verifySigs C cfg (w2.mem a) id P sigs with
      | .ok =>
        let (w3, ms) := sendAll C E cfg a id P ov sigs cfg.peers w2
        (w3, { res := .ok, reqs := rs, sigs := sigs, msgs := ms })
      | _ => (w2, { res := .verifyFail, reqs := rs })
    else (w2, { res := .reqFail, reqs := rs })
  | (w1, _) =>
    -- self-sign refused (id not registered at the client): requests forked before the
    -- client's own position in the peer list are already in flight.
    let before := cfg.peers.takeWhile (· != a)
    let (w2, rs, _) := collect C E cfg a id P ov (C.sign a (C.hash [])) before w1
    (w2, { res := .signFail, reqs := rs })

end

/-! ## A concrete symbolic instance (driver, witnesses): the hash is the identity on its input -/

inductive SymSig where
  | good (k : Peer) (d : List Nat)
  | junk     -- 65 bytes that verify for nobody
  | short    -- wrong length
  deriving DecidableEq

def symC : Crypto (List Nat) SymSig where
  hash := fun l => l
  sign := .good
  verify := fun k d s => s == .good k d
  wellFormed := fun s => s != .short

end CharonV.Bcast
