/-
Timed cluster semantics on top of the implementation model `CharonV.Model.Qbft` (`step` = one
iteration of `qbft.Run`'s loop) — executable, core Lean only.

What is modelled
* a **global clock** `now : Nat` (nanoseconds, like `Model/RoundTimer.lean`; no clock drift: all
  members read the same clock);
* the **running members** `R` (duplicate-free list of member indices; everybody else has crashed
  or stays silent for the whole execution: it neither moves nor sends, and nothing is sent to it);
* per running member the closure state of its `qbft.Run` call (`NodeState`), everything it has
  output so far, everything that was delivered to it so far (`rcvd`, a history variable), its
  **round timer** (`timer = some deadline`, absolute) and the `firstDeadlines` table of its timer
  object (`firsts`, as in `RoundTimer.State`);
* the **network**: a broadcast at instant `τ` puts one packet per running member (the sender
  included, as in production) in flight; a packet sent at `τ` is delivered at an instant `t` with
  `τ + lo < t ≤ τ + hi`, chosen by the adversary, in any order relative to every other event of the
  same instant (`lo` = a lower bound of the latency, `0` if nothing is known; `hi` = `δ`);
* the **timer object** as a function `arm : Option Nat → Nat → Nat → Nat`: `arm first now round` is
  the absolute deadline returned by `Timer(round)` called at `now`, where `first` is the deadline
  the object stored at its first call for that round (`none` = this is the first call). The three
  production timers are instances (`relTimer`, `prodTimer`; `Model/RoundTimer.lean`). A deadline
  that has already passed fires at once (`max now deadline`), as `time.NewTimer` does;
* **urgency**: the clock cannot pass the deadline of an armed timer of a running member, nor
  `sent + hi` of a packet in flight: timers fire *exactly* at their deadline, packets are delivered
  within the bound. When a timer and deliveries are due at the same instant their order is free
  (Go's `select`);
* the `compare` callback succeeds (`CmpOut.ok`; the default configuration), inputs are part of the
  members' states (`start` hands the proposal over together with the call of `Run`).

An execution is a list of actions `TAct`; `texec` runs it and is `none` as soon as an action is not
enabled. `log` (every message broadcast so far) is a history variable, not read by the semantics.
-/
import CharonV.Model.Qbft
import CharonV.Model.RoundTimer

namespace CharonV.Qbft

/-- a message in flight to one running member -/
structure Packet where
  dst  : Nat
  msg  : Msg
  sent : Nat
  deriving DecidableEq, Repr

/-- a running member -/
structure TNode where
  st     : NodeState
  outs   : List Out := []             -- everything `Run` has output so far
  timer  : Option Nat := none         -- absolute deadline of the armed round timer
  firsts : List (Nat × Nat) := []     -- `firstDeadlines` of the member's timer object
  rcvd   : List Msg := []             -- everything delivered so far (history variable)

/-- parameters of a timed cluster -/
structure TParams where
  d   : Def
  R   : List Nat                      -- the running members
  lo  : Nat                           -- latency: delivery at `t` with `sent + lo < t ≤ sent + hi`
  hi  : Nat
  arm : Option Nat → Nat → Nat → Nat  -- the round-timer object: stored first deadline, now, round
  inp : Nat → Nat := fun _ => 0       -- proposals (0 = none), handed over by `start`

structure TState where
  now  : Nat
  node : Nat → TNode
  net  : List Packet := []
  log  : List Msg := []               -- every message broadcast so far (history variable)

/-- the adversary's moves -/
inductive TAct where
  | tick (dt : Nat)                   -- time passes
  | deliver (k : Nat) (o : Oracle)    -- the `k`-th packet in flight reaches its destination
  | fire (p : Nat)                    -- the round timer of `p` fires
  | start (p : Nat)                   -- `Run` is called at `p` (with its proposal, if it has one)
  deriving Repr

/-- the production transport: a broadcast of `p` becomes a wire message whose attachments are the
justification cores. -/
def twire (p : Nat) : Out → Option Msg
  | .bcast typ round value pr pv just => some { core := ⟨typ, p, round, value, pr, pv⟩, just := just }
  | _ => none

def twires (p : Nat) (outs : List Out) : List Msg := outs.filterMap (twire p)

/-- one packet per running member for every message -/
def sendAll (R : List Nat) (now : Nat) (msgs : List Msg) : List Packet :=
  msgs.flatMap (fun m => R.map (fun q => { dst := q, msg := m, sent := now }))

/-- effect of one output on the member's timer: `stopTimer()` / `d.NewTimer(round)`. -/
def armStep (arm : Option Nat → Nat → Nat → Nat) (now : Nat)
    (acc : Option Nat × List (Nat × Nat)) : Out → Option Nat × List (Nat × Nat)
  | .stopTimer => (none, acc.2)
  | .newTimer r =>
    let dl := arm (RoundTimer.lookup r acc.2) now r
    (some (max now dl), if (RoundTimer.lookup r acc.2).isSome then acc.2 else (r, dl) :: acc.2)
  | _ => acc

def armAll (arm : Option Nat → Nat → Nat → Nat) (now : Nat)
    (acc : Option Nat × List (Nat × Nat)) (outs : List Out) : Option Nat × List (Nat × Nat) :=
  outs.foldl (armStep arm now) acc

/-- member `p` handles the events `evs` (oracle `o`) at the current instant; `rc` = the message
delivered by this action (if any), `net` = what remains in flight. -/
def actNode (P : TParams) (s : TState) (p : Nat) (o : Oracle) (evs : List Event) (net : List Packet)
    (rc : List Msg) : TState :=
  let nd := s.node p
  let r := evs.foldl (fun (acc : NodeState × List Out) e =>
      ((step P.d o acc.1 e).1, acc.2 ++ (step P.d o acc.1 e).2)) (nd.st, [])
  let tm := armAll P.arm s.now (nd.timer, nd.firsts) r.2
  let ms := twires p r.2
  { now := s.now
    node := fun q => if q = p then
        { st := r.1, outs := nd.outs ++ r.2, timer := tm.1, firsts := tm.2, rcvd := nd.rcvd ++ rc }
      else s.node q
    net := net ++ sendAll P.R s.now ms
    log := s.log ++ ms }

/-- time may advance by `dt`: no armed timer of a running member and no delivery bound is passed. -/
def canTick (P : TParams) (s : TState) (dt : Nat) : Bool :=
  P.R.all (fun p => match (s.node p).timer with
    | some dl => decide (s.now + dt ≤ dl)
    | none => true) &&
  s.net.all (fun pk => decide (s.now + dt ≤ pk.sent + P.hi))

def inputEvents (v : Nat) : List Event := if v = 0 then [] else [.input v]

/-- one action; `none` = not enabled. -/
def tstep (P : TParams) (s : TState) : TAct → Option TState
  | .tick dt => if canTick P s dt then some { s with now := s.now + dt } else none
  | .deliver k o =>
    match s.net[k]? with
    | none => none
    | some pk =>
      if pk.sent + P.lo < s.now then
        some (actNode P s pk.dst o [.recv pk.msg .ok] (s.net.eraseIdx k) [pk.msg])
      else none
  | .fire p =>
    if p ∈ P.R ∧ (s.node p).timer = some s.now then some (actNode P s p {} [.timeout] s.net [])
    else none
  | .start p =>
    if p ∈ P.R ∧ (s.node p).st.started = false then
      some (actNode P s p {} (.start :: inputEvents (P.inp p)) s.net [])
    else none

/-- an execution -/
def texec (P : TParams) (s : TState) : List TAct → Option TState
  | [] => some s
  | a :: as =>
    match tstep P s a with
    | none => none
    | some s' => texec P s' as

/-! ### Timer objects -/

/-- a relative, stateless timer: `Timer(round)` fires `timeout round` after the call
(`increasingRoundTimer`, `linearRoundTimer`: `C04Timer.inc_call`, `linear_call`). -/
def relTimer (timeout : Nat → Nat) : Option Nat → Nat → Nat → Nat :=
  fun _ now r => now + timeout r

/-- the production timer object `c` (feature flag `pt`) as an `arm` function: the deadline
`RoundTimer.timerCall` returns in a state whose `firstDeadlines[round]` is `first`. -/
def prodTimer (c : RoundTimer.Cfg) (pt : Bool) : Option Nat → Nat → Nat → Nat :=
  fun first now r =>
    (RoundTimer.timerCall c pt { first := match first with | some f => [(r, f)] | none => [] } now r).2.deadline

/-! ### A cluster whose members have all been called and sit in round `r` (initial states of the
examples): member `p` has started, obtained its input and timed out `r - 1` times. -/

def freshNode (d : Def) (p iv r : Nat) : NodeState :=
  (run d {} { proc := p } (.start :: inputEvents iv ++ List.replicate (r - 1) .timeout)).1

end CharonV.Qbft
