/-
C12 — model of deposit data and builder registration messages: executable, core Lean only.

* `eth2util/deposit/deposit.go`: `NewMessage`, `withdrawalCredsFromAddr`, `MaxDepositAmount`,
  `VerifyDepositAmounts`, `EthsToGweis`, `DedupAmounts`, `DefaultDepositAmounts`, `getDepositDomain`,
  `GetMessageSigningRoot`, `MarshalDepositData` (per-entry roots, signature check, sort by pubkey),
  `MergeDepositDataSets`.
* `eth2util/registration/registration.go`: `NewMessage`, `executionAddressFromStr`,
  `getRegistrationDomain`, `GetMessageSigningRoot`.
* `eth2util/helpers.go` `ChecksumAddress` as far as its callers use it (the error only: the EIP-55
  string it returns is discarded by both callers, so no checksum is ever compared), and
  `eth2util/network.go` `supportedNetworks`, `AddTestNetwork`, `networkFromName`,
  `NetworkToForkVersion`, `NetworkToForkVersionBytes`.
* go-eth2-client generated `HashTreeRootWith` of `phase0.DepositMessage`, `phase0.DepositData`,
  `api/v1.ValidatorRegistration` (`ForkData` / `SigningData` are those of `CharonV.Model.Signing`).
* `cluster/lock.go` `verifyBuilderRegistrations`, per validator.

Go strings are byte strings here (`Bytes`): every string operation of the code modelled is byte-wise
(`strings.HasPrefix`, `len`, `hex.DecodeString`, `==`, `<`). SHA-256, the SSZ hash-walker (`Tree`) and
`compute_domain` / signing root are those of `CharonV.Model.SszSchema` / `CharonV.Model.Signing`; the
2-to-1 compression function `h` is a parameter (`Signing.sha2` is what the driver runs). BLS
verification is symbolic: a parameter `verify pubkey signingRoot signature`.
-/
import CharonV.Model.Signing

namespace CharonV.DepositReg

open CharonV.Ssz (Bytes Chunk mkChunk Tree unhex hexDigit)
open CharonV.Signing (computeDomain signingRoot zero32)

/-! ## constants of `eth2util/deposit` -/

def oneEthInGwei : Nat := 1000000000
def minDepositAmount : Nat := 1000000000
def defaultDepositAmount : Nat := 32000000000
def maxCompoundingDepositAmount : Nat := 2048000000000
def maxStandardDepositAmount : Nat := 32000000000

/-- 2^64. -/
def u64Mod : Nat := 18446744073709551616

/-- `DOMAIN_DEPOSIT`. -/
def depositDomainType : Bytes := [3, 0, 0, 0]
/-- `DOMAIN_APPLICATION_BUILDER`. -/
def registrationDomainType : Bytes := [0, 0, 0, 1]

/-- `MaxDepositAmount`. -/
def maxDepositAmount (compounding : Bool) : Nat :=
  if compounding then maxCompoundingDepositAmount else maxStandardDepositAmount

/-! ## `eth2util/network.go` -/

/-- the two fields of `eth2util.Network` that the code modelled reads. -/
structure Network where
  name : Bytes
  /-- `GenesisForkVersionHex`. -/
  forkHex : Bytes
  deriving DecidableEq, Repr

/-- `supportedNetworks` as declared: mainnet, goerli, gnosis, chiado, sepolia, hoodi (names and
`0x…` fork versions as ASCII). -/
def builtinNetworks : List Network := [
  ⟨[109,97,105,110,110,101,116], [48,120,48,48,48,48,48,48,48,48]⟩,   -- mainnet 0x00000000
  ⟨[103,111,101,114,108,105],    [48,120,48,48,48,48,49,48,50,48]⟩,   -- goerli  0x00001020
  ⟨[103,110,111,115,105,115],    [48,120,48,48,48,48,48,48,54,52]⟩,   -- gnosis  0x00000064
  ⟨[99,104,105,97,100,111],      [48,120,48,48,48,48,48,48,54,102]⟩,  -- chiado  0x0000006f
  ⟨[115,101,112,111,108,105,97], [48,120,57,48,48,48,48,48,54,57]⟩,   -- sepolia 0x90000069
  ⟨[104,111,111,100,105],        [48,120,49,48,48,48,48,57,49,48]⟩]   -- hoodi   0x10000910

/-- `networkFromName`: the first entry with that name. -/
def networkFromName (tbl : List Network) (name : Bytes) : Option Network :=
  tbl.find? (fun n => n.name == name)

/-- `strings.TrimPrefix(s, "0x")`. -/
def trimPrefix0x (s : Bytes) : Bytes :=
  match s with
  | 48 :: 120 :: r => r
  | _ => s

inductive NetErr | unknown | badHex
  deriving DecidableEq, Repr

/-- `NetworkToForkVersionBytes`. -/
def networkToForkVersionBytes (tbl : List Network) (name : Bytes) : Except NetErr Bytes :=
  match networkFromName tbl name with
  | none => .error .unknown
  | some n =>
    match unhex (trimPrefix0x n.forkHex) with
    | none => .error .badHex
    | some b => .ok b

/-- `var v [n]byte; copy(v[:], b)`. -/
def fitTo (n : Nat) (b : Bytes) : Bytes := (b ++ List.replicate n 0).take n

/-! ## addresses -/

/-- `eth2util.ChecksumAddress(address)` as seen by its two callers here, which drop the returned
EIP-55 string: `none` = error ("0x" prefix missing, length not 42, or not hex), `some b` = the 20
decoded bytes. Upper and lower case hex digits are accepted in any mix; no checksum is compared. -/
def checksumAddress (address : Bytes) : Option Bytes :=
  match address with
  | 48 :: 120 :: r => if address.length ≠ 42 then none else unhex r
  | _ => none

/-- Go `copy(dst[off:], src)` on a fixed-size array `dst`. -/
def copyAt (dst : Bytes) (off : Nat) (src : Bytes) : Bytes :=
  let n := min (dst.length - off) src.length
  dst.take off ++ src.take n ++ dst.drop (off + n)

inductive DErr
  | addr | decode | addrLen | min | max | wcLen | net | forkHex | sig
  | unexpected | missing | mismatch | sigParse
  deriving DecidableEq, Repr

/-- `withdrawalCredsFromAddr`. -/
def withdrawalCredsFromAddr (addr : Bytes) (compounding : Bool) : Except DErr Bytes :=
  match checksumAddress addr with
  | none => .error .addr
  | some _ =>
    match unhex (trimPrefix0x addr) with
    | none => .error .decode
    | some addrBytes =>
      let creds := zero32
      let creds := copyAt creds 0 (if compounding then [2] else [1])
      .ok (copyAt creds 12 addrBytes)

/-- `executionAddressFromStr`. -/
def executionAddressFromStr (addr : Bytes) : Except DErr Bytes :=
  match checksumAddress addr with
  | none => .error .addr
  | some _ =>
    match unhex (trimPrefix0x addr) with
    | none => .error .decode
    | some addrBytes => if addrBytes.length ≠ 20 then .error .addrLen else .ok addrBytes

/-! ## deposit messages -/

/-- `phase0.DepositMessage` (`PublicKey` is a `[48]byte`, `WithdrawalCredentials` a slice). -/
structure DepositMessage where
  pubkey : Bytes
  wc : Bytes
  amount : Nat
  deriving DecidableEq, Repr

/-- `phase0.DepositData`. -/
structure DepositData where
  pubkey : Bytes
  wc : Bytes
  amount : Nat
  sig : Bytes
  deriving DecidableEq, Repr

def DepositData.msg (d : DepositData) : DepositMessage := ⟨d.pubkey, d.wc, d.amount⟩

/-- `deposit.NewMessage`. -/
def newMessage (pubkey addr : Bytes) (amount : Nat) (compounding : Bool) : Except DErr DepositMessage :=
  match withdrawalCredsFromAddr addr compounding with
  | .error e => .error e
  | .ok creds =>
    if amount < minDepositAmount then .error .min
    else if amount > maxDepositAmount compounding then .error .max
    else .ok ⟨pubkey, creds, amount⟩

/-- the hasher operations of `DepositMessage.HashTreeRootWith` after its length check. -/
def DepositMessage.tree (m : DepositMessage) : Tree :=
  .cont [.raw m.pubkey, .raw m.wc, .u64 m.amount]

/-- the hasher operations of `DepositData.HashTreeRootWith` after its length check. -/
def DepositData.tree (d : DepositData) : Tree :=
  .cont [.raw d.pubkey, .raw d.wc, .u64 d.amount, .raw d.sig]

def okOf {ε α} : Except ε α → Option α
  | .ok a => some a
  | .error _ => none

section Hash
variable (h : Chunk → Chunk → Chunk)

/-- `DepositMessage.HashTreeRoot` (`none`: `ErrBytesLength` for the withdrawal credentials). -/
def depositMessageRoot (m : DepositMessage) : Option Chunk :=
  if m.wc.length ≠ 32 then none else okOf (m.tree.root h)

/-- `DepositData.HashTreeRoot`. -/
def depositDataRoot (d : DepositData) : Option Chunk :=
  if d.wc.length ≠ 32 then none else okOf (d.tree.root h)

/-- `getDepositDomain`: `compute_domain(DOMAIN_DEPOSIT, fork_version, zero root)`. -/
def getDepositDomain (forkVersion : Bytes) : Chunk :=
  computeDomain h depositDomainType forkVersion zero32

/-- the signing root for an already resolved fork version. -/
def depositSigningRootV (forkVersion : Bytes) (m : DepositMessage) : Option Chunk :=
  (depositMessageRoot h m).map fun r => signingRoot h r (getDepositDomain h forkVersion)

/-- `deposit.GetMessageSigningRoot(msg, network)`. -/
def depositSigningRoot (tbl : List Network) (m : DepositMessage) (network : Bytes) : Except DErr Chunk :=
  match depositMessageRoot h m with
  | none => .error .wcLen
  | some r =>
    match networkToForkVersionBytes tbl network with
    | .error .unknown => .error .net
    | .error .badHex => .error .forkHex
    | .ok fv => .ok (signingRoot h r (getDepositDomain h (fitTo 4 fv)))

/-! ### `MarshalDepositData` -/

/-- lower-case hex without prefix (`hex.EncodeToString`). -/
def hexLower (b : Bytes) : Bytes :=
  b.flatMap fun x => [hexDigit (x.toNat / 16), hexDigit (x.toNat % 16)]

/-- Go `<` on strings: byte-wise lexicographic. -/
def bytesLt : Bytes → Bytes → Bool
  | [], [] => false
  | [], _ :: _ => true
  | _ :: _, [] => false
  | a :: r, b :: s => if a < b then true else if b < a then false else bytesLt r s

/-- one element of the JSON array written to a deposit-data file (`depositDataJSON`). -/
structure DepositJSON where
  pubkey : Bytes            -- hex strings as ASCII bytes
  wc : Bytes
  amount : Nat
  sig : Bytes
  msgRoot : Bytes
  dataRoot : Bytes
  forkVersion : Bytes
  network : Bytes
  cliVersion : Bytes
  deriving DecidableEq, Repr

/-- `depositCliVersion` = "2.7.0". -/
def depositCliVersion : Bytes := [50, 46, 55, 46, 48]

/-- insertion of `x` before the first element that is not smaller. -/
def insertByPubkey (x : DepositJSON) : List DepositJSON → List DepositJSON
  | [] => [x]
  | y :: r => if bytesLt y.pubkey x.pubkey then y :: insertByPubkey x r else x :: y :: r

/-- `slices.SortFunc(ddList, by PubKey)`. Modelled as a stable sort; the order among entries with
equal pubkey is unspecified in Go (`slices.SortFunc` is not stable). -/
def sortByPubkey (l : List DepositJSON) : List DepositJSON := l.foldr insertByPubkey []

/-- the loop body of `MarshalDepositData` for one deposit data. -/
def marshalEntry (verify : Bytes → Chunk → Bytes → Bool) (tbl : List Network) (network forkVersionStr : Bytes)
    (d : DepositData) : Except DErr DepositJSON :=
  match depositMessageRoot h d.msg with
  | none => .error .wcLen
  | some msgRoot =>
    match depositSigningRoot h tbl d.msg network with
    | .error e => .error e
    | .ok sigData =>
      if !verify d.pubkey sigData d.sig then .error .sig
      else
        match depositDataRoot h d with
        | none => .error .wcLen
        | some dataRoot =>
          .ok { pubkey := hexLower d.pubkey, wc := hexLower d.wc, amount := d.amount, sig := hexLower d.sig,
                msgRoot := hexLower msgRoot.bytes, dataRoot := hexLower dataRoot.bytes,
                forkVersion := trimPrefix0x forkVersionStr, network := network,
                cliVersion := depositCliVersion }

def marshalLoop (verify : Bytes → Chunk → Bytes → Bool) (tbl : List Network) (network fvs : Bytes) :
    List DepositData → Except DErr (List DepositJSON)
  | [] => .ok []
  | d :: r =>
    match marshalEntry h verify tbl network fvs d with
    | .error e => .error e
    | .ok j =>
      match marshalLoop verify tbl network fvs r with
      | .error e => .error e
      | .ok js => .ok (j :: js)

/-- `MarshalDepositData` up to the JSON text: the array elements in file order. -/
def marshalDepositData (verify : Bytes → Chunk → Bytes → Bool) (tbl : List Network)
    (dds : List DepositData) (network : Bytes) : Except DErr (List DepositJSON) :=
  match networkFromName tbl network with
  | none => .error .net
  | some n =>
    match marshalLoop h verify tbl network n.forkHex dds with
    | .error e => .error e
    | .ok js => .ok (sortByPubkey js)

end Hash

/-! ## amounts -/

inductive AmountsVerdict | ok | errMin | errMax | errSum
  deriving DecidableEq, Repr

/-- the loop of `VerifyDepositAmounts`; `sum` is a `uint64` and wraps. -/
def verifyLoop (maxAmount : Nat) (sum : Nat) : List Nat → AmountsVerdict
  | [] => if sum < defaultDepositAmount then .errSum else .ok
  | a :: r =>
    if a < minDepositAmount then .errMin
    else if a > maxAmount then .errMax
    else verifyLoop maxAmount ((sum + a) % u64Mod) r

/-- `VerifyDepositAmounts`. -/
def verifyDepositAmounts (amounts : List Nat) (compounding : Bool) : AmountsVerdict :=
  if amounts.length = 0 then .ok else verifyLoop (maxDepositAmount compounding) 0 amounts

/-- the loop with the repair of `fixes/C12-deposit-amounts-sum-wrap.diff`: an amount is added only
while the sum is still below 32 ETH, so the `uint64` can no longer wrap. -/
def verifyLoopFixed (maxAmount : Nat) (sum : Nat) : List Nat → AmountsVerdict
  | [] => if sum < defaultDepositAmount then .errSum else .ok
  | a :: r =>
    if a < minDepositAmount then .errMin
    else if a > maxAmount then .errMax
    else verifyLoopFixed maxAmount (if sum < defaultDepositAmount then (sum + a) % u64Mod else sum) r

/-- `VerifyDepositAmounts` with that repair (not what /repo runs). -/
def verifyDepositAmountsFixed (amounts : List Nat) (compounding : Bool) : AmountsVerdict :=
  if amounts.length = 0 then .ok else verifyLoopFixed (maxDepositAmount compounding) 0 amounts

/-- `eth2p0.Gwei(OneEthInGwei * ethAmount)`: a 64-bit `int` product, reinterpreted as `uint64`. -/
def ethToGwei (eth : Int) : Nat := ((1000000000 * eth) % 18446744073709551616).toNat

/-- `EthsToGweis` (a nil and an empty argument both give nil: the empty list). -/
def ethsToGweis (eths : List Int) : List Nat := eths.map ethToGwei

/-- the loop of `DedupAmounts`: `used` are the keys of the map, `result` the slice appended to. -/
def dedupLoop (used result : List Nat) : List Nat → List Nat
  | [] => result
  | a :: r => if used.contains a then dedupLoop used result r else dedupLoop (a :: used) (result ++ [a]) r

def insertAsc (a : Nat) : List Nat → List Nat
  | [] => [a]
  | b :: r => if a ≤ b then a :: b :: r else b :: insertAsc a r

/-- `slices.Sort` on `uint64`s (any sorting algorithm gives this list). -/
def sortAsc (l : List Nat) : List Nat := l.foldr insertAsc []

/-- `DedupAmounts`: the distinct amounts, SORTED ascending (not in first-occurrence order). -/
def dedupAmounts (amounts : List Nat) : List Nat := sortAsc (dedupLoop [] [] amounts)

/-- `DefaultDepositAmounts`. -/
def defaultDepositAmounts (compounding : Bool) : List Nat :=
  if compounding then [minDepositAmount, 8 * oneEthInGwei, 32 * oneEthInGwei, 256 * oneEthInGwei]
  else [minDepositAmount, defaultDepositAmount]

/-- `MergeDepositDataSets`. The result of the general case is built by ranging over a Go map keyed by
amount: `ord` is the iteration order of its keys (an oracle: any permutation of the distinct
amounts present). -/
def mergeDepositDataSets (ord : List Nat) (a b : List (List DepositData)) : List (List DepositData) :=
  if a.length = 0 then b
  else if b.length = 0 then a
  else
    let all := a.flatten ++ b.flatten
    ord.filterMap fun v =>
      let g := all.filter (fun d => d.amount == v)
      if g.length > 0 then some g else none

/-- the keys of `ddm` in order of first insertion (one admissible `ord`). -/
def amountsOf (a b : List (List DepositData)) : List Nat :=
  ((a.flatten ++ b.flatten).map (·.amount)).eraseDups

/-! ## builder registrations -/

/-- `api/v1.ValidatorRegistration` (`FeeRecipient` `[20]byte`, `Pubkey` `[48]byte`); `timestamp` is
`Timestamp.Unix()`: the SSZ encoding reads nothing else of the `time.Time`. -/
structure Registration where
  fee : Bytes
  gasLimit : Nat
  timestamp : Int
  pubkey : Bytes
  deriving DecidableEq, Repr

/-- Go `uint64(x)` of an `int64` / `int`. -/
def toU64 (x : Int) : Nat := (x % 18446744073709551616).toNat

/-- `registration.NewMessage`. -/
def newRegistration (pubkey feeRecipient : Bytes) (gasLimit : Nat) (timestamp : Int) : Except DErr Registration :=
  match executionAddressFromStr feeRecipient with
  | .error e => .error e
  | .ok a => .ok ⟨a, gasLimit, timestamp, pubkey⟩

/-- the hasher operations of `ValidatorRegistration.HashTreeRootWith`. -/
def Registration.tree (r : Registration) : Tree :=
  .cont [.raw r.fee, .u64 r.gasLimit, .u64 (toU64 r.timestamp), .raw r.pubkey]

section Hash
variable (h : Chunk → Chunk → Chunk)

/-- `ValidatorRegistration.HashTreeRoot` (never fails). -/
def registrationRoot (r : Registration) : Option Chunk := okOf (r.tree.root h)

/-- `getRegistrationDomain`: `compute_domain(DOMAIN_APPLICATION_BUILDER, genesis_fork_version, zero root)`. -/
def getRegistrationDomain (genesisForkVersion : Bytes) : Chunk :=
  computeDomain h registrationDomainType genesisForkVersion zero32

/-- `registration.GetMessageSigningRoot`. -/
def registrationSigningRoot (genesisForkVersion : Bytes) (r : Registration) : Option Chunk :=
  (registrationRoot h r).map fun o => signingRoot h o (getRegistrationDomain h genesisForkVersion)

/-- `cluster.BuilderRegistration` as stored in a lock (`GasLimit` is an `int`). -/
structure StoredRegistration where
  fee : Bytes
  gasLimit : Int
  timestamp : Int
  pubkey : Bytes
  sig : Bytes
  deriving DecidableEq, Repr

/-- lock versions without builder registrations (`v1_0 … v1_6`), as ASCII. -/
def versionsWithoutRegistration : List Bytes :=
  [0, 1, 2, 3, 4, 5, 6].map fun i => [118, 49, 46, 48 + i, 46, 48]

/-- one iteration of `Lock.verifyBuilderRegistrations` (`valPubKey` has 48 bytes and `forkVersion` 4:
checked by `Lock.VerifySignatures` / the definition before this point). -/
def verifyBuilderRegistration (verify : Bytes → Chunk → Bytes → Bool) (version forkVersion valPubKey feeRecipientAddr : Bytes)
    (s : StoredRegistration) : Except DErr Unit :=
  let noRegistration : Bool := s.sig.length == 0 || s.fee.length == 0 || s.pubkey.length == 0
  if versionsWithoutRegistration.contains version then
    if !noRegistration then .error .unexpected else .ok ()
  else if noRegistration then .error .missing
  else
    match newRegistration valPubKey feeRecipientAddr (toU64 s.gasLimit) s.timestamp with
    | .error e => .error e
    | .ok regMsg =>
      if regMsg.fee ≠ s.fee ∨ regMsg.pubkey ≠ s.pubkey then .error .mismatch
      else
        match registrationSigningRoot h forkVersion regMsg with
        | none => .error .wcLen
        | some sigRoot =>
          if s.sig.length ≠ 96 then .error .sigParse
          else if !verify valPubKey sigRoot s.sig then .error .sig
          else .ok ()

end Hash

end CharonV.DepositReg
