/-
Model of the ceremony glue of `dkg/dkg.go` that runs AFTER the key-generation rounds, of the
partial-signature exchange `dkg/exchanger.go` and of `share.MsgFromShare` / `writeKeysToDisk`
(core Lean only; executable — the line driver `Driver/DkgRun.lean` runs it).

Conventions

* A Go `map[K]V` is an association list in *iteration order* with pairwise different keys; `get?`
  is the lookup, `put` is `m[k] = v` (overwrite in place, else append). A function that *ranges*
  over a map it was handed takes the list as it is: the order is the oracle the theorems quantify
  over (`for pk, psigs := range data` in the three aggregation functions, `range signedSet` in
  `parsigdb.StoreExternal`).
* Cryptography is a record of functions `Crypto` (sign, verify, threshold aggregate, plain aggregate,
  aggregate verification, the two signing-root hashes, secret ↦ public key). The line driver
  instantiates it symbolically (`Driver/DkgRun.lean`), `Proofs/DkgGlue.lean` algebraically
  (`Spec/Tbls`). Nothing in the model inspects a key or a signature except through this record and `=`.
* Node `i` (0-based peer index) holds share index `i+1` (`cluster.NodeIdx`).
* Ethereum addresses, gas limit, amounts are `Nat`s; a deposit message is (validator key,
  withdrawal address, amount), a registration (validator key, fee recipient, gas limit) — the genesis
  time and the fork version are constants of a ceremony.

What is mirrored (function by function, in the order of the code)

  `share.MsgFromShare`            → `msgPubShares`       ids of the map sorted, then looked up
  `signLockHash`                  → `signLockHash`
  `signDepositMsgs`               → `signDepositMsgs`    `withdrawalAddresses[i]` by position
  `signValidatorRegistrations`    → `signRegs`           `feeRecipients[idx]` by position
  `aggDepositData`                → `aggDepositData`     msgs[pk], pubkeyToPubShares[pk][ShareIdx], Verify,
                                                         psigs[ShareIdx] = sig, ThresholdAggregate, Verify
  `aggValidatorRegistrations`     → `aggRegs`
  `aggLockHashSig`                → `aggLockHashSig`     shares[pk].PublicShares[ShareIdx], Verify, Aggregate
  `createDistValidators`          → `createDistValidators`
  `signAndAggDepositData`, `signAndAggValidatorRegistrations`, head of `signAndAggLockHash`
                                  → `signAndAggDepositData`, `signAndAggRegs`, `lockValidators` (what the
                                                         exchange returned is an argument)
  `signAndAggLockHash` (tail)     → `lockFromAgg`        VerifyAggregate over the returned public shares
  `writeKeysToDisk`               → `keystore`
  `checkThreshold`                → `checkThreshold`
  `getExistingShares`             → `existingShares`     PubShares[idx] ↦ share index idx+1
  `verifyPeerShareIdx`            → `verifyPeerShareIdx`
  `newExchanger` gater, parsigex `handle`, `parsigdb.MemDB.store/StoreExternal` for `DutySignature`
  with the no-op deadliner, `pushPsigs`, `resolveQueriesUnsafe`
                                  → `gater`, `recv`, `storeExternal`, `query`
-/
namespace CharonV.DkgGlue

/-! ### Go maps -/

section Maps
variable {K V : Type} [DecidableEq K]

def get? : List (K × V) → K → Option V
  | [], _ => none
  | (k', v) :: r, k => if k' = k then some v else get? r k

def put : List (K × V) → K → V → List (K × V)
  | [], k, v => [(k, v)]
  | (k', v') :: r, k, v => if k' = k then (k, v) :: r else (k', v') :: put r k v

end Maps

def insertSorted (x : Nat) : List Nat → List Nat
  | [] => [x]
  | y :: ys => if x ≤ y then x :: y :: ys else y :: insertSorted x ys

/-- `slices.Sort` on ints. -/
def sortNat (xs : List Nat) : List Nat := xs.foldr insertSorted []

/-! ### Data -/

/-- `share.Share`. -/
structure Share (PK SK : Type) where
  pubKey    : PK
  secret    : SK
  pubShares : List (Nat × PK)      -- `map[int]tbls.PublicKey`, share index ↦ public share

/-- `core.ParSignedData` of a `core.Signature`: the signature and the share index it claims. -/
structure ParSig (Sig : Type) where
  sig      : Sig
  shareIdx : Nat
  deriving DecidableEq, Repr

structure DepositMsg (PK : Type) where
  pubKey : PK
  wd     : Nat
  amount : Nat
  deriving DecidableEq, Repr

structure RegMsg (PK : Type) where
  pubKey : PK
  fee    : Nat
  gas    : Nat
  deriving DecidableEq, Repr

structure DepositData (PK Sig : Type) where
  pubKey : PK
  wd     : Nat
  amount : Nat
  sig    : Sig
  deriving DecidableEq, Repr

structure Registration (PK Sig : Type) where
  pubKey : PK
  fee    : Nat
  gas    : Nat
  sig    : Sig
  deriving DecidableEq, Repr

/-- `cluster.DistValidator`; `reg = none` is the zero `BuilderRegistration{}`. -/
structure DistValidator (PK Sig : Type) where
  pubKey    : PK
  pubShares : List PK
  deposits  : List (DepositData PK Sig)
  reg       : Option (Registration PK Sig)
  deriving DecidableEq, Repr

/-- the cryptographic operations the glue calls (`tbls`, signing roots). -/
structure Crypto (PK SK Sig M : Type) where
  pub          : SK → PK                          -- `tbls.SecretToPublicKey`
  sign         : SK → M → Sig                     -- `tbls.Sign`
  verify       : PK → M → Sig → Bool              -- `tbls.Verify`
  thresholdAgg : List (Nat × Sig) → Sig           -- `tbls.ThresholdAggregate(map[int]Signature)`
  aggregate    : List Sig → Sig                   -- `tbls.Aggregate`
  verifyAgg    : List PK → Sig → M → Bool         -- `tbls.VerifyAggregate`
  depositRoot  : DepositMsg PK → M                -- `deposit.GetMessageSigningRoot`
  regRoot      : RegMsg PK → M                    -- `registration.GetMessageSigningRoot`

inductive Err where
  | nomsg        -- "deposit message not found" / "validator registration not found" (aggregation)
  | nopk         -- "invalid pubkey in … partial signature from peer"
  | noshare      -- "invalid pubshare"
  | badpartial   -- "invalid … partial signature from peer"
  | badagg       -- "invalid … aggregated signature"
  | noreg        -- createDistValidators: "validator registration not found"
  | nodd         -- createDistValidators: "deposit data not found for pubkey"
  | badmulti     -- signAndAggLockHash: "verify multisignature"
  | threshold    -- checkThreshold
  | panic        -- index out of range (`withdrawalAddresses[i]`, `feeRecipients[idx]`)
  | timeout      -- `exchange` returned no data ("timed out waiting for peer signatures")
  deriving DecidableEq, Repr

section Glue
variable {PK SK Sig M : Type} [DecidableEq PK]

/-- `share.MsgFromShare`: ids of the map sorted, then the public shares in that order. -/
def msgPubShares (s : Share PK SK) : List PK :=
  (sortNat (s.pubShares.map (·.1))).filterMap (get? s.pubShares)

/-- a `core.ParSignedDataSet` / any map keyed by the validator key built by a loop over `shares`. -/
abbrev SigSet (PK Sig : Type) := List (PK × ParSig Sig)

/-- `signLockHash`. -/
def signLockHash (C : Crypto PK SK Sig M) (shareIdx : Nat) (shares : List (Share PK SK)) (hash : M) :
    SigSet PK Sig :=
  shares.foldl (fun set s => put set s.pubKey ⟨C.sign s.secret hash, shareIdx⟩) []

/-- `signDepositMsgs`: the set and the `msgs` map; `none` = index out of range panic. -/
def signDepositMsgs (C : Crypto PK SK Sig M) (shares : List (Share PK SK)) (shareIdx : Nat)
    (wds : List Nat) (amount : Nat) : Option (SigSet PK Sig × List (PK × DepositMsg PK)) :=
  if wds.length < shares.length then none else
  some ((shares.zip wds).foldl (fun acc sw =>
    let msg : DepositMsg PK := ⟨sw.1.pubKey, sw.2, amount⟩
    (put acc.1 sw.1.pubKey ⟨C.sign sw.1.secret (C.depositRoot msg), shareIdx⟩, put acc.2 sw.1.pubKey msg))
    ([], []))

/-- `signValidatorRegistrations`. -/
def signRegs (C : Crypto PK SK Sig M) (shares : List (Share PK SK)) (shareIdx : Nat)
    (fees : List Nat) (gas : Nat) : Option (SigSet PK Sig × List (PK × RegMsg PK)) :=
  if fees.length < shares.length then none else
  some ((shares.zip fees).foldl (fun acc sf =>
    let msg : RegMsg PK := ⟨sf.1.pubKey, sf.2, gas⟩
    (put acc.1 sf.1.pubKey ⟨C.sign sf.1.secret (C.regRoot msg), shareIdx⟩, put acc.2 sf.1.pubKey msg))
    ([], []))

/-- `pubkeyToPubShares` of the two aggregation functions. -/
def pubkeyToPubShares (shares : List (Share PK SK)) : List (PK × List (Nat × PK)) :=
  shares.foldl (fun m s => put m s.pubKey s.pubShares) []

/-- inner loop of `aggDepositData` / `aggValidatorRegistrations`: every partial is verified under the
public share of the index it claims and filed under that index. -/
def collectPartials (C : Crypto PK SK Sig M) (pubshares : Option (List (Nat × PK))) (root : M) :
    List (ParSig Sig) → List (Nat × Sig) → Except Err (List (Nat × Sig))
  | [], acc => .ok acc
  | s :: rest, acc =>
    match pubshares with
    | none => .error .nopk
    | some ps =>
      match get? ps s.shareIdx with
      | none => .error .noshare
      | some pubshare =>
        if C.verify pubshare root s.sig then collectPartials C pubshares root rest (put acc s.shareIdx s.sig)
        else .error .badpartial

/-- one iteration of `for pk, psigsData := range data` in `aggDepositData`. -/
def aggDepositOne (C : Crypto PK SK Sig M) (p2ps : List (PK × List (Nat × PK)))
    (msgs : List (PK × DepositMsg PK)) (pk : PK) (psigs : List (ParSig Sig)) :
    Except Err (DepositData PK Sig) :=
  match get? msgs pk with
  | none => .error .nomsg
  | some msg =>
    let root := C.depositRoot msg
    match collectPartials C (get? p2ps pk) root psigs [] with
    | .error e => .error e
    | .ok m =>
      let asig := C.thresholdAgg m
      if C.verify pk root asig then .ok ⟨msg.pubKey, msg.wd, msg.amount, asig⟩ else .error .badagg

/-- `aggDepositData`: the result is in the iteration order of `data`; the first error ends the call. -/
def aggDepositData (C : Crypto PK SK Sig M) (data : List (PK × List (ParSig Sig)))
    (shares : List (Share PK SK)) (msgs : List (PK × DepositMsg PK)) :
    Except Err (List (DepositData PK Sig)) :=
  match data with
  | [] => .ok []
  | (pk, psigs) :: rest =>
    match aggDepositOne C (pubkeyToPubShares shares) msgs pk psigs with
    | .error e => .error e
    | .ok dd =>
      match aggDepositData C rest shares msgs with
      | .error e => .error e
      | .ok r => .ok (dd :: r)

def aggRegOne (C : Crypto PK SK Sig M) (p2ps : List (PK × List (Nat × PK)))
    (msgs : List (PK × RegMsg PK)) (pk : PK) (psigs : List (ParSig Sig)) :
    Except Err (Registration PK Sig) :=
  match get? msgs pk with
  | none => .error .nomsg
  | some msg =>
    let root := C.regRoot msg
    match collectPartials C (get? p2ps pk) root psigs [] with
    | .error e => .error e
    | .ok m =>
      let asig := C.thresholdAgg m
      if C.verify pk root asig then .ok ⟨msg.pubKey, msg.fee, msg.gas, asig⟩ else .error .badagg

/-- `aggValidatorRegistrations`. -/
def aggRegs (C : Crypto PK SK Sig M) (data : List (PK × List (ParSig Sig)))
    (shares : List (Share PK SK)) (msgs : List (PK × RegMsg PK)) :
    Except Err (List (Registration PK Sig)) :=
  match data with
  | [] => .ok []
  | (pk, psigs) :: rest =>
    match aggRegOne C (pubkeyToPubShares shares) msgs pk psigs with
    | .error e => .error e
    | .ok reg =>
      match aggRegs C rest shares msgs with
      | .error e => .error e
      | .ok r => .ok (reg :: r)

/-- `pubkeyToShares` of `signAndAggLockHash`. -/
def pubkeyToShares (shares : List (Share PK SK)) : List (PK × Share PK SK) :=
  shares.foldl (fun m s => put m s.pubKey s) []

/-- inner loop of `aggLockHashSig` for one validator key: verified signatures and the public shares
they verified under, appended in arrival order. -/
def lockPartials (C : Crypto PK SK Sig M) (sh : Option (Share PK SK)) (hash : M) :
    List (ParSig Sig) → List Sig × List PK → Except Err (List Sig × List PK)
  | [], acc => .ok acc
  | s :: rest, acc =>
    match sh with
    | none => .error .nopk
    | some sh =>
      match get? sh.pubShares s.shareIdx with
      | none => .error .noshare
      | some pubshare =>
        if C.verify pubshare hash s.sig then lockPartials C (some sh) hash rest (acc.1 ++ [s.sig], acc.2 ++ [pubshare])
        else .error .badpartial

def lockCollect (C : Crypto PK SK Sig M) (shares : List (PK × Share PK SK)) (hash : M) :
    List (PK × List (ParSig Sig)) → List Sig × List PK → Except Err (List Sig × List PK)
  | [], acc => .ok acc
  | (pk, psigs) :: rest, acc =>
    match lockPartials C (get? shares pk) hash psigs acc with
    | .error e => .error e
    | .ok acc' => lockCollect C shares hash rest acc'

/-- `aggLockHashSig`: the plain aggregate of every verified partial and the public shares. -/
def aggLockHashSig (C : Crypto PK SK Sig M) (data : List (PK × List (ParSig Sig)))
    (shares : List (PK × Share PK SK)) (hash : M) : Except Err (Sig × List PK) :=
  match lockCollect C shares hash data ([], []) with
  | .error e => .error e
  | .ok (sigs, pks) => .ok (C.aggregate sigs, pks)

/-- tail of `signAndAggLockHash`: aggregate, then `tbls.VerifyAggregate` over the returned shares. -/
def lockFromAgg (C : Crypto PK SK Sig M) (data : List (PK × List (ParSig Sig)))
    (shares : List (Share PK SK)) (hash : M) : Except Err Sig :=
  match aggLockHashSig C data (pubkeyToShares shares) hash with
  | .error e => .error e
  | .ok (sig, pks) => if C.verifyAgg pks sig hash then .ok sig else .error .badmulti

/-- position of the first registration for `pk` (`for i, reg := range valRegs … break`). -/
def findReg (pk : PK) : List (Registration PK Sig) → Option (Registration PK Sig)
  | [] => none
  | r :: rest => if r.pubKey = pk then some r else findReg pk rest

/-- `depositDatasMap[pk]`: the entries for `pk` in amount-major order. -/
def depositsFor (pk : PK) (depositDatas : List (List (DepositData PK Sig))) : List (DepositData PK Sig) :=
  depositDatas.flatten.filter (fun dd => decide (dd.pubKey = pk))

/-- `createDistValidators`: one validator per share, in the order of `shares`. -/
def createDistValidators (shares : List (Share PK SK)) (depositDatas : List (List (DepositData PK Sig)))
    (valRegs : List (Registration PK Sig)) : Except Err (List (DistValidator PK Sig)) :=
  match shares with
  | [] => .ok []
  | s :: rest =>
    match findReg s.pubKey valRegs with
    | none => .error .noreg
    | some reg =>
      match depositsFor s.pubKey depositDatas with
      | [] => .error .nodd          -- the key is in the map iff at least one entry was appended
      | dds =>
        match createDistValidators rest depositDatas valRegs with
        | .error e => .error e
        | .ok r => .ok (⟨s.pubKey, msgPubShares s, dds, some reg⟩ :: r)

/-- `if !cluster.SupportPregenRegistrations(def.Version) { vals[i].BuilderRegistration = {} }`. -/
def clearRegs (pregen : Bool) (vals : List (DistValidator PK Sig)) : List (DistValidator PK Sig) :=
  if pregen then vals else vals.map fun v => { v with reg := none }

/-- `signAndAggDepositData`: per amount (in the order of `depositAmounts`) sign, exchange under
sigType `sigDepositData + i`, aggregate. `exch` is what the exchange returned per amount (oracle:
the network is not part of this function). -/
def signAndAggDepositData (C : Crypto PK SK Sig M) (shares : List (Share PK SK)) (shareIdx : Nat) (wds : List Nat) :
    List Nat → List (List (PK × List (ParSig Sig))) → Except Err (List (List (DepositData PK Sig)))
  | [], _ => .ok []
  | a :: as, exch =>
    match signDepositMsgs C shares shareIdx wds a with
    | none => .error .panic
    | some (_, msgs) =>
      match exch with
      | [] => .error .timeout
      | data :: rest =>
        match aggDepositData C data shares msgs with
        | .error e => .error e
        | .ok dd =>
          match signAndAggDepositData C shares shareIdx wds as rest with
          | .error e => .error e
          | .ok r => .ok (dd :: r)

/-- `signAndAggValidatorRegistrations`. -/
def signAndAggRegs (C : Crypto PK SK Sig M) (shares : List (Share PK SK)) (shareIdx : Nat) (fees : List Nat)
    (gas : Nat) (exch : List (PK × List (ParSig Sig))) : Except Err (List (Registration PK Sig)) :=
  match signRegs C shares shareIdx fees gas with
  | none => .error .panic
  | some (_, msgs) => aggRegs C exch shares msgs

/-- the validators of the lock as `Run` builds them: `signAndAggDepositData`,
`signAndAggValidatorRegistrations`, then the head of `signAndAggLockHash` (`createDistValidators`,
registrations cleared for versions without pre-generated registrations). -/
def lockValidators (C : Crypto PK SK Sig M) (shares : List (Share PK SK)) (shareIdx : Nat) (wds fees : List Nat)
    (gas : Nat) (amounts : List Nat) (pregen : Bool) (exchDep : List (List (PK × List (ParSig Sig))))
    (exchReg : List (PK × List (ParSig Sig))) : Except Err (List (DistValidator PK Sig)) :=
  match signAndAggDepositData C shares shareIdx wds amounts exchDep with
  | .error e => .error e
  | .ok dds =>
    match signAndAggRegs C shares shareIdx fees gas exchReg with
    | .error e => .error e
    | .ok regs =>
      match createDistValidators shares dds regs with
      | .error e => .error e
      | .ok vals => .ok (clearRegs pregen vals)

/-- `writeKeysToDisk`: keystore `i` holds the secret of `shares[i]`. -/
def keystore (shares : List (Share PK SK)) : List SK := shares.map (·.secret)

/-- `getExistingShares`: lock validator `i` and secret `i`; `PubShares[idx]` has share index `idx+1`. -/
def existingShares (vals : List (DistValidator PK Sig)) (secrets : List SK) : Option (List (Share PK SK)) :=
  if vals.length < secrets.length then none else
  some ((secrets.zip vals).map fun sv =>
    ⟨sv.2.pubKey, sv.1, (List.range sv.2.pubShares.length).filterMap fun i => (sv.2.pubShares[i]?).map fun p => (i + 1, p)⟩)

end Glue

/-! ### The cluster-changing protocols (`dkg/protocol*.go`, `dkg/protocolsteps.go`)

Reshare / add operators / remove operators / replace operator all run `pedersen.RunReshareDKG`
(algebra: `Props/C11.lean` `reshare_is_shamir`, `reshare_keeps_key`) and then
`updateLockProtocolStep`, which assembles the new lock from the OLD lock's validators and the new
shares. What differs between them is bookkeeping: the operator list, the threshold, under which key
a node's new public share is filed in `share.Share.PublicShares` (`processKey`:
`config.PeerMap[peer].ShareIdx`, the ORIGINAL share index) and at which point the new polynomial is
evaluated for it (remove-only: compact `1..n'`). -/

section Protocols
variable {PK SK Sig : Type} [DecidableEq PK]

/-- `updateLockProtocolStep`: `newLock.Validators = pctx.Lock.Validators` with
`Validators[vi].PubShares = MsgFromShare(pctx.Shares[vi]).PubShares`; everything else of a validator
(group key, deposit data, registration) is carried over. `none` = index out of range panic. -/
def updateLockValidators (oldVals : List (DistValidator PK Sig)) (shares : List (Share PK SK)) :
    Option (List (DistValidator PK Sig)) :=
  if shares.length < oldVals.length then none
  else some ((oldVals.zip shares).map fun vs => { vs.1 with pubShares := msgPubShares vs.2 })

/-- `storeKeys` of `writeArtifactsProtocolStep`: keystore `i` holds the new secret of validator `i`. -/
def storeKeys (shares : List (Share PK SK)) : List SK := shares.map (·.secret)

/-- `cluster.Threshold`: `ceil(2n/3)`. -/
def clusterThreshold (n : Nat) : Nat := (2 * n + 2) / 3

variable {O : Type} [DecidableEq O]

/-- add-operators: `allENRs = lock operators ++ new ENRs`. -/
def addOperators (ops new : List O) : List O := ops ++ new

/-- remove-operators `PostInit`: the operators that are not in `RemovingENRs`, in lock order. -/
def removeOperators (ops removing : List O) : List O := ops.filter (fun o => !removing.contains o)

/-- original share indices (1-based positions in the old lock) of the operators that stay: the keys
of the new `PublicShares` maps and of `exchangerPeerMap`, and the share index a remaining node
signs the new lock hash with. -/
def remainingShareIdx (ops removing : List O) : List Nat :=
  (List.range ops.length).filterMap fun i =>
    match ops[i]? with
    | some o => if removing.contains o then none else some (i + 1)
    | none => none

/-- remove-operators `PostInit`: the new threshold (`none` = "new-threshold is invalid"). -/
def removeThreshold (n removed newT : Nat) : Option Nat :=
  let newN := n - removed
  let dflt := clusterThreshold newN
  if newT ≠ 0 then (if newT ≥ newN ∨ newT < dflt then none else some newT) else some dflt

/-- replace-operator `GetPeers`: the new ENR takes the position of the first operator with the old
ENR (`none` = "old operator not found in lock"). -/
def replaceOperator (ops : List O) (old new : O) : Option (List O) :=
  match ops.idxOf? old with
  | none => none
  | some i => some (ops.set i new)

end Protocols

/-! ### `Run` in append mode (add validators) and in keymanager mode -/

section AppendMode
variable {PK SK Sig : Type}

/-- `Run`, append mode: `allShares := slices.Concat(existingShares, shares)` is what `writeKeysToDisk`
writes (and what signs the lock hash): the shares of the existing validators FIRST, then the new ones. -/
def appendKeyShares (existing new : List (Share PK SK)) : List (Share PK SK) := existing ++ new

/-- `signAndAggLockHash`, append mode: `vals = append(appendConfig.ClusterLock.Validators, vals...)`. -/
def appendLockValidators (oldVals newVals : List (DistValidator PK Sig)) : List (DistValidator PK Sig) :=
  oldVals ++ newVals

end AppendMode

/-- `writeKeysToKeymanager`: ONE `ImportKeystores` request; its error is the function's error.
`responses` is what the keymanager would answer to successive requests (`true` = 2xx). -/
def writeKeysToKeymanager (responses : List Bool) : Bool :=
  match responses with
  | r :: _ => r
  | [] => false

/-- the key-writing step of `Run` on one node: keymanager mode imports (nothing goes to disk), else
`writeKeysToDisk`; `Run` returns an error iff the step fails. -/
def runWritesKeys (keymanagerMode : Bool) (responses : List Bool) (diskOk : Bool) : Bool :=
  if keymanagerMode then writeKeysToKeymanager responses else diskOk

/-- a ceremony succeeds iff `Run` succeeds on every node. -/
def ceremonyOk (nodes : List Bool) : Bool := nodes.all id

/-- `checkThreshold`. -/
def checkThreshold (threshold numOperators : Nat) : Bool :=
  !(threshold < 2) && !(threshold > numOperators)

/-! ### The exchanger (`dkg/exchanger.go` over `parsigex` and `parsigdb.MemDB`) -/

section Exchanger
variable {PK Sig : Type} [DecidableEq PK] [DecidableEq Sig]

/-- `sigLock`, `sigValidatorRegistration`, `sigDepositData`. -/
def sigLock : Nat := 101
def sigValidatorRegistration : Nat := 102
def sigDepositData : Nat := 200

/-- `dutyGaterFunc` for a `DutySignature` duty of slot `tau` (the exchanger is created with the three
sigTypes, so every slot `≥ sigDepositData` passes). -/
def gater (tau : Nat) : Bool :=
  if tau ≥ sigDepositData then true else tau == sigLock || tau == sigValidatorRegistration

/-- `verifyPeerShareIdx`: the sender is a known peer and the data claims that peer's share index. -/
def verifyPeerShareIdx {P : Type} [DecidableEq P] (peerMap : List (P × Nat)) (sender : P) (d : ParSig Sig) : Bool :=
  match get? peerMap sender with
  | none => false
  | some idx => !(d.shareIdx ≤ 0) && d.shareIdx == idx

structure ExState (PK Sig : Type) where
  db    : List ((Nat × PK) × List (ParSig Sig)) := []          -- `sigdb.entries` (duty slot, validator key)
  store : List (Nat × List (PK × List (ParSig Sig))) := []     -- `sigData.store`

inductive StoreRes (Sig : Type) where
  | dup | mismatch | stored (sigs : List (ParSig Sig))

/-- `MemDB.store`: an entry with the same share index makes the call a no-op (identical) or an error
(different); else the value is appended and a copy of the list returned. -/
def dbStore (entries : List (ParSig Sig)) (v : ParSig Sig) : StoreRes Sig :=
  match entries.find? (fun s => s.shareIdx == v.shareIdx) with
  | some s => if s = v then .dup else .mismatch
  | none => .stored (entries ++ [v])

/-- loop of `MemDB.StoreExternal` (`DutySignature`, threshold `n`, deadliner always "scheduled"):
returns the database and `output`. An error for one entry does not stop the loop. -/
def storeLoop (n tau : Nat) : List (PK × ParSig Sig) → List ((Nat × PK) × List (ParSig Sig)) →
    List (PK × List (ParSig Sig)) → List ((Nat × PK) × List (ParSig Sig)) × List (PK × List (ParSig Sig))
  | [], db, out => (db, out)
  | (pk, v) :: rest, db, out =>
    match dbStore ((get? db (tau, pk)).getD []) v with
    | .dup => storeLoop n tau rest db out
    | .mismatch => storeLoop n tau rest db out
    | .stored sigs =>
      let db' := put db (tau, pk) sigs
      -- getThresholdMatching for DutySignature: `len(sigs) == threshold`
      if sigs.length == n then storeLoop n tau rest db' (put out pk sigs) else storeLoop n tau rest db' out

/-- `StoreExternal` followed by the threshold subscriber `pushPsigs` (`maps.Copy` into the store of
the sigType) when `output` is not empty. -/
def storeExternal (n : Nat) (st : ExState PK Sig) (tau : Nat) (set : List (PK × ParSig Sig)) : ExState PK Sig :=
  let (db, out) := storeLoop n tau set st.db []
  if out.isEmpty then { st with db := db }
  else
    let cur := (get? st.store tau).getD []
    { db := db, store := put st.store tau (out.foldl (fun m e => put m e.1 e.2) cur) }

/-- parsigex `handle`: gater, then every entry through `verifyPeerShareIdx`, then the subscriber.
Returns the state and whether the message was accepted. -/
def recv {P : Type} [DecidableEq P] (n : Nat) (peerMap : List (P × Nat)) (st : ExState PK Sig) (sender : P) (tau : Nat)
    (set : List (PK × ParSig Sig)) : ExState PK Sig × Bool :=
  if !gater tau then (st, false)
  else if set.all (fun e => verifyPeerShareIdx peerMap sender e.2) then (storeExternal n st tau set, true)
  else (st, false)

/-- `resolveQueriesUnsafe` for one query: the collected map once it has `expected` keys. -/
def query (st : ExState PK Sig) (tau expected : Nat) : Option (List (PK × List (ParSig Sig))) :=
  let data := (get? st.store tau).getD []
  if data.length == expected then some data else none

/-- what happens at one node's exchanger: its own `exchange(sigType, set)` stores the set
(`StoreInternal`; the broadcast to the peers is the peers' `recv`), or a set arrives from a peer. -/
inductive Ev (P PK Sig : Type) where
  | own (tau : Nat) (set : List (PK × ParSig Sig))
  | recv (sender : P) (tau : Nat) (set : List (PK × ParSig Sig))

def exStep {P : Type} [DecidableEq P] (n : Nat) (peerMap : List (P × Nat)) (st : ExState PK Sig) :
    Ev P PK Sig → ExState PK Sig
  | .own tau set => storeExternal n st tau set
  | .recv sender tau set => (recv n peerMap st sender tau set).1

/-- the exchanger after any sequence of own exchanges and deliveries. -/
def exRun {P : Type} [DecidableEq P] (n : Nat) (peerMap : List (P × Nat)) (evs : List (Ev P PK Sig)) : ExState PK Sig :=
  evs.foldl (exStep n peerMap) {}

end Exchanger

end CharonV.DkgGlue
