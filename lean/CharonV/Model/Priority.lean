/-
Model of the priority protocol's pure calculation and message admission (property C14, extension `Priority`):

* `core/priority/calculate.go`: `validateMsgs`, `sortInput`, `calculateResult`, `orderTopicResults`
* `core/priority/prioritiser.go`: `handleRequest` (+ the handler wrapper of `newInternal`) and the `requests` arm of
  `runInstance` (`addMsg`, `len(msgs) == len(peers)`, `startConsensus`)
* `core/priority/component.go`: `newMsgVerifier` (check order only; the signature itself is symbolic)
* `p2p/receive.go`: the decision logic of the stream handler `RegisterHandler` installs, over go-msgio's
  `uvarintReader.ReadMsg` (length-delimited frames)

Symbolic values. A topic / a priority (`anypb.Any`) is identified with its `hashProto` value (the Go code itself groups,
dedups and scores by that hash): a priority is a `Nat` id, a topic is the `Nat` read from the leading bytes of its hash
(`orderTopicResults` sorts by `bytes.Compare` of the hashes = numeric order of equally long big-endian prefixes). A peer
id is the `Nat` code of its string under an order preserving injection (`sortInput` compares the strings with `<`).
A duty is `none` (nil `*pbv1.Duty`) or `some d`, equal ids iff `proto.Equal`. Core Lean only.
-/
namespace CharonV.Priority

/-! ## 1. calculate.go -/

structure Topic where
  topic : Nat
  prios : List Nat
  deriving DecidableEq, Repr, Inhabited

structure Msg where
  duty   : Option Nat
  peer   : Nat
  topics : List Topic
  deriving DecidableEq, Repr, Inhabited

inductive Err where
  | empty | mismatch | dupPeer | dupTopic | maxPrio | dupPrio
  deriving DecidableEq, Repr

/-- `maxPriorities` = `countWeight` = 1000. -/
def maxPriorities : Nat := 1000

/-- `newDeduper` run over a list: is some element already in `seen` or repeated? -/
def dupIn (seen : List Nat) : List Nat → Bool
  | [] => false
  | x :: r => if x ∈ seen then true else dupIn (x :: seen) r

/-- the per-message topic loop of `validateMsgs` (first error wins). -/
def checkTopics (seen : List Nat) : List Topic → Option Err
  | [] => none
  | t :: r =>
    if t.topic ∈ seen then some .dupTopic
    else if t.prios.length ≥ maxPriorities then some .maxPrio
    else if dupIn [] t.prios then some .dupPrio
    else checkTopics (t.topic :: seen) r

/-- `if duty == nil { duty = msg.GetDuty() } else if !proto.Equal(duty, msg.GetDuty()) { error }`:
a nil duty never sets the reference (the next message does), and is unequal to every non-nil reference. -/
def dutyStep (cur : Option Nat) (d : Option Nat) : Option (Option Nat) :=
  match cur with
  | none => some d
  | some c => if d = some c then some cur else none

/-- the message loop of `validateMsgs`. -/
def validateLoop (duty : Option Nat) (seen : List Nat) : List Msg → Option Err
  | [] => none
  | m :: r =>
    match dutyStep duty m.duty with
    | none => some .mismatch
    | some duty' =>
      if m.peer ∈ seen then some .dupPeer
      else match checkTopics [] m.topics with
        | some e => some e
        | none => validateLoop duty' (m.peer :: seen) r

def validateMsgs (msgs : List Msg) : Option Err :=
  if msgs.isEmpty then some .empty else validateLoop none [] msgs

/-- insertion into a list sorted ascending by `k` (before the first element that is not smaller: stable). -/
def insertBy {α : Type} (k : α → Nat) (x : α) : List α → List α
  | [] => [x]
  | y :: r => if k x ≤ k y then x :: y :: r else y :: insertBy k x r

/-- ascending sort by key. `slices.SortFunc` (pdqsort, unstable) is only ever applied to pairwise different keys
(peer ids after `validateMsgs`, topic hashes out of a map), where every correct sort gives this list
(`Proofs.sortBy_eq_of_perm`). -/
def sortBy {α : Type} (k : α → Nat) (l : List α) : List α := l.foldr (insertBy k) []

def sortInput (msgs : List Msg) : List Msg := sortBy (·.peer) msgs

/-- `scores[priority] += s` together with `allPriorities = append(allPriorities, priority)` on first sight: an
association list in first-seen order. -/
def addScore (acc : List (Nat × Int)) (p : Nat) (s : Int) : List (Nat × Int) :=
  match acc with
  | [] => [(p, s)]
  | (q, t) :: r => if q = p then (q, t + s) :: r else (q, t) :: addScore r p s

/-- `for order, prio := range proposal.GetPriorities() { scores[prio] += countWeight - order }`. -/
def scoreProposal (acc : List (Nat × Int)) (i : Nat) : List Nat → List (Nat × Int)
  | [] => acc
  | p :: r => scoreProposal (addScore acc p ((maxPriorities : Int) - i)) (i + 1) r

def scoresOf (proposals : List (List Nat)) : List (Nat × Int) :=
  proposals.foldl (fun acc pr => scoreProposal acc 0 pr) []

/-- insertion for the stable sort by score decreasing: `x` stood before everything in the list. -/
def insertDesc (x : Nat × Int) : List (Nat × Int) → List (Nat × Int)
  | [] => [x]
  | y :: r => if x.2 ≥ y.2 then x :: y :: r else y :: insertDesc x r

/-- `slices.SortStableFunc(allPriorities, by score decreasing)`. -/
def sortDesc (l : List (Nat × Int)) : List (Nat × Int) := l.foldr insertDesc []

/-- `minScore := (minRequired - 1) * countWeight`. -/
def minScore (minRequired : Int) : Int := (minRequired - 1) * (maxPriorities : Int)

structure TopicResult where
  topic : Nat
  prios : List (Nat × Int)
  deriving DecidableEq, Repr, Inhabited

/-- every `(topic, priorities)` pair in the order the double loop over sorted messages visits them. -/
def allTopics (sorted : List Msg) : List Topic := sorted.flatMap (·.topics)

/-- `proposalsByTopic[k]`: appended in visiting order. -/
def proposalsFor (sorted : List Msg) (k : Nat) : List (List Nat) :=
  ((allTopics sorted).filter (fun t => t.topic = k)).map (·.prios)

def topicResult (sorted : List Msg) (minRequired : Int) (k : Nat) : TopicResult :=
  { topic := k
    prios := (sortDesc (scoresOf (proposalsFor sorted k))).filter (fun e => decide (e.2 > minScore minRequired)) }

/-- the keys of `proposalsByTopic` (each once, in some order; Go ranges over the map in any order, and
`orderTopicResults` sorts by the pairwise different hashes: `Proofs.sortBy_eq_of_perm` makes the order irrelevant). -/
def dedup : List Nat → List Nat
  | [] => []
  | x :: r => if x ∈ r then dedup r else x :: dedup r

def topicKeys (sorted : List Msg) : List Nat := dedup ((allTopics sorted).map (·.topic))

def topicsOf (sorted : List Msg) (minRequired : Int) : List TopicResult :=
  (sortBy id (topicKeys sorted)).map (topicResult sorted minRequired)

structure Result where
  msgs   : List Msg          -- `Msgs: msgs`: the input slice as given (arrival order)
  topics : List TopicResult
  deriving DecidableEq, Repr

def calculateResult (msgs : List Msg) (minRequired : Int) : Except Err Result :=
  match validateMsgs msgs with
  | some e => .error e
  | none => .ok { msgs := msgs, topics := topicsOf (sortInput msgs) minRequired }

/-! ## 2. prioritiser.go: admission of a peer's request and the `requests` arm of `runInstance` -/

/-- what `newMsgVerifier`'s closure looks at (signature symbolic: `sigBy` = the peer whose key recovers from it). -/
inductive Sig where
  | missing               -- `msg.Signature == nil`
  | malformed             -- `k1util.Recover` fails
  | by (peer : Nat)       -- recovers to this peer's key over this very message
  | other                 -- recovers to a key of nobody
  deriving DecidableEq, Repr

structure Wire where
  msg  : Msg
  sig  : Sig
  deriving DecidableEq, Repr

inductive HErr where
  | nilMsg | peerId | fields | unknownPeer | noSig | sigRecover | badSig | gated | expired | timeout
  deriving DecidableEq, Repr

/-- `newMsgVerifier`: nil duty, unknown peer, empty signature, recover error, wrong key - in this order. -/
def verifyMsg (cluster : List Nat) (w : Wire) : Option HErr :=
  if w.msg.duty = none then some .fields
  else if w.msg.peer ∉ cluster then some .unknownPeer
  else match w.sig with
    | .missing => some .noSig
    | .malformed => some .sigRecover
    | .by p => if p = w.msg.peer then none else some .badSig
    | .other => some .badSig

structure Cfg where
  cluster     : List Nat      -- peer ids of the cluster (`peers`)
  minRequired : Int
  gateMax     : Nat           -- gater: duty slot ≤ gateMax
  expBelow    : Nat           -- deadliner: duty slot < expBelow is expired
  deriving Repr

/-- duty ids of this part are slots (one duty type). -/
inductive Admission where
  | reject (e : HErr)
  | enqueue (duty : Nat)
  deriving DecidableEq, Repr

/-- `handleRequest` up to the enqueue: sender id, verifier, gater, deadliner - in this order. `none` = the handler
wrapper got a nil / wrongly typed message. -/
def admission (c : Cfg) (sender : Nat) (w : Option Wire) : Admission :=
  match w with
  | none => .reject .nilMsg
  | some w =>
    if sender ≠ w.msg.peer then .reject .peerId
    else match verifyMsg c.cluster w with
      | some e => .reject e
      | none =>
        match w.msg.duty with
        | none => .reject .fields
        | some d =>
          if d > c.gateMax then .reject .gated
          else if d < c.expBelow then .reject .expired
          else .enqueue d

/-- state of one `runInstance`. -/
structure Inst where
  duty     : Nat
  own      : Msg
  msgs     : List Msg         -- `msgs`, own first
  dedup    : List Nat         -- `dedupPeers` (own peer id is NOT in it)
  started  : Bool             -- `consStarted`
  aborted  : Option Err       -- `runInstance` returned the error of `calculateResult`
  proposed : Option Result
  deriving Repr

def Inst.start (duty : Nat) (own : Msg) : Inst :=
  { duty := duty, own := own, msgs := [own], dedup := [], started := false, aborted := none, proposed := none }

/-- `addMsg`. -/
def addMsg (i : Inst) (m : Msg) : Inst :=
  if m.peer ∈ i.dedup then i else { i with dedup := m.peer :: i.dedup, msgs := i.msgs ++ [m] }

/-- the check after every event: `!consStarted && len(msgs) == len(peers)` → `startConsensus`. -/
def maybeStart (c : Cfg) (i : Inst) : Inst :=
  if !i.started && i.msgs.length == c.cluster.length then
    match calculateResult i.msgs c.minRequired with
    | .ok r => { i with started := true, proposed := some r }
    | .error e => { i with started := true, aborted := some e }
  else i

/-- the exchange time-out arm (only used by the `early` episodes: it fires before any request). -/
def onTimeout (c : Cfg) (i : Inst) : Inst :=
  if i.started then i else
    match calculateResult i.msgs c.minRequired with
    | .ok r => { i with started := true, proposed := some r }
    | .error e => { i with started := true, aborted := some e }

inductive Reply where
  | own                       -- the instance answered with its own message
  | err (e : HErr)
  deriving DecidableEq, Repr

/-- one request of peer `sender` while instance `i` runs (or has returned). A request for another duty, or for an
instance that has returned, is enqueued and never answered: the handler's context runs out. -/
def onRequest (c : Cfg) (i : Inst) (sender : Nat) (w : Option Wire) : Inst × Reply :=
  match admission c sender w, w with
  | .reject e, _ => (i, .err e)
  | .enqueue _, none => (i, .err .nilMsg)
  | .enqueue d, some w =>
    if d ≠ i.duty ∨ i.aborted.isSome then (i, .err .timeout)
    else (maybeStart c (addMsg i w.msg), .own)

/-! ## 3. p2p/receive.go over go-msgio's delimited reader -/

/-- `varint.ReadUvarint` (multiformats): at most 9 bytes, minimal encoding required. `none` = error (EOF,
overflow, not minimal); `some (value, rest)`. `n` = number of bytes consumed so far, `shift` = 7 * n. -/
def readUvarint (n : Nat) (acc : Nat) : List Nat → Option (Nat × List Nat)
  | [] => none
  | b :: r =>
    if (n = 8 ∧ b ≥ 128) ∨ n ≥ 9 then none               -- ErrOverflow (MaxLenUvarint63 = 9)
    else if b < 128 then
      if b = 0 ∧ n > 0 then none                         -- ErrNotMinimal
      else some (acc + b * 2 ^ (7 * n), r)
    else readUvarint (n + 1) (acc + (b - 128) * 2 ^ (7 * n)) r

inductive ReadRes where
  | varintErr | tooLarge | short | payload (bytes : List Nat)
  deriving DecidableEq, Repr

/-- `uvarintReader.ReadMsg` up to `proto.Unmarshal`. -/
def readFrame (limit : Nat) (stream : List Nat) : ReadRes :=
  match readUvarint 0 0 stream with
  | none => .varintErr
  | some (len, rest) =>
    if len > limit then .tooLarge
    else if rest.length < len then .short
    else .payload (rest.take len)

inductive HandlerOut where
  | err | noResp | resp
  deriving DecidableEq, Repr

structure RecvOut where
  called  : Bool      -- handlerFunc was called
  written : Bool      -- a response frame was written
  deriving DecidableEq, Repr

/-- the registered stream handler. `decodes` = `proto.Unmarshal` into the registered type succeeds, `nilOk` =
`protonil.Check` passes (both symbolic, properties of the payload bytes); `h` = what the handler does IF called. -/
def recvStream (limit : Nat) (stream : List Nat) (decodes nilOk : List Nat → Bool) (h : HandlerOut) : RecvOut :=
  match readFrame limit stream with
  | .payload b =>
    if decodes b && nilOk b then
      match h with
      | .resp => ⟨true, true⟩
      | _ => ⟨true, false⟩
    else ⟨false, false⟩
  | _ => ⟨false, false⟩

end CharonV.Priority
