/-
Abstract (history based) specification of the QBFT instance implemented by `core/qbft/qbft.go`.

This is the *spec layer* of DESIGN.md §1/§6-C02: receive buffers are replaced by the global
history `hist` of everything honest nodes ever sent ("message soup"); a message whose source is
Byzantine is always available (Byzantine nodes may send anything, to anyone, at any time, and
may replay/recombine honest messages — justifications are unsigned attachments, so any set of
available cores can be attached to any message). Loss, delay, duplication and reordering are
implicit: a guard only asks that enough cores are *available*, never that something was
delivered. Timers are unconstrained (`timeout`, `cmpTimeout` are always enabled).

Every transition of an honest node mirrors one branch of `qbft.Run`:

* `propose`     — `broadcastOwnPrePrepare` / `UponQuorumRoundChanges` / late input value
* `accept`      — `UponJustifiedPrePrepare` (`isJustifiedPrePrepare` + `classify` + dedup), followed by
                  the outcome of `compare`: `.ok` → PREPARE, `.fail` → `compareFailureRound := r`,
                  `.timeout` → round+1 and ROUND-CHANGE
* `commit`      — `UponQuorumPrepares`
* `decide`      — `UponQuorumCommits` / `UponJustifiedDecided`
* `timeout`     — round timer
* `jump`        — `UponFPlus1RoundChanges`

The implementation model (`CharonV.Model.Qbft`) refines this spec: see `CharonV.Props.C02`.
Core Lean only.
-/
namespace CharonV.QbftSpec

/-- `Definition.Quorum`: ⌈2n/3⌉. -/
def quorum (n : Nat) : Nat := (2 * n + 2) / 3

/-- `Definition.Faulty`: ⌊(n-1)/3⌋. -/
def faulty (n : Nat) : Nat := (n - 1) / 3

structure Params where
  n      : Nat
  byz    : Nat → Bool          -- Byzantine processes (only ids `< n` matter)
  leader : Nat → Nat           -- round ↦ leader process (`IsLeader`)
  cmp    : Nat → Nat → Bool    -- process ↦ value ↦ verdict of its `Compare` callback
  input  : Nat → Nat           -- process ↦ its own input value (0 = never obtains one)

/-- number of Byzantine processes among `0..n-1`. -/
def Params.byzCount (P : Params) : Nat := ((List.range P.n).filter P.byz).length

def Params.honest (P : Params) (i : Nat) : Prop := i < P.n ∧ P.byz i = false

/-- How a PRE-PREPARE was found justified (`isJustifiedPrePrepare`). -/
inductive Path where
  | first      -- round = 1
  | afterFail  -- round = compareFailureRound + 1
  | qrcNull    -- quorum ROUND-CHANGE, all with null prepared round/value (J1)
  | qrcPrep    -- quorum ROUND-CHANGE + quorum PREPARE for the highest prepared (J2)
  deriving DecidableEq, Repr

/-- Outcome of `compare` after a PRE-PREPARE was accepted. -/
inductive CmpOut where
  | ok | fail | timeout
  deriving DecidableEq, Repr

/-- History entries: signed cores sent by honest nodes, plus ghost events. Values are `Nat`,
`0` is Go's zero value. -/
inductive Ev where
  | prePrepare  (src r v : Nat)
  | prepare     (src r v : Nat)
  | commit      (src r v : Nat)
  | roundChange (src r pr pv : Nat)
  | accept      (p r v : Nat) (path : Path)   -- ghost: `p` accepted PRE-PREPARE (r,v)
  | cmpFail     (p r : Nat)                   -- ghost: `p`'s comparison failed in round r
  | decide      (p r v : Nat)                 -- `Decide` callback
  deriving DecidableEq, Repr

/-- Abstract local state of one process (the part of `Run`'s closure state that matters). -/
structure Node where
  round    : Nat := 1
  pr       : Nat := 0               -- preparedRound
  pv       : Nat := 0               -- preparedValue
  cfr      : Nat := 0               -- compareFailureRound
  ppDone   : Bool := false          -- dedup key (UponJustifiedPrePrepare, round) is set
  prepDone : Bool := false          -- dedup key (UponQuorumPrepares, round) is set
  decided  : Option (Nat × Nat) := none   -- (round, value) once `qCommit` is set
  deriving Repr

structure State where
  nodes : Nat → Node
  hist  : List Ev

def init : State := { nodes := fun _ => {}, hist := [] }

/-- The core `e` (a message with source `src`) can be shown to an honest node. -/
def avail (P : Params) (H : List Ev) (src : Nat) (e : Ev) : Prop :=
  P.byz src = true ∨ e ∈ H

/-- At least `quorum n` distinct processes have an available message built by `mk`. -/
def quorumOf (P : Params) (H : List Ev) (mk : Nat → Ev) : Prop :=
  ∃ srcs : List Nat, srcs.Nodup ∧ quorum P.n ≤ srcs.length ∧
    ∀ j ∈ srcs, j < P.n ∧ avail P H j (mk j)

def prepareQuorum (P : Params) (H : List Ev) (r v : Nat) : Prop :=
  quorumOf P H (fun j => .prepare j r v)

def commitQuorum (P : Params) (H : List Ev) (r v : Nat) : Prop :=
  quorumOf P H (fun j => .commit j r v)

/-- A quorum of ROUND-CHANGE messages for round `r` from distinct sources (one message per
source, as selected by `filterRoundChange`), given as (source, pr, pv) triples. -/
def qrcAvail (P : Params) (H : List Ev) (r : Nat) (qrc : List (Nat × Nat × Nat)) : Prop :=
  (qrc.map (·.1)).Nodup ∧ quorum P.n ≤ qrc.length ∧
    ∀ t ∈ qrc, t.1 < P.n ∧ avail P H t.1 (.roundChange t.1 r t.2.1 t.2.2)

/-- `isJustifiedPrePrepare` for a PRE-PREPARE (r,v) seen by a node with `compareFailureRound = cfr`. -/
def justifiedPP (P : Params) (H : List Ev) (cfr r v : Nat) : Path → Prop
  | .first     => r = 1
  | .afterFail => r = cfr + 1
  | .qrcNull   => ∃ qrc, qrcAvail P H r qrc ∧ ∀ t ∈ qrc, t.2.1 = 0 ∧ t.2.2 = 0
  | .qrcPrep   => ∃ qrc pr, qrcAvail P H r qrc ∧ prepareQuorum P H pr v ∧
                    (∀ t ∈ qrc, t.2.1 ≤ pr) ∧ (∃ t ∈ qrc, t.2.1 = pr ∧ t.2.2 = v)

def setNode (s : State) (i : Nat) (nd : Node) : State :=
  { s with nodes := fun j => if j = i then nd else s.nodes j }

/-- enter a new round: dedup state is wiped. -/
def Node.enter (nd : Node) (r : Nat) : Node :=
  if r = nd.round then nd else { nd with round := r, ppDone := false, prepDone := false }

/-- State after process `i` accepted PRE-PREPARE (r,v) and `compare` finished with `out`. -/
def acceptResult (s : State) (i r v : Nat) (path : Path) (out : CmpOut) : State :=
  let nd0 : Node := { (s.nodes i).enter r with ppDone := true }
  match out with
  | .ok      => { setNode s i nd0 with hist := s.hist ++ [.accept i r v path, .prepare i r v] }
  | .fail    => { setNode s i { nd0 with cfr := r } with
                    hist := s.hist ++ [.accept i r v path, .cmpFail i r] }
  | .timeout => { setNode s i (nd0.enter (r + 1)) with
                    hist := s.hist ++ [.accept i r v path, .roundChange i (r + 1) nd0.pr nd0.pv] }

/-- Transitions of honest process `i`. -/
inductive Step (P : Params) : State → State → Prop where
  /-- leader `i` broadcasts PRE-PREPARE for its current round with its own input value or with
  the value of an available PREPARE quorum. (Not guarded by `decided = none`: a leader that cached
  a justification, decided, and only then obtains its input value still broadcasts.) -/
  | propose (s : State) (i v pr : Nat) :
      P.honest i → P.leader (s.nodes i).round = i →
      ((v = P.input i ∧ v ≠ 0) ∨ prepareQuorum P s.hist pr v) →
      Step P s { s with hist := s.hist ++ [.prePrepare i (s.nodes i).round v] }
  /-- `UponJustifiedPrePrepare` for (r,v) from `leader r`, then `compare`. -/
  | accept (s : State) (i r v : Nat) (path : Path) (out : CmpOut) :
      P.honest i → (s.nodes i).decided = none →
      (s.nodes i).round ≤ r → ((s.nodes i).round = r → (s.nodes i).ppDone = false) →
      P.leader r < P.n → avail P s.hist (P.leader r) (.prePrepare (P.leader r) r v) → v ≠ 0 →
      justifiedPP P s.hist (s.nodes i).cfr r v path →
      (out = .ok → P.cmp i v = true) → (out = .fail → P.cmp i v = false) →
      Step P s (acceptResult s i r v path out)
  /-- `UponQuorumPrepares` in the current round. -/
  | commit (s : State) (i v : Nat) :
      P.honest i → (s.nodes i).decided = none → (s.nodes i).prepDone = false →
      prepareQuorum P s.hist (s.nodes i).round v →
      Step P s { setNode s i { s.nodes i with pr := (s.nodes i).round, pv := v, prepDone := true } with
                   hist := s.hist ++ [.commit i (s.nodes i).round v] }
  /-- `UponQuorumCommits` (own round) or `UponJustifiedDecided` (any round). -/
  | decide (s : State) (i r v : Nat) :
      P.honest i → (s.nodes i).decided = none → commitQuorum P s.hist r v →
      Step P s { setNode s i { s.nodes i with round := r, decided := some (r, v) } with
                   hist := s.hist ++ [.decide i r v] }
  /-- round timer (also the timer branch inside `compare`, see `accept … .timeout`). -/
  | timeout (s : State) (i : Nat) :
      P.honest i → (s.nodes i).decided = none →
      Step P s { setNode s i ((s.nodes i).enter ((s.nodes i).round + 1)) with
                   hist := s.hist ++ [.roundChange i ((s.nodes i).round + 1) (s.nodes i).pr (s.nodes i).pv] }
  /-- `UponFPlus1RoundChanges`: jump to a higher round. -/
  | jump (s : State) (i r : Nat) :
      P.honest i → (s.nodes i).decided = none → (s.nodes i).round < r →
      Step P s { setNode s i ((s.nodes i).enter r) with
                   hist := s.hist ++ [.roundChange i r (s.nodes i).pr (s.nodes i).pv] }

inductive Reach (P : Params) : State → Prop where
  | init : Reach P init
  | step {s t : State} : Reach P s → Step P s t → Reach P t

end CharonV.QbftSpec
