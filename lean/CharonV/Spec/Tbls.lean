/-
Threshold BLS — abstract algebra (specification level, Mathlib).

Everything is stated over an arbitrary field `F` (the scalar field; for BLS12-381 it is `ZMod r`)
and arbitrary `F`-modules `G1` (public keys) and `G2` (signatures), written additively. A group of
prime order `r` is exactly a module over the field `ZMod r`; `c • x = 0 ↔ c = 0 ∨ x = 0` then
holds automatically (`smul_eq_zero`), which is the "no torsion" fact the negative theorems use.

Share identifiers are natural numbers (herumi: the decimal id `1..n` of `tbls/herumi.go`), mapped
into `F` by `Nat.cast`. Node `i` of charon (0-based) holds id `i+1`.

* `share p id`       — Shamir share of polynomial `p` for identifier `id`:  `p(id)`
* `split p n`        — the list `[(1, p 1), …, (n, p n)]` handed out by `ThresholdSplit`
* `lam S j`          — Lagrange coefficient at 0 of identifier `j` within the identifier set `S`
* `recover S y`      — `Σ_{j∈S} lam S j * y j`            (`RecoverSecret`)
* `recoverG S Y`     — `Σ_{j∈S} lam S j • Y j` in a module (`RecoverPubkey`, `ThresholdAggregate`)
* `pk g1 s`          — `s • g1`                            (`SecretToPublicKey`)
* `sign Hm s m`      — `s • Hm m`                          (`Sign`, `Hm` = hash to curve)
* `Verifies F g1 Hm K m σ` — idealised pairing check `e(g1, σ) = e(K, Hm m)`: there is a scalar `s`
  with `K = s • g1` and `σ = s • Hm m`. For a non-degenerate pairing on prime-order groups the two
  are equivalent; that equivalence is an assumption of the claim (not proved here).
-/
import Mathlib.LinearAlgebra.Lagrange

namespace CharonV.Tbls

open Polynomial Finset

variable {F : Type*} [Field F]

/-- identifier `id` as a scalar. -/
abbrev idF (F : Type*) [Field F] (id : ℕ) : F := (id : F)

/-- Shamir share for identifier `id`. -/
def share (p : F[X]) (id : ℕ) : F := p.eval (idF F id)

/-- `ThresholdSplit`: identifiers `1..n` with their shares. -/
def split (p : F[X]) (n : ℕ) : List (ℕ × F) := (List.range n).map fun i => (i + 1, share p (i + 1))

/-- Lagrange coefficient at `0` of identifier `j` w.r.t. the identifier set `S`. -/
noncomputable def lam (S : Finset ℕ) (j : ℕ) : F := (Lagrange.basis S (idF F) j).eval 0

/-- `RecoverSecret`: Lagrange interpolation at 0 of the points `(id, y id)`, `id ∈ S`. -/
noncomputable def recover (S : Finset ℕ) (y : ℕ → F) : F := ∑ j ∈ S, lam S j * y j

section Module
variable {G : Type*} [AddCommGroup G] [Module F G]

/-- Lagrange combination "in the exponent": `RecoverPubkey` / `ThresholdAggregate`. -/
noncomputable def recoverG (F : Type*) [Field F] {G : Type*} [AddCommGroup G] [Module F G]
    (S : Finset ℕ) (Y : ℕ → G) : G := ∑ j ∈ S, (lam S j : F) • Y j

/-- public key of secret `s` (generator `g1`). -/
def pk (g1 : G) (s : F) : G := s • g1

/-- BLS signature of message `m` under secret `s`; `Hm` is the hash to the signature group. -/
def sign {Msg : Type*} (Hm : Msg → G) (s : F) (m : Msg) : G := s • Hm m

end Module

/-- Idealised verification equation (see file header). -/
def Verifies (F : Type*) [Field F] {G1 G2 Msg : Type*} [AddCommGroup G1] [Module F G1]
    [AddCommGroup G2] [Module F G2] (g1 : G1) (Hm : Msg → G2) (K : G1) (m : Msg) (σ : G2) : Prop :=
  ∃ s : F, K = s • g1 ∧ σ = s • Hm m

/-- The identifiers in `S` are pairwise distinct as scalars. (In `ZMod r` this holds for all ids
below `r`; see `Proofs.Tbls.idsDistinct_of_lt_char`.) -/
def IdsDistinct (F : Type*) [Field F] (S : Finset ℕ) : Prop := Set.InjOn (idF F) (S : Set ℕ)

/-- No identifier of `S` is the zero scalar (herumi rejects id 0; ids are `1..n < r`). -/
def IdsNonzero (F : Type*) [Field F] (S : Finset ℕ) : Prop := ∀ k ∈ S, idF F k ≠ 0

end CharonV.Tbls
