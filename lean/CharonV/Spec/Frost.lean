/-
FROST distributed key generation — abstract algebra (specification level, Mathlib).

An honest ceremony among the dealers `D` (node identifiers, in charon `1..n`): every dealer `i`
draws a polynomial `f i` of degree `< t` (kryptology `Feldman.Split`), sends `f i (j)` to node `j`
(round 1 p2p) and broadcasts the commitments `a_{i,k} • g` to its coefficients. Node `j` adds what
it received to its own evaluation (kryptology `Round2`, step 6), the group key is the sum of the
constant-term commitments (step 8) and the public share is the secret share times the generator
(step 7).  Several validators are several independent ceremonies: every definition takes the
dealers' polynomials of *one* validator; the theorems quantify over the family.
-/
import CharonV.Spec.Tbls

namespace CharonV.Frost

open Polynomial Finset CharonV.Tbls

variable {F : Type*} [Field F]

/-- the polynomial nobody knows: sum of all dealers' polynomials. -/
noncomputable def groupPoly (D : Finset ℕ) (f : ℕ → F[X]) : F[X] := ∑ i ∈ D, f i

/-- secret share computed by node `j`: `Σ_i f_i(j)` (own evaluation plus received round-1 shares). -/
def nodeShare (D : Finset ℕ) (f : ℕ → F[X]) (j : ℕ) : F := ∑ i ∈ D, share (f i) j

/-- the group secret (never materialised): `Σ_i f_i(0)`. -/
def groupSecret (D : Finset ℕ) (f : ℕ → F[X]) : F := ∑ i ∈ D, (f i).eval 0

section Module
variable {G : Type*} [AddCommGroup G] [Module F G]

/-- constant-term commitment `A_{i,0}` broadcast by dealer `i`. -/
def commit0 (g : G) (f : ℕ → F[X]) (i : ℕ) : G := pk g ((f i).eval 0)

/-- verification key as node `j` computes it: own `A_{j,0}` plus every received `A_{i,0}`. -/
def vkAt (g : G) (D : Finset ℕ) (f : ℕ → F[X]) (j : ℕ) : G :=
  commit0 g f j + ∑ i ∈ D.erase j, commit0 g f i

/-- group public key. -/
def groupKey (g : G) (D : Finset ℕ) (f : ℕ → F[X]) : G := pk g (groupSecret D f)

/-- public (verification) share of node `j`, as node `j` computes and broadcasts it in round 2. -/
def pubShare (g : G) (D : Finset ℕ) (f : ℕ → F[X]) (j : ℕ) : G := pk g (nodeShare D f j)

end Module

/-! ### Resharing (kyber `dkg` with `OldNodes`, `dkg/pedersen/reshare.go`)

The old nodes `O` hold shares `p(i)` of the sharing polynomial `p`. Every old node `i` deals a
sub-sharing `g i` of *its share* (`g i (0) = p i`) of the new degree; new node `j` combines what it
received with the Lagrange weights of the old identifier set. -/

/-- the new sharing polynomial: `Σ_{i∈O} λ_i^O · g_i`. -/
noncomputable def resharePoly (O : Finset ℕ) (g : ℕ → F[X]) : F[X] := ∑ i ∈ O, C (lam O i : F) * g i

/-- new secret share of node `j`: `Σ_{i∈O} λ_i^O · g_i(j)`. -/
noncomputable def reshareShare (O : Finset ℕ) (g : ℕ → F[X]) (j : ℕ) : F :=
  ∑ i ∈ O, (lam O i : F) * share (g i) j

end CharonV.Frost
