/-
The cluster as a whole, built from the *implementation model* of each honest member
(`CharonV.Qbft.step`, the mirror of `qbft.Run`) plus a ghost history.

A `SysStep` lets one honest member handle one event with any map-iteration oracle. The only
constraint on a received message is what `core/consensus/qbft.handle` establishes (C05): every
core — the message itself and each attached justification — has a known member as source, a
valid type, and is either signed by a Byzantine member (arbitrary content) or was really
broadcast by its honest source. Which message arrives where and when, how often, with which
attachments, when timers fire, when (and whether) members start or obtain their input is
unconstrained.
-/
import CharonV.Model.Qbft
import CharonV.Spec.Qbft

namespace CharonV.QbftSys

open CharonV.Qbft CharonV.QbftSpec

structure Sys where
  nodes : Nat → NodeState
  hist  : List Ev

def init : Sys := { nodes := fun p => { proc := p }, hist := [] }

def mkDef (P : Params) (fifo : Nat) : Def := { nodes := P.n, fifo := fifo, leader := P.leader }

/-- The history entry a signed core stands for. DECIDED cores carry no authority of their own
(only their attached COMMITs count), so they are admissible from anybody. -/
def coreEv (c : Core) : Option Ev :=
  if c.typ = tPrePrepare then some (.prePrepare c.src c.round c.value)
  else if c.typ = tPrepare then some (.prepare c.src c.round c.value)
  else if c.typ = tCommit then some (.commit c.src c.round c.value)
  else if c.typ = tRoundChange then some (.roundChange c.src c.round c.pr c.pv)
  else none

/-- What C05 guarantees about every core that reaches `qbft.Run`. -/
def admCore (P : Params) (H : List Ev) (c : Core) : Prop :=
  c.src < P.n ∧ 1 ≤ c.typ ∧ c.typ ≤ 5 ∧
    (P.byz c.src = true ∨ c.typ = tDecided ∨ ∃ e, coreEv c = some e ∧ e ∈ H)

def admMsg (P : Params) (H : List Ev) (m : Msg) : Prop :=
  admCore P H m.core ∧ ∀ j ∈ m.just, admCore P H j

/-- `isJustifiedPrePrepare`'s reason, as a `Path` of the spec. -/
def pathOf (d : Def) (m : Msg) (cfr : Nat) : Path :=
  if m.core.round = 1 then .first
  else if m.core.round = cfr + 1 then .afterFail
  else if (filterRoundChange m.just m.core.round).all (fun rc => rc.pr == 0 && rc.pv == 0) then .qrcNull
  else .qrcPrep

/-- Ghost history entries produced by one output of member `p` handling event `e`. -/
def outEv (d : Def) (p cfr : Nat) (e : Event) : Out → List Ev
  | .bcast typ round value pr pv _ =>
    if typ = tPrePrepare then [.prePrepare p round value]
    else if typ = tPrepare then [.prepare p round value]
    else if typ = tCommit then [.commit p round value]
    else if typ = tRoundChange then [.roundChange p round pr pv]
    else []
  | .rule r _ =>
    if r = uJustifiedPrePrepare then
      match e with
      | .recv m c =>
        [.accept p m.core.round m.core.value (pathOf d m cfr)] ++
          (if c = .fail then [.cmpFail p m.core.round] else [])
      | _ => []
    else []
  | .decide v r _ => [.decide p r v]
  | _ => []

def upd (f : Nat → NodeState) (p : Nat) (n : NodeState) : Nat → NodeState :=
  fun q => if q = p then n else f q

/-- One honest member handles one event. -/
def next (P : Params) (fifo : Nat) (s : Sys) (p : Nat) (o : Oracle) (e : Event) : Sys :=
  let d := mkDef P fifo
  let r := step d o (s.nodes p) e
  { nodes := upd s.nodes p r.1,
    hist := s.hist ++ r.2.flatMap (outEv d p (s.nodes p).compareFailureRound e) }

/-- Admissibility of an event for member `p` given the history so far. -/
def evOkH (P : Params) (H : List Ev) (p : Nat) : Event → Prop
  | .recv m c =>
    admMsg P H m ∧
      (m.core.typ = tPrePrepare →
        (c = .ok → P.cmp p m.core.value = true) ∧ (c = .fail → P.cmp p m.core.value = false))
  | .input v => v = P.input p
  | _ => True

/-- Admissibility of an event for member `p` in system state `s`. -/
def evOk (P : Params) (s : Sys) (p : Nat) (e : Event) : Prop := evOkH P s.hist p e

inductive Reach (P : Params) (fifo : Nat) : Sys → Prop where
  | init : Reach P fifo init
  | step {s : Sys} (p : Nat) (o : Oracle) (e : Event) :
      Reach P fifo s → P.honest p → evOk P s p e → Reach P fifo (next P fifo s p o e)

/-- Abstraction of an implementation node state to the spec's node state. -/
def absNode (n : NodeState) : Node :=
  { round := n.round, pr := n.preparedRound, pv := n.preparedValue, cfr := n.compareFailureRound,
    ppDone := n.dedup.contains (uJustifiedPrePrepare, n.round),
    prepDone := n.dedup.contains (uQuorumPrepares, n.round),
    decided := if n.qCommit.isEmpty then none else some (n.round, n.qCommitValue) }

/-- Refinement relation: same history; members agree with the spec on everything while
undecided, and on the decision afterwards (a decided member takes no spec transition). -/
def Rel (P : Params) (s : Sys) (t : QbftSpec.State) : Prop :=
  t.hist = s.hist ∧
    ∀ p, P.honest p →
      (t.nodes p).decided = (absNode (s.nodes p)).decided ∧
        ((absNode (s.nodes p)).decided = none → t.nodes p = absNode (s.nodes p))

end CharonV.QbftSys
