/-
Helper lemmas for `Props/C11Run.lean`: the ceremony glue of `dkg/dkg.go` after the key-generation
rounds (model `Model/DkgGlue.lean`).

* Go maps as association lists (`get?`/`put`), a map built by a loop over pairwise different keys
* `MsgFromShare` sorts: `msgPubShares_eq`
* `createDistValidators_spec`: the result does not depend on the node nor on any map order
* the aggregation functions on the partial signatures of an honest exchange (`Laws`: what is needed
  of the cryptography — hypotheses, discharged for the threshold-BLS algebra below) and
  `lockValidators_spec` for the whole chain
* `aggDepositData_ok` / `aggLockHashSig_ok`: nothing is aggregated without verification
* the exchanger: `recv_refuses_foreign_index`, invariant `exRun_justified` over every event sequence
* `algCrypto` / `alg_laws`: threshold BLS (Spec/Tbls) satisfies `Laws`
-/
import CharonV.Model.DkgGlue
import Mathlib.Data.List.Sort
import Mathlib.Data.List.Perm.Basic
import Mathlib.Data.List.Forall2
import Mathlib.Data.List.Induction
import CharonV.Proofs.Tbls

set_option linter.unusedSectionVars false

namespace CharonV.DkgGlue

/-! ### Go maps as association lists -/

section Maps
variable {K V : Type} [DecidableEq K]

theorem get?_put_self (m : List (K × V)) (k : K) (v : V) : get? (put m k v) k = some v := by
  induction m with
  | nil => simp [put, get?]
  | cons e r ih =>
    obtain ⟨k', v'⟩ := e
    by_cases h : k' = k
    · simp [put, get?, h]
    · simp [put, get?, h, ih]

theorem get?_put_other (m : List (K × V)) (k k2 : K) (v : V) (h : k ≠ k2) :
    get? (put m k v) k2 = get? m k2 := by
  induction m with
  | nil => simp [put, get?, h]
  | cons e r ih =>
    obtain ⟨k', v'⟩ := e
    by_cases h1 : k' = k
    · subst h1; simp [put, get?, h]
    · by_cases h2 : k' = k2
      · subst h2; simp [put, get?, h1]
      · simp [put, get?, h1, h2, ih]

theorem put_of_not_mem (m : List (K × V)) (k : K) (v : V) (h : k ∉ m.map Prod.fst) :
    put m k v = m ++ [(k, v)] := by
  induction m with
  | nil => simp [put]
  | cons e r ih =>
    obtain ⟨k', v'⟩ := e
    simp only [List.map_cons, List.mem_cons, not_or] at h
    have h1 : k' ≠ k := fun hh => h.1 hh.symm
    simp [put, h1, ih h.2]

theorem get?_of_mem_nodup (m : List (K × V)) (hnd : (m.map Prod.fst).Nodup) (k : K) (v : V)
    (hm : (k, v) ∈ m) : get? m k = some v := by
  induction m with
  | nil => cases hm
  | cons e r ih =>
    obtain ⟨k', v'⟩ := e
    simp only [List.map_cons, List.nodup_cons] at hnd
    rcases List.mem_cons.mp hm with h | h
    · cases h; simp [get?]
    · have : k' ≠ k := by
        rintro rfl
        exact hnd.1 (List.mem_map.mpr ⟨(k', v), h, rfl⟩)
      simp [get?, this, ih hnd.2 h]

theorem get?_eq_none_of_not_mem (m : List (K × V)) (k : K) (h : k ∉ m.map Prod.fst) : get? m k = none := by
  induction m with
  | nil => rfl
  | cons e r ih =>
    obtain ⟨k', v'⟩ := e
    simp only [List.map_cons, List.mem_cons, not_or] at h
    have h1 : k' ≠ k := fun hh => h.1 hh.symm
    simp [get?, h1, ih h.2]

theorem mem_of_get? (m : List (K × V)) (k : K) (v : V) (h : get? m k = some v) : (k, v) ∈ m := by
  induction m with
  | nil => simp [get?] at h
  | cons e r ih =>
    obtain ⟨k', v'⟩ := e
    by_cases h1 : k' = k
    · simp [get?, h1] at h; subst h1; subst h; simp
    · simp [get?, h1] at h; exact List.mem_cons_of_mem _ (ih h)

/-- a map built by a loop `m[key x] = val x` over a list with pairwise different keys is that list. -/
theorem foldl_put_eq_map {α : Type} (key : α → K) (val : α → V) (l : List α) (acc : List (K × V))
    (hnd : (l.map key).Nodup) (hdis : ∀ x ∈ l, key x ∉ acc.map Prod.fst) :
    l.foldl (fun m x => put m (key x) (val x)) acc = acc ++ l.map (fun x => (key x, val x)) := by
  induction l generalizing acc with
  | nil => simp
  | cons x r ih =>
    simp only [List.map_cons, List.nodup_cons] at hnd
    rw [List.foldl_cons, put_of_not_mem _ _ _ (hdis x (List.mem_cons_self))]
    rw [ih _ hnd.2]
    · simp
    · intro y hy
      simp only [List.map_append, List.map_cons, List.map_nil, List.mem_append, List.mem_singleton, not_or]
      refine ⟨hdis y (List.mem_cons_of_mem _ hy), ?_⟩
      intro h
      exact hnd.1 (h ▸ List.mem_map.mpr ⟨y, hy, rfl⟩)

end Maps

/-! ### sorting -/

theorem insertSorted_eq (x : Nat) (l : List Nat) : insertSorted x l = List.orderedInsert (· ≤ ·) x l := by
  induction l with
  | nil => rfl
  | cons y ys ih => simp [insertSorted, List.orderedInsert, ih]

theorem sortNat_eq (l : List Nat) : sortNat l = List.insertionSort (· ≤ ·) l := by
  induction l with
  | nil => rfl
  | cons x r ih =>
    show insertSorted x (sortNat r) = _
    rw [insertSorted_eq, ih]; rfl

/-- sorting any arrangement of the share indices `1..n` gives `1..n`. -/
theorem sortNat_perm_range' (l : List Nat) (n : Nat) (h : l.Perm (List.range' 1 n)) :
    sortNat l = List.range' 1 n := by
  rw [sortNat_eq]
  have h1 : (List.insertionSort (· ≤ ·) l).Perm (List.range' 1 n) := (List.perm_insertionSort _ l).trans h
  exact List.Perm.eq_of_pairwise' (r := (· ≤ ·)) (List.pairwise_insertionSort _ l) List.pairwise_le_range' h1

/-! ### ceremony outputs -/

section Glue
variable {PK SK Sig M : Type} [DecidableEq PK]

/-- the public-share map of a share: the keys are exactly the share indices `1..n` (in any
iteration order), the value under index `i` is `psh i`. -/
structure PubSharesOK (n : Nat) (psh : Nat → PK) (m : List (Nat × PK)) : Prop where
  keys : (m.map Prod.fst).Perm (List.range' 1 n)
  vals : ∀ e ∈ m, e.2 = psh e.1

omit [DecidableEq PK] in
theorem PubSharesOK.get? {n : Nat} {psh : Nat → PK} {m : List (Nat × PK)} (h : PubSharesOK n psh m)
    (i : Nat) (hi : i ∈ List.range' 1 n) : get? m i = some (psh i) := by
  have hnd : (m.map Prod.fst).Nodup := h.keys.nodup_iff.mpr (List.nodup_range' (step := 1))
  have hmem : i ∈ m.map Prod.fst := h.keys.mem_iff.mpr hi
  obtain ⟨e, he, rfl⟩ := List.mem_map.mp hmem
  have := h.vals e he
  rw [← this]
  exact get?_of_mem_nodup m hnd e.1 e.2 he

omit [DecidableEq PK] in
theorem PubSharesOK.get?_none {n : Nat} {psh : Nat → PK} {m : List (Nat × PK)} (h : PubSharesOK n psh m)
    (i : Nat) (hi : i ∉ List.range' 1 n) : DkgGlue.get? m i = none :=
  get?_eq_none_of_not_mem m i fun hm => hi (h.keys.mem_iff.mp hm)

omit [DecidableEq PK] in
/-- `MsgFromShare` lists the public shares in share-index order, whatever the map order. -/
theorem msgPubShares_eq (n : Nat) (psh : Nat → PK) (s : Share PK SK) (h : PubSharesOK n psh s.pubShares) :
    msgPubShares s = (List.range' 1 n).map psh := by
  unfold msgPubShares
  rw [sortNat_perm_range' _ n h.keys]
  rw [List.filterMap_congr (g := fun i => some (psh i)) (fun i hi => h.get? i hi)]
  show List.filterMap (some ∘ psh) _ = _
  rw [List.filterMap_eq_map]

/-! ### createDistValidators -/

variable {V : Type}

/-- distinct validators of the ceremony have distinct group keys. -/
theorem eq_of_gpk_eq (gpk : V → PK) (vals : List V) (hnd : (vals.map gpk).Nodup) (v w : V)
    (hv : v ∈ vals) (hw : w ∈ vals) (h : gpk v = gpk w) : v = w :=
  List.inj_on_of_nodup_map hnd hv hw h

theorem findReg_of_perm (gpk : V → PK) (vals : List V) (hnd : (vals.map gpk).Nodup)
    (regOf : V → Registration PK Sig) (hreg : ∀ v, (regOf v).pubKey = gpk v)
    (regs : List (Registration PK Sig)) (hp : regs.Perm (vals.map regOf))
    (v : V) (hv : v ∈ vals) : findReg (gpk v) regs = some (regOf v) := by
  have hall : ∀ r ∈ regs, ∃ w ∈ vals, r = regOf w := by
    intro r hr
    obtain ⟨w, h1, h2⟩ := List.mem_map.mp (hp.mem_iff.mp hr)
    exact ⟨w, h1, h2.symm⟩
  have hex : regOf v ∈ regs := hp.mem_iff.mpr (List.mem_map.mpr ⟨v, hv, rfl⟩)
  clear hp
  induction regs with
  | nil => cases hex
  | cons r rest ih =>
    by_cases h : r.pubKey = gpk v
    · obtain ⟨w, hw, rfl⟩ := hall r List.mem_cons_self
      rw [hreg] at h
      have := eq_of_gpk_eq gpk vals hnd w v hw hv h
      subst this
      simp [findReg, hreg]
    · have hne : regOf v ≠ r := by rintro rfl; exact h (hreg v)
      rcases List.mem_cons.mp hex with h1 | h1
      · exact absurd h1 hne
      · simp only [findReg, h, if_false]
        exact ih (fun r' hr' => hall r' (List.mem_cons_of_mem _ hr')) h1

omit [DecidableEq PK] in
theorem filter_vals [DecidableEq PK] (gpk : V → PK) (vals : List V) (hnd : (vals.map gpk).Nodup) (v : V) (hv : v ∈ vals) :
    vals.filter (fun w => decide (gpk w = gpk v)) = [v] := by
  induction vals with
  | nil => cases hv
  | cons w r ih =>
    simp only [List.map_cons, List.nodup_cons] at hnd
    by_cases hk : gpk w = gpk v
    · have hwv : w = v := by
        rcases List.mem_cons.mp hv with h | h
        · exact h.symm
        · exact absurd (List.mem_map.mpr ⟨v, h, hk.symm⟩) hnd.1
      subst hwv
      have : r.filter (fun w' => decide (gpk w' = gpk w)) = [] := by
        apply List.filter_eq_nil_iff.mpr
        intro a ha; simp; intro h; exact hnd.1 (List.mem_map.mpr ⟨a, ha, h⟩)
      simp [this]
    · have : v ∈ r := by
        rcases List.mem_cons.mp hv with h | h
        · subst h; exact absurd rfl hk
        · exact h
      simp [hk, ih hnd.2 this]

/-- one amount's row of aggregated deposit data, in whatever order the aggregation's map iteration
produced it, holds exactly one entry for a validator key. -/
theorem filter_row (gpk : V → PK) (vals : List V) (hnd : (vals.map gpk).Nodup)
    (f : V → DepositData PK Sig) (hf : ∀ v, (f v).pubKey = gpk v)
    (row : List (DepositData PK Sig)) (hp : row.Perm (vals.map f))
    (v : V) (hv : v ∈ vals) : row.filter (fun dd => decide (dd.pubKey = gpk v)) = [f v] := by
  have h1 : (row.filter (fun dd => decide (dd.pubKey = gpk v))).Perm
      ((vals.map f).filter (fun dd => decide (dd.pubKey = gpk v))) := hp.filter _
  have h2 : (vals.map f).filter (fun dd => decide (dd.pubKey = gpk v)) = [f v] := by
    rw [List.filter_map]
    have : (fun dd : DepositData PK Sig => decide (dd.pubKey = gpk v)) ∘ f = fun w => decide (gpk w = gpk v) := by
      funext w; simp [hf]
    rw [this, filter_vals gpk vals hnd v hv]; rfl
  rw [h2] at h1
  exact List.perm_singleton.mp h1

theorem depositsFor_eq (gpk : V → PK) (vals : List V) (hnd : (vals.map gpk).Nodup)
    (rows : List (V → DepositData PK Sig)) (hrows : ∀ f ∈ rows, ∀ v, (f v).pubKey = gpk v)
    (dds : List (List (DepositData PK Sig)))
    (hdds : List.Forall₂ (fun row f => row.Perm (vals.map f)) dds rows)
    (v : V) (hv : v ∈ vals) : depositsFor (gpk v) dds = rows.map (fun f => f v) := by
  unfold depositsFor
  induction hdds with
  | nil => rfl
  | @cons row f dds' rows' h1 _ ih =>
    simp only [List.flatten_cons, List.filter_append, List.map_cons]
    rw [filter_row gpk vals hnd f (hrows f List.mem_cons_self) row h1 v hv]
    rw [ih (fun g hg => hrows g (List.mem_cons_of_mem _ hg))]
    rfl

/-- what node `j` (share index) holds after the key-generation rounds: one share per validator of
`vals`, in that order, with the validator's group key, the node's secret share and the map of all
`n` public shares (in any iteration order). -/
def NodeOutput (n : Nat) (vals : List V) (gpk : V → PK) (sec : Nat → V → SK) (psh : Nat → V → PK) (j : Nat)
    (shares : List (Share PK SK)) : Prop :=
  List.Forall₂ (fun s v => s.pubKey = gpk v ∧ s.secret = sec j v ∧ PubSharesOK n (fun i => psh i v) s.pubShares) shares vals

/-- the validator of the lock for validator `v`, as every node must build it. -/
def specDV (n : Nat) (gpk : V → PK) (psh : Nat → V → PK) (rows : List (V → DepositData PK Sig))
    (regOf : V → Registration PK Sig) (v : V) : DistValidator PK Sig :=
  ⟨gpk v, (List.range' 1 n).map (fun i => psh i v), rows.map (fun f => f v), some (regOf v)⟩

/-- **createDistValidators, functionally.** A node's shares (`NodeOutput`); distinct validators have
distinct group keys; aggregated registrations and, per amount, aggregated deposit data for exactly
these validators in ANY order (the aggregation functions return them in Go map order); at least one
amount. Then the lock's validators are `vals.map specDV`: in ceremony order, each with its public
shares in share-index order, its deposit data in amount order and its own registration — an
expression in which neither the node nor any iteration order occurs. -/
theorem createDistValidators_spec (n : Nat) (vals : List V) (gpk : V → PK) (sec : Nat → V → SK)
    (psh : Nat → V → PK) (j : Nat) (shares : List (Share PK SK))
    (hout : NodeOutput n vals gpk sec psh j shares) (hnd : (vals.map gpk).Nodup)
    (regOf : V → Registration PK Sig) (hreg : ∀ v, (regOf v).pubKey = gpk v)
    (regs : List (Registration PK Sig)) (hregs : regs.Perm (vals.map regOf))
    (rows : List (V → DepositData PK Sig)) (hne : rows ≠ [])
    (hrows : ∀ f ∈ rows, ∀ v, (f v).pubKey = gpk v)
    (dds : List (List (DepositData PK Sig)))
    (hdds : List.Forall₂ (fun row f => row.Perm (vals.map f)) dds rows) :
    createDistValidators shares dds regs = .ok (vals.map (specDV n gpk psh rows regOf)) := by
  suffices h : ∀ (l : List (Share PK SK)) (vs : List V), (∀ v ∈ vs, v ∈ vals) →
      List.Forall₂ (fun s v => s.pubKey = gpk v ∧ s.secret = sec j v ∧ PubSharesOK n (fun i => psh i v) s.pubShares) l vs →
      createDistValidators l dds regs = .ok (vs.map (specDV n gpk psh rows regOf)) from
    h shares vals (fun _ h => h) hout
  intro l vs hsub hl
  induction hl with
  | nil => rfl
  | @cons s v rest vs' hsv _ ih =>
    have hv := hsub v List.mem_cons_self
    unfold createDistValidators
    rw [hsv.1, findReg_of_perm gpk vals hnd regOf hreg regs hregs v hv]
    rw [depositsFor_eq gpk vals hnd rows hrows dds hdds v hv]
    rw [ih fun w hw => hsub w (List.mem_cons_of_mem _ hw)]
    rw [msgPubShares_eq n (fun i => psh i v) s hsv.2.2]
    cases rows with
    | nil => exact absurd rfl hne
    | cons f fs => rfl

/-! ### the aggregation functions on the partial signatures of an honest exchange -/

/-- what the glue needs of the cryptography (hypotheses of the theorems; `Props/C11Run.lean` shows
that the threshold-BLS algebra of C08 provides them). `sec i v` is the secret share of share index
`i` for validator `v`, `psh i v` its public share, `gsig v m` the group signature of `v` over `m`. -/
structure Laws (C : Crypto PK SK Sig M) (n : Nat) (gpk : V → PK) (sec : Nat → V → SK) (psh : Nat → V → PK)
    (gsig : V → M → Sig) : Prop where
  pub_share : ∀ i v, C.pub (sec i v) = psh i v
  verify_partial : ∀ i ∈ List.range' 1 n, ∀ v m, C.verify (psh i v) m (C.sign (sec i v) m) = true
  threshold_agg : ∀ v m (l : List (Nat × Sig)), (l.map Prod.fst).Perm (List.range' 1 n) →
    (∀ e ∈ l, e.2 = C.sign (sec e.1 v) m) → C.thresholdAgg l = gsig v m
  verify_group : ∀ v m, C.verify (gpk v) m (gsig v m) = true

/-- the partial signatures an honest exchange hands over for validator `v` and message `m`: one from
every share index, filed under that index, in any arrival order. -/
def HonestPartials (C : Crypto PK SK Sig M) (n : Nat) (sec : Nat → V → SK) (v : V) (m : M)
    (psigs : List (ParSig Sig)) : Prop :=
  psigs.Perm ((List.range' 1 n).map fun i => ⟨C.sign (sec i v) m, i⟩)

/-- the map an honest exchange returns: the validators in any order, each with `HonestPartials`. -/
def HonestData (C : Crypto PK SK Sig M) (n : Nat) (gpk : V → PK) (sec : Nat → V → SK) (rootOf : V → M)
    (vs : List V) (data : List (PK × List (ParSig Sig))) : Prop :=
  List.Forall₂ (fun e v => e.1 = gpk v ∧ HonestPartials C n sec v (rootOf v) e.2) data vs

omit [DecidableEq PK] in
theorem HonestPartials.spec {C : Crypto PK SK Sig M} {n : Nat} {sec : Nat → V → SK} {v : V} {m : M}
    {psigs : List (ParSig Sig)} (h : HonestPartials C n sec v m psigs) :
    (∀ s ∈ psigs, s.shareIdx ∈ List.range' 1 n ∧ s.sig = C.sign (sec s.shareIdx v) m) ∧
    (psigs.map (·.shareIdx)).Perm (List.range' 1 n) := by
  constructor
  · intro s hs
    obtain ⟨i, hi, rfl⟩ := List.mem_map.mp (h.mem_iff.mp hs)
    exact ⟨hi, rfl⟩
  · have := h.map (·.shareIdx)
    simpa [List.map_map, Function.comp_def] using this

theorem collectPartials_honest (C : Crypto PK SK Sig M) (n : Nat) (gpk : V → PK) (sec : Nat → V → SK)
    (psh : Nat → V → PK) (gsig : V → M → Sig) (laws : Laws C n gpk sec psh gsig) (v : V) (m : M)
    (ps : List (Nat × PK)) (hps : PubSharesOK n (fun i => psh i v) ps)
    (rest : List (ParSig Sig)) (acc : List (Nat × Sig))
    (hall : ∀ s ∈ rest, s.shareIdx ∈ List.range' 1 n ∧ s.sig = C.sign (sec s.shareIdx v) m)
    (hnd : (rest.map (·.shareIdx)).Nodup) (hdis : ∀ s ∈ rest, s.shareIdx ∉ acc.map Prod.fst) :
    collectPartials C (some ps) m rest acc = .ok (acc ++ rest.map fun s => (s.shareIdx, s.sig)) := by
  induction rest generalizing acc with
  | nil => simp [collectPartials]
  | cons s r ih =>
    obtain ⟨hi, hsig⟩ := hall s List.mem_cons_self
    simp only [List.map_cons, List.nodup_cons] at hnd
    unfold collectPartials
    simp only [hps.get? s.shareIdx hi]
    rw [hsig, laws.verify_partial _ hi v m]
    simp only [if_true]
    rw [put_of_not_mem _ _ _ (hdis s List.mem_cons_self)]
    rw [ih _ (fun s' hs' => hall s' (List.mem_cons_of_mem _ hs')) hnd.2]
    · simp [hsig]
    · intro s' hs'
      simp only [List.map_append, List.map_cons, List.map_nil, List.mem_append, List.mem_singleton, not_or]
      refine ⟨hdis s' (List.mem_cons_of_mem _ hs'), ?_⟩
      intro h
      exact hnd.1 (h ▸ List.mem_map.mpr ⟨s', hs', rfl⟩)

/-- the map of collected partials of an honest exchange aggregates to the group signature. -/
theorem collect_then_aggregate (C : Crypto PK SK Sig M) (n : Nat) (gpk : V → PK) (sec : Nat → V → SK)
    (psh : Nat → V → PK) (gsig : V → M → Sig) (laws : Laws C n gpk sec psh gsig) (v : V) (m : M)
    (ps : List (Nat × PK)) (hps : PubSharesOK n (fun i => psh i v) ps)
    (psigs : List (ParSig Sig)) (hh : HonestPartials C n sec v m psigs) :
    ∃ l, collectPartials C (some ps) m psigs [] = .ok l ∧ C.thresholdAgg l = gsig v m := by
  obtain ⟨hall, hperm⟩ := hh.spec
  have hnd : (psigs.map (·.shareIdx)).Nodup := hperm.nodup_iff.mpr (List.nodup_range' (step := 1))
  refine ⟨_, collectPartials_honest C n gpk sec psh gsig laws v m ps hps psigs [] hall hnd (by simp), ?_⟩
  apply laws.threshold_agg v m
  · simpa [List.map_map, Function.comp_def] using hperm
  · intro e he
    simp only [List.nil_append, List.mem_map] at he
    obtain ⟨s, hs, rfl⟩ := he
    exact (hall s hs).2

omit [DecidableEq PK] in
theorem NodeOutput.keys {n : Nat} {vals : List V} {gpk : V → PK} {sec : Nat → V → SK} {psh : Nat → V → PK}
    {j : Nat} {shares : List (Share PK SK)} (h : NodeOutput n vals gpk sec psh j shares) :
    shares.map (·.pubKey) = vals.map gpk := by
  induction h with
  | nil => rfl
  | cons hsv _ ih => simp [hsv.1, ih]

omit [DecidableEq PK] in
theorem NodeOutput.secrets {n : Nat} {vals : List V} {gpk : V → PK} {sec : Nat → V → SK} {psh : Nat → V → PK}
    {j : Nat} {shares : List (Share PK SK)} (h : NodeOutput n vals gpk sec psh j shares) :
    shares.map (·.secret) = vals.map (sec j) := by
  induction h with
  | nil => rfl
  | cons hsv _ ih => simp [hsv.2.1, ih]

omit [DecidableEq PK] in
theorem NodeOutput.share_of {n : Nat} {vals : List V} {gpk : V → PK} {sec : Nat → V → SK} {psh : Nat → V → PK}
    {j : Nat} {shares : List (Share PK SK)} (h : NodeOutput n vals gpk sec psh j shares) (v : V) (hv : v ∈ vals) :
    ∃ s ∈ shares, s.pubKey = gpk v ∧ s.secret = sec j v ∧ PubSharesOK n (fun i => psh i v) s.pubShares := by
  induction h with
  | nil => cases hv
  | @cons s w _ _ hsv _ ih =>
    rcases List.mem_cons.mp hv with h1 | h1
    · subst h1; exact ⟨s, List.mem_cons_self, hsv⟩
    · obtain ⟨s', hs', h'⟩ := ih h1
      exact ⟨s', List.mem_cons_of_mem _ hs', h'⟩

/-- `pubkeyToPubShares[gpk v]` is the public-share map of the share of validator `v`. -/
theorem pubkeyToPubShares_get (n : Nat) (vals : List V) (gpk : V → PK) (sec : Nat → V → SK) (psh : Nat → V → PK)
    (j : Nat) (shares : List (Share PK SK)) (hout : NodeOutput n vals gpk sec psh j shares)
    (hnd : (vals.map gpk).Nodup) (v : V) (hv : v ∈ vals) :
    ∃ ps, get? (pubkeyToPubShares shares) (gpk v) = some ps ∧ PubSharesOK n (fun i => psh i v) ps := by
  obtain ⟨s, hs, hk, _, hps⟩ := hout.share_of v hv
  have hkeys : (shares.map (·.pubKey)).Nodup := hout.keys ▸ hnd
  refine ⟨s.pubShares, ?_, hps⟩
  unfold pubkeyToPubShares
  rw [foldl_put_eq_map (fun s : Share PK SK => s.pubKey) (fun s => s.pubShares) shares [] hkeys (by simp)]
  rw [List.nil_append, ← hk]
  apply get?_of_mem_nodup
  · simpa [List.map_map, Function.comp_def] using hkeys
  · exact List.mem_map.mpr ⟨s, hs, rfl⟩

theorem aggDepositOne_honest (C : Crypto PK SK Sig M) (n : Nat) (gpk : V → PK) (sec : Nat → V → SK)
    (psh : Nat → V → PK) (gsig : V → M → Sig) (laws : Laws C n gpk sec psh gsig)
    (p2ps : List (PK × List (Nat × PK))) (msgs : List (PK × DepositMsg PK)) (v : V) (msg : DepositMsg PK)
    (hmsg : get? msgs (gpk v) = some msg)
    (ps : List (Nat × PK)) (hp2 : get? p2ps (gpk v) = some ps) (hps : PubSharesOK n (fun i => psh i v) ps)
    (psigs : List (ParSig Sig)) (hh : HonestPartials C n sec v (C.depositRoot msg) psigs) :
    aggDepositOne C p2ps msgs (gpk v) psigs =
      .ok ⟨msg.pubKey, msg.wd, msg.amount, gsig v (C.depositRoot msg)⟩ := by
  obtain ⟨l, hl, hagg⟩ := collect_then_aggregate C n gpk sec psh gsig laws v _ ps hps psigs hh
  unfold aggDepositOne
  simp only [hmsg, hp2, hl, hagg, laws.verify_group, if_true]

theorem aggRegOne_honest (C : Crypto PK SK Sig M) (n : Nat) (gpk : V → PK) (sec : Nat → V → SK)
    (psh : Nat → V → PK) (gsig : V → M → Sig) (laws : Laws C n gpk sec psh gsig)
    (p2ps : List (PK × List (Nat × PK))) (msgs : List (PK × RegMsg PK)) (v : V) (msg : RegMsg PK)
    (hmsg : get? msgs (gpk v) = some msg)
    (ps : List (Nat × PK)) (hp2 : get? p2ps (gpk v) = some ps) (hps : PubSharesOK n (fun i => psh i v) ps)
    (psigs : List (ParSig Sig)) (hh : HonestPartials C n sec v (C.regRoot msg) psigs) :
    aggRegOne C p2ps msgs (gpk v) psigs =
      .ok ⟨msg.pubKey, msg.fee, msg.gas, gsig v (C.regRoot msg)⟩ := by
  obtain ⟨l, hl, hagg⟩ := collect_then_aggregate C n gpk sec psh gsig laws v _ ps hps psigs hh
  unfold aggRegOne
  simp only [hmsg, hp2, hl, hagg, laws.verify_group, if_true]

/-- **aggDepositData on an honest exchange**: one deposit per validator of the returned map, in the
map's order, signed by the group key over that validator's message. -/
theorem aggDepositData_honest (C : Crypto PK SK Sig M) (n : Nat) (vals : List V) (gpk : V → PK)
    (sec : Nat → V → SK) (psh : Nat → V → PK) (gsig : V → M → Sig) (laws : Laws C n gpk sec psh gsig)
    (j : Nat) (shares : List (Share PK SK)) (hout : NodeOutput n vals gpk sec psh j shares)
    (hnd : (vals.map gpk).Nodup) (msgs : List (PK × DepositMsg PK)) (msgOf : V → DepositMsg PK)
    (hmsgs : ∀ v ∈ vals, get? msgs (gpk v) = some (msgOf v))
    (vs : List V) (hvs : ∀ v ∈ vs, v ∈ vals) (data : List (PK × List (ParSig Sig)))
    (hdata : HonestData C n gpk sec (fun v => C.depositRoot (msgOf v)) vs data) :
    aggDepositData C data shares msgs =
      .ok (vs.map fun v => ⟨(msgOf v).pubKey, (msgOf v).wd, (msgOf v).amount, gsig v (C.depositRoot (msgOf v))⟩) := by
  induction hdata with
  | nil => rfl
  | @cons e v data' vs' hev _ ih =>
    obtain ⟨pk, psigs⟩ := e
    obtain ⟨hpk, hh⟩ := hev
    simp only at hpk hh
    subst hpk
    have hv := hvs v List.mem_cons_self
    obtain ⟨ps, hp2, hps⟩ := pubkeyToPubShares_get n vals gpk sec psh j shares hout hnd v hv
    unfold aggDepositData
    rw [aggDepositOne_honest C n gpk sec psh gsig laws _ msgs v (msgOf v) (hmsgs v hv) ps hp2 hps psigs hh]
    simp only
    rw [ih fun w hw => hvs w (List.mem_cons_of_mem _ hw)]
    rfl

theorem aggRegs_honest (C : Crypto PK SK Sig M) (n : Nat) (vals : List V) (gpk : V → PK)
    (sec : Nat → V → SK) (psh : Nat → V → PK) (gsig : V → M → Sig) (laws : Laws C n gpk sec psh gsig)
    (j : Nat) (shares : List (Share PK SK)) (hout : NodeOutput n vals gpk sec psh j shares)
    (hnd : (vals.map gpk).Nodup) (msgs : List (PK × RegMsg PK)) (msgOf : V → RegMsg PK)
    (hmsgs : ∀ v ∈ vals, get? msgs (gpk v) = some (msgOf v))
    (vs : List V) (hvs : ∀ v ∈ vs, v ∈ vals) (data : List (PK × List (ParSig Sig)))
    (hdata : HonestData C n gpk sec (fun v => C.regRoot (msgOf v)) vs data) :
    aggRegs C data shares msgs =
      .ok (vs.map fun v => ⟨(msgOf v).pubKey, (msgOf v).fee, (msgOf v).gas, gsig v (C.regRoot (msgOf v))⟩) := by
  induction hdata with
  | nil => rfl
  | @cons e v data' vs' hev _ ih =>
    obtain ⟨pk, psigs⟩ := e
    obtain ⟨hpk, hh⟩ := hev
    simp only at hpk hh
    subst hpk
    have hv := hvs v List.mem_cons_self
    obtain ⟨ps, hp2, hps⟩ := pubkeyToPubShares_get n vals gpk sec psh j shares hout hnd v hv
    unfold aggRegs
    rw [aggRegOne_honest C n gpk sec psh gsig laws _ msgs v (msgOf v) (hmsgs v hv) ps hp2 hps psigs hh]
    simp only
    rw [ih fun w hw => hvs w (List.mem_cons_of_mem _ hw)]
    rfl

/-! ### the signing functions and the whole chain up to the lock's validators -/

omit [DecidableEq PK] in
theorem foldl_pair {α β γ : Type} (f : β → α → β) (g : γ → α → γ) (l : List α) (a : β) (b : γ) :
    l.foldl (fun acc x => (f acc.1 x, g acc.2 x)) (a, b) = (l.foldl f a, l.foldl g b) := by
  induction l generalizing a b with
  | nil => rfl
  | cons x r ih => simp [List.foldl_cons, ih]

omit [DecidableEq PK] in
theorem NodeOutput.zip_map {n : Nat} {vals : List V} {gpk : V → PK} {sec : Nat → V → SK} {psh : Nat → V → PK}
    {j : Nat} {shares : List (Share PK SK)} (h : NodeOutput n vals gpk sec psh j shares)
    {β γ : Type} (w : V → β) (F : PK → SK → β → γ) :
    (shares.zip (vals.map w)).map (fun sw => F sw.1.pubKey sw.1.secret sw.2) =
      vals.map (fun v => F (gpk v) (sec j v) (w v)) := by
  induction h with
  | nil => rfl
  | cons hsv _ ih => simp [hsv.1, hsv.2.1, ih]

omit [DecidableEq PK] in
theorem NodeOutput.length_eq {n : Nat} {vals : List V} {gpk : V → PK} {sec : Nat → V → SK} {psh : Nat → V → PK}
    {j : Nat} {shares : List (Share PK SK)} (h : NodeOutput n vals gpk sec psh j shares) :
    shares.length = vals.length := List.Forall₂.length_eq h

/-- `signDepositMsgs`: the `msgs` map holds, under every validator's key, the deposit message of that
validator (its key, ITS withdrawal address — position `i` of the list — and the amount), and the set
holds the node's partial signature over exactly that message under the node's share index. -/
theorem signDepositMsgs_spec (C : Crypto PK SK Sig M) (n : Nat) (vals : List V) (gpk : V → PK)
    (sec : Nat → V → SK) (psh : Nat → V → PK) (j : Nat) (shares : List (Share PK SK))
    (hout : NodeOutput n vals gpk sec psh j shares) (hnd : (vals.map gpk).Nodup)
    (wdOf : V → Nat) (a : Nat) :
    signDepositMsgs C shares j (vals.map wdOf) a =
      some (vals.map (fun v => (gpk v, (⟨C.sign (sec j v) (C.depositRoot ⟨gpk v, wdOf v, a⟩), j⟩ : ParSig Sig))),
            vals.map (fun v => (gpk v, (⟨gpk v, wdOf v, a⟩ : DepositMsg PK)))) := by
  unfold signDepositMsgs
  have hlen : ¬ (vals.map wdOf).length < shares.length := by simp [hout.length_eq]
  simp only [hlen, if_false]
  have hk : ((shares.zip (vals.map wdOf)).map (fun sw => sw.1.pubKey)).Nodup := by
    have := hout.zip_map wdOf (fun pk _ _ => pk)
    rw [this]; exact hnd
  rw [foldl_pair (fun (m : SigSet PK Sig) (sw : Share PK SK × Nat) =>
        put m sw.1.pubKey ⟨C.sign sw.1.secret (C.depositRoot ⟨sw.1.pubKey, sw.2, a⟩), j⟩)
      (fun (m : List (PK × DepositMsg PK)) (sw : Share PK SK × Nat) => put m sw.1.pubKey ⟨sw.1.pubKey, sw.2, a⟩)]
  rw [foldl_put_eq_map (fun sw : Share PK SK × Nat => sw.1.pubKey) _ _ [] hk (by simp)]
  rw [foldl_put_eq_map (fun sw : Share PK SK × Nat => sw.1.pubKey) _ _ [] hk (by simp)]
  simp only [List.nil_append]
  rw [hout.zip_map wdOf (fun pk sk w => (pk, (⟨C.sign sk (C.depositRoot ⟨pk, w, a⟩), j⟩ : ParSig Sig)))]
  rw [hout.zip_map wdOf (fun pk _ w => (pk, (⟨pk, w, a⟩ : DepositMsg PK)))]

theorem signRegs_spec (C : Crypto PK SK Sig M) (n : Nat) (vals : List V) (gpk : V → PK)
    (sec : Nat → V → SK) (psh : Nat → V → PK) (j : Nat) (shares : List (Share PK SK))
    (hout : NodeOutput n vals gpk sec psh j shares) (hnd : (vals.map gpk).Nodup)
    (feeOf : V → Nat) (gas : Nat) :
    signRegs C shares j (vals.map feeOf) gas =
      some (vals.map (fun v => (gpk v, (⟨C.sign (sec j v) (C.regRoot ⟨gpk v, feeOf v, gas⟩), j⟩ : ParSig Sig))),
            vals.map (fun v => (gpk v, (⟨gpk v, feeOf v, gas⟩ : RegMsg PK)))) := by
  unfold signRegs
  have hlen : ¬ (vals.map feeOf).length < shares.length := by simp [hout.length_eq]
  simp only [hlen, if_false]
  have hk : ((shares.zip (vals.map feeOf)).map (fun sw => sw.1.pubKey)).Nodup := by
    have := hout.zip_map feeOf (fun pk _ _ => pk)
    rw [this]; exact hnd
  rw [foldl_pair (fun (m : SigSet PK Sig) (sw : Share PK SK × Nat) =>
        put m sw.1.pubKey ⟨C.sign sw.1.secret (C.regRoot ⟨sw.1.pubKey, sw.2, gas⟩), j⟩)
      (fun (m : List (PK × RegMsg PK)) (sw : Share PK SK × Nat) => put m sw.1.pubKey ⟨sw.1.pubKey, sw.2, gas⟩)]
  rw [foldl_put_eq_map (fun sw : Share PK SK × Nat => sw.1.pubKey) _ _ [] hk (by simp)]
  rw [foldl_put_eq_map (fun sw : Share PK SK × Nat => sw.1.pubKey) _ _ [] hk (by simp)]
  simp only [List.nil_append]
  rw [hout.zip_map feeOf (fun pk sk w => (pk, (⟨C.sign sk (C.regRoot ⟨pk, w, gas⟩), j⟩ : ParSig Sig)))]
  rw [hout.zip_map feeOf (fun pk _ w => (pk, (⟨pk, w, gas⟩ : RegMsg PK)))]

omit [DecidableEq PK] in
theorem get?_vals_map [DecidableEq PK] {β : Type} (vals : List V) (gpk : V → PK) (hnd : (vals.map gpk).Nodup) (f : V → β)
    (v : V) (hv : v ∈ vals) : get? (vals.map fun w => (gpk w, f w)) (gpk v) = some (f v) := by
  apply get?_of_mem_nodup
  · simpa [List.map_map, Function.comp_def] using hnd
  · exact List.mem_map.mpr ⟨v, hv, rfl⟩

/-- the deposit of validator `v` for amount `a` as every node must obtain it. -/
def specDeposit (C : Crypto PK SK Sig M) (gpk : V → PK) (gsig : V → M → Sig) (wdOf : V → Nat) (a : Nat) (v : V) :
    DepositData PK Sig :=
  ⟨gpk v, wdOf v, a, gsig v (C.depositRoot ⟨gpk v, wdOf v, a⟩)⟩

def specReg (C : Crypto PK SK Sig M) (gpk : V → PK) (gsig : V → M → Sig) (feeOf : V → Nat) (gas : Nat) (v : V) :
    Registration PK Sig :=
  ⟨gpk v, feeOf v, gas, gsig v (C.regRoot ⟨gpk v, feeOf v, gas⟩)⟩

/-- what the exchange of one sigType returns at an honest node: all validators (any map order),
each with one partial of every share index (any arrival order) over the validator's message. -/
def HonestExchange (C : Crypto PK SK Sig M) (n : Nat) (vals : List V) (gpk : V → PK) (sec : Nat → V → SK)
    (rootOf : V → M) (data : List (PK × List (ParSig Sig))) : Prop :=
  ∃ vs : List V, vs.Perm vals ∧ HonestData C n gpk sec rootOf vs data

theorem signAndAggDepositData_honest (C : Crypto PK SK Sig M) (n : Nat) (vals : List V) (gpk : V → PK)
    (sec : Nat → V → SK) (psh : Nat → V → PK) (gsig : V → M → Sig) (laws : Laws C n gpk sec psh gsig)
    (j : Nat) (shares : List (Share PK SK)) (hout : NodeOutput n vals gpk sec psh j shares)
    (hnd : (vals.map gpk).Nodup) (wdOf : V → Nat) (amounts : List Nat)
    (exch : List (List (PK × List (ParSig Sig))))
    (hex : List.Forall₂ (fun data a => HonestExchange C n vals gpk sec (fun v => C.depositRoot ⟨gpk v, wdOf v, a⟩) data) exch amounts) :
    ∃ dds, signAndAggDepositData C shares j (vals.map wdOf) amounts exch = .ok dds ∧
      List.Forall₂ (fun row f => row.Perm (vals.map f)) dds (amounts.map fun a => specDeposit C gpk gsig wdOf a) := by
  induction hex with
  | nil => exact ⟨[], rfl, List.Forall₂.nil⟩
  | @cons data a exch' amounts' hd _ ih =>
    obtain ⟨vs, hperm, hdata⟩ := hd
    obtain ⟨dds, hdds, hrows⟩ := ih
    refine ⟨vs.map (specDeposit C gpk gsig wdOf a) :: dds, ?_, ?_⟩
    · unfold signAndAggDepositData
      rw [signDepositMsgs_spec C n vals gpk sec psh j shares hout hnd wdOf a]
      simp only
      rw [aggDepositData_honest C n vals gpk sec psh gsig laws j shares hout hnd _ (fun v => ⟨gpk v, wdOf v, a⟩)
        (fun v hv => get?_vals_map vals gpk hnd _ v hv) vs (fun v hv => hperm.mem_iff.mp hv) data hdata]
      simp only [hdds]
      rfl
    · exact List.Forall₂.cons (hperm.map _) hrows

/-- **The lock's validators, functionally.** Whatever node runs the chain
`signAndAggDepositData → signAndAggValidatorRegistrations → createDistValidators` on its own output
of the key generation and on what honest exchanges returned (any map order, any arrival order), it
obtains `vals.map specDV`: an expression in which neither the node nor any order occurs. -/
theorem lockValidators_spec (C : Crypto PK SK Sig M) (n : Nat) (vals : List V) (gpk : V → PK)
    (sec : Nat → V → SK) (psh : Nat → V → PK) (gsig : V → M → Sig) (laws : Laws C n gpk sec psh gsig)
    (j : Nat) (shares : List (Share PK SK)) (hout : NodeOutput n vals gpk sec psh j shares)
    (hnd : (vals.map gpk).Nodup) (wdOf feeOf : V → Nat) (gas : Nat) (amounts : List Nat) (hne : amounts ≠ [])
    (pregen : Bool) (exchDep : List (List (PK × List (ParSig Sig)))) (exchReg : List (PK × List (ParSig Sig)))
    (hdep : List.Forall₂ (fun data a => HonestExchange C n vals gpk sec (fun v => C.depositRoot ⟨gpk v, wdOf v, a⟩) data) exchDep amounts)
    (hreg : HonestExchange C n vals gpk sec (fun v => C.regRoot ⟨gpk v, feeOf v, gas⟩) exchReg) :
    lockValidators C shares j (vals.map wdOf) (vals.map feeOf) gas amounts pregen exchDep exchReg =
      .ok (clearRegs pregen (vals.map (specDV n gpk psh (amounts.map fun a => specDeposit C gpk gsig wdOf a)
        (specReg C gpk gsig feeOf gas)))) := by
  obtain ⟨dds, hdds, hrows⟩ := signAndAggDepositData_honest C n vals gpk sec psh gsig laws j shares hout hnd wdOf amounts exchDep hdep
  obtain ⟨vs, hperm, hdata⟩ := hreg
  unfold lockValidators
  rw [hdds]
  simp only
  unfold signAndAggRegs
  rw [signRegs_spec C n vals gpk sec psh j shares hout hnd feeOf gas]
  simp only
  rw [aggRegs_honest C n vals gpk sec psh gsig laws j shares hout hnd _ (fun v => ⟨gpk v, feeOf v, gas⟩)
    (fun v hv => get?_vals_map vals gpk hnd _ v hv) vs (fun v hv => hperm.mem_iff.mp hv) exchReg hdata]
  simp only
  have h := createDistValidators_spec n vals gpk sec psh j shares hout hnd (specReg C gpk gsig feeOf gas) (fun _ => rfl)
    (vs.map (specReg C gpk gsig feeOf gas)) (hperm.map _)
    (amounts.map fun a => specDeposit C gpk gsig wdOf a) (by simpa using hne)
    (by intro f hf v; obtain ⟨a, _, rfl⟩ := List.mem_map.mp hf; rfl) dds hrows
  show (match createDistValidators shares dds (vs.map (specReg C gpk gsig feeOf gas)) with
    | Except.error e => Except.error e
    | Except.ok vals => Except.ok (clearRegs pregen vals)) = _
  rw [h]

theorem clearRegs_map_pubShares (pregen : Bool) (l : List (DistValidator PK Sig)) :
    (clearRegs pregen l).map (·.pubShares) = l.map (·.pubShares) ∧
    (clearRegs pregen l).map (·.pubKey) = l.map (·.pubKey) ∧
    (clearRegs pregen l).map (·.deposits) = l.map (·.deposits) := by
  unfold clearRegs
  cases pregen <;> simp [List.map_map, Function.comp_def]

/-! ### nothing is aggregated without verification -/

omit [DecidableEq PK] in
theorem collectPartials_ok (C : Crypto PK SK Sig M) (pso : Option (List (Nat × PK))) (root : M)
    (psigs : List (ParSig Sig)) (acc l : List (Nat × Sig)) (h : collectPartials C pso root psigs acc = .ok l) :
    ∀ s ∈ psigs, ∃ ps pub, pso = some ps ∧ get? ps s.shareIdx = some pub ∧ C.verify pub root s.sig = true := by
  induction psigs generalizing acc with
  | nil => intro s hs; cases hs
  | cons s r ih =>
    unfold collectPartials at h
    cases pso with
    | none => simp at h
    | some ps =>
      simp only at h
      cases hg : get? ps s.shareIdx with
      | none => simp [hg] at h
      | some pub =>
        simp only [hg] at h
        by_cases hv : C.verify pub root s.sig = true
        · simp only [hv, if_true] at h
          intro s' hs'
          rcases List.mem_cons.mp hs' with h1 | h1
          · subst h1; exact ⟨ps, pub, rfl, hg, hv⟩
          · exact ih _ h s' h1
        · simp [hv] at h

/-- **`aggDepositData` returns only verified material**: if the call succeeds, every partial
signature of every validator of the map was verified under the public share of the share index it
claims, over the signing root of the validator's own message — whatever the map holds. -/
theorem aggDepositData_ok (C : Crypto PK SK Sig M) (data : List (PK × List (ParSig Sig)))
    (shares : List (Share PK SK)) (msgs : List (PK × DepositMsg PK)) (r : List (DepositData PK Sig))
    (h : aggDepositData C data shares msgs = .ok r) :
    ∀ e ∈ data, ∃ msg, get? msgs e.1 = some msg ∧
      ∀ s ∈ e.2, ∃ ps pub, get? (pubkeyToPubShares shares) e.1 = some ps ∧ get? ps s.shareIdx = some pub ∧
        C.verify pub (C.depositRoot msg) s.sig = true := by
  induction data generalizing r with
  | nil => intro e he; cases he
  | cons e rest ih =>
    obtain ⟨pk, psigs⟩ := e
    unfold aggDepositData at h
    cases h1 : aggDepositOne C (pubkeyToPubShares shares) msgs pk psigs with
    | error err => simp [h1] at h
    | ok dd =>
      simp only [h1] at h
      cases h2 : aggDepositData C rest shares msgs with
      | error err => simp [h2] at h
      | ok r' =>
        intro e' he'
        rcases List.mem_cons.mp he' with h3 | h3
        · subst h3
          unfold aggDepositOne at h1
          cases hm : get? msgs pk with
          | none => simp [hm] at h1
          | some msg =>
            simp only [hm] at h1
            cases hc : collectPartials C (get? (pubkeyToPubShares shares) pk) (C.depositRoot msg) psigs [] with
            | error err => simp [hc] at h1
            | ok l => exact ⟨msg, rfl, collectPartials_ok C _ _ psigs [] l hc⟩
        · exact ih r' h2 e' h3

omit [DecidableEq PK] in
theorem lockPartials_ok (C : Crypto PK SK Sig M) (sh : Option (Share PK SK)) (hash : M)
    (psigs : List (ParSig Sig)) (acc out : List Sig × List PK) (h : lockPartials C sh hash psigs acc = .ok out) :
    ∀ s ∈ psigs, ∃ sh' pub, sh = some sh' ∧ get? sh'.pubShares s.shareIdx = some pub ∧ C.verify pub hash s.sig = true := by
  induction psigs generalizing acc with
  | nil => intro s hs; cases hs
  | cons s r ih =>
    unfold lockPartials at h
    cases sh with
    | none => simp at h
    | some sh' =>
      simp only at h
      cases hg : get? sh'.pubShares s.shareIdx with
      | none => simp [hg] at h
      | some pub =>
        simp only [hg] at h
        by_cases hv : C.verify pub hash s.sig = true
        · simp only [hv, if_true] at h
          intro s' hs'
          rcases List.mem_cons.mp hs' with h1 | h1
          · subst h1; exact ⟨sh', pub, rfl, hg, hv⟩
          · exact ih _ h s' h1
        · simp [hv] at h

/-- **`aggLockHashSig` aggregates only verified partials.** -/
theorem aggLockHashSig_ok (C : Crypto PK SK Sig M) (data : List (PK × List (ParSig Sig)))
    (shares : List (PK × Share PK SK)) (hash : M) (out : Sig × List PK)
    (h : aggLockHashSig C data shares hash = .ok out) :
    ∀ e ∈ data, ∀ s ∈ e.2, ∃ sh pub, get? shares e.1 = some sh ∧ get? sh.pubShares s.shareIdx = some pub ∧
      C.verify pub hash s.sig = true := by
  unfold aggLockHashSig at h
  cases hc : lockCollect C shares hash data ([], []) with
  | error err => simp [hc] at h
  | ok acc =>
    clear h
    generalize ([] : List Sig) = a0, ([] : List PK) = b0 at hc
    generalize hacc0 : (a0, b0) = acc0 at hc
    clear hacc0 a0 b0
    induction data generalizing acc0 with
    | nil => intro e he; cases he
    | cons e rest ih =>
      obtain ⟨pk, psigs⟩ := e
      unfold lockCollect at hc
      cases h1 : lockPartials C (get? shares pk) hash psigs acc0 with
      | error err => simp [h1] at hc
      | ok acc' =>
        simp only [h1] at hc
        intro e' he'
        rcases List.mem_cons.mp he' with h3 | h3
        · subst h3; exact lockPartials_ok C _ hash psigs acc0 acc' h1
        · exact ih acc' hc e' h3

end Glue

/-! ### the exchanger -/

section Exchanger
variable {PK Sig P : Type} [DecidableEq PK] [DecidableEq Sig] [DecidableEq P]

omit [DecidableEq PK] in
theorem mem_put {K V : Type} [DecidableEq K] (m : List (K × V)) (k : K) (v : V) (e : K × V) (h : e ∈ put m k v) :
    e = (k, v) ∨ e ∈ m := by
  induction m with
  | nil => simp [put] at h; exact Or.inl h
  | cons x r ih =>
    obtain ⟨k', v'⟩ := x
    by_cases hk : k' = k
    · simp only [put, hk, if_true] at h
      rcases List.mem_cons.mp h with h1 | h1
      · exact Or.inl h1
      · exact Or.inr (List.mem_cons_of_mem _ h1)
    · simp only [put, hk, if_false] at h
      rcases List.mem_cons.mp h with h1 | h1
      · exact Or.inr (h1 ▸ List.mem_cons_self)
      · rcases ih h1 with h2 | h2
        · exact Or.inl h2
        · exact Or.inr (List.mem_cons_of_mem _ h2)

/-- **A partial signature filed under a share index that is not the sender's is refused**, together
with the whole message; the exchanger's state does not change. -/
theorem recv_refuses_foreign_index (n : Nat) (peerMap : List (P × Nat)) (st : ExState PK Sig) (sender : P) (tau : Nat)
    (set : List (PK × ParSig Sig)) (e : PK × ParSig Sig) (he : e ∈ set)
    (hforeign : get? peerMap sender ≠ some e.2.shareIdx ∨ e.2.shareIdx = 0) :
    recv n peerMap st sender tau set = (st, false) := by
  unfold recv
  by_cases hg : gater tau = true
  · have : set.all (fun e => verifyPeerShareIdx peerMap sender e.2) = false := by
      rw [List.all_eq_false]
      refine ⟨e, he, ?_⟩
      unfold verifyPeerShareIdx
      cases hp : get? peerMap sender with
      | none => simp
      | some idx =>
        rcases hforeign with h | h
        · have : idx ≠ e.2.shareIdx := fun hh => h (by rw [hp, hh])
          simp; intro _; exact fun hh => this hh.symm
        · simp [h]
    simp [hg, this]
  · simp [hg]

/-- an accepted delivery: every entry claims the sender's own (positive) share index. -/
theorem recv_accepted (n : Nat) (peerMap : List (P × Nat)) (st : ExState PK Sig) (sender : P) (tau : Nat)
    (set : List (PK × ParSig Sig)) (h : (recv n peerMap st sender tau set).2 = true) :
    gater tau = true ∧ (recv n peerMap st sender tau set).1 = storeExternal n st tau set ∧
      ∀ e ∈ set, get? peerMap sender = some e.2.shareIdx ∧ e.2.shareIdx ≠ 0 := by
  unfold recv at h ⊢
  by_cases hg : gater tau = true
  · by_cases ha : set.all (fun e => verifyPeerShareIdx peerMap sender e.2) = true
    · simp only [hg, ha, Bool.not_true, if_true] at h ⊢
      refine ⟨trivial, by simp, ?_⟩
      intro e he
      have := List.all_eq_true.mp ha e he
      unfold verifyPeerShareIdx at this
      cases hp : get? peerMap sender with
      | none => simp [hp] at this
      | some idx =>
        simp [hp] at this
        exact ⟨by rw [this.2], by omega⟩
    · simp [hg, ha] at h
  · simp [hg] at h

/-- a partial found in the database / the collected store is *justified* by an event: the node's own
exchange of that sigType, or an accepted delivery from the peer that holds the share index the
partial is filed under. -/
def Justified (peerMap : List (P × Nat)) (evs : List (Ev P PK Sig)) (tau : Nat) (pk : PK) (p : ParSig Sig) : Prop :=
  ∃ ev ∈ evs, match ev with
    | .own tau' set => tau' = tau ∧ (pk, p) ∈ set
    | .recv s tau' set => tau' = tau ∧ (pk, p) ∈ set ∧ get? peerMap s = some p.shareIdx ∧ p.shareIdx ≠ 0

omit [DecidableEq PK] [DecidableEq Sig] in
theorem Justified.mono {peerMap : List (P × Nat)} {evs : List (Ev P PK Sig)} {tau : Nat} {pk : PK} {p : ParSig Sig}
    (h : Justified peerMap evs tau pk p) (ev : Ev P PK Sig) : Justified peerMap (evs ++ [ev]) tau pk p := by
  obtain ⟨e, he, h⟩ := h
  exact ⟨e, List.mem_append_left _ he, h⟩

/-- invariant of the exchanger state w.r.t. a justification predicate `J tau pk p`. -/
def ExInv (J : Nat → PK → ParSig Sig → Prop) (st : ExState PK Sig) : Prop :=
  (∀ key sigs, (key, sigs) ∈ st.db → ∀ p ∈ sigs, J key.1 key.2 p) ∧
  (∀ tau m, (tau, m) ∈ st.store → ∀ pk sigs, (pk, sigs) ∈ m → ∀ p ∈ sigs, J tau pk p)

theorem storeLoop_inv (J : Nat → PK → ParSig Sig → Prop) (n tau : Nat) (set : List (PK × ParSig Sig))
    (hset : ∀ e ∈ set, J tau e.1 e.2)
    (db : List ((Nat × PK) × List (ParSig Sig))) (out : List (PK × List (ParSig Sig)))
    (hdb : ∀ key sigs, (key, sigs) ∈ db → ∀ p ∈ sigs, J key.1 key.2 p)
    (hout : ∀ pk sigs, (pk, sigs) ∈ out → ∀ p ∈ sigs, J tau pk p) :
    (∀ key sigs, (key, sigs) ∈ (storeLoop n tau set db out).1 → ∀ p ∈ sigs, J key.1 key.2 p) ∧
    (∀ pk sigs, (pk, sigs) ∈ (storeLoop n tau set db out).2 → ∀ p ∈ sigs, J tau pk p) := by
  induction set generalizing db out with
  | nil => exact ⟨hdb, hout⟩
  | cons e rest ih =>
    obtain ⟨pk, v⟩ := e
    have hrest : ∀ e ∈ rest, J tau e.1 e.2 := fun e he => hset e (List.mem_cons_of_mem _ he)
    unfold storeLoop
    cases hs : dbStore ((get? db (tau, pk)).getD []) v with
    | dup => exact ih hrest db out hdb hout
    | mismatch => exact ih hrest db out hdb hout
    | stored sigs =>
      simp only
      have hsigs : ∀ p ∈ sigs, J tau pk p := by
        unfold dbStore at hs
        cases hf : ((get? db (tau, pk)).getD []).find? (fun s => s.shareIdx == v.shareIdx) with
        | some s => simp only [hf] at hs; split at hs <;> cases hs
        | none =>
          simp only [hf] at hs
          cases hs
          intro p hp
          rcases List.mem_append.mp hp with h1 | h1
          · cases hg : get? db (tau, pk) with
            | none => simp [hg] at h1
            | some l =>
              simp only [hg, Option.getD_some] at h1
              exact hdb (tau, pk) l (mem_of_get? db _ _ hg) p h1
          · simp only [List.mem_singleton] at h1
            subst h1
            exact hset (pk, p) List.mem_cons_self
      have hdb' : ∀ key sigs', (key, sigs') ∈ put db (tau, pk) sigs → ∀ p ∈ sigs', J key.1 key.2 p := by
        intro key sigs' hm p hp
        rcases mem_put db (tau, pk) sigs _ hm with h1 | h1
        · cases h1; exact hsigs p hp
        · exact hdb key sigs' h1 p hp
      by_cases hlen : (sigs.length == n) = true
      · simp only [hlen, if_true]
        apply ih hrest _ _ hdb'
        intro pk' sigs' hm p hp
        rcases mem_put out pk sigs _ hm with h1 | h1
        · cases h1; exact hsigs p hp
        · exact hout pk' sigs' h1 p hp
      · simp only [hlen]
        exact ih hrest _ _ hdb' hout

theorem foldl_put_inv {K V : Type} [DecidableEq K] (Q : K → V → Prop) (out : List (K × V)) (cur : List (K × V))
    (hout : ∀ e ∈ out, Q e.1 e.2) (hcur : ∀ e ∈ cur, Q e.1 e.2) :
    ∀ e ∈ out.foldl (fun m e => put m e.1 e.2) cur, Q e.1 e.2 := by
  induction out generalizing cur with
  | nil => exact hcur
  | cons x r ih =>
    refine ih (put cur x.1 x.2) (fun e he => hout e (List.mem_cons_of_mem _ he)) ?_
    intro e he
    rcases mem_put cur x.1 x.2 e he with h1 | h1
    · subst h1; exact hout x List.mem_cons_self
    · exact hcur e h1

theorem storeExternal_inv (J : Nat → PK → ParSig Sig → Prop) (n : Nat) (st : ExState PK Sig) (tau : Nat)
    (set : List (PK × ParSig Sig)) (hset : ∀ e ∈ set, J tau e.1 e.2) (hst : ExInv J st) :
    ExInv J (storeExternal n st tau set) := by
  obtain ⟨hdb, hstore⟩ := hst
  have hl := storeLoop_inv J n tau set hset st.db [] hdb (by intro _ _ h; cases h)
  unfold storeExternal
  cases hsl : storeLoop n tau set st.db [] with
  | mk db out =>
    rw [hsl] at hl
    simp only
    by_cases hemp : out.isEmpty = true
    · simp only [hemp, if_true]
      exact ⟨hl.1, hstore⟩
    · simp only [hemp]
      refine ⟨hl.1, ?_⟩
      intro tau' m hm pk sigs hps p hp
      rcases mem_put st.store tau _ _ hm with h1 | h1
      · cases h1
        have := foldl_put_inv (fun pk sigs => ∀ p ∈ sigs, J tau pk p) out ((get? st.store tau).getD [])
          (fun e he => hl.2 e.1 e.2 he)
          (by
            intro e he
            cases hg : get? st.store tau with
            | none => simp [hg] at he
            | some l =>
              simp only [hg, Option.getD_some] at he
              exact hstore tau l (mem_of_get? _ _ _ hg) e.1 e.2 he)
        exact this (pk, sigs) hps p hp
      · exact hstore tau' m h1 pk sigs hps p hp

/-- **Every partial the exchanger holds came from the holder of its share index.** After ANY sequence
of own exchanges and deliveries (any senders, any contents), every partial signature in the
database and in the collected results was put there by the node's own exchange of that sigType or
arrived in a message from the peer whose assigned share index it is filed under. -/
theorem exRun_justified (n : Nat) (peerMap : List (P × Nat)) (evs : List (Ev P PK Sig)) :
    ExInv (Justified peerMap evs) (exRun (PK := PK) (Sig := Sig) n peerMap evs) := by
  induction evs using List.reverseRecOn with
  | nil => simp [ExInv, exRun]
  | append_singleton evs ev ih =>
    have hmono : ExInv (Justified peerMap (evs ++ [ev])) (exRun (PK := PK) (Sig := Sig) n peerMap evs) :=
      ⟨fun key sigs h p hp => (ih.1 key sigs h p hp).mono ev,
       fun tau m h pk sigs hps p hp => (ih.2 tau m h pk sigs hps p hp).mono ev⟩
    unfold exRun at hmono ⊢
    rw [List.foldl_append, List.foldl_cons, List.foldl_nil]
    cases ev with
    | own tau set =>
      apply storeExternal_inv _ n _ tau set _ hmono
      intro e he
      exact ⟨.own tau set, by simp, rfl, he⟩
    | recv s tau set =>
      show ExInv _ (recv n peerMap _ s tau set).1
      by_cases hacc : (recv n peerMap (List.foldl (exStep n peerMap) {} evs) s tau set).2 = true
      · obtain ⟨_, heq, hall⟩ := recv_accepted n peerMap _ s tau set hacc
        rw [heq]
        apply storeExternal_inv _ n _ tau set _ hmono
        intro e he
        exact ⟨.recv s tau set, by simp, rfl, he, hall e he⟩
      · have : (recv n peerMap (List.foldl (exStep n peerMap) {} evs) s tau set).1 = List.foldl (exStep n peerMap) {} evs := by
          unfold recv at hacc ⊢
          by_cases hg : gater tau = true
          · by_cases ha : set.all (fun e => verifyPeerShareIdx peerMap s e.2) = true
            · simp [hg, ha] at hacc
            · simp [hg, ha]
          · simp [hg]
        rw [this]; exact hmono

end Exchanger

/-! ### shape of the exchanger's state; the result of an exchange among honest nodes -/

section Exchanger2
variable {PK Sig P : Type} [DecidableEq PK] [DecidableEq Sig] [DecidableEq P]

theorem put_keys_nodup {K V : Type} [DecidableEq K] (m : List (K × V)) (k : K) (v : V)
    (h : (m.map Prod.fst).Nodup) : ((put m k v).map Prod.fst).Nodup := by
  induction m with
  | nil => simp [put]
  | cons x r ih =>
    obtain ⟨k', v'⟩ := x
    simp only [List.map_cons, List.nodup_cons] at h
    by_cases hk : k' = k
    · subst hk; simp [put, h.1, h.2]
    · simp only [put, hk, if_false, List.map_cons, List.nodup_cons]
      refine ⟨?_, ih h.2⟩
      intro hm
      obtain ⟨e, he, hek⟩ := List.mem_map.mp hm
      rcases mem_put r k v e he with h1 | h1
      · subst h1; exact hk hek.symm
      · exact h.1 (List.mem_map.mpr ⟨e, h1, hek⟩)

omit [DecidableEq PK] in
theorem dbStore_stored (entries : List (ParSig Sig)) (v : ParSig Sig) (sigs : List (ParSig Sig))
    (h : dbStore entries v = .stored sigs) (hnd : (entries.map (·.shareIdx)).Nodup) :
    sigs = entries ++ [v] ∧ (sigs.map (·.shareIdx)).Nodup := by
  unfold dbStore at h
  cases hf : entries.find? (fun s => s.shareIdx == v.shareIdx) with
  | some s => simp only [hf] at h; split at h <;> cases h
  | none =>
    simp only [hf] at h
    cases h
    refine ⟨rfl, ?_⟩
    rw [List.map_append, List.nodup_append]
    refine ⟨hnd, by simp, ?_⟩
    intro a ha b hb
    simp only [List.map_cons, List.map_nil, List.mem_singleton] at hb
    subst hb
    obtain ⟨e, he, rfl⟩ := List.mem_map.mp ha
    have := List.find?_eq_none.mp hf e he
    simpa using this

/-- shape invariant of the exchanger: database lists hold at most one entry per share index; the
collected maps have pairwise different keys and every collected list has exactly `n` entries with
pairwise different share indices. -/
def ExShape (n : Nat) (st : ExState PK Sig) : Prop :=
  (∀ key sigs, (key, sigs) ∈ st.db → (sigs.map (·.shareIdx)).Nodup) ∧
  (∀ tau m, (tau, m) ∈ st.store → (m.map Prod.fst).Nodup ∧
    ∀ pk sigs, (pk, sigs) ∈ m → sigs.length = n ∧ (sigs.map (·.shareIdx)).Nodup)

theorem storeLoop_shape (n tau : Nat) (set : List (PK × ParSig Sig))
    (db : List ((Nat × PK) × List (ParSig Sig))) (out : List (PK × List (ParSig Sig)))
    (hdb : ∀ key sigs, (key, sigs) ∈ db → (sigs.map (·.shareIdx)).Nodup)
    (hout : (out.map Prod.fst).Nodup ∧ ∀ pk sigs, (pk, sigs) ∈ out → sigs.length = n ∧ (sigs.map (·.shareIdx)).Nodup) :
    (∀ key sigs, (key, sigs) ∈ (storeLoop n tau set db out).1 → (sigs.map (·.shareIdx)).Nodup) ∧
    (((storeLoop n tau set db out).2.map Prod.fst).Nodup ∧
      ∀ pk sigs, (pk, sigs) ∈ (storeLoop n tau set db out).2 → sigs.length = n ∧ (sigs.map (·.shareIdx)).Nodup) := by
  induction set generalizing db out with
  | nil => exact ⟨hdb, hout⟩
  | cons e rest ih =>
    obtain ⟨pk, v⟩ := e
    unfold storeLoop
    cases hs : dbStore ((get? db (tau, pk)).getD []) v with
    | dup => exact ih db out hdb hout
    | mismatch => exact ih db out hdb hout
    | stored sigs =>
      simp only
      have hent : (((get? db (tau, pk)).getD []).map (·.shareIdx)).Nodup := by
        cases hg : get? db (tau, pk) with
        | none => simp
        | some l => simpa using hdb (tau, pk) l (mem_of_get? db _ _ hg)
      obtain ⟨_, hsnd⟩ := dbStore_stored _ v sigs hs hent
      have hdb' : ∀ key sigs', (key, sigs') ∈ put db (tau, pk) sigs → (sigs'.map (·.shareIdx)).Nodup := by
        intro key sigs' hm
        rcases mem_put db (tau, pk) sigs _ hm with h1 | h1
        · cases h1; exact hsnd
        · exact hdb key sigs' h1
      by_cases hlen : (sigs.length == n) = true
      · simp only [hlen, if_true]
        apply ih _ _ hdb'
        refine ⟨put_keys_nodup out pk sigs hout.1, ?_⟩
        intro pk' sigs' hm
        rcases mem_put out pk sigs _ hm with h1 | h1
        · cases h1; exact ⟨by simpa using hlen, hsnd⟩
        · exact hout.2 pk' sigs' h1
      · simp only [hlen]
        exact ih _ _ hdb' hout

theorem foldl_put_shape {K V : Type} [DecidableEq K] (Q : K → V → Prop) (out cur : List (K × V))
    (hout : ∀ e ∈ out, Q e.1 e.2) (hcur : (cur.map Prod.fst).Nodup ∧ ∀ e ∈ cur, Q e.1 e.2) :
    ((out.foldl (fun m e => put m e.1 e.2) cur).map Prod.fst).Nodup ∧
      ∀ e ∈ out.foldl (fun m e => put m e.1 e.2) cur, Q e.1 e.2 := by
  induction out generalizing cur with
  | nil => exact hcur
  | cons x r ih =>
    refine ih (put cur x.1 x.2) (fun e he => hout e (List.mem_cons_of_mem _ he)) ⟨put_keys_nodup _ _ _ hcur.1, ?_⟩
    intro e he
    rcases mem_put cur x.1 x.2 e he with h1 | h1
    · subst h1; exact hout x List.mem_cons_self
    · exact hcur.2 e h1

theorem storeExternal_shape (n : Nat) (st : ExState PK Sig) (tau : Nat) (set : List (PK × ParSig Sig))
    (hst : ExShape n st) : ExShape n (storeExternal n st tau set) := by
  obtain ⟨hdb, hstore⟩ := hst
  have hl := storeLoop_shape n tau set st.db [] hdb ⟨by simp, by intro _ _ h; cases h⟩
  unfold storeExternal
  cases hsl : storeLoop n tau set st.db [] with
  | mk db out =>
    rw [hsl] at hl
    simp only
    by_cases hemp : out.isEmpty = true
    · simp only [hemp, if_true]
      exact ⟨hl.1, hstore⟩
    · simp only [hemp]
      refine ⟨hl.1, ?_⟩
      intro tau' m hm
      rcases mem_put st.store tau _ _ hm with h1 | h1
      · cases h1
        have hcur : (((get? st.store tau).getD []).map Prod.fst).Nodup ∧
            ∀ e ∈ (get? st.store tau).getD [], e.2.length = n ∧ (e.2.map (·.shareIdx)).Nodup := by
          cases hg : get? st.store tau with
          | none => simp
          | some l =>
            have := hstore tau l (mem_of_get? _ _ _ hg)
            exact ⟨by simpa using this.1, by intro e he; simp only [Option.getD_some] at he; exact this.2 e.1 e.2 he⟩
        have := foldl_put_shape (fun (_ : PK) (sigs : List (ParSig Sig)) => sigs.length = n ∧ (sigs.map (·.shareIdx)).Nodup)
          out _ (fun e he => hl.2.2 e.1 e.2 he) hcur
        exact ⟨this.1, fun pk sigs h => this.2 (pk, sigs) h⟩
      · exact hstore tau' m h1

theorem exRun_shape (n : Nat) (peerMap : List (P × Nat)) (evs : List (Ev P PK Sig)) :
    ExShape n (exRun (PK := PK) (Sig := Sig) n peerMap evs) := by
  induction evs using List.reverseRecOn with
  | nil => simp [ExShape, exRun]
  | append_singleton evs ev ih =>
    unfold exRun at ih ⊢
    rw [List.foldl_append, List.foldl_cons, List.foldl_nil]
    cases ev with
    | own tau set => exact storeExternal_shape n _ tau set ih
    | recv s tau set =>
      show ExShape n (recv n peerMap _ s tau set).1
      unfold recv
      by_cases hg : gater tau = true
      · by_cases ha : set.all (fun e => verifyPeerShareIdx peerMap s e.2) = true
        · simp only [hg, ha, Bool.not_true, if_true]
          exact storeExternal_shape n _ tau set ih
        · simp [hg, ha]; exact ih
      · simp [hg]; exact ih

omit [DecidableEq PK] [DecidableEq Sig] [DecidableEq P] in
theorem exists_forall₂ {α β : Type} (R : α → β → Prop) (l : List α) (h : ∀ a ∈ l, ∃ b, R a b) :
    ∃ bs, List.Forall₂ R l bs := by
  induction l with
  | nil => exact ⟨[], List.Forall₂.nil⟩
  | cons a r ih =>
    obtain ⟨b, hb⟩ := h a List.mem_cons_self
    obtain ⟨bs, hbs⟩ := ih fun a' ha' => h a' (List.mem_cons_of_mem _ ha')
    exact ⟨b :: bs, List.Forall₂.cons hb hbs⟩

omit [DecidableEq PK] [DecidableEq Sig] [DecidableEq P] in
theorem perm_of_nodup_subset_length {α : Type} (l₁ l₂ : List α) (hnd : l₁.Nodup) (hsub : l₁ ⊆ l₂)
    (hlen : l₂.length ≤ l₁.length) : l₁.Perm l₂ :=
  (List.subperm_of_subset hnd hsub).perm_of_length_le hlen

/-- **What `exchange` returns when the node and its peers are honest is an honest exchange.** After
ANY sequence of events in which every partial the node itself filed, and every partial a peer sent
under its own share index, for this sigType is *genuine* (under validator `v`'s key, the signature
`σ i v` of the share index `i ∈ 1..n` it is filed under) — other sigTypes, duplicates, early and
refused messages are arbitrary — a result of `exchange` for `vals.length` validators holds every
validator of the ceremony exactly once (some map order) with exactly one genuine partial of every
share index `1..n` (some arrival order). -/
theorem query_honest {V : Type} (n : Nat) (hn : 1 ≤ n) (peerMap : List (P × Nat)) (evs : List (Ev P PK Sig)) (tau : Nat)
    (vals : List V) (gpk : V → PK) (hinj : Function.Injective gpk) (σ : Nat → V → Sig)
    (hgen : ∀ pk p, Justified peerMap evs tau pk p →
      ∃ v ∈ vals, pk = gpk v ∧ p.shareIdx ∈ List.range' 1 n ∧ p.sig = σ p.shareIdx v)
    (data : List (PK × List (ParSig Sig)))
    (hq : query (exRun n peerMap evs) tau vals.length = some data) :
    ∃ vs : List V, vs.Perm vals ∧
      List.Forall₂ (fun e v => e.1 = gpk v ∧ e.2.Perm ((List.range' 1 n).map fun i => (⟨σ i v, i⟩ : ParSig Sig))) data vs := by
  have hjust := exRun_justified (PK := PK) (Sig := Sig) n peerMap evs
  have hshape := exRun_shape (PK := PK) (Sig := Sig) n peerMap evs
  -- the returned map is the collected map of the sigType, with `vals.length` keys
  have hmem : data.length = vals.length ∧ (data = [] ∨ (tau, data) ∈ (exRun n peerMap evs).store) := by
    unfold query at hq
    cases hg : get? (exRun n peerMap evs).store tau with
    | none =>
      simp only [hg, Option.getD_none] at hq
      split at hq
      · rename_i hlen; cases hq; exact ⟨by simpa using hlen, Or.inl rfl⟩
      · cases hq
    | some m =>
      simp only [hg, Option.getD_some] at hq
      split at hq
      · rename_i hlen
        have hm : m = data := Option.some.inj hq
        subst hm
        exact ⟨by simpa using hlen, Or.inr (mem_of_get? _ _ _ hg)⟩
      · cases hq
  obtain ⟨hlen, hstore⟩ := hmem
  have hkeys : (data.map Prod.fst).Nodup := by
    rcases hstore with h | h
    · subst h; simp
    · exact (hshape.2 tau data h).1
  have hent : ∀ e ∈ data, ∃ v, v ∈ vals ∧ e.1 = gpk v ∧
      e.2.Perm ((List.range' 1 n).map fun i => (⟨σ i v, i⟩ : ParSig Sig)) := by
    intro e he
    rcases hstore with h | h
    · subst h; cases he
    · obtain ⟨pk, sigs⟩ := e
      obtain ⟨hl, hnd⟩ := (hshape.2 tau data h).2 pk sigs he
      have hj : ∀ p ∈ sigs, Justified peerMap evs tau pk p := hjust.2 tau data h pk sigs he
      cases sigs with
      | nil => simp at hl; omega
      | cons p0 rest =>
        obtain ⟨v0, hv0, hpk, _, _⟩ := hgen pk p0 (hj p0 List.mem_cons_self)
        refine ⟨v0, hv0, hpk, ?_⟩
        have hall : ∀ p ∈ p0 :: rest, p.shareIdx ∈ List.range' 1 n ∧ p = ⟨σ p.shareIdx v0, p.shareIdx⟩ := by
          intro p hp
          obtain ⟨v, _, hpk', hi, hs⟩ := hgen pk p (hj p hp)
          have : v = v0 := hinj (hpk'.symm.trans hpk)
          subst this
          refine ⟨hi, ?_⟩
          cases p; simp only at hs; simp [hs]
        have hidx : ((p0 :: rest).map (·.shareIdx)).Perm (List.range' 1 n) :=
          perm_of_nodup_subset_length _ _ hnd
            (by intro i hi; obtain ⟨p, hp, rfl⟩ := List.mem_map.mp hi; exact (hall p hp).1)
            (by simp at hl ⊢; omega)
        have hmapeq : (p0 :: rest) = ((p0 :: rest).map (·.shareIdx)).map (fun i => (⟨σ i v0, i⟩ : ParSig Sig)) := by
          rw [List.map_map]
          conv_lhs => rw [← List.map_id (p0 :: rest)]
          apply List.map_congr_left
          intro p hp
          exact (hall p hp).2
        rw [hmapeq]
        show (List.map (fun i => (⟨σ i v0, i⟩ : ParSig Sig)) _).Perm _
        exact hidx.map _
  obtain ⟨vs, hvs⟩ := exists_forall₂ (fun e v => v ∈ vals ∧ e.1 = gpk v ∧
      e.2.Perm ((List.range' 1 n).map fun i => (⟨σ i v, i⟩ : ParSig Sig))) data hent
  have hvsub : vs ⊆ vals := by
    intro v hv
    clear hkeys hent hlen hstore hq
    induction hvs with
    | nil => cases hv
    | cons hab _ ih =>
      rcases List.mem_cons.mp hv with h | h
      · subst h; exact hab.1
      · exact ih h
  have hmap : vs.map gpk = data.map Prod.fst := by
    clear hkeys hent hlen hstore hq hvsub
    induction hvs with
    | nil => rfl
    | cons hab _ ih => simp [hab.2.1, ih]
  have hvnd : vs.Nodup := by
    have : (vs.map gpk).Nodup := hmap ▸ hkeys
    exact List.Nodup.of_map gpk this
  refine ⟨vs, perm_of_nodup_subset_length vs vals hvnd hvsub ?_, ?_⟩
  · rw [← hlen, ← List.Forall₂.length_eq hvs]
  · exact List.Forall₂.imp (fun _ _ h => ⟨h.2.1, h.2.2⟩) hvs


end Exchanger2

open Polynomial Finset CharonV.Tbls

section Algebra
variable {F : Type} [Field F] {G1 G2 : Type} [AddCommGroup G1] [Module F G1] [AddCommGroup G2] [Module F G2]
variable {M : Type}

/-- value filed under index `i` in a collected map (`0` if absent). -/
def lookupD (l : List (ℕ × G2)) (i : ℕ) : G2 := ((l.find? (fun e => e.1 == i)).map Prod.snd).getD 0

/-- Threshold BLS (`Spec/Tbls`) as the `Crypto` of the glue: secrets are scalars, the public key of
`s` is `s • g1`, the signature of `s` over `m` is `s • Hm m`, `Verify` is the idealised pairing
equation, `ThresholdAggregate` is the Lagrange combination over the indices present in the map,
`Aggregate` the sum. -/
noncomputable def algCrypto (g1 : G1) (Hm : M → G2) (droot : DepositMsg G1 → M) (rroot : RegMsg G1 → M) :
    Crypto G1 F G2 M where
  pub s := pk g1 s
  sign s m := sign Hm s m
  verify K m σ := @decide (Verifies F g1 Hm K m σ) (Classical.propDecidable _)
  thresholdAgg l := recoverG F (l.map Prod.fst).toFinset (lookupD l)
  aggregate sigs := sigs.sum
  verifyAgg pks σ m := @decide (Verifies F g1 Hm pks.sum m σ) (Classical.propDecidable _)
  depositRoot := droot
  regRoot := rroot

theorem lookupD_of_mem (l : List (ℕ × G2)) (hnd : (l.map Prod.fst).Nodup) (e : ℕ × G2) (he : e ∈ l) :
    lookupD l e.1 = e.2 := by
  unfold lookupD
  induction l with
  | nil => cases he
  | cons x r ih =>
    simp only [List.map_cons, List.nodup_cons] at hnd
    rcases List.mem_cons.mp he with h | h
    · subst h; simp
    · have hne : x.1 ≠ e.1 := by
        intro hh
        exact hnd.1 (hh ▸ List.mem_map.mpr ⟨e, h, rfl⟩)
      simp [hne, ih hnd.2 h]

/-- **The collected partials of all `n` share indices aggregate to the group signature.** The map
`l` (any order) holds under every index `1..n` that share's signature over `m`; the sharing
polynomial has degree `< t ≤ n`; the indices are distinct scalars. -/
theorem alg_threshold_agg (g1 : G1) (Hm : M → G2) (droot : DepositMsg G1 → M) (rroot : RegMsg G1 → M)
    (t n : ℕ) (htn : t ≤ n) (p : F[X]) (hp : p.degree < t)
    (hinj : IdsDistinct F (List.range' 1 n).toFinset) (m : M)
    (l : List (ℕ × G2)) (hkeys : (l.map Prod.fst).Perm (List.range' 1 n))
    (hvals : ∀ e ∈ l, e.2 = sign Hm (share p e.1) m) :
    (algCrypto (F := F) g1 Hm droot rroot).thresholdAgg l = sign Hm (p.eval 0) m := by
  have hnd : (l.map Prod.fst).Nodup := hkeys.nodup_iff.mpr (List.nodup_range' (step := 1))
  have hS : (l.map Prod.fst).toFinset = (List.range' 1 n).toFinset := List.toFinset_eq_of_perm _ _ hkeys
  show recoverG F (l.map Prod.fst).toFinset (lookupD l) = _
  rw [hS]
  have hcongr : recoverG F (List.range' 1 n).toFinset (lookupD l) =
      recoverG F (List.range' 1 n).toFinset (fun j => sign Hm (share p j) m) := by
    unfold recoverG
    apply Finset.sum_congr rfl
    intro i hi
    have hi' : i ∈ l.map Prod.fst := hkeys.mem_iff.mpr (List.mem_toFinset.mp hi)
    obtain ⟨e, he, rfl⟩ := List.mem_map.mp hi'
    rw [lookupD_of_mem l hnd e he, hvals e he]
  rw [hcongr]
  unfold sign
  rw [recoverG_smul, recover_share p _ hinj]
  have hcard : (List.range' 1 n).toFinset.card = n := by
    rw [List.toFinset_card_of_nodup (List.nodup_range' (step := 1))]; simp
  rw [hcard]
  exact lt_of_lt_of_le hp (by exact_mod_cast htn)

/-- threshold BLS satisfies what the glue needs (`Laws`): for every family of sharing polynomials of
degree `< t ≤ n` (one per validator) with `sec i v = p_v(i)`, `psh i v = p_v(i) • g1`,
`gpk v = p_v(0) • g1`, `gsig v m = p_v(0) • Hm m`. -/
theorem alg_laws {V : Type} (g1 : G1) (Hm : M → G2) (droot : DepositMsg G1 → M) (rroot : RegMsg G1 → M)
    (t n : ℕ) (htn : t ≤ n) (p : V → F[X]) (hp : ∀ v, (p v).degree < t)
    (hinj : IdsDistinct F (List.range' 1 n).toFinset) :
    Laws (algCrypto (F := F) g1 Hm droot rroot) n (fun v => pk g1 ((p v).eval 0)) (fun i v => share (p v) i)
      (fun i v => pk g1 (share (p v) i)) (fun v m => sign Hm ((p v).eval 0) m) where
  pub_share _ _ := rfl
  verify_partial i _ v m := by
    show @decide (Verifies F g1 Hm _ m _) (Classical.propDecidable _) = true
    exact @decide_eq_true _ (Classical.propDecidable _) ⟨share (p v) i, rfl, rfl⟩
  threshold_agg v m l hk hv := alg_threshold_agg g1 Hm droot rroot t n htn (p v) (hp v) hinj m l hk hv
  verify_group v m := by
    show @decide (Verifies F g1 Hm _ m _) (Classical.propDecidable _) = true
    exact @decide_eq_true _ (Classical.propDecidable _) ⟨(p v).eval 0, rfl, rfl⟩

end Algebra


/-! ### the cluster-changing protocols: assembling the new lock -/

section Protocols
variable {PK SK Sig V : Type}

/-- `MsgFromShare` on a `PublicShares` map whose keys are any strictly increasing sequence
`key 0 < key 1 < … < key (n'-1)` (remove-operators: the ORIGINAL share indices of the operators that
stay): position `r` of the result is the value filed under `key r`. -/
theorem msgPubShares_sorted (n' : Nat) (key : Nat → Nat) (hmono : ∀ a b, a < b → b < n' → key a < key b)
    (psh : Nat → PK) (s : Share PK SK)
    (hkeys : (s.pubShares.map Prod.fst).Perm ((List.range n').map key))
    (hvals : ∀ r < n', get? s.pubShares (key r) = some (psh r)) :
    msgPubShares s = (List.range n').map psh := by
  unfold msgPubShares
  have hsorted : ((List.range n').map key).Pairwise (· ≤ ·) := by
    rw [List.pairwise_map]
    refine List.Pairwise.imp_of_mem ?_ (List.pairwise_lt_range (n := n'))
    intro a b _ hb hab
    exact Nat.le_of_lt (hmono a b hab (List.mem_range.mp hb))
  have hsort : sortNat (s.pubShares.map Prod.fst) = (List.range n').map key := by
    rw [sortNat_eq]
    exact List.Perm.eq_of_pairwise' (r := (· ≤ ·)) (List.pairwise_insertionSort _ _) hsorted
      ((List.perm_insertionSort _ _).trans hkeys)
  rw [hsort, List.filterMap_map]
  rw [List.filterMap_congr (f := get? s.pubShares ∘ key) (g := fun r => some (psh r))
    (fun r hr => hvals r (List.mem_range.mp hr))]
  show List.filterMap (some ∘ psh) _ = _
  rw [List.filterMap_eq_map]

theorem updateLockValidators_keeps {PK SK Sig : Type} (oldVals : List (DistValidator PK Sig)) (shares : List (Share PK SK))
    (new : List (DistValidator PK Sig)) (h : updateLockValidators oldVals shares = some new) :
    new.map (·.pubKey) = oldVals.map (·.pubKey) ∧ new.map (·.deposits) = oldVals.map (·.deposits) ∧
    new.map (·.reg) = oldVals.map (·.reg) ∧ new.length = oldVals.length := by
  unfold updateLockValidators at h
  by_cases hl : shares.length < oldVals.length
  · simp [hl] at h
  · simp only [hl, if_false, Option.some.injEq] at h
    subst h
    have hfst : (oldVals.zip shares).map Prod.fst = oldVals := List.map_fst_zip (by omega)
    refine ⟨?_, ?_, ?_, ?_⟩
    · conv_rhs => rw [← hfst]
      simp [List.map_map, Function.comp_def]
    · conv_rhs => rw [← hfst]
      simp [List.map_map, Function.comp_def]
    · conv_rhs => rw [← hfst]
      simp [List.map_map, Function.comp_def]
    · simp; omega

section Ops
variable {O : Type} [DecidableEq O]

theorem mem_removeOperators (ops removing : List O) (o : O) :
    o ∈ removeOperators ops removing ↔ o ∈ ops ∧ o ∉ removing := by
  simp [removeOperators]

theorem removeOperators_sublist (ops removing : List O) : (removeOperators ops removing).Sublist ops :=
  List.filter_sublist

/-- the original share indices of the operators that stay are strictly increasing. -/
theorem remainingShareIdx_increasing (ops removing : List O) :
    (remainingShareIdx ops removing).Pairwise (· < ·) := by
  unfold remainingShareIdx
  refine List.Pairwise.filterMap _ ?_ (List.pairwise_lt_range (n := ops.length))
  intro a a' haa b hb b' hb'
  cases h1 : ops[a]? with
  | none => simp [h1] at hb
  | some o =>
    cases h2 : ops[a']? with
    | none => simp [h2] at hb'
    | some o' =>
      simp only [h1, h2] at hb hb'
      split at hb <;> split at hb' <;> simp at hb hb'
      omega

theorem removeThreshold_spec (n removed newT x : Nat) (h : removeThreshold n removed newT = some x) :
    clusterThreshold (n - removed) ≤ x ∧ (newT ≠ 0 → x = newT ∧ x < n - removed) := by
  unfold removeThreshold at h
  by_cases h0 : newT = 0
  · simp [h0] at h; subst h; exact ⟨Nat.le_refl _, fun hh => absurd h0 hh⟩
  · simp only [ne_eq, h0, not_false_eq_true, if_true] at h
    split at h
    · cases h
    · rename_i hc
      cases h
      exact ⟨by omega, fun _ => ⟨rfl, by omega⟩⟩

theorem replaceOperator_spec (ops : List O) (old new : O) (l : List O) (h : replaceOperator ops old new = some l) :
    l.length = ops.length ∧ ∃ i, ops[i]? = some old ∧ l = ops.set i new := by
  unfold replaceOperator at h
  cases hi : ops.idxOf? old with
  | none => simp [hi] at h
  | some i =>
    simp only [hi, Option.some.injEq] at h
    subst h
    obtain ⟨hlt, hget, _⟩ := List.idxOf?_eq_some_iff.mp hi
    exact ⟨by simp, i, by simp [hlt, hget], rfl⟩

end Ops

theorem updateLockValidators_pubShares {PK SK Sig V : Type} (n' : Nat) (key : Nat → Nat)
    (hmono : ∀ a b, a < b → b < n' → key a < key b) (vals : List V) (psh : Nat → V → PK)
    (shares : List (Share PK SK))
    (hsh : List.Forall₂ (fun s v => (s.pubShares.map Prod.fst).Perm ((List.range n').map key) ∧
      ∀ r < n', get? s.pubShares (key r) = some (psh r v)) shares vals)
    (oldVals : List (DistValidator PK Sig)) (hlen : oldVals.length = vals.length) :
    ∃ new, updateLockValidators oldVals shares = some new ∧
      new.map (·.pubShares) = vals.map fun v => (List.range n').map fun r => psh r v := by
  have hl : ¬ shares.length < oldVals.length := by rw [hlen, List.Forall₂.length_eq hsh]; omega
  refine ⟨(oldVals.zip shares).map fun vs => { vs.1 with pubShares := msgPubShares vs.2 }, ?_, ?_⟩
  · unfold updateLockValidators; simp only [hl, if_false]
  clear hl
  induction hsh generalizing oldVals with
  | nil => cases oldVals <;> simp_all
  | @cons s v shares' vals' hsv _ ih =>
    cases oldVals with
    | nil => simp at hlen
    | cons ov rest =>
      simp only [List.zip_cons_cons, List.map_cons, List.cons.injEq]
      refine ⟨msgPubShares_sorted n' key hmono (fun r => psh r v) s hsv.1 hsv.2, ?_⟩
      exact ih rest (by simpa using hlen)

end Protocols

/-! ### append mode: the existing shares rebuilt from the old lock -/

theorem existingShares_spec {PK SK Sig : Type} (vals : List (DistValidator PK Sig)) (secrets : List SK)
    (ex : List (Share PK SK)) (hlen : secrets.length = vals.length) (h : existingShares vals secrets = some ex) :
    ex.map (·.secret) = secrets ∧ ex.map (·.pubKey) = vals.map (·.pubKey) := by
  unfold existingShares at h
  have hl : ¬ vals.length < secrets.length := by omega
  simp only [hl, if_false, Option.some.injEq] at h
  subst h
  constructor
  · rw [List.map_map]
    have : (secrets.zip vals).map Prod.fst = secrets := List.map_fst_zip (by omega)
    conv_rhs => rw [← this]
    rfl
  · rw [List.map_map]
    have : (secrets.zip vals).map Prod.snd = vals := List.map_snd_zip (by omega)
    conv_rhs => rw [← this, List.map_map]
    rfl

/-! ### a small computable instance (non-vacuity examples) -/

section Toy

/-- keys are `(share index, validator)` with index `0` for the group key; a signature is the pair
(signing key's public key, message); the threshold aggregate of a non-empty map of one validator's
partials is that validator's group signature. -/
def toyCrypto : Crypto (Nat × Nat) (Nat × Nat) ((Nat × Nat) × Nat) Nat where
  pub sk := sk
  sign sk m := (sk, m)
  verify pk m σ := σ == (pk, m)
  thresholdAgg l := match l with
    | (_, ((_, v), m)) :: _ => ((0, v), m)
    | [] => ((0, 0), 0)
  aggregate sigs := match sigs with
    | (_, m) :: _ => ((0, sigs.length), m)
    | [] => ((0, 0), 0)
  verifyAgg pks σ m := σ == ((0, pks.length), m)
  depositRoot d := 1000000 * d.pubKey.2 + 1000 * d.wd + d.amount
  regRoot r := 500000 + 1000000 * r.pubKey.2 + 1000 * r.fee + r.gas

theorem toy_laws (n : Nat) (hn : 1 ≤ n) :
    Laws toyCrypto n (fun v : Nat => (0, v)) (fun i v => (i, v)) (fun i v => (i, v)) (fun v m => ((0, v), m)) where
  pub_share _ _ := rfl
  verify_partial _ _ _ _ := by simp [toyCrypto]
  threshold_agg v m l hk hv := by
    cases l with
    | nil =>
      have := hk.length_eq
      simp at this; omega
    | cons e r =>
      have := hv e List.mem_cons_self
      obtain ⟨i, σ⟩ := e
      simp only at this
      subst this
      rfl
  verify_group _ _ := by simp [toyCrypto]

end Toy

end CharonV.DkgGlue
