/-
Invariants of the `Run` model (`Model/SchedRun.lean`): `KInv` for the core (phases, ticker, hand-over of
slots, the embedded `Sched.Sys` with its own invariant `SInv`), `RInv` for the registration goroutines.
-/
import CharonV.Model.SchedRun
import CharonV.Proofs.Sched

namespace CharonV.SchedRun
open CharonV.Sched

/-- lower bound of everything the ticker can still put on offer / has on offer. -/
def Ticker.lo : Ticker → Option Nat
  | .wait n => some n
  | .offer s => some s
  | _ => none

/-- what the ticker offered so far against what `Run` received. -/
def tkRel (tk : Ticker) (emitted taken : List Nat) : Prop :=
  match tk with
  | .off => taken = [] ∧ emitted = []
  | .wait _ => emitted = taken
  | .offer s => emitted = taken ++ [s]
  | .dead => emitted = taken ∨ ∃ s, emitted = taken ++ [s]

structure KInv (bn : BN) (cfg : RCfg) (c : Core) : Prop where
  gok : c.gOk = false → c.phase.preG = true
  sok : c.sOk = false → c.phase.pre = true
  preOff : c.phase.pre = true ∨ c.phase = .tCall → c.tk = .off
  sorted : c.taken.Pairwise (fun a b => a < b)
  below : ∀ b, c.tk.lo = some b → ∀ x ∈ c.taken, x < b
  rel : tkRel c.tk c.emitted c.taken
  busyB : ∀ s, c.phase = .busy s → c.sys.next ≤ s ∧ c.taken = c.sys.ticked ++ [s]
  idleB : (∀ s, c.phase ≠ .busy s) → c.taken = c.sys.ticked ∧ ∀ b, c.tk.lo = some b → c.sys.next ≤ b
  sinv : SInv bn cfg.s c.sys
  subs : c.subCalls = c.taken.flatMap (subsOf cfg.nsubs)
  dead : (∃ e, c.phase = .returned e) ↔ c.tk = .dead
  stopA : ∀ x ∈ c.afterStop, x ∈ c.taken
  atLen : c.takenAt.map Prod.fst = c.taken

theorem preG_pre {p : Phase} (h : p.preG = true) : p.pre = true := by
  cases p <;> simp_all [Phase.preG, Phase.pre]

theorem sinv_empty (bn : BN) (cfg : Cfg) : SInv bn cfg ({} : Sys) where
  j := by intro d pk df h; simp [defsOf, AMap.get?] at h
  histJ := by intro t h; simp at h
  histLt := by intro t h; simp at h
  histNb := by intro t h; simp at h
  nodup := by simp
  tickedLt := by intro t h; simp at h
  tickedSorted := by simp
  histTicked := by intro t h; simp at h

theorem KInv.init (bn : BN) (cfg : RCfg) (t0 : Nat) : KInv bn cfg (St.init t0).core where
  gok := by intro _; rfl
  sok := by intro _; rfl
  preOff := by intro _; rfl
  sorted := by simp [St.init]
  below := by intro b h; simp [St.init, Ticker.lo] at h
  rel := by simp [St.init, tkRel]
  busyB := by intro s h; simp [St.init] at h
  idleB := by intro _; simp [St.init, Ticker.lo]
  sinv := sinv_empty bn cfg.s
  subs := by simp [St.init]
  dead := by simp [St.init]
  stopA := by intro x h; simp [St.init] at h
  atLen := by simp [St.init]

/-- frame: a step that changes neither phase, ticker, embedded system nor the ghost fields. -/
theorem KInv.frame {bn : BN} {cfg : RCfg} {c c' : Core} (h : KInv bn cfg c)
    (h1 : c'.phase = c.phase) (h2 : c'.tk = c.tk) (h3 : c'.sys = c.sys) (h4 : c'.gOk = c.gOk)
    (h5 : c'.sOk = c.sOk) (h6 : c'.emitted = c.emitted) (h7 : c'.taken = c.taken)
    (h8 : c'.subCalls = c.subCalls) (h9 : c'.afterStop = c.afterStop) (h10 : c'.takenAt = c.takenAt) :
    KInv bn cfg c' := by
  refine ⟨?_, ?_, ?_, ?_, ?_, ?_, ?_, ?_, ?_, ?_, ?_, ?_, ?_⟩
  · rw [h4, h1]; exact h.gok
  · rw [h5, h1]; exact h.sok
  · rw [h1, h2]; exact h.preOff
  · rw [h7]; exact h.sorted
  · rw [h2, h7]; exact h.below
  · rw [h2, h6, h7]; exact h.rel
  · rw [h1, h3, h7]; exact h.busyB
  · rw [h1, h3, h7, h2]; exact h.idleB
  · rw [h3]; exact h.sinv
  · rw [h8, h7]; exact h.subs
  · rw [h1, h2]; exact h.dead
  · rw [h9, h7]; exact h.stopA
  · rw [h10, h7]; exact h.atLen

/-- a step inside the waiting phases (or into `tCall`): only phase and the two flags change. -/
theorem KInv.prePhase {bn : BN} {cfg : RCfg} {c c' : Core} (h : KInv bn cfg c)
    (hp : c.phase.pre = true) (hp' : c'.phase.pre = true ∨ c'.phase = .tCall)
    (hg : c'.gOk = false → c'.phase.preG = true) (hs : c'.sOk = false → c'.phase.pre = true)
    (h2 : c'.tk = c.tk) (h3 : c'.sys = c.sys)
    (h6 : c'.emitted = c.emitted) (h7 : c'.taken = c.taken)
    (h8 : c'.subCalls = c.subCalls) (h9 : c'.afterStop = c.afterStop) (h10 : c'.takenAt = c.takenAt) :
    KInv bn cfg c' := by
  have hoff : c.tk = .off := h.preOff (Or.inl hp)
  have hnb : ∀ s, c.phase ≠ .busy s := by intro s hs'; rw [hs'] at hp; simp [Phase.pre] at hp
  have hnb' : ∀ s, c'.phase ≠ .busy s := by
    intro s hs'; rw [hs'] at hp'; simp [Phase.pre] at hp'
  refine ⟨hg, hs, ?_, ?_, ?_, ?_, ?_, ?_, ?_, ?_, ?_, ?_, ?_⟩
  · intro _; rw [h2]; exact hoff
  · rw [h7]; exact h.sorted
  · rw [h2, h7]; exact h.below
  · rw [h2, h6, h7]; exact h.rel
  · intro s hs'; exact absurd hs' (hnb' s)
  · intro _; rw [h3, h7, h2]; exact h.idleB hnb
  · rw [h3]; exact h.sinv
  · rw [h8, h7]; exact h.subs
  · rw [h2, hoff]
    constructor
    · rintro ⟨e, he⟩; rw [he] at hp'; simp [Phase.pre] at hp'
    · intro hd; cases hd
  · rw [h9, h7]; exact h.stopA
  · rw [h10, h7]; exact h.atLen

theorem KInv.ret {bn : BN} {cfg : RCfg} {c : Core} (h : KInv bn cfg c) (err : Bool)
    (hnb : ∀ s, c.phase ≠ .busy s) (hsok : c.sOk = true) (hgok : c.gOk = true) : KInv bn cfg (c.ret err) := by
  obtain ⟨ht, _⟩ := h.idleB hnb
  refine ⟨?_, ?_, ?_, h.sorted, ?_, ?_, ?_, ?_, h.sinv, h.subs, ?_, h.stopA, h.atLen⟩
  · intro hf; simp [Core.ret, hgok] at hf
  · intro hf; simp [Core.ret, hsok] at hf
  · intro hp; simp [Core.ret, Phase.pre] at hp
  · intro b hb; simp [Core.ret, Ticker.lo] at hb
  · have hr := h.rel
    show tkRel Ticker.dead c.emitted c.taken
    cases htk : c.tk with
    | off => rw [htk] at hr; obtain ⟨a, b⟩ := hr; left; rw [a, b]
    | wait n => rw [htk] at hr; left; exact hr
    | offer s => rw [htk] at hr; right; exact ⟨s, hr⟩
    | dead => rw [htk] at hr; exact hr
  · intro s hs; simp [Core.ret] at hs
  · intro _; exact ⟨ht, by intro b hb; simp [Core.ret, Ticker.lo] at hb⟩
  · simp [Core.ret]

theorem KInv.flags {bn : BN} {cfg : RCfg} {c : Core} (h : KInv bn cfg c) (hp : c.phase.pre = false) :
    c.gOk = true ∧ c.sOk = true := by
  constructor
  · cases hg : c.gOk with
    | true => rfl
    | false => have := preG_pre (h.gok hg); rw [hp] at this; cases this
  · cases hs : c.sOk with
    | true => rfl
    | false => have := h.sok hs; rw [hp] at this; cases this

theorem KInv.step {bn : BN} {cfg : RCfg} (hdur : 0 < cfg.s.slotDur) {c : Core} (h : KInv bn cfg c) (e : Ev) :
    KInv bn cfg (coreStep bn cfg c e) := by
  cases e with
  | genesis ans =>
    simp only [coreStep]
    split
    · rename_i i hph
      have hp : c.phase.pre = true := by rw [hph]; rfl
      cases ans with
      | none =>
        exact h.prePhase hp (Or.inl rfl) (fun _ => rfl) (fun _ => rfl) rfl rfl rfl rfl rfl rfl rfl
      | some g =>
        simp only
        split
        · exact h.prePhase hp (Or.inl rfl) (fun _ => rfl) (fun _ => rfl) rfl rfl rfl rfl rfl rfl rfl
        · exact h.prePhase hp (Or.inl rfl) (fun hf => by simp at hf) (fun _ => rfl) rfl rfl rfl rfl rfl rfl rfl
    · rename_i hph
      have hoff : c.tk = .off := h.preOff (Or.inr hph)
      have hnb : ∀ s, c.phase ≠ .busy s := by intro s hs; rw [hph] at hs; cases hs
      have hfl := h.flags (by rw [hph]; rfl)
      cases ans with
      | none => exact h.ret true hnb hfl.2 hfl.1
      | some g =>
        have hr := h.rel
        rw [hoff] at hr
        obtain ⟨ht, he⟩ := hr
        simp only
        refine ⟨?_, ?_, ?_, ?_, ?_, ?_, ?_, ?_, ?_, ?_, ?_, ?_, ?_⟩
        · intro hf; simp [hfl.1] at hf
        · intro hf; simp [hfl.2] at hf
        · intro hp; simp [Phase.pre] at hp
        · exact h.sorted
        · intro b _ x hx; simp [ht] at hx
        · show c.emitted = c.taken; rw [ht, he]
        · intro s hs; cases hs
        · intro _
          refine ⟨by simp [Sys.init, ht], ?_⟩
          intro b hb
          simp only [Ticker.lo, Option.some.injEq] at hb
          simp [Sys.init, ← hb]
        · exact SInv.init bn cfg.s _
        · exact h.subs
        · simp
        · exact h.stopA
        · exact h.atLen
    · exact h
  | syncing ans =>
    simp only [coreStep]
    split
    · rename_i i hph
      have hp : c.phase.pre = true := by rw [hph]; rfl
      have hg : c.gOk = true := by
        cases hg : c.gOk with
        | true => rfl
        | false => have := h.gok hg; rw [hph] at this; simp [Phase.preG] at this
      cases ans with
      | none => exact h.prePhase hp (Or.inl rfl) (fun hf => by simp [hg] at hf) (fun _ => rfl) rfl rfl rfl rfl rfl rfl rfl
      | some b =>
        cases b with
        | true => exact h.prePhase hp (Or.inl rfl) (fun hf => by simp [hg] at hf) (fun _ => rfl) rfl rfl rfl rfl rfl rfl rfl
        | false =>
          exact h.prePhase hp (Or.inr rfl) (fun hf => by simp [hg] at hf) (fun hf => by simp at hf) rfl rfl rfl rfl rfl rfl rfl
    · exact h
  | wake =>
    simp only [coreStep]
    split
    · rename_i i hph
      have hp : c.phase.pre = true := by rw [hph]; rfl
      exact h.prePhase hp (Or.inl rfl) (fun _ => rfl) (fun _ => rfl) rfl rfl rfl rfl rfl rfl rfl
    · rename_i i t hph
      have hp : c.phase.pre = true := by rw [hph]; rfl
      split
      · exact h.prePhase hp (Or.inl rfl) (fun _ => rfl) (fun _ => rfl) rfl rfl rfl rfl rfl rfl rfl
      · exact h
    · rename_i i b hph
      have hp : c.phase.pre = true := by rw [hph]; rfl
      have hg : c.gOk = true := by
        cases hg : c.gOk with
        | true => rfl
        | false => have := h.gok hg; rw [hph] at this; simp [Phase.preG] at this
      exact h.prePhase hp (Or.inl rfl) (fun hf => by simp [hg] at hf) (fun _ => rfl) rfl rfl rfl rfl rfl rfl rfl
    · exact h
  | adv d => exact h.frame rfl rfl rfl rfl rfl rfl rfl rfl rfl rfl
  | back d => exact h.frame rfl rfl rfl rfl rfl rfl rfl rfl rfl rfl
  | stop => exact h.frame rfl rfl rfl rfl rfl rfl rfl rfl rfl rfl
  | regTimer i => exact h
  | regQuit i => exact h
  | regAns i ok => exact h
  | tick =>
    simp only [coreStep]
    split
    · rename_i n htk
      split
      · exact h
      · rename_i s n' hts
        obtain ⟨hle, _⟩ := tickerStep_some hdur hts
        have hr := h.rel
        rw [htk] at hr
        have hnp : c.phase.pre = false := by
          cases hp : c.phase.pre with
          | false => rfl
          | true => have := h.preOff (Or.inl hp); rw [htk] at this; cases this
        have hnt : c.phase ≠ .tCall := by
          intro ht; have := h.preOff (Or.inr ht); rw [htk] at this; cases this
        refine ⟨h.gok, h.sok, ?_, h.sorted, ?_, ?_, h.busyB, ?_, h.sinv, h.subs, ?_, h.stopA, h.atLen⟩
        · intro hp
          rcases hp with hp | hp
          · exact absurd hp (by simp [hnp])
          · exact absurd hp hnt
        · intro b hb x hx
          simp only [Ticker.lo, Option.some.injEq] at hb
          have := h.below n (by rw [htk]; rfl) x hx
          omega
        · show c.emitted ++ [s] = c.taken ++ [s]; rw [hr]
        · intro hnb
          obtain ⟨h1, h2⟩ := h.idleB hnb
          refine ⟨h1, ?_⟩
          intro b hb
          simp only [Ticker.lo, Option.some.injEq] at hb
          have := h2 n (by rw [htk]; rfl)
          show c.sys.next ≤ b
          omega
        · have := h.dead
          rw [htk] at this
          constructor
          · intro hx; exact absurd (this.mp hx) (by simp)
          · intro hx; cases hx
    · exact h
  | take q =>
    simp only [coreStep]
    split
    · rename_i hph
      have hnb : ∀ s, c.phase ≠ .busy s := by intro s hs; rw [hph] at hs; cases hs
      have hfl := h.flags (by rw [hph]; rfl)
      split
      · exact h.ret false hnb hfl.2 hfl.1
      · split
        · rename_i s htk
          have hr := h.rel
          rw [htk] at hr
          obtain ⟨h1, h2⟩ := h.idleB hnb
          have hb := h.below s (by rw [htk]; rfl)
          refine ⟨?_, ?_, ?_, ?_, ?_, ?_, ?_, ?_, h.sinv, ?_, ?_, ?_, ?_⟩
          · intro hf; simp [hfl.1] at hf
          · intro hf; simp [hfl.2] at hf
          · intro hp; simp [Phase.pre] at hp
          · refine List.pairwise_append.mpr ⟨h.sorted, by simp, ?_⟩
            intro a ha b hb'
            simp at hb'
            rw [hb']; exact hb a ha
          · intro b hb' x hx
            simp only [Ticker.lo, Option.some.injEq] at hb'
            rcases List.mem_append.mp hx with hx | hx
            · have := hb x hx; omega
            · simp at hx; omega
          · show c.emitted = c.taken ++ [s]; exact hr
          · intro s' hs'
            simp only [Phase.busy.injEq] at hs'
            subst hs'
            exact ⟨h2 s (by rw [htk]; rfl), by rw [h1]⟩
          · intro hx; exact absurd rfl (hx s)
          · show c.subCalls ++ subsOf cfg.nsubs s = (c.taken ++ [s]).flatMap (subsOf cfg.nsubs)
            rw [List.flatMap_append, h.subs]; simp
          · constructor
            · rintro ⟨e, he⟩; cases he
            · intro hx; cases hx
          · intro x hx
            show x ∈ c.taken ++ [s]
            by_cases hst : c.stopped = true
            · simp only [hst, if_true] at hx
              rcases List.mem_append.mp hx with hx | hx
              · exact List.mem_append_left _ (h.stopA x hx)
              · exact List.mem_append_right _ hx
            · simp only [hst] at hx
              exact List.mem_append_left _ (h.stopA x hx)
          · show (c.takenAt ++ [(s, c.since)]).map Prod.fst = c.taken ++ [s]
            rw [List.map_append, h.atLen]; rfl
        · split
          · exact h.ret false hnb hfl.2 hfl.1
          · exact h
    · exact h
  | done =>
    simp only [coreStep]
    split
    · rename_i s hph
      obtain ⟨hn, ht⟩ := h.busyB s hph
      have hnp : c.phase.pre = false := by rw [hph]; rfl
      have hfl := h.flags hnp
      have hmem : s ∈ c.taken := by rw [ht]; simp
      refine ⟨?_, ?_, ?_, h.sorted, h.below, h.rel, ?_, ?_, h.sinv.tick hn, h.subs, ?_, h.stopA, h.atLen⟩
      · intro hf; simp [hfl.1] at hf
      · intro hf; simp [hfl.2] at hf
      · intro hp; simp [Phase.pre] at hp
      · intro s' hs'; cases hs'
      · intro _
        refine ⟨by simp [Sys.tick, ht], ?_⟩
        intro b hb
        have := h.below b hb s hmem
        show s + 1 ≤ b
        omega
      · have := h.dead
        constructor
        · rintro ⟨e, he⟩; cases he
        · intro hx
          obtain ⟨e, he⟩ := this.mpr hx
          rw [hph] at he; cases he
    · exact h

theorem KInv.run {bn : BN} {cfg : RCfg} (hdur : 0 < cfg.s.slotDur) :
    ∀ (es : List Ev) (c : Core), KInv bn cfg c → KInv bn cfg (coreRun bn cfg c es) := by
  intro es
  induction es with
  | nil => intro c h; exact h
  | cons e es ih => intro c h; exact ih _ (h.step hdur e)

theorem step_core (bn : BN) (cfg : RCfg) (x : St) (e : Ev) : (step bn cfg x e).core = coreStep bn cfg x.core e := rfl

theorem run_core (bn : BN) (cfg : RCfg) : ∀ (es : List Ev) (x : St), (run bn cfg x es).core = coreRun bn cfg x.core es := by
  intro es
  induction es with
  | nil => intro x; rfl
  | cons e es ih => intro x; exact ih _

theorem coreStep_reg (bn : BN) (cfg : RCfg) (c : Core) {e : Ev} (h : e.isReg = true) : coreStep bn cfg c e = c := by
  cases e <;> simp [Ev.isReg] at h <;> rfl

theorem coreRun_filter (bn : BN) (cfg : RCfg) :
    ∀ (es : List Ev) (c : Core), coreRun bn cfg c es = coreRun bn cfg c (es.filter (fun e => !e.isReg)) := by
  intro es
  induction es with
  | nil => intro c; rfl
  | cons e es ih =>
    intro c
    cases hr : e.isReg with
    | true => simp only [List.filter, hr, Bool.not_true]; rw [← ih]; show coreRun bn cfg (coreStep bn cfg c e) es = _; rw [coreStep_reg bn cfg c hr]
    | false => simp only [List.filter, hr, Bool.not_false]; exact ih _

/-- states reachable from the call of `Run` at any clock value by any event sequence. -/
def Reach (bn : BN) (cfg : RCfg) (x : St) : Prop := ∃ t0 es, x = run bn cfg (St.init t0) es

theorem reach_kinv {bn : BN} {cfg : RCfg} (hdur : 0 < cfg.s.slotDur) {x : St} (h : Reach bn cfg x) : KInv bn cfg x.core := by
  obtain ⟨t0, es, rfl⟩ := h
  rw [run_core]
  exact KInv.run hdur es _ (KInv.init bn cfg t0)

/-- once `Run` has returned nothing but the clock and the `quit` flag changes. -/
theorem returned_frozen (bn : BN) (cfg : RCfg) {c : Core} {err : Bool} (hp : c.phase = .returned err) (ht : c.tk = .dead)
    (e : Ev) :
    let c' := coreStep bn cfg c e
    c'.phase = .returned err ∧ c'.tk = .dead ∧ c'.taken = c.taken ∧ c'.sys = c.sys ∧ c'.subCalls = c.subCalls ∧
      c'.emitted = c.emitted := by
  cases e <;> simp [coreStep, hp, ht]

/-! ### registrations -/

/-- number of registration goroutines with label `l`. -/
def nLabel (regs : List Reg) (l : Nat) : Nat := (regs.filter (fun r => r.label == l)).length

theorem nLabel_append (a b : List Reg) (l : Nat) : nLabel (a ++ b) l = nLabel a l + nLabel b l := by
  simp [nLabel, List.filter_append]

theorem nLabel_set (l : Nat) : ∀ (regs : List Reg) (i : Nat) (r r' : Reg), regs[i]? = some r → r'.label = r.label →
    nLabel (regs.set i r') l = nLabel regs l := by
  intro regs
  induction regs with
  | nil => intro i r r' h; simp at h
  | cons a as ih =>
    intro i r r' h hl
    cases i with
    | zero =>
      simp at h
      subst h
      simp only [nLabel, List.set_cons_zero, List.filter_cons, hl]
      split <;> simp
    | succ j =>
      simp at h
      have := ih j r r' h hl
      simp only [nLabel, List.set_cons_succ, List.filter_cons] at this ⊢
      split <;> simp [this]

theorem nLabel_setSt (regs : List Reg) (i : Nat) (st : RegSt) (l : Nat) : nLabel (setSt regs i st) l = nLabel regs l := by
  unfold setSt
  cases h : regs[i]? with
  | none => rfl
  | some r => exact nLabel_set l regs i r _ h rfl

theorem setSt_mem {regs : List Reg} {i : Nat} {st : RegSt} {r : Reg} (h : r ∈ setSt regs i st) :
    ∃ r0 ∈ regs, r.label = r0.label ∧ r.delayed = r0.delayed ∧ r.slot = r0.slot := by
  unfold setSt at h
  cases hi : regs[i]? with
  | none => rw [hi] at h; exact ⟨r, h, rfl, rfl, rfl⟩
  | some r1 =>
    rw [hi] at h
    simp only at h
    rcases List.mem_or_eq_of_mem_set h with h | h
    · exact ⟨r, h, rfl, rfl, rfl⟩
    · exact ⟨r1, List.mem_of_getElem? hi, by rw [h], by rw [h], by rw [h]⟩

structure RInv (cfg : RCfg) (x : St) : Prop where
  preEmpty : x.core.phase.pre = true → x.reg.regs = []
  cnt : ∀ l, nLabel x.reg.regs l ≤ (if l = 0 then 1 else 0) + (if l * cfg.s.spe ∈ x.core.sys.ticked then 1 else 0)
  first : ∀ r ∈ x.reg.regs, r.delayed = true →
    r.slot % cfg.s.spe = 0 ∧ r.label = r.slot / cfg.s.spe ∧ r.slot ∈ x.core.sys.ticked
  startup : ∀ r ∈ x.reg.regs, r.delayed = false → r.label = 0

theorem RInv.init (cfg : RCfg) (t0 : Nat) : RInv cfg (St.init t0) where
  preEmpty := by intro _; rfl
  cnt := by intro l; simp [St.init, nLabel]
  first := by intro r h; simp [St.init] at h
  startup := by intro r h; simp [St.init] at h

/-- a step that leaves the registration list's labels and the handled slots alone. -/
theorem RInv.same {cfg : RCfg} {x x' : St} (h : RInv cfg x)
    (hl : ∀ l, nLabel x'.reg.regs l = nLabel x.reg.regs l)
    (hm : ∀ r ∈ x'.reg.regs, ∃ r0 ∈ x.reg.regs, r.label = r0.label ∧ r.delayed = r0.delayed ∧ r.slot = r0.slot)
    (ht : ∀ s, s ∈ x.core.sys.ticked → s ∈ x'.core.sys.ticked)
    (hp : x'.core.phase.pre = true → x'.reg.regs = []) : RInv cfg x' where
  preEmpty := hp
  cnt := by
    intro l
    rw [hl]
    have := h.cnt l
    by_cases hm : l * cfg.s.spe ∈ x.core.sys.ticked
    · simp only [hm, ht _ hm, if_true] at this ⊢; exact this
    · simp only [hm, if_false] at this
      have : nLabel x.reg.regs l ≤ (if l = 0 then 1 else 0) := by omega
      omega
  first := by
    intro r hr hd
    obtain ⟨r0, hr0, h1, h2, h3⟩ := hm r hr
    obtain ⟨a, b, c⟩ := h.first r0 hr0 (by rw [← h2]; exact hd)
    exact ⟨by rw [h3]; exact a, by rw [h1, h3]; exact b, by rw [h3]; exact ht _ c⟩
  startup := by
    intro r hr hd
    obtain ⟨r0, hr0, h1, h2, _⟩ := hm r hr
    rw [h1]; exact h.startup r0 hr0 (by rw [← h2]; exact hd)

theorem coreStep_pre_back (bn : BN) (cfg : RCfg) (c : Core) (e : Ev) (h : (coreStep bn cfg c e).phase.pre = true) :
    c.phase.pre = true := by
  cases hp : c.phase.pre with
  | true => rfl
  | false =>
    have hn : (coreStep bn cfg c e).phase.pre = false := by
      cases e with
      | genesis ans =>
        simp only [coreStep]
        split
        · rename_i i hph; rw [hph] at hp; simp [Phase.pre] at hp
        · cases ans <;> simp [Core.ret, Phase.pre]
        · exact hp
      | syncing ans => cases hph : c.phase <;> simp_all [Phase.pre, coreStep]
      | wake => cases hph : c.phase <;> simp_all [Phase.pre, coreStep]
      | adv d => exact hp
      | back d => exact hp
      | stop => exact hp
      | regTimer i => exact hp
      | regQuit i => exact hp
      | regAns i ok => exact hp
      | tick =>
        simp only [coreStep]
        split
        · split <;> exact hp
        · exact hp
      | take q =>
        simp only [coreStep]
        split
        · split
          · simp [Core.ret, Phase.pre]
          · split
            · simp [Phase.pre]
            · split
              · simp [Core.ret, Phase.pre]
              · exact hp
        · exact hp
      | done => cases hph : c.phase <;> simp_all [Phase.pre, coreStep]
    rw [hn] at h; cases h

theorem coreStep_ticked_mono {bn : BN} {cfg : RCfg} {c : Core} (hk : KInv bn cfg c) (e : Ev) {s : Nat}
    (h : s ∈ c.sys.ticked) : s ∈ (coreStep bn cfg c e).sys.ticked := by
  cases e with
  | genesis ans =>
    simp only [coreStep]
    split
    · cases ans with
      | none => exact h
      | some g => simp only; split <;> exact h
    · rename_i hph
      have hoff := hk.preOff (Or.inr hph)
      have hr := hk.rel
      rw [hoff] at hr
      have := (hk.idleB (by intro s hs; rw [hph] at hs; cases hs)).1
      rw [hr.1] at this
      rw [← this] at h
      cases h
    · exact h
  | syncing ans =>
    simp only [coreStep]
    split
    · cases ans with
      | none => exact h
      | some b => cases b <;> exact h
    · exact h
  | wake =>
    simp only [coreStep]
    split
    · exact h
    · split <;> exact h
    · exact h
    · exact h
  | adv d => exact h
  | back d => exact h
  | stop => exact h
  | regTimer i => exact h
  | regQuit i => exact h
  | regAns i ok => exact h
  | tick =>
    simp only [coreStep]
    split
    · split <;> exact h
    · exact h
  | take q =>
    simp only [coreStep]
    split
    · split
      · exact h
      · split
        · exact h
        · split <;> exact h
    · exact h
  | done =>
    simp only [coreStep]
    split
    · simp only [Sys.tick]
      exact List.mem_append_left _ h
    · exact h

theorem regStep_isReg (cfg : RCfg) (c : Core) (r : RegS) {e : Ev} (h : e.isReg = true) :
    (regStep cfg c r e).regs = r.regs ∨ ∃ i st, (regStep cfg c r e).regs = setSt r.regs i st := by
  cases e <;> simp [Ev.isReg] at h
  · rename_i i
    simp only [regStep]
    split
    · split
      · split
        · exact Or.inr ⟨i, _, rfl⟩
        · exact Or.inr ⟨i, _, rfl⟩
      · exact Or.inl rfl
    · exact Or.inl rfl
  · rename_i i
    simp only [regStep]
    split
    · split
      · exact Or.inr ⟨i, _, rfl⟩
      · exact Or.inl rfl
    · exact Or.inl rfl
  · rename_i i ok
    simp only [regStep]
    split
    · exact Or.inr ⟨i, _, rfl⟩
    · exact Or.inl rfl

theorem RInv.keep {bn : BN} {cfg : RCfg} {x : St} (hk : KInv bn cfg x.core) (h : RInv cfg x) (e : Ev)
    (hr : (regStep cfg x.core x.reg e).regs = x.reg.regs ∨ ∃ i st, (regStep cfg x.core x.reg e).regs = setSt x.reg.regs i st) :
    RInv cfg (step bn cfg x e) := by
  refine h.same ?_ ?_ (fun s hs => coreStep_ticked_mono hk e hs) ?_
  · intro l
    show nLabel (regStep cfg x.core x.reg e).regs l = _
    rcases hr with hr | ⟨i, st, hr⟩ <;> rw [hr]
    exact nLabel_setSt _ _ _ _
  · intro r hm
    change r ∈ (regStep cfg x.core x.reg e).regs at hm
    rcases hr with hr | ⟨i, st, hr⟩ <;> rw [hr] at hm
    · exact ⟨r, hm, rfl, rfl, rfl⟩
    · exact setSt_mem hm
  · intro hp
    have := h.preEmpty (coreStep_pre_back bn cfg x.core e hp)
    show (regStep cfg x.core x.reg e).regs = []
    rcases hr with hr | ⟨i, st, hr⟩ <;> rw [hr, this]
    simp [setSt]

theorem RInv.step {bn : BN} {cfg : RCfg} {x : St} (hk : KInv bn cfg x.core) (h : RInv cfg x) (e : Ev) :
    RInv cfg (CharonV.SchedRun.step bn cfg x e) := by
  by_cases hreg : e.isReg = true
  · exact h.keep hk e (regStep_isReg cfg x.core x.reg hreg)
  · cases e with
    | genesis ans => exact h.keep hk _ (Or.inl rfl)
    | wake => exact h.keep hk _ (Or.inl rfl)
    | adv d => exact h.keep hk _ (Or.inl rfl)
    | back d => exact h.keep hk _ (Or.inl rfl)
    | tick => exact h.keep hk _ (Or.inl rfl)
    | take q => exact h.keep hk _ (Or.inl rfl)
    | stop => exact h.keep hk _ (Or.inl rfl)
    | regTimer i => simp [Ev.isReg] at hreg
    | regQuit i => simp [Ev.isReg] at hreg
    | regAns i ok => simp [Ev.isReg] at hreg
    | syncing ans =>
      cases ans with
      | none => exact h.keep hk _ (Or.inl rfl)
      | some b =>
        cases b with
        | true => exact h.keep hk _ (Or.inl rfl)
        | false =>
          cases hph : x.core.phase with
          | sCall i =>
            by_cases hb : cfg.builder = true
            · have he := h.preEmpty (by rw [hph]; rfl)
              have hregs : (CharonV.SchedRun.step bn cfg x (.syncing (some false))).reg.regs = [⟨0, false, 0, .timer 0⟩] := by
                simp [CharonV.SchedRun.step, regStep, hph, hb, he]
              have hcore : (CharonV.SchedRun.step bn cfg x (.syncing (some false))).core.phase = .tCall := by
                simp [CharonV.SchedRun.step, coreStep, hph]
              have hsys : (CharonV.SchedRun.step bn cfg x (.syncing (some false))).core.sys = x.core.sys := by
                simp [CharonV.SchedRun.step, coreStep, hph]
              refine ⟨?_, ?_, ?_, ?_⟩
              · intro hp; rw [hcore] at hp; simp [Phase.pre] at hp
              · intro l
                rw [hregs]
                by_cases hl : l = 0
                · subst hl; simp [nLabel]
                · have : (0 == l) = false := by simp; omega
                  simp [nLabel, hl, this]
              · intro r hr hd; rw [hregs] at hr; simp at hr; subst hr; simp at hd
              · intro r hr _; rw [hregs] at hr; simp at hr; subst hr; rfl
            · exact h.keep hk _ (Or.inl (by simp [regStep, hph, hb]))
          | gCall i => exact h.keep hk _ (Or.inl (by simp [regStep, hph]))
          | gSleep i u => exact h.keep hk _ (Or.inl (by simp [regStep, hph]))
          | sSleep i u => exact h.keep hk _ (Or.inl (by simp [regStep, hph]))
          | tCall => exact h.keep hk _ (Or.inl (by simp [regStep, hph]))
          | idle => exact h.keep hk _ (Or.inl (by simp [regStep, hph]))
          | busy s => exact h.keep hk _ (Or.inl (by simp [regStep, hph]))
          | returned err => exact h.keep hk _ (Or.inl (by simp [regStep, hph]))
    | done =>
      cases hph : x.core.phase with
      | busy s =>
        by_cases hsp : (cfg.builder && x.reg.submitted != s / cfg.s.spe && s % cfg.s.spe == 0) = true
        · obtain ⟨hn, ht⟩ := hk.busyB s hph
          have hregs : (CharonV.SchedRun.step bn cfg x .done).reg.regs =
              x.reg.regs ++ [⟨s / cfg.s.spe, true, s, .timer (x.core.now + regDelay cfg)⟩] := by
            simp only [CharonV.SchedRun.step, regStep, hph, hsp, if_true]
          have hsys : (CharonV.SchedRun.step bn cfg x .done).core.sys.ticked = x.core.sys.ticked ++ [s] := by
            simp [CharonV.SchedRun.step, coreStep, hph, Sys.tick]
          have hcore : (CharonV.SchedRun.step bn cfg x .done).core.phase = .idle := by simp [CharonV.SchedRun.step, coreStep, hph]
          have hmod : s % cfg.s.spe = 0 := by
            simp only [Bool.and_eq_true, beq_iff_eq] at hsp; exact hsp.2
          have hmul : s / cfg.s.spe * cfg.s.spe = s := Nat.div_mul_cancel (Nat.dvd_of_mod_eq_zero hmod)
          have hnot : s ∉ x.core.sys.ticked := by
            intro hm; have := hk.sinv.tickedLt s hm; omega
          refine ⟨?_, ?_, ?_, ?_⟩
          · intro hp; rw [hcore] at hp; simp [Phase.pre] at hp
          · intro l
            rw [hregs, hsys, nLabel_append]
            have hc := h.cnt l
            by_cases hl : l = s / cfg.s.spe
            · subst hl
              rw [hmul] at hc ⊢
              simp only [hnot, if_false] at hc
              have h1 : nLabel [(⟨s / cfg.s.spe, true, s, .timer (x.core.now + regDelay cfg)⟩ : Reg)] (s / cfg.s.spe) = 1 := by
                simp [nLabel]
              have h2 : s ∈ x.core.sys.ticked ++ [s] := by simp
              rw [h1]
              simp only [h2, if_true]
              omega
            · have : (s / cfg.s.spe == l) = false := by simp; omega
              have h0 : nLabel [(⟨s / cfg.s.spe, true, s, .timer (x.core.now + regDelay cfg)⟩ : Reg)] l = 0 := by
                simp [nLabel, this]
              rw [h0]
              by_cases hm : l * cfg.s.spe ∈ x.core.sys.ticked
              · simp only [hm, if_true] at hc
                have : l * cfg.s.spe ∈ x.core.sys.ticked ++ [s] := List.mem_append_left _ hm
                simp only [this, if_true]; omega
              · simp only [hm, if_false] at hc
                have : nLabel x.reg.regs l ≤ (if l = 0 then 1 else 0) := by omega
                omega
          · intro r hr hd
            rw [hregs] at hr
            rw [hsys]
            rcases List.mem_append.mp hr with hr | hr
            · obtain ⟨a, b, c⟩ := h.first r hr hd
              exact ⟨a, b, List.mem_append_left _ c⟩
            · simp at hr; subst hr
              exact ⟨hmod, rfl, by simp⟩
          · intro r hr hd
            rw [hregs] at hr
            rcases List.mem_append.mp hr with hr | hr
            · exact h.startup r hr hd
            · simp at hr; subst hr; simp at hd
        · exact h.keep hk _ (Or.inl (by simp only [regStep, hph]; simp [hsp]))
      | gCall i => exact h.keep hk _ (Or.inl (by simp [regStep, hph]))
      | gSleep i u => exact h.keep hk _ (Or.inl (by simp [regStep, hph]))
      | sCall i => exact h.keep hk _ (Or.inl (by simp [regStep, hph]))
      | sSleep i u => exact h.keep hk _ (Or.inl (by simp [regStep, hph]))
      | tCall => exact h.keep hk _ (Or.inl (by simp [regStep, hph]))
      | idle => exact h.keep hk _ (Or.inl (by simp [regStep, hph]))
      | returned err => exact h.keep hk _ (Or.inl (by simp [regStep, hph]))

theorem inv_run {bn : BN} {cfg : RCfg} (hdur : 0 < cfg.s.slotDur) :
    ∀ (es : List Ev) (x : St), KInv bn cfg x.core → RInv cfg x →
      KInv bn cfg (run bn cfg x es).core ∧ RInv cfg (run bn cfg x es) := by
  intro es
  induction es with
  | nil => intro x hk hr; exact ⟨hk, hr⟩
  | cons e es ih => intro x hk hr; exact ih _ (hk.step hdur e) (hr.step hk e)

theorem reach_rinv {bn : BN} {cfg : RCfg} (hdur : 0 < cfg.s.slotDur) {x : St} (h : Reach bn cfg x) : RInv cfg x := by
  obtain ⟨t0, es, rfl⟩ := h
  exact (inv_run hdur es _ (KInv.init bn cfg t0) (RInv.init cfg t0)).2

/-- started goroutines with a label are among the goroutines with that label. -/
theorem started_le_nLabel (regs : List Reg) (l : Nat) :
    (regs.filter (fun r => r.started && r.label == l)).length ≤ nLabel regs l := by
  induction regs with
  | nil => simp [nLabel]
  | cons a as ih =>
    simp only [nLabel, List.filter_cons] at ih ⊢
    cases h1 : a.started <;> cases h2 : (a.label == l) <;> simp <;> omega

/-- the ticker's emissions are strictly increasing (also the last one, abandoned when `Run` returned). -/
theorem reach_emitted_sorted {bn : BN} {cfg : RCfg} (hdur : 0 < cfg.s.slotDur) {x : St} (h : Reach bn cfg x) :
    x.core.emitted.Pairwise (fun a b => a < b) := by
  obtain ⟨t0, es, rfl⟩ := h
  rw [run_core]
  -- invariant: emitted sorted and below the ticker's bound (strictly below `wait n`, at most the offer)
  suffices hs : ∀ (es : List Ev) (c : Core), KInv bn cfg c →
      (c.emitted.Pairwise (fun a b => a < b) ∧ (∀ n, c.tk = .wait n → ∀ a ∈ c.emitted, a < n)) →
      ((coreRun bn cfg c es).emitted.Pairwise (fun a b => a < b) ∧
        (∀ n, (coreRun bn cfg c es).tk = .wait n → ∀ a ∈ (coreRun bn cfg c es).emitted, a < n)) from
    (hs es _ (KInv.init bn cfg t0) ⟨by simp [St.init], by intro n hn; simp [St.init] at hn⟩).1
  intro es
  induction es with
  | nil => intro c _ h; exact h
  | cons e es ih =>
    intro c hk hc
    refine ih _ (hk.step hdur e) ?_
    cases e with
    | genesis ans =>
      simp only [coreStep]
      split
      · cases ans with
        | none => exact hc
        | some g => simp only; split <;> exact hc
      · rename_i hph
        have hoff := hk.preOff (Or.inr hph)
        have hr := hk.rel
        rw [hoff] at hr
        cases ans with
        | none => exact ⟨hc.1, by intro n hn; simp [Core.ret] at hn⟩
        | some g => exact ⟨hc.1, by intro n _ a ha; simp only at ha; rw [hr.2] at ha; cases ha⟩
      · exact hc
    | syncing ans =>
      simp only [coreStep]
      split
      · cases ans with
        | none => exact hc
        | some b => cases b <;> exact hc
      · exact hc
    | wake =>
      simp only [coreStep]
      split
      · exact hc
      · split <;> exact hc
      · exact hc
      · exact hc
    | adv d => exact hc
    | back d => exact hc
    | stop => exact hc
    | regTimer i => exact hc
    | regQuit i => exact hc
    | regAns i ok => exact hc
    | done =>
      simp only [coreStep]
      split <;> exact hc
    | tick =>
      simp only [coreStep]
      split
      · rename_i n htk
        split
        · exact hc
        · rename_i s n' hts
          obtain ⟨hle, _⟩ := tickerStep_some hdur hts
          refine ⟨List.pairwise_append.mpr ⟨hc.1, by simp, ?_⟩, by intro m hm; cases hm⟩
          intro a ha b hb
          simp at hb; rw [hb]
          have := hc.2 n htk a ha
          omega
      · exact hc
    | take q =>
      simp only [coreStep]
      split
      · split
        · exact ⟨hc.1, by intro n hn; simp [Core.ret] at hn⟩
        · split
          · rename_i s htk
            have hr := hk.rel
            rw [htk] at hr
            refine ⟨hc.1, ?_⟩
            intro n hn a ha
            simp only [Ticker.wait.injEq] at hn
            simp only at ha
            rw [hr] at ha hc
            rcases List.mem_append.mp ha with ha' | ha'
            · have := (List.pairwise_append.mp hc.1).2.2 a ha' s (by simp); omega
            · simp at ha'; omega
          · split
            · exact ⟨hc.1, by intro n hn; simp [Core.ret] at hn⟩
            · exact hc
      · exact hc

end CharonV.SchedRun
