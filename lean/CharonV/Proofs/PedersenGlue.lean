/-
Helper lemmas for `CharonV.Props.C11Pedersen` (model: `CharonV.Model.PedersenGlue`): the collection loop
`readBoard` (invariants over the accumulator, the specification function `firstOf`), the node sort, the
compact re-indexing, association lists (`lookup`, `mapSet`), `sortedKeys`.
-/
import CharonV.Model.PedersenGlue
import Mathlib.Data.List.Nodup
import Mathlib.Data.List.Perm.Basic
import Mathlib.Data.List.Perm.Subperm
import Mathlib.Data.List.Sort

namespace CharonV.PedersenGlue

open CharonV.Fr

/-! ### `readBoard` -/

section ReadBoard
variable {M : Type} (pid : M → Nat) (expected : List Nat)

/-- the first message of peer `p` in the event sequence, looking no further than the first
time-out / context event. -/
def firstOf : List (Ev M) → Nat → Option M
  | [], _ => none
  | .msg m :: rest, p => if pid m = p then some m else firstOf rest p
  | .timeout :: _, _ => none
  | .ctxDone :: _, _ => none

/-- the sequence consists of message events only. -/
def msgOnly : List (Ev M) → Prop
  | [] => True
  | .msg _ :: rest => msgOnly rest
  | _ :: _ => False

theorem readBoard_full {evs : List (Ev M)} {acc : List M} (h : ¬ acc.length < expected.length) :
    readBoard pid expected evs acc = .ok acc := by
  cases evs <;> simp [readBoard, h]

/-- the invariant of the collection loop, for a successful return. -/
theorem readBoard_ok_gen {evs : List (Ev M)} {acc msgs : List M}
    (h : readBoard pid expected evs acc = .ok msgs) :
    ∃ new, msgs = acc ++ new ∧
      (∀ m ∈ new, Ev.msg m ∈ evs ∧ pid m ∈ expected ∧ pid m ∉ acc.map pid ∧ firstOf pid evs (pid m) = some m) ∧
      ((acc.map pid).Nodup → (msgs.map pid).Nodup) ∧
      expected.length ≤ msgs.length ∧
      (acc.length ≤ expected.length → msgs.length = expected.length) := by
  induction evs generalizing acc with
  | nil =>
    simp only [readBoard] at h
    split at h
    · cases h
    · cases h; exact ⟨[], by simp, by simp, fun h => h, by omega, by omega⟩
  | cons e rest ih =>
    by_cases hl : acc.length < expected.length
    · cases e with
      | msg m =>
        simp only [readBoard, hl, if_true] at h
        split at h
        · rename_i hu
          obtain ⟨new, rfl, h1, h2, h3, h4⟩ := ih h
          refine ⟨new, rfl, ?_, h2, h3, h4⟩
          intro m' hm'
          obtain ⟨a, b, c, d⟩ := h1 m' hm'
          refine ⟨List.mem_cons_of_mem _ a, b, c, ?_⟩
          have : pid m ≠ pid m' := by
            intro he; rw [he] at hu; simp [b] at hu
          simp [firstOf, this, d]
        · split at h
          · rename_i hu hd
            obtain ⟨new, rfl, h1, h2, h3, h4⟩ := ih h
            refine ⟨new, rfl, ?_, h2, h3, h4⟩
            intro m' hm'
            obtain ⟨a, b, c, d⟩ := h1 m' hm'
            refine ⟨List.mem_cons_of_mem _ a, b, c, ?_⟩
            have : pid m ≠ pid m' := by
              intro he; rw [he] at hd; simp at hd; simp at c; exact absurd hd (by simpa using c)
            simp [firstOf, this, d]
          · rename_i hu hd
            obtain ⟨new, rfl, h1, h2, h3, h4⟩ := ih h
            refine ⟨m :: new, by simp, ?_, ?_, h3, ?_⟩
            · intro m' hm'
              rcases List.mem_cons.1 hm' with rfl | hm'
              · refine ⟨List.mem_cons_self, by simpa using hu, by simpa using hd, by simp [firstOf]⟩
              · obtain ⟨a, b, c, d⟩ := h1 m' hm'
                have hne : pid m ≠ pid m' := by
                  intro he; apply c; simp [he]
                refine ⟨List.mem_cons_of_mem _ a, b, ?_, ?_⟩
                · intro hc; apply c; simp only [List.map_append, List.mem_append]; exact Or.inl hc
                · simp [firstOf, hne, d]
            · intro hnd
              apply h2
              simp only [List.map_append, List.map_cons, List.map_nil]
              rw [List.nodup_append]
              refine ⟨hnd, by simp, ?_⟩
              intro a ha b hb
              simp at hb; subst hb
              intro he; subst he
              simp at hd
              obtain ⟨x, hx, hxe⟩ := List.mem_map.1 ha
              exact hd x hx hxe
            · intro _
              apply h4
              simp; omega
      | timeout => simp [readBoard, hl] at h
      | ctxDone => simp [readBoard, hl] at h
    · rw [readBoard_full pid expected hl] at h
      cases h
      exact ⟨[], by simp, by simp, fun h => h, by omega, by omega⟩

/-- the invariant of the collection loop, for a return on the timer. -/
theorem readBoard_timedOut_gen {evs : List (Ev M)} {acc : List M} {missing : List Nat} {n : Nat}
    (h : readBoard pid expected evs acc = .timedOut missing n) :
    ∃ new, n = (acc ++ new).length ∧
      missing = expected.filter (fun p => !((acc ++ new).map pid).contains p) ∧
      n < expected.length ∧
      (∀ m ∈ new, pid m ∈ expected ∧ pid m ∉ acc.map pid ∧ firstOf pid evs (pid m) = some m) ∧
      ((acc.map pid).Nodup → ((acc ++ new).map pid).Nodup) ∧
      (∀ p ∈ expected, p ∉ (acc ++ new).map pid → firstOf pid evs p = none) := by
  induction evs generalizing acc with
  | nil =>
    simp only [readBoard] at h
    split at h <;> cases h
  | cons e rest ih =>
    by_cases hl : acc.length < expected.length
    · cases e with
      | msg m =>
        simp only [readBoard, hl, if_true] at h
        split at h
        · rename_i hu
          obtain ⟨new, h0, hm, hn, h1, h2, h3⟩ := ih h
          refine ⟨new, h0, hm, hn, ?_, h2, ?_⟩
          · intro m' hm'
            obtain ⟨b, c, d⟩ := h1 m' hm'
            refine ⟨b, c, ?_⟩
            have : pid m ≠ pid m' := by
              intro he; rw [he] at hu; simp [b] at hu
            simp [firstOf, this, d]
          · intro p hp hnp
            have : pid m ≠ p := by
              intro he; rw [he] at hu; simp [hp] at hu
            simp [firstOf, this, h3 p hp hnp]
        · split at h
          · rename_i hu hd
            obtain ⟨new, h0, hm, hn, h1, h2, h3⟩ := ih h
            have hd' : pid m ∈ acc.map pid := by simpa using hd
            refine ⟨new, h0, hm, hn, ?_, h2, ?_⟩
            · intro m' hm'
              obtain ⟨b, c, d⟩ := h1 m' hm'
              refine ⟨b, c, ?_⟩
              have : pid m ≠ pid m' := by
                intro he; rw [he] at hd'; exact c hd'
              simp [firstOf, this, d]
            · intro p hp hnp
              have : pid m ≠ p := by
                intro he; subst he; apply hnp
                simp only [List.map_append, List.mem_append]; exact Or.inl hd'
              simp [firstOf, this, h3 p hp hnp]
          · rename_i hu hd
            obtain ⟨new, h0, hm, hn, h1, h2, h3⟩ := ih h
            have hd' : pid m ∉ acc.map pid := by simpa using hd
            refine ⟨m :: new, by simpa using h0, by simpa using hm, hn, ?_, ?_, ?_⟩
            · intro m' hm'
              rcases List.mem_cons.1 hm' with rfl | hm'
              · exact ⟨by simpa using hu, hd', by simp [firstOf]⟩
              · obtain ⟨b, c, d⟩ := h1 m' hm'
                have hne : pid m ≠ pid m' := by
                  intro he; apply c; simp [he]
                refine ⟨b, ?_, ?_⟩
                · intro hc; apply c; simp only [List.map_append, List.mem_append]; exact Or.inl hc
                · simp [firstOf, hne, d]
            · intro hnd
              have := h2 (by
                simp only [List.map_append, List.map_cons, List.map_nil]
                rw [List.nodup_append]
                refine ⟨hnd, by simp, ?_⟩
                intro a ha b hb
                simp at hb; subst hb
                intro he; subst he
                exact hd' ha)
              simpa using this
            · intro p hp hnp
              have hnp' : p ∉ ((acc ++ [m]) ++ new).map pid := by simpa using hnp
              have : pid m ≠ p := by
                intro he; subst he; apply hnp; simp
              simp [firstOf, this, h3 p hp hnp']
      | timeout =>
        simp only [readBoard, hl, if_true, Rbc.timedOut.injEq] at h
        obtain ⟨rfl, rfl⟩ := h
        exact ⟨[], by simp, by simp, hl, by simp, by simp, by intros; rfl⟩
      | ctxDone => simp [readBoard, hl] at h
    · rw [readBoard_full pid expected hl] at h
      cases h

/-- in a message-only sequence the first message of a peer exists as soon as one of its messages occurs. -/
theorem firstOf_isSome_of_msgOnly {evs : List (Ev M)} (hm : msgOnly evs) {p : Nat}
    (h : ∃ m, Ev.msg m ∈ evs ∧ pid m = p) : (firstOf pid evs p).isSome := by
  induction evs with
  | nil => obtain ⟨m, hm', _⟩ := h; cases hm'
  | cons e rest ih =>
    cases e with
    | msg m0 =>
      by_cases he : pid m0 = p
      · simp [firstOf, he]
      · simp only [firstOf, he, if_false]
        apply ih hm
        obtain ⟨m, hm', hp⟩ := h
        rcases List.mem_cons.1 hm' with h1 | h1
        · cases h1; exact absurd hp he
        · exact ⟨m, h1, hp⟩
    | timeout => cases hm
    | ctxDone => cases hm

theorem firstOf_some {evs : List (Ev M)} {p : Nat} {m : M} (h : firstOf pid evs p = some m) :
    Ev.msg m ∈ evs ∧ pid m = p := by
  induction evs with
  | nil => cases h
  | cons e rest ih =>
    cases e with
    | msg m0 =>
      simp only [firstOf] at h
      split at h
      · cases h; exact ⟨List.mem_cons_self, by assumption⟩
      · exact ⟨List.mem_cons_of_mem _ (ih h).1, (ih h).2⟩
    | timeout => cases h
    | ctxDone => cases h

/-- completeness: if every expected peer not yet seen has a first message, the loop returns normally. -/
theorem readBoard_complete (hnd : expected.Nodup) {evs : List (Ev M)} {acc : List M}
    (h : ∀ p ∈ expected, p ∉ acc.map pid → (firstOf pid evs p).isSome) :
    ∃ msgs, readBoard pid expected evs acc = .ok msgs := by
  have hfull : ∀ (acc : List M), (∀ p ∈ expected, p ∈ acc.map pid) → ¬ acc.length < expected.length := by
    intro acc hs
    have := (List.subperm_of_subset hnd (fun p hp => hs p hp)).length_le
    simp at this; omega
  induction evs generalizing acc with
  | nil =>
    refine ⟨acc, readBoard_full pid expected (hfull acc ?_)⟩
    intro p hp
    by_contra hc
    simpa [firstOf] using h p hp hc
  | cons e rest ih =>
    by_cases hl : acc.length < expected.length
    · cases e with
      | msg m =>
        simp only [readBoard, hl, if_true]
        split
        · rename_i hu
          apply ih
          intro p hp hnp
          have : pid m ≠ p := by
            intro he; rw [he] at hu; simp [hp] at hu
          simpa [firstOf, this] using h p hp hnp
        · split
          · rename_i hu hd
            have hd' : pid m ∈ acc.map pid := by simpa using hd
            apply ih
            intro p hp hnp
            have : pid m ≠ p := by
              intro he; subst he; exact hnp hd'
            simpa [firstOf, this] using h p hp hnp
          · apply ih
            intro p hp hnp
            simp only [List.map_append, List.map_cons, List.map_nil, List.mem_append, List.mem_singleton,
              not_or] at hnp
            have : pid m ≠ p := fun he => hnp.2 he.symm
            simpa [firstOf, this] using h p hp hnp.1
      | timeout =>
        exfalso; apply hfull acc _ hl
        intro p hp; by_contra hc; simpa [firstOf] using h p hp hc
      | ctxDone =>
        exfalso; apply hfull acc _ hl
        intro p hp; by_contra hc; simpa [firstOf] using h p hp hc
    · exact ⟨acc, readBoard_full pid expected hl⟩

/-- a message of an unexpected peer is skipped, wherever it arrives. -/
theorem readBoard_skip_unexpected (pre post : List (Ev M)) (acc : List M) (m : M) (hu : pid m ∉ expected) :
    readBoard pid expected (pre ++ .msg m :: post) acc = readBoard pid expected (pre ++ post) acc := by
  induction pre generalizing acc with
  | nil =>
    by_cases hl : acc.length < expected.length
    · simp [readBoard, hl, hu]
    · rw [readBoard_full pid expected hl, readBoard_full pid expected hl]
  | cons e pre ih =>
    by_cases hl : acc.length < expected.length
    · cases e with
      | msg m' =>
        simp only [List.cons_append, readBoard, hl, if_true]
        split
        · exact ih _
        · split
          · exact ih _
          · exact ih _
      | timeout => simp [readBoard, hl]
      | ctxDone => simp [readBoard, hl]
    · rw [readBoard_full pid expected hl, readBoard_full pid expected hl]

/-- a message of a peer that was already seen, or that has an earlier message in the sequence, is skipped. -/
theorem readBoard_skip_duplicate (pre post : List (Ev M)) (acc : List M) (m : M)
    (hd : pid m ∈ acc.map pid ∨ ∃ m0, Ev.msg m0 ∈ pre ∧ pid m0 = pid m) :
    readBoard pid expected (pre ++ .msg m :: post) acc = readBoard pid expected (pre ++ post) acc := by
  by_cases hu : pid m ∈ expected
  swap
  · exact readBoard_skip_unexpected pid expected pre post acc m hu
  induction pre generalizing acc with
  | nil =>
    by_cases hl : acc.length < expected.length
    · rcases hd with hd | ⟨m0, h0, _⟩
      · have : (acc.map pid).contains (pid m) = true := by simpa using hd
        simp [readBoard, hl, hu]
        intro hx; simp at hd; obtain ⟨a, ha, hae⟩ := hd; exact absurd hae (hx a ha)
      · cases h0
    · rw [readBoard_full pid expected hl, readBoard_full pid expected hl]
  | cons e pre ih =>
    by_cases hl : acc.length < expected.length
    · cases e with
      | msg m' =>
        simp only [List.cons_append, readBoard, hl, if_true]
        have hrest : ∀ acc' : List M, (∀ x ∈ acc.map pid, x ∈ acc'.map pid) →
            (pid m' = pid m → pid m ∈ acc'.map pid) →
            (pid m ∈ acc'.map pid ∨ ∃ m0, Ev.msg m0 ∈ pre ∧ pid m0 = pid m) := by
          intro acc' hsub hnew
          rcases hd with hd | ⟨m0, h0, he⟩
          · exact Or.inl (hsub _ hd)
          · rcases List.mem_cons.1 h0 with h1 | h1
            · cases h1; exact Or.inl (hnew he)
            · exact Or.inr ⟨m0, h1, he⟩
        split
        · rename_i hu'
          apply ih
          apply hrest acc (fun _ h => h)
          intro he; rw [he] at hu'; simp [hu] at hu'
        · split
          · rename_i hu' hd'
            apply ih
            apply hrest acc (fun _ h => h)
            intro he; rw [he] at hd'; simpa using hd'
          · apply ih
            apply hrest
            · intro x hx; simp only [List.map_append, List.mem_append]; exact Or.inl hx
            · intro he; simp [he]
      | timeout => simp [readBoard, hl]
      | ctxDone => simp [readBoard, hl]
    · rw [readBoard_full pid expected hl, readBoard_full pid expected hl]

/-- a successful collection returns, up to order, the first message of every expected peer. -/
theorem readBoard_ok_perm_firsts {evs : List (Ev M)} {msgs : List M}
    (h : readBoard pid expected evs [] = .ok msgs) :
    msgs.Perm (expected.filterMap (firstOf pid evs)) ∧ (msgs.map pid).Perm expected := by
  obtain ⟨new, hnew, h1, h2, _, h4⟩ := readBoard_ok_gen pid expected h
  simp only [List.nil_append] at hnew
  subst hnew
  have hnd : (msgs.map pid).Nodup := h2 (by simp)
  have hlen := h4 (by simp)
  have hsub : msgs.map pid ⊆ expected := by
    intro p hp
    obtain ⟨m, hm, rfl⟩ := List.mem_map.1 hp
    exact (h1 m hm).2.1
  have hperm : (msgs.map pid).Perm expected :=
    (List.subperm_of_subset hnd hsub).perm_of_length_le (by simp; omega)
  refine ⟨?_, hperm⟩
  have hself : (msgs.map pid).filterMap (firstOf pid evs) = msgs := by
    rw [List.filterMap_map]
    have : ∀ (l : List M), (∀ m ∈ l, firstOf pid evs (pid m) = some m) →
        l.filterMap (firstOf pid evs ∘ pid) = l := by
      intro l hl
      induction l with
      | nil => rfl
      | cons a l ih =>
        rw [List.filterMap_cons]
        simp only [Function.comp, hl a List.mem_cons_self]
        rw [show List.filterMap (fun x => firstOf pid evs (pid x)) l = l from
          ih (fun m hm => hl m (List.mem_cons_of_mem _ hm))]
    exact this msgs (fun m hm => (h1 m hm).2.2.2)
  have := hperm.filterMap (firstOf pid evs)
  rw [hself] at this
  exact this


end ReadBoard

/-! ### node sort -/

theorem sortNodes_perm (ns : List Node) : (sortNodes ns).Perm ns := List.mergeSort_perm _ _

theorem sortNodes_pairwise (ns : List Node) :
    (sortNodes ns).Pairwise (fun a b => a.index ≤ b.index) := by
  have := List.pairwise_mergeSort (le := fun (a b : Node) => decide (a.index ≤ b.index))
    (by intro a b c; simp only [decide_eq_true_eq]; omega)
    (by intro a b; simp only [Bool.or_eq_true, decide_eq_true_eq]; omega) ns
  simpa [sortNodes] using this

theorem sortNodes_eq_of_perm {ns ns' : List Node} (hnd : (ns.map (·.index)).Nodup) (h : ns.Perm ns') :
    sortNodes ns = sortNodes ns' := by
  apply List.Perm.eq_of_pairwise (le := fun a b : Node => a.index ≤ b.index) _
    (sortNodes_pairwise ns) (sortNodes_pairwise ns')
  · exact (sortNodes_perm ns).trans (h.trans (sortNodes_perm ns').symm)
  · intro a b ha hb h1 h2
    have ha' : a ∈ ns := (sortNodes_perm ns).mem_iff.1 ha
    have hb' : b ∈ ns := h.mem_iff.2 ((sortNodes_perm ns').mem_iff.1 hb)
    exact List.inj_on_of_nodup_map hnd ha' hb' (by omega)

theorem sortNodes_index_range {ns : List Node} (h : (ns.map (·.index)).Perm (List.range ns.length)) :
    (sortNodes ns).map (·.index) = List.range ns.length := by
  apply List.Perm.eq_of_pairwise (le := fun a b : Nat => a ≤ b)
  · intro a b _ _ h1 h2; omega
  · exact List.pairwise_map.2 (sortNodes_pairwise ns)
  · exact List.pairwise_lt_range.imp (fun h => Nat.le_of_lt h)
  · exact ((sortNodes_perm ns).map _).trans h

/-! ### `sortedKeys` -/

theorem eraseDups_pairwise_lt : ∀ (n : Nat) (l : List Nat), l.length ≤ n → l.Pairwise (· ≤ ·) →
    l.eraseDups.Pairwise (· < ·)
  | _, [], _, _ => by simp
  | 0, a :: as, h, _ => by simp at h
  | n + 1, a :: as, h, hp => by
    rw [List.eraseDups_cons]
    rw [List.pairwise_cons] at hp ⊢
    refine ⟨?_, eraseDups_pairwise_lt n _ ?_ (hp.2.sublist List.filter_sublist)⟩
    · intro x hx
      rw [List.mem_eraseDups, List.mem_filter] at hx
      have := hp.1 x hx.1
      have hne : x ≠ a := by simpa using hx.2
      omega
    · have := List.length_filter_le (fun b => !b == a) as
      simp only [List.length_cons] at h; omega

theorem sortedKeys_pairwise (ks : List Nat) : (sortedKeys ks).Pairwise (· < ·) := by
  apply eraseDups_pairwise_lt _ _ (Nat.le_refl _)
  have := List.pairwise_mergeSort (le := fun (a b : Nat) => decide (a ≤ b))
    (by intro a b c; simp only [decide_eq_true_eq]; omega)
    (by intro a b; simp only [Bool.or_eq_true, decide_eq_true_eq]; omega) ks
  simpa using this

theorem mem_sortedKeys {ks : List Nat} {x : Nat} : x ∈ sortedKeys ks ↔ x ∈ ks := by
  unfold sortedKeys
  rw [List.mem_eraseDups, (List.mergeSort_perm ks _).mem_iff]

theorem sortedKeys_nodup (ks : List Nat) : (sortedKeys ks).Nodup :=
  (sortedKeys_pairwise ks).imp (fun h => Nat.ne_of_lt h)

theorem sortedKeys_congr {ks ks' : List Nat} (h : ∀ x, x ∈ ks ↔ x ∈ ks') : sortedKeys ks = sortedKeys ks' := by
  apply List.Perm.eq_of_pairwise (le := fun a b : Nat => a < b) _ (sortedKeys_pairwise ks) (sortedKeys_pairwise ks')
  · rw [List.perm_ext_iff_of_nodup (sortedKeys_nodup ks) (sortedKeys_nodup ks')]
    intro a; rw [mem_sortedKeys, mem_sortedKeys]; exact h a
  · intro a b _ _ h1 h2; omega

/-- on a strictly ascending list `sortedKeys` does nothing. -/
theorem sortedKeys_of_sorted {ks : List Nat} (h : ks.Pairwise (· < ·)) : sortedKeys ks = ks := by
  apply List.Perm.eq_of_pairwise (le := fun a b : Nat => a < b) _ (sortedKeys_pairwise ks) h
  · rw [List.perm_ext_iff_of_nodup (sortedKeys_nodup ks) (h.imp (fun h => Nat.ne_of_lt h))]
    intro a; exact mem_sortedKeys
  · intro a b _ _ h1 h2; omega

/-! ### association lists -/

section Alist
variable {β : Type}

theorem lookup_cons (e : Nat × β) (m : List (Nat × β)) (k : Nat) :
    lookup (e :: m) k = if e.1 = k then some e.2 else lookup m k := by
  simp only [lookup, List.find?_cons]
  by_cases h : e.1 = k
  · simp [h]
  · have : (e.1 == k) = false := by simpa using h
    simp [this, h]

theorem lookup_eq_none_iff {m : List (Nat × β)} {k : Nat} : lookup m k = none ↔ k ∉ m.map (·.1) := by
  induction m with
  | nil => simp [lookup]
  | cons e m ih =>
    rw [lookup_cons]
    by_cases h : e.1 = k
    · simp [h]
    · simp only [h, if_false, ih, List.map_cons, List.mem_cons, not_or]
      exact ⟨fun h' => ⟨fun h'' => h h''.symm, h'⟩, fun h' => h'.2⟩

theorem lookup_some_mem {m : List (Nat × β)} {k : Nat} {v : β} (h : lookup m k = some v) : (k, v) ∈ m := by
  induction m with
  | nil => simp [lookup] at h
  | cons e m ih =>
    rw [lookup_cons] at h
    by_cases h' : e.1 = k
    · simp only [h', if_true, Option.some.injEq] at h
      subst h; subst h'; exact List.mem_cons_self
    · simp only [h', if_false] at h
      exact List.mem_cons_of_mem _ (ih h)

theorem lookup_eq_some_of_mem {m : List (Nat × β)} (hnd : (m.map (·.1)).Nodup) {k : Nat} {v : β}
    (h : (k, v) ∈ m) : lookup m k = some v := by
  induction m with
  | nil => cases h
  | cons e m ih =>
    rw [lookup_cons]
    simp only [List.map_cons, List.nodup_cons] at hnd
    rcases List.mem_cons.1 h with h | h
    · subst h; simp
    · have : e.1 ≠ k := by
        intro he; apply hnd.1; rw [he]; exact List.mem_map.2 ⟨(k, v), h, rfl⟩
      simp only [this, if_false]
      exact ih hnd.2 h

/-- with one entry per key (a Go map) the lookup does not depend on the order of the entries. -/
theorem lookup_perm {m m' : List (Nat × β)} (hnd : (m.map (·.1)).Nodup) (h : m.Perm m') (k : Nat) :
    lookup m k = lookup m' k := by
  have hnd' : (m'.map (·.1)).Nodup := (h.map _).nodup_iff.1 hnd
  cases hl : lookup m k with
  | none =>
    symm; rw [lookup_eq_none_iff] at hl ⊢
    intro hc; exact hl ((h.map _).mem_iff.2 hc)
  | some v =>
    exact (lookup_eq_some_of_mem hnd' (h.mem_iff.1 (lookup_some_mem hl))).symm

theorem lookup_map_key (ks : List Nat) (f : Nat → β) (k : Nat) :
    lookup (ks.map fun k => (k, f k)) k = if k ∈ ks then some (f k) else none := by
  induction ks with
  | nil => simp [lookup]
  | cons a ks ih =>
    rw [List.map_cons, lookup_cons, ih]
    by_cases h : a = k
    · subst h; simp
    · have : ¬ k = a := fun h' => h h'.symm
      simp [h, this]

theorem lookup_map_upd (m : List (Nat × β)) (k : Nat) (v : β) (k' : Nat) :
    lookup (m.map fun e => if e.1 == k then (k, v) else e) k' =
      if k' = k then (lookup m k').map (fun _ => v) else lookup m k' := by
  induction m with
  | nil => simp [lookup]
  | cons e m ih =>
    rw [List.map_cons, lookup_cons, lookup_cons, ih]
    by_cases h1 : e.1 = k
    · have : (e.1 == k) = true := by simpa using h1
      simp only [this, if_true]
      by_cases h2 : k' = k
      · subst h2; simp [h1]
      · have h3 : ¬ k = k' := fun h => h2 h.symm
        have h4 : ¬ e.1 = k' := fun h => h3 (h1 ▸ h)
        simp [h2, h3, h4]
    · have : (e.1 == k) = false := by simpa using h1
      simp only [this]
      by_cases h2 : k' = k
      · subst h2; simp [h1]
      · simp only [h2, if_false]; rfl

theorem lookup_append (m m' : List (Nat × β)) (k : Nat) :
    lookup (m ++ m') k = (lookup m k).or (lookup m' k) := by
  induction m with
  | nil => simp [lookup]
  | cons e m ih =>
    rw [List.cons_append, lookup_cons, lookup_cons, ih]
    split <;> simp

theorem lookup_mapSet (m : List (Nat × β)) (k : Nat) (v : β) (k' : Nat) :
    lookup (mapSet m k v) k' = if k' = k then some v else lookup m k' := by
  unfold mapSet
  split
  · rename_i hany
    rw [lookup_map_upd]
    by_cases h : k' = k
    · subst h
      simp only [if_true]
      cases hl : lookup m k' with
      | none =>
        rw [lookup_eq_none_iff] at hl
        exfalso; apply hl
        simp only [List.any_eq_true, beq_iff_eq] at hany
        obtain ⟨x, hx, hxe⟩ := hany
        exact List.mem_map.2 ⟨x, hx, hxe⟩
      | some _ => rfl
    · simp [h]
  · rename_i hany
    rw [lookup_append]
    have hnone : lookup m k = none := by
      rw [lookup_eq_none_iff]
      intro hc
      apply hany
      obtain ⟨x, hx, hxe⟩ := List.mem_map.1 hc
      simp only [List.any_eq_true, beq_iff_eq]
      exact ⟨x, hx, hxe⟩
    by_cases h : k' = k
    · subst h; rw [hnone, lookup_cons]; simp
    · have : ¬ k = k' := fun h' => h h'.symm
      rw [lookup_cons]; simp [h, this, lookup]

theorem lookup_foldl_mapSet_not_mem {α : Type} (f : α → Nat) (g : α → β) (l : List α) (init : List (Nat × β))
    (k : Nat) (h : k ∉ l.map f) :
    lookup (l.foldl (fun acc m => mapSet acc (f m) (g m)) init) k = lookup init k := by
  induction l generalizing init with
  | nil => rfl
  | cons x l ih =>
    simp only [List.map_cons, List.mem_cons, not_or] at h
    rw [List.foldl_cons, ih _ h.2, lookup_mapSet]
    simp [h.1]

theorem lookup_foldl_mapSet_mem {α : Type} (f : α → Nat) (g : α → β) (l : List α) (init : List (Nat × β))
    (hnd : (l.map f).Nodup) {x : α} (hx : x ∈ l) :
    lookup (l.foldl (fun acc m => mapSet acc (f m) (g m)) init) (f x) = some (g x) := by
  induction l generalizing init with
  | nil => cases hx
  | cons y l ih =>
    simp only [List.map_cons, List.nodup_cons] at hnd
    rw [List.foldl_cons]
    rcases List.mem_cons.1 hx with rfl | hx
    · rw [lookup_foldl_mapSet_not_mem f g l _ _ hnd.1, lookup_mapSet]; simp
    · exact ih _ hnd.2 hx

end Alist

/-! ### `makeNodes` -/

/-- the node `makeNodes` builds from a collected message (the key is a point). -/
def nodeOf (c : Cfg) (m : NodePubKeys) : Node := ⟨(c.nodeIdx m.peer).peerIdx, m.pub.point?.getD 0⟩

theorem makeNodesLoop_ok {c : Cfg} {msgs : List NodePubKeys} {nodes ns : List Node}
    {pks pks' : List (Nat × List PB)} (h : makeNodesLoop c msgs nodes pks = .ok (ns, pks')) :
    ns = nodes ++ msgs.map (nodeOf c) ∧ ∀ m ∈ msgs, ∃ s, m.pub = .pt s := by
  induction msgs generalizing nodes pks with
  | nil => simp only [makeNodesLoop, Except.ok.injEq, Prod.mk.injEq] at h; simp [h.1]
  | cons m rest ih =>
    simp only [makeNodesLoop] at h
    split at h
    · cases h
    · rename_i pub hp
      obtain ⟨h1, h2⟩ := ih h
      have hs : m.pub = .pt pub := by
        cases hm : m.pub <;> simp [hm, PB.point?] at hp
        subst hp; rfl
      refine ⟨?_, ?_⟩
      · rw [h1]; simp [nodeOf, hp]
      · intro m' hm'
        rcases List.mem_cons.1 hm' with rfl | hm'
        · exact ⟨pub, hs⟩
        · exact h2 m' hm'

theorem makeNodesLoop_error {c : Cfg} {msgs : List NodePubKeys} {nodes : List Node}
    {pks : List (Nat × List PB)} {e : Err} (h : makeNodesLoop c msgs nodes pks = .error e) :
    e = .unmarshalNodePub ∧ ∃ m ∈ msgs, m.pub.point? = none := by
  induction msgs generalizing nodes pks with
  | nil => cases h
  | cons m rest ih =>
    simp only [makeNodesLoop] at h
    split at h
    · rename_i hp; cases h; exact ⟨rfl, m, List.mem_cons_self, hp⟩
    · obtain ⟨h1, m', hm', h2⟩ := ih h
      exact ⟨h1, m', List.mem_cons_of_mem _ hm', h2⟩

/-- the peer-map lookup of a key of a map with one entry per key. -/
theorem nodeIdx_of_mem {c : Cfg} (hnd : c.peerIDs.Nodup) {e : Nat × NodeIdx} (he : e ∈ c.peerMap) :
    c.nodeIdx e.1 = e.2 := by
  unfold Cfg.nodeIdx
  rw [lookup_eq_some_of_mem hnd (k := e.1) (v := e.2) he]; rfl

/-! ### compact re-indexing -/

theorem reindex_index (ns : List Node) (k : Nat) :
    ((ns.zipIdx k).map fun p => ({ p.1 with index := p.2 } : Node)).map (·.index) = List.range' k ns.length := by
  induction ns generalizing k with
  | nil => rfl
  | cons a ns ih => simp [List.zipIdx_cons, List.range'_succ, ih]

theorem reindex_pub (ns : List Node) (k : Nat) :
    ((ns.zipIdx k).map fun p => ({ p.1 with index := p.2 } : Node)).map (·.pub) = ns.map (·.pub) := by
  induction ns generalizing k with
  | nil => rfl
  | cons a ns ih => simp [List.zipIdx_cons, ih]

theorem reindex_index_ge (ns : List Node) (k : Nat) :
    ∀ y ∈ (ns.zipIdx k).map (fun p => ({ p.1 with index := p.2 } : Node)), k ≤ y.index := by
  intro y hy
  have : y.index ∈ ((ns.zipIdx k).map fun p => ({ p.1 with index := p.2 } : Node)).map (·.index) :=
    List.mem_map.2 ⟨y, hy, rfl⟩
  rw [reindex_index, List.mem_range'_1] at this
  exact this.1

/-- the re-indexing is monotone: old and new indices are ascending together. -/
theorem reindex_zip_monotone (ns : List Node) (k : Nat) (hs : ns.Pairwise (fun a b => a.index < b.index)) :
    (ns.zip ((ns.zipIdx k).map fun p => ({ p.1 with index := p.2 } : Node))).Pairwise
      (fun p q => p.1.index < q.1.index ∧ p.2.index < q.2.index) := by
  induction ns generalizing k with
  | nil => simp
  | cons a ns ih =>
    rw [List.pairwise_cons] at hs
    simp only [List.zipIdx_cons, List.map_cons, List.zip_cons_cons, List.pairwise_cons]
    refine ⟨?_, ih (k + 1) hs.2⟩
    intro q hq
    have h1 := (List.of_mem_zip hq).1
    have h2 := reindex_index_ge ns (k + 1) _ (List.of_mem_zip hq).2
    exact ⟨hs.1 _ h1, by omega⟩

/-! ### `publicSharesOf`, `msgPubShares` -/

theorem publicSharesOf_keys (c : Cfg) (msgs : List ValPubKeyShare) :
    (publicSharesOf c msgs).map (·.1) =
      sortedKeys ((msgs.filter fun m => m.key.len ≠ 0).map fun m => (c.nodeIdx m.peer).shareIdx) := by
  simp only [publicSharesOf, List.map_map]
  exact List.map_id' _

theorem publicSharesOf_lookup_core (c : Cfg) (msgs : List ValPubKeyShare)
    (hnd : (msgs.map fun m => (c.nodeIdx m.peer).shareIdx).Nodup) {m : ValPubKeyShare} (hm : m ∈ msgs)
    (hlen : m.key.len ≠ 0) :
    lookup (publicSharesOf c msgs) (c.nodeIdx m.peer).shareIdx = some m.key.copy48 := by
  have hlive : m ∈ msgs.filter fun m => m.key.len ≠ 0 := by
    rw [List.mem_filter]; exact ⟨hm, by simpa using hlen⟩
  have hnd' : ((msgs.filter fun m => m.key.len ≠ 0).map fun m => (c.nodeIdx m.peer).shareIdx).Nodup :=
    (List.filter_sublist.map _).nodup hnd
  simp only [publicSharesOf]
  rw [lookup_map_key]
  have hk : (c.nodeIdx m.peer).shareIdx ∈
      sortedKeys ((msgs.filter fun m => m.key.len ≠ 0).map fun m => (c.nodeIdx m.peer).shareIdx) := by
    rw [mem_sortedKeys]; exact List.mem_map.2 ⟨m, hlive, rfl⟩
  rw [if_pos hk]
  have := lookup_foldl_mapSet_mem (fun m : ValPubKeyShare => (c.nodeIdx m.peer).shareIdx) (fun m => m.key)
    (msgs.filter fun m => m.key.len ≠ 0) [] hnd' hlive
  rw [this]; rfl

theorem publicSharesOf_perm (c : Cfg) {msgs msgs' : List ValPubKeyShare}
    (hnd : (msgs.map fun m => (c.nodeIdx m.peer).shareIdx).Nodup) (h : msgs.Perm msgs') :
    publicSharesOf c msgs = publicSharesOf c msgs' := by
  have hnd2 : (msgs'.map fun m => (c.nodeIdx m.peer).shareIdx).Nodup := (h.map _).nodup_iff.1 hnd
  have hl : (msgs.filter fun m => m.key.len ≠ 0).Perm (msgs'.filter fun m => m.key.len ≠ 0) := h.filter _
  have hn1 : ((msgs.filter fun m => m.key.len ≠ 0).map fun m => (c.nodeIdx m.peer).shareIdx).Nodup :=
    (List.filter_sublist.map _).nodup hnd
  have hn2 : ((msgs'.filter fun m => m.key.len ≠ 0).map fun m => (c.nodeIdx m.peer).shareIdx).Nodup :=
    (List.filter_sublist.map _).nodup hnd2
  simp only [publicSharesOf]
  rw [sortedKeys_congr (ks' := (msgs'.filter fun m => m.key.len ≠ 0).map fun m => (c.nodeIdx m.peer).shareIdx)
    (fun x => (hl.map _).mem_iff)]
  apply List.map_congr_left
  intro k hk
  rw [mem_sortedKeys] at hk
  obtain ⟨m, hm, rfl⟩ := List.mem_map.1 hk
  have e1 := lookup_foldl_mapSet_mem (fun m : ValPubKeyShare => (c.nodeIdx m.peer).shareIdx) (fun m => m.key)
    _ [] hn1 (hl.mem_iff.2 hm)
  have e2 := lookup_foldl_mapSet_mem (fun m : ValPubKeyShare => (c.nodeIdx m.peer).shareIdx) (fun m => m.key)
    _ [] hn2 hm
  rw [e1, e2]

theorem shareIdx_nodup (c : Cfg) (msgs : List ValPubKeyShare) (hnd : (msgs.map (·.peer)).Nodup)
    (hinj : ∀ p ∈ msgs.map (·.peer), ∀ q ∈ msgs.map (·.peer),
      (c.nodeIdx p).shareIdx = (c.nodeIdx q).shareIdx → p = q) :
    (msgs.map fun m => (c.nodeIdx m.peer).shareIdx).Nodup := by
  have := List.Nodup.map_on (f := fun p => (c.nodeIdx p).shareIdx) hinj hnd
  rw [List.map_map] at this; exact this

theorem lookup_keys_values {β : Type} (m : List (Nat × β)) (hnd : (m.map (·.1)).Nodup) (d : β) :
    (m.map (·.1)).map (fun k => (lookup m k).getD d) = m.map (·.2) := by
  rw [List.map_map]
  apply List.map_congr_left
  intro e he
  simp only [Function.comp]
  rw [lookup_eq_some_of_mem hnd (k := e.1) (v := e.2) he]; rfl

end CharonV.PedersenGlue
