/-
Helper lemmas and invariants for the aggsigdb models (C17); property theorems are in
`CharonV.Props.C17`.
-/
import CharonV.Model.AggSigDB

namespace CharonV.AggSigDB

/-! ### the `data` map -/

theorem lookup_append (k k' : Key) (v : Val) (m : Data) :
    lookup k (m ++ [(k', v)]) =
      match lookup k m with
      | some x => some x
      | none => if k' = k then some v else none := by
  induction m with
  | nil => simp [lookup]
  | cons h t ih =>
    obtain ⟨k1, v1⟩ := h
    simp only [List.cons_append, lookup]
    by_cases hk : k1 = k
    · simp [hk]
    · simp [hk, ih]

theorem lookup_expire (k : Key) (d : Duty) (m : Data) :
    lookup k (expireDuty d m) = if k.duty = d then none else lookup k m := by
  induction m with
  | nil => simp [expireDuty, lookup]
  | cons h t ih =>
    obtain ⟨k1, v1⟩ := h
    unfold expireDuty at ih ⊢
    by_cases hd : k1.duty = d
    · simp only [List.filter, hd, decide_true, Bool.not_true, lookup]
      rw [ih]
      by_cases hk : k1 = k
      · subst hk; simp [hd]
      · simp [hk]
    · simp only [List.filter, hd, decide_false, Bool.not_false, lookup]
      rw [ih]
      by_cases hk : k1 = k
      · subst hk; simp [hd]
      · simp [hk]

theorem put_keeps {m : Data} {k : Key} {v : Val} {k0 : Key} {v0 : Val}
    (h : lookup k0 m = some v0) : lookup k0 (put m k v).1 = some v0 := by
  unfold put
  cases hl : lookup k m with
  | some e => by_cases he : e = v <;> simp [he, h]
  | none => simp [lookup_append, h]

theorem put_conflict {m : Data} {k : Key} {v v0 : Val}
    (h : lookup k m = some v0) (hne : v0 ≠ v) : put m k v = (m, some .mismatch) := by
  simp [put, h, hne]

theorem put_data_of_err {m : Data} {k : Key} {v : Val} {e : Err}
    (h : (put m k v).2 = some e) : (put m k v).1 = m ∧ e = .mismatch := by
  unfold put at h ⊢
  cases hl : lookup k m with
  | some x =>
    rw [hl] at h
    by_cases he : x = v
    · simp [he] at h
    · simp [he] at h ⊢; exact h.symm
  | none => rw [hl] at h; simp at h

theorem put_ok_lookup {m : Data} {k : Key} {v : Val}
    (h : (put m k v).2 = none) : lookup k (put m k v).1 = some v := by
  unfold put at h ⊢
  cases hl : lookup k m with
  | some x =>
    rw [hl] at h
    by_cases he : x = v
    · simp [he, hl]
    · simp [he] at h
  | none => simp [lookup_append, hl]

theorem putAll_keeps {d : Duty} {k0 : Key} {v0 : Val} (es : List Entry) :
    ∀ {m : Data}, lookup k0 m = some v0 → lookup k0 (putAll m d es).1 = some v0 := by
  induction es with
  | nil => intro m h; simpa [putAll] using h
  | cons e es ih =>
    intro m h
    unfold putAll
    cases hs : subIdx d.ty e.dsub with
    | none => simpa using h
    | some sub =>
      simp only
      cases hp : (put m ⟨d, e.pk, sub⟩ e.val).2 with
      | some err => simp only; exact put_keeps h
      | none => simp only; exact ih (put_keeps h)

theorem putAll_conflict {d : Duty} (es : List Entry) :
    ∀ {m : Data} {e : Entry} {sub : Nat} {v0 : Val}, e ∈ es → subIdx d.ty e.dsub = some sub →
      lookup ⟨d, e.pk, sub⟩ m = some v0 → v0 ≠ e.val → (putAll m d es).2.1 ≠ none := by
  induction es with
  | nil => intro m e sub v0 h; cases h
  | cons x xs ih =>
    intro m e sub v0 hmem hsub hl hne
    unfold putAll
    cases hs : subIdx d.ty x.dsub with
    | none => simp
    | some sx =>
      simp only
      cases hp : (put m ⟨d, x.pk, sx⟩ x.val).2 with
      | some err => simp
      | none =>
        simp only
        rcases List.mem_cons.mp hmem with rfl | hin
        · exfalso
          rw [hs] at hsub; cases hsub
          rw [put_conflict hl hne] at hp; cases hp
        · exact ih hin hsub (put_keeps hl) hne

/-! ### V1: reachable states and the blocked-query invariant -/

inductive Reach1 : V1 → Prop
  | init : Reach1 {}
  | step {s : V1} (e : Ev1) : Reach1 s → Reach1 (s.step e).1

def Inv1 (s : V1) : Prop :=
  s.stopped = false → ∀ q ∈ s.blocked, q.cancelled = false → lookup q.key s.data = none

theorem inv1_init : Inv1 {} := by intro _ q hq; cases hq

theorem inv1_step {s : V1} (e : Ev1) (h : Inv1 s) : Inv1 (s.step e).1 := by
  cases hs : s.stopped with
  | true =>
    cases e <;> simp only [V1.step, hs, if_true] <;> try exact h
    all_goals (intro hst; simp at hst)
  | false =>
    cases e with
    | cmd k v =>
      simp only [V1.step, hs, Bool.false_eq_true, if_false]
      intro _ q hq hc
      simp only [keepQ, List.mem_filter, Bool.and_eq_true, Option.isNone_iff_eq_none] at hq
      exact hq.2.2
    | query r k =>
      simp only [V1.step, hs, Bool.false_eq_true, if_false]
      cases hl : lookup k s.data with
      | some v => simp only; intro _ q hq hc; exact h hs q hq hc
      | none =>
        simp only
        intro _ q hq hc
        rcases List.mem_append.mp hq with hq | hq
        · exact h hs q hq hc
        · simp at hq; subst hq; exact hl
    | cancel r =>
      simp only [V1.step]
      intro _ q hq hc
      simp only [List.mem_map] at hq
      obtain ⟨q0, hq0, rfl⟩ := hq
      by_cases hr : q0.rid = r
      · simp [hr] at hc
      · simp only [hr, if_false] at hc ⊢; exact h hs q0 hq0 hc
    | expire d =>
      simp only [V1.step, hs, Bool.false_eq_true, if_false]
      intro _ q hq hc
      rw [lookup_expire]
      by_cases hd : q.key.duty = d
      · simp [hd]
      · simp only [hd, if_false]; exact h hs q hq hc
    | stop => simp only [V1.step]; intro hst; cases hst

theorem reach1_inv {s : V1} (h : Reach1 s) : Inv1 s := by
  induction h with
  | init => exact inv1_init
  | step e _ ih => exact inv1_step e ih

theorem reach1_run {s : V1} (h : Reach1 s) (es : List Ev1) : Reach1 (s.run es) := by
  induction es generalizing s with
  | nil => exact h
  | cons e es ih => exact ih (Reach1.step e h)

/-! ### V2: reachable states; invariant of the broadcast scheme; restricted invariant of the one-slot scheme -/

inductive Reach2 (bc : Bool) : V2 → Prop
  | init : Reach2 bc {}
  | step {s : V2} (e : Ev2) : Reach2 bc s → Reach2 bc (V2.step bc s e).1

/-- broadcast scheme: a reader parked in `wait` never has its key stored. -/
def Inv2b (s : V2) : Prop := ∀ x ∈ s.readers, x.pc = .wait → lookup x.key s.data = none

theorem inv2b_init : Inv2b {} := by intro x hx; cases hx

theorem inv2b_step {s : V2} (e : Ev2) (h : Inv2b s) : Inv2b (V2.step true s e).1 := by
  cases e with
  | store d es =>
    simp only [V2.step]
    cases hs : s.stopped with
    | true => simp only [if_true]; exact h
    | false =>
      simp only [Bool.false_eq_true, if_false, if_true]
      intro x hx hw
      simp only [wakeAll, List.mem_map] at hx
      obtain ⟨y, _, rfl⟩ := hx
      cases hw
  | await r k =>
    simp only [V2.step]
    cases hs : s.stopped with
    | true => simp only [if_true]; exact h
    | false =>
      simp only [Bool.false_eq_true, if_false]
      split
      · exact h
      · intro x hx hw
        rcases List.mem_append.mp hx with hx | hx
        · exact h x hx hw
        · simp at hx; subst hx; cases hw
  | runQuery r =>
    simp only [V2.step]
    intro x hx hw
    rcases List.mem_append.mp hx with hx | hx
    · exact h x (List.mem_filter.mp hx).1 hw
    · simp only [List.mem_map, List.mem_filter, Option.isNone_iff_eq_none] at hx
      obtain ⟨y, ⟨_, hy⟩, rfl⟩ := hx
      exact hy
  | wake r => simp only [V2.step, Bool.not_true, Bool.false_and, Bool.false_eq_true, if_false]; exact h
  | cancel r =>
    simp only [V2.step]
    intro x hx hw
    exact h x (List.mem_filter.mp hx).1 hw
  | expire d =>
    simp only [V2.step]
    cases hs : s.stopped with
    | true => simp only [if_true]; exact h
    | false =>
      simp only [Bool.false_eq_true, if_false]
      intro x hx hw
      rw [lookup_expire]
      by_cases hd : x.key.duty = d
      · simp [hd]
      · simp only [hd, if_false]; exact h x hx hw
  | stop => simp only [V2.step]; intro x hx; cases hx

theorem reach2b_inv {s : V2} (h : Reach2 true s) : Inv2b s := by
  induction h with
  | init => exact inv2b_init
  | step e _ ih => exact inv2b_step e ih

theorem reach2_run {bc : Bool} {s : V2} (h : Reach2 bc s) (es : List Ev2) : Reach2 bc (V2.run bc s es) := by
  induction es generalizing s with
  | nil => exact h
  | cons e es ih => exact ih (Reach2.step e h)

/-! one-slot scheme under restrictions -/

/-- The circumstances under which the one-slot scheme is adequate: an `Await` starts only when no
other is in flight, and a `Store` either succeeds or changes nothing. -/
def Calm (s : V2) : Ev2 → Prop
  | .await _ _ => s.readers = []
  | .store d es => (putAll s.data d es).2.1 = none ∨ (putAll s.data d es).1 = s.data
  | _ => True

inductive ReachP : V2 → Prop
  | init : ReachP {}
  | step {s : V2} (e : Ev2) : ReachP s → Calm s e → ReachP (V2.step false s e).1

def InvP (s : V2) : Prop :=
  s.readers.length ≤ 1 ∧
  ∀ x ∈ s.readers, x.pc = .wait → lookup x.key s.data ≠ none → s.token = true

theorem invP_init : InvP {} := ⟨by simp, by intro x hx; cases hx⟩

theorem invP_step {s : V2} (e : Ev2) (h : InvP s) (hc : Calm s e) : InvP (V2.step false s e).1 := by
  obtain ⟨hlen, hw⟩ := h
  cases e with
  | store d es =>
    simp only [V2.step]
    cases hs : s.stopped with
    | true => simp only [if_true]; exact ⟨hlen, hw⟩
    | false =>
      simp only [Bool.false_eq_true, if_false]
      refine ⟨hlen, ?_⟩
      intro x hx hwait hne
      rcases hc with hok | hsame
      · simp [hok]
      · rw [hsame] at hne
        simp [hw x hx hwait hne]
  | await r k =>
    simp only [Calm] at hc
    simp only [V2.step, hc]
    cases hs : s.stopped with
    | true => simp only [if_true]; exact ⟨hlen, hw⟩
    | false =>
      simp only [Bool.false_eq_true, if_false, List.any_nil, List.nil_append]
      refine ⟨by simp, ?_⟩
      intro x hx hwait
      simp at hx; subst hx; cases hwait
  | runQuery r =>
    obtain ⟨data, readers, token, answered, stopped⟩ := s
    simp only at hlen hw
    match readers, hlen, hw with
    | [], _, _ => simp [V2.step, InvP]
    | [a], _, hw =>
      simp only [V2.step]
      by_cases hat : isAt r .query a = true
      · cases hl : lookup a.key data with
        | some v => simp [hat, hl, InvP]
        | none =>
          simp only [List.filter, hat, Bool.not_true, hl, Option.isNone_none, List.map, List.nil_append]
          refine ⟨by simp, ?_⟩
          intro x hx _ hne
          simp at hx; subst hx
          exact absurd hl hne
      · have hat' : isAt r .query a = false := by simpa using hat
        simp only [List.filter, hat', Bool.not_false, List.map, List.append_nil]
        exact ⟨by simp, hw⟩
    | _ :: _ :: _, hlen, _ => simp at hlen
  | wake r =>
    obtain ⟨data, readers, token, answered, stopped⟩ := s
    simp only at hlen hw
    match readers, hlen, hw with
    | [], _, _ => simp [V2.step, InvP]
    | [a], _, hw =>
      simp only [V2.step, Bool.not_false, Bool.true_and, List.any_cons, List.any_nil, Bool.or_false]
      by_cases hcond : (token && isAt r .wait a) = true
      · simp only [hcond, if_true, List.map]
        have hat : isAt r .wait a = true := by
          simp only [Bool.and_eq_true] at hcond; exact hcond.2
        simp only [hat, if_true]
        refine ⟨by simp, ?_⟩
        intro x hx hwait
        simp at hx; subst hx; cases hwait
      · simp only [hcond]; exact ⟨by simp, hw⟩
    | _ :: _ :: _, hlen, _ => simp at hlen
  | cancel r =>
    simp only [V2.step]
    refine ⟨Nat.le_trans (List.length_filter_le _ _) hlen, ?_⟩
    intro x hx hwait hne
    exact hw x (List.mem_filter.mp hx).1 hwait hne
  | expire d =>
    simp only [V2.step]
    cases hs : s.stopped with
    | true => simp only [if_true]; exact ⟨hlen, hw⟩
    | false =>
      simp only [Bool.false_eq_true, if_false]
      refine ⟨hlen, ?_⟩
      intro x hx hwait hne
      rw [lookup_expire] at hne
      by_cases hd : x.key.duty = d
      · simp [hd] at hne
      · simp only [hd, if_false] at hne; exact hw x hx hwait hne
  | stop => simp only [V2.step]; exact ⟨by simp, by intro x hx; cases hx⟩

theorem reachP_inv {s : V2} (h : ReachP s) : InvP s := by
  induction h with
  | init => exact invP_init
  | step e _ hc ih => exact invP_step e ih hc

end CharonV.AggSigDB
