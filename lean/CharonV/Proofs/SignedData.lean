import CharonV.Model.SignedData

/-
Helper lemmas for Props/C14SignedData.lean: the flat content tree (write / sub), signature normalisation, and
the components of `RowOk`.
-/
namespace CharonV.SignedData

theorem isPrefixOf_self (p : Path) : p.isPrefixOf p = true := by
  rw [List.isPrefixOf_iff_prefix]; exact List.prefix_refl p

/-- a path that is a prefix of something below `rp` overlaps `rp` -/
theorem comparable_of_prefix_append {sp rp q : Path} (h : sp.isPrefixOf (rp ++ q) = true) :
    comparable sp rp = true := by
  rw [List.isPrefixOf_iff_prefix] at h
  have h2 : rp <+: rp ++ q := List.prefix_append rp q
  unfold comparable
  rcases List.prefix_or_prefix_of_prefix h h2 with h3 | h3
  · simp [List.isPrefixOf_iff_prefix.mpr h3]
  · simp [List.isPrefixOf_iff_prefix.mpr h3]

theorem write_cells_same (x : Obj) (p : Path) (v : Val) : (x.write p v).cells p = v := by
  simp [Obj.write]

theorem write_cells_off (x : Obj) {p q : Path} (v : Val) (h : p.isPrefixOf q = false) :
    (x.write p v).cells q = x.cells q := by
  have hne : q ≠ p := by
    intro e; subst e; rw [isPrefixOf_self] at h; cases h
  unfold Obj.write
  simp only [hne, h, if_false]
  rfl

theorem write_sub_of_incomparable (x : Obj) {p rp : Path} (v : Val) (h : comparable p rp = false) :
    (x.write p v).sub rp = x.sub rp := by
  funext q
  unfold Obj.sub
  apply write_cells_off
  cases hp : p.isPrefixOf (rp ++ q) with
  | false => rfl
  | true => rw [comparable_of_prefix_append hp] at h; cases h

theorem write_write (x : Obj) (p : Path) (v w : Val) : (x.write p v).write p w = x.write p w := by
  unfold Obj.write
  congr 1
  funext q
  by_cases h1 : q = p
  · simp [h1]
  · by_cases h2 : p.isPrefixOf q = true
    · simp [h1, h2]
    · simp [h1, h2]

theorem norm_of_wellFormed {s : Val} (h : WellFormed s) : norm s = s := by
  cases s with
  | sym n => rfl
  | bytes bs =>
    simp only [WellFormed] at h
    simp only [norm, h, Nat.sub_self, List.replicate_zero, List.append_nil]
    rw [← h, List.take_length]

theorem norm_idem (s : Val) : norm (norm s) = norm s := by
  cases s with
  | sym n => rfl
  | bytes bs =>
    simp only [norm, sigLen]
    congr 1
    by_cases h : bs.length ≤ 96
    · have : (List.take 96 bs ++ List.replicate (96 - bs.length) 0).length = 96 := by
        simp [List.length_take]; omega
      rw [List.take_of_length_le (by omega), this]; simp
    · have h' : 96 ≤ bs.length := by omega
      have e : 96 - bs.length = 0 := by omega
      simp [e, List.length_take, Nat.min_eq_left h', List.take_take]

theorem wellFormed_norm (s : Val) : WellFormed (norm s) := by
  cases s with
  | sym n => trivial
  | bytes bs =>
    simp only [norm, WellFormed, sigLen, List.length_append, List.length_take, List.length_replicate]
    omega

/-- the components of `RowOk` -/
structure RowOkP (r : Row) : Prop where
  sameField : r.getSig = r.setSig
  target : r.setOn = .clone ∨ (r.setOn = .param ∧ r.getSig = [] ∧ r.rootKind = .unsupported)
  disjoint : ∀ p ∈ r.rootPaths, comparable r.getSig p = false
  cloneDeep : r.cloneKind.deep = true
  jsonSame : r.jsonEnc = r.jsonDec
  jsonSig : r.jsonEnc.isPrefixOf r.getSig = true
  jsonRoot : ∀ p ∈ r.rootPaths, r.jsonEnc.isPrefixOf p = true

theorem rowOk_components {r : Row} (h : RowOk r = true) : RowOkP r := by
  unfold RowOk at h
  simp only [Bool.and_eq_true, beq_iff_eq, Bool.or_eq_true, List.all_eq_true, Bool.not_eq_true'] at h
  obtain ⟨⟨⟨⟨⟨⟨⟨⟨h1, h2⟩, h3⟩, _⟩, _⟩, h6⟩, h7⟩, h8⟩, h9⟩ := h
  exact ⟨h1, by
    rcases h2 with h2 | ⟨⟨a, b⟩, c⟩
    · exact Or.inl h2
    · exact Or.inr ⟨a, b, c⟩, h3, h6, h7, h8, h9⟩

/-- dropping a prefix and putting it back -/
theorem append_drop_of_prefix {p q : Path} (h : p.isPrefixOf q = true) : p ++ q.drop p.length = q := by
  rw [List.isPrefixOf_iff_prefix] at h
  obtain ⟨t, rfl⟩ := h
  simp

end CharonV.SignedData
