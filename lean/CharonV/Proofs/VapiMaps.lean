/-
Helper lemmas for `CharonV.Props.C10VapiMaps` (model: `CharonV.Model.VapiMaps`): `lastWins` (a Go map filled by
successive assignments), lookups in a table with distinct keys under permutation (the Go map iteration order), the
inverse map `keysByShare`, the duties loop `swapLoop`, `convertValidators`, `Validators`.
-/
import CharonV.Model.VapiMaps

namespace CharonV.VapiMaps

/-- decidable equality on results, for the concrete non-vacuity examples (`by decide`). -/
instance exceptDecEq {ε α : Type} [DecidableEq ε] [DecidableEq α] : DecidableEq (Except ε α)
  | .ok a, .ok b => if h : a = b then isTrue (by rw [h]) else isFalse (by intro e; cases e; exact h rfl)
  | .error a, .error b => if h : a = b then isTrue (by rw [h]) else isFalse (by intro e; cases e; exact h rfl)
  | .ok _, .error _ => isFalse (by intro e; cases e)
  | .error _, .ok _ => isFalse (by intro e; cases e)

/-- the validator keys of the lock, in lock order. -/
def keysOf (L : Lock) : List Key := L.map (·.pubkey)

theorem mem_lastWins {l : List Row} {r : Row} (h : r ∈ lastWins l) : r ∈ l := by
  induction l with
  | nil => simp [lastWins] at h
  | cons a l ih =>
    simp only [lastWins] at h
    split at h
    · exact List.mem_cons_of_mem _ (ih h)
    · cases h with
      | head => exact List.mem_cons_self
      | tail _ h => exact List.mem_cons_of_mem _ (ih h)

theorem lastWins_keys_nodup (l : List Row) : ((lastWins l).map (·.1)).Nodup := by
  induction l with
  | nil => simp [lastWins]
  | cons a l ih =>
    simp only [lastWins]
    split
    · exact ih
    · rename_i hn
      simp only [List.map_cons, List.nodup_cons]
      refine ⟨?_, ih⟩
      intro hm
      obtain ⟨x, hx, hxa⟩ := List.mem_map.1 hm
      apply hn
      simp only [List.any_eq_true, decide_eq_true_eq]
      exact ⟨x, mem_lastWins hx, hxa⟩

theorem find_lastWins_append (l1 l2 : List Row) (r : Row) (h : ∀ x ∈ l2, x.1 ≠ r.1) :
    (lastWins (l1 ++ r :: l2)).find? (fun x => x.1 = r.1) = some r := by
  induction l1 with
  | nil =>
    have : (l2.any fun x => decide (x.1 = r.1)) = false := by
      simp only [List.any_eq_false, decide_eq_true_eq]; exact h
    simp [lastWins, this]
  | cons a l1 ih =>
    simp only [List.cons_append, lastWins]
    split
    · exact ih
    · rename_i hn
      have : a.1 ≠ r.1 := by
        intro e; apply hn
        simp only [List.any_eq_true, decide_eq_true_eq]
        exact ⟨r, by simp, e.symm⟩
      simp [this, ih]

theorem find_none_of_keys {T : List Row} {pk : Key} (h : ∀ x ∈ T, x.1 ≠ pk) :
    T.find? (fun x => x.1 = pk) = none := by
  simp only [List.find?_eq_none, decide_eq_true_eq]; exact h

theorem key_inj {β : Type} {T : List (Key × β)} (hk : (T.map (·.1)).Nodup) {r r' : Key × β} (h : r ∈ T) (h' : r' ∈ T)
    (e : r.1 = r'.1) : r = r' := by
  induction T with
  | nil => cases h
  | cons a T ih =>
    simp only [List.map_cons, List.nodup_cons, List.mem_map, not_exists, not_and] at hk
    cases h with
    | head =>
      cases h' with
      | head => rfl
      | tail _ h' => exact absurd e.symm (hk.1 _ h')
    | tail _ h =>
      cases h' with
      | head => exact absurd e (hk.1 _ h)
      | tail _ h' => exact ih hk.2 h h'

theorem find_key_of_mem {β : Type} {T : List (Key × β)} (hk : (T.map (·.1)).Nodup) {r : Key × β} (h : r ∈ T) :
    T.find? (fun x => x.1 = r.1) = some r := by
  cases hf : T.find? (fun x => x.1 = r.1) with
  | none =>
    simp only [List.find?_eq_none, decide_eq_true_eq] at hf
    exact absurd rfl (hf r h)
  | some r' =>
    have h1 := List.mem_of_find?_eq_some hf
    have h2 := List.find?_some hf
    simp only [decide_eq_true_eq] at h2
    rw [key_inj hk h1 h h2]

theorem lookup_perm {T T' : Tbl} (hk : (T.map (·.1)).Nodup) (hp : T'.Perm T) (pk : Key) :
    lookup T' pk = lookup T pk := by
  have hk' : (T'.map (·.1)).Nodup := (hp.map _).nodup_iff.2 hk
  unfold lookup
  cases hf : T.find? (fun x => x.1 = pk) with
  | none =>
    simp only [List.find?_eq_none, decide_eq_true_eq] at hf
    rw [find_none_of_keys (fun x hx => hf x (hp.mem_iff.1 hx))]
  | some r =>
    have h1 := List.mem_of_find?_eq_some hf
    have h2 := List.find?_some hf
    simp only [decide_eq_true_eq] at h2
    subst h2
    rw [find_key_of_mem hk' (hp.mem_iff.2 h1)]

theorem getPubShare_eq (T : Tbl) (idx : Int) (pk : Key) :
    (newComponent T idx).getPubShare pk = (lookup T pk).map (fun sh => ownShare sh idx) := by
  unfold Comp.getPubShare newComponent lookup
  induction T with
  | nil => rfl
  | cons a T ih =>
    simp only [List.map_cons, List.find?_cons]
    by_cases h : a.1 = pk <;> simp [h] 
    · simpa using ih


theorem lookup_appTable_append (L₁ L₂ : Lock) (v : LockVal) (h : ∀ w ∈ L₂, w.pubkey ≠ v.pubkey) :
    lookup (appTable (L₁ ++ v :: L₂)) v.pubkey = some v.shares := by
  unfold lookup appTable
  have := find_lastWins_append (L₁.map fun v => (v.pubkey, v.shares)) (L₂.map fun v => (v.pubkey, v.shares))
    (v.pubkey, v.shares) (by
      intro x hx
      obtain ⟨w, hw, rfl⟩ := List.mem_map.1 hx
      exact h w hw)
  simp only [List.map_append, List.map_cons]
  simp only [] at this
  rw [this]; rfl

theorem lookup_appTable_mem (L : Lock) (hL : (keysOf L).Nodup) (v : LockVal) (hv : v ∈ L) :
    lookup (appTable L) v.pubkey = some v.shares := by
  obtain ⟨L₁, L₂, rfl⟩ := List.append_of_mem hv
  apply lookup_appTable_append
  intro w hw e
  simp only [keysOf, List.map_append, List.map_cons] at hL
  have := (List.nodup_append.1 hL).2.1
  simp only [List.nodup_cons, List.mem_map, not_exists, not_and] at this
  exact this.1 w hw e

theorem lookup_appTable_none (L : Lock) (pk : Key) (h : ∀ v ∈ L, v.pubkey ≠ pk) :
    lookup (appTable L) pk = none := by
  unfold lookup appTable
  rw [find_none_of_keys]; rfl
  intro x hx
  obtain ⟨w, hw, rfl⟩ := List.mem_map.1 (mem_lastWins hx)
  exact h w hw

theorem shareAt_succ (sh : List Key) (i : Nat) : shareAt sh ((i : Int) + 1) = sh[i]? := by
  unfold shareAt
  have h1 : (1 : Int) ≤ (i : Int) + 1 := by omega
  have h2 : ((i : Int) + 1 - 1).toNat = i := by omega
  simp [h1]

theorem shareAt_out (sh : List Key) (i : Int) (h : i < 1 ∨ (sh.length : Int) < i) : shareAt sh i = none := by
  unfold shareAt
  split
  · rw [List.getElem?_eq_none]; omega
  · rfl

theorem peerShare_eq (v : LockVal) (p : Int) : peerShare v p = shareAt v.shares (p + 1) := by
  unfold peerShare shareAt
  have h2 : (p + 1 - 1) = p := by omega
  by_cases h : 0 ≤ p
  · have : (1 : Int) ≤ p + 1 := by omega
    simp [h, this, h2]
  · have : ¬ (1 : Int) ≤ p + 1 := by omega
    simp [h, this]

theorem appPubshares_some_iff (L : Lock) (p : Int) :
    (appPubshares L p).isSome ↔ ∀ v ∈ L, 0 ≤ p ∧ p.toNat < v.shares.length := by
  induction L with
  | nil => simp [appPubshares]
  | cons v vs ih =>
    simp only [appPubshares, List.mem_cons, forall_eq_or_imp, ← ih]
    have hp : (peerShare v p).isSome ↔ 0 ≤ p ∧ p.toNat < v.shares.length := by
      unfold peerShare
      by_cases h : 0 ≤ p <;> simp [h]
    rw [← hp]
    cases peerShare v p <;> cases appPubshares vs p <;> simp

theorem appPubshares_eq (L : Lock) (p : Int) (l : List Key) (h : appPubshares L p = some l) :
    l = L.map (fun v => ownShare v.shares (p + 1)) ∧ ∀ v ∈ L, shareAt v.shares (p + 1) ≠ none := by
  induction L generalizing l with
  | nil => simp [appPubshares] at h; simp [h]
  | cons v vs ih =>
    simp only [appPubshares] at h
    cases hp : peerShare v p with
    | none => simp [hp] at h
    | some k =>
      cases hr : appPubshares vs p with
      | none => simp [hp, hr] at h
      | some ks =>
        simp only [hp, hr, Option.some.injEq] at h
        subst h
        obtain ⟨h1, h2⟩ := ih ks hr
        rw [peerShare_eq] at hp
        simp only [List.map_cons, List.mem_cons, forall_eq_or_imp, ownShare, hp]
        refine ⟨by rw [h1]; rfl, by simp, h2⟩


/-! ### the inverse map `keysByShare` -/

theorem own_keys (T : Tbl) (idx : Int) : (newComponent T idx).own.map (·.1) = T.map (·.1) := by
  simp [newComponent, List.map_map, Function.comp_def]

theorem keyByShare_some {c : Comp} {s k : Key} (h : c.keyByShare s = some k) : (k, s) ∈ c.own := by
  unfold Comp.keyByShare at h
  cases hf : c.own.reverse.find? (fun e => e.2 = s) with
  | none => simp [hf] at h
  | some e =>
    simp only [hf, Option.map_some, Option.some.injEq] at h
    have h1 := List.mem_of_find?_eq_some hf
    have h2 := List.find?_some hf
    simp only [decide_eq_true_eq] at h2
    subst h h2
    simpa using h1

theorem keyByShare_none_iff {c : Comp} {s : Key} : c.keyByShare s = none ↔ ∀ e ∈ c.own, e.2 ≠ s := by
  unfold Comp.keyByShare
  simp

theorem getPubKey_ok_iff {c : Comp} {s k : Key} : c.getPubKey s = .ok k ↔ c.keyByShare s = some k := by
  unfold Comp.getPubKey
  cases c.keyByShare s with
  | none => simp only [reduceCtorEq, iff_false]; split <;> simp
  | some k' => simp

theorem getPubShare_of_mem {T : Tbl} (hk : (T.map (·.1)).Nodup) {idx : Int} {pk s : Key}
    (h : (pk, s) ∈ (newComponent T idx).own) : (newComponent T idx).getPubShare pk = some s := by
  have hk' : ((newComponent T idx).own.map (·.1)).Nodup := by rw [own_keys]; exact hk
  unfold Comp.getPubShare
  have := find_key_of_mem (T := (newComponent T idx).own) hk' h
  simp only [] at this
  rw [this]; rfl

theorem keyByShare_append (o1 o2 : List (Key × Key)) (e : Key × Key) (all : Tbl) (idx : Int)
    (h : ∀ x ∈ o2, x.2 ≠ e.2) :
    Comp.keyByShare { all := all, idx := idx, own := o1 ++ e :: o2 } e.2 = some e.1 := by
  unfold Comp.keyByShare
  simp only [List.reverse_append, List.reverse_cons, List.append_assoc, List.find?_append]
  have : o2.reverse.find? (fun x => decide (x.2 = e.2)) = none := by
    simp only [List.find?_eq_none, decide_eq_true_eq, List.mem_reverse]; exact h
  simp [this]

theorem keyByShare_of_nodup {c : Comp} (hd : (c.own.map (·.2)).Nodup) {e : Key × Key} (he : e ∈ c.own) :
    c.keyByShare e.2 = some e.1 := by
  obtain ⟨o1, o2, ho⟩ := List.append_of_mem he
  have := keyByShare_append o1 o2 e c.all c.idx (by
    intro x hx ex
    rw [ho] at hd
    simp only [List.map_append, List.map_cons] at hd
    have := (List.nodup_append.1 hd).2.1
    simp only [List.nodup_cons, List.mem_map, not_exists, not_and] at this
    exact this.1 x hx ex)
  rw [← ho] at this
  exact this

theorem nodup_of_inverse {own : List (Key × Key)} (hk : (own.map (·.1)).Nodup)
    (f : Key → Option Key) (h : ∀ e ∈ own, f e.2 = some e.1) : (own.map (·.2)).Nodup := by
  unfold List.Nodup at hk ⊢
  rw [List.pairwise_map] at hk ⊢
  refine hk.imp_of_mem ?_
  intro a b ha hb hab e
  apply hab
  have h1 := h a ha
  have h2 := h b hb
  rw [e, h2] at h1
  simpa using h1.symm

/-! ### the duties loop -/

theorem swapLoop_fst_none_iff (c : Comp) (k : DutyKind) (ds : List (Option Duty)) :
    (swapLoop c k ds).1 = none ↔
      (∀ d ∈ ds, d ≠ none) ∧ (k ≠ .proposer → ∀ d, some d ∈ ds → c.getPubShare d.pubkey ≠ none) := by
  induction ds with
  | nil => simp [swapLoop]
  | cons a ds ih =>
    cases a with
    | none => simp [swapLoop]
    | some d =>
      simp only [swapLoop]
      cases hg : c.getPubShare d.pubkey with
      | some s =>
        simp only [ih, List.mem_cons, forall_eq_or_imp, Option.some.injEq]
        constructor
        · rintro ⟨h1, h2⟩
          exact ⟨⟨by simp, h1⟩, fun hk => ⟨by simp [hg], h2 hk⟩⟩
        · rintro ⟨⟨_, h1⟩, h2⟩
          exact ⟨h1, fun hk => (h2 hk).2⟩
      | none =>
        by_cases hk : k = .proposer
        · subst hk
          simp [ih]
        · simp only [hk, if_false, reduceCtorEq, false_iff, not_and]
          intro _ h
          exact h hk d (by simp) hg

theorem swapLoop_snd_of_none (c : Comp) (k : DutyKind) (ds : List (Option Duty)) (h : (swapLoop c k ds).1 = none) :
    (swapLoop c k ds).2 = ds.map (Option.map (swapOne c)) := by
  induction ds with
  | nil => rfl
  | cons a ds ih =>
    cases a with
    | none => simp [swapLoop] at h
    | some d =>
      simp only [swapLoop] at h ⊢
      cases hg : c.getPubShare d.pubkey with
      | some s =>
        simp only [hg] at h
        simp [ih h, swapOne, hg]
      | none =>
        simp only [hg] at h
        by_cases hk : k = .proposer
        · simp only [hk, if_true] at h ih ⊢
          simp [ih h, swapOne, hg]
        · simp [hk] at h

theorem swapLoop_length (c : Comp) (k : DutyKind) (ds : List (Option Duty)) :
    (swapLoop c k ds).2.length = ds.length := by
  induction ds with
  | nil => rfl
  | cons a ds ih =>
    cases a with
    | none => rfl
    | some d =>
      simp only [swapLoop]
      split
      · simp [ih]
      · split <;> simp [ih]

theorem swapLoop_get (c : Comp) (k : DutyKind) (ds : List (Option Duty)) (j : Nat) :
    (swapLoop c k ds).2[j]? = ds[j]? ∨ (swapLoop c k ds).2[j]? = (ds[j]?).map (Option.map (swapOne c)) := by
  induction ds generalizing j with
  | nil => left; rfl
  | cons a ds ih =>
    cases a with
    | none => left; rfl
    | some d =>
      simp only [swapLoop]
      cases hg : c.getPubShare d.pubkey with
      | some s =>
        cases j with
        | zero => right; simp [swapOne, hg]
        | succ j => simpa using ih j
      | none =>
        by_cases hk : k = .proposer
        · simp only [hk, if_true] at ih ⊢
          cases j with
          | zero => left; rfl
          | succ j => simpa using ih j
        · simp only [hk, if_false]; left; trivial

theorem duties_ok_iff (c : Comp) (k : DutyKind) (ds : List (Option Duty)) (md : Option Nat)
    (r : List (Option Duty) × Option Nat) :
    (duties c k ds md).res = .ok r ↔
      (swapLoop c k ds).1 = none ∧ r = ((swapLoop c k ds).2, if k = .sync then none else md) := by
  simp only [duties]
  cases h : (swapLoop c k ds).1 with
  | none => simp only [Except.ok.injEq, true_and]; exact eq_comm
  | some e => simp

theorem duties_handed (c : Comp) (k : DutyKind) (ds : List (Option Duty)) (md : Option Nat) :
    (duties c k ds md).handed = (swapLoop c k ds).2 := by
  simp only [duties]
  cases (swapLoop c k ds).1 <;> rfl

/-! ### `convertValidators`, `Validators` -/

/-- what `convertValidators` should make of one validator: the key replaced by this node's share when the validator
is in the table, everything else untouched. -/
def swapVal (c : Comp) (v : Val) : Val :=
  match c.getPubShare v.pubkey with
  | some s => { v with pubkey := s }
  | none => v

theorem swapVal_some {c : Comp} {v : Val} {s : Key} (h : c.getPubShare v.pubkey = some s) :
    swapVal c v = { v with pubkey := s } := by simp [swapVal, h]

theorem swapVal_none {c : Comp} {v : Val} (h : c.getPubShare v.pubkey = none) : swapVal c v = v := by
  simp [swapVal, h]

theorem convert_ok_iff (c : Comp) (ig : Bool) (m : VMap) (r : List (Nat × Val)) :
    convert c ig m = .ok r ↔
      ((∀ e ∈ m, e.2 ≠ none) ∧ (ig = false → ∀ i v, (i, some v) ∈ m → c.getPubShare v.pubkey ≠ none)) ∧
        r = m.filterMap (fun e => e.2.map (fun v => (e.1, swapVal c v))) := by
  induction m generalizing r with
  | nil => simp [convert, eq_comm]
  | cons a m ih =>
    obtain ⟨i, ov⟩ := a
    cases ov with
    | none => simp [convert]
    | some v =>
      simp only [convert]
      cases hg : c.getPubShare v.pubkey with
      | some s =>
        simp only []
        cases hc : convert c ig m with
        | error e =>
          simp only [reduceCtorEq, false_iff, not_and]
          rintro ⟨h1, h2⟩
          have := (ih _).2 ⟨⟨fun e he => h1 e (List.mem_cons_of_mem _ he),
            fun hi i' v' hm => h2 hi i' v' (List.mem_cons_of_mem _ hm)⟩, rfl⟩
          rw [hc] at this; cases this
        | ok r' =>
          obtain ⟨⟨h1, h2⟩, h3⟩ := (ih r').1 hc
          subst h3
          simp only [Except.ok.injEq, List.filterMap_cons, Option.map_some, swapVal_some hg]
          constructor
          · rintro rfl
            refine ⟨⟨?_, ?_⟩, rfl⟩
            · intro e he
              rcases List.mem_cons.1 he with rfl | he
              · simp
              · exact h1 e he
            · intro hi i' v' hm
              rcases List.mem_cons.1 hm with e | hm
              · simp only [Prod.mk.injEq, Option.some.injEq] at e
                rw [e.2, hg]; simp
              · exact h2 hi i' v' hm
          · rintro ⟨_, rfl⟩; rfl
      | none =>
        cases ig with
        | true =>
          simp only [if_true]
          cases hc : convert c true m with
          | error e =>
            simp only [reduceCtorEq, false_iff, not_and]
            rintro ⟨h1, h2⟩
            have := (ih _).2 ⟨⟨fun e he => h1 e (List.mem_cons_of_mem _ he), by simp⟩, rfl⟩
            rw [hc] at this; cases this
          | ok r' =>
            obtain ⟨⟨h1, h2⟩, h3⟩ := (ih r').1 hc
            subst h3
            simp only [Except.ok.injEq, List.filterMap_cons, Option.map_some, swapVal_none hg]
            constructor
            · rintro rfl
              refine ⟨⟨?_, by simp⟩, rfl⟩
              intro e he
              rcases List.mem_cons.1 he with rfl | he
              · simp
              · exact h1 e he
            · rintro ⟨_, rfl⟩; rfl
        | false =>
          simp only [Bool.false_eq_true, if_false, reduceCtorEq, false_iff, not_and]
          rintro ⟨_, h2⟩
          exact absurd hg (h2 trivial i v List.mem_cons_self)

theorem filterMap_length_of_all_some (c : Comp) (m : VMap) (h : ∀ e ∈ m, e.2 ≠ none) :
    (m.filterMap (fun e => e.2.map (fun v => (e.1, swapVal c v)))).length = m.length := by
  induction m with
  | nil => rfl
  | cons a m ih =>
    obtain ⟨i, ov⟩ := a
    cases ov with
    | none => exact absurd rfl (h (i, none) List.mem_cons_self)
    | some v =>
      simp only [List.filterMap_cons, Option.map_some, List.length_cons]
      rw [ih (fun e he => h e (List.mem_cons_of_mem _ he))]

theorem getPubKey_error_of_none {c : Comp} {s : Key} (h : c.keyByShare s = none) :
    ∃ e, c.getPubKey s = .error e := by
  unfold Comp.getPubKey
  rw [h]
  simp only []
  split <;> exact ⟨_, rfl⟩

theorem resolveShares_error (c : Comp) (ss : List Key) (s : Key) (hs : s ∈ ss) (hn : c.keyByShare s = none) :
    ∃ e, resolveShares c ss = .error e := by
  induction ss with
  | nil => cases hs
  | cons a ss ih =>
    simp only [resolveShares]
    cases hg : c.getPubKey a with
    | error e => exact ⟨e, rfl⟩
    | ok k =>
      have hs' : s ∈ ss := by
        rcases List.mem_cons.1 hs with rfl | h
        · obtain ⟨e, he⟩ := getPubKey_error_of_none hn
          rw [he] at hg; cases hg
        · exact h
      obtain ⟨e, he⟩ := ih hs'
      rw [he]; exact ⟨e, rfl⟩

theorem mapsCopy_nil_left (x : VMap) : mapsCopy [] x = x := by simp [mapsCopy]

theorem mapsCopy_nil_right (x : VMap) : mapsCopy x [] = x := by simp [mapsCopy]

theorem resolveShares_single {c : Comp} {s pk : Key} (h : c.getPubKey s = .ok pk) :
    resolveShares c [s] = .ok [pk] := by
  simp [resolveShares, h]

end CharonV.VapiMaps
