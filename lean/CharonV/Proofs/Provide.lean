/-
Helper lemmas for the provide/submit model (C19).
-/
import CharonV.Model.Provide

namespace CharonV.Provide

/-- state of the call after `evs` if it has not returned (`none`: it has returned). -/
def after (sc : Scen) : St → List Ev → Option St
  | st, [] => some st
  | st, e :: es =>
    match stepEv sc st e with
    | .inl st' => after sc st' es
    | .inr _ => none

theorem go_append {sc : Scen} {st st' : St} {pre : List Ev} (h : after sc st pre = some st')
    (rest : List Ev) (n : Nat) : go sc st (pre ++ rest) n = go sc st' rest (n + pre.length) := by
  induction pre generalizing st n with
  | nil => simp [after] at h; subst h; simp
  | cons e es ih =>
    simp only [after] at h
    cases hs : stepEv sc st e with
    | inl s1 =>
      rw [hs] at h
      simp only [List.cons_append, go, hs, List.length_cons]
      rw [ih h]; congr 1; omega
    | inr r => rw [hs] at h; cases h

theorem goFb_append {sc : Scen} {st st' : St} {pre : List Ev} (h : after sc st pre = some st')
    (rest : List Ev) : goFb sc st (pre ++ rest) = goFb sc st' rest := by
  induction pre generalizing st with
  | nil => simp [after] at h; subst h; simp
  | cons e es ih =>
    simp only [after] at h
    cases hs : stepEv sc st e with
    | inl s1 => rw [hs] at h; simp only [List.cons_append, goFb, hs]; exact ih h
    | inr r => rw [hs] at h; cases h

/-- the result only depends on the events consumed. -/
theorem go_prefix {sc : Scen} {st : St} {evs : List Ev} {n : Nat} {r : Res} {k : Nat}
    (h : go sc st evs n = (r, k)) (hr : r ≠ .stuck) (evs' : List Ev) :
    n ≤ k ∧ go sc st (evs.take (k - n) ++ evs') n = (r, k) := by
  induction evs generalizing st n with
  | nil => simp [go] at h; exact absurd h.1.symm hr
  | cons e es ih =>
    simp only [go] at h
    cases hs : stepEv sc st e with
    | inl s1 =>
      rw [hs] at h
      obtain ⟨h1, h2⟩ := ih h
      refine ⟨by omega, ?_⟩
      have : k - n = (k - (n + 1)) + 1 := by omega
      rw [this, List.take_succ_cons, List.cons_append]
      simp only [go, hs]
      exact h2
    | inr r' =>
      rw [hs] at h
      simp only [Prod.mk.injEq] at h
      obtain ⟨h1, h2⟩ := h
      subst h1; subst h2
      refine ⟨by omega, ?_⟩
      have : n + 1 - n = 0 + 1 := by omega
      rw [this, List.take_succ_cons, List.cons_append]
      simp [go, hs]

/-! ### the stage invariant used by `success_if_any` and `fallback_decision` -/

/-- while only unsuccessful nodes other than the ones in `keep` complete and nobody cancels, the
call stays in its stage, uncancelled, and still waits for the nodes in `keep`. -/
structure Waiting (sc : Scen) (fb : Bool) (keep : List Nat) (st : St) : Prop where
  stage : st.fbStage = fb
  notCancelled : st.cancelled = false
  keepPending : ∀ i ∈ keep, i ∈ st.pending
  pendingNodup : st.pending.Nodup

theorem waiting_init (sc : Scen) (fb : Bool) (n : Nat) (keep : List Nat) (h : ∀ i ∈ keep, i < n) :
    Waiting sc fb keep (initSt n fb) :=
  ⟨rfl, rfl, fun i hi => by simpa [initSt] using h i hi, by simp [initSt, List.nodup_range]⟩

/-- one event of the quiet kind keeps `Waiting`, and tells which node (if any) was consumed. -/
theorem waiting_step {sc : Scen} {fb : Bool} {keep : List Nat} {st : St} (hw : Waiting sc fb keep st)
    (hk : keep ≠ []) (e : Ev) (hc : e ≠ .cancel)
    (hq : ∀ j m, e = .rel fb j → (nodes sc fb)[j]? = some m → isOk sc m.out = false ∧ j ∉ keep) :
    ∃ st', stepEv sc st e = .inl st' ∧ Waiting sc fb keep st' ∧
      (∀ x, x ∈ st'.pending ↔ x ∈ st.pending ∧
        ¬ (∃ m, e = .rel fb x ∧ (nodes sc fb)[x]? = some m)) := by
  cases e with
  | cancel => exact absurd rfl hc
  | rel fb' j =>
    simp only [stepEv]
    by_cases h1 : (fb' != st.fbStage || !st.pending.contains j) = true
    · simp only [h1, if_true]
      refine ⟨st, rfl, hw, fun x => ⟨fun hx => ⟨hx, ?_⟩, fun hx => hx.1⟩⟩
      rintro ⟨m, he, _⟩
      simp only [Ev.rel.injEq] at he
      obtain ⟨hf, hj⟩ := he
      subst hf; subst hj
      simp [hw.stage, hx] at h1
    · simp only [h1]
      have h1' : fb' = st.fbStage ∧ j ∈ st.pending := by
        simp only [Bool.or_eq_true, bne_iff_ne, ne_eq, Bool.not_eq_eq_eq_not, Bool.not_true, not_or,
          Decidable.not_not] at h1
        exact ⟨h1.1, by simpa using h1.2⟩
      have hfb : fb' = fb := h1'.1.trans hw.stage
      subst hfb
      cases hn : (nodes sc fb')[j]? with
      | none =>
        simp only [Bool.false_eq_true, if_false]
        refine ⟨st, rfl, hw, fun x => ⟨fun hx => ⟨hx, ?_⟩, fun hx => hx.1⟩⟩
        rintro ⟨m, he, hm⟩
        simp only [Ev.rel.injEq, true_and] at he
        subst he; rw [hn] at hm; cases hm
      | some m =>
        obtain ⟨hnok, hjk⟩ := hq j m rfl hn
        simp only [Bool.false_eq_true, if_false, hw.notCancelled, hnok]
        -- the nodes in `keep` are still pending, so the group is not finished
        have hne : (st.pending.erase j).isEmpty = false := by
          cases hkk : keep with
          | nil => exact absurd hkk hk
          | cons i0 _ =>
            have hi0 : i0 ∈ keep := by rw [hkk]; exact List.mem_cons_self ..
            have : i0 ∈ st.pending.erase j := by
              rw [hw.pendingNodup.mem_erase_iff]
              exact ⟨fun h => hjk (h ▸ hi0), hw.keepPending i0 hi0⟩
            cases hE : st.pending.erase j with
            | nil => rw [hE] at this; cases this
            | cons _ _ => rfl
        simp only [hne, Bool.false_eq_true, if_false]
        refine ⟨_, rfl, ⟨hw.stage, rfl, ?_, hw.pendingNodup.erase j⟩, ?_⟩
        · intro i hi
          rw [hw.pendingNodup.mem_erase_iff]
          exact ⟨fun h => hjk (h ▸ hi), hw.keepPending i hi⟩
        · intro x
          simp only [hw.pendingNodup.mem_erase_iff]
          constructor
          · rintro ⟨hxj, hx⟩
            refine ⟨hx, ?_⟩
            rintro ⟨m', he, _⟩
            simp only [Ev.rel.injEq, true_and] at he
            exact hxj he.symm
          · rintro ⟨hx, hno⟩
            refine ⟨?_, hx⟩
            intro hxj
            subst hxj
            exact hno ⟨m, rfl, hn⟩

/-- a quiet prefix: no cancellation, every completion of a node of this stage is an unsuccessful
one of a node outside `keep`. -/
def Quiet (sc : Scen) (fb : Bool) (keep : List Nat) (pre : List Ev) : Prop :=
  Ev.cancel ∉ pre ∧
  ∀ j m, Ev.rel fb j ∈ pre → (nodes sc fb)[j]? = some m → isOk sc m.out = false ∧ j ∉ keep

theorem waiting_run {sc : Scen} {fb : Bool} {keep : List Nat} (hk : keep ≠ []) {pre : List Ev}
    (hq : Quiet sc fb keep pre) {st : St} (hw : Waiting sc fb keep st) :
    ∃ st', after sc st pre = some st' ∧ Waiting sc fb keep st' ∧
      (∀ x, x ∈ st'.pending ↔ x ∈ st.pending ∧
        ¬ (∃ m, Ev.rel fb x ∈ pre ∧ (nodes sc fb)[x]? = some m)) := by
  induction pre generalizing st with
  | nil => exact ⟨st, rfl, hw, fun x => by simp⟩
  | cons e es ih =>
    obtain ⟨hc, hr⟩ := hq
    have hce : e ≠ .cancel := fun h => hc (h ▸ List.mem_cons_self ..)
    obtain ⟨s1, hs1, hw1, hp1⟩ := waiting_step hw hk e hce
      (fun j m he hm => hr j m (he ▸ List.mem_cons_self ..) hm)
    obtain ⟨s2, hs2, hw2, hp2⟩ := ih
      ⟨fun h => hc (List.mem_cons_of_mem _ h), fun j m h hm => hr j m (List.mem_cons_of_mem _ h) hm⟩ hw1
    refine ⟨s2, by simp [after, hs1, hs2], hw2, ?_⟩
    intro x
    rw [hp2, hp1]
    constructor
    · rintro ⟨⟨hx, h1⟩, h2⟩
      refine ⟨hx, ?_⟩
      rintro ⟨m, hmem, hm⟩
      rcases List.mem_cons.mp hmem with h | h
      · exact h1 ⟨m, h.symm, hm⟩
      · exact h2 ⟨m, h, hm⟩
    · rintro ⟨hx, h⟩
      exact ⟨⟨hx, fun ⟨m, he, hm⟩ => h ⟨m, he ▸ List.mem_cons_self .., hm⟩⟩,
        fun ⟨m, hmem, hm⟩ => h ⟨m, List.mem_cons_of_mem _ hmem, hm⟩⟩

theorem getElem?_lt {α : Type} {l : List α} {i : Nat} {a : α} (h : l[i]? = some a) : i < l.length := by
  by_cases hi : i < l.length
  · exact hi
  · rw [List.getElem?_eq_none (by omega)] at h; cases h

/-- generic form of `success_if_any` for either stage. -/
theorem go_first_success (sc : Scen) (fb : Bool) (pre post : List Ev) (i : Nat) (nd : Node) (n : Nat)
    (hn : (nodes sc fb)[i]? = some nd) (hok : isOk sc nd.out = true)
    (hq : Quiet sc fb [i] pre) :
    go sc (initSt (nodes sc fb).length fb) (pre ++ Ev.rel fb i :: post) n =
      (.okFrom fb i, n + pre.length + 1) := by
  have hw0 := waiting_init sc fb (nodes sc fb).length [i]
    (fun j hj => by simp at hj; subst hj; exact getElem?_lt hn)
  obtain ⟨st, hst, hw, _⟩ := waiting_run (by simp) hq hw0
  rw [go_append hst]
  have hp : i ∈ st.pending := hw.keepPending i (by simp)
  simp [go, stepEv, hw.stage, hp, hn, hw.notCancelled, hok]

/-! ### the end of a group: last error, fallback decision -/

theorem erase_nil_mem {l : List Nat} {i j : Nat} (h : l.erase i = []) (hj : j ∈ l) : j = i := by
  cases l with
  | nil => cases hj
  | cons a t =>
    by_cases ha : a = i
    · subst ha
      simp at h
      subst h
      simpa using hj
    · have : (a :: t).erase i = a :: t.erase i := by
        simp [List.erase_cons, ha]
      rw [this] at h; cases h

theorem stepEv_fbStage {sc : Scen} {st st' : St} {e : Ev} (h : stepEv sc st e = .inl st')
    (hfb : st.fbStage = true) : st'.fbStage = true := by
  cases e with
  | cancel =>
    simp only [stepEv] at h
    split at h
    · cases h; exact hfb
    · split at h
      · cases h
      · cases h; exact hfb
  | rel fb i =>
    simp only [stepEv] at h
    split at h
    · cases h; exact hfb
    · rename_i h1
      have hfb' : fb = true := by
        simp only [Bool.or_eq_true, bne_iff_ne, ne_eq, not_or, Decidable.not_not] at h1
        exact h1.1.trans hfb
      subst hfb'
      split at h
      · cases h; exact hfb
      · split at h
        · cases h
        · split at h
          · cases h
          · split at h
            · simp [groupReturn] at h
            · cases h; exact hfb

theorem goFb_true {sc : Scen} {st : St} (hfb : st.fbStage = true) (evs : List Ev) :
    goFb sc st evs = true := by
  induction evs generalizing st with
  | nil => exact hfb
  | cons e es ih =>
    simp only [goFb]
    cases hs : stepEv sc st e with
    | inl s1 => exact ih (stepEv_fbStage hs hfb)
    | inr r => exact hfb

/-- generic form of `fallback_decision`: the last node of a group completes unsuccessfully. -/
theorem after_all_but_last (sc : Scen) (fb : Bool) (pre : List Ev) (l : Nat) (nl : Node)
    (hl : (nodes sc fb)[l]? = some nl)
    (hq : Quiet sc fb [l] pre)
    (hall : ∀ j, j < (nodes sc fb).length → j ≠ l → Ev.rel fb j ∈ pre) :
    ∃ st, after sc (initSt (nodes sc fb).length fb) pre = some st ∧ st.fbStage = fb ∧
      st.cancelled = false ∧ l ∈ st.pending ∧ st.pending.erase l = [] := by
  have hw0 := waiting_init sc fb (nodes sc fb).length [l]
    (fun j hj => by simp at hj; subst hj; exact getElem?_lt hl)
  obtain ⟨st, hst, hw, hp⟩ := waiting_run (by simp) hq hw0
  refine ⟨st, hst, hw.stage, hw.notCancelled, hw.keepPending l (by simp), ?_⟩
  apply List.eq_nil_iff_forall_not_mem.mpr
  intro x hx
  rw [hw.pendingNodup.mem_erase_iff] at hx
  obtain ⟨hxl, hxp⟩ := hx
  have := (hp x).mp hxp
  have hxlt : x < (nodes sc fb).length := by simpa [initSt] using this.1
  apply this.2
  exact ⟨(nodes sc fb)[x], hall x hxlt hxl, by simp [hxlt]⟩

/-! ### failing only when everything failed -/

/-- every node of a group either is still awaited or has completed (within `seen`) unsuccessfully. -/
structure FInv (sc : Scen) (seen : List Ev) (st : St) : Prop where
  prim : ∀ j m, sc.prim[j]? = some m →
    (st.fbStage = false ∧ j ∈ st.pending) ∨ (isOk sc m.out = false ∧ Ev.rel false j ∈ seen)
  fb : st.fbStage = true → ∀ j m, sc.fb[j]? = some m →
    j ∈ st.pending ∨ (isOk sc m.out = false ∧ Ev.rel true j ∈ seen)

/-- what a failing result says about the nodes. -/
def AllFailed (sc : Scen) (seen : List Ev) (fb : Bool) : Prop :=
  (∀ j m, sc.prim[j]? = some m → isOk sc m.out = false ∧ Ev.rel false j ∈ seen) ∧
  (fb = true → ∀ j m, sc.fb[j]? = some m → isOk sc m.out = false ∧ Ev.rel true j ∈ seen)

def failStage : Res → Option Bool
  | .errFrom fb _ _ => some fb
  | .nokFrom fb _ => some fb
  | _ => none

theorem finv_mono {sc : Scen} {seen : List Ev} {st : St} (e : Ev) (h : FInv sc seen st) :
    FInv sc (seen ++ [e]) st :=
  ⟨fun j m hm => (h.prim j m hm).imp id (fun ⟨a, b⟩ => ⟨a, List.mem_append_left _ b⟩),
   fun hf j m hm => (h.fb hf j m hm).imp id (fun ⟨a, b⟩ => ⟨a, List.mem_append_left _ b⟩)⟩

theorem afterPrimaries_inl {sc : Scen} {r : Res} {st' : St} (h : afterPrimaries sc r = .inl st') :
    st' = initSt sc.fb.length true := by
  unfold afterPrimaries at h
  split at h
  · split at h
    · simp only [Sum.inl.injEq] at h; exact h.symm
    · cases h
  · cases h

theorem afterPrimaries_inr {sc : Scen} {r r' : Res} (h : afterPrimaries sc r = .inr r') : r' = r := by
  unfold afterPrimaries at h
  split at h
  · split at h
    · cases h
    · simp only [Sum.inr.injEq] at h; exact h.symm
  · simp only [Sum.inr.injEq] at h; exact h.symm

theorem failStage_groupEnd {fb fb' : Bool} {l : Option (Nat × Outcome)}
    (h : failStage (groupEnd fb l) = some fb') : fb' = fb := by
  cases l with
  | none => simp [groupEnd, failStage] at h
  | some p =>
    obtain ⟨j, o⟩ := p
    cases o <;> simp [groupEnd, failStage] at h <;> exact h.symm

theorem stepEv_finv {sc : Scen} {seen : List Ev} {st : St} (hi : FInv sc seen st) (e : Ev) :
    (∀ st', stepEv sc st e = .inl st' → FInv sc (seen ++ [e]) st') ∧
    (∀ r fb, stepEv sc st e = .inr r → failStage r = some fb → AllFailed sc (seen ++ [e]) fb) := by
  have him := finv_mono e hi
  cases e with
  | cancel =>
    simp only [stepEv]
    split
    · exact ⟨fun st' h => (by cases h; exact him), fun r fb h => (by cases h)⟩
    · split
      · exact ⟨fun st' h => (by cases h), fun r fb h hf => (by cases h; cases hf)⟩
      · refine ⟨fun st' h => ?_, fun r fb h => (by cases h)⟩
        cases h
        exact ⟨him.prim, him.fb⟩
  | rel fbe i =>
    simp only [stepEv]
    split
    · exact ⟨fun st' h => (by cases h; exact him), fun r fb h => (by cases h)⟩
    · rename_i h1
      have h1' : fbe = st.fbStage ∧ i ∈ st.pending := by
        simp only [Bool.or_eq_true, bne_iff_ne, ne_eq, Bool.not_eq_eq_eq_not, Bool.not_true, not_or,
          Decidable.not_not] at h1
        exact ⟨h1.1, by simpa using h1.2⟩
      obtain ⟨hfe, _⟩ := h1'
      subst hfe
      cases hn : (nodes sc st.fbStage)[i]? with
      | none => exact ⟨fun st' h => (by cases h; exact him), fun r fb h => (by cases h)⟩
      | some n =>
        simp only
        split
        · exact ⟨fun st' h => (by cases h), fun r fb h hf => (by cases h; cases hf)⟩
        · split
          · exact ⟨fun st' h => (by cases h), fun r fb h hf => (by cases h; cases hf)⟩
          · rename_i hnok
            have hnok' : isOk sc n.out = false := by simpa using hnok
            have hseen : Ev.rel st.fbStage i ∈ seen ++ [Ev.rel st.fbStage i] := by simp
            -- facts about the group after node i's failure
            have hprim' : ∀ j m, sc.prim[j]? = some m →
                (st.fbStage = false ∧ j ∈ st.pending.erase i) ∨
                  (isOk sc m.out = false ∧ Ev.rel false j ∈ seen ++ [Ev.rel st.fbStage i]) := by
              intro j m hm
              rcases him.prim j m hm with ⟨hs, hp⟩ | h
              · by_cases hji : j = i
                · right
                  subst hji
                  simp only [nodes, hs, Bool.false_eq_true, if_false] at hn
                  rw [hn] at hm; cases hm
                  refine ⟨hnok', ?_⟩
                  rw [hs] at hseen; rw [hs]; exact hseen
                · exact Or.inl ⟨hs, (List.mem_erase_of_ne hji).mpr hp⟩
              · exact Or.inr h
            have hfb' : st.fbStage = true → ∀ j m, sc.fb[j]? = some m →
                j ∈ st.pending.erase i ∨
                  (isOk sc m.out = false ∧ Ev.rel true j ∈ seen ++ [Ev.rel st.fbStage i]) := by
              intro hs j m hm
              rcases him.fb hs j m hm with hp | h
              · by_cases hji : j = i
                · right
                  subst hji
                  simp only [nodes, hs, if_true] at hn
                  rw [hn] at hm; cases hm
                  refine ⟨hnok', ?_⟩
                  rw [hs] at hseen; rw [hs]; exact hseen
                · exact Or.inl ((List.mem_erase_of_ne hji).mpr hp)
              · exact Or.inr h
            split
            · -- the group is finished
              rename_i hemp
              have hemp' : st.pending.erase i = [] := by simpa using hemp
              have hallp : ∀ j m, sc.prim[j]? = some m →
                  isOk sc m.out = false ∧ Ev.rel false j ∈ seen ++ [Ev.rel st.fbStage i] := by
                intro j m hm
                rcases hprim' j m hm with ⟨_, hp⟩ | h
                · rw [hemp'] at hp; cases hp
                · exact h
              have hallf : st.fbStage = true → ∀ j m, sc.fb[j]? = some m →
                  isOk sc m.out = false ∧ Ev.rel true j ∈ seen ++ [Ev.rel st.fbStage i] := by
                intro hs j m hm
                rcases hfb' hs j m hm with hp | h
                · rw [hemp'] at hp; cases hp
                · exact h
              by_cases hs : st.fbStage = true
              · simp only [groupReturn, hs, if_true]
                refine ⟨fun st' h => (by cases h), fun r fb h hf => ?_⟩
                simp only [Sum.inr.injEq] at h
                subst h
                have := failStage_groupEnd hf
                subst this
                rw [hs] at hallp hallf
                exact ⟨hallp, fun _ => hallf rfl⟩
              · have hs' : st.fbStage = false := by simpa using hs
                simp only [groupReturn, hs', Bool.false_eq_true, if_false]
                rw [hs'] at hallp
                constructor
                · intro st' h
                  have := afterPrimaries_inl h
                  subst this
                  refine ⟨fun j m hm => Or.inr (hallp j m hm), fun _ j m hm => Or.inl ?_⟩
                  simp [initSt, getElem?_lt hm]
                · intro r fb h hf
                  have := afterPrimaries_inr h
                  subst this
                  have := failStage_groupEnd hf
                  subst this
                  exact ⟨hallp, fun h => (by cases h)⟩
            · refine ⟨fun st' h => ?_, fun r fb h => (by cases h)⟩
              cases h
              exact ⟨hprim', hfb'⟩

theorem go_fail {sc : Scen} {seen : List Ev} {st : St} (hi : FInv sc seen st) {evs : List Ev} {n : Nat}
    {r : Res} {k : Nat} {fb : Bool} (h : go sc st evs n = (r, k)) (hf : failStage r = some fb) :
    AllFailed sc (seen ++ evs) fb := by
  induction evs generalizing st seen n with
  | nil => simp [go] at h; rw [← h.1] at hf; cases hf
  | cons e es ih =>
    simp only [go] at h
    obtain ⟨h1, h2⟩ := stepEv_finv hi e
    cases hs : stepEv sc st e with
    | inl s1 =>
      rw [hs] at h
      have := ih (h1 s1 hs) h
      simpa [List.append_assoc] using this
    | inr r' =>
      rw [hs] at h
      simp only [Prod.mk.injEq] at h
      obtain ⟨hr, _⟩ := h
      subst hr
      obtain ⟨a, b⟩ := h2 r' fb hs hf
      refine ⟨fun j m hm => ?_, fun hfb j m hm => ?_⟩
      · have := a j m hm
        exact ⟨this.1, by
          have h3 := this.2
          simp only [List.mem_append, List.mem_cons, List.not_mem_nil, or_false] at h3 ⊢
          rcases h3 with h3 | h3
          · exact Or.inl h3
          · exact Or.inr (Or.inl h3)⟩
      · have := b hfb j m hm
        exact ⟨this.1, by
          have h3 := this.2
          simp only [List.mem_append, List.mem_cons, List.not_mem_nil, or_false] at h3 ⊢
          rcases h3 with h3 | h3
          · exact Or.inl h3
          · exact Or.inr (Or.inl h3)⟩

theorem finv_init (sc : Scen) : FInv sc [] (initSt sc.prim.length false) :=
  ⟨fun j m hm => Or.inl ⟨rfl, by simp [initSt, getElem?_lt hm]⟩, fun h => by cases h⟩

/-! ### exactly one node's answer -/

theorem groupEnd_not_ok (fb : Bool) (l : Option (Nat × Outcome)) (fb' : Bool) (i : Nat) :
    groupEnd fb l ≠ .okFrom fb' i := by
  cases l with
  | none => simp [groupEnd]
  | some p => obtain ⟨j, o⟩ := p; cases o <;> simp [groupEnd]

theorem stepEv_okFrom {sc : Scen} {st : St} {e : Ev} {fb : Bool} {i : Nat}
    (h : stepEv sc st e = .inr (.okFrom fb i)) :
    ∃ n, (nodes sc fb)[i]? = some n ∧ isOk sc n.out = true := by
  cases e with
  | cancel =>
    simp only [stepEv] at h
    split at h
    · cases h
    · split at h <;> cases h
  | rel fbe j =>
    simp only [stepEv] at h
    split at h
    · cases h
    · cases hn : (nodes sc fbe)[j]? with
      | none => rw [hn] at h; cases h
      | some n =>
        rw [hn] at h
        simp only at h
        split at h
        · cases h
        · split at h
          · rename_i hok
            simp only [Sum.inr.injEq, Res.okFrom.injEq] at h
            obtain ⟨h1, h2⟩ := h
            subst h1; subst h2
            exact ⟨n, hn, hok⟩
          · split at h
            · exfalso
              simp only [groupReturn] at h
              split at h
              · simp only [Sum.inr.injEq] at h
                exact groupEnd_not_ok _ _ _ _ h
              · unfold afterPrimaries at h
                split at h
                · split at h
                  · cases h
                  · simp only [Sum.inr.injEq] at h
                    rename_i heq _
                    rw [h] at heq; cases heq
                · simp only [Sum.inr.injEq] at h
                  exact groupEnd_not_ok _ _ _ _ h
            · cases h

theorem go_okFrom {sc : Scen} {st : St} {evs : List Ev} {n k : Nat} {fb : Bool} {i : Nat}
    (h : go sc st evs n = (.okFrom fb i, k)) :
    ∃ nd, (nodes sc fb)[i]? = some nd ∧ isOk sc nd.out = true := by
  induction evs generalizing st n with
  | nil => simp [go] at h
  | cons e es ih =>
    simp only [go] at h
    cases hs : stepEv sc st e with
    | inl s1 => rw [hs] at h; exact ih h
    | inr r =>
      rw [hs] at h
      simp only [Prod.mk.injEq] at h
      rw [h.1] at hs
      exact stepEv_okFrom hs

/-! ### submit -/

theorem isOk_sf_irrelevant (sc : Scen) (b : Bool) (o : Outcome) (h : o ≠ .nok) :
    isOk { sc with sf := b } o = isOk sc o := by
  cases o <;> simp [isOk] at h ⊢

theorem stepEv_sf_irrelevant (sc : Scen) (b : Bool)
    (hno : ∀ n, n ∈ sc.prim ++ sc.fb → n.out ≠ .nok) (st : St) (e : Ev) :
    stepEv { sc with sf := b } st e = stepEv sc st e := by
  cases e with
  | cancel => simp [stepEv, nodes]
  | rel fb i =>
    simp only [stepEv, nodes]
    split
    · rfl
    · cases hn : (if fb = true then sc.fb else sc.prim)[i]? with
      | none => rfl
      | some n =>
        have hmem : n ∈ sc.prim ++ sc.fb := by
          have := List.mem_of_getElem? hn
          split at this
          · exact List.mem_append_right _ this
          · exact List.mem_append_left _ this
        simp only [isOk_sf_irrelevant sc b n.out (hno n hmem)]
        rfl

theorem go_sf_irrelevant (sc : Scen) (b : Bool)
    (hno : ∀ n, n ∈ sc.prim ++ sc.fb → n.out ≠ .nok) (st : St) (evs : List Ev) (n : Nat) :
    go { sc with sf := b } st evs n = go sc st evs n := by
  induction evs generalizing st n with
  | nil => rfl
  | cons e es ih =>
    simp only [go, stepEv_sf_irrelevant sc b hno]
    cases stepEv sc st e with
    | inl s1 => exact ih s1 (n + 1)
    | inr r => rfl

end CharonV.Provide
