/-
C11 — algebra of kyber's `share.RecoverPubPoly` as modelled in `Model/PedersenGlue.lean` (helper
lemmas for `Props/C11PedersenAlg.lean`).

The list-of-representatives polynomial operations (`polyAdd`, `polyScale`, `polyMulLin`) compute the
ring operations of `(ZMod r)[X]` under `Fr.polyOf`; `lagrangeBasis` is Mathlib's `Lagrange.basis` at
the nodes `vOf j = ↑(xOf j)`; the accumulation loop of `recoverPubPoly` is `Lagrange.interpolate`;
`polyOf` is injective on canonical coefficient lists of equal length. Hence any `t` distinct shares
of a polynomial with `t` canonical coefficients give back exactly its coefficient list.
-/
import CharonV.Model.PedersenGlue
import CharonV.Proofs.TblsFr
import CharonV.Proofs.FrPrime
import Mathlib.LinearAlgebra.Lagrange

namespace CharonV.PedersenGlue

open CharonV.Fr Polynomial

theorem polyOf_cons (c : ℕ) (cs : List ℕ) : polyOf (c :: cs) = C (c : ZMod r) + X * polyOf cs := by
  rw [polyOf]

theorem polyOf_polyAdd : ∀ (a b : List ℕ), a.length = b.length →
    polyOf (polyAdd a b) = polyOf a + polyOf b
  | [], [], _ => by simp [polyAdd, polyOf]
  | [], _ :: _, h => by simp at h
  | _ :: _, [], h => by simp at h
  | x :: a, y :: b, h => by
    have ih := polyOf_polyAdd a b (by simpa using h)
    unfold polyAdd at ih ⊢
    rw [List.zipWith_cons_cons, polyOf_cons, polyOf_cons, polyOf_cons, ih, cast_add, C_add]
    ring

theorem polyOf_polyScale (c : ℕ) : ∀ p : List ℕ, polyOf (polyScale c p) = C (c : ZMod r) * polyOf p
  | [] => by simp [polyScale, polyOf]
  | a :: p => by
    have ih := polyOf_polyScale c p
    unfold polyScale at ih ⊢
    rw [List.map_cons, polyOf_cons, polyOf_cons, ih, cast_mul, C_mul]
    ring

theorem polyOf_append_zero : ∀ p : List ℕ, polyOf (p ++ [0]) = polyOf p
  | [] => by simp [polyOf]
  | a :: p => by rw [List.cons_append, polyOf_cons, polyOf_cons, polyOf_append_zero p]

theorem length_polyAdd (a b : List ℕ) : (polyAdd a b).length = min a.length b.length := by
  simp [polyAdd]

theorem length_polyScale (c : ℕ) (p : List ℕ) : (polyScale c p).length = p.length := by
  simp [polyScale]

theorem length_polyMulLin (p : List ℕ) (x : ℕ) : (polyMulLin p x).length = p.length + 1 := by
  simp [polyMulLin, polyAdd, polyScale]

theorem polyOf_polyMulLin (p : List ℕ) (x : ℕ) :
    polyOf (polyMulLin p x) = polyOf p * (X - C (x : ZMod r)) := by
  unfold polyMulLin
  rw [polyOf_polyAdd _ _ (by simp [polyScale]), polyOf_append_zero, polyOf_polyScale, polyOf_cons,
    cast_sub]
  simp only [Nat.cast_zero, zero_sub, C_neg, C_0]
  ring

theorem polyAdd_lt : ∀ (a b : List ℕ), ∀ c ∈ polyAdd a b, c < r
  | [], _, c, hc => by simp [polyAdd] at hc
  | _ :: _, [], c, hc => by simp [polyAdd] at hc
  | x :: a, y :: b, c, hc => by
    have ih := polyAdd_lt a b c
    unfold polyAdd at ih hc
    rw [List.zipWith_cons_cons, List.mem_cons] at hc
    rcases hc with rfl | hc
    · exact Nat.mod_lt _ r_pos
    · exact ih hc

theorem polyScale_lt (k : ℕ) (p : List ℕ) : ∀ c ∈ polyScale k p, c < r := by
  intro c hc
  unfold polyScale at hc
  obtain ⟨x, _, rfl⟩ := List.mem_map.1 hc
  exact Nat.mod_lt _ r_pos


/-- node of share index `j` in `ZMod r`. -/
noncomputable def vOf (j : ℕ) : ZMod r := ((xOf j : ℕ) : ZMod r)

theorem polyOf_one : polyOf [1] = 1 := by simp [polyOf]

theorem basisNum_fold (i : ℕ) (idxs : List ℕ) : ∀ init : List ℕ,
    polyOf (idxs.foldl (fun b m => if m = i then b else polyMulLin b (xOf m)) init) =
      polyOf init * ((idxs.filter (· ≠ i)).map fun m => (X - C (vOf m) : (ZMod r)[X])).prod ∧
    (idxs.foldl (fun b m => if m = i then b else polyMulLin b (xOf m)) init).length =
      init.length + (idxs.filter (· ≠ i)).length := by
  induction idxs with
  | nil => intro init; simp
  | cons k rest ih =>
    intro init
    rw [List.foldl_cons]
    by_cases hk : k = i
    · simp only [hk, if_true]
      have := ih init
      simpa using this
    · simp only [hk, if_false]
      obtain ⟨h1, h2⟩ := ih (polyMulLin init (xOf k))
      rw [h1, h2, List.filter_cons_of_pos (by simpa using hk), List.map_cons, List.prod_cons,
        polyOf_polyMulLin, length_polyMulLin, List.length_cons]
      refine ⟨?_, by omega⟩
      unfold vOf
      ring

theorem filter_ne_length : ∀ (idxs : List ℕ), idxs.Nodup → ∀ i ∈ idxs,
    (idxs.filter (· ≠ i)).length + 1 = idxs.length
  | [], _, i, hi => by simp at hi
  | k :: rest, hnd, i, hi => by
    rw [List.nodup_cons] at hnd
    by_cases hk : k = i
    · subst hk
      have h : ∀ a ∈ rest, ¬ a = k := fun a ha h => hnd.1 (h ▸ ha)
      simpa using h
    · have hi' : i ∈ rest := by
        rcases List.mem_cons.1 hi with h | h
        · exact absurd h.symm hk
        · exact h
      have := filter_ne_length rest hnd.2 i hi'
      rw [List.filter_cons_of_pos (by simpa using hk)]
      simp only [List.length_cons]
      omega

theorem list_prod_erase' {M : Type} [CommMonoid M] (G : ℕ → M) (ids : List ℕ) (hnd : ids.Nodup) (j : ℕ) :
    ((ids.filter (· ≠ j)).map G).prod = ∏ k ∈ ids.toFinset.erase j, G k := by
  have hnd' : (ids.filter (· ≠ j)).Nodup := hnd.filter _
  rw [← List.prod_toFinset G hnd']
  congr 1
  ext k
  simp [and_comm]

section prime
variable [Fact (Nat.Prime r)]

theorem polyOf_lagrangeBasis (idxs : List ℕ) (hnd : idxs.Nodup) (i : ℕ) :
    polyOf (lagrangeBasis idxs i) = Lagrange.basis idxs.toFinset vOf i := by
  unfold lagrangeBasis basisNum basisDen
  rw [polyOf_polyScale, (basisNum_fold i idxs [1]).1, polyOf_one, one_mul,
    cast_foldl_prod i (fun m => inv (sub (xOf i) (xOf m))) (fun m => (vOf i - vOf m)⁻¹)
      (fun m => by rw [cast_inv, cast_sub]; rfl),
    list_prod_erase _ idxs hnd, list_prod_erase' _ idxs hnd, Nat.cast_one, one_mul, map_prod,
    ← Finset.prod_mul_distrib]
  rfl

omit [Fact (Nat.Prime r)] in
theorem length_lagrangeBasis (idxs : List ℕ) (hnd : idxs.Nodup) (i : ℕ) (hi : i ∈ idxs) :
    (lagrangeBasis idxs i).length = idxs.length := by
  unfold lagrangeBasis basisNum
  rw [length_polyScale, (basisNum_fold i idxs [1]).2]
  have := filter_ne_length idxs hnd i hi
  simp only [List.length_cons, List.length_nil]
  omega


omit [Fact (Nat.Prime r)] in
theorem polyOf_inj : ∀ (a b : List ℕ), a.length = b.length → (∀ c ∈ a, c < r) → (∀ c ∈ b, c < r) →
    polyOf a = polyOf b → a = b
  | [], [], _, _, _, _ => rfl
  | [], _ :: _, h, _, _, _ => by simp at h
  | _ :: _, [], h, _, _, _ => by simp at h
  | x :: a, y :: b, h, ha, hb, he => by
    rw [polyOf_cons, polyOf_cons] at he
    have h0 : (x : ZMod r) = y := by
      have := congrArg (fun p => coeff p 0) he
      simpa using this
    have hxy : x = y := by
      rw [ZMod.natCast_eq_natCast_iff'] at h0
      rw [Nat.mod_eq_of_lt (ha x (by simp)), Nat.mod_eq_of_lt (hb y (by simp))] at h0
      exact h0
    have hrest : polyOf a = polyOf b := by
      ext n
      have := congrArg (fun p => coeff p (n + 1)) he
      simpa [coeff_C_succ] using this
    rw [hxy, polyOf_inj a b (by simpa using h) (fun c hc => ha c (List.mem_cons_of_mem _ hc))
      (fun c hc => hb c (List.mem_cons_of_mem _ hc)) hrest]

omit [Fact (Nat.Prime r)] in
theorem vOf_injOn (idxs : List ℕ) (h : ∀ i ∈ idxs, i + 1 < r) :
    Set.InjOn vOf (idxs.toFinset : Set ℕ) := by
  intro i hi j hj hij
  have hi' := h i (by simpa using hi)
  have hj' := h j (by simpa using hj)
  unfold vOf xOf norm at hij
  rw [ZMod.natCast_eq_natCast_iff', Nat.mod_mod, Nat.mod_mod, Nat.mod_eq_of_lt hi',
    Nat.mod_eq_of_lt hj'] at hij
  omega

omit [Fact (Nat.Prime r)] in
theorem fold_some (F : ℕ × ℕ → List ℕ) (n : ℕ) : ∀ (l : List (ℕ × ℕ)), (∀ p ∈ l, (F p).length = n) →
    ∀ a : List ℕ, a.length = n → (∀ c ∈ a, c < r) →
    ∃ a', l.foldl (fun acc p => match acc with
        | none => some (F p)
        | some a => some (polyAdd a (F p))) (some a) = some a' ∧ a'.length = n ∧
      (∀ c ∈ a', c < r) ∧ polyOf a' = polyOf a + (l.map fun p => polyOf (F p)).sum := by
  intro l
  induction l with
  | nil => intro _ a ha hlt; exact ⟨a, rfl, ha, hlt, by simp⟩
  | cons p rest ih =>
    intro hF a ha _
    have hp := hF p List.mem_cons_self
    obtain ⟨a', h1, h2, h3, h4⟩ := ih (fun q hq => hF q (List.mem_cons_of_mem _ hq))
      (polyAdd a (F p)) (by rw [length_polyAdd, ha, hp, min_self]) (polyAdd_lt _ _)
    refine ⟨a', ?_, h2, h3, ?_⟩
    · rw [List.foldl_cons]; exact h1
    · rw [h4, polyOf_polyAdd _ _ (by rw [ha, hp]), List.map_cons, List.sum_cons, add_assoc]

/-- the accumulation loop computes Mathlib's Lagrange interpolant. -/
theorem recoverPubPoly_interpolate (idxs : List ℕ) (hnd : idxs.Nodup) (hne : idxs ≠ []) (y : ℕ → ℕ) :
    ∃ a, recoverPubPoly (idxs.map fun i => (i, y i)) = some a ∧ a.length = idxs.length ∧
      (∀ c ∈ a, c < r) ∧
      polyOf a = Lagrange.interpolate idxs.toFinset vOf (fun i => ((y i : ℕ) : ZMod r)) := by
  have hmap : (idxs.map fun i => (i, y i)).map (·.1) = idxs := by simp [Function.comp_def]
  unfold recoverPubPoly
  simp only [hmap]
  have hsum : Lagrange.interpolate idxs.toFinset vOf (fun i => ((y i : ℕ) : ZMod r)) =
      (idxs.map fun i => polyOf (polyScale (y i) (lagrangeBasis idxs i))).sum := by
    rw [Lagrange.interpolate_apply, ← List.sum_toFinset _ hnd]
    refine congrArg List.sum (List.map_congr_left fun i _ => ?_)
    rw [polyOf_polyScale, polyOf_lagrangeBasis idxs hnd]
  rw [hsum]
  have key : ∀ l : List ℕ, l ≠ [] → (∀ i ∈ l, i ∈ idxs) →
      ∃ a, (l.map fun i => (i, y i)).foldl (fun acc p => match acc with
          | none => some (polyScale p.2 (lagrangeBasis idxs p.1))
          | some a => some (polyAdd a (polyScale p.2 (lagrangeBasis idxs p.1)))) none = some a ∧
        a.length = idxs.length ∧ (∀ c ∈ a, c < r) ∧
        polyOf a = (l.map fun i => polyOf (polyScale (y i) (lagrangeBasis idxs i))).sum := by
    intro l hl hsub
    cases l with
    | nil => exact absurd rfl hl
    | cons i0 rest =>
      obtain ⟨a', h1, h2, h3, h4⟩ := fold_some (fun p => polyScale p.2 (lagrangeBasis idxs p.1))
        idxs.length (rest.map fun i => (i, y i))
        (by
          intro p hp
          obtain ⟨i, hi, rfl⟩ := List.mem_map.1 hp
          simp only [length_polyScale]
          exact length_lagrangeBasis idxs hnd i (hsub i (List.mem_cons_of_mem _ hi)))
        (polyScale (y i0) (lagrangeBasis idxs i0))
        (by rw [length_polyScale]; exact length_lagrangeBasis idxs hnd i0 (hsub i0 List.mem_cons_self))
        (polyScale_lt _ _)
      refine ⟨a', ?_, h2, h3, ?_⟩
      · rw [List.map_cons, List.foldl_cons]; exact h1
      · rw [h4, List.map_cons, List.sum_cons, List.map_map]; rfl
  exact key idxs hne (fun _ h => h)

/-- T1, with primality of `r` as a type-class hypothesis. -/
theorem recoverPubPoly_of_evaluations_fact (cs idxs : List ℕ) (hcs : ∀ c ∈ cs, c < r) (hne : cs ≠ [])
    (hnd : idxs.Nodup) (hidx : ∀ i ∈ idxs, i + 1 < r) (hlen : idxs.length = cs.length) :
    recoverPubPoly (idxs.map fun i => (i, evalPoly cs (xOf i))) = some cs := by
  have hne' : idxs ≠ [] := by
    intro h; rw [h] at hlen; exact hne (List.length_eq_zero_iff.1 hlen.symm)
  obtain ⟨a, h1, h2, h3, h4⟩ := recoverPubPoly_interpolate idxs hnd hne' (fun i => evalPoly cs (xOf i))
  rw [h1]
  congr 1
  apply polyOf_inj a cs (h2.trans hlen) h3 hcs
  rw [h4]
  symm
  apply Lagrange.eq_interpolate_of_eval_eq _ (vOf_injOn idxs hidx)
  · rw [List.toFinset_card_of_nodup hnd, hlen]; exact polyOf_degree_lt cs
  · intro i _
    rw [cast_evalPoly]; rfl

end prime

/-! ## the glue around `RecoverPubPoly`: unmarshalling, `xyCommit`, map order -/


theorem mapM_option_map {α β : Type} (f : α → Option β) (g : α → β) : ∀ l : List α,
    (∀ a ∈ l, f a = some (g a)) → l.mapM f = some (l.map g)
  | [], _ => by simp
  | a :: l, h => by
    rw [List.mapM_cons, h a List.mem_cons_self,
      mapM_option_map f g l (fun b hb => h b (List.mem_cons_of_mem _ hb))]
    rfl

theorem selectShares_take (t : ℕ) : ∀ (S : List (Int × ℕ)) (acc : List (ℕ × ℕ)), (∀ e ∈ S, 0 ≤ e.1) →
    acc.length < t → t ≤ acc.length + S.length →
    selectShares (t : Int) S acc = acc ++ (S.take (t - acc.length)).map (fun e => (e.1.toNat, e.2))
  | [], acc, _, h1, h2 => by simp at h2; omega
  | (i, y) :: S, acc, hpos, h1, h2 => by
    have hi : ¬ i < 0 := by have := hpos (i, y) List.mem_cons_self; simpa using this
    have hlen : (acc ++ [(i.toNat, y)]).length = acc.length + 1 := by simp
    rw [selectShares]
    simp only [hi, if_false]
    by_cases hc : ((acc ++ [(i.toNat, y)]).length : Int) = t
    · simp only [hc, if_true]
      have : t - acc.length = 1 := by rw [hlen] at hc; omega
      rw [this]; simp
    · simp only [hc, if_false]
      have hne : acc.length + 1 ≠ t := by intro h; apply hc; rw [hlen]; exact_mod_cast h
      rw [selectShares_take t S _ (fun e he => hpos e (List.mem_cons_of_mem _ he)) (by omega)
        (by simp at h2 ⊢; omega)]
      obtain ⟨k, hk⟩ : ∃ k, t - acc.length = k + 1 := ⟨t - acc.length - 1, by omega⟩
      rw [hlen, hk, List.take_succ_cons, List.map_cons, show t - (acc.length + 1) = k by omega]
      simp

theorem sortByIndex_perm {β : Type} (m : List (Int × β)) : (sortByIndex m).Perm m :=
  List.mergeSort_perm _ _

/-- the selection of `xyCommit` on well-formed shares of `y`. -/
theorem select_wellformed (y : ℕ → ℕ) (t : ℕ) (pts : List (Int × ℕ)) (hnd : (pts.map (·.1)).Nodup)
    (hv : ∀ e ∈ pts, 0 ≤ e.1 ∧ e.1.toNat + 1 < r ∧ e.2 = y e.1.toNat) (ht : 1 ≤ t)
    (htl : t ≤ pts.length) :
    ∃ idxs : List ℕ, idxs.Nodup ∧ (∀ i ∈ idxs, i + 1 < r) ∧ idxs.length = t ∧
      selectShares (t : Int) (sortByIndex pts) [] = idxs.map fun i => (i, y i) := by
  have hperm := sortByIndex_perm pts
  generalize sortByIndex pts = S at hperm
  have hvS : ∀ e ∈ S, 0 ≤ e.1 ∧ e.1.toNat + 1 < r ∧ e.2 = y e.1.toNat :=
    fun e he => hv e (hperm.mem_iff.1 he)
  have hndS : (S.map (·.1)).Nodup := (hperm.map _).nodup_iff.2 hnd
  have hlS : t ≤ S.length := by rw [hperm.length_eq]; exact htl
  refine ⟨((S.take t).map (·.1)).map Int.toNat, ?_, ?_, ?_, ?_⟩
  · refine List.Nodup.map_on ?_ ((List.take_sublist t S).map _ |>.nodup hndS)
    intro a ha b hb hab
    obtain ⟨ea, hea, rfl⟩ := List.mem_map.1 ha
    obtain ⟨eb, heb, rfl⟩ := List.mem_map.1 hb
    have h1 := (hvS ea (List.mem_of_mem_take hea)).1
    have h2 := (hvS eb (List.mem_of_mem_take heb)).1
    omega
  · intro i hi
    rw [List.map_map] at hi
    obtain ⟨e, he, rfl⟩ := List.mem_map.1 hi
    exact (hvS e (List.mem_of_mem_take he)).2.1
  · simp [List.length_take, hlS]
  · rw [selectShares_take t S [] (fun e he => (hvS e he).1) (by simp; omega) (by simpa using hlS)]
    simp only [List.nil_append, List.length_nil, Nat.sub_zero, List.map_map]
    refine List.map_congr_left fun e he => ?_
    simp [(hvS e (List.mem_of_mem_take he)).2.2]

theorem mapM_option_none {α β : Type} (f : α → Option β) : ∀ l : List α,
    (∃ a ∈ l, f a = none) → l.mapM f = none
  | [], h => by simp at h
  | a :: l, h => by
    rw [List.mapM_cons]
    cases hfa : f a with
    | none => rfl
    | some b =>
      have : ∃ a ∈ l, f a = none := by
        obtain ⟨x, hx, hfx⟩ := h
        rcases List.mem_cons.1 hx with rfl | hx
        · rw [hfa] at hfx; cases hfx
        · exact ⟨x, hx, hfx⟩
      rw [mapM_option_none f l this]; rfl

/-- T5: a single value that does not unmarshal fails the whole restoration. -/
theorem restoreCommits_junk (m : List (Int × PB)) (threshold : Int) (expected : Option PB)
    (h : ∃ e ∈ m, e.2.point? = none) :
    restoreCommitsFromPubShares m threshold expected = .error .unmarshalPubShare := by
  unfold restoreCommitsFromPubShares
  rw [mapM_option_none _ m (by
    obtain ⟨e, he, hn⟩ := h
    exact ⟨e, he, by rw [hn]; rfl⟩)]

theorem sortByIndex_pairwise {β : Type} (m : List (Int × β)) :
    (sortByIndex m).Pairwise (fun a b => a.1 ≤ b.1) := by
  have := List.pairwise_mergeSort (le := fun (a b : Int × β) => decide (a.1 ≤ b.1))
    (by intro a b c; simp only [decide_eq_true_eq]; omega)
    (by intro a b; simp only [Bool.or_eq_true, decide_eq_true_eq]; omega) m
  simpa [sortByIndex] using this

theorem sortByIndex_eq_of_perm {β : Type} {m m' : List (Int × β)} (hnd : (m.map (·.1)).Nodup)
    (h : m.Perm m') : sortByIndex m = sortByIndex m' := by
  apply List.Perm.eq_of_pairwise (le := fun a b : Int × β => a.1 ≤ b.1) _
    (sortByIndex_pairwise m) (sortByIndex_pairwise m')
  · exact (sortByIndex_perm m).trans (h.trans (sortByIndex_perm m').symm)
  · intro a b ha hb h1 h2
    have ha' : a ∈ m := (sortByIndex_perm m).mem_iff.1 ha
    have hb' : b ∈ m := h.mem_iff.2 ((sortByIndex_perm m').mem_iff.1 hb)
    exact List.inj_on_of_nodup_map hnd ha' hb' (by omega)

/-- T4: the result does not depend on the iteration order of the Go map. -/
theorem restoreCommits_perm {m m' : List (Int × PB)} (hnd : (m.map (·.1)).Nodup) (h : m.Perm m')
    (threshold : Int) (expected : Option PB) :
    restoreCommitsFromPubShares m threshold expected =
      restoreCommitsFromPubShares m' threshold expected := by
  by_cases hj : ∃ e ∈ m, e.2.point? = none
  · rw [restoreCommits_junk m threshold expected hj, restoreCommits_junk m' threshold expected
      (by obtain ⟨e, he, hn⟩ := hj; exact ⟨e, h.mem_iff.1 he, hn⟩)]
  · have hall : ∀ l : List (Int × PB), (∀ e ∈ l, e ∈ m) →
        l.mapM (fun e => e.2.point?.map fun s => (e.1, s)) =
          some (l.map fun e => (e.1, e.2.point?.getD 0)) := by
      intro l hl
      apply mapM_option_map
      intro e he
      cases hp : e.2.point? with
      | none => exact absurd ⟨e, hl e he, hp⟩ hj
      | some s => rfl
    unfold restoreCommitsFromPubShares
    rw [hall m (fun _ h => h), hall m' (fun e he => h.mem_iff.2 he)]
    simp only []
    rw [sortByIndex_eq_of_perm (by simpa [List.map_map, Function.comp_def] using hnd)
      (h.map fun e => (e.1, e.2.point?.getD 0))]

section prime2
variable [Fact (Nat.Prime r)]

/-- T2 in one statement (primality as a type-class hypothesis). -/
theorem restoreCommits_wellformed_fact (m : List (Int × PB)) (c0 : ℕ) (rest : List ℕ)
    (hcs : ∀ c ∈ c0 :: rest, c < r) (hnd : (m.map (·.1)).Nodup)
    (hv : ∀ e ∈ m, 0 ≤ e.1 ∧ e.1.toNat + 1 < r ∧ e.2 = PB.pt (evalPoly (c0 :: rest) (xOf e.1.toNat)))
    (hlen : (c0 :: rest).length ≤ m.length) (expected : Option PB) :
    restoreCommitsFromPubShares m ((c0 :: rest).length : ℕ) expected =
      match expected with
      | none => .ok (c0 :: rest)
      | some e => if PB.pt c0 = e then .ok (c0 :: rest) else .error .groupKeyMismatch := by
  have hmap := mapM_option_map (fun e : Int × PB => e.2.point?.map fun s => (e.1, s))
    (fun e => (e.1, evalPoly (c0 :: rest) (xOf e.1.toNat))) m
    (by intro e he; rw [(hv e he).2.2]; rfl)
  obtain ⟨idxs, h1, h2, h3, h4⟩ := select_wellformed (fun i => evalPoly (c0 :: rest) (xOf i))
    (c0 :: rest).length (m.map fun e => (e.1, evalPoly (c0 :: rest) (xOf e.1.toNat)))
    (by simpa [List.map_map, Function.comp_def] using hnd)
    (by
      intro e he
      obtain ⟨e', he', rfl⟩ := List.mem_map.1 he
      exact ⟨(hv e' he').1, (hv e' he').2.1, rfl⟩)
    (by simp) (by simpa using hlen)
  have hrec := recoverPubPoly_of_evaluations_fact (c0 :: rest) idxs hcs (by simp) h1 h2 h3
  unfold restoreCommitsFromPubShares
  rw [hmap]
  simp only [h4, hrec, List.length_map, h3, lt_self_iff_false, if_false]
  cases expected <;> rfl


/-- T3 in one statement (primality as a type-class hypothesis). -/
theorem restoreDistKeyShare_fact (s : Share) (idxs : List ℕ) (c0 : ℕ) (rest : List ℕ) (nodeIdx : ℕ)
    (hcs : ∀ c ∈ c0 :: rest, c < r) (hnd : idxs.Nodup) (hidx : ∀ i ∈ idxs, i + 1 < r)
    (hps : s.publicShares = idxs.map fun i => (i + 1, PB.pt (evalPoly (c0 :: rest) (xOf i))))
    (hlen : (c0 :: rest).length ≤ idxs.length) (hsec : s.secret < r) :
    restoreDistKeyShare s ((c0 :: rest).length : ℕ) nodeIdx =
      if PB.pt c0 = s.pubKey then .ok ⟨nodeIdx, s.secret, c0 :: rest⟩
      else .error .restoredKeyMismatch := by
  have hm : (s.publicShares.map fun e => (((e.1 : ℕ) : Int) - 1, e.2)) =
      idxs.map fun (i : ℕ) => ((i : Int), PB.pt (evalPoly (c0 :: rest) (xOf i))) := by
    rw [hps, List.map_map]
    refine List.map_congr_left fun i _ => ?_
    simp
  have hT2 := restoreCommits_wellformed_fact
    (idxs.map fun (i : ℕ) => ((i : Int), PB.pt (evalPoly (c0 :: rest) (xOf i)))) c0 rest hcs
    (by
      rw [List.map_map]
      exact hnd.map (f := fun i : ℕ => (i : Int)) (fun a b h => by simpa using h))
    (by
      intro e he
      obtain ⟨i, hi, rfl⟩ := List.mem_map.1 he
      exact ⟨by simp, by simpa using hidx i hi, by simp⟩)
    (by simpa using hlen) none
  unfold restoreDistKeyShare
  simp only [hm, hT2, ge_iff_le, not_le.2 hsec, if_false, distKeyShareToValidatorPubKey]

end prime2

end CharonV.PedersenGlue
