/-
Invariants and helper lemmas for the parsigdb model (`CharonV.Model.ParSigDB`).
Property theorems live in `CharonV.Props.C07`.
-/
import CharonV.Model.ParSigDB

namespace CharonV.ParSigDB

/-! ### function update -/

@[simp] theorem upd_same {α β : Type} [DecidableEq α] (f : α → β) (a : α) (b : β) : upd f a b a = b := by
  simp [upd]

@[simp] theorem upd_ne {α β : Type} [DecidableEq α] (f : α → β) {a x : α} (b : β) (h : x ≠ a) :
    upd f a b x = f x := by
  simp [upd, h]

theorem upd_apply {α β : Type} [DecidableEq α] (f : α → β) (a x : α) (b : β) :
    upd f a b x = if x = a then b else f x := rfl

/-! ### `store` -/

/-- the state after the append of `store` (before the exempt / keysByDuty bookkeeping). -/
def appendEntry (s : State) (k : Key) (v : PSig) : State :=
  { s with entries := upd s.entries k (s.entries k ++ [v]), acc := upd s.acc k (s.acc k ++ [v]) }

/-- the state after a successful `store`. -/
def storeNew (cfg : Cfg) (s : State) (k : Key) (v : PSig) (exempt : Bool) : State :=
  if exempt then trackExempt cfg (appendEntry s k v) k v.share
  else if (s.entries k).isEmpty then
    { appendEntry s k v with keysByDuty := upd s.keysByDuty k.duty (s.keysByDuty k.duty ++ [k]) }
  else appendEntry s k v

theorem store_cases (cfg : Cfg) (s : State) (k : Key) (v : PSig) (ex : Bool) :
    (v ∈ s.entries k ∧ store cfg s k v ex = (s, .dup)) ∨
    ((∃ x ∈ s.entries k, x.share = v.share ∧ x ≠ v) ∧ store cfg s k v ex = (s, .mismatch)) ∨
    ((∀ x ∈ s.entries k, x.share ≠ v.share) ∧
      store cfg s k v ex = (storeNew cfg s k v ex, .stored ((storeNew cfg s k v ex).entries k))) := by
  unfold store
  cases hf : (s.entries k).find? (fun x => x.share == v.share) with
  | some x =>
    have hm := List.mem_of_find?_eq_some hf
    have hs : x.share = v.share := by simpa using List.find?_some hf
    by_cases hx : x = v
    · left; subst hx; simp [hm]
    · right; left; simp only [hx, if_false, and_true]; exact ⟨x, hm, hs, hx⟩
  | none =>
    right; right
    refine ⟨?_, ?_⟩
    · intro x hx; have := (List.find?_eq_none.mp hf) x hx; simpa using this
    · simp only [storeNew, appendEntry]


theorem trackExempt_cases (cfg : Cfg) (s : State) (k : Key) (share : Nat) :
    (trackExempt cfg s k share =
        { s with exempt := upd s.exempt ⟨share, k.pk, k.duty.typ⟩ (s.exempt ⟨share, k.pk, k.duty.typ⟩ ++ [k]) }
      ∧ (s.exempt ⟨share, k.pk, k.duty.typ⟩).length < cfg.cap) ∨
    (∃ k0 rest, s.exempt ⟨share, k.pk, k.duty.typ⟩ ++ [k] = k0 :: rest ∧
      cfg.cap ≤ (s.exempt ⟨share, k.pk, k.duty.typ⟩).length ∧
      trackExempt cfg s k share =
        { s with entries := upd s.entries k0 ((s.entries k0).filter (fun x => x.share != share)),
                 exempt := upd s.exempt ⟨share, k.pk, k.duty.typ⟩ rest,
                 evictions := s.evictions + 1 }) := by
  unfold trackExempt
  by_cases h : cfg.cap < (s.exempt ⟨share, k.pk, k.duty.typ⟩ ++ [k]).length
  · right
    simp only [h, if_true]
    cases hl : s.exempt ⟨share, k.pk, k.duty.typ⟩ ++ [k] with
    | nil => simp at hl
    | cons k0 rest =>
      refine ⟨k0, rest, rfl, ?_, rfl⟩
      simp at h; omega
  · left
    simp only [h, if_false, true_and]
    simp at h; omega

/-- everything `storeNew` can do, field by field. -/
theorem storeNew_frame (cfg : Cfg) (s : State) (k : Key) (v : PSig) (ex : Bool) :
    (storeNew cfg s k v ex).calls = s.calls ∧ (storeNew cfg s k v ex).pend = s.pend ∧
    (storeNew cfg s k v ex).trace = s.trace ∧ (storeNew cfg s k v ex).trimmed = s.trimmed ∧
    (storeNew cfg s k v ex).acc = upd s.acc k (s.acc k ++ [v]) := by
  unfold storeNew
  split
  · rcases trackExempt_cases cfg (appendEntry s k v) k v.share with ⟨h, _⟩ | ⟨k0, rest, _, _, h⟩ <;>
      rw [h] <;> simp [appendEntry]
  · split <;> simp [appendEntry]

theorem storeNew_entries (cfg : Cfg) (s : State) (k : Key) (v : PSig) (ex : Bool) :
    ((storeNew cfg s k v ex).entries = upd s.entries k (s.entries k ++ [v]) ∧
      (storeNew cfg s k v ex).evictions = s.evictions) ∨
    (ex = true ∧ (storeNew cfg s k v ex).evictions = s.evictions + 1 ∧
      ∃ k0, k0 ∈ s.exempt ⟨v.share, k.pk, k.duty.typ⟩ ++ [k] ∧
        (storeNew cfg s k v ex).entries =
          upd (upd s.entries k (s.entries k ++ [v])) k0
            ((upd s.entries k (s.entries k ++ [v]) k0).filter (fun x => x.share != v.share))) := by
  unfold storeNew
  split
  · rename_i hex
    rcases trackExempt_cases cfg (appendEntry s k v) k v.share with ⟨h, _⟩ | ⟨k0, rest, hl, _, h⟩
    · left; rw [h]; simp [appendEntry]
    · right
      refine ⟨hex, by rw [h]; simp [appendEntry], k0, ?_, by rw [h]; simp [appendEntry]⟩
      have : (appendEntry s k v).exempt = s.exempt := rfl
      rw [this] at hl; rw [hl]; simp
  · left; split <;> simp [appendEntry]

theorem storeNew_exempt_mem (cfg : Cfg) (s : State) (k : Key) (v : PSig) (ex : Bool) (ek : ExKey) (k' : Key)
    (h : k' ∈ (storeNew cfg s k v ex).exempt ek) : k' ∈ s.exempt ek ∨ (k' = k ∧ ex = true) := by
  unfold storeNew at h
  split at h
  · rename_i hex
    have hE : (appendEntry s k v).exempt = s.exempt := rfl
    rcases trackExempt_cases cfg (appendEntry s k v) k v.share with ⟨h1, _⟩ | ⟨k0, rest, hl, _, h1⟩
    · rw [h1] at h
      simp only [hE, upd_apply] at h
      split at h
      · rename_i heq; subst heq
        rcases List.mem_append.mp h with h | h
        · left; exact h
        · right; simp at h; exact ⟨h, hex⟩
      · left; exact h
    · rw [h1] at h
      simp only [hE, upd_apply] at h
      split at h
      · rename_i heq; subst heq
        have : k' ∈ s.exempt ⟨v.share, k.pk, k.duty.typ⟩ ++ [k] := by
          rw [hE] at hl; rw [hl]; exact List.mem_cons_of_mem _ h
        rcases List.mem_append.mp this with h | h
        · left; exact h
        · right; simp at h; exact ⟨h, hex⟩
      · left; exact h
  · left
    split at h <;> simpa [appendEntry] using h

theorem storeNew_keysByDuty_mem (cfg : Cfg) (s : State) (k : Key) (v : PSig) (ex : Bool) (d : Duty) (k' : Key)
    (h : k' ∈ (storeNew cfg s k v ex).keysByDuty d) : k' ∈ s.keysByDuty d ∨ (k' = k ∧ d = k.duty ∧ ex = false) := by
  unfold storeNew at h
  split at h
  · have hE : (appendEntry s k v).keysByDuty = s.keysByDuty := rfl
    rcases trackExempt_cases cfg (appendEntry s k v) k v.share with ⟨h1, _⟩ | ⟨k0, rest, hl, _, h1⟩ <;>
      · rw [h1] at h; left; simpa [hE] using h
  · rename_i hex
    split at h
    · simp only [upd_apply] at h
      split at h
      · rename_i heq; subst heq
        rcases List.mem_append.mp h with h | h
        · left; exact h
        · right; simp at h; exact ⟨h, rfl, by simpa using hex⟩
      · left; exact h
    · left; simpa [appendEntry] using h

theorem storeNew_keysByDuty_mono (cfg : Cfg) (s : State) (k : Key) (v : PSig) (ex : Bool) (d : Duty) (k' : Key)
    (h : k' ∈ s.keysByDuty d) : k' ∈ (storeNew cfg s k v ex).keysByDuty d := by
  unfold storeNew
  split
  · have hE : (appendEntry s k v).keysByDuty = s.keysByDuty := rfl
    rcases trackExempt_cases cfg (appendEntry s k v) k v.share with ⟨h1, _⟩ | ⟨k0, rest, hl, _, h1⟩ <;>
      · rw [h1]; simpa [hE] using h
  · split
    · simp only [upd_apply]
      split
      · rename_i heq; subst heq; exact List.mem_append_left _ h
      · exact h
    · simpa [appendEntry] using h

/-- whatever happens, every list of the new `entries` is a sublist of the old one (plus `v` at `k`). -/
theorem storeNew_entries_sublist (cfg : Cfg) (s : State) (k : Key) (v : PSig) (ex : Bool) (k' : Key) :
    ((storeNew cfg s k v ex).entries k').Sublist (upd s.entries k (s.entries k ++ [v]) k') := by
  rcases storeNew_entries cfg s k v ex with ⟨h, _⟩ | ⟨_, _, k0, _, h⟩
  · rw [h]; exact List.Sublist.refl _
  · rw [h]
    by_cases hk : k' = k0
    · subst hk; simp only [upd_same]; exact List.filter_sublist
    · rw [upd_ne _ _ hk]; exact List.Sublist.refl _

/-! ### `getThresholdMatching` -/

/-- the root `getThresholdMatching` groups by: `DutySignature` has no roots, all partials match. -/
def effRoot (typ : Nat) (p : PSig) : Nat := if typ = dutySignature then 0 else p.root

def group (typ : Nat) (sigs : List PSig) (r : Nat) : List PSig := sigs.filter (fun p => effRoot typ p == r)

theorem group_eq_rootGroup {typ : Nat} (h : typ ≠ dutySignature) (sigs : List PSig) (r : Nat) :
    group typ sigs r = rootGroup sigs r := by
  simp [group, rootGroup, effRoot, h]

theorem filter_const_true {α : Type} (l : List α) : l.filter (fun _ => true) = l := by
  induction l with
  | nil => rfl
  | cons x xs ih => simp [List.filter, ih]

theorem group_sig (sigs : List PSig) : group dutySignature sigs 0 = sigs := by
  simp [group, effRoot]

theorem mem_dedup (l : List Nat) (y : Nat) : y ∈ dedup l ↔ y ∈ l := by
  induction l with
  | nil => simp [dedup]
  | cons x xs ih =>
    simp only [dedup, List.mem_cons, List.mem_filter, ih]
    constructor
    · rintro (h | ⟨h, _⟩)
      · exact Or.inl h
      · exact Or.inr h
    · rintro (h | h)
      · exact Or.inl h
      · by_cases hx : y = x
        · exact Or.inl hx
        · exact Or.inr ⟨h, by simpa using hx⟩

theorem group_length_le (typ : Nat) (sigs : List PSig) (r : Nat) : (group typ sigs r).length ≤ sigs.length :=
  List.length_filter_le _ _

theorem gtm_some {cfg : Cfg} {typ : Nat} {sigs : List PSig} {o : Nat} {g : List PSig}
    (h : getThresholdMatching cfg typ sigs o = some g) :
    ∃ ρ, g = group typ sigs ρ ∧ g.length = cfg.threshold := by
  unfold getThresholdMatching at h
  split at h
  · cases h
  · split at h
    · rename_i htyp
      split at h
      · rename_i hl
        cases h
        exact ⟨0, by rw [htyp, group_sig], hl⟩
      · cases h
    · rename_i htyp
      split at h
      · split at h
        · cases h
        · rename_i v hv
          simp only at h
          split at h
          · rename_i hl
            cases h
            exact ⟨v.root, by rw [group_eq_rootGroup htyp], hl⟩
          · cases h
      · simp only at h
        split at h
        · cases h
        · rename_i r hr
          cases h
          have hm := List.mem_of_getElem? hr
          have := (List.mem_filter.mp hm).2
          exact ⟨r, by rw [group_eq_rootGroup htyp], by simpa using this⟩

theorem gtm_new {cfg : Cfg} {typ : Nat} {old : List PSig} {v : PSig} {o : Nat} {g : List PSig}
    (h : getThresholdMatching cfg typ (old ++ [v]) o = some g)
    (hu : cfg.newRootOnly = true ∨ ∀ p ∈ old, effRoot typ p = effRoot typ v) :
    g = group typ (old ++ [v]) (effRoot typ v) ∧ g.length = cfg.threshold := by
  unfold getThresholdMatching at h
  split at h
  · cases h
  · split at h
    · rename_i htyp
      split at h
      · rename_i hl
        cases h
        exact ⟨by rw [htyp]; simp [group, effRoot, filter_const_true], hl⟩
      · cases h
    · rename_i htyp
      split at h
      · rw [List.getLast?_concat] at h
        simp only at h
        split at h
        · rename_i hl
          cases h
          exact ⟨by rw [group_eq_rootGroup htyp]; simp [effRoot, htyp], hl⟩
        · cases h
      · rename_i hnr
        simp only at h
        split at h
        · cases h
        · rename_i r hr
          cases h
          have hm := List.mem_of_getElem? hr
          have ⟨hd, hl⟩ := List.mem_filter.mp hm
          rw [mem_dedup] at hd
          obtain ⟨p, hp, hpr⟩ := List.mem_map.mp hd
          have hall : ∀ p ∈ old, effRoot typ p = effRoot typ v := by
            rcases hu with hu | hu
            · exact absurd hu hnr
            · exact hu
          have hr' : r = effRoot typ v := by
            rcases List.mem_append.mp hp with hp | hp
            · have := hall p hp; simp only [effRoot, htyp, if_false] at this ⊢; omega
            · simp at hp; subst hp; simp [effRoot, htyp, hpr.symm]
          subst hr'
          exact ⟨by rw [group_eq_rootGroup htyp], by simpa using hl⟩

theorem gtm_live {cfg : Cfg} {typ : Nat} {old : List PSig} {v : PSig} (o : Nat)
    (hl : (group typ (old ++ [v]) (effRoot typ v)).length = cfg.threshold) :
    (getThresholdMatching cfg typ (old ++ [v]) o).isSome = true := by
  have hle := group_length_le typ (old ++ [v]) (effRoot typ v)
  unfold getThresholdMatching
  split
  · omega
  · split
    · rename_i htyp
      have : group typ (old ++ [v]) (effRoot typ v) = old ++ [v] := by
        rw [htyp]; simp [group, effRoot]
      rw [this] at hl
      simp [hl]
    · rename_i htyp
      rw [group_eq_rootGroup htyp] at hl
      have hv : effRoot typ v = v.root := by simp [effRoot, htyp]
      rw [hv] at hl
      split
      · rw [List.getLast?_concat]; simp [hl]
      · simp only
        have hmem : v.root ∈ (dedup ((old ++ [v]).map (·.root))).filter
            (fun r => (rootGroup (old ++ [v]) r).length == cfg.threshold) := by
          rw [List.mem_filter, mem_dedup]
          exact ⟨by simp, by simpa using hl⟩
        have hpos : 0 < ((dedup ((old ++ [v]).map (·.root))).filter
            (fun r => (rootGroup (old ++ [v]) r).length == cfg.threshold)).length :=
          List.length_pos_of_mem hmem
        have hlt := Nat.mod_lt o hpos
        rw [List.getElem?_eq_getElem hlt]; rfl

/-! ### shape of one loop iteration -/

/-- the entry `e` (next in call `cl`) is rejected in state `s`. -/
def EntryFails (s : State) (cl : Call) (e : Entry) : Prop :=
  e.sub = none ∨ ∃ sub, e.sub = some sub ∧
    ∃ x ∈ s.entries ⟨cl.duty, e.pk, sub⟩, x.share = e.sig.share ∧ x ≠ e.sig

theorem step_step_cases (cfg : Cfg) (s : State) (c o : Nat) :
    step cfg s (.step c o) = (s, .none) ∨
    ∃ cl e rest, s.calls c = some cl ∧ cl.rest = e :: rest ∧
      ((EntryFails s cl e ∧ ∃ err, step cfg s (.step c o) = failEntry cfg s c { cl with rest := rest } err) ∨
       (∃ sub, e.sub = some sub ∧ e.sig ∈ s.entries ⟨cl.duty, e.pk, sub⟩ ∧
          step cfg s (.step c o) = ({ s with calls := upd s.calls c (some { cl with rest := rest }) }, .none)) ∨
       (∃ sub, e.sub = some sub ∧ (∀ x ∈ s.entries ⟨cl.duty, e.pk, sub⟩, x.share ≠ e.sig.share) ∧
          ((getThresholdMatching cfg cl.duty.typ
              ((storeNew cfg s ⟨cl.duty, e.pk, sub⟩ e.sig cl.exempt).entries ⟨cl.duty, e.pk, sub⟩) o = none ∧
            step cfg s (.step c o) =
              ({ storeNew cfg s ⟨cl.duty, e.pk, sub⟩ e.sig cl.exempt with
                  calls := upd (storeNew cfg s ⟨cl.duty, e.pk, sub⟩ e.sig cl.exempt).calls c
                    (some { cl with rest := rest }) }, .none)) ∨
           (∃ g, getThresholdMatching cfg cl.duty.typ
              ((storeNew cfg s ⟨cl.duty, e.pk, sub⟩ e.sig cl.exempt).entries ⟨cl.duty, e.pk, sub⟩) o = some g ∧
            step cfg s (.step c o) =
              ({ storeNew cfg s ⟨cl.duty, e.pk, sub⟩ e.sig cl.exempt with
                  calls := upd (storeNew cfg s ⟨cl.duty, e.pk, sub⟩ e.sig cl.exempt).calls c
                    (some { cl with rest := rest }),
                  pend := (storeNew cfg s ⟨cl.duty, e.pk, sub⟩ e.sig cl.exempt).pend ++
                    [(c, ⟨⟨cl.duty, e.pk, sub⟩, g⟩)] }, .none))))) := by
  cases hc : s.calls c with
  | none => left; simp [step, hc]
  | some cl =>
    cases hr : cl.rest with
    | nil => left; simp [step, hc, hr]
    | cons e rest =>
      right
      refine ⟨cl, e, rest, rfl, hr, ?_⟩
      cases hsub : e.sub with
      | none =>
        left
        exact ⟨Or.inl hsub, .subcomm, by simp [step, hc, hr, hsub]⟩
      | some sub =>
        rcases store_cases cfg s ⟨cl.duty, e.pk, sub⟩ e.sig cl.exempt with ⟨hm, hs⟩ | ⟨hx, hs⟩ | ⟨hn, hs⟩
        · right; left
          exact ⟨sub, rfl, hm, by simp [step, hc, hr, hsub, hs]⟩
        · left
          exact ⟨Or.inr ⟨sub, hsub, hx⟩, .mismatch, by simp [step, hc, hr, hsub, hs]⟩
        · right; right
          refine ⟨sub, rfl, hn, ?_⟩
          cases hg : getThresholdMatching cfg cl.duty.typ
              ((storeNew cfg s ⟨cl.duty, e.pk, sub⟩ e.sig cl.exempt).entries ⟨cl.duty, e.pk, sub⟩) o with
          | none => left; exact ⟨rfl, by simp [step, hc, hr, hsub, hs, hg]⟩
          | some g => right; exact ⟨g, rfl, by simp [step, hc, hr, hsub, hs, hg]⟩

/-! ### frames of the other ops -/

theorem mem_pendOf {s : State} {c : Nat} {tr : Trigger} (h : tr ∈ pendOf s c) : (c, tr) ∈ s.pend := by
  unfold pendOf at h
  obtain ⟨x, hx, rfl⟩ := List.mem_map.mp h
  have ⟨hm, hc⟩ := List.mem_filter.mp hx
  have : x.1 = c := by simpa using hc
  rw [← this]; exact hm

theorem step_begin_cases (cfg : Cfg) (s : State) (c : Nat) (d : Duty) (st : Status) (b : List Entry) (i : Bool) :
    (step cfg s (.begin c d st b i)).1 = s ∨
    (s.calls c = none ∧ st ≠ .expired ∧ (b.map (·.pk)).Nodup ∧
      (step cfg s (.begin c d st b i)).1 =
        { s with calls := upd s.calls c (some { duty := d, exempt := decide (st = .exempt), rest := b,
                                                 err := none, internal := i }) }) := by
  simp only [step]
  split
  · left; rfl
  · rename_i h
    simp only [Bool.or_eq_true, Bool.not_eq_true', decide_eq_false_iff_not, not_or, Option.isSome_iff_ne_none,
      ne_eq, Decidable.not_not] at h
    cases st with
    | expired => left; rfl
    | scheduled => right; exact ⟨by simpa using h.1, by simp, h.2, rfl⟩
    | exempt => right; exact ⟨by simpa using h.1, by simp, h.2, rfl⟩

theorem step_finish_cases (cfg : Cfg) (s : State) (c : Nat) (cbErr : Bool) :
    step cfg s (.finish c cbErr) = (s, .none) ∨
    ∃ cl, s.calls c = some cl ∧ cl.rest = [] ∧
      (step cfg s (.finish c cbErr)).1 =
        { s with calls := upd s.calls c none, pend := s.pend.filter (fun x => x.1 != c),
                 trace := s.trace ++ pendOf s c } := by
  simp only [step]
  cases hc : s.calls c with
  | none => left; rfl
  | some cl =>
    simp only
    cases hr : cl.rest with
    | nil => right; exact ⟨cl, rfl, hr, by simp⟩
    | cons e r => left; simp

theorem step_trim_eq (cfg : Cfg) (s : State) (d : Duty) :
    (step cfg s (.trim d)).1 =
      { s with entries := fun k => if k ∈ s.keysByDuty d then [] else s.entries k,
               keysByDuty := upd s.keysByDuty d [], trimmed := d :: s.trimmed } := rfl

/-! ### basic invariant (no assumptions on the environment) -/

/-- what it means for a (validator ↦ partials) pair to be a legitimate aggregation input. -/
def Sound (cfg : Cfg) (acc : Key → List PSig) (tr : Trigger) : Prop :=
  tr.payload.length = cfg.threshold ∧ (tr.payload.map (·.share)).Nodup ∧
  (tr.key.duty.typ ≠ dutySignature → ∃ r, ∀ p ∈ tr.payload, p.root = r) ∧
  ∀ p ∈ tr.payload, p ∈ acc tr.key

theorem Sound.mono {cfg : Cfg} {acc acc' : Key → List PSig} {tr : Trigger}
    (hm : ∀ k p, p ∈ acc k → p ∈ acc' k) (h : Sound cfg acc tr) : Sound cfg acc' tr :=
  ⟨h.1, h.2.1, h.2.2.1, fun p hp => hm _ _ (h.2.2.2 p hp)⟩

structure Inv (cfg : Cfg) (s : State) : Prop where
  sharesNodup : ∀ k, ((s.entries k).map (·.share)).Nodup
  entriesAcc  : ∀ k p, p ∈ s.entries k → p ∈ s.acc k
  soundTrace  : ∀ tr ∈ s.trace, Sound cfg s.acc tr
  soundPend   : ∀ x ∈ s.pend, Sound cfg s.acc x.2
  keysDuty    : ∀ d k, k ∈ s.keysByDuty d → k.duty = d

theorem Inv.of_eq {cfg : Cfg} {s s' : State} (h : Inv cfg s) (he : s'.entries = s.entries)
    (ha : s'.acc = s.acc) (ht : s'.trace = s.trace) (hp : s'.pend = s.pend)
    (hk : s'.keysByDuty = s.keysByDuty) : Inv cfg s' :=
  ⟨by rw [he]; exact h.sharesNodup, by rw [he, ha]; exact h.entriesAcc, by rw [ht, ha]; exact h.soundTrace,
   by rw [hp, ha]; exact h.soundPend, by rw [hk]; exact h.keysDuty⟩

theorem inv_init (cfg : Cfg) : Inv cfg {} :=
  ⟨by intro k; simp, by intro k p h; simp at h, by intro tr h; simp at h, by intro x h; simp at h,
   by intro d k h; simp at h⟩

theorem acc_mono_storeNew (cfg : Cfg) (s : State) (k : Key) (v : PSig) (ex : Bool) :
    ∀ k' p, p ∈ s.acc k' → p ∈ (storeNew cfg s k v ex).acc k' := by
  intro k' p hp
  rw [(storeNew_frame cfg s k v ex).2.2.2.2, upd_apply]
  split
  · rename_i h; subst h; exact List.mem_append_left _ hp
  · exact hp

theorem inv_storeNew {cfg : Cfg} {s : State} (h : Inv cfg s) (k : Key) (v : PSig) (ex : Bool)
    (hn : ∀ x ∈ s.entries k, x.share ≠ v.share) : Inv cfg (storeNew cfg s k v ex) := by
  have hf := storeNew_frame cfg s k v ex
  have hnd : ∀ k', ((upd s.entries k (s.entries k ++ [v]) k').map (·.share)).Nodup := by
    intro k'
    rw [upd_apply]
    split
    · rw [List.map_append, List.nodup_append]
      refine ⟨h.sharesNodup k, by simp, ?_⟩
      intro a ha b hb
      obtain ⟨x, hx, rfl⟩ := List.mem_map.mp ha
      simp at hb; subst hb
      exact hn x hx
    · exact h.sharesNodup k'
  refine ⟨?_, ?_, ?_, ?_, ?_⟩
  · intro k'
    exact List.Nodup.sublist ((storeNew_entries_sublist cfg s k v ex k').map _) (hnd k')
  · intro k' p hp
    have hp' := (storeNew_entries_sublist cfg s k v ex k').subset hp
    rw [hf.2.2.2.2]
    simp only [upd_apply] at hp' ⊢
    split
    · rename_i hk; subst hk
      simp only [if_true] at hp'
      rcases List.mem_append.mp hp' with hp' | hp'
      · exact List.mem_append_left _ (h.entriesAcc _ _ hp')
      · exact List.mem_append_right _ hp'
    · rename_i hk; simp only [hk, if_false] at hp'; exact h.entriesAcc _ _ hp'
  · intro tr htr
    rw [hf.2.2.1] at htr
    exact (h.soundTrace tr htr).mono (acc_mono_storeNew cfg s k v ex)
  · intro x hx
    rw [hf.2.1] at hx
    exact (h.soundPend x hx).mono (acc_mono_storeNew cfg s k v ex)
  · intro d k' hk'
    rcases storeNew_keysByDuty_mem cfg s k v ex d k' hk' with h1 | ⟨h1, h2, _⟩
    · exact h.keysDuty d k' h1
    · rw [h1, h2]

/-- a freshly detected threshold group is a legitimate aggregation input. -/
theorem sound_new {cfg : Cfg} {s : State} (h : Inv cfg s) (k : Key) (o : Nat) (g : List PSig)
    (hg : getThresholdMatching cfg k.duty.typ (s.entries k) o = some g) : Sound cfg s.acc ⟨k, g⟩ := by
  obtain ⟨ρ, hgr, hl⟩ := gtm_some hg
  have hsub : g.Sublist (s.entries k) := by rw [hgr]; exact List.filter_sublist
  refine ⟨hl, List.Nodup.sublist (hsub.map _) (h.sharesNodup k), ?_, fun p hp => h.entriesAcc k p (hsub.subset hp)⟩
  intro htyp
  refine ⟨ρ, fun p hp => ?_⟩
  rw [hgr, group_eq_rootGroup htyp] at hp
  have := (List.mem_filter.mp hp).2
  simpa using this

theorem inv_step {cfg : Cfg} {s : State} (h : Inv cfg s) (op : Op) : Inv cfg (step cfg s op).1 := by
  cases op with
  | begin c d st b i =>
    rcases step_begin_cases cfg s c d st b i with h1 | ⟨_, _, _, h1⟩
    · rw [h1]; exact h
    · rw [h1]; exact h.of_eq rfl rfl rfl rfl rfl
  | finish c cbErr =>
    rcases step_finish_cases cfg s c cbErr with h1 | ⟨cl, _, _, h1⟩
    · rw [h1]; exact h
    · rw [h1]
      refine ⟨h.sharesNodup, h.entriesAcc, ?_, ?_, h.keysDuty⟩
      · intro tr htr
        rcases List.mem_append.mp htr with htr | htr
        · exact h.soundTrace tr htr
        · exact h.soundPend _ (mem_pendOf htr)
      · intro x hx
        exact h.soundPend x (List.mem_filter.mp hx).1
  | trim d =>
    rw [step_trim_eq]
    refine ⟨?_, ?_, h.soundTrace, h.soundPend, ?_⟩
    · intro k; simp only; split
      · simp
      · exact h.sharesNodup k
    · intro k p hp; simp only at hp; split at hp
      · simp at hp
      · exact h.entriesAcc k p hp
    · intro d' k hk
      simp only [upd_apply] at hk
      split at hk
      · simp at hk
      · exact h.keysDuty d' k hk
  | step c o =>
    rcases step_step_cases cfg s c o with h1 | ⟨cl, e, rest, hc, hr, hcase⟩
    · rw [h1]; exact h
    · rcases hcase with ⟨_, err, h1⟩ | ⟨sub, _, _, h1⟩ | ⟨sub, _, hn, hcase⟩
      · rw [h1]; unfold failEntry; split
        · exact h.of_eq rfl rfl rfl rfl rfl
        · exact ⟨h.sharesNodup, h.entriesAcc, h.soundTrace,
            fun x hx => h.soundPend x (List.mem_filter.mp hx).1, h.keysDuty⟩
      · rw [h1]; exact h.of_eq rfl rfl rfl rfl rfl
      · have hi := inv_storeNew h ⟨cl.duty, e.pk, sub⟩ e.sig cl.exempt hn
        rcases hcase with ⟨_, h1⟩ | ⟨g, hg, h1⟩
        · rw [h1]; exact hi.of_eq rfl rfl rfl rfl rfl
        · rw [h1]
          refine ⟨hi.sharesNodup, hi.entriesAcc, hi.soundTrace, ?_, hi.keysDuty⟩
          intro x hx
          rcases List.mem_append.mp hx with hx | hx
          · exact hi.soundPend x hx
          · simp at hx; subst hx
            exact sound_new hi ⟨cl.duty, e.pk, sub⟩ o g hg

/-- states reachable by ops that satisfy the guard `G` (an assumption about the environment). -/
inductive ReachG (cfg : Cfg) (G : State → Op → Prop) : State → Prop where
  | init : ReachG cfg G {}
  | step {s : State} (op : Op) : ReachG cfg G s → G s op → ReachG cfg G (step cfg s op).1

/-- all reachable states: any op sequence, any oracle values, any interleaving. -/
abbrev Reach (cfg : Cfg) : State → Prop := ReachG cfg (fun _ _ => True)

theorem ReachG.weaken {cfg : Cfg} {G : State → Op → Prop} {s : State} (h : ReachG cfg G s) : Reach cfg s := by
  induction h with
  | init => exact .init
  | step op _ _ ih => exact .step op ih trivial

theorem reach_inv {cfg : Cfg} {s : State} (h : Reach cfg s) : Inv cfg s := by
  induction h with
  | init => exact inv_init cfg
  | step op _ _ ih => exact inv_step ih op

theorem reach_run {cfg : Cfg} {s : State} (h : Reach cfg s) (ops : List Op) : Reach cfg (run cfg s ops) := by
  induction ops generalizing s with
  | nil => exact h
  | cons op ops ih => exact ih (.step op h trivial)

/-! ### assumptions about the environment (deadliner contract, cluster size) as a guard on ops -/

/-- share indices are `1..n` (`parsigex` looks the public share up by the claimed index). -/
def ShareOK (n sh : Nat) : Prop := 0 < sh ∧ sh ≤ n

instance (n sh : Nat) : Decidable (ShareOK n sh) := by unfold ShareOK; infer_instance

structure Hyp where
  /-- number of shares in the cluster: partial signatures carry share indices `1..n`
  (`parsigex` verifies every partial against the public share of its claimed index). -/
  n : Nat
  /-- the duties the deadliner never expires (`DeadlineExempt`: exits, builder registrations). -/
  ex : Duty → Bool
  /-- additionally assume that all partials stored under one key agree on the signing root. -/
  unanimous : Bool
  /-- additionally assume that a call that already holds a reached threshold meets no rejected entry. -/
  cleanErr : Bool

def UnanimousNext (s : State) (c : Nat) : Prop :=
  ∀ cl e rest sub, s.calls c = some cl → cl.rest = e :: rest → e.sub = some sub →
    ∀ p ∈ s.entries ⟨cl.duty, e.pk, sub⟩, effRoot cl.duty.typ p = effRoot cl.duty.typ e.sig

def CleanErrNext (s : State) (c : Nat) : Prop :=
  ∀ cl e rest, s.calls c = some cl → cl.rest = e :: rest → EntryFails s cl e → ∀ x ∈ s.pend, x.1 ≠ c

/-- the deadliner contract (C16) and the caller context (`parsigex`), per op:
* `Add` answers `expired` for a duty it has already emitted, and `exempt` exactly for exempt duties;
* share indices are `1..n`;
* a duty is emitted (trimmed) only if it is not exempt, and not while a call for it is between
  its `Add` and its last `store` (the deadline lies far behind every legitimate arrival). -/
def OKOp (H : Hyp) (s : State) : Op → Prop
  | .begin _ d st batch _ =>
    (d ∈ s.trimmed → st = .expired) ∧ (st ≠ .expired → (st = .exempt ↔ H.ex d = true)) ∧
    ∀ e ∈ batch, ShareOK H.n e.sig.share
  | .step c _ => (H.unanimous = true → UnanimousNext s c) ∧ (H.cleanErr = true → CleanErrNext s c)
  | .finish _ _ => True
  | .trim d => H.ex d = false ∧ ∀ c cl, s.calls c = some cl → cl.duty ≠ d

structure EInv (H : Hyp) (s : State) : Prop where
  callsLive   : ∀ c cl, s.calls c = some cl → cl.duty ∉ s.trimmed
  callsExempt : ∀ c cl, s.calls c = some cl → cl.exempt = H.ex cl.duty
  callsShare  : ∀ c cl, s.calls c = some cl → ∀ e ∈ cl.rest, ShareOK H.n e.sig.share
  shareBound  : ∀ k p, p ∈ s.entries k → ShareOK H.n p.share
  tracked     : ∀ ek k, k ∈ s.exempt ek → H.ex k.duty = true

theorem einv_init (H : Hyp) : EInv H {} :=
  ⟨by intro c cl h; simp at h, by intro c cl h; simp at h, by intro c cl h; simp at h,
   by intro k p h; simp at h, by intro ek k h; simp at h⟩

/-- calls after replacing call `c` by a call with the same duty / exempt flag and a shorter rest. -/
theorem einv_calls_upd {H : Hyp} {s : State} (h : EInv H s) {c : Nat} {cl : Call} {e : Entry} {rest : List Entry}
    (hc : s.calls c = some cl) (hr : cl.rest = e :: rest) (err : Option Err) {c' : Nat} {cl' : Call}
    (h' : upd s.calls c (some { cl with rest := rest, err := err }) c' = some cl') :
    cl'.duty ∉ s.trimmed ∧ cl'.exempt = H.ex cl'.duty ∧ ∀ e ∈ cl'.rest, ShareOK H.n e.sig.share := by
  rw [upd_apply] at h'
  split at h'
  · cases h'
    refine ⟨h.callsLive c cl hc, h.callsExempt c cl hc, fun e' he' => h.callsShare c cl hc e' ?_⟩
    rw [hr]; exact List.mem_cons_of_mem _ he'
  · exact ⟨h.callsLive c' cl' h', h.callsExempt c' cl' h', h.callsShare c' cl' h'⟩

theorem einv_calls_del {H : Hyp} {s : State} (h : EInv H s) {c c' : Nat} {cl' : Call}
    (h' : upd s.calls c none c' = some cl') :
    cl'.duty ∉ s.trimmed ∧ cl'.exempt = H.ex cl'.duty ∧ ∀ e ∈ cl'.rest, ShareOK H.n e.sig.share := by
  rw [upd_apply] at h'
  split at h'
  · cases h'
  · exact ⟨h.callsLive c' cl' h', h.callsExempt c' cl' h', h.callsShare c' cl' h'⟩

theorem einv_step {cfg : Cfg} {H : Hyp} {s : State} (h : EInv H s) (op : Op) (hg : OKOp H s op) :
    EInv H (step cfg s op).1 := by
  cases op with
  | begin c d st b i =>
    rcases step_begin_cases cfg s c d st b i with h1 | ⟨_, hst, _, h1⟩
    · rw [h1]; exact h
    · rw [h1]
      obtain ⟨hg1, hg2, hg3⟩ := hg
      have key : ∀ c' cl',
          upd s.calls c (some { duty := d, exempt := decide (st = .exempt), rest := b, err := none, internal := i }) c' = some cl' →
          cl'.duty ∉ s.trimmed ∧ cl'.exempt = H.ex cl'.duty ∧ ∀ e ∈ cl'.rest, ShareOK H.n e.sig.share := by
        intro c' cl' h'
        rw [upd_apply] at h'
        split at h'
        · cases h'
          refine ⟨fun hd => hst (hg1 hd), ?_, hg3⟩
          have := hg2 hst
          by_cases hx : st = .exempt
          · simp [hx, this.mp hx]
          · have : H.ex d ≠ true := fun hh => hx (this.mpr hh)
            simp [hx]; cases hh : H.ex d <;> simp_all
        · exact ⟨h.callsLive c' cl' h', h.callsExempt c' cl' h', h.callsShare c' cl' h'⟩
      exact ⟨fun c' cl' h' => (key c' cl' h').1, fun c' cl' h' => (key c' cl' h').2.1,
        fun c' cl' h' => (key c' cl' h').2.2, h.shareBound, h.tracked⟩
  | finish c cbErr =>
    rcases step_finish_cases cfg s c cbErr with h1 | ⟨cl, _, _, h1⟩
    · rw [h1]; exact h
    · rw [h1]
      exact ⟨fun c' cl' h' => (einv_calls_del h h').1, fun c' cl' h' => (einv_calls_del h h').2.1,
        fun c' cl' h' => (einv_calls_del h h').2.2, h.shareBound, h.tracked⟩
  | trim d =>
    rw [step_trim_eq]
    obtain ⟨_, hg2⟩ := hg
    refine ⟨?_, h.callsExempt, h.callsShare, ?_, h.tracked⟩
    · intro c cl hc hm
      rcases List.mem_cons.mp hm with hm | hm
      · exact hg2 c cl hc hm
      · exact h.callsLive c cl hc hm
    · intro k p hp; simp only at hp; split at hp
      · simp at hp
      · exact h.shareBound k p hp
  | step c o =>
    rcases step_step_cases cfg s c o with h1 | ⟨cl, e, rest, hc, hr, hcase⟩
    · rw [h1]; exact h
    · rcases hcase with ⟨_, err, h1⟩ | ⟨sub, _, _, h1⟩ | ⟨sub, hsub, hn, hcase⟩
      · rw [h1]; unfold failEntry; split
        · exact ⟨fun c' cl' h' => (einv_calls_upd h hc hr _ h').1, fun c' cl' h' => (einv_calls_upd h hc hr _ h').2.1,
            fun c' cl' h' => (einv_calls_upd h hc hr _ h').2.2, h.shareBound, h.tracked⟩
        · exact ⟨fun c' cl' h' => (einv_calls_del h h').1, fun c' cl' h' => (einv_calls_del h h').2.1,
            fun c' cl' h' => (einv_calls_del h h').2.2, h.shareBound, h.tracked⟩
      · rw [h1]
        exact ⟨fun c' cl' h' => (einv_calls_upd h hc hr cl.err h').1, fun c' cl' h' => (einv_calls_upd h hc hr cl.err h').2.1,
          fun c' cl' h' => (einv_calls_upd h hc hr cl.err h').2.2, h.shareBound, h.tracked⟩
      · have hf := storeNew_frame cfg s ⟨cl.duty, e.pk, sub⟩ e.sig cl.exempt
        have hvs : ShareOK H.n e.sig.share := h.callsShare c cl hc e (by rw [hr]; simp)
        have hsb : ∀ k p, p ∈ (storeNew cfg s ⟨cl.duty, e.pk, sub⟩ e.sig cl.exempt).entries k → ShareOK H.n p.share := by
          intro k p hp
          have hp' := (storeNew_entries_sublist cfg s ⟨cl.duty, e.pk, sub⟩ e.sig cl.exempt k).subset hp
          rw [upd_apply] at hp'
          split at hp'
          · rename_i hk; subst hk
            rcases List.mem_append.mp hp' with hp' | hp'
            · exact h.shareBound _ p hp'
            · simp at hp'; subst hp'; exact hvs
          · exact h.shareBound k p hp'
        have htr : ∀ ek k, k ∈ (storeNew cfg s ⟨cl.duty, e.pk, sub⟩ e.sig cl.exempt).exempt ek → H.ex k.duty = true := by
          intro ek k hk
          rcases storeNew_exempt_mem cfg s _ e.sig cl.exempt ek k hk with h2 | ⟨h2, h3⟩
          · exact h.tracked ek k h2
          · rw [h2]; simp only; rw [← h.callsExempt c cl hc]; exact h3
        have hcalls : ∀ c' cl', upd (storeNew cfg s ⟨cl.duty, e.pk, sub⟩ e.sig cl.exempt).calls c
              (some { cl with rest := rest }) c' = some cl' →
            cl'.duty ∉ (storeNew cfg s ⟨cl.duty, e.pk, sub⟩ e.sig cl.exempt).trimmed ∧
            cl'.exempt = H.ex cl'.duty ∧ ∀ e ∈ cl'.rest, ShareOK H.n e.sig.share := by
          intro c' cl' h'
          rw [hf.1] at h'; rw [hf.2.2.2.1]
          exact einv_calls_upd h hc hr cl.err h'
        rcases hcase with ⟨_, h1⟩ | ⟨g, _, h1⟩ <;>
          · rw [h1]
            exact ⟨fun c' cl' h' => (hcalls c' cl' h').1, fun c' cl' h' => (hcalls c' cl' h').2.1,
              fun c' cl' h' => (hcalls c' cl' h').2.2, hsb, htr⟩

theorem reachG_einv {cfg : Cfg} {H : Hyp} {s : State} (h : ReachG cfg (OKOp H) s) : EInv H s := by
  induction h with
  | init => exact einv_init H
  | step op _ hg ih => exact einv_step ih op hg

/-! ### counting aggregations per key -/

def keyCount (k : Key) (l : List Trigger) : Nat := l.countP (fun t => t.key == k)

/-- number of times key `k` has been (or, for calls in flight, is about to be) handed to the
threshold subscribers. -/
def N (s : State) (k : Key) : Nat := keyCount k s.trace + keyCount k (s.pend.map (·.2))

/-- number of stored partials under `k` whose (effective) root is `r`. -/
def cnt (s : State) (k : Key) (r : Nat) : Nat := (group k.duty.typ (s.entries k) r).length

theorem keyCount_append (k : Key) (l₁ l₂ : List Trigger) :
    keyCount k (l₁ ++ l₂) = keyCount k l₁ + keyCount k l₂ := List.countP_append

theorem keyCount_split (k : Key) (c : Nat) (l : List (Nat × Trigger)) :
    keyCount k ((l.filter (fun x => x.1 == c)).map (·.2)) + keyCount k ((l.filter (fun x => x.1 != c)).map (·.2)) =
      keyCount k (l.map (·.2)) := by
  induction l with
  | nil => rfl
  | cons x xs ih =>
    by_cases hx : x.1 = c
    · simp only [hx, beq_self_eq_true, List.filter_cons_of_pos, bne_self_eq_false, Bool.false_eq_true,
        not_false_eq_true, List.filter_cons_of_neg, List.map_cons, keyCount, List.countP_cons] at ih ⊢
      omega
    · have h1 : (x.1 == c) = false := by simpa using hx
      have h2 : (x.1 != c) = true := by simpa using hx
      simp only [h1, h2, Bool.false_eq_true, not_false_eq_true, List.filter_cons_of_neg,
        List.filter_cons_of_pos, List.map_cons, keyCount, List.countP_cons] at ih ⊢
      omega

theorem keyCount_filter_le (k : Key) (c : Nat) (l : List (Nat × Trigger)) :
    keyCount k ((l.filter (fun x => x.1 != c)).map (·.2)) ≤ keyCount k (l.map (·.2)) := by
  have := keyCount_split k c l; omega

theorem filter_ne_of_forall (c : Nat) (l : List (Nat × Trigger)) (h : ∀ x ∈ l, x.1 ≠ c) :
    l.filter (fun x => x.1 != c) = l := by
  rw [List.filter_eq_self]
  intro x hx; simpa using h x hx

/-- `finish` moves the call's output from `pend` to `trace`: nothing is created or lost. -/
theorem N_finish (s : State) (c : Nat) (k : Key) :
    keyCount k (s.trace ++ pendOf s c) + keyCount k ((s.pend.filter (fun x => x.1 != c)).map (·.2)) = N s k := by
  have := keyCount_split k c s.pend
  simp only [keyCount_append, pendOf, N]; omega

theorem step_evictions_le (cfg : Cfg) (s : State) (op : Op) : s.evictions ≤ (step cfg s op).1.evictions := by
  cases op with
  | begin c d st b i =>
    rcases step_begin_cases cfg s c d st b i with h1 | ⟨_, _, _, h1⟩ <;> rw [h1] <;> exact Nat.le_refl _
  | finish c cbErr =>
    rcases step_finish_cases cfg s c cbErr with h1 | ⟨cl, _, _, h1⟩ <;> rw [h1] <;> exact Nat.le_refl _
  | trim d => exact Nat.le_refl _
  | step c o =>
    rcases step_step_cases cfg s c o with h1 | ⟨cl, e, rest, hc, hr, hcase⟩
    · rw [h1]; exact Nat.le_refl _
    · rcases hcase with ⟨_, err, h1⟩ | ⟨sub, _, _, h1⟩ | ⟨sub, hsub, hn, hcase⟩
      · rw [h1]; unfold failEntry; split <;> exact Nat.le_refl _
      · rw [h1]; exact Nat.le_refl _
      · have : s.evictions ≤ (storeNew cfg s ⟨cl.duty, e.pk, sub⟩ e.sig cl.exempt).evictions := by
          rcases storeNew_entries cfg s ⟨cl.duty, e.pk, sub⟩ e.sig cl.exempt with ⟨_, h2⟩ | ⟨_, h2, _⟩ <;> omega
        rcases hcase with ⟨_, h1⟩ | ⟨g, _, h1⟩ <;> rw [h1] <;> exact this

/-- entries of a key that no eviction can touch (its duty is not exempt, or no eviction happened). -/
theorem storeNew_entries_at {cfg : Cfg} {H : Hyp} {s : State} (he : EInv H s) (k : Key) (v : PSig) (ex : Bool)
    (hex : ex = H.ex k.duty) (k' : Key)
    (hk' : H.ex k'.duty = false ∨ (storeNew cfg s k v ex).evictions = 0) :
    (storeNew cfg s k v ex).entries k' = upd s.entries k (s.entries k ++ [v]) k' := by
  rcases storeNew_entries cfg s k v ex with ⟨h, _⟩ | ⟨hx, hev, k0, hk0, h⟩
  · rw [h]
  · rcases hk' with hk' | hk'
    · have : k' ≠ k0 := by
        intro heq; subst heq
        rcases List.mem_append.mp hk0 with hk0 | hk0
        · have := he.tracked _ _ hk0; rw [hk'] at this; cases this
        · simp at hk0; subst hk0; rw [hx] at hex; rw [← hex] at hk'; cases hk'
      rw [h, upd_ne _ _ this]
    · omega

theorem length_group_append (typ : Nat) (l : List PSig) (v : PSig) (r : Nat) :
    (group typ (l ++ [v]) r).length = (group typ l r).length + (if effRoot typ v = r then 1 else 0) := by
  simp only [group, List.filter_append, List.length_append]
  by_cases h : effRoot typ v = r
  · simp [h]
  · have h' : (effRoot typ v == r) = false := by simpa using h
    simp [h', h]

theorem group_disjoint_length (typ : Nat) (l : List PSig) {r r' : Nat} (h : r ≠ r') :
    (group typ l r).length + (group typ l r').length ≤ l.length := by
  induction l with
  | nil => simp [group]
  | cons x xs ih =>
    simp only [group, List.filter_cons, List.length_cons] at ih ⊢
    cases hb1 : (effRoot typ x == r) <;> cases hb2 : (effRoot typ x == r')
    · simp only [Bool.false_eq_true, if_false]; omega
    · simp only [Bool.false_eq_true, if_false, if_true, List.length_cons]; omega
    · simp only [Bool.false_eq_true, if_false, if_true, List.length_cons]; omega
    · have e1 : effRoot typ x = r := by simpa using hb1
      have e2 : effRoot typ x = r' := by simpa using hb2
      exact absurd (e1.symm.trans e2) h

theorem nodup_bound : ∀ (n : Nat) (l : List Nat), l.Nodup → (∀ x ∈ l, x < n) → l.length ≤ n := by
  intro n
  induction n with
  | zero => intro l _ h; cases l with
    | nil => simp
    | cons x xs => exact absurd (h x (by simp)) (Nat.not_lt_zero _)
  | succ n ih =>
    intro l hnd h
    by_cases hm : n ∈ l
    · have h1 := ih (l.erase n) (hnd.erase n) (by
        intro x hx
        have := (hnd.mem_erase_iff).mp hx
        have := h x this.2
        omega)
      rw [List.length_erase_of_mem hm] at h1
      omega
    · have := ih l hnd (by
        intro x hx
        have h1 := h x hx
        have : x ≠ n := fun hh => hm (hh ▸ hx)
        omega)
      omega

theorem nodup_bound' (n : Nat) (l : List Nat) (hnd : l.Nodup) (h : ∀ x ∈ l, ShareOK n x) : l.length ≤ n := by
  have := nodup_bound (n + 1) (0 :: l) (List.nodup_cons.mpr ⟨fun h0 => by have := (h 0 h0).1; omega, hnd⟩) (by
    intro x hx
    rcases List.mem_cons.mp hx with hx | hx
    · omega
    · have := (h x hx).2; omega)
  simpa using this

/-! ### at most once -/

/-- key `k` has been handed over at most once, and if so some root group reached the threshold
(or the duty is gone). -/
def OnceAt (cfg : Cfg) (s : State) (k : Key) : Prop :=
  N s k ≤ 1 ∧ (N s k = 1 → (∃ r, cfg.threshold ≤ cnt s k r) ∨ k.duty ∈ s.trimmed)

/-- no exempt-cap eviction can have removed a partial from key `k`. -/
def Untouched (H : Hyp) (s : State) (k : Key) : Prop := H.ex k.duty = false ∨ s.evictions = 0

theorem OnceAt.transfer {cfg : Cfg} {s s' : State} {k : Key} (h : OnceAt cfg s k) (hN : N s' k ≤ N s k)
    (hc : ∀ r, cnt s k r ≤ cnt s' k r ∨ k.duty ∈ s'.trimmed) (ht : ∀ d ∈ s.trimmed, d ∈ s'.trimmed) :
    OnceAt cfg s' k := by
  refine ⟨Nat.le_trans hN h.1, fun h1 => ?_⟩
  have : N s k = 1 := by have := h.1; omega
  rcases h.2 this with ⟨r, hr⟩ | hd
  · rcases hc r with h2 | h2
    · exact Or.inl ⟨r, Nat.le_trans hr h2⟩
    · exact Or.inr h2
  · exact Or.inr (ht _ hd)

theorem N_congr {s s' : State} (ht : s'.trace = s.trace) (hp : s'.pend = s.pend) (k : Key) : N s' k = N s k := by
  simp [N, ht, hp]

theorem cnt_congr {s s' : State} (he : s'.entries = s.entries) (k : Key) (r : Nat) : cnt s' k r = cnt s k r := by
  simp [cnt, he]

theorem once_step {cfg : Cfg} {H : Hyp} {s : State} (hq : H.n < 2 * cfg.threshold)
    (hflag : cfg.newRootOnly = true ∨ H.unanimous = true)
    (hi : Inv cfg s) (he : EInv H s) (op : Op) (hg : OKOp H s op) (k : Key)
    (hu' : Untouched H (step cfg s op).1 k) (ih : Untouched H s k → OnceAt cfg s k) :
    OnceAt cfg (step cfg s op).1 k := by
  have ho : OnceAt cfg s k := by
    apply ih
    rcases hu' with h | h
    · exact Or.inl h
    · have := step_evictions_le cfg s op; exact Or.inr (by omega)
  cases op with
  | begin c d st b i =>
    rcases step_begin_cases cfg s c d st b i with h1 | ⟨_, _, _, h1⟩
    · rw [h1]; exact ho
    · rw [h1]; exact ho
  | finish c cbErr =>
    rcases step_finish_cases cfg s c cbErr with h1 | ⟨cl, _, _, h1⟩
    · rw [h1]; exact ho
    · rw [h1]
      exact ho.transfer (Nat.le_of_eq (N_finish s c k)) (fun r => Or.inl (Nat.le_refl _)) (fun d hd => hd)
  | trim d =>
    rw [step_trim_eq]
    refine ho.transfer (Nat.le_refl _) (fun r => ?_) (fun d' hd => List.mem_cons_of_mem _ hd)
    by_cases hk : k ∈ s.keysByDuty d
    · right; rw [hi.keysDuty d k hk]; exact List.mem_cons_self
    · left; simp [cnt, hk]
  | step c o =>
    rcases step_step_cases cfg s c o with h1 | ⟨cl, e, rest, hc, hr, hcase⟩
    · rw [h1]; exact ho
    · rcases hcase with ⟨_, err, h1⟩ | ⟨sub, _, _, h1⟩ | ⟨sub, hsub, hn, hcase⟩
      · rw [h1]; unfold failEntry; split
        · exact ho
        · exact ho.transfer (Nat.add_le_add_left (keyCount_filter_le k c s.pend) _)
            (fun r => Or.inl (Nat.le_refl _)) (fun d hd => hd)
      · rw [h1]; exact ho
      · -- a partial `e.sig` is appended under `k0`
        have hf := storeNew_frame cfg s ⟨cl.duty, e.pk, sub⟩ e.sig cl.exempt
        have hev : (step cfg s (.step c o)).1.evictions = (storeNew cfg s ⟨cl.duty, e.pk, sub⟩ e.sig cl.exempt).evictions := by
          rcases hcase with ⟨_, h1⟩ | ⟨g, _, h1⟩ <;> rw [h1]
        have hent := storeNew_entries_at (cfg := cfg) he ⟨cl.duty, e.pk, sub⟩ e.sig cl.exempt
          (he.callsExempt c cl hc) k (by rw [← hev]; exact hu')
        have hcnt : ∀ r, cnt (storeNew cfg s ⟨cl.duty, e.pk, sub⟩ e.sig cl.exempt) k r =
            cnt s k r + (if k = ⟨cl.duty, e.pk, sub⟩ ∧ effRoot cl.duty.typ e.sig = r then 1 else 0) := by
          intro r
          simp only [cnt, hent, upd_apply]
          by_cases hk : k = ⟨cl.duty, e.pk, sub⟩
          · subst hk; simp only [if_true, true_and]; exact length_group_append _ _ _ _
          · simp [hk]
        have hmono : ∀ r, cnt s k r ≤ cnt (storeNew cfg s ⟨cl.duty, e.pk, sub⟩ e.sig cl.exempt) k r := by
          intro r; rw [hcnt r]; omega
        rcases hcase with ⟨_, h1⟩ | ⟨g, hgtm, h1⟩
        · rw [h1]
          exact ho.transfer (Nat.le_of_eq (N_congr hf.2.2.1 hf.2.1 k)) (fun r => Or.inl (hmono r))
            (fun d hd => by rw [hf.2.2.2.1]; exact hd)
        · by_cases hk : k = ⟨cl.duty, e.pk, sub⟩
          · -- the key that just reached the threshold
            subst hk
            have hent' : (storeNew cfg s ⟨cl.duty, e.pk, sub⟩ e.sig cl.exempt).entries ⟨cl.duty, e.pk, sub⟩ =
                s.entries ⟨cl.duty, e.pk, sub⟩ ++ [e.sig] := by rw [hent]; simp
            rw [hent'] at hgtm
            have hu : cfg.newRootOnly = true ∨
                ∀ p ∈ s.entries ⟨cl.duty, e.pk, sub⟩, effRoot cl.duty.typ p = effRoot cl.duty.typ e.sig := by
              rcases hflag with h | h
              · exact Or.inl h
              · exact Or.inr (hg.1 h cl e rest sub hc hr hsub)
            obtain ⟨hgeq, hglen⟩ := gtm_new hgtm hu
            have hc1 : cnt (storeNew cfg s ⟨cl.duty, e.pk, sub⟩ e.sig cl.exempt) ⟨cl.duty, e.pk, sub⟩
                (effRoot cl.duty.typ e.sig) = cfg.threshold := by
              simp only [cnt, hent']; rw [← hgeq]; exact hglen
            have hc0 : cnt s ⟨cl.duty, e.pk, sub⟩ (effRoot cl.duty.typ e.sig) + 1 = cfg.threshold := by
              have := hcnt (effRoot cl.duty.typ e.sig); simp at this; omega
            -- the key cannot have been handed over before
            have hN0 : N s ⟨cl.duty, e.pk, sub⟩ = 0 := by
              have hle := ho.1
              by_cases h0 : N s ⟨cl.duty, e.pk, sub⟩ = 0
              · exact h0
              · exfalso
                rcases ho.2 (by omega) with ⟨r', hr'⟩ | hd
                · by_cases hrr : r' = effRoot cl.duty.typ e.sig
                  · subst hrr; omega
                  · have hdis := group_disjoint_length cl.duty.typ (s.entries ⟨cl.duty, e.pk, sub⟩ ++ [e.sig]) hrr
                    have h1' := length_group_append cl.duty.typ (s.entries ⟨cl.duty, e.pk, sub⟩) e.sig r'
                    have h2' := length_group_append cl.duty.typ (s.entries ⟨cl.duty, e.pk, sub⟩) e.sig (effRoot cl.duty.typ e.sig)
                    simp only [if_true] at h1' h2'
                    have hrr' : ¬ effRoot cl.duty.typ e.sig = r' := fun h => hrr h.symm
                    simp only [hrr', if_false] at h1'
                    have hnd : ((s.entries ⟨cl.duty, e.pk, sub⟩ ++ [e.sig]).map (·.share)).Nodup := by
                      rw [List.map_append, List.nodup_append]
                      refine ⟨hi.sharesNodup _, by simp, ?_⟩
                      intro a ha b hb
                      obtain ⟨x, hx, rfl⟩ := List.mem_map.mp ha
                      simp at hb; subst hb
                      exact hn x hx
                    have hb := nodup_bound' H.n _ hnd (by
                      intro x hx
                      obtain ⟨p, hp, rfl⟩ := List.mem_map.mp hx
                      rcases List.mem_append.mp hp with hp | hp
                      · exact he.shareBound _ p hp
                      · simp at hp; subst hp; exact he.callsShare c cl hc e (by rw [hr]; simp))
                    simp only [List.length_map] at hb
                    simp only [cnt] at hr' hc0
                    omega
                · exact he.callsLive c cl hc hd
            have hN1 : N (step cfg s (.step c o)).1 ⟨cl.duty, e.pk, sub⟩ = N s ⟨cl.duty, e.pk, sub⟩ + 1 := by
              rw [h1]
              simp only [N, hf.2.2.1, hf.2.1, List.map_append, keyCount_append]
              have : keyCount ⟨cl.duty, e.pk, sub⟩ (List.map (·.2) [(c, (⟨⟨cl.duty, e.pk, sub⟩, g⟩ : Trigger))]) = 1 := by
                simp [keyCount]
              omega
            have hcnt' : ∀ r, cnt (step cfg s (.step c o)).1 ⟨cl.duty, e.pk, sub⟩ r =
                cnt (storeNew cfg s ⟨cl.duty, e.pk, sub⟩ e.sig cl.exempt) ⟨cl.duty, e.pk, sub⟩ r := by
              intro r; rw [h1]; rfl
            refine ⟨by omega, fun _ => Or.inl ⟨effRoot cl.duty.typ e.sig, ?_⟩⟩
            rw [hcnt']; exact Nat.le_of_eq hc1.symm
          · -- another key: the new output entry does not count for it
            rw [h1]
            refine ho.transfer ?_ (fun r => Or.inl (hmono r)) (fun d hd => by rw [hf.2.2.2.1]; exact hd)
            have hne : ((⟨cl.duty, e.pk, sub⟩ : Key) == k) = false := by
              simpa using fun h => hk h.symm
            simp only [N, hf.2.2.1, hf.2.1, List.map_append, keyCount_append]
            simp [keyCount, hne]

/-! ### no lost trigger -/

/-- if some root group under `k` holds a threshold of partials, `k` has been handed over (or sits
in the output of a call in flight). -/
def LiveAt (cfg : Cfg) (s : State) (k : Key) : Prop := ∀ r, cfg.threshold ≤ cnt s k r → 1 ≤ N s k

theorem LiveAt.transfer {cfg : Cfg} {s s' : State} {k : Key} (h : LiveAt cfg s k) (hN : N s k ≤ N s' k)
    (hc : ∀ r, cnt s' k r ≤ cnt s k r ∨ cnt s' k r < cfg.threshold) : LiveAt cfg s' k := by
  intro r hr
  rcases hc r with h1 | h1
  · exact Nat.le_trans (h r (Nat.le_trans hr h1)) hN
  · omega

theorem live_step {cfg : Cfg} {H : Hyp} {s : State} (hq : 0 < cfg.threshold)
    (hflag : cfg.continueOnError = true ∨ H.cleanErr = true)
    (he : EInv H s) (op : Op) (hg : OKOp H s op) (k : Key)
    (hu' : Untouched H (step cfg s op).1 k) (ih : Untouched H s k → LiveAt cfg s k) :
    LiveAt cfg (step cfg s op).1 k := by
  have ho : LiveAt cfg s k := by
    apply ih
    rcases hu' with h | h
    · exact Or.inl h
    · have := step_evictions_le cfg s op; exact Or.inr (by omega)
  cases op with
  | begin c d st b i =>
    rcases step_begin_cases cfg s c d st b i with h1 | ⟨_, _, _, h1⟩
    · rw [h1]; exact ho
    · rw [h1]; exact ho
  | finish c cbErr =>
    rcases step_finish_cases cfg s c cbErr with h1 | ⟨cl, _, _, h1⟩
    · rw [h1]; exact ho
    · rw [h1]
      exact ho.transfer (Nat.le_of_eq (N_finish s c k).symm) (fun r => Or.inl (Nat.le_refl _))
  | trim d =>
    rw [step_trim_eq]
    refine ho.transfer (Nat.le_refl _) (fun r => ?_)
    by_cases hk : k ∈ s.keysByDuty d
    · right; simp [cnt, hk, group]; exact hq
    · left; simp [cnt, hk]
  | step c o =>
    rcases step_step_cases cfg s c o with h1 | ⟨cl, e, rest, hc, hr, hcase⟩
    · rw [h1]; exact ho
    · rcases hcase with ⟨hfail, err, h1⟩ | ⟨sub, _, _, h1⟩ | ⟨sub, hsub, hn, hcase⟩
      · rw [h1]; unfold failEntry; split
        · exact ho
        · rename_i hcont
          have hce : H.cleanErr = true := by
            rcases hflag with h | h
            · exact absurd h hcont
            · exact h
          have := filter_ne_of_forall c s.pend (hg.2 hce cl e rest hc hr hfail)
          refine ho.transfer (Nat.le_of_eq ?_) (fun r => Or.inl (Nat.le_refl _))
          simp only [N, this]
      · rw [h1]; exact ho
      · have hf := storeNew_frame cfg s ⟨cl.duty, e.pk, sub⟩ e.sig cl.exempt
        have hev : (step cfg s (.step c o)).1.evictions = (storeNew cfg s ⟨cl.duty, e.pk, sub⟩ e.sig cl.exempt).evictions := by
          rcases hcase with ⟨_, h1⟩ | ⟨g, _, h1⟩ <;> rw [h1]
        have hent := storeNew_entries_at (cfg := cfg) he ⟨cl.duty, e.pk, sub⟩ e.sig cl.exempt
          (he.callsExempt c cl hc) k (by rw [← hev]; exact hu')
        have hcnt : ∀ r, cnt (storeNew cfg s ⟨cl.duty, e.pk, sub⟩ e.sig cl.exempt) k r =
            cnt s k r + (if k = ⟨cl.duty, e.pk, sub⟩ ∧ effRoot cl.duty.typ e.sig = r then 1 else 0) := by
          intro r
          simp only [cnt, hent, upd_apply]
          by_cases hk : k = ⟨cl.duty, e.pk, sub⟩
          · subst hk; simp only [if_true, true_and]; exact length_group_append _ _ _ _
          · simp [hk]
        rcases hcase with ⟨hgtm, h1⟩ | ⟨g, hgtm, h1⟩
        · rw [h1]
          intro r hr'
          have hr'' : cfg.threshold ≤ cnt (storeNew cfg s ⟨cl.duty, e.pk, sub⟩ e.sig cl.exempt) k r := hr'
          show 1 ≤ N _ k
          rw [N_congr (s := s) (by exact hf.2.2.1) (by exact hf.2.1) k]
          rw [hcnt r] at hr''
          by_cases hkr : k = ⟨cl.duty, e.pk, sub⟩ ∧ effRoot cl.duty.typ e.sig = r
          · obtain ⟨hk, hrr⟩ := hkr
            subst hk; subst hrr
            simp only [and_self, if_true] at hr''
            by_cases hold : cfg.threshold ≤ cnt s ⟨cl.duty, e.pk, sub⟩ (effRoot cl.duty.typ e.sig)
            · exact ho _ hold
            · exfalso
              have hent' : (storeNew cfg s ⟨cl.duty, e.pk, sub⟩ e.sig cl.exempt).entries ⟨cl.duty, e.pk, sub⟩ =
                  s.entries ⟨cl.duty, e.pk, sub⟩ ++ [e.sig] := by rw [hent]; simp
              rw [hent'] at hgtm
              have hlen : (group cl.duty.typ (s.entries ⟨cl.duty, e.pk, sub⟩ ++ [e.sig]) (effRoot cl.duty.typ e.sig)).length =
                  cfg.threshold := by
                have := length_group_append cl.duty.typ (s.entries ⟨cl.duty, e.pk, sub⟩) e.sig (effRoot cl.duty.typ e.sig)
                simp only [if_true] at this
                simp only [cnt] at hold hr''
                omega
              have := gtm_live (cfg := cfg) o hlen
              rw [hgtm] at this; cases this
          · simp only [hkr, if_false, Nat.add_zero] at hr''
            exact ho r hr''
        · have hNge : N (step cfg s (.step c o)).1 k =
              N s k + (if (⟨cl.duty, e.pk, sub⟩ : Key) = k then 1 else 0) := by
            rw [h1]
            simp only [N, hf.2.2.1, hf.2.1, List.map_append, keyCount_append]
            by_cases hk : (⟨cl.duty, e.pk, sub⟩ : Key) = k
            · simp [keyCount, hk]; omega
            · simp [keyCount, hk]
          have hcnt' : ∀ r, cnt (step cfg s (.step c o)).1 k r =
              cnt (storeNew cfg s ⟨cl.duty, e.pk, sub⟩ e.sig cl.exempt) k r := by
            intro r; rw [h1]; rfl
          intro r hr'
          rw [hcnt' r, hcnt r] at hr'
          by_cases hkr : k = ⟨cl.duty, e.pk, sub⟩ ∧ effRoot cl.duty.typ e.sig = r
          · have : (⟨cl.duty, e.pk, sub⟩ : Key) = k := hkr.1.symm
            simp only [this, if_true] at hNge
            omega
          · simp only [hkr, if_false, Nat.add_zero] at hr'
            have := ho r hr'
            omega

theorem eq_of_share_eq {l : List PSig} (h : (l.map (·.share)).Nodup) {x y : PSig} (hx : x ∈ l) (hy : y ∈ l)
    (he : x.share = y.share) : x = y := by
  induction l with
  | nil => cases hx
  | cons a as ih =>
    rw [List.map_cons, List.nodup_cons] at h
    rcases List.mem_cons.mp hx with hx1 | hx1 <;> rcases List.mem_cons.mp hy with hy1 | hy1
    · rw [hx1, hy1]
    · subst hx1; exact absurd (show x.share ∈ as.map (·.share) from List.mem_map.mpr ⟨y, hy1, he.symm⟩) h.1
    · subst hy1; exact absurd (show y.share ∈ as.map (·.share) from List.mem_map.mpr ⟨x, hx1, he⟩) h.1
    · exact ih h.2 hx1 hy1

/-! ### lifting to all guarded op sequences -/

theorem reachG_once {cfg : Cfg} {H : Hyp} {s : State} (hq : H.n < 2 * cfg.threshold)
    (hflag : cfg.newRootOnly = true ∨ H.unanimous = true) (h : ReachG cfg (OKOp H) s) :
    ∀ k, Untouched H s k → OnceAt cfg s k := by
  induction h with
  | init => intro k _; exact ⟨by simp [N, keyCount], by simp [N, keyCount]⟩
  | step op hr hg ih =>
    intro k hu
    exact once_step hq hflag (reach_inv hr.weaken) (reachG_einv hr) op hg k hu (ih k)

theorem reachG_live {cfg : Cfg} {H : Hyp} {s : State} (hq : 0 < cfg.threshold)
    (hflag : cfg.continueOnError = true ∨ H.cleanErr = true) (h : ReachG cfg (OKOp H) s) :
    ∀ k, Untouched H s k → LiveAt cfg s k := by
  induction h with
  | init => intro k _ r hr; simp [cnt, group] at hr; omega
  | step op hr hg ih =>
    intro k hu
    exact live_step hq hflag (reachG_einv hr) op hg k hu (ih k)

theorem reachG_run {cfg : Cfg} {G : State → Op → Prop} {s : State} (h : ReachG cfg G s) :
    ∀ ops : List Op, (∀ s' op, G s' op) → ReachG cfg G (run cfg s ops) := by
  intro ops hall
  induction ops generalizing s with
  | nil => exact h
  | cons op ops ih => exact ih (.step op h (hall _ _))

/-! ### a decidable check that a concrete op list respects the contract (used by witnesses) -/

def okOpB (H : Hyp) (s : State) : Op → Bool
  | .begin _ d st batch _ =>
    (!(s.trimmed.contains d) || st == .expired) && (st == .expired || ((st == .exempt) == H.ex d)) &&
    batch.all (fun e => decide (ShareOK H.n e.sig.share))
  | .step _ _ => !H.unanimous && !H.cleanErr
  | .finish _ _ => true
  | .trim _ => false

def runOK (cfg : Cfg) (H : Hyp) : State → List Op → Bool
  | _, [] => true
  | s, op :: ops => okOpB H s op && runOK cfg H (step cfg s op).1 ops

theorem okOpB_sound {H : Hyp} {s : State} {op : Op} (h : okOpB H s op = true) : OKOp H s op := by
  cases op with
  | begin c d st batch i =>
    simp only [okOpB, Bool.and_eq_true, Bool.or_eq_true, Bool.not_eq_true', List.all_eq_true,
      decide_eq_true_eq, beq_iff_eq] at h
    obtain ⟨⟨h1, h2⟩, h3⟩ := h
    refine ⟨?_, ?_, h3⟩
    · intro hd
      rcases h1 with h1 | h1
      · have : s.trimmed.contains d = true := by simpa using hd
        rw [h1] at this; cases this
      · exact h1
    · intro hne
      rcases h2 with h2 | h2
      · exact absurd h2 hne
      · constructor
        · intro he; rw [← h2]; simpa using he
        · intro he; rw [he] at h2; simpa using h2
  | step c o =>
    simp only [okOpB, Bool.and_eq_true, Bool.not_eq_true'] at h
    refine ⟨fun hu => ?_, fun hc => ?_⟩
    · rw [h.1] at hu; cases hu
    · rw [h.2] at hc; cases hc
  | finish c e => trivial
  | trim d => simp [okOpB] at h

theorem runOK_reach {cfg : Cfg} {H : Hyp} {s : State} (h : ReachG cfg (OKOp H) s) (ops : List Op)
    (hok : runOK cfg H s ops = true) : ReachG cfg (OKOp H) (run cfg s ops) := by
  induction ops generalizing s with
  | nil => exact h
  | cons op ops ih =>
    simp only [runOK, Bool.and_eq_true] at hok
    exact ih (.step op h (okOpB_sound hok.1)) hok.2

end CharonV.ParSigDB
