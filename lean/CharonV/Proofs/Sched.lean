/-
Invariants and helper lemmas for the scheduler model (`CharonV.Model.Sched`), used by
`CharonV.Props.C15`.
-/
import CharonV.Model.Sched
namespace CharonV.Sched
namespace AMap
variable {κ ν : Type} [DecidableEq κ]

theorem get?_del (m : AMap κ ν) (k k' : κ) : get? (del m k) k' = if k = k' then none else get? m k' := by
  induction m with
  | nil => simp [del, get?]
  | cons p m ih =>
    obtain ⟨a, v⟩ := p
    simp only [del, get?]
    by_cases h1 : a = k
    · subst h1; simp only [if_true, ih]
      by_cases h2 : a = k' <;> simp [h2]
    · simp only [h1, if_false, get?, ih]
      by_cases h2 : a = k'
      · subst h2; simp; intro h; exact absurd h.symm h1
      · simp [h2]

theorem get?_set (m : AMap κ ν) (k k' : κ) (v : ν) : get? (set m k v) k' = if k = k' then some v else get? m k' := by
  simp only [set, get?, get?_del]
  by_cases h : k = k' <;> simp [h]

theorem get?_foldl_del (L : List κ) (m : AMap κ ν) (k : κ) :
    get? (L.foldl del m) k = if k ∈ L then none else get? m k := by
  induction L generalizing m with
  | nil => simp
  | cons a L ih =>
    simp only [List.foldl_cons, ih, get?_del, List.mem_cons]
    by_cases h1 : k ∈ L <;> by_cases h2 : a = k <;> simp [h1, h2]
    all_goals (intro h; exact absurd h.symm h2)
end AMap

/-! ### state access after `setDef` / `trim` -/

theorem defsOf_setDef (s : State) (d d' : Duty) (ep pk : Nat) (df : Def) :
    defsOf (setDef s d ep pk df).1 d' =
      if d = d' ∧ hasPk (defsOf s d) pk = false then defsOf s d ++ [(pk, df)] else defsOf s d' := by
  unfold setDef
  by_cases h : hasPk (defsOf s d) pk = true
  · simp [h]
  · simp only [Bool.not_eq_true] at h
    simp only [h, and_true, Bool.false_eq_true, ↓reduceIte]
    simp only [defsOf, AMap.get?_set]
    by_cases h2 : d = d' <;> simp [h2]

theorem byEp_setDef (s : State) (d : Duty) (ep ep' pk : Nat) (df : Def) :
    byEp (setDef s d ep pk df).1 ep' =
      if ep = ep' ∧ hasPk (defsOf s d) pk = false then byEp s ep ++ [d] else byEp s ep' := by
  unfold setDef
  by_cases h : hasPk (defsOf s d) pk = true
  · simp [h]
  · simp only [Bool.not_eq_true] at h
    simp only [h, and_true, Bool.false_eq_true, ↓reduceIte]
    simp only [byEp, AMap.get?_set]
    by_cases h2 : ep = ep' <;> simp [h2]

theorem setDef_snd (s : State) (d : Duty) (ep pk : Nat) (df : Def) :
    (setDef s d ep pk df).2 = !hasPk (defsOf s d) pk := by
  unfold setDef; by_cases h : hasPk (defsOf s d) pk = true <;> simp [h]

@[simp] theorem setDef_resolvedEpoch (s : State) (d : Duty) (ep pk : Nat) (df : Def) :
    (setDef s d ep pk df).1.resolvedEpoch = s.resolvedEpoch := by
  unfold setDef; split <;> rfl
@[simp] theorem setDef_nv (s : State) (d : Duty) (ep pk : Nat) (df : Def) : (setDef s d ep pk df).1.nv = s.nv := by
  unfold setDef; split <;> rfl
@[simp] theorem setDef_na (s : State) (d : Duty) (ep pk : Nat) (df : Def) : (setDef s d ep pk df).1.na = s.na := by
  unfold setDef; split <;> rfl
@[simp] theorem setDef_np (s : State) (d : Duty) (ep pk : Nat) (df : Def) : (setDef s d ep pk df).1.np = s.np := by
  unfold setDef; split <;> rfl
@[simp] theorem setDef_ns (s : State) (d : Duty) (ep pk : Nat) (df : Def) : (setDef s d ep pk df).1.ns = s.ns := by
  unfold setDef; split <;> rfl

theorem defsOf_trim (s : State) (ep : Nat) (d : Duty) :
    defsOf (trim s ep) d = if d ∈ byEp s ep then [] else defsOf s d := by
  unfold trim
  by_cases h : (byEp s ep).isEmpty = true
  · simp only [h, if_true]
    have : byEp s ep = [] := List.isEmpty_iff.mp h
    simp [this]
  · simp only [h, Bool.false_eq_true, ↓reduceIte]
    simp only [defsOf, AMap.get?_foldl_del]
    by_cases h2 : d ∈ byEp s ep <;> simp [h2]

theorem byEp_trim (s : State) (ep ep' : Nat) :
    byEp (trim s ep) ep' = if ep = ep' then [] else byEp s ep' := by
  unfold trim
  by_cases h : (byEp s ep).isEmpty = true
  · simp only [h, if_true]
    have : byEp s ep = [] := List.isEmpty_iff.mp h
    by_cases h2 : ep = ep'
    · subst h2; simp [this]
    · simp [h2]
  · simp only [h, Bool.false_eq_true, ↓reduceIte]
    simp only [byEp, AMap.get?_del]
    by_cases h2 : ep = ep' <;> simp [h2]

@[simp] theorem trim_resolvedEpoch (s : State) (ep : Nat) : (trim s ep).resolvedEpoch = s.resolvedEpoch := by
  unfold trim; split <;> rfl
@[simp] theorem trim_nv (s : State) (ep : Nat) : (trim s ep).nv = s.nv := by unfold trim; split <;> rfl
@[simp] theorem trim_na (s : State) (ep : Nat) : (trim s ep).na = s.na := by unfold trim; split <;> rfl
@[simp] theorem trim_np (s : State) (ep : Nat) : (trim s ep).np = s.np := by unfold trim; split <;> rfl
@[simp] theorem trim_ns (s : State) (ep : Nat) : (trim s ep).ns = s.ns := by unfold trim; split <;> rfl

theorem get?_duties (s : State) (d : Duty) (ds : DefSet) (h : AMap.get? s.duties d = some ds) : defsOf s d = ds := by
  simp [defsOf, h]

theorem hasPk_iff (ds : DefSet) (pk : Nat) : hasPk ds pk = true ↔ ∃ df, (pk, df) ∈ ds := by
  simp only [hasPk, List.any_eq_true, beq_iff_eq]
  constructor
  · rintro ⟨⟨a, df⟩, hm, rfl⟩; exact ⟨df, hm⟩
  · rintro ⟨df, hm⟩; exact ⟨(pk, df), hm, rfl⟩


theorem hasPk_append (ds : DefSet) (pk pk' : Nat) (df : Def) :
    hasPk (ds ++ [(pk', df)]) pk = (hasPk ds pk || pk' == pk) := by
  simp [hasPk, List.any_append]

/-- `setDef` never removes a pubkey from any definition set. -/
theorem setDef_mono (s : State) (d d' : Duty) (ep pk pk' : Nat) (df : Def)
    (h : hasPk (defsOf s d') pk' = true) : hasPk (defsOf (setDef s d ep pk df).1 d') pk' = true := by
  rw [defsOf_setDef]
  split
  · rename_i hc; obtain ⟨rfl, _⟩ := hc
    rw [hasPk_append, h]; rfl
  · exact h

/-- after `setDef` the pubkey is present. -/
theorem setDef_has (s : State) (d : Duty) (ep pk : Nat) (df : Def) :
    hasPk (defsOf (setDef s d ep pk df).1 d) pk = true := by
  rw [defsOf_setDef]
  by_cases h : hasPk (defsOf s d) pk = true
  · simp [h]
  · simp only [Bool.not_eq_true] at h
    simp [h, hasPk_append]

/-- membership in a definition set after `setDef`. -/
theorem mem_defsOf_setDef {s : State} {d d' : Duty} {ep pk pk' : Nat} {df df' : Def}
    (h : (pk', df') ∈ defsOf (setDef s d ep pk df).1 d') :
    (pk', df') ∈ defsOf s d' ∨ (d = d' ∧ pk' = pk ∧ df' = df) := by
  rw [defsOf_setDef] at h
  split at h
  · rename_i hc; obtain ⟨rfl, _⟩ := hc
    rcases List.mem_append.mp h with h | h
    · exact Or.inl h
    · simp at h; exact Or.inr ⟨rfl, h.1, h.2⟩
  · exact Or.inl h

theorem mem_byEp_setDef {s : State} {d d' : Duty} {ep ep' pk : Nat} {df : Def}
    (h : d' ∈ byEp (setDef s d ep pk df).1 ep') :
    d' ∈ byEp s ep' ∨ (ep = ep' ∧ d' = d ∧ hasPk (defsOf s d) pk = false) := by
  rw [byEp_setDef] at h
  split at h
  · rename_i hc; obtain ⟨rfl, hh⟩ := hc
    rcases List.mem_append.mp h with h | h
    · exact Or.inl h
    · simp at h; exact Or.inr ⟨rfl, h, hh⟩
  · exact Or.inl h

theorem byEp_setDef_mono {s : State} {d d' : Duty} {ep ep' pk : Nat} {df : Def}
    (h : d' ∈ byEp s ep') : d' ∈ byEp (setDef s d ep pk df).1 ep' := by
  rw [byEp_setDef]
  split
  · rename_i hc; obtain ⟨rfl, _⟩ := hc; exact List.mem_append_left _ h
  · exact h

/-! ### counters -/

structure CntLe (s s' : State) : Prop where
  nv : s.nv ≤ s'.nv
  na : s.na ≤ s'.na
  np : s.np ≤ s'.np
  ns : s.ns ≤ s'.ns

theorem CntLe.refl (s : State) : CntLe s s := ⟨Nat.le_refl _, Nat.le_refl _, Nat.le_refl _, Nat.le_refl _⟩
theorem CntLe.trans {a b c : State} (h1 : CntLe a b) (h2 : CntLe b c) : CntLe a c :=
  ⟨Nat.le_trans h1.nv h2.nv, Nat.le_trans h1.na h2.na, Nat.le_trans h1.np h2.np, Nat.le_trans h1.ns h2.ns⟩

theorem setDef_cnt (s : State) (d : Duty) (ep pk : Nat) (df : Def) : CntLe s (setDef s d ep pk df).1 :=
  ⟨by simp, by simp, by simp, by simp⟩

/-! ### induction principles for `resolveLoop` -/

section loop
variable {α : Type} (skip : α → Bool) (vidx pkOf : α → Nat) (body : State → α → Nat → State) (vals : List Val)

/-- An invariant kept by every executed body is kept by the loop (whether or not it fails). -/
theorem resolveLoop_ind (P : State → Prop) :
    ∀ (l : List α) (s : State), P s →
    (∀ s a pk, P s → a ∈ l → skip a = false → pubKeyFromIndex vals (vidx a) = some pk → pkOf a = pk →
      P (body s a pk)) →
    P (resolveLoop skip vidx pkOf body vals l s).1 := by
  intro l
  induction l with
  | nil => intro s h0 _; exact h0
  | cons a rest ih =>
    intro s h0 hstep
    have hstep' : ∀ s b pk, P s → b ∈ rest → skip b = false → pubKeyFromIndex vals (vidx b) = some pk →
        pkOf b = pk → P (body s b pk) := fun s b pk hp hb => hstep s b pk hp (List.mem_cons_of_mem _ hb)
    unfold resolveLoop
    by_cases h1 : skip a = true
    · simp only [h1, if_true]; exact ih s h0 hstep'
    · simp only [h1, Bool.false_eq_true, if_false]
      cases hpk : pubKeyFromIndex vals (vidx a) with
      | none => exact ih s h0 hstep'
      | some pk =>
        simp only
        by_cases h2 : pkOf a = pk
        · simp only [h2, ne_eq, not_true_eq_false, if_false]
          have := hstep s a pk h0 (List.mem_cons_self ..) (by simpa using h1) hpk h2
          exact ih _ this hstep'
        · simp only [ne_eq, h2, not_false_eq_true, if_true]; exact h0

/-- If the loop succeeds, every entry that is neither skipped nor of an unknown validator had a
matching pubkey and its body was executed: a fact `Q` established by that body and preserved by
the later bodies holds at the end. -/
theorem resolveLoop_complete (P : State → Prop) (Q : α → Nat → State → Prop) :
    ∀ (l : List α) (s : State), P s →
    (∀ s a pk, P s → a ∈ l → skip a = false → pubKeyFromIndex vals (vidx a) = some pk → pkOf a = pk →
      P (body s a pk) ∧ Q a pk (body s a pk)) →
    (∀ s a pk b pkb, P s → Q a pk s → b ∈ l → skip b = false → pubKeyFromIndex vals (vidx b) = some pkb →
      pkOf b = pkb → Q a pk (body s b pkb)) →
    (resolveLoop skip vidx pkOf body vals l s).2 = true →
    ∀ a ∈ l, skip a = false → ∀ pk, pubKeyFromIndex vals (vidx a) = some pk →
      pkOf a = pk ∧ Q a pk (resolveLoop skip vidx pkOf body vals l s).1 := by
  intro l
  induction l with
  | nil => intro s _ _ _ _ a ha; cases ha
  | cons a rest ih =>
    intro s h0 hstep hpres hok b hb hsb pkb hpkb
    have hstep' : ∀ s b pk, P s → b ∈ rest → skip b = false → pubKeyFromIndex vals (vidx b) = some pk →
        pkOf b = pk → P (body s b pk) ∧ Q b pk (body s b pk) :=
      fun s b pk hp hb => hstep s b pk hp (List.mem_cons_of_mem _ hb)
    have hpres' : ∀ s a pk b pkb, P s → Q a pk s → b ∈ rest → skip b = false →
        pubKeyFromIndex vals (vidx b) = some pkb → pkOf b = pkb → Q a pk (body s b pkb) :=
      fun s a pk b pkb hp hq hb => hpres s a pk b pkb hp hq (List.mem_cons_of_mem _ hb)
    unfold resolveLoop at hok ⊢
    by_cases h1 : skip a = true
    · simp only [h1, if_true] at hok ⊢
      rcases List.mem_cons.mp hb with rfl | hb'
      · rw [h1] at hsb; cases hsb
      · exact ih s h0 hstep' hpres' hok b hb' hsb pkb hpkb
    · simp only [h1, Bool.false_eq_true, if_false] at hok ⊢
      cases hpk : pubKeyFromIndex vals (vidx a) with
      | none =>
        simp only [hpk] at hok ⊢
        rcases List.mem_cons.mp hb with rfl | hb'
        · rw [hpk] at hpkb; cases hpkb
        · exact ih s h0 hstep' hpres' hok b hb' hsb pkb hpkb
      | some pk =>
        simp only [hpk] at hok ⊢
        by_cases h2 : pkOf a = pk
        · simp only [h2, ne_eq, not_true_eq_false, if_false] at hok ⊢
          have hb0 := hstep s a pk h0 (List.mem_cons_self ..) (by simpa using h1) hpk h2
          rcases List.mem_cons.mp hb with rfl | hb'
          · have hpe : pk = pkb := by rw [hpk] at hpkb; exact Option.some.inj hpkb
            subst hpe
            refine ⟨h2, ?_⟩
            -- `Q` survives the remaining iterations
            have := resolveLoop_ind skip vidx pkOf body vals (fun st => P st ∧ Q b pk st) rest _ hb0
              (fun st c pkc hpq hc hsc hpkc hcc =>
                ⟨(hstep' st c pkc hpq.1 hc hsc hpkc hcc).1, hpres' st b pk c pkc hpq.1 hpq.2 hc hsc hpkc hcc⟩)
            exact this.2
          · exact ih _ hb0.1 hstep' hpres' hok b hb' hsb pkb hpkb
        · simp only [ne_eq, h2, not_false_eq_true, if_true] at hok
          cases hok

end loop

/-! ### evolution of the state by `setDef` steps -/

/-- `b` is reached from `a` by `setDef` calls whose arguments satisfy `R`. -/
inductive Stores (R : Duty → Nat → Nat → Def → Prop) : State → State → Prop
  | refl (s : State) : Stores R s s
  | set {s s' : State} (d : Duty) (ep pk : Nat) (df : Def) :
      Stores R s s' → R d ep pk df → Stores R s (setDef s' d ep pk df).1

namespace Stores
variable {R : Duty → Nat → Nat → Def → Prop}

theorem trans {a b c : State} (h1 : Stores R a b) (h2 : Stores R b c) : Stores R a c := by
  induction h2 with
  | refl => exact h1
  | set d ep pk df _ hr ih => exact Stores.set d ep pk df ih hr

theorem imp {R' : Duty → Nat → Nat → Def → Prop} (h : ∀ d ep pk df, R d ep pk df → R' d ep pk df)
    {a b : State} (h1 : Stores R a b) : Stores R' a b := by
  induction h1 with
  | refl => exact Stores.refl _
  | set d ep pk df _ hr ih => exact Stores.set d ep pk df ih (h _ _ _ _ hr)

theorem one {s : State} {d : Duty} {ep pk : Nat} {df : Def} (h : R d ep pk df) : Stores R s (setDef s d ep pk df).1 :=
  Stores.set d ep pk df (Stores.refl s) h

theorem same {a b : State} (h : Stores R a b) :
    b.resolvedEpoch = a.resolvedEpoch ∧ b.nv = a.nv ∧ b.na = a.na ∧ b.np = a.np ∧ b.ns = a.ns := by
  induction h with
  | refl => exact ⟨rfl, rfl, rfl, rfl, rfl⟩
  | set d ep pk df _ _ ih => simpa using ih

theorem grow {a b : State} (h : Stores R a b) {d : Duty} {pk : Nat} (hp : hasPk (defsOf a d) pk = true) :
    hasPk (defsOf b d) pk = true := by
  induction h with
  | refl => exact hp
  | set d' ep pk' df _ _ ih => exact setDef_mono _ _ _ _ _ _ _ ih

theorem mem {a b : State} (h : Stores R a b) {d : Duty} {pk : Nat} {df : Def} (hm : (pk, df) ∈ defsOf b d) :
    (pk, df) ∈ defsOf a d ∨ ∃ ep, R d ep pk df := by
  induction h with
  | refl => exact Or.inl hm
  | set d' ep pk' df' _ hr ih =>
    rcases mem_defsOf_setDef hm with h | ⟨rfl, rfl, rfl⟩
    · exact ih h
    · exact Or.inr ⟨ep, hr⟩

theorem byEp_mem {a b : State} (h : Stores R a b) {d : Duty} {ep : Nat} (hm : d ∈ byEp b ep) :
    d ∈ byEp a ep ∨ ∃ pk df, R d ep pk df := by
  induction h with
  | refl => exact Or.inl hm
  | set d' ep' pk' df' _ hr ih =>
    rcases mem_byEp_setDef hm with h | ⟨rfl, rfl, _⟩
    · exact ih h
    · exact Or.inr ⟨pk', df', hr⟩

theorem byEp_mono {a b : State} (h : Stores R a b) {d : Duty} {ep : Nat} (hm : d ∈ byEp a ep) : d ∈ byEp b ep := by
  induction h with
  | refl => exact hm
  | set d' ep' pk' df' _ _ ih => exact byEp_setDef_mono ih

end Stores

theorem attBody_stores {R : Duty → Nat → Nat → Def → Prop} (s : State) (a : AttDuty) (epoch pk : Nat)
    (h2 : R ⟨a.slot, tyAttester⟩ epoch pk (.att a)) (h9 : R ⟨a.slot, tyAggregator⟩ epoch pk (.att a)) :
    Stores R s (attBody s a epoch pk) := by
  unfold attBody
  simp only
  split
  · exact Stores.set _ _ _ _ (Stores.one h2) h9
  · exact Stores.one h2

theorem setSyncDefs_stores {R : Duty → Nat → Nat → Def → Prop} (epoch pk : Nat) (d : SyncDuty) :
    ∀ (sls : List Nat) (s0 s : State), Stores R s0 s →
      (∀ sl ∈ sls, R ⟨sl, tySyncContribution⟩ epoch pk (.sync d)) → Stores R s0 (setSyncDefs epoch pk d sls s) := by
  intro sls
  induction sls with
  | nil => intro s0 s h _; exact h
  | cons sl rest ih =>
    intro s0 s h hr
    unfold setSyncDefs
    simp only [List.foldl_cons]
    exact ih s0 _ (Stores.set _ _ _ _ h (hr sl (List.mem_cons_self ..))) (fun x hx => hr x (List.mem_cons_of_mem _ hx))

/-- every slot given to `setSyncDefs` ends up with the pubkey. -/
theorem setSyncDefs_has (epoch pk : Nat) (d : SyncDuty) :
    ∀ (sls : List Nat) (s : State) (sl : Nat), sl ∈ sls →
      hasPk (defsOf (setSyncDefs epoch pk d sls s) ⟨sl, tySyncContribution⟩) pk = true := by
  intro sls
  induction sls with
  | nil => intro s sl h; cases h
  | cons x rest ih =>
    intro s sl hm
    unfold setSyncDefs
    simp only [List.foldl_cons]
    rcases List.mem_cons.mp hm with rfl | hm'
    · have h0 := setDef_has s ⟨sl, tySyncContribution⟩ epoch pk (.sync d)
      have hst0 : Stores (fun _ _ _ _ => True) (setDef s ⟨sl, tySyncContribution⟩ epoch pk (.sync d)).1
          (setSyncDefs epoch pk d rest (setDef s ⟨sl, tySyncContribution⟩ epoch pk (.sync d)).1) :=
        setSyncDefs_stores epoch pk d rest _ _ (Stores.refl _) (fun _ _ => trivial)
      exact hst0.grow h0
    · exact ih _ sl hm'

theorem mem_insBySlot (a b : AttDuty) (l : List AttDuty) : b ∈ insBySlot a l ↔ b = a ∨ b ∈ l := by
  induction l with
  | nil => simp [insBySlot]
  | cons c cs ih =>
    unfold insBySlot
    split
    · simp
    · simp only [List.mem_cons, ih]
      constructor
      · rintro (h | h | h)
        · exact Or.inr (Or.inl h)
        · exact Or.inl h
        · exact Or.inr (Or.inr h)
      · rintro (h | h | h)
        · exact Or.inr (Or.inl h)
        · exact Or.inl h
        · exact Or.inr (Or.inr h)

theorem mem_sortBySlot (b : AttDuty) (l : List AttDuty) : b ∈ sortBySlot l ↔ b ∈ l := by
  unfold sortBySlot
  suffices h : ∀ (l acc : List AttDuty), b ∈ l.foldl (fun acc a => insBySlot a acc) acc ↔ b ∈ acc ∨ b ∈ l by
    simpa using h l []
  intro l
  induction l with
  | nil => intro acc; simp
  | cons a rest ih =>
    intro acc
    simp only [List.foldl_cons, ih, mem_insBySlot, List.mem_cons]
    constructor
    · rintro ((h | h) | h)
      · exact Or.inr (Or.inl h)
      · exact Or.inl h
      · exact Or.inr (Or.inr h)
    · rintro (h | h | h)
      · exact Or.inl (Or.inr h)
      · exact Or.inl (Or.inl h)
      · exact Or.inr h

theorem mem_filterMap_id {α : Type} (a : α) (l : List (Option α)) : a ∈ l.filterMap id ↔ some a ∈ l := by
  simp [List.mem_filterMap]

/-- `pubKeyFromIndex` finds an entry of the list. -/
theorem pubKeyFromIndex_some {vals : List Val} {i pk : Nat} (h : pubKeyFromIndex vals i = some pk) :
    ∃ v ∈ vals, v.idx = i ∧ v.pk = pk := by
  unfold pubKeyFromIndex at h
  cases hf : vals.find? (fun v => v.idx == i) with
  | none => simp [hf] at h
  | some v =>
    simp [hf] at h
    have hm := List.mem_of_find?_eq_some hf
    have hp := List.find?_some hf
    exact ⟨v, hm, by simpa using hp, h⟩

theorem pubKeyFromIndex_isSome {vals : List Val} {i : Nat} {v : Val} (hm : v ∈ vals) (hi : v.idx = i) :
    ∃ pk, pubKeyFromIndex vals i = some pk := by
  unfold pubKeyFromIndex
  cases hf : vals.find? (fun v => v.idx == i) with
  | none =>
    have := List.find?_eq_none.mp hf v hm
    simp [hi] at this
  | some w => exact ⟨w.pk, rfl⟩

theorem mem_activeVals {ans : Option (List (Option Val))} {epoch : Nat} {vals : List Val}
    (h : activeVals ans epoch = some vals) {v : Val} (hv : v ∈ vals) :
    ∃ l, ans = some l ∧ some v ∈ l ∧ (v.active = true ∨ v.actEpoch = epoch) := by
  unfold activeVals at h
  cases ans with
  | none => simp at h
  | some l =>
    simp only at h
    split at h
    · cases h
    · cases h
      simp only [List.mem_filter, mem_filterMap_id, Bool.or_eq_true, beq_iff_eq] at hv
      exact ⟨l, rfl, hv.1, hv.2⟩

theorem mem_syncSlots {slot spe sl : Nat} :
    sl ∈ syncSlots slot spe ↔ slot ≤ sl ∧ sl < slot + spe ∧ sl / spe = slot / spe := by
  unfold syncSlots
  simp only [List.mem_filter, List.mem_range'_1, beq_iff_eq]
  constructor
  · rintro ⟨⟨h1, h2⟩, h3⟩; exact ⟨h1, h2, h3⟩
  · rintro ⟨h1, h2, h3⟩; exact ⟨⟨h1, h2⟩, h3⟩

/-- a slot of the same epoch at or after `slot` is less than `slot + spe`. -/
theorem lt_add_of_same_epoch {slot spe sl : Nat} (hspe : 0 < spe) (h : sl / spe = slot / spe) : sl < slot + spe := by
  have h1 := Nat.div_add_mod sl spe
  have h2 := Nat.div_add_mod slot spe
  have h3 := Nat.mod_lt sl hspe
  rw [h] at h1
  generalize spe * (slot / spe) = q at h1 h2
  omega

/-! ### what the beacon node is held to have said -/

/-- the `k`-th-or-earlier validators answer for epoch `e` names validator `vidx` with pubkey `pk`,
active or activating in `e` (an "active cluster validator"). -/
def ValOK (bn : BN) (s : State) (e vidx pk : Nat) : Prop :=
  ∃ k l v, k < s.nv ∧ bn.vals k e = some l ∧ some v ∈ l ∧ v.idx = vidx ∧ v.pk = pk ∧
    (v.active = true ∨ v.actEpoch = e)

/-- A stored / triggered definition `df` of pubkey `pk` under duty `d` is *justified*: some answer
the beacon node already gave contains exactly this assignment, for this slot and duty type, and a
validators answer already given names the validator as an active cluster validator with this pubkey. -/
def Justified (bn : BN) (cfg : Cfg) (s : State) (d : Duty) (pk : Nat) : Def → Prop
  | .att a => (d.ty = tyAttester ∨ d.ty = tyAggregator) ∧ a.slot = d.slot ∧ a.pk = pk ∧
      ∃ e k idxs l, k < s.na ∧ bn.att k e idxs = some l ∧ some a ∈ l ∧ ValOK bn s e a.vidx pk
  | .pro p => d.ty = tyProposer ∧ p.slot = d.slot ∧ p.pk = pk ∧
      ∃ e k idxs l, k < s.np ∧ bn.pro k e idxs = some l ∧ some p ∈ l ∧ ValOK bn s e p.vidx pk
  | .sync y => d.ty = tySyncContribution ∧ y.pk = pk ∧
      ∃ k idxs l, k < s.ns ∧ bn.sync k (d.slot / cfg.spe) idxs = some l ∧ some y ∈ l ∧
        ValOK bn s (d.slot / cfg.spe) y.vidx pk

theorem ValOK.mono {bn : BN} {s s' : State} (h : s.nv ≤ s'.nv) {e vidx pk : Nat} (hv : ValOK bn s e vidx pk) :
    ValOK bn s' e vidx pk := by
  obtain ⟨k, l, v, hk, rest⟩ := hv
  exact ⟨k, l, v, Nat.lt_of_lt_of_le hk h, rest⟩

theorem Justified.mono {bn : BN} {cfg : Cfg} {s s' : State} (h : CntLe s s') {d : Duty} {pk : Nat} {df : Def}
    (hj : Justified bn cfg s d pk df) : Justified bn cfg s' d pk df := by
  cases df with
  | att a =>
    obtain ⟨h1, h2, h3, e, k, idxs, l, hk, h4, h5, h6⟩ := hj
    exact ⟨h1, h2, h3, e, k, idxs, l, Nat.lt_of_lt_of_le hk h.na, h4, h5, h6.mono h.nv⟩
  | pro p =>
    obtain ⟨h1, h2, h3, e, k, idxs, l, hk, h4, h5, h6⟩ := hj
    exact ⟨h1, h2, h3, e, k, idxs, l, Nat.lt_of_lt_of_le hk h.np, h4, h5, h6.mono h.nv⟩
  | sync y =>
    obtain ⟨h1, h2, k, idxs, l, hk, h4, h5, h6⟩ := hj
    exact ⟨h1, h2, k, idxs, l, Nat.lt_of_lt_of_le hk h.ns, h4, h5, h6.mono h.nv⟩

/-- every stored definition is justified. -/
def JInv (bn : BN) (cfg : Cfg) (s : State) : Prop :=
  ∀ d pk df, (pk, df) ∈ defsOf s d → Justified bn cfg s d pk df

/-! ### what the three resolve phases store -/

def RAtt (bn : BN) (cfg : Cfg) (k slot : Nat) (vals : List Val) (d : Duty) (ep pk : Nat) (df : Def) : Prop :=
  ep = slot / cfg.spe ∧ slot ≤ d.slot ∧ ∃ a l, df = .att a ∧ (d.ty = tyAttester ∨ d.ty = tyAggregator) ∧
    a.slot = d.slot ∧ a.pk = pk ∧ pubKeyFromIndex vals a.vidx = some pk ∧
    bn.att k ep (vals.map (fun v => v.idx)) = some l ∧ some a ∈ l

def RPro (bn : BN) (cfg : Cfg) (k slot : Nat) (vals : List Val) (d : Duty) (ep pk : Nat) (df : Def) : Prop :=
  ep = slot / cfg.spe ∧ slot ≤ d.slot ∧ ∃ p l, df = .pro p ∧ d.ty = tyProposer ∧
    p.slot = d.slot ∧ p.pk = pk ∧ pubKeyFromIndex vals p.vidx = some pk ∧
    bn.pro k ep (vals.map (fun v => v.idx)) = some l ∧ some p ∈ l

def RSync (bn : BN) (cfg : Cfg) (k slot : Nat) (vals : List Val) (d : Duty) (ep pk : Nat) (df : Def) : Prop :=
  ep = slot / cfg.spe ∧ slot ≤ d.slot ∧ ∃ y l, df = .sync y ∧ d.ty = tySyncContribution ∧
    d.slot / cfg.spe = ep ∧ y.pk = pk ∧ pubKeyFromIndex vals y.vidx = some pk ∧
    bn.sync k ep (vals.map (fun v => v.idx)) = some l ∧ some y ∈ l

theorem resolveAtt_stores (bn : BN) (cfg : Cfg) (s : State) (slot : Nat) (vals : List Val) :
    Stores (RAtt bn cfg s.na slot vals) { s with na := s.na + 1 } (resolveAtt bn cfg s slot vals).1 := by
  unfold resolveAtt
  simp only
  cases hans : bn.att s.na (slot / cfg.spe) (vals.map (fun v => v.idx)) with
  | none => exact Stores.refl _
  | some l =>
    simp only
    split
    · exact Stores.refl _
    · unfold attLoop
      apply resolveLoop_ind _ _ _ _ _ (fun st => Stores (RAtt bn cfg s.na slot vals) { s with na := s.na + 1 } st)
      · exact Stores.refl _
      · intro st a pk hst ha hskip hpk hpke
        have hal : some a ∈ l := (mem_filterMap_id a l).mp ((mem_sortBySlot a _).mp ha)
        have hsl : slot ≤ a.slot := by simpa using hskip
        exact hst.trans (attBody_stores st a _ pk
          ⟨rfl, hsl, a, l, rfl, Or.inl rfl, rfl, hpke, hpk, hans, hal⟩
          ⟨rfl, hsl, a, l, rfl, Or.inr rfl, rfl, hpke, hpk, hans, hal⟩)

theorem resolvePro_stores (bn : BN) (cfg : Cfg) (s : State) (slot : Nat) (vals : List Val) :
    Stores (RPro bn cfg s.np slot vals) { s with np := s.np + 1 } (resolvePro bn cfg s slot vals).1 := by
  unfold resolvePro
  simp only
  cases hans : bn.pro s.np (slot / cfg.spe) (vals.map (fun v => v.idx)) with
  | none => exact Stores.refl _
  | some l =>
    simp only
    split
    · exact Stores.refl _
    · unfold proLoop
      apply resolveLoop_ind _ _ _ _ _ (fun st => Stores (RPro bn cfg s.np slot vals) { s with np := s.np + 1 } st)
      · exact Stores.refl _
      · intro st p pk hst hp hskip hpk hpke
        have hal : some p ∈ l := (mem_filterMap_id p l).mp hp
        have hsl : slot ≤ p.slot := by simpa using hskip
        exact Stores.set _ _ _ _ hst ⟨rfl, hsl, p, l, rfl, rfl, rfl, hpke, hpk, hans, hal⟩

theorem resolveSync_stores (bn : BN) (cfg : Cfg) (s : State) (slot : Nat) (vals : List Val) :
    Stores (RSync bn cfg s.ns slot vals) { s with ns := s.ns + 1 } (resolveSync bn cfg s slot vals).1 := by
  unfold resolveSync
  simp only
  cases hans : bn.sync s.ns (slot / cfg.spe) (vals.map (fun v => v.idx)) with
  | none => exact Stores.refl _
  | some l =>
    simp only
    split
    · exact Stores.refl _
    · unfold syncLoop
      apply resolveLoop_ind _ _ _ _ _ (fun st => Stores (RSync bn cfg s.ns slot vals) { s with ns := s.ns + 1 } st)
      · exact Stores.refl _
      · intro st y pk hst hy _ hpk hpke
        have hal : some y ∈ l := (mem_filterMap_id y l).mp hy
        apply setSyncDefs_stores _ _ _ _ _ _ hst
        intro sl hsl
        obtain ⟨h1, _, h3⟩ := mem_syncSlots.mp hsl
        exact ⟨rfl, h1, y, l, rfl, rfl, h3, hpke, hpk, hans, hal⟩

/-! ### case analysis of `resolveDuties` -/

theorem resolveDuties_cases (bn : BN) (cfg : Cfg) (s : State) (slot : Nat) (P : State → Prop)
    (hfail : activeVals (bn.vals s.nv (slot / cfg.spe)) (slot / cfg.spe) = none → P { s with nv := s.nv + 1 })
    (hempty : activeVals (bn.vals s.nv (slot / cfg.spe)) (slot / cfg.spe) = some [] →
      P { s with nv := s.nv + 1, resolvedEpoch := slot / cfg.spe })
    (hmain : ∀ vals, activeVals (bn.vals s.nv (slot / cfg.spe)) (slot / cfg.spe) = some vals → vals ≠ [] →
      ((resolveAtt bn cfg { s with nv := s.nv + 1 } slot vals).2 = false →
        P (resolveAtt bn cfg { s with nv := s.nv + 1 } slot vals).1) ∧
      ((resolveAtt bn cfg { s with nv := s.nv + 1 } slot vals).2 = true →
        (resolvePro bn cfg (resolveAtt bn cfg { s with nv := s.nv + 1 } slot vals).1 slot vals).2 = false →
        P (resolvePro bn cfg (resolveAtt bn cfg { s with nv := s.nv + 1 } slot vals).1 slot vals).1) ∧
      ((resolveAtt bn cfg { s with nv := s.nv + 1 } slot vals).2 = true →
        (resolvePro bn cfg (resolveAtt bn cfg { s with nv := s.nv + 1 } slot vals).1 slot vals).2 = true →
        (resolveSync bn cfg (resolvePro bn cfg (resolveAtt bn cfg { s with nv := s.nv + 1 } slot vals).1 slot vals).1 slot vals).2 = false →
        P (resolveSync bn cfg (resolvePro bn cfg (resolveAtt bn cfg { s with nv := s.nv + 1 } slot vals).1 slot vals).1 slot vals).1) ∧
      ((resolveAtt bn cfg { s with nv := s.nv + 1 } slot vals).2 = true →
        (resolvePro bn cfg (resolveAtt bn cfg { s with nv := s.nv + 1 } slot vals).1 slot vals).2 = true →
        (resolveSync bn cfg (resolvePro bn cfg (resolveAtt bn cfg { s with nv := s.nv + 1 } slot vals).1 slot vals).1 slot vals).2 = true →
        P (trimBack { (resolveSync bn cfg (resolvePro bn cfg (resolveAtt bn cfg { s with nv := s.nv + 1 } slot vals).1 slot vals).1 slot vals).1
            with resolvedEpoch := slot / cfg.spe } (slot / cfg.spe)))) :
    P (resolveDuties bn cfg s slot) := by
  unfold resolveDuties
  simp only
  cases hv : activeVals (bn.vals s.nv (slot / cfg.spe)) (slot / cfg.spe) with
  | none => exact hfail hv
  | some vals =>
    simp only
    by_cases hemp : vals.isEmpty = true
    · simp only [hemp, if_true]
      have : vals = [] := List.isEmpty_iff.mp hemp
      subst this
      exact hempty hv
    · simp only [hemp, Bool.false_eq_true, if_false]
      have hne : vals ≠ [] := fun h => hemp (by simp [h])
      obtain ⟨h1, h2, h3, h4⟩ := hmain vals hv hne
      cases hr2 : (resolveAtt bn cfg { s with nv := s.nv + 1 } slot vals).2 with
      | false => simp only [Bool.not_false, if_true]; exact h1 hr2
      | true =>
        simp only [Bool.not_true, Bool.false_eq_true, if_false]
        cases hr3 : (resolvePro bn cfg (resolveAtt bn cfg { s with nv := s.nv + 1 } slot vals).1 slot vals).2 with
        | false => simp only [Bool.not_false, if_true]; exact h2 hr2 hr3
        | true =>
          simp only [Bool.not_true, Bool.false_eq_true, if_false]
          cases hr4 : (resolveSync bn cfg (resolvePro bn cfg (resolveAtt bn cfg { s with nv := s.nv + 1 } slot vals).1 slot vals).1 slot vals).2 with
          | false => simp only [Bool.not_false, if_true]; exact h3 hr2 hr3 hr4
          | true =>
            simp only [Bool.not_true, Bool.false_eq_true, if_false]
            exact h4 hr2 hr3 hr4

/-- intermediate states of `resolveDuties` -/
abbrev st1 (s : State) : State := { s with nv := s.nv + 1 }
abbrev st2 (bn : BN) (cfg : Cfg) (s : State) (slot : Nat) (vals : List Val) : State :=
  (resolveAtt bn cfg (st1 s) slot vals).1
abbrev st3 (bn : BN) (cfg : Cfg) (s : State) (slot : Nat) (vals : List Val) : State :=
  (resolvePro bn cfg (st2 bn cfg s slot vals) slot vals).1
abbrev st4 (bn : BN) (cfg : Cfg) (s : State) (slot : Nat) (vals : List Val) : State :=
  (resolveSync bn cfg (st3 bn cfg s slot vals) slot vals).1
abbrev st5 (bn : BN) (cfg : Cfg) (s : State) (slot : Nat) (vals : List Val) : State :=
  trimBack { st4 bn cfg s slot vals with resolvedEpoch := slot / cfg.spe } (slot / cfg.spe)

/-- all three duty calls succeeded -/
def AllOk (bn : BN) (cfg : Cfg) (s : State) (slot : Nat) (vals : List Val) : Prop :=
  (resolveAtt bn cfg (st1 s) slot vals).2 = true ∧
  (resolvePro bn cfg (st2 bn cfg s slot vals) slot vals).2 = true ∧
  (resolveSync bn cfg (st3 bn cfg s slot vals) slot vals).2 = true

/-- A predicate that holds in every intermediate state of `resolveDuties` holds for its result. -/
theorem resolveDuties_ind (bn : BN) (cfg : Cfg) (s : State) (slot : Nat) (P : State → Prop)
    (h1 : P (st1 s))
    (hempty : activeVals (bn.vals s.nv (slot / cfg.spe)) (slot / cfg.spe) = some [] →
      P { st1 s with resolvedEpoch := slot / cfg.spe })
    (hmain : ∀ vals, activeVals (bn.vals s.nv (slot / cfg.spe)) (slot / cfg.spe) = some vals → vals ≠ [] →
      P (st2 bn cfg s slot vals) ∧ P (st3 bn cfg s slot vals) ∧ P (st4 bn cfg s slot vals) ∧
      (AllOk bn cfg s slot vals → P (st5 bn cfg s slot vals))) :
    P (resolveDuties bn cfg s slot) := by
  apply resolveDuties_cases
  · intro _; exact h1
  · exact hempty
  · intro vals hv hne
    obtain ⟨h2, h3, h4, h5⟩ := hmain vals hv hne
    exact ⟨fun _ => h2, fun _ _ => h3, fun _ _ _ => h4, fun a b c => h5 ⟨a, b, c⟩⟩

/-! ### `only_assigned`: every stored definition is justified -/

theorem Stores.cntLe {R : Duty → Nat → Nat → Def → Prop} {a b : State} (h : Stores R a b) : CntLe a b := by
  obtain ⟨_, h1, h2, h3, h4⟩ := h.same
  exact ⟨by omega, by omega, by omega, by omega⟩

theorem JInv.stores {bn : BN} {cfg : Cfg} {R : Duty → Nat → Nat → Def → Prop} {a b : State}
    (hj : JInv bn cfg a) (hs : Stores R a b)
    (hr : ∀ d ep pk df, R d ep pk df → Justified bn cfg b d pk df) : JInv bn cfg b := by
  intro d pk df hm
  rcases hs.mem hm with h | ⟨ep, h⟩
  · exact (hj d pk df h).mono hs.cntLe
  · exact hr d ep pk df h

theorem JInv.bump {bn : BN} {cfg : Cfg} {a b : State} (hj : JInv bn cfg a)
    (hd : b.duties = a.duties) (hc : CntLe a b) : JInv bn cfg b := by
  intro d pk df hm
  have : defsOf b d = defsOf a d := by simp [defsOf, hd]
  rw [this] at hm
  exact (hj d pk df hm).mono hc

theorem JInv.trim {bn : BN} {cfg : Cfg} {a : State} (hj : JInv bn cfg a) (ep : Nat) : JInv bn cfg (trim a ep) := by
  intro d pk df hm
  rw [defsOf_trim] at hm
  split at hm
  · cases hm
  · exact (hj d pk df hm).mono ⟨by simp, by simp, by simp, by simp⟩

theorem JInv.trimBack {bn : BN} {cfg : Cfg} {a : State} (hj : JInv bn cfg a) (ep : Nat) : JInv bn cfg (trimBack a ep) := by
  unfold CharonV.Sched.trimBack; split
  · exact hj.trim _
  · exact hj

/-- validators found by `pubKeyFromIndex` in a successful `resolveActiveValidators` result were
named by the beacon node as active cluster validators. -/
theorem valOK_of_active {bn : BN} {k e : Nat} {vals : List Val} (hv : activeVals (bn.vals k e) e = some vals)
    {b : State} (hk : k < b.nv) {i pk : Nat} (hp : pubKeyFromIndex vals i = some pk) : ValOK bn b e i pk := by
  obtain ⟨v, hvm, hi, hpk⟩ := pubKeyFromIndex_some hp
  obtain ⟨l, hl, hvl, hact⟩ := mem_activeVals hv hvm
  exact ⟨k, l, v, hk, hl, hvl, hi, hpk, hact⟩

theorem resolveAtt_same (bn : BN) (cfg : Cfg) (s : State) (slot : Nat) (vals : List Val) :
    (resolveAtt bn cfg s slot vals).1.resolvedEpoch = s.resolvedEpoch ∧ (resolveAtt bn cfg s slot vals).1.nv = s.nv ∧
    (resolveAtt bn cfg s slot vals).1.na = s.na + 1 ∧ (resolveAtt bn cfg s slot vals).1.np = s.np ∧
    (resolveAtt bn cfg s slot vals).1.ns = s.ns := (resolveAtt_stores bn cfg s slot vals).same

theorem resolvePro_same (bn : BN) (cfg : Cfg) (s : State) (slot : Nat) (vals : List Val) :
    (resolvePro bn cfg s slot vals).1.resolvedEpoch = s.resolvedEpoch ∧ (resolvePro bn cfg s slot vals).1.nv = s.nv ∧
    (resolvePro bn cfg s slot vals).1.na = s.na ∧ (resolvePro bn cfg s slot vals).1.np = s.np + 1 ∧
    (resolvePro bn cfg s slot vals).1.ns = s.ns := (resolvePro_stores bn cfg s slot vals).same

theorem resolveSync_same (bn : BN) (cfg : Cfg) (s : State) (slot : Nat) (vals : List Val) :
    (resolveSync bn cfg s slot vals).1.resolvedEpoch = s.resolvedEpoch ∧ (resolveSync bn cfg s slot vals).1.nv = s.nv ∧
    (resolveSync bn cfg s slot vals).1.na = s.na ∧ (resolveSync bn cfg s slot vals).1.np = s.np ∧
    (resolveSync bn cfg s slot vals).1.ns = s.ns + 1 := (resolveSync_stores bn cfg s slot vals).same

/-- counters and `resolvedEpoch` in the intermediate states of `resolveDuties`. -/
theorem st_same (bn : BN) (cfg : Cfg) (s : State) (slot : Nat) (vals : List Val) :
    ((st2 bn cfg s slot vals).resolvedEpoch = s.resolvedEpoch ∧ (st2 bn cfg s slot vals).nv = s.nv + 1 ∧
      (st2 bn cfg s slot vals).na = s.na + 1 ∧ (st2 bn cfg s slot vals).np = s.np ∧ (st2 bn cfg s slot vals).ns = s.ns) ∧
    ((st3 bn cfg s slot vals).resolvedEpoch = s.resolvedEpoch ∧ (st3 bn cfg s slot vals).nv = s.nv + 1 ∧
      (st3 bn cfg s slot vals).na = s.na + 1 ∧ (st3 bn cfg s slot vals).np = s.np + 1 ∧ (st3 bn cfg s slot vals).ns = s.ns) ∧
    ((st4 bn cfg s slot vals).resolvedEpoch = s.resolvedEpoch ∧ (st4 bn cfg s slot vals).nv = s.nv + 1 ∧
      (st4 bn cfg s slot vals).na = s.na + 1 ∧ (st4 bn cfg s slot vals).np = s.np + 1 ∧ (st4 bn cfg s slot vals).ns = s.ns + 1) := by
  have h2 := resolveAtt_same bn cfg (st1 s) slot vals
  have h3 := resolvePro_same bn cfg (st2 bn cfg s slot vals) slot vals
  have h4 := resolveSync_same bn cfg (st3 bn cfg s slot vals) slot vals
  have e2 : (st2 bn cfg s slot vals).resolvedEpoch = s.resolvedEpoch ∧ (st2 bn cfg s slot vals).nv = s.nv + 1 ∧
      (st2 bn cfg s slot vals).na = s.na + 1 ∧ (st2 bn cfg s slot vals).np = s.np ∧ (st2 bn cfg s slot vals).ns = s.ns := h2
  have e3 : (st3 bn cfg s slot vals).resolvedEpoch = s.resolvedEpoch ∧ (st3 bn cfg s slot vals).nv = s.nv + 1 ∧
      (st3 bn cfg s slot vals).na = s.na + 1 ∧ (st3 bn cfg s slot vals).np = s.np + 1 ∧ (st3 bn cfg s slot vals).ns = s.ns := by
    obtain ⟨a, b, c, d, e⟩ := h3; obtain ⟨a', b', c', d', e'⟩ := e2
    exact ⟨a.trans a', b.trans b', c.trans c', by rw [d, d'], e.trans e'⟩
  refine ⟨e2, e3, ?_⟩
  obtain ⟨a, b, c, d, e⟩ := h4; obtain ⟨a', b', c', d', e'⟩ := e3
  exact ⟨a.trans a', b.trans b', c.trans c', d.trans d', by rw [e, e']⟩

theorem resolveDuties_JInv {bn : BN} {cfg : Cfg} {s : State} (slot : Nat) (hj : JInv bn cfg s) :
    JInv bn cfg (resolveDuties bn cfg s slot) := by
  have hc1 : CntLe s (st1 s) := ⟨Nat.le_succ _, Nat.le_refl _, Nat.le_refl _, Nat.le_refl _⟩
  have hj1 : JInv bn cfg (st1 s) := hj.bump rfl hc1
  apply resolveDuties_ind
  · exact hj1
  · intro _; exact hj1.bump rfl ⟨Nat.le_refl _, Nat.le_refl _, Nat.le_refl _, Nat.le_refl _⟩
  · intro vals hv hne
    obtain ⟨⟨_, e2v, e2a, e2p, e2s⟩, ⟨_, e3v, e3a, e3p, e3s⟩, ⟨_, e4v, e4a, e4p, e4s⟩⟩ := st_same bn cfg s slot vals
    -- attester phase
    have hj2 : JInv bn cfg (st2 bn cfg s slot vals) := by
      apply (hj1.bump (b := { st1 s with na := (st1 s).na + 1 }) rfl
        ⟨Nat.le_refl _, Nat.le_succ _, Nat.le_refl _, Nat.le_refl _⟩).stores (resolveAtt_stores bn cfg (st1 s) slot vals)
      rintro d ep pk df ⟨rfl, _, a, l, rfl, hty, hsl, hpk, hpf, hans, hal⟩
      have ha : s.na < (st2 bn cfg s slot vals).na := by omega
      have hn : s.nv < (st2 bn cfg s slot vals).nv := by omega
      exact ⟨hty, hsl, hpk, slot / cfg.spe, s.na, _, l, ha, hans, hal, valOK_of_active hv hn hpf⟩
    -- proposer phase
    have hj3 : JInv bn cfg (st3 bn cfg s slot vals) := by
      apply (hj2.bump (b := { st2 bn cfg s slot vals with np := (st2 bn cfg s slot vals).np + 1 }) rfl
        ⟨Nat.le_refl _, Nat.le_refl _, Nat.le_succ _, Nat.le_refl _⟩).stores
          (resolvePro_stores bn cfg (st2 bn cfg s slot vals) slot vals)
      rintro d ep pk df ⟨rfl, _, p, l, rfl, hty, hsl, hpk, hpf, hans, hal⟩
      have ha : (st2 bn cfg s slot vals).np < (st3 bn cfg s slot vals).np := by omega
      have hn : s.nv < (st3 bn cfg s slot vals).nv := by omega
      exact ⟨hty, hsl, hpk, slot / cfg.spe, _, _, l, ha, hans, hal, valOK_of_active hv hn hpf⟩
    -- sync phase
    have hj4 : JInv bn cfg (st4 bn cfg s slot vals) := by
      apply (hj3.bump (b := { st3 bn cfg s slot vals with ns := (st3 bn cfg s slot vals).ns + 1 }) rfl
        ⟨Nat.le_refl _, Nat.le_refl _, Nat.le_refl _, Nat.le_succ _⟩).stores
          (resolveSync_stores bn cfg (st3 bn cfg s slot vals) slot vals)
      rintro d ep pk df ⟨rfl, _, y, l, rfl, hty, hde, hpk, hpf, hans, hal⟩
      have ha : (st3 bn cfg s slot vals).ns < (st4 bn cfg s slot vals).ns := by omega
      have hn : s.nv < (st4 bn cfg s slot vals).nv := by omega
      refine ⟨hty, hpk, _, _, l, ha, by rw [hde]; exact hans, hal, ?_⟩
      rw [hde]; exact valOK_of_active hv hn hpf
    refine ⟨hj2, hj3, hj4, fun _ => ?_⟩
    exact (hj4.bump (b := { st4 bn cfg s slot vals with resolvedEpoch := slot / cfg.spe }) rfl
      ⟨Nat.le_refl _, Nat.le_refl _, Nat.le_refl _, Nat.le_refl _⟩).trimBack _

theorem resolveDuties_cntLe (bn : BN) (cfg : Cfg) (s : State) (slot : Nat) : CntLe s (resolveDuties bn cfg s slot) := by
  have hc1 : CntLe s (st1 s) := ⟨Nat.le_succ _, Nat.le_refl _, Nat.le_refl _, Nat.le_refl _⟩
  apply resolveDuties_ind
  · exact hc1
  · intro _; exact ⟨Nat.le_succ _, Nat.le_refl _, Nat.le_refl _, Nat.le_refl _⟩
  · intro vals _ _
    obtain ⟨⟨_, e2v, e2a, e2p, e2s⟩, ⟨_, e3v, e3a, e3p, e3s⟩, ⟨_, e4v, e4a, e4p, e4s⟩⟩ := st_same bn cfg s slot vals
    refine ⟨⟨by omega, by omega, by omega, by omega⟩, ⟨by omega, by omega, by omega, by omega⟩,
      ⟨by omega, by omega, by omega, by omega⟩, fun _ => ?_⟩
    have h5 : (st5 bn cfg s slot vals).nv = (st4 bn cfg s slot vals).nv ∧ (st5 bn cfg s slot vals).na = (st4 bn cfg s slot vals).na ∧
        (st5 bn cfg s slot vals).np = (st4 bn cfg s slot vals).np ∧ (st5 bn cfg s slot vals).ns = (st4 bn cfg s slot vals).ns := by
      unfold st5 trimBack; split <;> simp
    exact ⟨by omega, by omega, by omega, by omega⟩

theorem reorg_JInv {bn : BN} {cfg : Cfg} {s : State} (ep : Nat) (hj : JInv bn cfg s) : JInv bn cfg (reorg cfg s ep) := by
  unfold reorg
  split
  · split
    · exact (hj.trim _).bump rfl ⟨Nat.le_refl _, Nat.le_refl _, Nat.le_refl _, Nat.le_refl _⟩
    · exact hj
  · exact hj

theorem reorg_cnt (cfg : Cfg) (s : State) (ep : Nat) : CntLe s (reorg cfg s ep) := by
  unfold reorg
  split
  · split
    · exact ⟨by simp, by simp, by simp, by simp⟩
    · exact CntLe.refl _
  · exact CntLe.refl _

/-! ### the trigger loop -/

theorem trigLoop_cntLe (bn : BN) (cfg : Cfg) (slot : Nat) :
    ∀ (tys : List Nat) (s : State), CntLe s (trigLoop bn cfg slot tys s).1 := by
  intro tys
  induction tys with
  | nil => intro s; exact CntLe.refl _
  | cons ty tys ih =>
    intro s
    unfold trigLoop
    cases hg : AMap.get? s.duties ⟨slot, ty⟩ with
    | none => exact ih s
    | some ds =>
      simp only
      split
      · exact (resolveDuties_cntLe bn cfg s (slot + 1)).trans (ih _)
      · exact ih s

/-- shape of the triggers of one slot: one per duty type (in the order of `tys`), for this slot,
with the not-before instant of `delaySlotOffset`. -/
theorem trigLoop_shape (bn : BN) (cfg : Cfg) (slot : Nat) :
    ∀ (tys : List Nat) (s : State),
      ((trigLoop bn cfg slot tys s).2.map (fun t => t.duty.ty)).Sublist tys ∧
      ∀ t ∈ (trigLoop bn cfg slot tys s).2, t.duty.slot = slot ∧ t.nb = notBefore cfg slot t.duty.ty := by
  intro tys
  induction tys with
  | nil => intro s; simp [trigLoop]
  | cons ty tys ih =>
    intro s
    unfold trigLoop
    cases hg : AMap.get? s.duties ⟨slot, ty⟩ with
    | none =>
      simp only
      exact ⟨(ih s).1.trans (List.sublist_cons_self _ _), (ih s).2⟩
    | some ds =>
      simp only [List.map_cons, List.mem_cons]
      refine ⟨?_, ?_⟩
      · exact List.Sublist.cons_cons _ (ih _).1
      · rintro t (rfl | ht)
        · exact ⟨rfl, rfl⟩
        · exact (ih _).2 t ht

theorem trigLoop_JInv {bn : BN} {cfg : Cfg} (slot : Nat) :
    ∀ (tys : List Nat) (s : State), JInv bn cfg s →
      JInv bn cfg (trigLoop bn cfg slot tys s).1 ∧
      ∀ t ∈ (trigLoop bn cfg slot tys s).2, ∀ pk df, (pk, df) ∈ t.defs →
        Justified bn cfg (trigLoop bn cfg slot tys s).1 t.duty pk df := by
  intro tys
  induction tys with
  | nil => intro s hj; exact ⟨hj, by simp [trigLoop]⟩
  | cons ty tys ih =>
    intro s hj
    unfold trigLoop
    cases hg : AMap.get? s.duties ⟨slot, ty⟩ with
    | none => exact ih s hj
    | some ds =>
      simp only [List.mem_cons]
      have hds := get?_duties s _ _ hg
      split
      · have hj' := resolveDuties_JInv (slot + 1) hj
        refine ⟨(ih _ hj').1, ?_⟩
        rintro t (rfl | ht) pk df hm
        · simp only at hm ⊢
          rw [← hds] at hm
          exact (hj _ pk df hm).mono ((resolveDuties_cntLe bn cfg s (slot + 1)).trans (trigLoop_cntLe bn cfg slot tys _))
        · exact (ih _ hj').2 t ht pk df hm
      · refine ⟨(ih _ hj).1, ?_⟩
        rintro t (rfl | ht) pk df hm
        · simp only at hm ⊢
          rw [← hds] at hm
          exact (hj _ pk df hm).mono (trigLoop_cntLe bn cfg slot tys _)
        · exact (ih _ hj).2 t ht pk df hm

theorem preResolve_JInv {bn : BN} {cfg : Cfg} {s : State} (slot : Nat) (hj : JInv bn cfg s) :
    JInv bn cfg (preResolve bn cfg s slot) := by
  unfold preResolve; split
  · exact resolveDuties_JInv slot hj
  · exact hj

theorem preResolve_cntLe (bn : BN) (cfg : Cfg) (s : State) (slot : Nat) : CntLe s (preResolve bn cfg s slot) := by
  unfold preResolve; split
  · exact resolveDuties_cntLe bn cfg s slot
  · exact CntLe.refl _

theorem scheduleSlot_cntLe (bn : BN) (cfg : Cfg) (s : State) (slot : Nat) : CntLe s (scheduleSlot bn cfg s slot).1 :=
  (preResolve_cntLe bn cfg s slot).trans (trigLoop_cntLe bn cfg slot _ _)

theorem allDutyTypes_nodup : allDutyTypes.Nodup := by decide

/-! ### the ticker -/

theorem tickerStep_some {dur now next s n' : Nat} (hdur : 0 < dur) (h : tickerStep dur now next = some (s, n')) :
    next ≤ s ∧ n' = s + 1 := by
  unfold tickerStep at h
  split at h
  · cases h
  · simp only [Option.some.injEq, Prod.mk.injEq] at h
    obtain ⟨h1, h2⟩ := h
    rw [h1] at h2
    refine ⟨?_, h2.symm⟩
    split at h1
    · rename_i hs
      have : next + 1 ≤ now / dur := (Nat.le_div_iff_mul_le hdur).mpr (Nat.le_of_lt hs)
      omega
    · omega

/-! ### system invariant (no hypothesis on the beacon node) -/

structure SInv (bn : BN) (cfg : Cfg) (y : Sys) : Prop where
  j : JInv bn cfg y.st
  histJ : ∀ t ∈ y.hist, ∀ pk df, (pk, df) ∈ t.defs → Justified bn cfg y.st t.duty pk df
  histLt : ∀ t ∈ y.hist, t.duty.slot < y.next
  histNb : ∀ t ∈ y.hist, t.nb = notBefore cfg t.duty.slot t.duty.ty
  nodup : (y.hist.map (fun t => t.duty)).Nodup
  tickedLt : ∀ sl ∈ y.ticked, sl < y.next
  tickedSorted : y.ticked.Pairwise (fun a b => a < b)
  histTicked : ∀ t ∈ y.hist, t.duty.slot ∈ y.ticked

theorem SInv.init (bn : BN) (cfg : Cfg) (t0 : Nat) : SInv bn cfg (Sys.init cfg t0) where
  j := by intro d pk df h; simp [Sys.init, defsOf, AMap.get?] at h
  histJ := by intro t h; simp [Sys.init] at h
  histLt := by intro t h; simp [Sys.init] at h
  histNb := by intro t h; simp [Sys.init] at h
  nodup := by simp [Sys.init]
  tickedLt := by intro t h; simp [Sys.init] at h
  tickedSorted := by simp [Sys.init]
  histTicked := by intro t h; simp [Sys.init] at h

theorem scheduleSlot_out_nodup (bn : BN) (cfg : Cfg) (s : State) (slot : Nat) :
    ((scheduleSlot bn cfg s slot).2.map (fun t => t.duty)).Nodup := by
  have h := (trigLoop_shape bn cfg slot allDutyTypes (preResolve bn cfg s slot)).1
  have hn : ((scheduleSlot bn cfg s slot).2.map (fun t => t.duty.ty)).Nodup := h.nodup allDutyTypes_nodup
  have : (scheduleSlot bn cfg s slot).2.map (fun t => t.duty.ty)
      = ((scheduleSlot bn cfg s slot).2.map (fun t => t.duty)).map Duty.ty := by simp [List.map_map]
  rw [this] at hn
  exact List.Pairwise.of_map Duty.ty (fun a b hab h => hab (by rw [h])) hn

theorem SInv.tick {bn : BN} {cfg : Cfg} {y : Sys} (h : SInv bn cfg y) {slot : Nat} (hs : y.next ≤ slot) :
    SInv bn cfg (Sys.tick bn cfg y slot (slot + 1)).1 := by
  have hshape := (trigLoop_shape bn cfg slot allDutyTypes (preResolve bn cfg y.st slot)).2
  have hJ := trigLoop_JInv (bn := bn) (cfg := cfg) slot allDutyTypes _ (preResolve_JInv slot h.j)
  have hc := scheduleSlot_cntLe bn cfg y.st slot
  unfold Sys.tick
  simp only
  refine ⟨hJ.1, ?_, ?_, ?_, ?_, ?_, ?_, ?_⟩
  · intro t ht pk df hm
    rcases List.mem_append.mp ht with ht | ht
    · exact (h.histJ t ht pk df hm).mono hc
    · exact hJ.2 t ht pk df hm
  · intro t ht
    rcases List.mem_append.mp ht with ht | ht
    · have := h.histLt t ht; show _ < slot + 1; omega
    · have := (hshape t ht).1; show _ < slot + 1; omega
  · intro t ht
    rcases List.mem_append.mp ht with ht | ht
    · exact h.histNb t ht
    · obtain ⟨h1, h2⟩ := hshape t ht; rw [h1]; exact h2
  · rw [List.map_append]
    refine List.nodup_append.mpr ⟨h.nodup, scheduleSlot_out_nodup bn cfg y.st slot, ?_⟩
    intro a ha b hb hab
    obtain ⟨t, ht, rfl⟩ := List.mem_map.mp ha
    obtain ⟨t', ht', rfl⟩ := List.mem_map.mp hb
    have h1 := h.histLt t ht
    have h2 := (hshape t' ht').1
    rw [hab] at h1
    omega
  · intro sl hsl
    rcases List.mem_append.mp hsl with hsl | hsl
    · have := h.tickedLt sl hsl; show _ < slot + 1; omega
    · simp at hsl; show _ < slot + 1; omega
  · refine List.pairwise_append.mpr ⟨h.tickedSorted, by simp, ?_⟩
    intro a ha b hb
    simp at hb
    have := h.tickedLt a ha
    omega
  · intro t ht
    rcases List.mem_append.mp ht with ht | ht
    · exact List.mem_append_left _ (h.histTicked t ht)
    · have := (hshape t ht).1
      exact List.mem_append_right _ (by simp [this])

theorem SInv.pump {bn : BN} {cfg : Cfg} (hdur : 0 < cfg.slotDur) :
    ∀ (fuel : Nat) (y : Sys), SInv bn cfg y → SInv bn cfg (Sys.pump bn cfg fuel y).1 := by
  intro fuel
  induction fuel with
  | zero => intro y h; exact h
  | succ n ih =>
    intro y h
    unfold Sys.pump
    cases hts : tickerStep cfg.slotDur y.now y.next with
    | none => exact h
    | some p =>
      obtain ⟨slot, next'⟩ := p
      obtain ⟨h1, rfl⟩ := tickerStep_some hdur hts
      exact ih _ (h.tick h1)

theorem SInv.step {bn : BN} {cfg : Cfg} (hdur : 0 < cfg.slotDur) {y : Sys} (h : SInv bn cfg y) (e : Ev) :
    SInv bn cfg (Sys.step bn cfg y e).1 := by
  cases e with
  | adv d =>
    unfold Sys.step
    apply SInv.pump hdur
    exact ⟨h.j, h.histJ, h.histLt, h.histNb, h.nodup, h.tickedLt, h.tickedSorted, h.histTicked⟩
  | reorg ep =>
    unfold Sys.step
    exact ⟨reorg_JInv ep h.j, fun t ht pk df hm => (h.histJ t ht pk df hm).mono (reorg_cnt cfg y.st ep),
      h.histLt, h.histNb, h.nodup, h.tickedLt, h.tickedSorted, h.histTicked⟩

theorem SInv.run {bn : BN} {cfg : Cfg} (hdur : 0 < cfg.slotDur) :
    ∀ (es : List Ev) (y : Sys), SInv bn cfg y → SInv bn cfg (Sys.run bn cfg y es) := by
  intro es
  induction es with
  | nil => intro y h; exact h
  | cons e es ih => intro y h; exact ih _ (h.step hdur e)

/-- states reachable from the creation of the ticker at any clock value by any sequence of clock
advances and reorg events. -/
def Reach (bn : BN) (cfg : Cfg) (y : Sys) : Prop := ∃ t0 es, y = Sys.run bn cfg (Sys.init cfg t0) es

theorem reach_inv {bn : BN} {cfg : Cfg} (hdur : 0 < cfg.slotDur) {y : Sys} (h : Reach bn cfg y) : SInv bn cfg y := by
  obtain ⟨t0, es, rfl⟩ := h
  exact SInv.run hdur es _ (SInv.init bn cfg t0)

/-! ### completeness: hypotheses on the beacon node and the expected definition sets -/

/-- what the beacon node "really" assigns, per epoch. -/
structure Truth where
  vals : Nat → List Val
  att  : Nat → List AttDuty
  pro  : Nat → List ProDuty
  sync : Nat → List SyncDuty

/-- The beacon node's successful answers for an epoch do not change between retries: each equals
the truth for that epoch (errors are unrestricted). -/
def Stable (bn : BN) (T : Truth) : Prop :=
  (∀ k e l, bn.vals k e = some l → l = (T.vals e).map some) ∧
  (∀ k e ix l, bn.att k e ix = some l → l = (T.att e).map some) ∧
  (∀ k e ix l, bn.pro k e ix = some l → l = (T.pro e).map some) ∧
  (∀ k e ix l, bn.sync k e ix = some l → l = (T.sync e).map some)

/-- The answers for an epoch only name slots of that epoch. -/
def WellFormed (cfg : Cfg) (T : Truth) : Prop :=
  (∀ e a, a ∈ T.att e → a.slot / cfg.spe = e) ∧ (∀ e p, p ∈ T.pro e → p.slot / cfg.spe = e)

/-- the cluster validators that are active in (or activate in) epoch `e`. -/
def activeOf (T : Truth) (e : Nat) : List Val := (T.vals e).filter (fun v => v.active || v.actEpoch == e)

/-- `df` is the beacon node's assignment, for duty `d`, of an active cluster validator with pubkey `pk`. -/
def Expected (cfg : Cfg) (T : Truth) (d : Duty) (pk : Nat) : Def → Prop
  | .att a => (d.ty = tyAttester ∨ d.ty = tyAggregator) ∧ a ∈ T.att (d.slot / cfg.spe) ∧ a.slot = d.slot ∧ a.pk = pk ∧
      ∃ v ∈ activeOf T (d.slot / cfg.spe), v.idx = a.vidx ∧ v.pk = pk
  | .pro p => d.ty = tyProposer ∧ p ∈ T.pro (d.slot / cfg.spe) ∧ p.slot = d.slot ∧ p.pk = pk ∧
      ∃ v ∈ activeOf T (d.slot / cfg.spe), v.idx = p.vidx ∧ v.pk = pk
  | .sync y => d.ty = tySyncContribution ∧ y ∈ T.sync (d.slot / cfg.spe) ∧ y.pk = pk ∧
      ∃ v ∈ activeOf T (d.slot / cfg.spe), v.idx = y.vidx ∧ v.pk = pk

theorem filterMap_id_map_some {α : Type} (l : List α) : (l.map some).filterMap id = l := by
  induction l with
  | nil => rfl
  | cons a l ih => simp [ih]

theorem any_isNone_map_some {α : Type} (l : List α) : (l.map some).any Option.isNone = false := by
  induction l with
  | nil => rfl
  | cons a l ih => simp [ih]

theorem activeVals_stable {bn : BN} {T : Truth} (hst : Stable bn T) {k e : Nat} {vals : List Val}
    (h : activeVals (bn.vals k e) e = some vals) : vals = activeOf T e := by
  unfold activeVals at h
  cases hb : bn.vals k e with
  | none => simp [hb] at h
  | some l =>
    have hl := hst.1 k e l hb
    subst hl
    simp only [hb, any_isNone_map_some, Bool.false_eq_true, if_false, Option.some.injEq, filterMap_id_map_some] at h
    exact h.symm

/-- a definition justified by a stable, well-formed beacon node is an expected one. -/
theorem expected_of_justified {bn : BN} {cfg : Cfg} {T : Truth} (hst : Stable bn T) (hwf : WellFormed cfg T)
    {s : State} {d : Duty} {pk : Nat} {df : Def} (hj : Justified bn cfg s d pk df) : Expected cfg T d pk df := by
  have hval : ∀ e vidx, ValOK bn s e vidx pk → ∃ v ∈ activeOf T e, v.idx = vidx ∧ v.pk = pk := by
    rintro e vidx ⟨k, l, v, _, hl, hv, hi, hp, hact⟩
    have := hst.1 k e l hl
    subst this
    have hv' : v ∈ T.vals e := by simpa using hv
    refine ⟨v, ?_, hi, hp⟩
    simp only [activeOf, List.mem_filter, Bool.or_eq_true, beq_iff_eq]
    exact ⟨hv', hact⟩
  cases df with
  | att a =>
    obtain ⟨hty, hsl, hpk, e, k, ix, l, _, hl, hal, hv⟩ := hj
    have := hst.2.1 k e ix l hl
    subst this
    have ha : a ∈ T.att e := by simpa using hal
    have he : d.slot / cfg.spe = e := by rw [← hsl]; exact hwf.1 e a ha
    rw [← he] at ha hv
    exact ⟨hty, ha, hsl, hpk, hval _ _ hv⟩
  | pro p =>
    obtain ⟨hty, hsl, hpk, e, k, ix, l, _, hl, hal, hv⟩ := hj
    have := hst.2.2.1 k e ix l hl
    subst this
    have ha : p ∈ T.pro e := by simpa using hal
    have he : d.slot / cfg.spe = e := by rw [← hsl]; exact hwf.2 e p ha
    rw [← he] at ha hv
    exact ⟨hty, ha, hsl, hpk, hval _ _ hv⟩
  | sync y =>
    obtain ⟨hty, hpk, k, ix, l, _, hl, hal, hv⟩ := hj
    have := hst.2.2.2 k _ ix l hl
    subst this
    have ha : y ∈ T.sync (d.slot / cfg.spe) := by simpa using hal
    exact ⟨hty, ha, hpk, hval _ _ hv⟩

/-! ### invariants used by completeness -/

/-- every duty registered under an epoch lies in that epoch (needs `Stable` and `WellFormed`). -/
def EInv (cfg : Cfg) (s : State) : Prop := ∀ ep d, d ∈ byEp s ep → d.slot / cfg.spe = ep

/-- attester and aggregator definitions go together. -/
def DInv (s : State) : Prop :=
  (∀ sl pk, hasPk (defsOf s ⟨sl, tyAttester⟩) pk = true → hasPk (defsOf s ⟨sl, tyAggregator⟩) pk = true) ∧
  (∀ ep sl, (⟨sl, tyAggregator⟩ : Duty) ∈ byEp s ep → (⟨sl, tyAttester⟩ : Duty) ∈ byEp s ep)

/-- when an epoch is resolved, every expected definition of its slots from `lo` on is stored. -/
def CInv (cfg : Cfg) (T : Truth) (s : State) (lo : Nat) : Prop :=
  s.resolvedEpoch ≠ maxInt64 → ∀ d pk df, d.slot / cfg.spe = s.resolvedEpoch → lo ≤ d.slot →
    Expected cfg T d pk df → hasPk (defsOf s d) pk = true

theorem EInv.stores {cfg : Cfg} {R : Duty → Nat → Nat → Def → Prop} {a b : State} (h : EInv cfg a)
    (hs : Stores R a b) (hr : ∀ d ep pk df, R d ep pk df → d.slot / cfg.spe = ep) : EInv cfg b := by
  intro ep d hm
  rcases hs.byEp_mem hm with h1 | ⟨pk, df, h1⟩
  · exact h ep d h1
  · exact hr d ep pk df h1

theorem EInv.bump {cfg : Cfg} {a b : State} (h : EInv cfg a) (hd : b.dutiesByEpoch = a.dutiesByEpoch) : EInv cfg b := by
  intro ep d hm
  have : byEp b ep = byEp a ep := by simp [byEp, hd]
  rw [this] at hm
  exact h ep d hm

theorem EInv.trim {cfg : Cfg} {a : State} (h : EInv cfg a) (x : Nat) : EInv cfg (trim a x) := by
  intro ep d hm
  rw [byEp_trim] at hm
  split at hm
  · cases hm
  · exact h ep d hm

theorem EInv.trimBack {cfg : Cfg} {a : State} (h : EInv cfg a) (x : Nat) : EInv cfg (trimBack a x) := by
  unfold CharonV.Sched.trimBack; split
  · exact h.trim _
  · exact h

theorem DInv.stores_other {R : Duty → Nat → Nat → Def → Prop} {a b : State} (h : DInv a) (hs : Stores R a b)
    (hr : ∀ d ep pk df, R d ep pk df → d.ty ≠ tyAttester ∧ d.ty ≠ tyAggregator) : DInv b := by
  refine ⟨?_, ?_⟩
  · intro sl pk hp
    obtain ⟨df, hm⟩ := (hasPk_iff _ _).mp hp
    rcases hs.mem hm with h1 | ⟨ep, h1⟩
    · exact hs.grow (h.1 sl pk ((hasPk_iff _ _).mpr ⟨df, h1⟩))
    · exact absurd rfl (hr _ _ _ _ h1).1
  · intro ep sl hm
    rcases hs.byEp_mem hm with h1 | ⟨pk, df, h1⟩
    · exact hs.byEp_mono (h.2 ep sl h1)
    · exact absurd rfl (hr _ _ _ _ h1).2

theorem DInv.bump {a b : State} (h : DInv a) (hd : b.duties = a.duties) (he : b.dutiesByEpoch = a.dutiesByEpoch) : DInv b := by
  have h1 : ∀ d, defsOf b d = defsOf a d := fun d => by simp [defsOf, hd]
  have h2 : ∀ ep, byEp b ep = byEp a ep := fun ep => by simp [byEp, he]
  refine ⟨?_, ?_⟩
  · intro sl pk hp; rw [h1] at hp ⊢; exact h.1 sl pk hp
  · intro ep sl hm; rw [h2] at hm ⊢; exact h.2 ep sl hm

theorem DInv.trim {a : State} (h : DInv a) (x : Nat) : DInv (trim a x) := by
  refine ⟨?_, ?_⟩
  · intro sl pk hp
    rw [defsOf_trim] at hp ⊢
    split at hp
    · simp [hasPk] at hp
    · rename_i hn
      have hn9 : (⟨sl, tyAggregator⟩ : Duty) ∉ byEp a x := fun hc => hn (h.2 x sl hc)
      simp only [hn9, if_false]
      exact h.1 sl pk hp
  · intro ep sl hm
    rw [byEp_trim] at hm ⊢
    split at hm
    · cases hm
    · rename_i hne; simp only [hne, if_false]; exact h.2 ep sl hm

theorem DInv.trimBack {a : State} (h : DInv a) (x : Nat) : DInv (trimBack a x) := by
  unfold CharonV.Sched.trimBack; split
  · exact h.trim _
  · exact h

/-- one iteration of the attester loop keeps attester and aggregator definitions together. -/
theorem attBody_DInv {s : State} (h : DInv s) (a : AttDuty) (epoch pk : Nat) : DInv (attBody s a epoch pk) := by
  unfold attBody
  simp only
  by_cases hp : hasPk (defsOf s ⟨a.slot, tyAttester⟩) pk = true
  · -- already set: nothing changes
    have : setDef s ⟨a.slot, tyAttester⟩ epoch pk (.att a) = (s, false) := by simp [setDef, hp]
    simp [this]; exact h
  · simp only [Bool.not_eq_true] at hp
    have h2 : (setDef s ⟨a.slot, tyAttester⟩ epoch pk (.att a)).2 = true := by rw [setDef_snd, hp]; rfl
    simp only [h2, if_true]
    refine ⟨?_, ?_⟩
    · intro sl pk' hp'
      obtain ⟨df, hm⟩ := (hasPk_iff _ _).mp hp'
      rcases mem_defsOf_setDef hm with hm | ⟨hd, _, _⟩
      · rcases mem_defsOf_setDef hm with hm | ⟨hd, rfl, _⟩
        · exact setDef_mono _ _ _ _ _ _ _ (setDef_mono _ _ _ _ _ _ _ (h.1 sl pk' ((hasPk_iff _ _).mpr ⟨df, hm⟩)))
        · have : sl = a.slot := by cases hd; rfl
          subst this
          exact setDef_has _ _ _ _ _
      · cases hd
    · intro ep sl hm
      rcases mem_byEp_setDef hm with hm | ⟨rfl, hd, _⟩
      · rcases mem_byEp_setDef hm with hm | ⟨_, hd, _⟩
        · exact byEp_setDef_mono (byEp_setDef_mono (h.2 ep sl hm))
        · cases hd
      · have : sl = a.slot := by cases hd; rfl
        subst this
        apply byEp_setDef_mono
        rw [byEp_setDef]
        simp [hp]

theorem attBody_has {s : State} (h : DInv s) (a : AttDuty) (epoch pk : Nat) :
    hasPk (defsOf (attBody s a epoch pk) ⟨a.slot, tyAttester⟩) pk = true ∧
    hasPk (defsOf (attBody s a epoch pk) ⟨a.slot, tyAggregator⟩) pk = true := by
  unfold attBody
  simp only
  by_cases hp : hasPk (defsOf s ⟨a.slot, tyAttester⟩) pk = true
  · have : setDef s ⟨a.slot, tyAttester⟩ epoch pk (.att a) = (s, false) := by simp [setDef, hp]
    simp [this]; exact ⟨hp, h.1 _ _ hp⟩
  · simp only [Bool.not_eq_true] at hp
    have h2 : (setDef s ⟨a.slot, tyAttester⟩ epoch pk (.att a)).2 = true := by rw [setDef_snd, hp]; rfl
    simp only [h2, if_true]
    exact ⟨setDef_mono _ _ _ _ _ _ _ (setDef_has _ _ _ _ _), setDef_has _ _ _ _ _⟩

theorem attBody_grow (s : State) (a : AttDuty) (epoch pk : Nat) {d : Duty} {pk' : Nat}
    (h : hasPk (defsOf s d) pk' = true) : hasPk (defsOf (attBody s a epoch pk) d) pk' = true :=
  (attBody_stores (R := fun _ _ _ _ => True) s a epoch pk trivial trivial).grow h

/-! ### what a successful phase has stored -/

theorem resolveAtt_complete {bn : BN} {cfg : Cfg} {s : State} {slot : Nat} {vals : List Val} (hd : DInv s)
    (hok : (resolveAtt bn cfg s slot vals).2 = true) :
    ∃ l, bn.att s.na (slot / cfg.spe) (vals.map (fun v => v.idx)) = some l ∧
      ∀ a, some a ∈ l → slot ≤ a.slot → ∀ pk, pubKeyFromIndex vals a.vidx = some pk →
        a.pk = pk ∧ hasPk (defsOf (resolveAtt bn cfg s slot vals).1 ⟨a.slot, tyAttester⟩) pk = true ∧
          hasPk (defsOf (resolveAtt bn cfg s slot vals).1 ⟨a.slot, tyAggregator⟩) pk = true := by
  unfold resolveAtt at hok ⊢
  simp only at hok ⊢
  cases hans : bn.att s.na (slot / cfg.spe) (vals.map (fun v => v.idx)) with
  | none => simp [hans] at hok
  | some l =>
    simp only [hans] at hok ⊢
    refine ⟨l, rfl, ?_⟩
    split at hok
    · cases hok
    · rename_i hnil
      simp only [hnil]
      intro a hal hsl pk hpk
      unfold attLoop at hok ⊢
      have := resolveLoop_complete (fun a => decide (a.slot < slot)) (fun a => a.vidx) (fun a => a.pk)
        (fun st a pk => attBody st a (slot / cfg.spe) pk) vals (fun st => DInv st)
        (fun a pk st => hasPk (defsOf st ⟨a.slot, tyAttester⟩) pk = true ∧ hasPk (defsOf st ⟨a.slot, tyAggregator⟩) pk = true)
        (sortBySlot (l.filterMap id)) { s with na := s.na + 1 } (hd.bump rfl rfl)
        (fun st b pkb hP _ _ _ _ => ⟨attBody_DInv hP b _ pkb, attBody_has hP b _ pkb⟩)
        (fun st b pkb c pkc _ hQ _ _ _ _ => ⟨attBody_grow st c _ pkc hQ.1, attBody_grow st c _ pkc hQ.2⟩)
        hok a ((mem_sortBySlot a _).mpr ((mem_filterMap_id a l).mpr hal)) (by simpa using hsl) pk hpk
      exact this

theorem resolvePro_complete {bn : BN} {cfg : Cfg} {s : State} {slot : Nat} {vals : List Val}
    (hok : (resolvePro bn cfg s slot vals).2 = true) :
    ∃ l, bn.pro s.np (slot / cfg.spe) (vals.map (fun v => v.idx)) = some l ∧
      ∀ p, some p ∈ l → slot ≤ p.slot → ∀ pk, pubKeyFromIndex vals p.vidx = some pk →
        p.pk = pk ∧ hasPk (defsOf (resolvePro bn cfg s slot vals).1 ⟨p.slot, tyProposer⟩) pk = true := by
  unfold resolvePro at hok ⊢
  simp only at hok ⊢
  cases hans : bn.pro s.np (slot / cfg.spe) (vals.map (fun v => v.idx)) with
  | none => simp [hans] at hok
  | some l =>
    simp only [hans] at hok ⊢
    refine ⟨l, rfl, ?_⟩
    split at hok
    · cases hok
    · rename_i hnil
      simp only [hnil]
      intro p hal hsl pk hpk
      unfold proLoop at hok ⊢
      have := resolveLoop_complete (fun p => decide (p.slot < slot)) (fun p => p.vidx) (fun p => p.pk)
        (fun st p pk => (setDef st ⟨p.slot, tyProposer⟩ (slot / cfg.spe) pk (.pro p)).1) vals (fun _ => True)
        (fun p pk st => hasPk (defsOf st ⟨p.slot, tyProposer⟩) pk = true)
        (l.filterMap id) { s with np := s.np + 1 } trivial
        (fun st b pkb _ _ _ _ _ => ⟨trivial, setDef_has _ _ _ _ _⟩)
        (fun st b pkb c pkc _ hQ _ _ _ _ => setDef_mono _ _ _ _ _ _ _ hQ)
        hok p ((mem_filterMap_id p l).mpr hal) (by simpa using hsl) pk hpk
      exact this

theorem resolveSync_complete {bn : BN} {cfg : Cfg} {s : State} {slot : Nat} {vals : List Val}
    (hok : (resolveSync bn cfg s slot vals).2 = true) :
    ∃ l, bn.sync s.ns (slot / cfg.spe) (vals.map (fun v => v.idx)) = some l ∧
      ∀ y, some y ∈ l → ∀ pk, pubKeyFromIndex vals y.vidx = some pk →
        y.pk = pk ∧ ∀ sl ∈ syncSlots slot cfg.spe,
          hasPk (defsOf (resolveSync bn cfg s slot vals).1 ⟨sl, tySyncContribution⟩) pk = true := by
  unfold resolveSync at hok ⊢
  simp only at hok ⊢
  cases hans : bn.sync s.ns (slot / cfg.spe) (vals.map (fun v => v.idx)) with
  | none => simp [hans] at hok
  | some l =>
    simp only [hans] at hok ⊢
    refine ⟨l, rfl, ?_⟩
    split at hok
    · cases hok
    · rename_i hnil
      simp only [hnil]
      intro y hal pk hpk
      unfold syncLoop at hok ⊢
      have := resolveLoop_complete (fun _ => false) (fun (d : SyncDuty) => d.vidx) (fun d => d.pk)
        (fun st d pk => setSyncDefs (slot / cfg.spe) pk d (syncSlots slot cfg.spe) st) vals (fun _ => True)
        (fun _ pk st => ∀ sl ∈ syncSlots slot cfg.spe, hasPk (defsOf st ⟨sl, tySyncContribution⟩) pk = true)
        (l.filterMap id) { s with ns := s.ns + 1 } trivial
        (fun st b pkb _ _ _ _ _ => ⟨trivial, fun sl hsl => setSyncDefs_has _ _ _ _ _ _ hsl⟩)
        (fun st b pkb c pkc _ hQ _ _ _ _ sl hsl =>
          (setSyncDefs_stores (R := fun _ _ _ _ => True) _ pkc c _ st st (Stores.refl _) (fun _ _ => trivial)).grow (hQ sl hsl))
        hok y ((mem_filterMap_id y l).mpr hal) rfl pk hpk
      exact this

/-! ### `resolveDuties` keeps the invariants -/

/-- definition sets only grow up to the last phase of `resolveDuties`. -/
theorem st_grow (bn : BN) (cfg : Cfg) (s : State) (slot : Nat) (vals : List Val) {d : Duty} {pk : Nat}
    (h : hasPk (defsOf s d) pk = true) :
    hasPk (defsOf (st2 bn cfg s slot vals) d) pk = true ∧ hasPk (defsOf (st3 bn cfg s slot vals) d) pk = true ∧
    hasPk (defsOf (st4 bn cfg s slot vals) d) pk = true := by
  have h2 : hasPk (defsOf (st2 bn cfg s slot vals) d) pk = true :=
    (resolveAtt_stores bn cfg (st1 s) slot vals).grow h
  have h3 : hasPk (defsOf (st3 bn cfg s slot vals) d) pk = true :=
    (resolvePro_stores bn cfg (st2 bn cfg s slot vals) slot vals).grow h2
  exact ⟨h2, h3, (resolveSync_stores bn cfg (st3 bn cfg s slot vals) slot vals).grow h3⟩

section stable
variable {bn : BN} {cfg : Cfg} {T : Truth} (hst : Stable bn T) (hwf : WellFormed cfg T)
include hst hwf

theorem st_EInv {s : State} (slot : Nat) (vals : List Val) (h : EInv cfg s) :
    EInv cfg (st2 bn cfg s slot vals) ∧ EInv cfg (st3 bn cfg s slot vals) ∧ EInv cfg (st4 bn cfg s slot vals) := by
  have h2 : EInv cfg (st2 bn cfg s slot vals) := by
    apply (h.bump (b := { st1 s with na := (st1 s).na + 1 }) rfl).stores (resolveAtt_stores bn cfg (st1 s) slot vals)
    rintro d ep pk df ⟨rfl, _, a, l, rfl, _, hsl, _, _, hans, hal⟩
    have := hst.2.1 _ _ _ _ hans
    subst this
    rw [← hsl]
    exact hwf.1 _ a (by simpa using hal)
  have h3 : EInv cfg (st3 bn cfg s slot vals) := by
    apply (h2.bump (b := { st2 bn cfg s slot vals with np := (st2 bn cfg s slot vals).np + 1 }) rfl).stores
      (resolvePro_stores bn cfg (st2 bn cfg s slot vals) slot vals)
    rintro d ep pk df ⟨rfl, _, p, l, rfl, _, hsl, _, _, hans, hal⟩
    have := hst.2.2.1 _ _ _ _ hans
    subst this
    rw [← hsl]
    exact hwf.2 _ p (by simpa using hal)
  refine ⟨h2, h3, ?_⟩
  apply (h3.bump (b := { st3 bn cfg s slot vals with ns := (st3 bn cfg s slot vals).ns + 1 }) rfl).stores
    (resolveSync_stores bn cfg (st3 bn cfg s slot vals) slot vals)
  rintro d ep pk df ⟨_, _, y, l, _, _, hde, _⟩
  exact hde

theorem resolveDuties_EInv {s : State} (slot : Nat) (h : EInv cfg s) : EInv cfg (resolveDuties bn cfg s slot) := by
  apply resolveDuties_ind
  · exact h.bump rfl
  · intro _; exact h.bump rfl
  · intro vals _ _
    obtain ⟨h2, h3, h4⟩ := st_EInv hst hwf slot vals h
    exact ⟨h2, h3, h4, fun _ => (h4.bump (b := { st4 bn cfg s slot vals with resolvedEpoch := slot / cfg.spe }) rfl).trimBack _⟩

end stable

theorem st_DInv {bn : BN} {cfg : Cfg} {s : State} (slot : Nat) (vals : List Val) (h : DInv s) :
    DInv (st2 bn cfg s slot vals) ∧ DInv (st3 bn cfg s slot vals) ∧ DInv (st4 bn cfg s slot vals) := by
  have h2 : DInv (st2 bn cfg s slot vals) := by
    show DInv (resolveAtt bn cfg (st1 s) slot vals).1
    unfold resolveAtt
    simp only
    cases bn.att (st1 s).na (slot / cfg.spe) (vals.map (fun v => v.idx)) with
    | none => exact h.bump rfl rfl
    | some l =>
      simp only
      split
      · exact h.bump rfl rfl
      · unfold attLoop
        apply resolveLoop_ind _ _ _ _ _ (fun st => DInv st)
        · exact h.bump rfl rfl
        · intro st a pk hP _ _ _ _; exact attBody_DInv hP a _ pk
  have h3 : DInv (st3 bn cfg s slot vals) := by
    apply (h2.bump (b := { st2 bn cfg s slot vals with np := (st2 bn cfg s slot vals).np + 1 }) rfl rfl).stores_other
      (resolvePro_stores bn cfg (st2 bn cfg s slot vals) slot vals)
    rintro d ep pk df ⟨_, _, p, l, _, hty, _⟩
    rw [hty]; exact ⟨by decide, by decide⟩
  refine ⟨h2, h3, ?_⟩
  apply (h3.bump (b := { st3 bn cfg s slot vals with ns := (st3 bn cfg s slot vals).ns + 1 }) rfl rfl).stores_other
    (resolveSync_stores bn cfg (st3 bn cfg s slot vals) slot vals)
  rintro d ep pk df ⟨_, _, y, l, _, hty, _⟩
  rw [hty]; exact ⟨by decide, by decide⟩

theorem resolveDuties_DInv {bn : BN} {cfg : Cfg} {s : State} (slot : Nat) (h : DInv s) :
    DInv (resolveDuties bn cfg s slot) := by
  apply resolveDuties_ind
  · exact h.bump rfl rfl
  · intro _; exact h.bump rfl rfl
  · intro vals _ _
    obtain ⟨h2, h3, h4⟩ := st_DInv (bn := bn) (cfg := cfg) slot vals h
    exact ⟨h2, h3, h4, fun _ =>
      (h4.bump (b := { st4 bn cfg s slot vals with resolvedEpoch := slot / cfg.spe }) rfl rfl).trimBack _⟩

theorem reorg_EInv {cfg : Cfg} {s : State} (ep : Nat) (h : EInv cfg s) : EInv cfg (reorg cfg s ep) := by
  unfold reorg; split
  · split
    · exact (h.trim _).bump rfl
    · exact h
  · exact h

theorem reorg_DInv {cfg : Cfg} {s : State} (ep : Nat) (h : DInv s) : DInv (reorg cfg s ep) := by
  unfold reorg; split
  · split
    · exact (h.trim _).bump rfl rfl
    · exact h
  · exact h

theorem defsOf_trimBack_keep {cfg : Cfg} {s : State} (h : EInv cfg s) {e : Nat} {d : Duty}
    (hne : 3 ≤ e → d.slot / cfg.spe ≠ e - 3) : defsOf (trimBack s e) d = defsOf s d := by
  unfold trimBack
  split
  · rename_i h3
    rw [defsOf_trim]
    split
    · rename_i hm; exact absurd (h _ _ hm) (hne h3)
    · rfl
  · rfl

theorem trimBack_resolvedEpoch (s : State) (e : Nat) : (trimBack s e).resolvedEpoch = s.resolvedEpoch := by
  unfold trimBack; split <;> simp

theorem CInv.weaken {cfg : Cfg} {T : Truth} {s : State} {lo lo' : Nat} (h : CInv cfg T s lo) (hle : lo ≤ lo') :
    CInv cfg T s lo' :=
  fun hm d pk df he hlo hx => h hm d pk df he (Nat.le_trans hle hlo) hx

section stable2
variable {bn : BN} {cfg : Cfg} {T : Truth} (hst : Stable bn T) (hwf : WellFormed cfg T) (hspe : 0 < cfg.spe)
include hst hwf hspe

/-- `resolveDuties` either leaves `resolvedEpoch` alone (and only adds definitions) or resolves the
slot's epoch completely from `slot` on. -/
theorem resolveDuties_CInv {s : State} {lo : Nat} (slot : Nat) (hE : EInv cfg s) (hD : DInv s)
    (hC : CInv cfg T s lo) :
    ((resolveDuties bn cfg s slot).resolvedEpoch = s.resolvedEpoch ∧ CInv cfg T (resolveDuties bn cfg s slot) lo) ∨
    ((resolveDuties bn cfg s slot).resolvedEpoch = slot / cfg.spe ∧ CInv cfg T (resolveDuties bn cfg s slot) slot) := by
  apply resolveDuties_ind bn cfg s slot
    (fun s' => (s'.resolvedEpoch = s.resolvedEpoch ∧ CInv cfg T s' lo) ∨
      (s'.resolvedEpoch = slot / cfg.spe ∧ CInv cfg T s' slot))
  · exact Or.inl ⟨rfl, hC⟩
  · intro hv
    refine Or.inr ⟨rfl, ?_⟩
    intro _ d pk df he _ hx
    have hempty : activeOf T (slot / cfg.spe) = [] := (activeVals_stable hst hv).symm
    have he' : d.slot / cfg.spe = slot / cfg.spe := he
    cases df with
    | att a => obtain ⟨_, _, _, _, v, hv', _⟩ := hx; rw [he', hempty] at hv'; cases hv'
    | pro p => obtain ⟨_, _, _, _, v, hv', _⟩ := hx; rw [he', hempty] at hv'; cases hv'
    | sync y => obtain ⟨_, _, _, v, hv', _⟩ := hx; rw [he', hempty] at hv'; cases hv'
  · intro vals hv hne
    obtain ⟨⟨r2, _⟩, ⟨r3, _⟩, ⟨r4, _⟩⟩ := st_same bn cfg s slot vals
    have hgrow : ∀ {d pk}, hasPk (defsOf s d) pk = true → _ := fun {d pk} h => st_grow bn cfg s slot vals (d := d) (pk := pk) h
    have hvals : vals = activeOf T (slot / cfg.spe) := activeVals_stable hst hv
    refine ⟨Or.inl ⟨r2, ?_⟩, Or.inl ⟨r3, ?_⟩, Or.inl ⟨r4, ?_⟩, ?_⟩
    · intro hm d pk df he hlo hx
      exact (hgrow (hC (by rw [← r2]; exact hm) d pk df (by rw [← r2]; exact he) hlo hx)).1
    · intro hm d pk df he hlo hx
      exact (hgrow (hC (by rw [← r3]; exact hm) d pk df (by rw [← r3]; exact he) hlo hx)).2.1
    · intro hm d pk df he hlo hx
      exact (hgrow (hC (by rw [← r4]; exact hm) d pk df (by rw [← r4]; exact he) hlo hx)).2.2
    · rintro ⟨ok2, ok3, ok4⟩
      have hre : (st5 bn cfg s slot vals).resolvedEpoch = slot / cfg.spe := by
        unfold st5; rw [trimBack_resolvedEpoch]
      refine Or.inr ⟨hre, ?_⟩
      intro _ d pk df he hlo hx
      rw [hre] at he
      obtain ⟨hD2, hD3, _⟩ := st_DInv (bn := bn) (cfg := cfg) slot vals hD
      obtain ⟨_, _, hE4⟩ := st_EInv hst hwf slot vals hE
      -- the final trim does not touch the epoch just resolved
      have hkeep : defsOf (st5 bn cfg s slot vals) d = defsOf (st4 bn cfg s slot vals) d := by
        unfold st5
        rw [defsOf_trimBack_keep (cfg := cfg) (s := { st4 bn cfg s slot vals with resolvedEpoch := slot / cfg.spe })
          (hE4.bump rfl) (e := slot / cfg.spe) (d := d) (by intro h3; omega)]
        rfl
      rw [hkeep]
      -- a validator of the expected definition is found by `pubKeyFromIndex`
      have hfind : ∀ vidx, (∃ v ∈ activeOf T (slot / cfg.spe), v.idx = vidx ∧ v.pk = pk) →
          ∃ pk', pubKeyFromIndex vals vidx = some pk' := by
        rintro vidx ⟨v, hvm, hi, _⟩
        exact pubKeyFromIndex_isSome (by rw [hvals]; exact hvm) hi
      cases df with
      | att a =>
        obtain ⟨hty, ha, hsl, hpk, hv'⟩ := hx
        rw [he] at ha hv'
        obtain ⟨pk', hpk'⟩ := hfind _ hv'
        obtain ⟨l, hl, hall⟩ := resolveAtt_complete (hD.bump (b := st1 s) rfl rfl) ok2
        have := hst.2.1 _ _ _ _ hl
        subst this
        obtain ⟨h1, h2, h9⟩ := hall a (by simpa using ha) (by rw [hsl]; exact hlo) pk' hpk'
        have : pk' = pk := by rw [← h1, hpk]
        subst this
        have hd : d = ⟨a.slot, d.ty⟩ := by cases d; simp at hsl ⊢; exact hsl.symm
        rcases hty with hty | hty
        · rw [hd, hty]
          exact (resolveSync_stores bn cfg (st3 bn cfg s slot vals) slot vals).grow
            ((resolvePro_stores bn cfg (st2 bn cfg s slot vals) slot vals).grow h2)
        · rw [hd, hty]
          exact (resolveSync_stores bn cfg (st3 bn cfg s slot vals) slot vals).grow
            ((resolvePro_stores bn cfg (st2 bn cfg s slot vals) slot vals).grow h9)
      | pro p =>
        obtain ⟨hty, ha, hsl, hpk, hv'⟩ := hx
        rw [he] at ha hv'
        obtain ⟨pk', hpk'⟩ := hfind _ hv'
        obtain ⟨l, hl, hall⟩ := resolvePro_complete ok3
        have := hst.2.2.1 _ _ _ _ hl
        subst this
        obtain ⟨h1, h2⟩ := hall p (by simpa using ha) (by rw [hsl]; exact hlo) pk' hpk'
        have : pk' = pk := by rw [← h1, hpk]
        subst this
        have hd : d = ⟨p.slot, tyProposer⟩ := by cases d; simp at hsl hty ⊢; exact ⟨hsl.symm, hty⟩
        rw [hd]
        exact (resolveSync_stores bn cfg (st3 bn cfg s slot vals) slot vals).grow h2
      | sync y =>
        obtain ⟨hty, ha, hpk, hv'⟩ := hx
        rw [he] at ha hv'
        obtain ⟨pk', hpk'⟩ := hfind _ hv'
        obtain ⟨l, hl, hall⟩ := resolveSync_complete ok4
        have := hst.2.2.2 _ _ _ _ hl
        subst this
        obtain ⟨h1, h2⟩ := hall y (by simpa using ha) pk' hpk'
        have : pk' = pk := by rw [← h1, hpk]
        subst this
        have hd : d = ⟨d.slot, tySyncContribution⟩ := by cases d; simp at hty ⊢; exact hty
        rw [hd]
        exact h2 d.slot (mem_syncSlots.mpr ⟨hlo, lt_add_of_same_epoch hspe he, he⟩)

end stable2

theorem succ_div_le (a b : Nat) (hb : 0 < b) : (a + 1) / b ≤ a / b + 1 := by
  have h1 : (a + 1) / b ≤ (a + b) / b := Nat.div_le_div_right (by omega)
  rwa [Nat.add_div_right a hb] at h1

section stable3
variable {bn : BN} {cfg : Cfg} {T : Truth} (hst : Stable bn T) (hwf : WellFormed cfg T) (hspe : 0 < cfg.spe)
include hst hwf hspe

/-- resolving the next epoch does not take a pubkey away from a definition set of the current slot. -/
theorem resolveDuties_keep {s : State} (hE : EInv cfg s) {slot ty pk : Nat}
    (h : hasPk (defsOf s ⟨slot, ty⟩) pk = true) :
    hasPk (defsOf (resolveDuties bn cfg s (slot + 1)) ⟨slot, ty⟩) pk = true := by
  apply resolveDuties_ind bn cfg s (slot + 1) (fun s' => hasPk (defsOf s' ⟨slot, ty⟩) pk = true)
  · exact h
  · intro _; exact h
  · intro vals _ _
    obtain ⟨h2, h3, h4⟩ := st_grow bn cfg s (slot + 1) vals h
    refine ⟨h2, h3, h4, fun _ => ?_⟩
    obtain ⟨_, _, hE4⟩ := st_EInv hst hwf (slot + 1) vals hE
    unfold st5
    rw [defsOf_trimBack_keep (cfg := cfg) (s := { st4 bn cfg s (slot + 1) vals with resolvedEpoch := (slot + 1) / cfg.spe })
      (hE4.bump rfl) (e := (slot + 1) / cfg.spe) (d := ⟨slot, ty⟩)
      (by intro h3; have := succ_div_le slot cfg.spe hspe; show slot / cfg.spe ≠ _; omega)]
    exact h4

theorem trigLoop_complete (slot : Nat) :
    ∀ (tys : List Nat) (s : State), EInv cfg s → ∀ ty ∈ tys, ∀ pk, hasPk (defsOf s ⟨slot, ty⟩) pk = true →
      ∃ t ∈ (trigLoop bn cfg slot tys s).2, t.duty = ⟨slot, ty⟩ ∧ hasPk t.defs pk = true := by
  intro tys
  induction tys with
  | nil => intro s _ ty hty; cases hty
  | cons ty0 tys ih =>
    intro s hE ty hty pk hp
    unfold trigLoop
    cases hg : AMap.get? s.duties ⟨slot, ty0⟩ with
    | none =>
      simp only
      rcases List.mem_cons.mp hty with rfl | hty'
      · simp [defsOf, hg, hasPk] at hp
      · exact ih s hE ty hty' pk hp
    | some ds =>
      simp only [List.mem_cons]
      rcases List.mem_cons.mp hty with rfl | hty'
      · refine ⟨_, Or.inl rfl, rfl, ?_⟩
        rw [← get?_duties s _ _ hg]; exact hp
      · split
        · obtain ⟨t, ht, h1, h2⟩ := ih _ (resolveDuties_EInv hst hwf (slot + 1) hE) ty hty' pk
            (resolveDuties_keep hst hwf hspe hE hp)
          exact ⟨t, Or.inr ht, h1, h2⟩
        · obtain ⟨t, ht, h1, h2⟩ := ih s hE ty hty' pk hp
          exact ⟨t, Or.inr ht, h1, h2⟩

theorem trigLoop_inv (slot : Nat) :
    ∀ (tys : List Nat) (s : State), EInv cfg s → DInv s → CInv cfg T s (slot + 1) →
      EInv cfg (trigLoop bn cfg slot tys s).1 ∧ DInv (trigLoop bn cfg slot tys s).1 ∧
      CInv cfg T (trigLoop bn cfg slot tys s).1 (slot + 1) := by
  intro tys
  induction tys with
  | nil => intro s hE hD hC; exact ⟨hE, hD, hC⟩
  | cons ty0 tys ih =>
    intro s hE hD hC
    unfold trigLoop
    cases hg : AMap.get? s.duties ⟨slot, ty0⟩ with
    | none => exact ih s hE hD hC
    | some ds =>
      simp only
      split
      · apply ih _ (resolveDuties_EInv hst hwf (slot + 1) hE) (resolveDuties_DInv (slot + 1) hD)
        rcases resolveDuties_CInv hst hwf hspe (slot + 1) hE hD hC with ⟨_, h⟩ | ⟨_, h⟩
        · exact h
        · exact h
      · exact ih s hE hD hC

theorem preResolve_inv {s : State} {lo slot : Nat} (hlo : lo ≤ slot) (hE : EInv cfg s) (hD : DInv s)
    (hC : CInv cfg T s lo) :
    EInv cfg (preResolve bn cfg s slot) ∧ DInv (preResolve bn cfg s slot) ∧ CInv cfg T (preResolve bn cfg s slot) slot := by
  unfold preResolve
  split
  · refine ⟨resolveDuties_EInv hst hwf slot hE, resolveDuties_DInv slot hD, ?_⟩
    rcases resolveDuties_CInv hst hwf hspe slot hE hD hC with ⟨_, h⟩ | ⟨_, h⟩
    · exact h.weaken hlo
    · exact h
  · exact ⟨hE, hD, hC.weaken hlo⟩

/-- system invariant under a stable, well-formed beacon node. -/
structure CSInv (cfg : Cfg) (T : Truth) (y : Sys) : Prop where
  e : EInv cfg y.st
  d : DInv y.st
  c : CInv cfg T y.st y.next

omit hst hwf hspe in
theorem CSInv.init (cfg : Cfg) (T : Truth) (t0 : Nat) : CSInv cfg T (Sys.init cfg t0) where
  e := by intro ep d h; simp [Sys.init, byEp, AMap.get?] at h
  d := by
    refine ⟨?_, ?_⟩
    · intro sl pk h; simp [Sys.init, defsOf, AMap.get?, hasPk] at h
    · intro ep sl h; simp [Sys.init, byEp, AMap.get?] at h
  c := by intro h; exact absurd rfl h

theorem CSInv.tick {y : Sys} (h : CSInv cfg T y) {slot : Nat} (hs : y.next ≤ slot) :
    CSInv cfg T (Sys.tick bn cfg y slot (slot + 1)).1 := by
  obtain ⟨hE, hD, hC⟩ := preResolve_inv hst hwf hspe hs h.e h.d h.c
  obtain ⟨hE', hD', hC'⟩ := trigLoop_inv hst hwf hspe slot allDutyTypes _ hE hD (hC.weaken (Nat.le_succ _))
  exact ⟨hE', hD', hC'⟩

theorem CSInv.pump (hdur : 0 < cfg.slotDur) :
    ∀ (fuel : Nat) (y : Sys), CSInv cfg T y → CSInv cfg T (Sys.pump bn cfg fuel y).1 := by
  intro fuel
  induction fuel with
  | zero => intro y h; exact h
  | succ n ih =>
    intro y h
    unfold Sys.pump
    cases hts : tickerStep cfg.slotDur y.now y.next with
    | none => exact h
    | some p =>
      obtain ⟨slot, next'⟩ := p
      obtain ⟨h1, rfl⟩ := tickerStep_some hdur hts
      exact ih _ (h.tick hst hwf hspe h1)

theorem CSInv.step (hdur : 0 < cfg.slotDur) {y : Sys} (h : CSInv cfg T y) (e : Ev) :
    CSInv cfg T (Sys.step bn cfg y e).1 := by
  cases e with
  | adv d =>
    unfold Sys.step
    apply CSInv.pump hst hwf hspe hdur
    exact ⟨h.e, h.d, h.c⟩
  | reorg ep =>
    unfold Sys.step
    refine ⟨reorg_EInv ep h.e, reorg_DInv ep h.d, ?_⟩
    show CInv cfg T (reorg cfg y.st ep) y.next
    unfold reorg
    split
    · split
      · intro hm; exact absurd rfl hm
      · exact h.c
    · exact h.c

theorem CSInv.run (hdur : 0 < cfg.slotDur) :
    ∀ (es : List Ev) (y : Sys), CSInv cfg T y → CSInv cfg T (Sys.run bn cfg y es) := by
  intro es
  induction es with
  | nil => intro y h; exact h
  | cons e es ih => intro y h; exact ih _ (h.step hst hwf hspe hdur e)

theorem reach_cinv (hdur : 0 < cfg.slotDur) {y : Sys} (h : Reach bn cfg y) : CSInv cfg T y := by
  obtain ⟨t0, es, rfl⟩ := h
  exact CSInv.run hst hwf hspe hdur es _ (CSInv.init cfg T t0)

end stable3

/-! ### triggered definition sets are frozen

In Go the trigger goroutine holds the map stored in `s.duties` (not a copy) until the delay has
passed; the model hands the trigger a copy. Both agree because nothing is ever added to a
definition set of a slot that has been handled. -/

theorem mem_defsOf_trimBack {s : State} {e : Nat} {d : Duty} {x : Nat × Def} (h : x ∈ defsOf (trimBack s e) d) :
    x ∈ defsOf s d := by
  unfold trimBack at h
  split at h
  · rw [defsOf_trim] at h
    split at h
    · cases h
    · exact h
  · exact h

theorem resolveDuties_noAdd (bn : BN) (cfg : Cfg) (s : State) {slot' : Nat} {d : Duty} (h : d.slot < slot') :
    ∀ x, x ∈ defsOf (resolveDuties bn cfg s slot') d → x ∈ defsOf s d := by
  apply resolveDuties_ind bn cfg s slot' (fun s' => ∀ x, x ∈ defsOf s' d → x ∈ defsOf s d)
  · intro x hx; exact hx
  · intro _ x hx; exact hx
  · intro vals _ _
    have h2 : ∀ x, x ∈ defsOf (st2 bn cfg s slot' vals) d → x ∈ defsOf s d := by
      rintro ⟨pk, df⟩ hx
      rcases (resolveAtt_stores bn cfg (st1 s) slot' vals).mem hx with h1 | ⟨ep, _, hle, _⟩
      · exact h1
      · omega
    have h3 : ∀ x, x ∈ defsOf (st3 bn cfg s slot' vals) d → x ∈ defsOf s d := by
      rintro ⟨pk, df⟩ hx
      rcases (resolvePro_stores bn cfg (st2 bn cfg s slot' vals) slot' vals).mem hx with h1 | ⟨ep, _, hle, _⟩
      · exact h2 _ h1
      · omega
    have h4 : ∀ x, x ∈ defsOf (st4 bn cfg s slot' vals) d → x ∈ defsOf s d := by
      rintro ⟨pk, df⟩ hx
      rcases (resolveSync_stores bn cfg (st3 bn cfg s slot' vals) slot' vals).mem hx with h1 | ⟨ep, _, hle, _⟩
      · exact h3 _ h1
      · omega
    refine ⟨h2, h3, h4, fun _ x hx => h4 x ?_⟩
    have := mem_defsOf_trimBack (s := { st4 bn cfg s slot' vals with resolvedEpoch := slot' / cfg.spe }) hx
    exact this

theorem reorg_noAdd (cfg : Cfg) (s : State) (ep : Nat) (d : Duty) :
    ∀ x, x ∈ defsOf (reorg cfg s ep) d → x ∈ defsOf s d := by
  intro x hx
  unfold reorg at hx
  split at hx
  · split at hx
    · have : defsOf { trim s s.resolvedEpoch with resolvedEpoch := maxInt64 } d = defsOf (trim s s.resolvedEpoch) d := rfl
      rw [this, defsOf_trim] at hx
      split at hx
      · cases hx
      · exact hx
    · exact hx
  · exact hx

theorem preResolve_noAdd (bn : BN) (cfg : Cfg) (s : State) {slot : Nat} {d : Duty} (h : d.slot < slot) :
    ∀ x, x ∈ defsOf (preResolve bn cfg s slot) d → x ∈ defsOf s d := by
  unfold preResolve
  split
  · exact resolveDuties_noAdd bn cfg s h
  · intro x hx; exact hx

theorem trigLoop_noAdd (bn : BN) (cfg : Cfg) (slot : Nat) :
    ∀ (tys : List Nat) (s : State),
      (∀ d : Duty, d.slot ≤ slot → ∀ x, x ∈ defsOf (trigLoop bn cfg slot tys s).1 d → x ∈ defsOf s d) ∧
      (∀ t ∈ (trigLoop bn cfg slot tys s).2, ∀ x, x ∈ defsOf (trigLoop bn cfg slot tys s).1 t.duty → x ∈ t.defs) := by
  intro tys
  induction tys with
  | nil => intro s; exact ⟨fun _ _ x hx => hx, by simp [trigLoop]⟩
  | cons ty0 tys ih =>
    intro s
    unfold trigLoop
    cases hg : AMap.get? s.duties ⟨slot, ty0⟩ with
    | none => exact ih s
    | some ds =>
      simp only [List.mem_cons]
      have hds := get?_duties s _ _ hg
      split
      · have hstep : ∀ d : Duty, d.slot ≤ slot → ∀ x, x ∈ defsOf (resolveDuties bn cfg s (slot + 1)) d → x ∈ defsOf s d :=
          fun d hd => resolveDuties_noAdd bn cfg s (by omega)
        refine ⟨fun d hd x hx => hstep d hd x ((ih _).1 d hd x hx), ?_⟩
        rintro t (rfl | ht) x hx
        · simp only at hx ⊢
          rw [← hds]
          exact hstep _ (Nat.le_refl _) x ((ih _).1 _ (Nat.le_refl _) x hx)
        · exact (ih _).2 t ht x hx
      · refine ⟨(ih s).1, ?_⟩
        rintro t (rfl | ht) x hx
        · simp only at hx ⊢
          rw [← hds]
          exact (ih s).1 _ (Nat.le_refl _) x hx
        · exact (ih s).2 t ht x hx

/-- nothing is ever added to the definition set of a duty that has been triggered. -/
def FInv (y : Sys) : Prop := ∀ t ∈ y.hist, ∀ x, x ∈ defsOf y.st t.duty → x ∈ t.defs

theorem FInv.tick {bn : BN} {cfg : Cfg} {y : Sys} (hf : FInv y) (hlt : ∀ t ∈ y.hist, t.duty.slot < y.next)
    {slot : Nat} (hs : y.next ≤ slot) (next' : Nat) : FInv (Sys.tick bn cfg y slot next').1 := by
  intro t ht x hx
  unfold Sys.tick at ht hx
  simp only at ht hx
  have hl := trigLoop_noAdd bn cfg slot allDutyTypes (preResolve bn cfg y.st slot)
  rcases List.mem_append.mp ht with ht | ht
  · have h1 := hlt t ht
    apply hf t ht x
    apply preResolve_noAdd bn cfg y.st (slot := slot) (by omega)
    exact hl.1 t.duty (by omega) x hx
  · exact hl.2 t ht x hx

theorem FInv.pump {bn : BN} {cfg : Cfg} (hdur : 0 < cfg.slotDur) :
    ∀ (fuel : Nat) (y : Sys), SInv bn cfg y → FInv y → FInv (Sys.pump bn cfg fuel y).1 := by
  intro fuel
  induction fuel with
  | zero => intro y _ h; exact h
  | succ n ih =>
    intro y hi h
    unfold Sys.pump
    cases hts : tickerStep cfg.slotDur y.now y.next with
    | none => exact h
    | some p =>
      obtain ⟨slot, next'⟩ := p
      obtain ⟨h1, rfl⟩ := tickerStep_some hdur hts
      exact ih _ (hi.tick h1) (h.tick hi.histLt h1 _)

theorem FInv.run {bn : BN} {cfg : Cfg} (hdur : 0 < cfg.slotDur) :
    ∀ (es : List Ev) (y : Sys), SInv bn cfg y → FInv y → FInv (Sys.run bn cfg y es) := by
  intro es
  induction es with
  | nil => intro y _ h; exact h
  | cons e es ih =>
    intro y hi h
    apply ih _ (hi.step hdur e)
    cases e with
    | adv d =>
      unfold Sys.step
      exact FInv.pump hdur 3 _ ⟨hi.j, hi.histJ, hi.histLt, hi.histNb, hi.nodup, hi.tickedLt, hi.tickedSorted, hi.histTicked⟩ h
    | reorg ep =>
      unfold Sys.step
      intro t ht x hx
      exact h t ht x (reorg_noAdd cfg y.st ep t.duty x hx)

theorem reach_finv {bn : BN} {cfg : Cfg} (hdur : 0 < cfg.slotDur) {y : Sys} (h : Reach bn cfg y) : FInv y := by
  obtain ⟨t0, es, rfl⟩ := h
  exact FInv.run hdur es _ (SInv.init bn cfg t0) (by intro t ht; simp [Sys.init] at ht)

theorem nodup_map_inj {α β : Type} {f : α → β} : ∀ {l : List α}, (l.map f).Nodup → ∀ {a b : α}, a ∈ l → b ∈ l → f a = f b → a = b := by
  intro l
  induction l with
  | nil => intro _ a b ha; cases ha
  | cons x xs ih =>
    intro hn a b ha hb hab
    simp only [List.map_cons, List.nodup_cons, List.mem_map, not_exists, not_and] at hn
    rcases List.mem_cons.mp ha with rfl | ha' <;> rcases List.mem_cons.mp hb with rfl | hb'
    · rfl
    · exact absurd hab.symm (hn.1 b hb')
    · exact absurd hab (hn.1 a ha')
    · exact ih hn.2 ha' hb' hab

/-! ### stored definitions are never altered -/

/-- a definition set has at most one definition per pubkey. -/
def UInv (s : State) : Prop := ∀ d, ((defsOf s d).map (fun p => p.1)).Nodup

theorem not_mem_of_hasPk_false {ds : DefSet} {pk : Nat} (h : hasPk ds pk = false) : pk ∉ ds.map (fun p => p.1) := by
  intro hm
  obtain ⟨⟨a, df⟩, hm', rfl⟩ := List.mem_map.mp hm
  have : hasPk ds a = true := (hasPk_iff _ _).mpr ⟨df, hm'⟩
  rw [h] at this; cases this

theorem setDef_UInv {s : State} (h : UInv s) (d : Duty) (ep pk : Nat) (df : Def) : UInv (setDef s d ep pk df).1 := by
  intro d'
  rw [defsOf_setDef]
  split
  · rename_i hc
    rw [List.map_append]
    refine List.nodup_append.mpr ⟨h d, by simp, ?_⟩
    intro a ha b hb hab
    simp at hb
    subst hb; subst hab
    exact not_mem_of_hasPk_false hc.2 ha
  · exact h d'

theorem setDef_mem_mono {s : State} {d d' : Duty} {ep pk pk' : Nat} {df df' : Def}
    (h : (pk', df') ∈ defsOf s d') : (pk', df') ∈ defsOf (setDef s d ep pk df).1 d' := by
  rw [defsOf_setDef]
  split
  · rename_i hc; obtain ⟨rfl, _⟩ := hc; exact List.mem_append_left _ h
  · exact h

theorem Stores.uinv {R : Duty → Nat → Nat → Def → Prop} {a b : State} (hs : Stores R a b) (h : UInv a) : UInv b := by
  induction hs with
  | refl => exact h
  | set d ep pk df _ _ ih => exact setDef_UInv ih d ep pk df

theorem Stores.mem_mono {R : Duty → Nat → Nat → Def → Prop} {a b : State} (hs : Stores R a b) {d : Duty} {pk : Nat} {df : Def}
    (h : (pk, df) ∈ defsOf a d) : (pk, df) ∈ defsOf b d := by
  induction hs with
  | refl => exact h
  | set d' ep pk' df' _ _ ih => exact setDef_mem_mono ih

theorem UInv.bump {a b : State} (h : UInv a) (hd : b.duties = a.duties) : UInv b := by
  intro d
  have : defsOf b d = defsOf a d := by simp [defsOf, hd]
  rw [this]; exact h d

theorem UInv.trim {a : State} (h : UInv a) (x : Nat) : UInv (trim a x) := by
  intro d
  rw [defsOf_trim]
  split
  · simp
  · exact h d

theorem UInv.trimBack {a : State} (h : UInv a) (x : Nat) : UInv (trimBack a x) := by
  unfold CharonV.Sched.trimBack; split
  · exact h.trim _
  · exact h

theorem UInv.uniq {s : State} (h : UInv s) {d : Duty} {pk : Nat} {df df' : Def}
    (h1 : (pk, df) ∈ defsOf s d) (h2 : (pk, df') ∈ defsOf s d) : df = df' := by
  have := nodup_map_inj (h d) h1 h2 rfl
  exact (Prod.mk.inj this).2

/-- `resolveDuties` keeps every stored definition as it is, or deletes its whole set (trim). -/
theorem resolveDuties_keeps (bn : BN) (cfg : Cfg) (s : State) (slot : Nat) (hu : UInv s) :
    UInv (resolveDuties bn cfg s slot) ∧
    ∀ d pk df, (pk, df) ∈ defsOf s d →
      defsOf (resolveDuties bn cfg s slot) d = [] ∨ (pk, df) ∈ defsOf (resolveDuties bn cfg s slot) d := by
  apply resolveDuties_ind bn cfg s slot
    (fun s' => UInv s' ∧ ∀ d pk df, (pk, df) ∈ defsOf s d → defsOf s' d = [] ∨ (pk, df) ∈ defsOf s' d)
  · exact ⟨hu.bump rfl, fun d pk df h => Or.inr h⟩
  · intro _; exact ⟨hu.bump rfl, fun d pk df h => Or.inr h⟩
  · intro vals _ _
    have s2 := resolveAtt_stores bn cfg (st1 s) slot vals
    have s3 := resolvePro_stores bn cfg (st2 bn cfg s slot vals) slot vals
    have s4 := resolveSync_stores bn cfg (st3 bn cfg s slot vals) slot vals
    have u2 : UInv (st2 bn cfg s slot vals) := s2.uinv (hu.bump rfl)
    have u3 : UInv (st3 bn cfg s slot vals) := s3.uinv (u2.bump rfl)
    have u4 : UInv (st4 bn cfg s slot vals) := s4.uinv (u3.bump rfl)
    have m2 : ∀ d pk df, (pk, df) ∈ defsOf s d → (pk, df) ∈ defsOf (st2 bn cfg s slot vals) d :=
      fun d pk df h => s2.mem_mono h
    have m3 : ∀ d pk df, (pk, df) ∈ defsOf s d → (pk, df) ∈ defsOf (st3 bn cfg s slot vals) d :=
      fun d pk df h => s3.mem_mono (m2 d pk df h)
    have m4 : ∀ d pk df, (pk, df) ∈ defsOf s d → (pk, df) ∈ defsOf (st4 bn cfg s slot vals) d :=
      fun d pk df h => s4.mem_mono (m3 d pk df h)
    refine ⟨⟨u2, fun d pk df h => Or.inr (m2 d pk df h)⟩, ⟨u3, fun d pk df h => Or.inr (m3 d pk df h)⟩,
      ⟨u4, fun d pk df h => Or.inr (m4 d pk df h)⟩, fun _ => ⟨?_, ?_⟩⟩
    · exact (u4.bump (b := { st4 bn cfg s slot vals with resolvedEpoch := slot / cfg.spe }) rfl).trimBack _
    · intro d pk df h
      have h4 := m4 d pk df h
      unfold st5 trimBack
      split
      · rw [defsOf_trim]
        split
        · exact Or.inl rfl
        · exact Or.inr h4
      · exact Or.inr h4

theorem reorg_keeps (cfg : Cfg) (s : State) (ep : Nat) (hu : UInv s) :
    UInv (reorg cfg s ep) ∧
    ∀ d pk df, (pk, df) ∈ defsOf s d → defsOf (reorg cfg s ep) d = [] ∨ (pk, df) ∈ defsOf (reorg cfg s ep) d := by
  unfold reorg
  split
  · split
    · refine ⟨(hu.trim _).bump rfl, ?_⟩
      intro d pk df h
      have : defsOf { trim s s.resolvedEpoch with resolvedEpoch := maxInt64 } d = defsOf (trim s s.resolvedEpoch) d := rfl
      rw [this, defsOf_trim]
      split
      · exact Or.inl rfl
      · exact Or.inr h
    · exact ⟨hu, fun d pk df h => Or.inr h⟩
  · exact ⟨hu, fun d pk df h => Or.inr h⟩

theorem trigLoop_UInv (bn : BN) (cfg : Cfg) (slot : Nat) :
    ∀ (tys : List Nat) (s : State), UInv s → UInv (trigLoop bn cfg slot tys s).1 := by
  intro tys
  induction tys with
  | nil => intro s h; exact h
  | cons ty tys ih =>
    intro s h
    unfold trigLoop
    cases AMap.get? s.duties ⟨slot, ty⟩ with
    | none => exact ih s h
    | some ds =>
      simp only
      split
      · exact ih _ (resolveDuties_keeps bn cfg s (slot + 1) h).1
      · exact ih s h

theorem scheduleSlot_UInv (bn : BN) (cfg : Cfg) (s : State) (slot : Nat) (h : UInv s) :
    UInv (scheduleSlot bn cfg s slot).1 := by
  unfold scheduleSlot
  apply trigLoop_UInv
  unfold preResolve
  split
  · exact (resolveDuties_keeps bn cfg s slot h).1
  · exact h

theorem reach_uinv {bn : BN} {cfg : Cfg} {y : Sys} (h : Reach bn cfg y) : UInv y.st := by
  obtain ⟨t0, es, rfl⟩ := h
  have h0 : UInv (Sys.init cfg t0).st := by intro d; simp [Sys.init, defsOf, AMap.get?]
  have hpump : ∀ (fuel : Nat) (y : Sys), UInv y.st → UInv (Sys.pump bn cfg fuel y).1.st := by
    intro fuel
    induction fuel with
    | zero => intro y h; exact h
    | succ n ih =>
      intro y h
      unfold Sys.pump
      cases tickerStep cfg.slotDur y.now y.next with
      | none => exact h
      | some p => exact ih _ (scheduleSlot_UInv bn cfg y.st p.1 h)
  have hrun : ∀ (es : List Ev) (y : Sys), UInv y.st → UInv (Sys.run bn cfg y es).st := by
    intro es
    induction es with
    | nil => intro y h; exact h
    | cons e es ih =>
      intro y h
      apply ih
      cases e with
      | adv d => exact hpump 3 _ h
      | reorg ep => exact (reorg_keeps cfg y.st ep h).1
  exact hrun es _ h0

end CharonV.Sched
