/-
C11 — helper lemmas about `Model/ReshareProto.lean` (protocol-level glue of the cluster-changing
ceremonies). Property theorems are in `Props/C11Reshare.lean`.
-/
import CharonV.Model.ReshareProto

namespace CharonV.ReshareProto

open CharonV.PedersenGlue

/-! ### `buildPeerMap`: position ↦ indices -/

theorem lookup_peerMapFrom (ps : List Nat) (hnd : ps.Nodup) (s k p : Nat) (hk : ps[k]? = some p) :
    lookup (peerMapFrom s ps) p = some ⟨s + k, s + k + 1⟩ := by
  induction ps generalizing s k with
  | nil => simp at hk
  | cons q qs ih =>
    cases k with
    | zero =>
      simp only [List.getElem?_cons_zero, Option.some.injEq] at hk
      subst hk
      simp [peerMapFrom, lookup]
    | succ k =>
      simp only [List.getElem?_cons_succ] at hk
      have hmem : p ∈ qs := List.mem_of_getElem? hk
      have hne : q ≠ p := by
        intro h; subst h
        exact (List.nodup_cons.mp hnd).1 hmem
      have := ih (List.nodup_cons.mp hnd).2 (s + 1) k hk
      simp only [lookup, peerMapFrom] at this ⊢
      rw [List.find?_cons_of_neg (by simpa using hne)]
      rw [this]
      simp only [Option.some.injEq, NodeIdx.mk.injEq]
      omega

/-- an absent peer reads as nothing. -/
theorem lookup_peerMapFrom_none (ps : List Nat) (s p : Nat) (h : p ∉ ps) :
    lookup (peerMapFrom s ps) p = none := by
  induction ps generalizing s with
  | nil => simp [peerMapFrom, lookup]
  | cons q qs ih =>
    have hne : q ≠ p := fun e => h (by simp [e])
    have hq : p ∉ qs := fun e => h (by simp [e])
    have := ih (s + 1) hq
    simp only [lookup, peerMapFrom] at this ⊢
    rw [List.find?_cons_of_neg (by simpa using hne)]
    exact this

/-- the nodes of a map built by `buildPeerMap`: position and identity. -/
def nodesFrom : Nat → List Nat → List Node
  | _, [] => []
  | i, p :: ps => ⟨i, p⟩ :: nodesFrom (i + 1) ps

theorem pedNodes_peerMapFrom (s : Nat) (ps : List Nat) :
    (peerMapFrom s ps).map (fun e => (⟨e.2.peerIdx, e.1⟩ : Node)) = nodesFrom s ps := by
  induction ps generalizing s with
  | nil => rfl
  | cons q qs ih => simp [peerMapFrom, nodesFrom, ih]

theorem pointOf_nodesFrom (ps : List Nat) (hnd : ps.Nodup) (s k p : Nat) (hk : ps[k]? = some p) :
    pointOf (nodesFrom s ps) p = some (s + k + 1) := by
  induction ps generalizing s k with
  | nil => simp at hk
  | cons q qs ih =>
    cases k with
    | zero =>
      simp only [List.getElem?_cons_zero, Option.some.injEq] at hk
      subst hk
      simp [pointOf, nodesFrom]
    | succ k =>
      simp only [List.getElem?_cons_succ] at hk
      have hmem : p ∈ qs := List.mem_of_getElem? hk
      have hne : q ≠ p := by
        intro h; subst h
        exact (List.nodup_cons.mp hnd).1 hmem
      have := ih (List.nodup_cons.mp hnd).2 (s + 1) k hk
      simp only [pointOf, nodesFrom] at this ⊢
      rw [List.find?_cons_of_neg (by simpa using hne)]
      rw [this]
      simp only [Option.some.injEq]
      omega

theorem nodesFrom_index_lt (ps : List Nat) (s : Nat) :
    (nodesFrom s ps).Pairwise (fun a b => a.index < b.index) ∧ ∀ n ∈ nodesFrom s ps, s ≤ n.index := by
  induction ps generalizing s with
  | nil => simp [nodesFrom]
  | cons q qs ih =>
    obtain ⟨h1, h2⟩ := ih (s + 1)
    refine ⟨?_, ?_⟩
    · simp only [nodesFrom, List.pairwise_cons]
      exact ⟨fun n hn => by have := h2 n hn; simp; omega, h1⟩
    · intro n hn
      simp only [nodesFrom, List.mem_cons] at hn
      rcases hn with rfl | hn
      · simp
      · have := h2 n hn; omega

/-! ### remove-only compaction -/

theorem compact_getElem? (rs : Reshare) (h : rs.removed.length > 0 ∧ rs.added.length = 0)
    (ns : List Node) (k : Nat) (n : Node) (hk : ns[k]? = some n) :
    (compactIfRemoveOnly rs ns)[k]? = some { n with index := k } := by
  unfold compactIfRemoveOnly
  rw [if_pos h]
  simp [List.getElem?_map, List.getElem?_zipIdx, hk]

theorem compact_length (rs : Reshare) (ns : List Node) : (compactIfRemoveOnly rs ns).length = ns.length := by
  unfold compactIfRemoveOnly
  split <;> simp

theorem compact_pubs (rs : Reshare) (ns : List Node) :
    (compactIfRemoveOnly rs ns).map (·.pub) = ns.map (·.pub) := by
  unfold compactIfRemoveOnly
  split
  · apply List.ext_getElem?
    intro i
    simp only [List.getElem?_map, List.getElem?_zipIdx]
    cases ns[i]? <;> simp
  · rfl

theorem compact_noop (rs : Reshare) (h : ¬ (rs.removed.length > 0 ∧ rs.added.length = 0)) (ns : List Node) :
    compactIfRemoveOnly rs ns = ns := by
  unfold compactIfRemoveOnly
  rw [if_neg h]

/-! ### filing order -/

theorem sortKeyed_of_sorted (l : List (Nat × Nat)) (h : l.Pairwise (fun a b => a.1 < b.1)) :
    sortKeyed l = l := by
  induction l with
  | nil => rfl
  | cons x xs ih =>
    have hx := List.pairwise_cons.mp h
    have : sortKeyed (x :: xs) = insertKeyed x (sortKeyed xs) := rfl
    rw [this, ih hx.2]
    cases xs with
    | nil => rfl
    | cons y ys =>
      have : x.1 < y.1 := hx.1 y (by simp)
      simp [insertKeyed, this]

/-! ### operator lists -/

theorem getPeers_replace_spec (l : Lock) (old new : Nat) (ps : List Nat)
    (h : getPeers (.replace old new) l = .ok ps) :
    ps.length = l.ops.length ∧ ∃ i, l.ops[i]? = some old ∧ ps = l.ops.set i new ∧
      (∀ j, j < i → l.ops[j]? ≠ some old) := by
  unfold getPeers at h
  cases hi : l.ops.idxOf? old with
  | none => simp [hi] at h
  | some i =>
    simp only [hi, Except.ok.injEq] at h
    subst h
    obtain ⟨hlt, hget, hfirst⟩ := List.idxOf?_eq_some_iff.mp hi
    refine ⟨by simp, i, by simp [hlt, hget], rfl, ?_⟩
    intro j hj hjo
    have hjl : j < l.ops.length := by omega
    rw [List.getElem?_eq_getElem hjl] at hjo
    exact hfirst j hj (by simpa using hjo)

/-! ### thresholds -/

theorem thresholdInt_natCast (n : Nat) : thresholdInt (n : Int) = ((defaultThreshold n : Nat) : Int) := by
  unfold thresholdInt defaultThreshold
  omega

theorem thresholdInt_nonpos (n : Int) (h : n ≤ 0) : thresholdInt n ≤ 0 := by
  unfold thresholdInt
  omega

end CharonV.ReshareProto

namespace CharonV.ReshareProto

open CharonV.PedersenGlue

/-! ### classification of the nodes of a `buildPeerMap` map -/

theorem mem_nodesFrom (ps : List Nat) (s : Nat) (n : Node) (h : n ∈ nodesFrom s ps) :
    s ≤ n.index ∧ ps[n.index - s]? = some n.pub := by
  induction ps generalizing s with
  | nil => simp [nodesFrom] at h
  | cons q qs ih =>
    simp only [nodesFrom, List.mem_cons] at h
    rcases h with rfl | h
    · simp
    · obtain ⟨h1, h2⟩ := ih (s + 1) h
      refine ⟨by omega, ?_⟩
      have : n.index - s = (n.index - (s + 1)) + 1 := by omega
      rw [this, List.getElem?_cons_succ]
      exact h2

theorem listedAt_peerMapFrom (c : Cfg) (ps : List Nat) (hnd : ps.Nodup) (hc : c.peerMap = peerMapFrom 0 ps)
    (peers : List Nat) (i q : Nat) (hi : ps[i]? = some q) : listedAt c peers i = peers.contains q := by
  unfold listedAt
  rw [hc, Bool.eq_iff_iff]
  simp only [List.any_eq_true, List.contains_iff_mem]
  constructor
  · rintro ⟨p, hp, hm⟩
    by_cases hin : p ∈ ps
    · obtain ⟨j, hj⟩ := List.getElem?_of_mem hin
      have hl := lookup_peerMapFrom ps hnd 0 j p hj
      rw [hl] at hm
      simp only [Nat.zero_add, beq_iff_eq] at hm
      subst hm
      rw [hj] at hi
      cases hi
      exact hp
    · rw [lookup_peerMapFrom_none ps 0 p hin] at hm
      simp at hm
  · intro hq
    refine ⟨q, hq, ?_⟩
    rw [lookup_peerMapFrom ps hnd 0 i q hi]
    simp

theorem classify_peerMapFrom (c : Cfg) (ps : List Nat) (hnd : ps.Nodup) (hc : c.peerMap = peerMapFrom 0 ps)
    (rs : Reshare) :
    classify c rs (pedNodes c) =
      ((nodesFrom 0 ps).filter (fun n => !rs.added.contains n.pub),
       (nodesFrom 0 ps).filter (fun n => !rs.removed.contains n.pub)) := by
  have hn : pedNodes c = nodesFrom 0 ps := by
    unfold pedNodes; rw [hc]; exact pedNodes_peerMapFrom 0 ps
  unfold classify
  rw [hn]
  refine Prod.ext ?_ ?_ <;>
  · refine List.filter_congr fun n hn' => ?_
    obtain ⟨_, h2⟩ := mem_nodesFrom ps 0 n hn'
    rw [listedAt_peerMapFrom c ps hnd hc _ n.index n.pub (by simpa using h2)]

theorem pointOf_filter_pub (l : List Node) (f : Nat → Bool) (peer : Nat) (h : f peer = true) :
    pointOf (l.filter fun n => f n.pub) peer = pointOf l peer := by
  unfold pointOf
  congr 1
  induction l with
  | nil => rfl
  | cons n ns ih =>
    by_cases hp : n.pub = peer
    · have hf : f n.pub = true := by rw [hp]; exact h
      simp [hp, h]
    · by_cases hf : f n.pub = true
      · simp [hf, hp, ih]
      · simp [hf, hp, ih]

theorem validateThreshold_ok (n : Nat) (t : Int) (h : validateThreshold n t = .ok ()) : 1 ≤ t ∧ t ≤ n := by
  unfold validateThreshold at h
  split at h
  · cases h
  · split at h
    · cases h
    · omega

theorem validateCounts_ok (o n : Nat) (t : Int) (rs : Reshare) (h : validateReshareNodeCounts o n t rs = .ok ()) :
    rs.removed.length > 0 → t ≤ (o : Int) := by
  unfold validateReshareNodeCounts at h
  intro hrm
  split at h
  · cases h
  · rename_i hnot
    simp only [not_and, Int.not_lt] at hnot
    exact hnot hrm

/-- what `pedRoles` returned when it succeeded. -/
theorem pedRoles_ok (c : Cfg) (r : Roles) (h : pedRoles c = .ok r) :
    ∃ rs, c.reshare = some rs ∧
      r.oldNodes = (classify c rs (pedNodes c)).1 ∧
      r.newNodes = compactIfRemoveOnly rs (classify c rs (pedNodes c)).2 ∧
      ((r.newT : Int) = if rs.newThreshold ≤ 0 then ((defaultThreshold r.newNodes.length : Nat) : Int)
        else rs.newThreshold) ∧
      1 ≤ r.newT ∧ r.newT ≤ r.newNodes.length ∧
      (rs.removed.length > 0 → c.threshold ≤ (r.oldNodes.length : Int)) := by
  unfold pedRoles at h
  cases hrs : c.reshare with
  | none => simp [hrs] at h
  | some rs =>
    simp only [hrs] at h
    split at h
    · cases h
    · split at h
      · cases h
      · rename_i hv
        split at h
        · cases h
        · split at h
          · cases h
          · rename_i hvt
            simp only [Except.ok.injEq] at h
            subst h
            have h1 := validateThreshold_ok _ _ hvt
            have h2 := validateCounts_ok _ _ _ _ hv
            refine ⟨rs, rfl, rfl, rfl, ?_, ?_, ?_, h2⟩
            · simp only; omega
            · simp only; omega
            · simp only; omega

/-- unfolding of `plan`. -/
theorem plan_ok (k : Kind) (l : Lock) (this : Nat) (pl : Plan) (h : plan k l this = .ok pl) :
    ∃ peers, getPeers k l = .ok peers ∧ peers.Nodup ∧ this ∈ peers ∧ postInit k l this peers = .ok pl := by
  unfold plan at h
  cases hg : getPeers k l with
  | error e => simp [hg] at h
  | ok peers =>
    simp only [hg] at h
    split at h
    · cases h
    · rename_i hnd
      split at h
      · cases h
      · rename_i hin
        exact ⟨peers, rfl, by simpa using hnd, by simpa using hin, h⟩

end CharonV.ReshareProto
