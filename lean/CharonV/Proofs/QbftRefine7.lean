/-
Refinement, part 7: assembling `onRecvJustified`, `step`, and the global refinement theorem.
-/
import CharonV.Proofs.QbftRefine6

namespace CharonV.QbftSys

open CharonV.Qbft CharonV.QbftSpec

variable {P : Params} {fifo : Nat}

local notation "D" => mkDef P fifo

/-- the node state after storing the message (buffer `B`) and recording rule `rule` for round `r`. -/
abbrev st1 (n : NodeState) (B : List (Nat × List Msg)) (rule r : Nat) : NodeState :=
  { n with buffer := B, dedup := (rule, r) :: n.dedup }

/-- Both halves of what every branch must deliver. -/
def Good (P : Params) (fifo : Nat) (t : QbftSpec.State) (p : Nat) (cfr : Nat) (e : Event)
    (r : NodeState × List Out) : Prop :=
  SimOut P t p r.1 (r.2.flatMap (outEv (mkDef P fifo) p cfr e)) ∧
    LInv P (t.hist ++ r.2.flatMap (outEv (mkDef P fifo) p cfr e)) p r.1

theorem good_stutter {t : QbftSpec.State} {p cfr : Nat} {e : Event} {n n' : NodeState} {outs : List Out}
    (hr : QbftSpec.Reach P t) (hrel : nodeRel (t.nodes p) (absNode n))
    (hg : outs.flatMap (outEv D p cfr e) = [])
    (habs : absNode n' = absNode n) (hli : LInv P t.hist p n') :
    Good P fifo t p cfr e (n', outs) := by
  unfold Good
  simp only [hg, List.append_nil]
  exact ⟨sim_stutter hr hrel ⟨by rw [habs], fun _ => habs⟩, hli⟩

theorem isJustified_pp {m : Msg} {cfr : Nat} (ht : m.core.typ = tPrePrepare)
    (h : isJustified D m cfr = some true) : isJustifiedPrePrepare D m cfr = true := by
  unfold isJustified at h
  simpa [ht] using h

theorem isJustified_decided {m : Msg} {cfr : Nat} (ht : m.core.typ = tDecided)
    (h : isJustified D m cfr = some true) : isJustifiedDecided D m = true := by
  unfold isJustified at h
  simpa [ht, tDecided, tPrePrepare, tPrepare, tCommit, tRoundChange] using h

theorem sim_onRecvJustified (hn : 1 ≤ P.n) (hb : P.byzCount ≤ faulty P.n)
    {t : QbftSpec.State} {p : Nat} {n : NodeState} {m : Msg} {cmp : Qbft.CmpOut} (o : Oracle)
    (hr : QbftSpec.Reach P t) (hp : P.honest p) (heq : t.nodes p = absNode n)
    (hq : n.qCommit = []) (hli : LInv P t.hist p n) (hst : n.started = true)
    (hadm : admMsg P t.hist m)
    (hcmp : m.core.typ = tPrePrepare →
      (cmp = .ok → P.cmp p m.core.value = true) ∧ (cmp = .fail → P.cmp p m.core.value = false))
    (hj : isJustified D m n.compareFailureRound = some true) :
    Good P fifo t p n.compareFailureRound (.recv m cmp) (onRecvJustified D o n m cmp) := by
  have hrel : nodeRel (t.nodes p) (absNode n) := by rw [heq]; exact nodeRel_refl _
  have hund : (absNode n).decided = none := absNode_decided_none (by simp [hq])
  have hround : (t.nodes p).round = (absNode n).round := by rw [heq]
  -- the buffer after storing `m`
  have hBadm : ∀ c, inBuf (bufferMsg (mkDef P fifo).fifo n.buffer m) c → admCore P t.hist c := by
    intro c hc
    rcases inBuf_bufferMsg hc with h | h | h
    · exact hli.bufAdm c h
    · rw [h]; exact hadm.1
    · exact hadm.2 c h
  have hli0 : LInv P t.hist p { n with buffer := bufferMsg (mkDef P fifo).fifo n.buffer m } :=
    ⟨hli.proc, hBadm, hli.input, hli.cache, hli.timer, by intro h; simp [hst] at h⟩
  have hflat : ∀ ord, ∀ c ∈ flatten ord (bufferMsg (mkDef P fifo).fifo n.buffer m), admCore P t.hist c :=
    fun ord c hc => hBadm c (mem_flatten hc)
  unfold onRecvJustified
  simp only
  cases hcls : classify D o n.round n.proc (bufferMsg (mkDef P fifo).fifo n.buffer m) m with
  | none =>
    exact good_stutter hr hrel (by simp [outEv]) rfl hli0
  | some rj =>
    obtain ⟨rule, just⟩ := rj
    simp only
    by_cases h0 : rule = uNothing
    · simp only [h0, if_true]
      exact good_stutter hr hrel (by simp) rfl hli0
    · simp only [h0, if_false]
      by_cases hdup : n.dedup.contains (rule, m.core.round) = true
      · simp only [hdup, if_true]
        exact good_stutter hr hrel (by simp) rfl hli0
      · have hdd : n.dedup.contains (rule, m.core.round) = false := by
          cases h : n.dedup.contains (rule, m.core.round) <;> simp_all
        simp only [hdd, Bool.false_eq_true, if_false]
        -- the state with the rule recorded
        have hli1 : LInv P t.hist p (st1 n (bufferMsg (mkDef P fifo).fifo n.buffer m) rule m.core.round) :=
          ⟨hli.proc, hBadm, hli.input, hli.cache, hli.timer, by intro h; simp [hst] at h⟩
        have mono : ∀ {n' : NodeState} (G : List Ev), LInv P t.hist p n' → LInv P (t.hist ++ G) p n' :=
          fun G h => h.mono (fun e he => List.mem_append_left _ he)
        rcases classify_cases hcls h0 with
          ⟨hrule, hty, hjust⟩ | ⟨hrule, hty, hle⟩ | ⟨hrule, hty, hrd, hjust, hlen⟩ |
          ⟨hrule, hty, hrd, hjust, hlen⟩ | ⟨hrule, hty, hlt⟩ | ⟨hrule, hty⟩ |
          ⟨hrule, hty, hrd, hlead, hqrc⟩
        · -- DECIDED
          subst hrule; subst hjust
          have hjd := isJustified_decided hty hj
          unfold isJustifiedDecided at hjd
          have hlen : quorum P.n ≤ (filterMsgs m.just tCommit m.core.round (some m.core.value) none none).length := by
            simpa [mkDef_quorum] using hjd
          have hcq := commitQuorum_of_filter (P := P) (H := t.hist) hadm.2 hlen
          have hne : m.just ≠ [] := by
            intro he; rw [he] at hlen
            have : quorum P.n ≥ 1 := by unfold quorum; omega
            simp [filterMsgs, filterMsgs.go] at hlen; omega
          unfold onRule
          simp only [uJustifiedDecided, uJustifiedPrePrepare, uQuorumPrepares, uQuorumCommits,
            show ¬ (7 : Nat) = 1 by decide, show ¬ (7 : Nat) = 2 by decide, if_false, or_true, if_true]
          unfold Good
          have hg := ghost_onDecide (P := P) (fifo := fifo)
            (st1 n (bufferMsg (mkDef P fifo).fifo n.buffer m) 7 m.core.round)
            m 7 m.just p n.compareFailureRound n.round (.recv m cmp) (by decide)
          rw [hg]
          refine ⟨sim_decide hr hp heq hund hcq (abs_onDecide _ m 7 m.just hne), ?_⟩
          exact mono _ (linv_of_frame hli1 hq hst (frame_onDecide _ m 7 m.just))
        · -- PRE-PREPARE
          subst hrule
          have hjp := isJustified_pp hty hj
          obtain ⟨hlsrc, hvne, hjpp⟩ := justifiedPP_of_impl hadm (no_zero_prepareQuorum hn hb hr) hjp
          have hpp := adm_prePrepare hadm.1 hty
          unfold onRule
          simp only [if_true]
          unfold Good
          have hg := ghost_onPrePrepare (P := P) (fifo := fifo) (p := p) (n := n) (m := m)
            (B := bufferMsg (mkDef P fifo).fifo n.buffer m) cmp n.compareFailureRound
          simp only [ppState] at hg
          rw [hg]
          refine ⟨?_, ?_⟩
          · apply sim_accept hr hp heq hund
            · exact hle
            · intro hreq
              show n.dedup.contains (uJustifiedPrePrepare, n.round) = false
              have : n.round = m.core.round := hreq
              rw [this]; exact hdd
            · rw [hlsrc]; exact hpp.1
            · rw [hlsrc]; exact hpp.2
            · exact hvne
            · exact hjpp
            · exact (hcmp hty).1
            · exact (hcmp hty).2
            · exact abs_onPrePrepare (B := bufferMsg (mkDef P fifo).fifo n.buffer m) hq cmp
          · exact mono _ (linv_of_frame hli1 hq hst (frame_onPrePrepare _ m cmp))
        · -- quorum PREPAREs
          subst hrule
          have hpq : prepareQuorum P t.hist (absNode n).round m.core.value := by
            have := prepareQuorum_of_filter (P := P) (H := t.hist) (r := m.core.round) (v := m.core.value)
              (hflat o.srcOrd) (by rw [← hjust]; simpa [mkDef_quorum] using hlen)
            rw [hrd] at this; exact this
          unfold onRule
          simp only [uQuorumPrepares, uJustifiedPrePrepare, show ¬ (2 : Nat) = 1 by decide, if_false, if_true]
          unfold Good
          have hg := ghost_onQuorumPrepares (P := P) (fifo := fifo) n (bufferMsg (mkDef P fifo).fifo n.buffer m) m just p
            n.compareFailureRound (.recv m cmp)
          simp only [uQuorumPrepares] at hg
          rw [hg]
          refine ⟨?_, ?_⟩
          · apply sim_commit hr hp heq hund
            · show n.dedup.contains (uQuorumPrepares, n.round) = false
              rw [← hrd]; exact hdd
            · exact hpq
            · have := abs_onQuorumPrepares n (bufferMsg (mkDef P fifo).fifo n.buffer m) m just hrd
              simp only [uQuorumPrepares] at this
              exact this
          · exact mono _ (linv_of_frame hli1 hq hst (frame_onQuorumPrepares _ m just))
        · -- quorum COMMITs
          subst hrule
          have hcq : commitQuorum P t.hist m.core.round m.core.value :=
            commitQuorum_of_filter (P := P) (H := t.hist) (hflat o.srcOrd)
              (by
                have : just = filterMsgs (flatten o.srcOrd (bufferMsg (mkDef P fifo).fifo n.buffer m)) tCommit
                    m.core.round (some m.core.value) none none := hjust
                rw [← this]; simpa [mkDef_quorum] using hlen)
          have hne : just ≠ [] := by
            intro he; rw [he] at hlen
            have : quorum P.n ≥ 1 := by unfold quorum; omega
            simp [mkDef_quorum] at hlen; omega
          unfold onRule
          simp only [uQuorumCommits, uJustifiedPrePrepare, uQuorumPrepares,
            show ¬ (3 : Nat) = 1 by decide, show ¬ (3 : Nat) = 2 by decide, if_false, true_or, if_true]
          unfold Good
          have hg := ghost_onDecide (P := P) (fifo := fifo)
            (st1 n (bufferMsg (mkDef P fifo).fifo n.buffer m) 3 m.core.round)
            m 3 just p n.compareFailureRound n.round (.recv m cmp) (by decide)
          rw [hg]
          refine ⟨sim_decide hr hp heq hund hcq (abs_onDecide _ m 3 just hne), ?_⟩
          exact mono _ (linv_of_frame hli1 hq hst (frame_onDecide _ m 3 just))
        · -- F+1 ROUND-CHANGEs
          subst hrule
          have habs1 : absNode (st1 n (bufferMsg (mkDef P fifo).fifo n.buffer m) uFPlus1RoundChanges m.core.round) = absNode n := by
            have := absNode_dedup_other { n with buffer := bufferMsg (mkDef P fifo).fifo n.buffer m }
              uFPlus1RoundChanges m.core.round (by decide) (by decide)
            simpa using this
          unfold onRule
          simp only [uFPlus1RoundChanges, uJustifiedPrePrepare, uQuorumPrepares, uQuorumCommits,
            uJustifiedDecided, show ¬ (5 : Nat) = 1 by decide, show ¬ (5 : Nat) = 2 by decide,
            show ¬ ((5 : Nat) = 3 ∨ (5 : Nat) = 7) by decide, if_false, if_true]
          cases hnm : nextMinRound D just n.round with
          | none =>
            have hb' := ghost_onFPlus1_bug (P := P) (fifo := fifo)
              (st1 n (bufferMsg (mkDef P fifo).fifo n.buffer m) 5 m.core.round)
              just p n.compareFailureRound n.round (.recv m cmp) hnm
            simp only [uFPlus1RoundChanges] at hb' habs1
            unfold Good
            rw [hb'.1, hb'.2]
            simp only [List.append_nil]
            exact ⟨sim_stutter hr hrel ⟨by rw [habs1], fun _ => habs1⟩, hli1⟩
          | some nr =>
            have hg := ghost_onFPlus1 (P := P) (fifo := fifo)
              (st1 n (bufferMsg (mkDef P fifo).fifo n.buffer m) 5 m.core.round)
              just nr p n.compareFailureRound n.round (.recv m cmp) hnm
            have ha := abs_onFPlus1 (P := P) (fifo := fifo)
              (st1 n (bufferMsg (mkDef P fifo).fifo n.buffer m) 5 m.core.round)
              just nr hnm hq
            simp only [uFPlus1RoundChanges] at hg habs1
            unfold Good
            rw [hg, habs1] at *
            refine ⟨?_, ?_⟩
            · apply sim_jump hr hp heq hund (nextMinRound_gt hnm)
              rw [ha, habs1]
            · exact mono _ (linv_of_frame hli1 hq hst (frame_onFPlus1 _ just))
        · -- unjust quorum ROUND-CHANGEs
          subst hrule
          have habs1 : absNode (st1 n (bufferMsg (mkDef P fifo).fifo n.buffer m) uUnjustQuorumRoundChanges m.core.round) = absNode n := by
            have := absNode_dedup_other { n with buffer := bufferMsg (mkDef P fifo).fifo n.buffer m }
              uUnjustQuorumRoundChanges m.core.round (by decide) (by decide)
            simpa using this
          unfold onRule
          simp only [uUnjustQuorumRoundChanges, uFPlus1RoundChanges, uJustifiedPrePrepare, uQuorumPrepares,
            uQuorumCommits, uJustifiedDecided, uQuorumRoundChanges,
            show ¬ (4 : Nat) = 1 by decide, show ¬ (4 : Nat) = 2 by decide,
            show ¬ ((4 : Nat) = 3 ∨ (4 : Nat) = 7) by decide, show ¬ (4 : Nat) = 5 by decide,
            show ¬ (4 : Nat) = 6 by decide, if_false, if_true]
          simp only [uUnjustQuorumRoundChanges] at habs1 hli1
          exact good_stutter hr hrel (by simp [outEv, uJustifiedPrePrepare]) habs1 hli1
        · -- quorum ROUND-CHANGEs, we are the leader
          subst hrule
          have habs1 : absNode (st1 n (bufferMsg (mkDef P fifo).fifo n.buffer m) uQuorumRoundChanges m.core.round) = absNode n := by
            have := absNode_dedup_other { n with buffer := bufferMsg (mkDef P fifo).fifo n.buffer m }
              uQuorumRoundChanges m.core.round (by decide) (by decide)
            simpa using this
          have hjadm : ∀ c ∈ just, admCore P t.hist c :=
            fun c hc => hflat o.srcOrd c (getJustifiedQrc_sub hqrc c hc)
          have hl : P.leader (absNode n).round = p := by
            have : P.leader n.round = n.proc := hlead
            rw [hli.proc] at this; exact this
          unfold onRule
          simp only [uQuorumRoundChanges, uFPlus1RoundChanges, uJustifiedPrePrepare, uQuorumPrepares,
            uQuorumCommits, uJustifiedDecided,
            show ¬ (6 : Nat) = 1 by decide, show ¬ (6 : Nat) = 2 by decide,
            show ¬ ((6 : Nat) = 3 ∨ (6 : Nat) = 7) by decide, show ¬ (6 : Nat) = 5 by decide,
            if_false, if_true]
          simp only [uQuorumRoundChanges] at habs1 hli1
          unfold Good
          refine ⟨?_, ?_⟩
          · have := sim_onQrc (P := P) (fifo := fifo) (n := n)
              (n1 := (st1 n (bufferMsg (mkDef P fifo).fifo n.buffer m) 6 m.core.round))
              (just := just) n.compareFailureRound n.round (.recv m cmp) hr hp hrel hround habs1 hli.input hl hjadm
            simp only [uQuorumRoundChanges] at this
            exact this
          · exact mono _ (linv_onQrc hli1 hl hst)

end CharonV.QbftSys
