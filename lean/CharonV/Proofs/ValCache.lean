/-
Helper lemmas and invariants for the validator cache model (`CharonV.Model.ValCache`); the property theorems
are in `CharonV.Props.C15ValCache`.
-/
import CharonV.Model.ValCache

namespace CharonV.ValCache

/-! ### the active map -/

theorem mem_amErase {m : AMap} {i : Nat} {p : Nat × Nat} : p ∈ amErase m i ↔ p ∈ m ∧ p.1 ≠ i := by
  simp [amErase, List.mem_filter]

theorem mem_amInsert {m : AMap} {i pk : Nat} {p : Nat × Nat} :
    p ∈ amInsert m i pk ↔ p = (i, pk) ∨ (p ∈ m ∧ p.1 ≠ i) := by
  simp [amInsert, mem_amErase]

/-- every entry of the built map was there before or stems from a well-formed entry with an active status -/
theorem buildActive_sound : ∀ (es : List Entry) (m r : AMap), buildActive es m = some r →
    ∀ p ∈ r, p ∈ m ∨ ∃ e ∈ es, e.bad = 0 ∧ isActive e.status = true ∧ p = (e.idx, e.pk)
  | [], m, r, h, p, hp => by
    simp [buildActive] at h; subst h; exact Or.inl hp
  | e :: es, m, r, h, p, hp => by
    unfold buildActive at h
    by_cases hb : e.bad = 0
    · simp [hb] at h
      by_cases ha : isActive e.status = true
      · simp [ha] at h
        rcases buildActive_sound es _ r h p hp with h1 | ⟨e', he', h2⟩
        · rcases mem_amInsert.mp h1 with h3 | h3
          · exact Or.inr ⟨e, List.mem_cons_self, hb, ha, h3⟩
          · exact Or.inl h3.1
        · exact Or.inr ⟨e', List.mem_cons_of_mem _ he', h2⟩
      · simp [ha] at h
        rcases buildActive_sound es _ r h p hp with h1 | ⟨e', he', h2⟩
        · exact Or.inl h1
        · exact Or.inr ⟨e', List.mem_cons_of_mem _ he', h2⟩
    · simp [hb] at h

/-- a built map exists only for a response without nil entries -/
theorem buildActive_wf : ∀ (es : List Entry) (m r : AMap), buildActive es m = some r → ∀ e ∈ es, e.bad = 0
  | [], _, _, _, e, he => by cases he
  | e0 :: es, m, r, h, e, he => by
    unfold buildActive at h
    by_cases hb : e0.bad = 0
    · simp [hb] at h
      rcases List.mem_cons.mp he with rfl | he'
      · exact hb
      · by_cases ha : isActive e0.status = true
        · simp [ha] at h; exact buildActive_wf es _ r h e he'
        · simp [ha] at h; exact buildActive_wf es _ r h e he'
    · simp [hb] at h

theorem buildActive_none_of_bad : ∀ (es : List Entry) (m : AMap), (∃ e ∈ es, e.bad ≠ 0) → buildActive es m = none
  | [], _, h => by obtain ⟨e, he, _⟩ := h; cases he
  | e0 :: es, m, h => by
    unfold buildActive
    by_cases hb : e0.bad = 0
    · simp [hb]
      obtain ⟨e, he, hne⟩ := h
      rcases List.mem_cons.mp he with rfl | he'
      · exact absurd hb hne
      · by_cases ha : isActive e0.status = true
        · simp [ha]; exact buildActive_none_of_bad es _ ⟨e, he', hne⟩
        · simp [ha]; exact buildActive_none_of_bad es _ ⟨e, he', hne⟩
    · simp [hb]

theorem buildActive_some_of_wf : ∀ (es : List Entry) (m : AMap), (∀ e ∈ es, e.bad = 0) → ∃ r, buildActive es m = some r
  | [], m, _ => ⟨m, rfl⟩
  | e0 :: es, m, h => by
    unfold buildActive
    have hb : e0.bad = 0 := h e0 List.mem_cons_self
    have hr : ∀ e ∈ es, e.bad = 0 := fun e he => h e (List.mem_cons_of_mem _ he)
    by_cases ha : isActive e0.status = true
    · simp [hb, ha]; exact buildActive_some_of_wf es _ hr
    · simp [hb, ha]; exact buildActive_some_of_wf es _ hr

/-- an index that has an entry keeps one -/
theorem buildActive_keys : ∀ (es : List Entry) (m r : AMap), buildActive es m = some r →
    ∀ i, (∃ pk, (i, pk) ∈ m) → ∃ pk, (i, pk) ∈ r
  | [], m, r, h, i, hi => by simp [buildActive] at h; subst h; exact hi
  | e :: es, m, r, h, i, hi => by
    unfold buildActive at h
    by_cases hb : e.bad = 0
    · simp [hb] at h
      by_cases ha : isActive e.status = true
      · simp [ha] at h
        apply buildActive_keys es _ r h i
        obtain ⟨pk, hpk⟩ := hi
        by_cases hie : i = e.idx
        · exact ⟨e.pk, mem_amInsert.mpr (Or.inl (by rw [hie]))⟩
        · exact ⟨pk, mem_amInsert.mpr (Or.inr ⟨hpk, hie⟩)⟩
      · simp [ha] at h
        exact buildActive_keys es _ r h i hi
    · simp [hb] at h

/-- every entry with an active status is reported under its index -/
theorem buildActive_complete : ∀ (es : List Entry) (m r : AMap), buildActive es m = some r →
    ∀ e ∈ es, isActive e.status = true → ∃ pk, (e.idx, pk) ∈ r
  | [], _, _, _, e, he, _ => by cases he
  | e0 :: es, m, r, h, e, he, hact => by
    unfold buildActive at h
    by_cases hb : e0.bad = 0
    · simp [hb] at h
      rcases List.mem_cons.mp he with rfl | he'
      · simp [hact] at h
        exact buildActive_keys es _ r h e.idx ⟨e.pk, mem_amInsert.mpr (Or.inl rfl)⟩
      · by_cases ha : isActive e0.status = true
        · simp [ha] at h; exact buildActive_complete es _ r h e he' hact
        · simp [ha] at h; exact buildActive_complete es _ r h e he' hact
    · simp [hb] at h

/-- an entry survives as long as no later validator has its index -/
theorem buildActive_keep : ∀ (es : List Entry) (m r : AMap), buildActive es m = some r →
    ∀ i pk, (i, pk) ∈ m → (∀ e ∈ es, e.idx ≠ i) → (i, pk) ∈ r
  | [], m, r, h, i, pk, hm, _ => by simp [buildActive] at h; subst h; exact hm
  | e :: es, m, r, h, i, pk, hm, hne => by
    unfold buildActive at h
    have hei : e.idx ≠ i := hne e List.mem_cons_self
    have hrest : ∀ e' ∈ es, e'.idx ≠ i := fun e' he' => hne e' (List.mem_cons_of_mem _ he')
    by_cases hb : e.bad = 0
    · simp [hb] at h
      by_cases ha : isActive e.status = true
      · simp [ha] at h
        exact buildActive_keep es _ r h i pk (mem_amInsert.mpr (Or.inr ⟨hm, fun hh => hei hh.symm⟩)) hrest
      · simp [ha] at h
        exact buildActive_keep es _ r h i pk hm hrest
    · simp [hb] at h

/-- with pairwise different validator indices every active entry is reported with its own pubkey -/
theorem buildActive_complete_nodup : ∀ (es : List Entry) (m r : AMap), buildActive es m = some r →
    (es.map (·.idx)).Nodup → ∀ e ∈ es, isActive e.status = true → (e.idx, e.pk) ∈ r
  | [], _, _, _, _, e, he, _ => by cases he
  | e0 :: es, m, r, h, hnd, e, he, hact => by
    unfold buildActive at h
    simp only [List.map_cons, List.nodup_cons] at hnd
    by_cases hb : e0.bad = 0
    · simp [hb] at h
      rcases List.mem_cons.mp he with rfl | he'
      · simp [hact] at h
        apply buildActive_keep es _ r h e.idx e.pk (mem_amInsert.mpr (Or.inl rfl))
        intro e' he' heq
        exact hnd.1 (List.mem_map.mpr ⟨e', he', heq⟩)
      · by_cases ha : isActive e0.status = true
        · simp [ha] at h; exact buildActive_complete_nodup es _ r h hnd.2 e he' hact
        · simp [ha] at h; exact buildActive_complete_nodup es _ r h hnd.2 e he' hact
    · simp [hb] at h

/-! ### the locked part -/

theorem fetchStore_err {c : Cache} {ans : Ans} {b : Bool} (h : (fetchStore c ans).2 = .err b) :
    (fetchStore c ans).1 = c := by
  cases ans with
  | err => rfl
  | nilData => simp [fetchStore] at h
  | ok es =>
    simp only [fetchStore] at h ⊢
    cases hb : buildActive es [] with
    | none => simp
    | some m => simp [hb] at h

theorem fetchStore_ok {c : Cache} {ans : Ans} {a : AMap} {cc : List Entry} (h : (fetchStore c ans).2 = .ok a cc) :
    buildActive cc [] = some a ∧ (fetchStore c ans).1.active = some a ∧
    ((fetchStore c ans).1.complete = some cc ∨ ((fetchStore c ans).1.complete = none ∧ cc = [] ∧ ans = .nilData)) ∧
    cc ∈ ansContent ans ∧ (fetchStore c ans).1.pubkeys = c.pubkeys := by
  cases ans with
  | err => simp [fetchStore] at h
  | nilData =>
    simp only [fetchStore, Res.ok.injEq] at h
    obtain ⟨rfl, rfl⟩ := h
    simp [fetchStore, buildActive, ansContent]
  | ok es =>
    simp only [fetchStore] at h ⊢
    cases hb : buildActive es [] with
    | none => simp [hb] at h
    | some m =>
      simp only [hb, Res.ok.injEq] at h
      obtain ⟨rfl, rfl⟩ := h
      simp [hb, ansContent]

theorem fetchStore_pubkeys (c : Cache) (ans : Ans) : (fetchStore c ans).1.pubkeys = c.pubkeys := by
  cases ans with
  | err => rfl
  | nilData => rfl
  | ok es =>
    simp only [fetchStore]
    cases buildActive es [] <;> rfl

/-- `GetBySlot` is the locked part applied to the by-slot answer, or to the head answer when that one failed. -/
theorem getBySlot_eq (c : Cache) (aS aH : Ans) :
    ∃ pick, ((getBySlot c aS aH).1 = (fetchStore c pick).1 ∧ (getBySlot c aS aH).2.1 = (fetchStore c pick).2) ∧
      (∀ es ∈ ansContent pick, es ∈ ansContent aS ++ ansContent aH) := by
  cases aS with
  | err => exact ⟨aH, ⟨rfl, rfl⟩, fun es h => List.mem_append_right _ h⟩
  | nilData => exact ⟨.nilData, ⟨rfl, rfl⟩, fun es h => List.mem_append_left _ h⟩
  | ok es0 => exact ⟨.ok es0, ⟨rfl, rfl⟩, fun es h => List.mem_append_left _ h⟩

theorem finish_hit {c : Cache} {cc : List Entry} {aa : AMap} (ans : Ans) :
    finish c (some cc) (some aa) ans = (c, .ok aa cc, false) := rfl

theorem finish_miss {c : Cache} {rc : Option (List Entry)} {ra : Option AMap} (ans : Ans)
    (h : rc = none ∨ ra = none) : finish c rc ra ans = ((fetchStore c ans).1, (fetchStore c ans).2, true) := by
  cases rc <;> cases ra <;> simp_all [finish]

/-- a `GetByHead` on a cache that holds both maps is served from it and changes nothing -/
theorem getByHead_full {c : Cache} {cc : List Entry} {aa : AMap} (ha : c.active = some aa) (hc : c.complete = some cc)
    (ans : Ans) : getByHead c ans = (c, .ok aa cc, false) := by
  simp [getByHead, readComplete, readActive, ha, hc, finish]

theorem getByHead_fetched_iff (c : Cache) (ans : Ans) : (getByHead c ans).2.2 = willFetch c := by
  unfold getByHead willFetch readComplete readActive finish
  cases c.complete <;> cases c.active <;> rfl

/-! ### the sequential invariant -/

structure Inv (s : St) : Prop where
  act_none : s.c.active = none → s.c.complete = none ∧ s.last = none
  last_some : ∀ a, s.c.active = some a → ∃ es, s.last = some es
  clean : s.taint = false → ∀ es, s.last = some es →
    s.c.active = buildActive es [] ∧ (buildActive es []).isSome = true ∧
    (s.c.complete = some es ∨ (s.c.complete = none ∧ es = []))

theorem inv_init (pks : List Nat) : Inv (St.init pks) :=
  ⟨fun _ => ⟨rfl, rfl⟩, fun a h => by simp [St.init, Cache.init] at h, fun _ es h => by simp [St.init] at h⟩

/-- the state after a call that asked the node (`asked = true`) and stored, or did not ask and left the cache alone -/
theorem inv_after_store {cfg : Cfg} {s : St} (c : Cache) (ans : Ans) (keep : Bool) :
    Inv (after cfg s (fetchStore c ans).1 (fetchStore c ans).2 true keep) ∨
    ((fetchStore c ans).1 = c ∧ after cfg s (fetchStore c ans).1 (fetchStore c ans).2 true keep = { s with c := c }) := by
  cases hr : (fetchStore c ans).2 with
  | err b =>
    right
    exact ⟨fetchStore_err hr, by simp [after, fetchStore_err hr]⟩
  | ok a cc =>
    left
    obtain ⟨hb, hact, hcomp, _, _⟩ := fetchStore_ok hr
    refine ⟨?_, ?_, ?_⟩
    · intro h; simp [after, hact] at h
    · intro a' _; exact ⟨cc, by simp [after]⟩
    · intro _ es hes
      simp only [after, if_true, Option.some.injEq] at hes
      subst hes
      refine ⟨by simp [after, hact, hb], by simp [hb], ?_⟩
      rcases hcomp with h1 | ⟨h1, h2, _⟩
      · exact Or.inl (by simp [after, h1])
      · exact Or.inr ⟨by simp [after, h1], h2⟩

theorem inv_step (cfg : Cfg) {s : St} (hi : Inv s) (op : Op) : Inv (step cfg s op).1 := by
  cases op with
  | trim => exact ⟨fun _ => ⟨rfl, rfl⟩, fun a h => by simp [step, Cache.trim] at h, fun _ es h => by simp [step] at h⟩
  | head ans =>
    simp only [step]
    by_cases hw : s.c.complete.isSome = true ∧ s.c.active.isSome = true
    · obtain ⟨cc, hc⟩ := Option.isSome_iff_exists.mp hw.1
      obtain ⟨aa, ha⟩ := Option.isSome_iff_exists.mp hw.2
      rw [getByHead_full ha hc]
      exact ⟨by simpa [after] using hi.act_none, by simpa [after] using hi.last_some, by simpa [after] using hi.clean⟩
    · have hm : s.c.complete = none ∨ s.c.active = none := by
        cases hcq : s.c.complete <;> cases haq : s.c.active <;> simp_all
      have : getByHead s.c ans = ((fetchStore s.c ans).1, (fetchStore s.c ans).2, true) := by
        unfold getByHead readComplete readActive; exact finish_miss ans hm
      rw [this]
      rcases inv_after_store (cfg := cfg) (s := s) s.c ans true with h | ⟨_, h2⟩
      · exact h
      · rw [h2]; exact ⟨hi.act_none, hi.last_some, hi.clean⟩
  | peek ans =>
    simp only [step]
    by_cases hw : s.c.complete.isSome = true ∧ s.c.active.isSome = true
    · obtain ⟨cc, hc⟩ := Option.isSome_iff_exists.mp hw.1
      obtain ⟨aa, ha⟩ := Option.isSome_iff_exists.mp hw.2
      rw [getByHead_full ha hc]
      exact ⟨by simpa [after] using hi.act_none, by simpa [after] using hi.last_some, by simpa [after] using hi.clean⟩
    · have hm : s.c.complete = none ∨ s.c.active = none := by
        cases hcq : s.c.complete <;> cases haq : s.c.active <;> simp_all
      have : getByHead s.c ans = ((fetchStore s.c ans).1, (fetchStore s.c ans).2, true) := by
        unfold getByHead readComplete readActive; exact finish_miss ans hm
      rw [this]
      rcases inv_after_store (cfg := cfg) (s := s) s.c ans false with h | ⟨_, h2⟩
      · exact h
      · rw [h2]; exact ⟨hi.act_none, hi.last_some, hi.clean⟩
  | slot aS aH =>
    simp only [step]
    obtain ⟨pick, ⟨h1, h2⟩, _⟩ := getBySlot_eq s.c aS aH
    rw [h1, h2]
    rcases inv_after_store (cfg := cfg) (s := s) s.c pick true with h | ⟨_, h2⟩
    · exact h
    · rw [h2]; exact ⟨hi.act_none, hi.last_some, hi.clean⟩
  | mutate m =>
    simp only [step]
    by_cases hon : m.onActive = true
    · simp only [hon, if_true]
      cases hl : s.liveA with
      | false => exact hi
      | true =>
        cases ha : s.c.active with
        | none => exact hi
        | some a =>
          refine ⟨fun h => by simp at h, fun a' _ => hi.last_some a ha, fun h => by simp at h⟩
    · simp only [hon]
      cases hl : s.liveC with
      | false => exact hi
      | true =>
        cases hc : s.c.complete with
        | none => exact hi
        | some es =>
          refine ⟨fun h => ?_, fun a' h => hi.last_some a' h, fun h => by simp at h⟩
          have := (hi.act_none h).1
          simp [hc] at this

theorem inv_run (cfg : Cfg) : ∀ (ops : List Op) {s : St}, Inv s → Inv (run cfg s ops)
  | [], _, h => h
  | o :: os, _, h => inv_run cfg os (inv_step cfg h o)

/-! ### what a step that returns a result does -/

theorem after_ok_asked (cfg : Cfg) (s : St) (c' : Cache) (a : AMap) (cc : List Entry) (keep : Bool) :
    (after cfg s c' (.ok a cc) true keep).last = some cc ∧ (after cfg s c' (.ok a cc) true keep).taint = false ∧
    (after cfg s c' (.ok a cc) true keep).c = c' := by simp [after]

theorem after_ok_hit (cfg : Cfg) (s : St) (c' : Cache) (a : AMap) (cc : List Entry) (keep : Bool) :
    (after cfg s c' (.ok a cc) false keep).last = s.last ∧ (after cfg s c' (.ok a cc) false keep).taint = s.taint ∧
    (after cfg s c' (.ok a cc) false keep).c = c' := by simp [after]

theorem after_err (cfg : Cfg) (s : St) (c' : Cache) (b asked keep : Bool) :
    after cfg s c' (.err b) asked keep = { s with c := c' } := rfl

/-- a `GetByHead` (kept or not) either is served from a cache holding both maps, or is the locked part -/
theorem getByHead_cases (c : Cache) (ans : Ans) :
    (∃ aa cc, c.active = some aa ∧ c.complete = some cc ∧ getByHead c ans = (c, .ok aa cc, false)) ∨
    ((c.complete = none ∨ c.active = none) ∧ getByHead c ans = ((fetchStore c ans).1, (fetchStore c ans).2, true)) := by
  by_cases hw : c.complete.isSome = true ∧ c.active.isSome = true
  · obtain ⟨cc, hc⟩ := Option.isSome_iff_exists.mp hw.1
    obtain ⟨aa, ha⟩ := Option.isSome_iff_exists.mp hw.2
    exact Or.inl ⟨aa, cc, ha, hc, getByHead_full ha hc ans⟩
  · have hm : c.complete = none ∨ c.active = none := by
      cases hcq : c.complete <;> cases haq : c.active <;> simp_all
    exact Or.inr ⟨hm, by unfold getByHead readComplete readActive; exact finish_miss ans hm⟩

/-- the common shape of the three calls: the result, whether the node was asked, and the state after -/
theorem step_call (cfg : Cfg) (s : St) (op : Op) :
    (∃ o, (op = .trim ∨ op = .mutate o) ∧ (step cfg s op).2 = .none) ∨
    (∃ aa cc keep r k, s.c.active = some aa ∧ s.c.complete = some cc ∧ (∃ ans, op = .head ans ∨ op = .peek ans) ∧
        step cfg s op = (after cfg s s.c (.ok aa cc) false keep, .res (.ok aa cc) false r k) ∧ r = false ∧ k = 0) ∨
    (∃ pick keep r k, (∀ es ∈ ansContent pick, es ∈ opAnswers op) ∧
        step cfg s op = (after cfg s (fetchStore s.c pick).1 (fetchStore s.c pick).2 true keep,
                         .res (fetchStore s.c pick).2 true r k)) := by
  cases op with
  | trim => exact Or.inl ⟨.adel 0, Or.inl rfl, rfl⟩
  | mutate m =>
    refine Or.inl ⟨m, Or.inr rfl, ?_⟩
    simp only [step]
    split
    · split <;> rfl
    · split <;> rfl
  | head ans =>
    rcases getByHead_cases s.c ans with ⟨aa, cc, ha, hc, hg⟩ | ⟨_, hg⟩
    · exact Or.inr (Or.inl ⟨aa, cc, true, false, 0, ha, hc, ⟨ans, Or.inl rfl⟩, by simp [step, hg], rfl, rfl⟩)
    · exact Or.inr (Or.inr ⟨ans, true, false, 1, fun es h => h, by simp [step, hg]⟩)
  | peek ans =>
    rcases getByHead_cases s.c ans with ⟨aa, cc, ha, hc, hg⟩ | ⟨_, hg⟩
    · exact Or.inr (Or.inl ⟨aa, cc, false, false, 0, ha, hc, ⟨ans, Or.inr rfl⟩, by simp [step, hg], rfl, rfl⟩)
    · exact Or.inr (Or.inr ⟨ans, false, false, 1, fun es h => h, by simp [step, hg]⟩)
  | slot aS aH =>
    obtain ⟨pick, ⟨h1, h2⟩, hsub⟩ := getBySlot_eq s.c aS aH
    exact Or.inr (Or.inr ⟨pick, true, (getBySlot s.c aS aH).2.2.1, (getBySlot s.c aS aH).2.2.2,
      fun es h => hsub es h, by simp only [step]; rw [h1, h2]⟩)

/-- after a call that returned `(A, C)` the cache holds exactly these two maps (`C` empty if the node's map was nil) -/
theorem step_ok_cache (cfg : Cfg) {s s' : St} {op : Op} {A : AMap} {C : List Entry} {f r : Bool} {k : Nat}
    (h : step cfg s op = (s', .res (.ok A C) f r k)) :
    s'.c.active = some A ∧ (s'.c.complete = some C ∨ (s'.c.complete = none ∧ C = [])) := by
  rcases step_call cfg s op with ⟨o, _, hn⟩ | ⟨aa, cc, keep, r', k', ha, hc, _, hs, _, _⟩ | ⟨pick, keep, r', k', _, hs⟩
  · rw [h] at hn; cases hn
  · rw [hs] at h
    simp only [Prod.mk.injEq, Out.res.injEq, Res.ok.injEq] at h
    obtain ⟨rfl, ⟨rfl, rfl⟩, _⟩ := h
    rw [(after_ok_hit cfg s s.c aa cc keep).2.2]
    exact ⟨ha, Or.inl hc⟩
  · rw [hs] at h
    simp only [Prod.mk.injEq, Out.res.injEq] at h
    obtain ⟨rfl, hr, _⟩ := h
    obtain ⟨_, hact, hcomp, _, _⟩ := fetchStore_ok hr
    rw [hr, (after_ok_asked cfg s _ A C keep).2.2]
    exact ⟨hact, hcomp.imp id (fun h => ⟨h.1, h.2.1⟩)⟩

/-- ... and, if no caller wrote into the live maps, they are the most recently stored response -/
theorem step_ok_result (cfg : Cfg) {s s' : St} (hi : Inv s) {op : Op} {A : AMap} {C : List Entry} {f r : Bool} {k : Nat}
    (h : step cfg s op = (s', .res (.ok A C) f r k)) (hclean : s'.taint = false) :
    s'.last = some C ∧ buildActive C [] = some A ∧ (f = true → C ∈ opAnswers op) := by
  rcases step_call cfg s op with ⟨o, _, hn⟩ | ⟨aa, cc, keep, r', k', ha, hc, _, hs, _, _⟩ | ⟨pick, keep, r', k', hsub, hs⟩
  · rw [h] at hn; cases hn
  · rw [hs] at h
    simp only [Prod.mk.injEq, Out.res.injEq, Res.ok.injEq] at h
    obtain ⟨rfl, ⟨rfl, rfl⟩, rfl, _⟩ := h
    obtain ⟨hl, ht, _⟩ := after_ok_hit cfg s s.c aa cc keep
    rw [ht] at hclean
    obtain ⟨es, hes⟩ := hi.last_some aa ha
    obtain ⟨h1, _, h3⟩ := hi.clean hclean es hes
    have : es = cc := by
      rcases h3 with h3 | ⟨h3, _⟩
      · rw [hc] at h3; exact (Option.some.inj h3).symm
      · rw [hc] at h3; cases h3
    subst this
    exact ⟨by rw [hl]; exact hes, by rw [← h1]; exact ha, fun hf => by cases hf⟩
  · rw [hs] at h
    simp only [Prod.mk.injEq, Out.res.injEq] at h
    obtain ⟨rfl, hr, _⟩ := h
    obtain ⟨hb, _, _, hmem, _⟩ := fetchStore_ok hr
    rw [hr]
    exact ⟨(after_ok_asked cfg s _ A C keep).1, hb, fun _ => hsub C hmem⟩

/-- a call that returns an error leaves the cache and the bookkeeping alone -/
theorem step_err_result (cfg : Cfg) {s s' : St} {op : Op} {b f r : Bool} {k : Nat}
    (h : step cfg s op = (s', .res (.err b) f r k)) : s' = s := by
  rcases step_call cfg s op with ⟨o, _, hn⟩ | ⟨aa, cc, keep, r', k', _, _, _, hs, _, _⟩ | ⟨pick, keep, r', k', _, hs⟩
  · rw [h] at hn; cases hn
  · rw [hs] at h
    simp only [Prod.mk.injEq, Out.res.injEq] at h
    exact absurd h.2.1 (by simp)
  · rw [hs] at h
    simp only [Prod.mk.injEq, Out.res.injEq] at h
    obtain ⟨rfl, hr, _⟩ := h
    rw [hr, after_err, fetchStore_err hr]

/-- on a cache that holds both maps every `GetByHead` is served from it, whatever the node would answer -/
theorem step_get_full (cfg : Cfg) {s : St} {A : AMap} {C : List Entry} (ha : s.c.active = some A)
    (hc : s.c.complete = some C) {o : Op} (ho : ∃ ans, o = .head ans ∨ o = .peek ans) :
    (step cfg s o).2 = .res (.ok A C) false false 0 ∧ (step cfg s o).1.c = s.c := by
  obtain ⟨ans, rfl | rfl⟩ := ho
  · simp [step, getByHead_full ha hc, after]
  · simp [step, getByHead_full ha hc, after]

theorem gets_full (cfg : Cfg) : ∀ (gets : List Op) {s : St} {A : AMap} {C : List Entry},
    s.c.active = some A → s.c.complete = some C → (∀ o ∈ gets, ∃ ans, o = .head ans ∨ o = .peek ans) →
    (∀ o ∈ outs cfg s gets, o = .res (.ok A C) false false 0) ∧ (run cfg s gets).c = s.c
  | [], _, _, _, _, _, _ => ⟨fun o ho => by simp [outs] at ho, rfl⟩
  | g :: gs, s, A, C, ha, hc, hg => by
    obtain ⟨h1, h2⟩ := step_get_full cfg ha hc (hg g List.mem_cons_self)
    obtain ⟨h3, h4⟩ := gets_full cfg gs (s := (step cfg s g).1) (by rw [h2]; exact ha) (by rw [h2]; exact hc)
      (fun o ho => hg o (List.mem_cons_of_mem _ ho))
    refine ⟨fun o ho => ?_, by simp only [run]; rw [h4, h2]⟩
    simp only [outs, List.mem_cons] at ho
    rcases ho with rfl | ho
    · exact h1
    · exact h3 o ho

/-! ### the repaired variant and runs without hostile writes -/

theorem nolive_step {s : St} (h : s.liveA = false ∧ s.liveC = false ∧ s.taint = false) (op : Op) :
    (step Cfg.fixed s op).1.liveA = false ∧ (step Cfg.fixed s op).1.liveC = false ∧ (step Cfg.fixed s op).1.taint = false := by
  rcases step_call Cfg.fixed s op with ⟨o, ho, _⟩ | ⟨aa, cc, keep, r', k', _, _, _, hs, _, _⟩ | ⟨pick, keep, r', k', _, hs⟩
  · rcases ho with rfl | rfl
    · exact ⟨rfl, rfl, rfl⟩
    · simp only [step]
      split
      · simp [h.1, h]
      · simp [h.2.1, h]
  · rw [hs]; cases keep <;> simp [after, Cfg.fixed, h]
  · rw [hs]
    cases (fetchStore s.c pick).2 with
    | err b => simpa [after] using h
    | ok a cc => cases keep <;> simp [after, Cfg.fixed]

theorem nolive_run : ∀ (ops : List Op) {s : St}, (s.liveA = false ∧ s.liveC = false ∧ s.taint = false) →
    ((run Cfg.fixed s ops).liveA = false ∧ (run Cfg.fixed s ops).liveC = false ∧ (run Cfg.fixed s ops).taint = false)
  | [], _, h => h
  | o :: os, _, h => nolive_run os (nolive_step h o)

theorem taint_step_nomut (cfg : Cfg) {s : St} (h : s.taint = false) {op : Op} (hop : ∀ m, op ≠ .mutate m) :
    (step cfg s op).1.taint = false := by
  rcases step_call cfg s op with ⟨o, ho, _⟩ | ⟨aa, cc, keep, r', k', _, _, _, hs, _, _⟩ | ⟨pick, keep, r', k', _, hs⟩
  · rcases ho with rfl | rfl
    · rfl
    · exact absurd rfl (hop o)
  · rw [hs, (after_ok_hit cfg s s.c aa cc keep).2.1]; exact h
  · rw [hs]
    cases hr : (fetchStore s.c pick).2 with
    | err b => simpa [after] using h
    | ok a cc => exact (after_ok_asked cfg s _ a cc keep).2.1

/-! ### where the stored response comes from -/

/-- `last` changes only by `Trim` (to `none`) or by a call that asked the node and stored its answer -/
theorem last_step (cfg : Cfg) (s : St) (op : Op) :
    (step cfg s op).1.last = s.last ∨ (op = .trim ∧ (step cfg s op).1.last = none) ∨
    ∃ A C r k, (step cfg s op).2 = .res (.ok A C) true r k ∧ (step cfg s op).1.last = some C ∧ C ∈ opAnswers op := by
  cases op with
  | trim => exact Or.inr (Or.inl ⟨rfl, rfl⟩)
  | mutate m =>
    left
    simp only [step]
    split
    · split <;> rfl
    · split <;> rfl
  | head ans =>
    simp only [step]
    by_cases hw : s.c.complete.isSome = true ∧ s.c.active.isSome = true
    · obtain ⟨cc, hc⟩ := Option.isSome_iff_exists.mp hw.1
      obtain ⟨aa, ha⟩ := Option.isSome_iff_exists.mp hw.2
      rw [getByHead_full ha hc]; left; simp [after]
    · have hm : s.c.complete = none ∨ s.c.active = none := by
        cases hcq : s.c.complete <;> cases haq : s.c.active <;> simp_all
      have : getByHead s.c ans = ((fetchStore s.c ans).1, (fetchStore s.c ans).2, true) := by
        unfold getByHead readComplete readActive; exact finish_miss ans hm
      rw [this]
      cases hr : (fetchStore s.c ans).2 with
      | err b => left; simp [after]
      | ok a cc =>
        right; right
        exact ⟨a, cc, false, 1, by simp, by simp [after], by simpa [opAnswers] using (fetchStore_ok hr).2.2.2.1⟩
  | peek ans =>
    simp only [step]
    by_cases hw : s.c.complete.isSome = true ∧ s.c.active.isSome = true
    · obtain ⟨cc, hc⟩ := Option.isSome_iff_exists.mp hw.1
      obtain ⟨aa, ha⟩ := Option.isSome_iff_exists.mp hw.2
      rw [getByHead_full ha hc]; left; simp [after]
    · have hm : s.c.complete = none ∨ s.c.active = none := by
        cases hcq : s.c.complete <;> cases haq : s.c.active <;> simp_all
      have : getByHead s.c ans = ((fetchStore s.c ans).1, (fetchStore s.c ans).2, true) := by
        unfold getByHead readComplete readActive; exact finish_miss ans hm
      rw [this]
      cases hr : (fetchStore s.c ans).2 with
      | err b => left; simp [after]
      | ok a cc =>
        right; right
        exact ⟨a, cc, false, 1, by simp, by simp [after], by simpa [opAnswers] using (fetchStore_ok hr).2.2.2.1⟩
  | slot aS aH =>
    simp only [step]
    obtain ⟨pick, ⟨h1, h2⟩, hsub⟩ := getBySlot_eq s.c aS aH
    rw [h1, h2]
    cases hr : (fetchStore s.c pick).2 with
    | err b => left; simp [after]
    | ok a cc =>
      right; right
      exact ⟨a, cc, _, _, rfl, by simp [after], by simpa [opAnswers] using hsub cc (fetchStore_ok hr).2.2.2.1⟩

def answersOfOps (ops : List Op) : List (List Entry) := ops.flatMap opAnswers

theorem last_mem_run (cfg : Cfg) : ∀ (ops : List Op) (s : St) (seen : List (List Entry)),
    (∀ es, s.last = some es → es ∈ seen) →
    ∀ es, (run cfg s ops).last = some es → es ∈ seen ++ answersOfOps ops
  | [], s, seen, h, es, hes => by simpa [run, answersOfOps] using h es hes
  | o :: os, s, seen, h, es, hes => by
    have hstep : ∀ es', (step cfg s o).1.last = some es' → es' ∈ seen ++ opAnswers o := by
      intro es' h'
      rcases last_step cfg s o with h1 | ⟨_, h1⟩ | ⟨A, C, r, k, _, h2, h3⟩
      · rw [h1] at h'; exact List.mem_append_left _ (h es' h')
      · rw [h1] at h'; cases h'
      · rw [h2] at h'; cases h'; exact List.mem_append_right _ h3
    have := last_mem_run cfg os (step cfg s o).1 (seen ++ opAnswers o) hstep es hes
    simpa [answersOfOps, List.append_assoc] using this

/-! ### interleavings -/

def AInv (seen : List (List Entry)) (s : ASt) : Prop :=
  (∀ a, s.c.active = some a → ∃ es ∈ seen, buildActive es [] = some a) ∧
  (∀ es, s.c.complete = some es → es ∈ seen) ∧
  (∀ p ∈ s.regs, (∀ a, p.2.ra = some a → ∃ es ∈ seen, buildActive es [] = some a) ∧
                 (∀ es, p.2.rc = some es → es ∈ seen))

/-- what a returned result must look like -/
def ResOk (seen : List (List Entry)) : Res → Prop
  | .err _ => True
  | .ok a cc => (∃ es ∈ seen, buildActive es [] = some a) ∧ cc ∈ seen

theorem AInv.mono {seen seen' : List (List Entry)} {s : ASt} (h : AInv seen s) (hs : ∀ x ∈ seen, x ∈ seen') :
    AInv seen' s :=
  ⟨fun a ha => let ⟨es, h1, h2⟩ := h.1 a ha; ⟨es, hs es h1, h2⟩,
   fun es he => hs es (h.2.1 es he),
   fun p hp => ⟨fun a ha => let ⟨es, h1, h2⟩ := (h.2.2 p hp).1 a ha; ⟨es, hs es h1, h2⟩,
                fun es he => hs es ((h.2.2 p hp).2 es he)⟩⟩

theorem getRegs_cases (l : List (Nat × Regs)) (t : Nat) : getRegs l t = {} ∨ ∃ p ∈ l, getRegs l t = p.2 := by
  unfold getRegs
  cases hf : l.find? (fun p => p.1 == t) with
  | none => exact Or.inl rfl
  | some p => exact Or.inr ⟨p, List.mem_of_find?_eq_some hf, rfl⟩

theorem mem_setRegs {l : List (Nat × Regs)} {t : Nat} {r : Regs} {p : Nat × Regs} (h : p ∈ setRegs l t r) :
    p = (t, r) ∨ p ∈ l := by
  simp only [setRegs, List.mem_cons, List.mem_filter] at h
  rcases h with h | h
  · exact Or.inl h
  · exact Or.inr h.1

theorem regs_ok {seen : List (List Entry)} {s : ASt} (h : AInv seen s) (t : Nat) :
    (∀ a, (getRegs s.regs t).ra = some a → ∃ es ∈ seen, buildActive es [] = some a) ∧
    (∀ es, (getRegs s.regs t).rc = some es → es ∈ seen) := by
  rcases getRegs_cases s.regs t with h0 | ⟨p, hp, h1⟩
  · rw [h0]; exact ⟨fun a ha => (by cases ha), fun es he => (by cases he)⟩
  · rw [h1]; exact h.2.2 p hp

theorem ainv_fetchStore {seen : List (List Entry)} {c : Cache} {regs : List (Nat × Regs)} (ans : Ans)
    (h : AInv seen ⟨c, regs⟩) :
    AInv (seen ++ ansContent ans) ⟨(fetchStore c ans).1, regs⟩ ∧ ResOk (seen ++ ansContent ans) (fetchStore c ans).2 := by
  have hm : AInv (seen ++ ansContent ans) ⟨c, regs⟩ := h.mono (fun x hx => List.mem_append_left _ hx)
  cases hr : (fetchStore c ans).2 with
  | err b =>
    rw [fetchStore_err hr]
    exact ⟨hm, trivial⟩
  | ok a cc =>
    obtain ⟨hb, hact, hcomp, hmem, _⟩ := fetchStore_ok hr
    have hcc : cc ∈ seen ++ ansContent ans := List.mem_append_right _ hmem
    refine ⟨⟨?_, ?_, hm.2.2⟩, ⟨⟨cc, hcc, hb⟩, hcc⟩⟩
    · intro a' ha'
      simp only [hact, Option.some.injEq] at ha'
      subst ha'
      exact ⟨cc, hcc, hb⟩
    · intro es he
      rcases hcomp with h1 | ⟨h1, _, _⟩
      · simp only [h1, Option.some.injEq] at he; subst he; exact hcc
      · simp [h1] at he

theorem ainv_step {seen : List (List Entry)} {s : ASt} (h : AInv seen s) (x : AStep) :
    AInv (seen ++ stepAnswers x) (astep s x).1 ∧
    ∀ r, (astep s x).2 = some r → ResOk (seen ++ stepAnswers x) r := by
  cases x with
  | trim =>
    simp only [astep, stepAnswers, List.append_nil]
    exact ⟨⟨fun a ha => by simp [Cache.trim] at ha, fun es he => by simp [Cache.trim] at he, h.2.2⟩,
           fun r hr => by cases hr⟩
  | r1 t =>
    simp only [astep, stepAnswers, List.append_nil]
    refine ⟨⟨h.1, h.2.1, fun p hp => ?_⟩, fun r hr => by cases hr⟩
    rcases mem_setRegs hp with rfl | hp'
    · exact ⟨(regs_ok h t).1, fun es he => h.2.1 es he⟩
    · exact h.2.2 p hp'
  | r2 t =>
    simp only [astep, stepAnswers, List.append_nil]
    refine ⟨⟨h.1, h.2.1, fun p hp => ?_⟩, fun r hr => by cases hr⟩
    rcases mem_setRegs hp with rfl | hp'
    · exact ⟨fun a ha => h.1 a ha, (regs_ok h t).2⟩
    · exact h.2.2 p hp'
  | slot aS aH =>
    simp only [astep, stepAnswers]
    obtain ⟨pick, ⟨h1, h2⟩, hsub⟩ := getBySlot_eq s.c aS aH
    rw [h1, h2]
    have hf := ainv_fetchStore (regs := s.regs) pick (show AInv seen ⟨s.c, s.regs⟩ from h)
    have hmono : ∀ x ∈ seen ++ ansContent pick, x ∈ seen ++ (ansContent aS ++ ansContent aH) := by
      intro x hx
      rcases List.mem_append.mp hx with hx | hx
      · exact List.mem_append_left _ hx
      · exact List.mem_append_right _ (hsub x hx)
    refine ⟨hf.1.mono hmono, fun r hr => ?_⟩
    simp only [Option.some.injEq] at hr
    subst hr
    cases hq : (fetchStore s.c pick).2 with
    | err b => trivial
    | ok a cc =>
      have := hf.2
      rw [hq] at this
      exact ⟨let ⟨es, he1, he2⟩ := this.1; ⟨es, hmono es he1, he2⟩, hmono cc this.2⟩
  | fin t ans =>
    simp only [astep, stepAnswers]
    have hro := regs_ok h t
    cases hrc : (getRegs s.regs t).rc with
    | none =>
      rw [finish_miss ans (Or.inl rfl)]
      have hf := ainv_fetchStore (regs := s.regs) ans (show AInv seen ⟨s.c, s.regs⟩ from h)
      refine ⟨⟨hf.1.1, hf.1.2.1, fun p hp => ?_⟩, fun r hr => by simp only [Option.some.injEq] at hr; subst hr; exact hf.2⟩
      rcases mem_setRegs hp with rfl | hp'
      · exact ⟨fun a ha => (by cases ha), fun es he => (by cases he)⟩
      · exact hf.1.2.2 p hp'
    | some cc =>
      cases hra : (getRegs s.regs t).ra with
      | none =>
        rw [finish_miss ans (Or.inr rfl)]
        have hf := ainv_fetchStore (regs := s.regs) ans (show AInv seen ⟨s.c, s.regs⟩ from h)
        refine ⟨⟨hf.1.1, hf.1.2.1, fun p hp => ?_⟩, fun r hr => by simp only [Option.some.injEq] at hr; subst hr; exact hf.2⟩
        rcases mem_setRegs hp with rfl | hp'
        · exact ⟨fun a ha => (by cases ha), fun es he => (by cases he)⟩
        · exact hf.1.2.2 p hp'
      | some aa =>
        rw [finish_hit]
        have hm : AInv (seen ++ ansContent ans) s := h.mono (fun x hx => List.mem_append_left _ hx)
        refine ⟨⟨hm.1, hm.2.1, fun p hp => ?_⟩, fun r hr => ?_⟩
        · rcases mem_setRegs hp with rfl | hp'
          · exact ⟨fun a ha => (by cases ha), fun es he => (by cases he)⟩
          · exact hm.2.2 p hp'
        · simp only [Option.some.injEq] at hr
          subst hr
          obtain ⟨es, he1, he2⟩ := hro.1 aa hra
          exact ⟨⟨es, List.mem_append_left _ he1, he2⟩, List.mem_append_left _ (hro.2 cc hrc)⟩

theorem ResOk.mono {seen seen' : List (List Entry)} {r : Res} (h : ResOk seen r) (hs : ∀ x ∈ seen, x ∈ seen') :
    ResOk seen' r := by
  cases r with
  | err b => trivial
  | ok a cc => exact ⟨let ⟨es, h1, h2⟩ := h.1; ⟨es, hs es h1, h2⟩, hs cc h.2⟩

theorem ainv_run : ∀ (xs : List AStep) (s : ASt) (seen : List (List Entry)), AInv seen s →
    ∀ r ∈ (arun s xs).2, ResOk (seen ++ answersOf xs) r
  | [], _, _, _, r, hr => by simp [arun] at hr
  | x :: xs, s, seen, h, r, hr => by
    have hs := ainv_step h x
    simp only [arun, List.mem_append] at hr
    have heq : seen ++ answersOf (x :: xs) = (seen ++ stepAnswers x) ++ answersOf xs := by
      simp [answersOf, List.append_assoc]
    rw [heq]
    rcases hr with hr | hr
    · cases ho : (astep s x).2 with
      | none => simp [ho] at hr
      | some o =>
        simp only [ho, List.mem_singleton] at hr
        subst hr
        exact (hs.2 r ho).mono (fun y hy => List.mem_append_left _ hy)
    · exact ainv_run xs (astep s x).1 (seen ++ stepAnswers x) hs.1 r hr

/-! ### the scheduler's filter -/

theorem resolveActive_spec (epoch : Nat) : ∀ (es : List Entry) (vs : List (Nat × Nat)), resolveActive epoch es = some vs →
    ∀ p, p ∈ vs ↔ ∃ e ∈ es, p = (e.key, e.pk) ∧ (isActive e.status = true ∨ e.act = epoch)
  | [], vs, h, p => by simp [resolveActive] at h; subst h; simp
  | e :: es, vs, h, p => by
    unfold resolveActive at h
    by_cases hb : e.bad = 0
    · simp only [hb, bne_self_eq_false, Bool.false_eq_true, if_false] at h
      cases hr : resolveActive epoch es with
      | none => simp [hr] at h
      | some r =>
        simp only [hr] at h
        have ih := resolveActive_spec epoch es r hr p
        by_cases hk : (isActive e.status || e.act == epoch) = true
        · simp only [hk, if_true, Option.some.injEq] at h
          subst h
          simp only [List.mem_cons, ih]
          constructor
          · rintro (rfl | ⟨e', he', h'⟩)
            · exact ⟨e, Or.inl rfl, rfl, by simpa using hk⟩
            · exact ⟨e', Or.inr he', h'⟩
          · rintro ⟨e', he' | he', h'⟩
            · subst he'; exact Or.inl h'.1
            · exact Or.inr ⟨e', he', h'⟩
        · simp only [hk, Bool.false_eq_true, if_false, Option.some.injEq] at h
          subst h
          rw [ih]
          constructor
          · rintro ⟨e', he', h'⟩; exact ⟨e', List.mem_cons_of_mem _ he', h'⟩
          · rintro ⟨e', he', h'⟩
            rcases List.mem_cons.mp he' with rfl | he''
            · exfalso; apply hk; simpa using h'.2
            · exact ⟨e', he'', h'⟩
    · simp [hb] at h

end CharonV.ValCache
