/-
Refinement, part 8: one full `step` of the implementation model, and the global theorem:
every reachable state of the cluster of implementation nodes is related to a reachable state of
the abstract spec with the same history.
-/
import CharonV.Proofs.QbftRefine7

namespace CharonV.QbftSys

open CharonV.Qbft CharonV.QbftSpec

variable {P : Params} {fifo : Nat}

local notation "D" => mkDef P fifo

/-- a decided spec node sits in the round of its decision. -/
theorem spec_decided_round {t : QbftSpec.State} (hr : QbftSpec.Reach P t) :
    ∀ p r v, (t.nodes p).decided = some (r, v) → (t.nodes p).round = r := by
  induction hr with
  | init => intro p r v h; simp [QbftSpec.init] at h
  | step _ hs ih =>
    intro p r v h
    cases hs with
    | accept i r' v' path out hi hd hr' hpp hl hav hv hj ho hf =>
      cases out <;> simp [acceptResult, setNode] at h ⊢ <;> grind
    | _ => simp [setNode] at h ⊢ <;> grind

theorem started_eta (n : NodeState) (h : n.started = true) : { n with started := true } = n := by
  cases n; simp_all

theorem good_of_dead {t : QbftSpec.State} {p cfr : Nat} {e : Event} {n' : NodeState} {outs : List Out}
    (h : Good P fifo t p cfr e (n', outs)) : Good P fifo t p cfr e ({ n' with dead := true }, outs) := by
  obtain ⟨⟨t', h1, h2, h3, h4⟩, hli⟩ := h
  refine ⟨⟨t', h1, h2, h3, by simpa using h4⟩, ?_⟩
  exact ⟨hli.proc, hli.bufAdm, hli.input, hli.cache, hli.timer, by intro _ h; simp at h⟩

theorem bug_ghost (p cfr : Nat) (e : Event) (s : String) : outEv D p cfr e (Out.bug s) = [] := rfl

/-- One iteration of the implementation's event loop is simulated by the spec. -/
theorem good_step (hn : 1 ≤ P.n) (hb : P.byzCount ≤ faulty P.n)
    {t : QbftSpec.State} {p : Nat} {n : NodeState} (o : Oracle) (e : Event)
    (hr : QbftSpec.Reach P t) (hp : P.honest p) (hrel : nodeRel (t.nodes p) (absNode n))
    (hli : LInv P t.hist p n)
    (hev : evOkH P t.hist p e) :
    Good P fifo t p n.compareFailureRound e (step D o n e) := by
  have stutter : Good P fifo t p n.compareFailureRound e (n, []) :=
    ⟨sim_stutter hr hrel ⟨rfl, fun _ => rfl⟩, by simpa using hli⟩
  unfold step
  by_cases hdead : n.dead = true
  · simpa [hdead] using stutter
  · have hdead' : n.dead = false := by cases h : n.dead <;> simp_all
    rw [if_neg hdead]
    by_cases hse : (n.started == e.isStart) = true
    · simpa [hse] using stutter
    · rw [if_neg hse]
      -- the core step
      have core : Good P fifo t p n.compareFailureRound e (stepCore D o { n with started := true } e) := by
        cases e with
        | start =>
          have hst : n.started = false := by
            cases h : n.started <;> simp_all [Event.isStart]
          have hn0 := hli.fresh hst hdead'
          subst hn0
          exact ⟨sim_start _ hr hrel, by
            have := linv_start (P := P) (fifo := fifo) (H := t.hist) (p := p)
              ((onStart D { proc := p, started := true }).2.flatMap (outEv D p 0 .start))
            exact this⟩
        | input v =>
          have hst : n.started = true := by
            cases h : n.started <;> simp_all [Event.isStart]
          rw [started_eta n hst]
          have hround : (t.nodes p).round = n.round := by
            by_cases hd : (absNode n).decided = none
            · rw [hrel.2 hd]; rfl
            · -- decided: the spec node sits in the round of its decision, which the relation
              -- identifies with the implementation's round
              have hq : n.qCommit.isEmpty = false := by
                cases h : n.qCommit.isEmpty with
                | false => rfl
                | true => exact absurd (absNode_decided_none h) hd
              have h1 := hrel.1
              rw [absNode_decided_some hq] at h1
              exact spec_decided_round hr p _ _ h1
          exact ⟨sim_input _ v hr hp hrel hli hev hround, linv_input _ v hli hst hev⟩
        | timeout =>
          have hst : n.started = true := by
            cases h : n.started <;> simp_all [Event.isStart]
          rw [started_eta n hst]
          exact ⟨sim_timeout _ hr hp hrel hli, linv_timeout _ hli hst⟩
        | recv m c =>
          have hst : n.started = true := by
            cases h : n.started <;> simp_all [Event.isStart]
          rw [started_eta n hst]
          unfold stepCore
          simp only
          by_cases hq : n.qCommit.isEmpty = true
          · simp only [hq, Bool.not_true, Bool.false_eq_true, if_false]
            have hq' : n.qCommit = [] := List.isEmpty_iff.mp hq
            have heq : t.nodes p = absNode n := hrel.2 (absNode_decided_none hq)
            cases hj : isJustified D m n.compareFailureRound with
            | none =>
              exact ⟨by simpa [outEv] using sim_stutter hr hrel ⟨rfl, fun _ => rfl⟩,
                by simpa [outEv] using hli⟩
            | some b =>
              cases b with
              | false =>
                exact ⟨by simpa [outEv] using sim_stutter hr hrel ⟨rfl, fun _ => rfl⟩,
                  by simpa [outEv] using hli⟩
              | true =>
                exact sim_onRecvJustified hn hb o hr hp heq hq' hli hst hev.1 hev.2 hj
          · have hq' : n.qCommit.isEmpty = false := by cases h : n.qCommit.isEmpty <;> simp_all
            simp only [hq', Bool.not_false, if_true]
            exact ⟨sim_recvDecided _ m _ hr hrel, linv_recvDecided _ m hli hst⟩
      -- a "bug:" panic additionally marks the node dead
      cases hsc : stepCore D o { n with started := true } e with
      | mk n' outs =>
        rw [hsc] at core
        simp only
        split
        · exact good_of_dead core
        · exact core

end CharonV.QbftSys
