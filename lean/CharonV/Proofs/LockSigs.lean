/-
Helper lemmas for `CharonV.Props.C12LockSigs` (model: `CharonV.Model.LockSigs`): the predicates `Unsigned`, `SignedOK`,
`CreatorOK`; `verifySig` / `verifySigOrERC1271` with a nil execution client; the operator loop (`opsLoop`) and the
creator part of `Definition.VerifySignatures`; the characterisation `verifyDef_none_ok_iff`; the loops of
`Lock.VerifySignatures` (`nodeSigsLoop`, `parseShares`, `valsLoop`).
-/
import CharonV.Model.LockSigs

namespace CharonV.LockSigs
variable {η : Type} [DecidableEq η]
set_option linter.unusedSectionVars false

def Unsigned (o : Operator η) : Prop := o.addr = .empty ∧ o.enrSig.size = 0 ∧ o.cfgSig.size = 0
def SignedOK (ver ch : Nat) (h : η) (o : Operator η) : Prop :=
  ∃ k, o.addr = .key k ∧ o.cfgSig = .good k (opDigest ver ch h) ∧ o.enrSig = .good k (.enr ch o.enr)
def CreatorOK (ch : Nat) (h : η) (c : Creator η) : Prop :=
  ∃ k, c.addr = .key k ∧ c.cfgSig = .good k (.creatorCfg ch h)

instance (o : Operator η) : Decidable (Unsigned o) := by unfold Unsigned; infer_instance

theorem verifySig_ok_iff (a : Addr) (d : Digest η) (s : Sig η) :
    verifySig a d s = .ok ↔ ∃ k, a = .key k ∧ s = .good k d := by
  unfold verifySig
  cases a <;> cases s <;> simp

theorem verifySigOrErc_none_ok_iff (a : Addr) (d : Digest η) (s : Sig η) :
    verifySigOrErc none a d s = .ok ↔ ∃ k, a = .key k ∧ s = .good k d := by
  unfold verifySigOrErc
  simp only []
  constructor
  · intro h
    by_cases h65 : s.size = 65
    · simp only [h65, if_true] at h
      split at h
      · rename_i h1; exact (verifySig_ok_iff a d s).1 h1
      · rename_i h1; exact absurd h h1
    · simp [h65] at h
  · rintro ⟨k, rfl, rfl⟩
    simp [Sig.size, verifySig]

theorem sigStep_none_iff (w : Who) (a : Addr) (d : Digest η) (s : Sig η) :
    sigStep none w a d s = none ↔ ∃ k, a = .key k ∧ s = .good k d := by
  rw [← verifySigOrErc_none_ok_iff]
  unfold sigStep
  split <;> simp_all

theorem lenOk_good (ver k : Nat) (d : Digest η) : lenOk ver (Sig.good k d) = true := by
  unfold lenOk; simp [Sig.size]

theorem opCheck_none_signed_iff (ver ch : Nat) (h : η) (o : Operator η) :
    opCheck none ver ch h o = .signed ↔ SignedOK ver ch h o := by
  unfold opCheck SignedOK
  constructor
  · intro hh
    split at hh; · cases hh
    split at hh; · cases hh
    split at hh; · cases hh
    split at hh; · cases hh
    split at hh; · cases hh
    rename_i h1
    split at hh; · cases hh
    rename_i h2
    obtain ⟨k, hk, hs⟩ := (sigStep_none_iff _ _ _ _).1 h1
    obtain ⟨k', hk', hs'⟩ := (sigStep_none_iff _ _ _ _).1 h2
    rw [hk] at hk'; cases hk'
    exact ⟨k, hk, hs, hs'⟩
  · rintro ⟨k, hk, hc, he⟩
    have h1 := (sigStep_none_iff (η := η) .opCfg o.addr (opDigest ver ch h) o.cfgSig).2 ⟨k, hk, hc⟩
    have h2 := (sigStep_none_iff (η := η) .opEnr o.addr (.enr ch o.enr) o.enrSig).2 ⟨k, hk, he⟩
    rw [h1, h2]
    simp [hk, hc, he, lenOk_good, Sig.size]

theorem opCheck_unsigned_iff (e : Option (Eth1 η)) (ver ch : Nat) (h : η) (o : Operator η) :
    opCheck e ver ch h o = .unsigned ↔ Unsigned o := by
  unfold opCheck Unsigned
  constructor
  · intro hh
    split at hh; · assumption
    split at hh; · cases hh
    split at hh; · cases hh
    split at hh; · cases hh
    split at hh; · cases hh
    split at hh <;> cases hh
  · intro hh; rw [if_pos hh]

theorem opsLoop_ok_iff (check : Operator η → OpRes) (ops : List (Operator η)) (c c' : Nat) :
    opsLoop check ops c = .ok c' ↔
      (∀ o ∈ ops, ∀ x, check o ≠ .err x) ∧ c' = c + ops.countP (fun o => check o = .unsigned) := by
  induction ops generalizing c with
  | nil => simp [opsLoop, eq_comm]
  | cons o os ih =>
    simp only [opsLoop]
    cases hc : check o with
    | unsigned => simp [ih, hc]; omega
    | signed => simp [ih, hc]
    | err x => simp [hc]

theorem opCheck_none_noerr_iff (ver ch : Nat) (h : η) (o : Operator η) :
    (∀ x, opCheck none ver ch h o ≠ .err x) ↔ Unsigned o ∨ SignedOK ver ch h o := by
  rw [← opCheck_unsigned_iff none ver ch h o, ← opCheck_none_signed_iff]
  cases opCheck none ver ch h o <;> simp

theorem unsigned_not_signed {ver ch : Nat} {h : η} {o : Operator η} (hu : Unsigned o) : ¬ SignedOK ver ch h o := by
  rintro ⟨k, hk, _⟩; rw [hu.1] at hk; cases hk

theorem opsLoop_opCheck_none (ver ch : Nat) (h : η) (ops : List (Operator η)) (n : Nat) :
    opsLoop (opCheck none ver ch h) ops 0 = .ok n ↔
      (∀ o ∈ ops, Unsigned o ∨ SignedOK ver ch h o) ∧ n = ops.countP (fun o => decide (Unsigned o)) := by
  rw [opsLoop_ok_iff]
  simp only [opCheck_none_noerr_iff, opCheck_unsigned_iff, Nat.zero_add]

theorem countP_unsigned_cases (ver ch : Nat) (h : η) (ops : List (Operator η))
    (hall : ∀ o ∈ ops, Unsigned o ∨ SignedOK ver ch h o) :
    ¬ (ops.countP (fun o => decide (Unsigned o)) > 0 ∧ ops.countP (fun o => decide (Unsigned o)) ≠ ops.length) ↔
      ((∀ o ∈ ops, Unsigned o) ∨ (∀ o ∈ ops, SignedOK ver ch h o)) := by
  constructor
  · intro hh
    by_cases h0 : ops.countP (fun o => decide (Unsigned o)) = 0
    · right
      rw [List.countP_eq_zero] at h0
      intro o ho
      have := h0 o ho
      simp only [decide_eq_true_eq] at this
      exact (hall o ho).resolve_left this
    · left
      have hl : ops.countP (fun o => decide (Unsigned o)) = ops.length := by
        apply Classical.byContradiction; intro hne; exact hh ⟨Nat.pos_of_ne_zero h0, hne⟩
      rw [List.countP_eq_length] at hl
      intro o ho; simpa using hl o ho
  · rintro (hu | hs)
    · have : ops.countP (fun o => decide (Unsigned o)) = ops.length := by
        rw [List.countP_eq_length]; intro o ho; simpa using hu o ho
      omega
    · have : ops.countP (fun o => decide (Unsigned o)) = 0 := by
        rw [List.countP_eq_zero]; intro o ho
        simp only [decide_eq_true_eq]
        intro hu; exact unsigned_not_signed hu (hs o ho)
      omega

theorem countP_unsigned_ne_zero (ops : List (Operator η)) :
    ops.countP (fun o => decide (Unsigned o)) ≠ 0 ↔ ∃ o ∈ ops, Unsigned o := by
  rw [Ne, List.countP_eq_zero]
  simp

theorem creatorCheck_none_ok_iff (d : Definition η) (ch n : Nat) :
    creatorCheck none d ch n = .ok ↔
      (if d.ver = 3 then d.creator.cfgSig.size = 0
       else ((d.creator.addr = .empty ∧ d.creator.cfgSig.size = 0 ∧ n ≠ 0) ∨ CreatorOK ch d.cfgHash d.creator)) := by
  unfold creatorCheck
  by_cases h3 : d.ver = 3
  · simp only [h3, if_true]
    split <;> simp <;> omega
  · simp only [h3, if_false]
    by_cases he : d.creator.addr = .empty ∧ d.creator.cfgSig.size = 0
    · simp only [he, and_self, if_true, true_and]
      have : ¬ CreatorOK ch d.cfgHash d.creator := by
        rintro ⟨k, hk, _⟩; rw [he.1] at hk; cases hk
      simp only [this, or_false]
      split <;> simp_all
    · rw [if_neg he]
      have : ¬ (d.creator.addr = .empty ∧ d.creator.cfgSig.size = 0 ∧ n ≠ 0) := fun hh => he ⟨hh.1, hh.2.1⟩
      simp only [this, false_or]
      by_cases hz : d.creator.cfgSig.size = 0
      · rw [if_pos hz]
        simp only [reduceCtorEq, false_iff]
        rintro ⟨k, _, hk⟩; rw [hk] at hz; simp [Sig.size] at hz
      · rw [if_neg hz]
        unfold CreatorOK
        rw [← sigStep_none_iff .creator]
        split <;> simp_all

theorem sigsPresent_false_iff (ops : List (Operator η)) :
    sigsPresent ops = false ↔ ∀ o ∈ ops, o.enrSig.size = 0 ∧ o.cfgSig.size = 0 := by
  unfold sigsPresent
  rw [List.any_eq_false]
  simp

theorem verifyDef_none_ok_iff (d : Definition η) :
    verifyDef none d = .ok ↔
      (if d.ver ≤ 2 then ∀ o ∈ d.ops, o.enrSig.size = 0 ∧ o.cfgSig.size = 0
       else ∃ ch, d.chain = some ch ∧ lenOk d.ver d.creator.cfgSig = true ∧
         ((∀ o ∈ d.ops, Unsigned o) ∨ (∀ o ∈ d.ops, SignedOK d.ver ch d.cfgHash o)) ∧
         (if d.ver = 3 then d.creator.cfgSig.size = 0
          else ((d.creator.addr = .empty ∧ d.creator.cfgSig.size = 0 ∧ ∃ o ∈ d.ops, Unsigned o) ∨
                CreatorOK ch d.cfgHash d.creator))) := by
  unfold verifyDef
  by_cases hv : d.ver ≤ 2
  · simp only [hv, if_true]
    rw [← sigsPresent_false_iff]
    cases sigsPresent d.ops <;> simp
  · simp only [hv, if_false]
    by_cases hl : lenOk d.ver d.creator.cfgSig = true
    · simp only [hl, Bool.not_true, Bool.false_eq_true, if_false, true_and]
      cases hc : d.chain with
      | none => simp
      | some ch =>
        simp only [Option.some.injEq, exists_eq_left']
        cases hloop : opsLoop (opCheck none d.ver ch d.cfgHash) d.ops 0 with
        | error x =>
          simp only [reduceCtorEq, false_iff]
          rintro ⟨hor, _⟩
          have hall : ∀ o ∈ d.ops, Unsigned o ∨ SignedOK d.ver ch d.cfgHash o := by
            intro o ho; rcases hor with hu | hs
            · exact Or.inl (hu o ho)
            · exact Or.inr (hs o ho)
          have := (opsLoop_opCheck_none d.ver ch d.cfgHash d.ops _).2 ⟨hall, rfl⟩
          rw [hloop] at this; cases this
        | ok n =>
          obtain ⟨hall, hn⟩ := (opsLoop_opCheck_none d.ver ch d.cfgHash d.ops n).1 hloop
          simp only []
          have hcc := countP_unsigned_cases d.ver ch d.cfgHash d.ops hall
          rw [← hn] at hcc
          by_cases hsome : n > 0 ∧ n ≠ d.ops.length
          · rw [if_pos hsome]
            simp only [reduceCtorEq, false_iff]
            rintro ⟨hor, _⟩
            exact (hcc.2 hor) hsome
          · rw [if_neg hsome, creatorCheck_none_ok_iff]
            have hex : n ≠ 0 ↔ ∃ o ∈ d.ops, Unsigned o := by rw [hn]; exact countP_unsigned_ne_zero d.ops
            rw [hex]
            simp only [hcc.1 hsome, true_and]
    · simp only [hl, Bool.not_false, if_true]
      simp

/-! ### consequences of acceptance (ver ≥ 3, nil execution client) -/

theorem accepted_v3 {d : Definition η} (hv : 3 ≤ d.ver) (hok : verifyDef none d = .ok) :
    ∃ ch, d.chain = some ch ∧ lenOk d.ver d.creator.cfgSig = true ∧
      ((∀ o ∈ d.ops, Unsigned o) ∨ (∀ o ∈ d.ops, SignedOK d.ver ch d.cfgHash o)) ∧
      (if d.ver = 3 then d.creator.cfgSig.size = 0
       else ((d.creator.addr = .empty ∧ d.creator.cfgSig.size = 0 ∧ ∃ o ∈ d.ops, Unsigned o) ∨
             CreatorOK ch d.cfgHash d.creator)) := by
  have := (verifyDef_none_ok_iff d).1 hok
  rwa [if_neg (by omega)] at this

theorem accepted_op {d : Definition η} (hv : 3 ≤ d.ver) (hok : verifyDef none d = .ok) {o : Operator η}
    (ho : o ∈ d.ops) : ∃ ch, d.chain = some ch ∧ (Unsigned o ∨ SignedOK d.ver ch d.cfgHash o) := by
  obtain ⟨ch, hc, _, hor, _⟩ := accepted_v3 hv hok
  refine ⟨ch, hc, ?_⟩
  rcases hor with h | h
  · exact Or.inl (h o ho)
  · exact Or.inr (h o ho)

theorem accepted_signed_op {d : Definition η} (hv : 3 ≤ d.ver) (hok : verifyDef none d = .ok) {o : Operator η}
    (ho : o ∈ d.ops) (hn : ¬ Unsigned o) : ∃ ch, d.chain = some ch ∧ ∀ o' ∈ d.ops, SignedOK d.ver ch d.cfgHash o' := by
  obtain ⟨ch, hc, _, hor, _⟩ := accepted_v3 hv hok
  refine ⟨ch, hc, ?_⟩
  rcases hor with h | h
  · exact absurd (h o ho) hn
  · exact h

theorem accepted_creator_v4 {d : Definition η} (hv : 4 ≤ d.ver) (hok : verifyDef none d = .ok) :
    ∃ ch, d.chain = some ch ∧
      ((d.creator.addr = .empty ∧ d.creator.cfgSig.size = 0 ∧ ∃ o ∈ d.ops, Unsigned o) ∨
        CreatorOK ch d.cfgHash d.creator) := by
  obtain ⟨ch, hc, _, _, hcr⟩ := accepted_v3 (by omega) hok
  rw [if_neg (by omega)] at hcr
  exact ⟨ch, hc, hcr⟩

theorem opDigest_inj {ver ch ch' : Nat} {h h' : η} (hh : opDigest ver ch h = opDigest ver ch' h') :
    ch = ch' ∧ h = h' := by
  unfold opDigest at hh
  split at hh <;> (cases hh; exact ⟨rfl, rfl⟩)

theorem not_unsigned_of_key {o : Operator η} {k : Key} (hk : o.addr = .key k) : ¬ Unsigned o := by
  intro hu; rw [hu.1] at hk; cases hk

theorem not_unsigned_of_cfg_good {o : Operator η} {k : Key} {dg : Digest η} (hk : o.cfgSig = .good k dg) :
    ¬ Unsigned o := by
  intro hu; have := hu.2.2; rw [hk] at this; simp [Sig.size] at this

theorem not_unsigned_of_enr_good {o : Operator η} {k : Key} {dg : Digest η} (hk : o.enrSig = .good k dg) :
    ¬ Unsigned o := by
  intro hu; have := hu.2.1; rw [hk] at this; simp [Sig.size] at this

/-- The signatures an accepted definition carries determine the stored config hash. -/
theorem cfgHash_bound {d d' : Definition η} (hv : 3 ≤ d.ver) (hver : d'.ver = d.ver) (hops : d'.ops = d.ops)
    (hcr : d'.creator = d.creator)
    (hsig : (∃ o ∈ d.ops, ¬ Unsigned o) ∨ d.creator.cfgSig.size ≠ 0)
    (hok : verifyDef none d = .ok) (hok' : verifyDef none d' = .ok) : d'.cfgHash = d.cfgHash := by
  rcases hsig with ⟨o, ho, hn⟩ | hc
  · obtain ⟨ch, _, hs⟩ := accepted_signed_op hv hok ho hn
    obtain ⟨ch', _, hs'⟩ := accepted_signed_op (d := d') (by omega) hok' (hops ▸ ho) hn
    obtain ⟨k, _, h1, _⟩ := hs o ho
    obtain ⟨k', _, h1', _⟩ := hs' o (hops ▸ ho)
    rw [h1, hver] at h1'
    have heq := (Sig.good.inj h1').2
    exact (opDigest_inj heq).2.symm
  · obtain ⟨ch, _, _, _, h1⟩ := accepted_v3 hv hok
    obtain ⟨ch', _, _, _, h1'⟩ := accepted_v3 (d := d') (by omega) hok'
    rw [hver, hcr] at h1'
    by_cases h3 : d.ver = 3
    · rw [if_pos h3] at h1; exact absurd h1 hc
    · rw [if_neg h3] at h1 h1'
      rcases h1 with h1 | ⟨k, _, h1⟩
      · exact absurd h1.2.1 hc
      · rcases h1' with h1' | ⟨k', _, h1'⟩
        · exact absurd h1'.2.1 hc
        · rw [h1] at h1'
          have := (Sig.good.inj h1').2
          exact (Digest.creatorCfg.inj this).2.symm

/-- An operator's config signature that is a real signature over anything but the operator digest of this definition. -/
theorem cfgSig_digest_rejected {d : Definition η} (hv : 3 ≤ d.ver) {o : Operator η} (ho : o ∈ d.ops) {k : Key}
    {dg : Digest η} (hs : o.cfgSig = .good k dg) (hne : ∀ ch, d.chain = some ch → dg ≠ opDigest d.ver ch d.cfgHash) :
    verifyDef none d ≠ .ok := by
  intro hok
  obtain ⟨ch, hc, hor⟩ := accepted_op hv hok ho
  rcases hor with hu | ⟨k', _, h1, _⟩
  · exact not_unsigned_of_cfg_good hs hu
  · rw [hs] at h1; cases h1; exact hne ch hc rfl


/-! ### node signatures -/

theorem nodeSigStep_none_iff (h : η) (o : Operator η) (s : Sig η) :
    nodeSigStep h o s = none ↔ ∃ k, o.enrKey = some k ∧ s = .good k (.raw h) := by
  unfold nodeSigStep
  cases o.enrKey with
  | none => simp
  | some k =>
    cases s with
    | good k' d =>
      simp only [Option.some.injEq, Sig.good.injEq, exists_eq_left']
      split <;> simp_all
    | _ => simp

theorem nodeSigsLoop_none_iff (h : η) (ops : List (Operator η)) (sigs : List (Sig η)) :
    nodeSigsLoop h ops sigs = none ↔
      ∀ i (hi : i < ops.length) (hj : i < sigs.length), nodeSigStep h ops[i] sigs[i] = none := by
  induction ops generalizing sigs with
  | nil => simp [nodeSigsLoop]
  | cons o os ih =>
    cases sigs with
    | nil => simp [nodeSigsLoop]
    | cons s ss =>
      simp only [nodeSigsLoop]
      constructor
      · intro hh i hi hj
        cases hs : nodeSigStep h o s with
        | some x => rw [hs] at hh; cases hh
        | none =>
          rw [hs] at hh
          cases i with
          | zero => exact hs
          | succ i => exact (ih ss).1 hh i (by simpa using hi) (by simpa using hj)
      · intro hh
        have h0 := hh 0 (by simp) (by simp)
        simp only [List.getElem_cons_zero] at h0
        rw [h0]
        simp only []
        apply (ih ss).2
        intro i hi hj
        exact hh (i + 1) (by simpa using hi) (by simpa using hj)

theorem nodeSigsCheck_none_iff (l : Lock η) :
    nodeSigsCheck l = none ↔
      (if l.defn.ver ≤ 6 then l.nodeSigs = []
       else l.nodeSigs.length = l.defn.ops.length ∧
         ∀ i (hi : i < l.defn.ops.length) (hj : i < l.nodeSigs.length),
           ∃ k, (l.defn.ops[i]).enrKey = some k ∧ l.nodeSigs[i] = .good k (.raw l.lockHash)) := by
  unfold nodeSigsCheck
  by_cases hv : l.defn.ver ≤ 6
  · simp only [hv, if_true]
    cases l.nodeSigs <;> simp
  · simp only [hv, if_false]
    by_cases hl : l.nodeSigs.length = l.defn.ops.length
    · rw [if_neg (fun h => h hl), nodeSigsLoop_none_iff]
      simp only [nodeSigStep_none_iff]
      exact ⟨fun h => ⟨hl, h⟩, fun h => h.2⟩
    · simp [hl]

/-! ### the aggregate -/

theorem aggVerifies_iff (pks : List BKey) (a : Agg η) (msg : η) :
    aggVerifies pks a msg = true ↔ ∃ signers m, a = .agg signers m ∧ pks ≠ [] ∧ signers.Perm pks ∧ m = msg := by
  unfold aggVerifies
  cases a with
  | bytes n => simp
  | agg signers m =>
    simp [List.isPerm_iff]
    constructor
    · rintro ⟨⟨a, b⟩, c⟩; exact ⟨_, _, ⟨rfl, rfl⟩, a, b, c⟩
    · rintro ⟨s, m', ⟨rfl, rfl⟩, a, b, c⟩; exact ⟨⟨a, b⟩, c⟩

theorem verifyLock_ok_iff (e : Option (Eth1 η)) (H : Hashes η) (z : η) (R : List (Nat × BKey) → BKey) (l : Lock η) :
    verifyLock e H z R l = .ok ↔
      verifyDef e l.defn = .ok ∧
        ((l.agg.size = 0 ∧ l.defn.ver ≤ 1) ∨
         (∃ signers m, l.agg = .agg signers m ∧
            valsLoop R l.defn.ops.length l.defn.threshold l.vals [] = none ∧
            allShares l.vals ≠ [] ∧ signers.Perm (allShares l.vals) ∧ m = lockHashOf H z l ∧
            regsCheck l.defn.ver l.defn.numAddrs 0 l.vals = none ∧ nodeSigsCheck l = none)) := by
  unfold verifyLock
  cases hd : verifyDef e l.defn with
  | err x => simp
  | ok =>
    simp only [true_and]
    by_cases h0 : l.agg.size = 0
    · simp only [h0, if_true, true_and]
      have : ¬ ∃ signers m, l.agg = Agg.agg signers m ∧
            valsLoop R l.defn.ops.length l.defn.threshold l.vals [] = none ∧
            allShares l.vals ≠ [] ∧ signers.Perm (allShares l.vals) ∧ m = lockHashOf H z l ∧
            regsCheck l.defn.ver l.defn.numAddrs 0 l.vals = none ∧ nodeSigsCheck l = none := by
        rintro ⟨s, m, hs, _⟩; rw [hs] at h0; simp [Agg.size] at h0
      simp only [this, or_false]
      split <;> simp_all
    · simp only [h0, if_false, false_and, false_or]
      by_cases h96 : l.agg.size = 96
      · simp only [h96, ne_eq, not_true_eq_false, if_false]
        cases hv : valsLoop R l.defn.ops.length l.defn.threshold l.vals [] with
        | some x => simp
        | none =>
          simp only [true_and]
          cases ha : aggVerifies (allShares l.vals) l.agg (lockHashOf H z l) with
          | false =>
            simp only [Bool.not_false, if_true, reduceCtorEq, false_iff]
            rintro ⟨s, m, hs, hne, hp, hm, _⟩
            have := (aggVerifies_iff (allShares l.vals) l.agg (lockHashOf H z l)).2 ⟨s, m, hs, hne, hp, hm⟩
            rw [ha] at this; cases this
          | true =>
            obtain ⟨s, m, hs, hne, hp, hm⟩ := (aggVerifies_iff _ _ _).1 ha
            simp only [Bool.not_true, Bool.false_eq_true, if_false]
            cases hr : regsCheck l.defn.ver l.defn.numAddrs 0 l.vals with
            | some x => simp
            | none =>
              cases hn : nodeSigsCheck l with
              | some x => simp
              | none =>
                simp only [true_iff]
                exact ⟨s, m, hs, hne, hp, hm, trivial, trivial⟩
      · simp only [ne_eq, h96, not_false_eq_true, if_true, reduceCtorEq, false_iff]
        rintro ⟨s, m, hs, _⟩; rw [hs] at h96; simp [Agg.size] at h96

/-! ### public shares -/

theorem map_some_inj {α : Type} : ∀ {l l' : List α}, l.map some = l'.map some → l = l'
  | [], [], _ => rfl
  | [], _ :: _, h => by cases h
  | _ :: _, [], h => by cases h
  | a :: l, b :: l', h => by
    simp only [List.map_cons, List.cons.injEq, Option.some.injEq] at h
    rw [h.1, map_some_inj h.2]

theorem parseShares_ok_iff (l : List (Option BKey)) (acc r : List BKey) :
    parseShares l acc = .ok r ↔
      ∃ ks, l = ks.map some ∧ r = acc.reverse ++ ks ∧ ks.Nodup ∧ ∀ k ∈ ks, k ∉ acc := by
  induction l generalizing acc with
  | nil =>
    simp only [parseShares, Except.ok.injEq]
    constructor
    · intro h; exact ⟨[], rfl, by simp [h], List.nodup_nil, by simp⟩
    · rintro ⟨ks, h1, h2, _⟩
      cases ks with
      | nil => simp [h2]
      | cons _ _ => cases h1
  | cons x xs ih =>
    cases x with
    | none =>
      simp only [parseShares, reduceCtorEq, false_iff]
      rintro ⟨ks, h1, _⟩
      cases ks <;> simp at h1
    | some k =>
      simp only [parseShares]
      by_cases hk : k ∈ acc
      · simp only [hk, if_true, reduceCtorEq, false_iff]
        rintro ⟨ks, h1, _, _, h4⟩
        cases ks with
        | nil => cases h1
        | cons a as =>
          simp only [List.map_cons, List.cons.injEq, Option.some.injEq] at h1
          exact h4 a (by simp) (h1.1 ▸ hk)
      · simp only [hk, if_false]
        rw [ih]
        constructor
        · rintro ⟨ks, h1, h2, h3, h4⟩
          refine ⟨k :: ks, by simp [h1], by simp [h2], ?_, ?_⟩
          · rw [List.nodup_cons]
            refine ⟨fun hm => ?_, h3⟩
            exact h4 k hm (by simp)
          · intro a ha
            rcases List.mem_cons.1 ha with rfl | ha
            · exact hk
            · intro hm; exact h4 a ha (List.mem_cons_of_mem _ hm)
        · rintro ⟨ks, h1, h2, h3, h4⟩
          cases ks with
          | nil => cases h1
          | cons a as =>
            simp only [List.map_cons, List.cons.injEq, Option.some.injEq] at h1
            obtain ⟨rfl, h1⟩ := h1
            rw [List.nodup_cons] at h3
            refine ⟨as, h1, by simp [h2], h3.2, ?_⟩
            intro b hb hm
            rcases List.mem_cons.1 hm with rfl | hm
            · exact h3.1 hb
            · exact h4 b (List.mem_cons_of_mem _ hb) hm

/-- what one validator must look like -/
def ValOK (R : List (Nat × BKey) → BKey) (n t : Nat) (v : Validator) : Prop :=
  ∃ dv shares, v.pubKey = some dv ∧ v.shares = shares.map some ∧ shares.length = n ∧ shares.Nodup ∧
    sharesReconstruct R dv shares t = none

theorem valCheck_ok_iff (R : List (Nat × BKey) → BKey) (n t : Nat) (v : Validator) (seen : List BKey) (dv : BKey) :
    valCheck R n t v seen = .ok dv ↔
      v.pubKey = some dv ∧ dv ∉ seen ∧ ∃ shares, v.shares = shares.map some ∧ shares.length = n ∧ shares.Nodup ∧
        sharesReconstruct R dv shares t = none := by
  unfold valCheck
  by_cases hl : v.shares.length = n
  · simp only [hl, ne_eq, not_true_eq_false, if_false]
    cases hp : v.pubKey with
    | none => simp
    | some dv' =>
      simp only [Option.some.injEq]
      by_cases hs : dv' ∈ seen
      · simp only [hs, if_true, reduceCtorEq, false_iff]
        rintro ⟨rfl, h, _⟩; exact h hs
      · simp only [hs, if_false]
        cases hps : parseShares v.shares [] with
        | error x =>
          simp only [reduceCtorEq, false_iff]
          rintro ⟨_, _, shares, h1, _, h3, _⟩
          have := (parseShares_ok_iff v.shares [] shares).2 ⟨shares, h1, by simp, h3, by simp⟩
          rw [hps] at this; cases this
        | ok shares =>
          obtain ⟨ks, h1, h2, h3, _⟩ := (parseShares_ok_iff _ _ _).1 hps
          simp only [List.reverse_nil, List.nil_append] at h2
          subst h2
          have hinj : ∀ s', v.shares = List.map some s' → s' = shares := by
            intro s' hs'
            rw [h1] at hs'
            exact (map_some_inj hs').symm
          simp only []
          cases hr : sharesReconstruct R dv' shares t with
          | some x =>
            simp only [reduceCtorEq, false_iff]
            rintro ⟨rfl, _, s', h1', _, _, hrec⟩
            rw [hinj s' h1', hr] at hrec; cases hrec
          | none =>
            simp only [Except.ok.injEq]
            constructor
            · rintro rfl
              exact ⟨rfl, hs, shares, h1, by rw [← hl, h1]; simp, h3, hr⟩
            · rintro ⟨h, _⟩; exact h
  · simp only [ne_eq, hl, not_false_eq_true, if_true, reduceCtorEq, false_iff]
    rintro ⟨_, _, shares, h1, h2, _⟩
    rw [h1] at hl; simp [h2] at hl

theorem valsLoop_none_iff (R : List (Nat × BKey) → BKey) (n t : Nat) (vs : List Validator) (seen : List BKey) :
    valsLoop R n t vs seen = none ↔
      (∀ v ∈ vs, ValOK R n t v) ∧ (vs.filterMap (·.pubKey)).Nodup ∧ ∀ k ∈ vs.filterMap (·.pubKey), k ∉ seen := by
  induction vs generalizing seen with
  | nil => simp [valsLoop]
  | cons v vs ih =>
    simp only [valsLoop]
    cases hc : valCheck R n t v seen with
    | error x =>
      simp only [reduceCtorEq, false_iff]
      rintro ⟨h1, _, h3⟩
      obtain ⟨dv, shares, hp, hrest⟩ := h1 v (by simp)
      have hns : dv ∉ seen := h3 dv (by simp [hp])
      have := (valCheck_ok_iff R n t v seen dv).2 ⟨hp, hns, shares, hrest⟩
      rw [hc] at this; cases this
    | ok dv =>
      obtain ⟨hp, hns, shares, hrest⟩ := (valCheck_ok_iff R n t v seen dv).1 hc
      simp only []
      rw [ih]
      have hfm : (v :: vs).filterMap (·.pubKey) = dv :: vs.filterMap (·.pubKey) := by
        simp [hp]
      rw [hfm, List.nodup_cons]
      constructor
      · rintro ⟨h1, h2, h3⟩
        refine ⟨?_, ⟨fun hm => h3 dv hm (by simp), h2⟩, ?_⟩
        · intro w hw
          rcases List.mem_cons.1 hw with rfl | hw
          · exact ⟨dv, shares, hp, hrest⟩
          · exact h1 w hw
        · intro k hk
          rcases List.mem_cons.1 hk with rfl | hk
          · exact hns
          · intro hm; exact h3 k hk (List.mem_cons_of_mem _ hm)
      · rintro ⟨h1, ⟨h2a, h2⟩, h3⟩
        refine ⟨fun w hw => h1 w (List.mem_cons_of_mem _ hw), h2, ?_⟩
        intro k hk hm
        rcases List.mem_cons.1 hm with rfl | hm
        · exact h2a hk
        · exact h3 k (List.mem_cons_of_mem _ hk) hm

theorem filterMap_id_map_some {α : Type} (l : List α) : (l.map some).filterMap id = l := by
  induction l with
  | nil => rfl
  | cons a l ih => simp [ih]

theorem publicShare_of_valOK {R : List (Nat × BKey) → BKey} {n t : Nat} {vs : List Validator} {v : Validator}
    (hv : v ∈ vs) (hok : ValOK R n t v) {i : Nat} (hi : i < n) :
    ∃ k, publicShare v i = some k ∧ k ∈ allShares vs := by
  obtain ⟨dv, shares, _, h1, h2, _⟩ := hok
  have hi' : i < shares.length := by omega
  refine ⟨shares[i], ?_, ?_⟩
  · unfold publicShare
    rw [h1]; simp [hi']
  · unfold allShares
    rw [List.mem_flatMap]
    refine ⟨v, hv, ?_⟩
    rw [h1, filterMap_id_map_some]
    exact List.getElem_mem hi'

/-! ### consequences of lock acceptance -/

theorem lock_ok_agg {e : Option (Eth1 η)} {H : Hashes η} {z : η} {R : List (Nat × BKey) → BKey} {l : Lock η}
    (hs : l.agg.size ≠ 0) (hok : verifyLock e H z R l = .ok) :
    ∃ signers m, l.agg = .agg signers m ∧
      valsLoop R l.defn.ops.length l.defn.threshold l.vals [] = none ∧
      allShares l.vals ≠ [] ∧ signers.Perm (allShares l.vals) ∧ m = lockHashOf H z l ∧
      regsCheck l.defn.ver l.defn.numAddrs 0 l.vals = none ∧ nodeSigsCheck l = none := by
  obtain ⟨_, h⟩ := (verifyLock_ok_iff e H z R l).1 hok
  rcases h with ⟨h, _⟩ | h
  · exact absurd h hs
  · exact h

theorem lock_ok_nodeSigs {e : Option (Eth1 η)} {H : Hashes η} {z : η} {R : List (Nat × BKey) → BKey} {l : Lock η}
    (hv : 7 ≤ l.defn.ver) (hok : verifyLock e H z R l = .ok) : nodeSigsCheck l = none := by
  obtain ⟨_, h⟩ := (verifyLock_ok_iff e H z R l).1 hok
  rcases h with ⟨_, h⟩ | ⟨_, _, _, _, _, _, _, _, h⟩
  · omega
  · exact h

/-- A node signature that is accepted at position `i` is not accepted at a position `j` with another ENR key. -/
theorem nodeSigs_moved_absurd {e : Option (Eth1 η)} {H : Hashes η} {z : η} {R : List (Nat × BKey) → BKey}
    {l : Lock η} {ns' : List (Sig η)} (hv : 7 ≤ l.defn.ver) (hok : verifyLock e H z R l = .ok)
    (hok' : verifyLock e H z R { l with nodeSigs := ns' } = .ok) {i j : Nat} (hj : j < l.defn.ops.length)
    (hi : i < l.defn.ops.length) (hne : (l.defn.ops[j]).enrKey ≠ (l.defn.ops[i]).enrKey) {si : Sig η}
    (hsi : l.nodeSigs[i]? = some si) (hsj' : ns'[j]? = some si) : False := by
  have hn := lock_ok_nodeSigs hv hok
  have hn' := lock_ok_nodeSigs (l := { l with nodeSigs := ns' }) hv hok'
  rw [nodeSigsCheck_none_iff, if_neg (by omega)] at hn
  rw [nodeSigsCheck_none_iff] at hn'
  simp only [] at hn'
  rw [if_neg (by omega)] at hn'
  obtain ⟨hi', hsi⟩ := List.getElem?_eq_some_iff.1 hsi
  obtain ⟨hj', hsj'⟩ := List.getElem?_eq_some_iff.1 hsj'
  obtain ⟨k, h1, h2⟩ := hn.2 i hi hi'
  obtain ⟨k', h1', h2'⟩ := hn'.2 j hj hj'
  rw [hsi] at h2; rw [hsj', h2] at h2'
  have := (Sig.good.inj h2').1
  subst this
  exact hne (h1'.trans h1.symm)

/-! ### no branch but the registration index returns `regPanic` -/

theorem parseShares_ne_panic (l : List (Option BKey)) (acc : List BKey) : parseShares l acc ≠ .error .regPanic := by
  induction l generalizing acc with
  | nil => simp [parseShares]
  | cons a r ih =>
    cases a with
    | none => simp [parseShares]
    | some k =>
      simp only [parseShares]
      split
      · simp
      · exact ih _

theorem sharesReconstruct_ne_panic (R : List (Nat × BKey) → BKey) (dv : BKey) (s : List BKey) (t : Nat) :
    sharesReconstruct R dv s t ≠ some .regPanic := by
  unfold sharesReconstruct
  repeat' split
  all_goals simp

theorem valCheck_ne_panic (R : List (Nat × BKey) → BKey) (n t : Nat) (v : Validator) (seen : List BKey) :
    valCheck R n t v seen ≠ .error .regPanic := by
  unfold valCheck
  split
  · simp
  · split
    · simp
    · split
      · simp
      · split
        · rename_i x hx
          intro hc
          have : x = .regPanic := by simpa using hc
          subst this
          exact parseShares_ne_panic _ _ hx
        · split
          · rename_i x hx
            intro hc
            have : x = .regPanic := by simpa using hc
            subst this
            exact sharesReconstruct_ne_panic _ _ _ _ hx
          · simp

theorem valsLoop_ne_panic (R : List (Nat × BKey) → BKey) (n t : Nat) (vs : List Validator) (seen : List BKey) :
    valsLoop R n t vs seen ≠ some .regPanic := by
  induction vs generalizing seen with
  | nil => simp [valsLoop]
  | cons v vs ih =>
    unfold valsLoop
    split
    · rename_i x hx
      intro hc
      have : x = .regPanic := by simpa using hc
      subst this
      exact valCheck_ne_panic _ _ _ _ _ hx
    · exact ih _

theorem nodeSigsLoop_ne_panic {η : Type} [DecidableEq η] (h : η) (os : List (Operator η)) (ss : List (Sig η)) :
    nodeSigsLoop h os ss ≠ some .regPanic := by
  induction os generalizing ss with
  | nil => simp [nodeSigsLoop]
  | cons o os ih =>
    cases ss with
    | nil => simp [nodeSigsLoop]
    | cons s ss =>
      unfold nodeSigsLoop
      split
      · rename_i x hx
        intro hc
        have : x = .regPanic := by simpa using hc
        subst this
        unfold nodeSigStep at hx
        repeat' split at hx
        all_goals simp at hx
      · exact ih _

theorem nodeSigsCheck_ne_panic {η : Type} [DecidableEq η] (l : Lock η) : nodeSigsCheck l ≠ some .regPanic := by
  unfold nodeSigsCheck
  repeat' split
  all_goals first | exact nodeSigsLoop_ne_panic _ _ _ | simp

end CharonV.LockSigs
