/-
The executable scalar layer `Model/Fr.lean` computes the abstract objects of `Spec/Tbls.lean` in
the field `ZMod r` — under the hypothesis that `r` (the BLS12-381 group order) is prime, carried as
`[Fact (Nat.Prime r)]` (a number-theoretic fact about a constant, not proved here).
-/
import CharonV.Model.Fr
import CharonV.Proofs.Tbls
import Mathlib.FieldTheory.Finite.Basic

namespace CharonV.Fr

open CharonV.Tbls Finset

theorem r_pos : 0 < r := by unfold r; norm_num

theorem r_sub_two_lt : r - 2 < 2 ^ 256 := by unfold r; norm_num

theorem r_sub_two_ne : r - 2 ≠ 0 := by unfold r; norm_num

theorem r_sub_two_succ : r - 2 + 1 = r - 1 := by unfold r; norm_num

theorem cast_add (a b : ℕ) : ((add a b : ℕ) : ZMod r) = (a : ZMod r) + b := by
  unfold add; rw [ZMod.natCast_mod, Nat.cast_add]

theorem cast_mul (a b : ℕ) : ((mul a b : ℕ) : ZMod r) = (a : ZMod r) * b := by
  unfold mul; rw [ZMod.natCast_mod, Nat.cast_mul]

theorem cast_sub (a b : ℕ) : ((sub a b : ℕ) : ZMod r) = (a : ZMod r) - b := by
  unfold sub
  rw [ZMod.natCast_mod, Nat.cast_add, ZMod.natCast_mod,
    Nat.cast_sub (Nat.le_of_lt (Nat.mod_lt _ r_pos)), ZMod.natCast_self, ZMod.natCast_mod]
  ring

theorem cast_powAux (fuel : ℕ) : ∀ (b e acc : ℕ), e < 2 ^ fuel →
    ((powAux fuel b e acc : ℕ) : ZMod r) = (acc : ZMod r) * (b : ZMod r) ^ e := by
  induction fuel with
  | zero =>
    intro b e acc h
    have : e = 0 := by simpa using h
    subst this
    simp [powAux]
  | succ f ih =>
    intro b e acc h
    unfold powAux
    by_cases he : e = 0
    · subst he; simp
    · simp only [he, if_false]
      have hlt : e / 2 < 2 ^ f := by
        rw [Nat.div_lt_iff_lt_mul (by norm_num)]
        rw [pow_succ] at h
        exact h
      rw [ih _ _ _ hlt, cast_mul]
      have hsplit : e = 2 * (e / 2) + e % 2 := (Nat.div_add_mod e 2).symm
      by_cases hodd : e % 2 = 1
      · simp only [hodd, if_true]
        rw [cast_mul]
        conv_rhs => rw [hsplit, hodd, pow_add, pow_mul, pow_one]
        ring
      · have heven : e % 2 = 0 := by omega
        simp only [hodd, if_false]
        conv_rhs => rw [hsplit, heven, add_zero, pow_mul]
        ring

theorem cast_pow (a e : ℕ) (h : e < 2 ^ 256) : ((pow a e : ℕ) : ZMod r) = (a : ZMod r) ^ e := by
  unfold pow
  rw [cast_powAux 256 _ _ _ h, ZMod.natCast_mod]
  simp

open Polynomial in
/-- the polynomial with coefficient list `cs` (lowest first) over `ZMod r`. -/
noncomputable def polyOf : List ℕ → (ZMod r)[X]
  | [] => 0
  | c :: cs => C (c : ZMod r) + X * polyOf cs

open Polynomial in
/-- Horner evaluation on representatives is polynomial evaluation in `ZMod r`. -/
theorem cast_evalPoly (cs : List ℕ) (x : ℕ) :
    ((evalPoly cs x : ℕ) : ZMod r) = (polyOf cs).eval (x : ZMod r) := by
  induction cs with
  | nil => simp [evalPoly, polyOf]
  | cons c rest ih =>
    unfold evalPoly at ih ⊢
    rw [List.foldr_cons, cast_add, cast_mul, ih]
    simp [polyOf, mul_comm]

open Polynomial in
theorem polyOf_degree_lt (cs : List ℕ) : (polyOf cs).degree < (cs.length : ℕ) := by
  rw [degree_lt_iff_coeff_zero]
  induction cs with
  | nil => intro m _; simp [polyOf]
  | cons c rest ih =>
    intro m hm
    rw [List.length_cons] at hm
    obtain ⟨m', rfl⟩ : ∃ m', m = m' + 1 := ⟨m - 1, by omega⟩
    unfold polyOf
    rw [coeff_add, coeff_C_succ, coeff_X_mul, ih m' (by omega), add_zero]

open Polynomial in
theorem polyOf_eval_zero (c : ℕ) (cs : List ℕ) : (polyOf (c :: cs)).eval 0 = (c : ZMod r) := by
  simp [polyOf]

theorem evalPoly_lt (cs : List ℕ) (h : cs ≠ []) (x : ℕ) : evalPoly cs x < r := by
  cases cs with
  | nil => exact absurd rfl h
  | cons c rest => unfold evalPoly; rw [List.foldr_cons]; exact Nat.mod_lt _ r_pos


theorem cast_sum (xs : List ℕ) : ((sum xs : ℕ) : ZMod r) = (xs.map fun (x : ℕ) => (x : ZMod r)).sum := by
  unfold sum
  have : ∀ (l : List ℕ) (init : ℕ), ((l.foldl add init : ℕ) : ZMod r) =
      (init : ZMod r) + (l.map fun (x : ℕ) => (x : ZMod r)).sum := by
    intro l
    induction l with
    | nil => intro init; simp
    | cons x rest ih => intro init; rw [List.foldl_cons, ih, cast_add]; simp [add_assoc]
  rw [this xs 0]; simp

theorem sum_lt (xs : List ℕ) : sum xs < r := by
  unfold sum
  cases xs with
  | nil => exact r_pos
  | cons x rest =>
    have : ∀ (l : List ℕ) (init : ℕ), init < r → l.foldl add init < r := by
      intro l
      induction l with
      | nil => intro init h; simpa using h
      | cons y ys ih => intro init _; rw [List.foldl_cons]; exact ih _ (Nat.mod_lt _ r_pos)
    exact this _ _ r_pos

open Polynomial in
/-- sum of the dealers' polynomials. -/
noncomputable def polySum (css : List (List ℕ)) : (ZMod r)[X] := (css.map polyOf).sum

open Polynomial in
theorem polySum_degree_lt (t : ℕ) (css : List (List ℕ)) (h : ∀ cs ∈ css, cs.length ≤ t) :
    (polySum css).degree < (t : ℕ) := by
  unfold polySum
  rw [degree_lt_iff_coeff_zero]
  intro m hm
  induction css with
  | nil => simp
  | cons cs rest ih =>
    rw [List.map_cons, List.sum_cons, coeff_add, ih fun c hc => h c (List.mem_cons_of_mem _ hc), add_zero]
    have hd := polyOf_degree_lt cs
    rw [degree_lt_iff_coeff_zero] at hd
    exact hd m (le_trans (h cs List.mem_cons_self) hm)

open Polynomial in
theorem polySum_eval (css : List (List ℕ)) (x : ZMod r) :
    (polySum css).eval x = (css.map fun cs => (polyOf cs).eval x).sum := by
  unfold polySum
  induction css with
  | nil => simp
  | cons cs rest ih => simp [ih]

variable [Fact (Nat.Prime r)]

/-- Fermat inversion is field inversion in `ZMod r`. -/
theorem cast_inv (a : ℕ) : ((inv a : ℕ) : ZMod r) = ((a : ZMod r))⁻¹ := by
  unfold inv
  rw [cast_pow _ _ r_sub_two_lt]
  by_cases ha : (a : ZMod r) = 0
  · rw [ha, zero_pow r_sub_two_ne, inv_zero]
  · have h1 : (a : ZMod r) ^ (r - 1) = 1 := ZMod.pow_card_sub_one_eq_one ha
    rw [← r_sub_two_succ, pow_succ] at h1
    exact eq_inv_of_mul_eq_one_left h1

/-- the conditional product folds of `lagCoeffAt`. -/
theorem cast_foldl_prod (j : ℕ) (g : ℕ → ℕ) (G : ℕ → ZMod r)
    (hg : ∀ k, ((g k : ℕ) : ZMod r) = G k) (ids : List ℕ) : ∀ init : ℕ,
    ((ids.foldl (fun acc k => if k = j then acc else mul acc (g k)) init : ℕ) : ZMod r) =
      (init : ZMod r) * ((ids.filter (· ≠ j)).map G).prod := by
  induction ids with
  | nil => intro init; simp
  | cons k rest ih =>
    intro init
    rw [List.foldl_cons, ih]
    by_cases hk : k = j
    · simp [hk]
    · simp only [hk, if_false, cast_mul, hg]
      rw [List.filter_cons_of_pos (by simpa using hk), List.map_cons, List.prod_cons]
      ring

theorem list_prod_erase (G : ℕ → ZMod r) (ids : List ℕ) (hnd : ids.Nodup) (j : ℕ) :
    ((ids.filter (· ≠ j)).map G).prod = ∏ k ∈ ids.toFinset.erase j, G k := by
  have hnd' : (ids.filter (· ≠ j)).Nodup := hnd.filter _
  rw [← List.prod_toFinset G hnd']
  congr 1
  ext k
  simp [and_comm]

/-- `lagCoeff0` is the abstract Lagrange coefficient at 0. -/
theorem cast_lagCoeff0 (ids : List ℕ) (hnd : ids.Nodup) (j : ℕ) :
    ((lagCoeff0 ids j : ℕ) : ZMod r) = lam ids.toFinset j := by
  unfold lagCoeff0 lagCoeffAt
  simp only [cast_mul, cast_inv]
  rw [cast_foldl_prod j (fun k => sub 0 k) (fun k => (0 : ZMod r) - k) (fun k => by simp [cast_sub]),
    cast_foldl_prod j (fun k => sub j k) (fun k => (j : ZMod r) - k) (fun k => cast_sub j k),
    list_prod_erase _ ids hnd, list_prod_erase _ ids hnd, lam_eq_prod]
  simp only [Nat.cast_one, one_mul]
  rw [← div_eq_mul_inv, ← Finset.prod_div_distrib]
  refine Finset.prod_congr rfl fun k _ => ?_
  unfold idF
  rw [zero_sub, ← neg_sub (k : ZMod r) (j : ZMod r), neg_div_neg_eq]

theorem cast_foldl_sum (ids : List ℕ) (c y : ℕ → ℕ) : ∀ init : ℕ,
    (((ids.map fun i => (i, y i)).foldl (fun acc p => add acc (mul (c p.1) p.2)) init : ℕ) : ZMod r) =
      (init : ZMod r) + (ids.map fun i => ((c i : ℕ) : ZMod r) * (y i : ZMod r)).sum := by
  induction ids with
  | nil => intro init; simp
  | cons k rest ih =>
    intro init
    rw [List.map_cons, List.foldl_cons, ih, cast_add, cast_mul]
    simp only [List.map_cons, List.sum_cons]
    ring

/-- **`lagrangeAt0` computes `recover` in `ZMod r`.** -/
theorem cast_lagrangeAt0 (ids : List ℕ) (hnd : ids.Nodup) (y : ℕ → ℕ) :
    ((lagrangeAt0 (ids.map fun i => (i, y i)) : ℕ) : ZMod r) =
      recover ids.toFinset (fun i => (y i : ZMod r)) := by
  unfold lagrangeAt0 interpolateAt
  have hids : (ids.map fun i => (i, y i)).map (·.1) = ids := by
    simp [List.map_map, Function.comp_def]
  simp only [hids]
  rw [cast_foldl_sum ids (fun j => lagCoeffAt ids j 0) y 0]
  unfold recover
  rw [Nat.cast_zero, zero_add, ← List.sum_toFinset _ hnd]
  refine Finset.sum_congr rfl fun j _ => ?_
  rw [← cast_lagCoeff0 ids hnd j]
  rfl

omit [Fact (Nat.Prime r)] in
theorem lagrangeAt0_lt (pts : List (ℕ × ℕ)) : lagrangeAt0 pts < r := by
  unfold lagrangeAt0 interpolateAt
  have : ∀ (l : List (ℕ × ℕ)) (f : ℕ × ℕ → ℕ) (init : ℕ), init < r →
      l.foldl (fun acc p => add acc (f p)) init < r := by
    intro l f
    induction l with
    | nil => intro init h; simpa using h
    | cons p rest ih =>
      intro init _
      rw [List.foldl_cons]
      exact ih _ (Nat.mod_lt _ r_pos)
  exact this pts _ 0 r_pos

end CharonV.Fr

namespace CharonV.TblsExec

open CharonV.Fr

theorem genCoeffs_length : ∀ (k : ℕ) (chunks cs : List ℕ), genCoeffs k chunks = some cs → cs.length = k := by
  intro k
  induction k with
  | zero => intro chunks cs h; simp [genCoeffs] at h; subst h; rfl
  | succ k ih =>
    intro chunks cs h
    unfold genCoeffs at h
    cases hg : genInsecure 100 chunks with
    | none => simp [hg] at h
    | some pr =>
      obtain ⟨c, rest⟩ := pr
      cases hr : genCoeffs k rest with
      | none => simp [hg, hr] at h
      | some cs' =>
        simp only [hg, hr, Option.map_some, Option.some.injEq] at h
        subst h
        simp [ih rest cs' hr]

end CharonV.TblsExec
