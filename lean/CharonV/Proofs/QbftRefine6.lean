/-
Refinement, part 6: a justified message (`onRecvJustified`): simulation and invariant.
-/
import CharonV.Proofs.QbftRefine5

namespace CharonV.QbftSys

open CharonV.Qbft CharonV.QbftSpec

variable {P : Params} {fifo : Nat}

local notation "D" => mkDef P fifo

/-! ### frames: which fields a branch may touch -/

def Frame (n1 n' : NodeState) : Prop :=
  n'.proc = n1.proc ∧ n'.buffer = n1.buffer ∧ n'.inputValue = n1.inputValue ∧
    n'.started = n1.started ∧
    (n'.ppjCache.isSome = true → n1.ppjCache.isSome = true ∧ n'.round = n1.round) ∧
    (n'.qCommit = n1.qCommit ∨ n'.timerOn = false)

theorem Frame.refl (n : NodeState) : Frame n n := ⟨rfl, rfl, rfl, rfl, fun h => ⟨h, rfl⟩, Or.inl rfl⟩

theorem linv_of_frame {H : List Ev} {p : Nat} {n1 n' : NodeState}
    (hli : LInv P H p n1) (hq : n1.qCommit = []) (hst : n1.started = true) (hf : Frame n1 n') :
    LInv P H p n' := by
  obtain ⟨f1, f2, f3, f4, f5, f6⟩ := hf
  refine ⟨by rw [f1]; exact hli.proc, by rw [f2]; exact hli.bufAdm, by rw [f3]; exact hli.input, ?_, ?_, ?_⟩
  · intro hc; obtain ⟨h1, h2⟩ := f5 hc; rw [h2]; exact hli.cache h1
  · intro he
    rcases f6 with h | h
    · rw [h, hq] at he; simp at he
    · exact h
  · intro h; rw [f4, hst] at h; cases h

theorem frame_changeRound (n : NodeState) (r rule : Nat) : Frame n (changeRound n r rule).1 := by
  have h := changeRound_fields n r rule
  simp only at h
  exact ⟨h.2.1, h.2.2.1, h.2.2.2.1, h.2.2.2.2.2.2.2.2.2.2.1,
    fun hc => ⟨(h.2.2.2.2.2.2.2.2.2.2.2 hc).1, by rw [h.1]; exact (h.2.2.2.2.2.2.2.2.2.2.2 hc).2.symm⟩,
    Or.inl h.2.2.2.2.2.2.2.1⟩

theorem frame_onPrePrepare (n1 : NodeState) (m : Msg) (cmp : Qbft.CmpOut) :
    Frame n1 (onPrePrepare n1 m cmp).1 := by
  have h := onPrePrepare_fields n1 m cmp
  simp only at h
  exact ⟨h.1, h.2.1, h.2.2.1, h.2.2.2.2.1, h.2.2.2.2.2, Or.inl h.2.2.2.1⟩

theorem frame_onQuorumPrepares (n1 : NodeState) (m : Msg) (just : List Core) :
    Frame n1 (onQuorumPrepares n1 m just).1 := by
  unfold onQuorumPrepares
  exact ⟨rfl, rfl, rfl, rfl, fun h => ⟨h, rfl⟩, Or.inl rfl⟩

theorem frame_onDecide (n1 : NodeState) (m : Msg) (rule : Nat) (just : List Core) :
    Frame n1 (onDecide n1 m rule just).1 := by
  unfold onDecide
  obtain ⟨f1, f2, f3, f4, f5, _⟩ := frame_changeRound n1 m.core.round rule
  exact ⟨f1, f2, f3, f4, f5, Or.inr rfl⟩

theorem frame_onFPlus1 (n1 : NodeState) (just : List Core) : Frame n1 (onFPlus1 D n1 just).1 := by
  unfold onFPlus1
  split
  · exact Frame.refl _
  · rename_i nr _
    obtain ⟨f1, f2, f3, f4, f5, f6⟩ := frame_changeRound n1 nr uFPlus1RoundChanges
    refine ⟨f1, f2, f3, f4, f5, ?_⟩
    rcases f6 with h | h
    · exact Or.inl h
    · exact Or.inl (by
        have := (changeRound_fields n1 nr uFPlus1RoundChanges)
        simp only at this
        exact this.2.2.2.2.2.2.2.1)

/-! ### quorum ROUND-CHANGEs (leader proposes) -/

theorem sim_onQrc {t : QbftSpec.State} {p : Nat} {n n1 : NodeState} {just : List Core} (cfr rd : Nat)
    (e : Event)
    (hr : QbftSpec.Reach P t) (hp : P.honest p) (hrel : nodeRel (t.nodes p) (absNode n))
    (hround : (t.nodes p).round = (absNode n).round)
    (habs1 : absNode n1 = absNode n) (hinp : n1.inputValue = 0 ∨ (n1.inputValue = P.input p ∧ n1.inputValue ≠ 0))
    (hl : P.leader (absNode n).round = p)
    (hadm : ∀ c ∈ just, admCore P t.hist c) :
    SimOut P t p (onQuorumRoundChanges D n1 just).1
      ((Out.rule uQuorumRoundChanges rd :: (onQuorumRoundChanges D n1 just).2).flatMap (outEv D p cfr e)) := by
  have hrule : (outEv D p cfr e (Out.rule uQuorumRoundChanges rd)) = [] := by
    simp [outEv, uQuorumRoundChanges, uJustifiedPrePrepare]
  have hrnd : n1.round = (absNode n).round := by rw [← habs1]; rfl
  unfold onQuorumRoundChanges
  simp only [List.flatMap_cons, hrule, List.nil_append]
  split
  · rename_i hc
    cases hgs : getSingleJustifiedPrPv D just with
    | mk pr rest =>
      cases rest with
      | mk pv ok =>
        rw [hgs] at hc
        simp only at hc
        have hok : ok = true := hc.1
        subst hok
        have hpq := prepareQuorum_of_getSingle hadm hgs
        simp only [bcastMsg, List.flatMap_cons, List.flatMap_nil, outEv, List.append_nil, if_true, hrnd]
        exact sim_propose (pr := pr) hr hp hrel hround hl (Or.inr hpq) habs1
  · unfold bcastOwnPrePrepare
    split
    · simp only [List.flatMap_cons, List.flatMap_nil, outEv, List.append_nil]
      exact sim_stutter hr hrel ⟨by rw [habs1], fun _ => habs1⟩
    · split
      · simp only [List.flatMap_nil]
        exact sim_stutter hr hrel ⟨by rw [absNode_cache, habs1], fun _ => by rw [absNode_cache, habs1]⟩
      · rename_i hnz
        simp only [bcastMsg, List.flatMap_cons, List.flatMap_nil, outEv, List.append_nil, if_true, hrnd]
        rcases hinp with h0 | h1
        · exact absurd h0 hnz
        · exact sim_propose (pr := 0) hr hp hrel hround hl (Or.inl h1) habs1

theorem linv_onQrc {H : List Ev} {p : Nat} {n1 : NodeState} {just : List Core}
    (hli : LInv P H p n1) (hlead : P.leader n1.round = p) (hst : n1.started = true) :
    LInv P H p (onQuorumRoundChanges D n1 just).1 := by
  unfold onQuorumRoundChanges
  simp only
  split
  · exact hli
  · unfold bcastOwnPrePrepare
    split
    · exact hli
    · split
      · exact ⟨hli.proc, hli.bufAdm, hli.input, fun _ => hlead, hli.timer,
          by intro h; simp [hst] at h⟩
      · exact hli

/-! ### quorums from filtered cores -/

theorem prepareQuorum_of_filter {H : List Ev} {all : List Core} {r v : Nat}
    (hadm : ∀ c ∈ all, admCore P H c)
    (hlen : quorum P.n ≤ (filterByRoundAndValue all tPrepare r v).length) :
    prepareQuorum P H r v := by
  apply quorum_of_cores (cs := filterByRoundAndValue all tPrepare r v)
  · exact filterMsgs_nodup _ _ _ _ _ _
  · exact hlen
  · intro c hc
    have hs := filterMsgs_sound hc
    have := adm_prepare (hadm c hs.1) hs.2.1
    rw [hs.2.2.1, hs.2.2.2.1 v rfl] at this
    exact this

theorem commitQuorum_of_filter {H : List Ev} {all : List Core} {r v : Nat}
    (hadm : ∀ c ∈ all, admCore P H c)
    (hlen : quorum P.n ≤ (filterMsgs all tCommit r (some v) none none).length) :
    commitQuorum P H r v := by
  apply quorum_of_cores (cs := filterMsgs all tCommit r (some v) none none)
  · exact filterMsgs_nodup _ _ _ _ _ _
  · exact hlen
  · intro c hc
    have hs := filterMsgs_sound hc
    have := adm_commit (hadm c hs.1) hs.2.1
    rw [hs.2.2.1, hs.2.2.2.1 v rfl] at this
    exact this

end CharonV.QbftSys
