/-
Invariant and helper lemmas of the retry layer model (`Model/Retry.lean`):
`Inv` — ids are distinct and are exactly the calls that exist; a call waiting in the backoff select has a live
context and Shutdown has not begun; after Shutdown every context is cancelled; all outcomes of a call that has
not returned are retryable errors, and all but the last outcome of any call; the `active` map counts exactly
the calls between startAsync and endAsync per label; Shutdown waits only after it began.
-/
import CharonV.Model.Retry

namespace CharonV.Retry

/-- the call counts as active under label `l`: it is between startAsync and endAsync. -/
def pl (oc : Option Call) (l : Nat) : Bool :=
  match oc with
  | some c => c.phase != .done && c.label == l
  | none => false

/-- number of calls that are between startAsync and endAsync under label `l`. -/
def live (calls : Nat → Option Call) (l : Nat) (ids : List Nat) : Nat :=
  ids.countP (fun id => pl (calls id) l)

theorem live_congr {calls calls' : Nat → Option Call} {l : Nat} {ids : List Nat}
    (h : ∀ id ∈ ids, pl (calls' id) l = pl (calls id) l) : live calls' l ids = live calls l ids := by
  unfold live
  apply List.countP_congr
  intro id hid
  rw [h id hid]

theorem live_set {calls : Nat → Option Call} {id : Nat} {oc : Option Call} {l : Nat} :
    ∀ {ids : List Nat}, ids.Nodup → id ∈ ids →
    live (fun j => if j = id then oc else calls j) l ids + (if pl (calls id) l then 1 else 0)
      = live calls l ids + (if pl oc l then 1 else 0) := by
  intro ids
  induction ids with
  | nil => intro _ h; cases h
  | cons x xs ih =>
    intro hnd hmem
    have hx : x ∉ xs := (List.nodup_cons.mp hnd).1
    have hxs : xs.Nodup := (List.nodup_cons.mp hnd).2
    by_cases hxe : x = id
    · subst hxe
      have hc : live (fun j => if j = x then oc else calls j) l xs = live calls l xs := by
        apply live_congr
        intro j hj
        have : j ≠ x := fun e => hx (e ▸ hj)
        simp [this]
      unfold live at hc ⊢
      simp only [List.countP_cons, if_true] at hc ⊢
      rw [hc]
      omega
    · have hm : id ∈ xs := by
        rcases List.mem_cons.mp hmem with h | h
        · exact absurd h.symm hxe
        · exact h
      have := ih hxs hm
      unfold live at this ⊢
      simp only [List.countP_cons, hxe, if_false] at this ⊢
      omega

theorem countP_split {α : Type} (p q : α → Bool) (xs : List α) :
    xs.countP p = xs.countP (fun x => p x && q x) + xs.countP (fun x => p x && !q x) := by
  induction xs with
  | nil => simp
  | cons x xs ih =>
    simp only [List.countP_cons]
    cases p x <;> cases q x <;> simp <;> omega

structure Inv (s : State) : Prop where
  nodup : s.ids.Nodup
  mem : ∀ id, id ∈ s.ids ↔ s.calls id ≠ none
  boff : ∀ id c, s.calls id = some c → c.phase = .backoff → c.expired = false ∧ s.shutdown = false
  sdexp : s.shutdown = true → ∀ id c, s.calls id = some c → c.expired = true
  histLive : ∀ id c, s.calls id = some c → c.phase ≠ .done → ∀ o ∈ c.hist, o.retryable = true
  histDone : ∀ id c, s.calls id = some c → ∀ o ∈ c.hist.tail, o.retryable = true
  act : ∀ l, s.active l = live s.calls l s.ids
  wait : s.sdWaiting = true → s.shutdown = true

theorem inv_init : Inv init := by
  constructor <;> simp [init, live]

/-- a live call stays live (phase / expired / hist change). -/
theorem inv_upd {s : State} (h : Inv s) {id : Nat} {c0 c : Call} (h0 : s.calls id = some c0)
    (hl : c.label = c0.label) (hp0 : c0.phase ≠ .done) (hp : c.phase ≠ .done)
    (hb : c.phase = .backoff → c.expired = false ∧ s.shutdown = false)
    (he : s.shutdown = true → c.expired = true)
    (hh : ∀ o ∈ c.hist, o.retryable = true) : Inv (upd s id c) := by
  have hmem : id ∈ s.ids := (h.mem id).mpr (by simp [h0])
  constructor
  · exact h.nodup
  · intro j
    simp only [upd]
    by_cases hj : j = id
    · subst hj; simp [hmem]
    · simp [hj, h.mem j]
  · intro j c' hc'
    simp only [upd] at hc' ⊢
    by_cases hj : j = id
    · simp [hj] at hc'; subst hc'; exact hb
    · simp [hj] at hc'; exact h.boff j c' hc'
  · intro hs j c' hc'
    simp only [upd] at hc' hs
    by_cases hj : j = id
    · simp [hj] at hc'; subst hc'; exact he hs
    · simp [hj] at hc'; exact h.sdexp hs j c' hc'
  · intro j c' hc' hne
    simp only [upd] at hc'
    by_cases hj : j = id
    · simp [hj] at hc'; subst hc'; exact hh
    · simp [hj] at hc'; exact h.histLive j c' hc' hne
  · intro j c' hc'
    simp only [upd] at hc'
    by_cases hj : j = id
    · simp [hj] at hc'; subst hc'; intro o ho; exact hh o (List.mem_of_mem_tail ho)
    · simp [hj] at hc'; exact h.histDone j c' hc'
  · intro l
    have := live_set (calls := s.calls) (id := id) (oc := some c) (l := l) h.nodup hmem
    have ha := h.act l
    simp only [upd]
    have q0 : (c0.phase != Phase.done) = true := bne_iff_ne.mpr hp0
    have q1 : (c.phase != Phase.done) = true := bne_iff_ne.mpr hp
    have e1 : pl (s.calls id) l = pl (some c) l := by
      rw [h0]; simp [pl, hl, q0, q1]
    rw [e1] at this
    omega
  · exact h.wait

/-- the call's goroutine leaves DoAsync. -/
theorem inv_finish {s : State} (h : Inv s) {id : Nat} {c0 c : Call} (h0 : s.calls id = some c0)
    (hl : c.label = c0.label) (hp0 : c0.phase ≠ .done)
    (he : s.shutdown = true → c.expired = true)
    (hh : ∀ o ∈ c.hist.tail, o.retryable = true) : Inv (finish s id c) := by
  have hmem : id ∈ s.ids := (h.mem id).mpr (by simp [h0])
  constructor
  · exact h.nodup
  · intro j
    simp only [finish]
    by_cases hj : j = id
    · subst hj; simp [hmem]
    · simp [hj, h.mem j]
  · intro j c' hc'
    simp only [finish] at hc' ⊢
    by_cases hj : j = id
    · simp [hj] at hc'; subst hc'; intro hx; cases hx
    · simp [hj] at hc'; exact h.boff j c' hc'
  · intro hs j c' hc'
    simp only [finish] at hc' hs
    by_cases hj : j = id
    · simp [hj] at hc'; subst hc'; exact he hs
    · simp [hj] at hc'; exact h.sdexp hs j c' hc'
  · intro j c' hc' hne
    simp only [finish] at hc'
    by_cases hj : j = id
    · simp [hj] at hc'; subst hc'; exact absurd rfl hne
    · simp [hj] at hc'; exact h.histLive j c' hc' hne
  · intro j c' hc'
    simp only [finish] at hc'
    by_cases hj : j = id
    · simp [hj] at hc'; subst hc'; exact hh
    · simp [hj] at hc'; exact h.histDone j c' hc'
  · intro l
    have key := live_set (calls := s.calls) (id := id) (oc := some { c with phase := .done }) (l := l) h.nodup hmem
    have ha := h.act l
    have q0 : (c0.phase != Phase.done) = true := bne_iff_ne.mpr hp0
    have e1 : pl (s.calls id) l = (c0.label == l) := by rw [h0]; simp [pl, q0]
    have e2 : pl (some { c with phase := Phase.done }) l = false := by simp [pl]
    rw [e1, e2] at key
    show (if l = c.label then s.active l - 1 else s.active l)
      = live (fun j => if j = id then some { c with phase := .done } else s.calls j) l s.ids
    by_cases hll : l = c.label
    · have e3 : (c0.label == l) = true := by simp [hll, hl]
      rw [e3] at key
      rw [if_pos hll]
      simp at key
      omega
    · have e3 : (c0.label == l) = false := by simp; rw [← hl]; exact fun e => hll e.symm
      rw [e3] at key
      rw [if_neg hll]
      simp at key
      omega
  · exact h.wait

theorem inv_add {s : State} (h : Inv s) {id : Nat} (h0 : s.calls id = none) (c : Call) (act' : Nat → Nat)
    (hact : ∀ l, act' l = s.active l + (if pl (some c) l then 1 else 0))
    (hb : c.phase ≠ .backoff) (he : s.shutdown = true → c.expired = true) (hh : c.hist = []) :
    Inv { s with ids := s.ids ++ [id], calls := fun j => if j = id then some c else s.calls j, active := act' } := by
  have hnot : id ∉ s.ids := by rw [h.mem id]; simp [h0]
  constructor
  · show (s.ids ++ [id]).Nodup
    rw [List.nodup_append]
    refine ⟨h.nodup, by simp, ?_⟩
    intro a ha b hb' hab
    simp at hb'
    subst hb'; subst hab
    exact hnot ha
  · intro j
    show j ∈ s.ids ++ [id] ↔ (if j = id then some c else s.calls j) ≠ none
    by_cases hj : j = id
    · subst hj; simp
    · simp [hj, h.mem j]
  · intro j c' hc'
    simp only at hc' ⊢
    by_cases hj : j = id
    · simp [hj] at hc'; subst hc'; intro hx; exact absurd hx hb
    · simp [hj] at hc'; exact h.boff j c' hc'
  · intro hs j c' hc'
    simp only at hc' hs
    by_cases hj : j = id
    · simp [hj] at hc'; subst hc'; exact he hs
    · simp [hj] at hc'; exact h.sdexp hs j c' hc'
  · intro j c' hc' hne
    simp only at hc'
    by_cases hj : j = id
    · simp [hj] at hc'; subst hc'; simp [hh]
    · simp [hj] at hc'; exact h.histLive j c' hc' hne
  · intro j c' hc'
    simp only at hc'
    by_cases hj : j = id
    · simp [hj] at hc'; subst hc'; simp [hh]
    · simp [hj] at hc'; exact h.histDone j c' hc'
  · intro l
    show act' l = live (fun j => if j = id then some c else s.calls j) l (s.ids ++ [id])
    rw [hact l, h.act l]
    unfold live
    rw [List.countP_append]
    have e1 : List.countP (fun i => pl (if i = id then some c else s.calls i) l) s.ids
        = List.countP (fun i => pl (s.calls i) l) s.ids := by
      apply List.countP_congr
      intro j hj
      have : j ≠ id := fun e => hnot (e ▸ hj)
      simp [this]
    rw [e1]
    simp [List.countP_cons]
  · exact h.wait

theorem sdCall_phase (c : Call) : (sdCall c).phase ≠ .backoff := by
  unfold sdCall; split
  · simp
  · assumption

theorem inv_shutdown {s : State} (h : Inv s) : Inv (sdState s) := by
  unfold sdState
  constructor
  · exact h.nodup
  · intro j
    show j ∈ s.ids ↔ (s.calls j).map sdCall ≠ none
    rw [h.mem j]; cases s.calls j <;> simp
  · intro j c' hc' hp
    simp only at hc'
    cases hj : s.calls j with
    | none => simp [hj] at hc'
    | some c => simp [hj] at hc'; subst hc'; exact absurd hp (sdCall_phase c)
  · intro _ j c' hc'
    simp only at hc'
    cases hj : s.calls j with
    | none => simp [hj] at hc'
    | some c => simp [hj] at hc'; subst hc'; unfold sdCall; split <;> rfl
  · intro j c' hc' hne
    simp only at hc'
    cases hj : s.calls j with
    | none => simp [hj] at hc'
    | some c =>
      simp [hj] at hc'; subst hc'
      unfold sdCall at hne ⊢
      split
      · rename_i hb; simp [hb] at hne
      · rename_i hb; simp [hb] at hne; exact h.histLive j c hj hne
  · intro j c' hc'
    simp only at hc'
    cases hj : s.calls j with
    | none => simp [hj] at hc'
    | some c =>
      simp [hj] at hc'; subst hc'
      have := h.histDone j c hj
      unfold sdCall; split <;> exact this
  · intro l
    show s.active l - _ = live (fun j => (s.calls j).map sdCall) l s.ids
    rw [h.act l]
    unfold live
    rw [countP_split (fun id => pl (s.calls id) l) (fun id => isBackoff (s.calls id)) s.ids]
    have e1 : List.countP (fun id => backoffWith (s.calls id) l) s.ids
        = List.countP (fun x => pl (s.calls x) l && isBackoff (s.calls x)) s.ids := by
      apply List.countP_congr
      intro j _
      cases s.calls j with
      | none => simp [pl, isBackoff, backoffWith]
      | some c => cases hp : c.phase <;> simp [pl, isBackoff, backoffWith, hp, Bool.and_comm]
    have e2 : List.countP (fun id => pl ((s.calls id).map sdCall) l) s.ids
        = List.countP (fun x => pl (s.calls x) l && !isBackoff (s.calls x)) s.ids := by
      apply List.countP_congr
      intro j _
      cases s.calls j with
      | none => simp [pl, isBackoff]
      | some c => cases hp : c.phase <;> simp [pl, isBackoff, hp, sdCall]
    rw [e1, e2]
    omega
  · intro _; rfl

theorem inv_settle {p : State × List Ev} (h : Inv p.1) : Inv (settle p).1 := by
  unfold settle
  split
  · exact ⟨h.nodup, h.mem, h.boff, h.sdexp, h.histLive, h.histDone, h.act, by simp⟩
  · exact h

theorem inv_core {s : State} (h : Inv s) (o : Op) : Inv (core s o).1 := by
  cases o with
  | call id label dl pre =>
    simp only [core]
    split
    · exact h
    · rename_i h0
      split
      · rename_i hs
        exact inv_add h h0 _ s.active (by intro l; simp [pl]) (by simp) (by simp) rfl
      · rename_i hs
        refine inv_add h h0 _ _ ?_ (by simp) (by intro hx; exact absurd hx hs) rfl
        intro l
        by_cases hl : l = label <;> simp [pl, hl]
        intro e; exact absurd e.symm hl
  | ret id o =>
    simp only [core]
    split
    · exact h
    · rename_i c h0
      split
      · rename_i hp
        have hne : c.phase ≠ .done := by rw [hp]; simp
        have hL := h.histLive id c h0 hne
        have hsd : s.shutdown = true → c.expired = true := fun hs => h.sdexp hs id c h0
        split
        · exact inv_finish h h0 rfl hne hsd (by simpa using hL)
        · split
          · exact inv_finish h h0 rfl hne hsd (by simpa using hL)
          · rename_i hr
            have hr' : o.retryable = true := by simpa using hr
            split
            · rename_i hx
              refine inv_upd h h0 rfl hne (by simp) ?_ ?_ ?_
              · intro _
                refine ⟨hx, ?_⟩
                cases hs : s.shutdown with
                | false => rfl
                | true => rw [hsd hs] at hx; cases hx
              · intro hs; rw [hsd hs] at hx; cases hx
              · intro o' ho'
                rcases List.mem_cons.mp ho' with e | e
                · rw [e]; exact hr'
                · exact hL o' e
            · exact inv_finish h h0 rfl hne hsd (by simpa using hL)
      · exact h
  | fire id =>
    simp only [core]
    split
    · exact h
    · rename_i c h0
      split
      · rename_i hp
        have hne : c.phase ≠ .done := by rw [hp]; simp
        have hL := h.histLive id c h0 hne
        have hsd : s.shutdown = true → c.expired = true := fun hs => h.sdexp hs id c h0
        have hD := h.histDone id c h0
        split
        · exact inv_finish h h0 rfl hne hsd hD
        · split
          · exact inv_finish h h0 rfl hne hsd hD
          · rename_i hs hx
            refine inv_upd h h0 rfl hne (by simp) (by simp) ?_ hL
            intro hs'; exact absurd hs' hs
      · exact h
  | expire id =>
    simp only [core]
    split
    · exact h
    · rename_i c h0
      split
      · rename_i hc
        have hD := h.histDone id c h0
        have hsd : s.shutdown = true → c.expired = true := fun hs => h.sdexp hs id c h0
        split
        · rename_i hp
          have hne : c.phase ≠ .done := by rw [hp]; simp
          exact inv_finish h h0 rfl hne (by intro _; rfl) hD
        · split
          · rename_i hp
            have hne : c.phase ≠ .done := by rw [hp]; simp
            exact inv_upd h h0 rfl hne (by simp [hp]) (by simp [hp]) (by intro _; rfl) (h.histLive id c h0 hne)
          · exact h
      · exact h
  | pcancel id => exact h
  | shutdown =>
    simp only [core]
    split
    · exact h
    · exact inv_shutdown h
  | sdcancel =>
    simp only [core]
    split
    · exact ⟨h.nodup, h.mem, h.boff, h.sdexp, h.histLive, h.histDone, h.act, by simp⟩
    · exact h

theorem inv_step {s : State} (h : Inv s) (o : Op) : Inv (step s o).1 := inv_settle (inv_core h o)

theorem inv_run {s : State} (h : Inv s) (os : List Op) : Inv (run s os) := by
  induction os generalizing s with
  | nil => exact h
  | cons o os ih => exact ih (inv_step h o)

/-! ### events of a step -/

/-- where an attempt can start: the first one in `call`, a later one when the backoff timer fires. -/
theorem core_start {s : State} {o : Op} {id i : Nat} {x : Bool} (h : Ev.start id i x ∈ (core s o).2) :
    (∃ label dl pre, o = .call id label dl pre ∧ s.calls id = none ∧ s.shutdown = false ∧ i = 0 ∧ x = (dl && pre)) ∨
    (o = .fire id ∧ ∃ c, s.calls id = some c ∧ c.phase = .backoff ∧ s.shutdown = false ∧ c.expired = false
      ∧ i = c.hist.length ∧ x = false) := by
  cases o with
  | call id' label dl pre =>
    simp only [core] at h
    split at h
    · simp at h
    · rename_i h0
      split at h
      · simp at h
      · rename_i hs
        simp at h
        obtain ⟨e1, e2, e3⟩ := h
        subst e1
        exact Or.inl ⟨label, dl, pre, rfl, h0, by simpa using hs, e2, e3⟩
  | ret id' o' =>
    simp only [core] at h
    split at h
    · simp at h
    · split at h
      · split at h
        · simp at h
        · split at h
          · simp at h
          · split at h <;> simp at h
      · simp at h
  | fire id' =>
    simp only [core] at h
    split at h
    · simp at h
    · rename_i c h0
      split at h
      · rename_i hp
        split at h
        · simp at h
        · split at h
          · simp at h
          · rename_i hs hx
            simp at h
            obtain ⟨e1, e2, e3⟩ := h
            subst e1
            exact Or.inr ⟨rfl, c, h0, hp, by simpa using hs, by simpa using hx, e2, e3⟩
      · simp at h
  | expire id' =>
    simp only [core] at h
    split at h
    · simp at h
    · split at h
      · split at h
        · simp at h
        · split at h <;> simp at h
      · simp at h
  | pcancel _ => simp [core] at h
  | shutdown =>
    simp only [core] at h
    split at h
    · simp at h
    · simp at h
  | sdcancel =>
    simp only [core] at h
    split at h <;> simp at h

theorem settle_events (p : State × List Ev) :
    (settle p).2 = p.2 ∨ ((settle p).2 = p.2 ++ [.sdReturned false] ∧ p.1.sdWaiting = true ∧ someActive p.1 = false) := by
  unfold settle
  split
  · rename_i h; exact Or.inr ⟨rfl, h.1, h.2⟩
  · exact Or.inl rfl

theorem settle_calls (p : State × List Ev) : (settle p).1.calls = p.1.calls := by
  unfold settle; split <;> rfl

theorem settle_active (p : State × List Ev) : (settle p).1.active = p.1.active := by
  unfold settle; split <;> rfl

theorem settle_ids (p : State × List Ev) : (settle p).1.ids = p.1.ids := by
  unfold settle; split <;> rfl

theorem settle_shutdown (p : State × List Ev) : (settle p).1.shutdown = p.1.shutdown := by
  unfold settle; split <;> rfl

theorem step_start {s : State} {o : Op} {id i : Nat} {x : Bool} (h : Ev.start id i x ∈ (step s o).2) :
    (∃ label dl pre, o = .call id label dl pre ∧ s.calls id = none ∧ s.shutdown = false ∧ i = 0 ∧ x = (dl && pre)) ∨
    (o = .fire id ∧ ∃ c, s.calls id = some c ∧ c.phase = .backoff ∧ s.shutdown = false ∧ c.expired = false
      ∧ i = c.hist.length ∧ x = false) := by
  apply core_start
  unfold step at h
  rcases settle_events (core s o) with e | ⟨e, _, _⟩
  · rw [e] at h; exact h
  · rw [e] at h; simpa using h

/-- `core` itself never reports a return of Shutdown without timeout. -/
theorem core_no_sdok (s : State) (o : Op) : Ev.sdReturned false ∉ (core s o).2 := by
  intro h
  cases o with
  | call id' label dl pre =>
    simp only [core] at h
    split at h
    · simp at h
    · split at h <;> simp at h
  | ret id' o' =>
    simp only [core] at h
    split at h
    · simp at h
    · split at h
      · split at h
        · simp at h
        · split at h
          · simp at h
          · split at h <;> simp at h
      · simp at h
  | fire id' =>
    simp only [core] at h
    split at h
    · simp at h
    · split at h
      · split at h
        · simp at h
        · split at h <;> simp at h
      · simp at h
  | expire id' =>
    simp only [core] at h
    split at h
    · simp at h
    · split at h
      · split at h
        · simp at h
        · split at h <;> simp at h
      · simp at h
  | pcancel _ => simp [core] at h
  | shutdown =>
    simp only [core] at h
    split at h <;> simp at h
  | sdcancel =>
    simp only [core] at h
    split at h <;> simp at h

theorem live_pos {calls : Nat → Option Call} {l id : Nat} {ids : List Nat} (hm : id ∈ ids)
    (hp : pl (calls id) l = true) : 0 < live calls l ids := by
  unfold live
  exact List.countP_pos_iff.mpr ⟨id, hm, hp⟩

/-- `len(active) == 0` means that every call has returned. -/
theorem all_done_of_not_someActive {s : State} (h : Inv s) (hs : someActive s = false)
    (id : Nat) (c : Call) (hc : s.calls id = some c) : c.phase = .done := by
  refine Classical.byContradiction fun hne => ?_
  have hm : id ∈ s.ids := (h.mem id).mpr (by simp [hc])
  have hp : pl (s.calls id) c.label = true := by
    rw [hc]; simp [pl, hne]
  have hpos := live_pos (calls := s.calls) hm hp
  rw [← h.act] at hpos
  have : someActive s = true := by
    unfold someActive
    rw [List.any_eq_true]
    exact ⟨id, hm, by rw [hc]; simpa using hpos⟩
  rw [hs] at this; cases this

end CharonV.Retry
