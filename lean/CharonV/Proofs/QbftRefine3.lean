/-
Refinement, part 3: simulation of the branches `start`, `input`, `timeout`, message after
decision, and the rule branches of `onRecvJustified`.
-/
import CharonV.Proofs.QbftRefine2

namespace CharonV.QbftSys

open CharonV.Qbft CharonV.QbftSpec

variable {P : Params} {fifo : Nat}

local notation "D" => mkDef P fifo

/-! ### changeRound -/

theorem changeRound_same {n : NodeState} {r rule : Nat} (h : n.round = r) :
    changeRound n r rule = (n, []) := by simp [changeRound, h]

theorem changeRound_diff {n : NodeState} {r rule : Nat} (h : n.round ≠ r) :
    changeRound n r rule =
      ({ n with round := r, dedup := [], ppjCache := none }, [.roundChange n.round r rule]) := by
  simp [changeRound, h]

/-- abstraction after entering round `r`. -/
theorem absNode_changeRound (n : NodeState) (r rule : Nat) :
    absNode (changeRound n r rule).1 =
      { (absNode n).enter r with decided := (absNode (changeRound n r rule).1).decided } := by
  by_cases h : n.round = r
  · rw [changeRound_same h]
    simp [Node.enter, absNode, h]
  · rw [changeRound_diff h]
    have h' : ¬ r = n.round := fun e => h e.symm
    simp [Node.enter, absNode, h']

theorem changeRound_ghost (n : NodeState) (r rule : Nat) (p cfr : Nat) (e : Event) :
    (changeRound n r rule).2.flatMap (outEv D p cfr e) = [] := by
  unfold changeRound
  split <;> simp [outEv]

theorem changeRound_qCommit (n : NodeState) (r rule : Nat) :
    (changeRound n r rule).1.qCommit = n.qCommit := by
  unfold changeRound; split <;> rfl

theorem changeRound_fields (n : NodeState) (r rule : Nat) :
    let n' := (changeRound n r rule).1
    n'.round = r ∧ n'.proc = n.proc ∧ n'.buffer = n.buffer ∧ n'.inputValue = n.inputValue ∧
      n'.preparedRound = n.preparedRound ∧ n'.preparedValue = n.preparedValue ∧
      n'.compareFailureRound = n.compareFailureRound ∧ n'.qCommit = n.qCommit ∧
      n'.qCommitValue = n.qCommitValue ∧ n'.timerOn = n.timerOn ∧ n'.started = n.started ∧
      (n'.ppjCache.isSome = true → n.ppjCache.isSome = true ∧ n.round = r) := by
  unfold changeRound
  split
  · rename_i h; simp [h]
  · simp

/-! ### timeout -/

theorem sim_timeout {t : QbftSpec.State} {p : Nat} {n : NodeState} (cfr : Nat)
    (hr : QbftSpec.Reach P t) (hp : P.honest p) (hrel : nodeRel (t.nodes p) (absNode n))
    (hli : LInv P t.hist p n) :
    SimOut P t p (onTimeout n).1 ((onTimeout n).2.flatMap (outEv D p cfr .timeout)) := by
  unfold onTimeout
  by_cases hto : n.timerOn = true
  · -- undecided, since a decided node has its timer off
    have hund : n.qCommit.isEmpty = true := by
      cases hq : n.qCommit.isEmpty with
      | true => rfl
      | false => have := hli.timer hq; rw [hto] at this; cases this
    have hnone := absNode_decided_none hund
    have heq : t.nodes p = absNode n := hrel.2 hnone
    simp only [hto, Bool.not_true, Bool.false_eq_true, if_false]
    have hne : n.round ≠ n.round + 1 := by omega
    rw [changeRound_diff hne]
    simp only [restartTimer, bcastRoundChange, List.flatMap_append, List.flatMap_cons,
      List.flatMap_nil, outEv, List.append_nil, List.nil_append]
    simp only [tRoundChange, tPrePrepare, tPrepare, tCommit]
    simp only [show ¬ (4 : Nat) = 1 by decide, show ¬ (4 : Nat) = 2 by decide,
      show ¬ (4 : Nat) = 3 by decide, if_false, if_true]
    have hq : n.qCommit = [] := List.isEmpty_iff.mp hund
    refine ⟨_, QbftSpec.Reach.step hr (QbftSpec.Step.timeout t p hp (by rw [heq]; exact hnone)),
      ?_, ?_, ?_⟩
    · simp [heq, absNode]
    · intro q hq; simp [setNode, hq]
    · simp only [setNode, if_true]
      rw [heq]
      have : absNode { n with round := n.round + 1, dedup := [], ppjCache := none, timerOn := true } =
          (absNode n).enter ((absNode n).round + 1) := by
        simp [absNode, Node.enter, hq]
      rw [this]
      exact nodeRel_refl _
  · have hto' : n.timerOn = false := by cases h : n.timerOn <;> simp_all
    simp only [hto', Bool.not_false, if_true, List.flatMap_nil]
    exact sim_stutter hr hrel ⟨rfl, fun _ => rfl⟩

theorem linv_timeout {H : List Ev} {p : Nat} {n : NodeState} (G : List Ev)
    (hli : LInv P H p n) (hst : n.started = true) : LInv P (H ++ G) p (onTimeout n).1 := by
  have hli' : LInv P (H ++ G) p n := hli.mono (fun e he => List.mem_append_left _ he)
  unfold onTimeout
  by_cases hto : n.timerOn = true
  · have hund : n.qCommit.isEmpty = true := by
      cases hq : n.qCommit.isEmpty with
      | true => rfl
      | false => have := hli.timer hq; rw [hto] at this; cases this
    simp only [hto, Bool.not_true, Bool.false_eq_true, if_false]
    have hne : n.round ≠ n.round + 1 := by omega
    rw [changeRound_diff hne]
    simp only [restartTimer]
    refine ⟨hli'.proc, hli'.bufAdm, hli'.input, by simp, ?_, ?_⟩
    · intro h; simp [hund] at h
    · intro h; simp [hst] at h
  · have hto' : n.timerOn = false := by cases h : n.timerOn <;> simp_all
    simpa [hto'] using hli'

/-! ### input -/

theorem sim_input {t : QbftSpec.State} {p : Nat} {n : NodeState} (cfr v : Nat)
    (hr : QbftSpec.Reach P t) (hp : P.honest p) (hrel : nodeRel (t.nodes p) (absNode n))
    (hli : LInv P t.hist p n) (hv : v = P.input p)
    (hround : (t.nodes p).round = n.round) :
    SimOut P t p (onInput n v).1 ((onInput n v).2.flatMap (outEv D p cfr (.input v))) := by
  unfold onInput
  by_cases hd : n.inputDone = true
  · simp only [hd, if_true, List.flatMap_nil]
    exact sim_stutter hr hrel ⟨rfl, fun _ => rfl⟩
  · simp only [hd, Bool.false_eq_true, if_false]
    by_cases hz : v = 0
    · simp only [hz, if_true, List.flatMap_cons, List.flatMap_nil, outEv, List.append_nil]
      exact sim_stutter hr hrel ⟨rfl, fun _ => rfl⟩
    · simp only [hz, if_false]
      cases hc : n.ppjCache with
      | none =>
        simp only [List.flatMap_nil]
        exact sim_stutter hr hrel ⟨rfl, fun _ => rfl⟩
      | some j =>
        have hlead : P.leader n.round = p := hli.cache (by simp [hc])
        simp only [bcastMsg, List.flatMap_cons, List.flatMap_nil, outEv, List.append_nil,
          if_true]
        refine ⟨_, QbftSpec.Reach.step hr (QbftSpec.Step.propose t p v 0 hp (by rw [hround]; exact hlead)
          (Or.inl ⟨hv, hz⟩)), ?_, fun _ _ => rfl, ?_⟩
        · simp [hround]
        · exact ⟨hrel.1, hrel.2⟩

theorem linv_input {H : List Ev} {p : Nat} {n : NodeState} (G : List Ev) (v : Nat)
    (hli : LInv P H p n) (hst : n.started = true) (hv : v = P.input p) :
    LInv P (H ++ G) p (onInput n v).1 := by
  have hli' : LInv P (H ++ G) p n := hli.mono (fun e he => List.mem_append_left _ he)
  unfold onInput
  by_cases hd : n.inputDone = true
  · simpa [hd] using hli'
  · simp only [hd, Bool.false_eq_true, if_false]
    by_cases hz : v = 0
    · simp only [hz, if_true]
      exact ⟨hli'.proc, hli'.bufAdm, Or.inl rfl, hli'.cache, hli'.timer, by intro h; simp [hst] at h⟩
    · simp only [hz, if_false]
      have : LInv P (H ++ G) p { n with inputValue := v, inputDone := true } :=
        ⟨hli'.proc, hli'.bufAdm, Or.inr ⟨hv, hz⟩, hli'.cache, hli'.timer,
          by intro h; simp [hst] at h⟩
      exact this

/-! ### start -/

theorem sim_start {t : QbftSpec.State} {p : Nat} (cfr : Nat)
    (hr : QbftSpec.Reach P t) (hrel : nodeRel (t.nodes p) (absNode { proc := p })) :
    SimOut P t p (onStart D { proc := p, started := true }).1
      ((onStart D { proc := p, started := true }).2.flatMap (outEv D p cfr .start)) := by
  unfold onStart
  by_cases hl : (mkDef P fifo).leader 1 = p
  · simp only [hl, if_true, bcastOwnPrePrepare, Option.isSome_none, Bool.false_eq_true, if_false,
      List.nil_append, List.flatMap_cons, List.flatMap_nil, outEv, List.append_nil]
    exact sim_stutter hr hrel ⟨rfl, fun _ => rfl⟩
  · simp only [hl, if_false, List.nil_append, List.flatMap_cons, List.flatMap_nil, outEv,
      List.append_nil]
    exact sim_stutter hr hrel ⟨rfl, fun _ => rfl⟩

theorem linv_start {H : List Ev} {p : Nat} (G : List Ev) :
    LInv P (H ++ G) p (onStart D { proc := p, started := true }).1 := by
  unfold onStart
  by_cases hl : (mkDef P fifo).leader 1 = p
  · simp only [hl, if_true, bcastOwnPrePrepare, Option.isSome_none, Bool.false_eq_true, if_false]
    refine ⟨rfl, ?_, Or.inl rfl, fun _ => hl, by simp, by simp⟩
    intro c hc; obtain ⟨e, he, _⟩ := hc; cases he
  · simp only [hl, if_false]
    refine ⟨rfl, ?_, Or.inl rfl, by simp, by simp, by simp⟩
    intro c hc; obtain ⟨e, he, _⟩ := hc; cases he

/-! ### message after the decision -/

theorem allowDecidedResend_abs (n : NodeState) (a b : Nat) :
    absNode (allowDecidedResend n a b).1 = absNode n := by
  unfold allowDecidedResend
  simp only
  split <;> rfl

theorem allowDecidedResend_linv {H : List Ev} {p : Nat} {n : NodeState} (a b : Nat)
    (hli : LInv P H p n) (hst : n.started = true) : LInv P H p (allowDecidedResend n a b).1 := by
  unfold allowDecidedResend
  simp only
  split
  · exact hli
  · exact ⟨hli.proc, hli.bufAdm, hli.input, hli.cache, hli.timer, by intro h; simp [hst] at h⟩

theorem sim_recvDecided {t : QbftSpec.State} {p : Nat} {n : NodeState} (cfr : Nat) (m : Msg) (e : Event)
    (hr : QbftSpec.Reach P t) (hrel : nodeRel (t.nodes p) (absNode n)) :
    SimOut P t p (onRecvDecided n m).1 ((onRecvDecided n m).2.flatMap (outEv D p cfr e)) := by
  unfold onRecvDecided
  have habs := allowDecidedResend_abs n m.core.src m.core.round
  split
  · simp only
    split
    · simp only [bcastMsg, List.flatMap_cons, List.flatMap_nil, outEv, List.append_nil]
      simp only [tDecided, tPrePrepare, tPrepare, tCommit, tRoundChange,
        show ¬ (5 : Nat) = 1 by decide, show ¬ (5 : Nat) = 2 by decide,
        show ¬ (5 : Nat) = 3 by decide, show ¬ (5 : Nat) = 4 by decide, if_false]
      exact sim_stutter hr hrel ⟨by rw [habs], fun _ => habs⟩
    · simp only [List.flatMap_nil]
      exact sim_stutter hr hrel ⟨by rw [habs], fun _ => habs⟩
  · simp only [List.flatMap_nil]
    exact sim_stutter hr hrel ⟨rfl, fun _ => rfl⟩

theorem linv_recvDecided {H : List Ev} {p : Nat} {n : NodeState} (G : List Ev) (m : Msg)
    (hli : LInv P H p n) (hst : n.started = true) : LInv P (H ++ G) p (onRecvDecided n m).1 := by
  have hli' : LInv P (H ++ G) p n := hli.mono (fun e he => List.mem_append_left _ he)
  unfold onRecvDecided
  split
  · simp only
    split
    · exact allowDecidedResend_linv _ _ hli' hst
    · exact allowDecidedResend_linv _ _ hli' hst
  · exact hli'

end CharonV.QbftSys
