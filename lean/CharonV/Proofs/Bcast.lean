/-
C13 — helper lemmas and invariants for the reliable-broadcast model (`CharonV.Model.Bcast`).
-/
import CharonV.Model.Bcast

namespace CharonV.Bcast

set_option linter.unusedSectionVars false
set_option linter.unusedSimpArgs false

/-! ## Hash input encoding -/

theorem be64_length (n : Nat) : (be64 n).length = 8 := rfl

theorem be64_inj {n m : Nat} (hn : n < 18446744073709551616) (hm : m < 18446744073709551616)
    (h : be64 n = be64 m) : n = m := by
  simp only [be64, List.cons.injEq, and_true] at h
  omega

theorem field_append_inj {a b : Bytes} {x y : List Nat} (h : field a ++ x = field b ++ y) :
    a = b ∧ x = y := by
  simp only [field, List.append_assoc] at h
  have h1 := List.append_inj h (by simp [be64_length])
  have hl := be64_inj a.small b.small h1.1
  have h2 := List.append_inj h1.2 hl
  exact ⟨Bytes.ext h2.1, h2.2⟩

theorem encode_inj {a b : HashIn} (h : encode a = encode b) : a = b := by
  simp only [encode] at h
  obtain ⟨h1, h⟩ := field_append_inj h
  obtain ⟨h2, h⟩ := field_append_inj h
  obtain ⟨h3, h⟩ := field_append_inj h
  have h4 : a.value = b.value := by
    have := field_append_inj (x := []) (y := []) (by simpa using h)
    exact this.1
  cases a; cases b; simp_all

/-! ## Member-level lemmas -/

variable {Digest Sig : Type} [DecidableEq Digest]
variable (C : Crypto Digest Sig) (E : Env) (cfg : Cfg)

def payloadOf (h : HashIn) : Payload := ⟨h.typeUrl, h.value⟩

theorem dget_cons {K V : Type} [DecidableEq K] (a : K) (v : V) (t : List (K × V)) (k : K) :
    dget ((a, v) :: t) k = if k = a then some v else dget t k := rfl

theorem onSigRequest_cases (self : Peer) (m : Member Digest) (q : Peer) (id : Bytes) (P : Payload) :
    let d := C.hash (encode (hinOf cfg.session id P))
    (∃ r, onSigRequest C E cfg self m q id P = (m, r) ∧ ∀ s, r ≠ .ok s) ∨
    (dget m.dedup (q, id) = some d ∧ onSigRequest C E cfg self m q id P = (m, .ok (C.sign self d))) ∨
    (dget m.dedup (q, id) = none ∧
      onSigRequest C E cfg self m q id P =
        ({ m with dedup := ((q, id), d) :: m.dedup }, .ok (C.sign self d))) := by
  intro d
  unfold onSigRequest
  split
  · exact .inl ⟨_, rfl, by simp⟩
  · split
    · exact .inl ⟨_, rfl, by simp⟩
    · simp only
      split
      · rename_i d' hd
        split
        · rename_i he; subst he; exact .inr (.inl ⟨hd, rfl⟩)
        · exact .inl ⟨_, rfl, by simp⟩
      · rename_i hd; exact .inr (.inr ⟨hd, rfl⟩)

theorem onSigRequest_mono (self : Peer) (m : Member Digest) (q : Peer) (id : Bytes) (P : Payload)
    (k : Peer × Bytes) (v : Digest) (h : dget m.dedup k = some v) :
    dget (onSigRequest C E cfg self m q id P).1.dedup k = some v := by
  rcases onSigRequest_cases C E cfg self m q id P with ⟨r, hr, _⟩ | ⟨_, hr⟩ | ⟨hn, hr⟩
  · rw [hr]; exact h
  · rw [hr]; exact h
  · rw [hr]; simp only [dget_cons]
    split
    · rename_i hk; rw [hk, hn] at h; cases h
    · exact h

theorem onSigRequest_allowed (self : Peer) (m : Member Digest) (q : Peer) (id : Bytes) (P : Payload) :
    (onSigRequest C E cfg self m q id P).1.allowed = m.allowed := by
  rcases onSigRequest_cases C E cfg self m q id P with ⟨r, hr, _⟩ | ⟨_, hr⟩ | ⟨hn, hr⟩ <;> rw [hr]

theorem onSigRequest_ok (self : Peer) (m m' : Member Digest) (q : Peer) (id : Bytes) (P : Payload)
    (s : Sig) (h : onSigRequest C E cfg self m q id P = (m', .ok s)) :
    dget m'.dedup (q, id) = some (C.hash (encode (hinOf cfg.session id P))) := by
  rcases onSigRequest_cases C E cfg self m q id P with ⟨r, hr, hne⟩ | ⟨hd, hr⟩ | ⟨hn, hr⟩
  · rw [hr] at h; cases h; exact absurd rfl (hne s)
  · rw [hr] at h; cases h; exact hd
  · rw [hr] at h; cases h; simp [dget_cons]


theorem payloadOf_hinOf (s id : Bytes) (P : Payload) : payloadOf (hinOf s id P) = P := rfl

theorem verifyLoop_ok (d : Digest) : ∀ (ps : List Peer) (ss : List Sig),
    verifyLoop C d ps ss = .ok → ∀ ks ∈ ps.zip ss, C.verify ks.1 d ks.2 = true
  | [], _, _, ks, hk => by simp at hk
  | _ :: _, [], _, ks, hk => by simp at hk
  | p :: ps, s :: ss, h, ks, hk => by
    unfold verifyLoop at h
    split at h
    · cases h
    · split at h
      · cases h
      · rename_i hv
        simp only [List.zip_cons_cons, List.mem_cons] at hk
        rcases hk with rfl | hk
        · simpa using hv
        · exact verifyLoop_ok d ps ss h ks hk

theorem mem_zip_of_mem_left {α β : Type} : ∀ (ps : List α) (ss : List β) (k : α),
    k ∈ ps → ss.length = ps.length → ∃ s, (k, s) ∈ ps.zip ss
  | [], _, k, hk, _ => by simp at hk
  | p :: ps, [], k, _, hl => by simp at hl
  | p :: ps, s :: ss, k, hk, hl => by
    simp only [List.mem_cons] at hk
    rcases hk with rfl | hk
    · exact ⟨s, by simp⟩
    · obtain ⟨s', hs'⟩ := mem_zip_of_mem_left ps ss k hk (by simpa using hl)
      exact ⟨s', by simp [hs']⟩

theorem verifySigs_ok (m : Member Digest) (id : Bytes) (P : Payload) (sigs : List Sig)
    (h : verifySigs C cfg m id P sigs = .ok) :
    sigs.length = cfg.peers.length ∧ m.allowed.contains id = true ∧
      ∀ ks ∈ cfg.peers.zip sigs, C.verify ks.1 (C.hash (encode (hinOf cfg.session id P))) ks.2 = true := by
  unfold verifySigs at h
  split at h
  · cases h
  · rename_i hl
    split at h
    · cases h
    · rename_i ha
      exact ⟨by simpa using hl, by simpa using ha, verifyLoop_ok C _ _ _ h⟩

theorem onMessage_invoked (m : Member Digest) (q : Peer) (id : Bytes) (P : Payload) (sigs : List Sig)
    (h : (onMessage C E cfg m q id P sigs).invoked = true) :
    verifySigs C cfg m id P sigs = .ok ∧
      ((onMessage C E cfg m q id P sigs == .ok) = true → E.binds id P q = true) := by
  unfold onMessage at h ⊢
  cases hv : verifySigs C cfg m id P sigs <;> rw [hv] at h <;> simp [MsgResp.invoked] at h ⊢
  split
  · rename_i hu; simp [hu, MsgResp.invoked] at h
  · split
    · rename_i hb; intro _; exact hb
    · intro hc; cases hc

/-! ## System-level step lemmas -/

theorem step_sigReq_cases (w : World Digest) (h q : Peer) (id : Bytes) (P : Payload) :
    (step C E cfg w (.sigReq h q id P)).1 = w ∨
    ∃ m', dget m'.dedup (q, id) = some (C.hash (encode (hinOf cfg.session id P))) ∧
      (∀ k v, dget (w.mem h).dedup k = some v → dget m'.dedup k = some v) ∧
      m'.allowed = (w.mem h).allowed ∧
      (step C E cfg w (.sigReq h q id P)).1 =
        { w with mem := upd w.mem h m', signed := ⟨h, hinOf cfg.session id P, .req q⟩ :: w.signed } := by
  simp only [step]
  cases hres : onSigRequest C E cfg h (w.mem h) q id P with
  | mk m' r =>
    cases r with
    | ok s =>
      refine .inr ⟨m', onSigRequest_ok C E cfg h _ m' q id P s hres, ?_, ?_, rfl⟩
      · intro k v hk
        have := onSigRequest_mono C E cfg h (w.mem h) q id P k v hk
        rwa [hres] at this
      · have := onSigRequest_allowed C E cfg h (w.mem h) q id P
        rwa [hres] at this
    | unknownId => exact .inl rfl
    | checkFail => exact .inl rfl
    | dup => exact .inl rfl

theorem upd_same {α : Type} (f : Peer → α) (k : Peer) (v : α) : upd f k v k = v := by simp [upd]
theorem upd_other {α : Type} (f : Peer → α) (k : Peer) (v : α) (x : Peer) (h : x ≠ k) :
    upd f k v x = f x := by simp [upd, h]

/-! ## Invariant A: holds along every event sequence (no assumption on the environment) -/

structure InvA (w : World Digest) : Prop where
  /-- a signature given to requester `q` is remembered in the signer's dedup table -/
  reqDedup : ∀ r ∈ w.signed, ∀ q, r.via = .req q →
    r.hin.session = cfg.session ∧
      dget (w.mem r.signer).dedup (q, r.hin.id) = some (C.hash (encode r.hin))
  /-- a client signature belongs to a `Broadcast` call of the signer -/
  clientStarted : ∀ r ∈ w.signed, r.via = .client →
    r.hin.session = cfg.session ∧ (r.signer, r.hin.id, payloadOf r.hin) ∈ w.started
  /-- an accepted delivery passed the callback's check for its transport sender -/
  delivBinds : ∀ d ∈ w.delivered, d.accepted = true → E.binds d.id d.payload d.sender = true

theorem invA_init : InvA C E cfg ({} : World Digest) :=
  ⟨by simp, by simp, by simp⟩

theorem invA_step (w : World Digest) (e : Ev Sig) (hi : InvA C E cfg w) :
    InvA C E cfg (step C E cfg w e).1 := by
  cases e with
  | reg h id =>
    refine ⟨?_, hi.clientStarted, hi.delivBinds⟩
    intro r hr q hq
    obtain ⟨h1, h2⟩ := hi.reqDedup r hr q hq
    refine ⟨h1, ?_⟩
    show dget (upd w.mem h (register (w.mem h) id) r.signer).dedup _ = _
    by_cases hs : r.signer = h
    · rw [hs, upd_same]; rw [hs] at h2; exact h2
    · rw [upd_other _ _ _ _ hs]; exact h2
  | cstart a id P =>
    simp only [step]
    split
    · refine ⟨?_, ?_, hi.delivBinds⟩
      · intro r hr q hq
        simp only [List.mem_cons] at hr
        rcases hr with rfl | hr
        · cases hq
        · exact hi.reqDedup r hr q hq
      · intro r hr hc
        simp only [List.mem_cons] at hr
        rcases hr with rfl | hr
        · exact ⟨rfl, List.mem_cons_self⟩
        · obtain ⟨h1, h2⟩ := hi.clientStarted r hr hc
          exact ⟨h1, List.mem_cons_of_mem _ h2⟩
    · refine ⟨hi.reqDedup, ?_, hi.delivBinds⟩
      intro r hr hc
      obtain ⟨h1, h2⟩ := hi.clientStarted r hr hc
      exact ⟨h1, List.mem_cons_of_mem _ h2⟩
  | sigReq h q id P =>
    rcases step_sigReq_cases C E cfg w h q id P with hw | ⟨m', hd, hmono, _, hw⟩
    · rw [hw]; exact hi
    · rw [hw]
      refine ⟨?_, ?_, hi.delivBinds⟩
      · intro r hr q' hq'
        simp only [List.mem_cons] at hr
        rcases hr with rfl | hr
        · cases hq'
          exact ⟨rfl, by simpa [upd_same, hinOf] using hd⟩
        · obtain ⟨h1, h2⟩ := hi.reqDedup r hr q' hq'
          refine ⟨h1, ?_⟩
          show dget (upd w.mem h m' r.signer).dedup _ = _
          by_cases hs : r.signer = h
          · rw [hs, upd_same]; rw [hs] at h2; exact hmono _ _ h2
          · rw [upd_other _ _ _ _ hs]; exact h2
      · intro r hr hc
        simp only [List.mem_cons] at hr
        rcases hr with rfl | hr
        · cases hc
        · exact hi.clientStarted r hr hc
  | msg h q id P sigs =>
    simp only [step]
    split
    · rename_i hinv
      refine ⟨hi.reqDedup, hi.clientStarted, ?_⟩
      intro d hd hacc
      simp only [List.mem_cons] at hd
      rcases hd with rfl | hd
      · exact (onMessage_invoked C E cfg _ q id P sigs hinv).2 hacc
      · exact hi.delivBinds d hd hacc
    · exact hi
  | foreign k hin =>
    refine ⟨?_, ?_, hi.delivBinds⟩
    · intro r hr q hq
      simp only [step, List.mem_cons] at hr
      rcases hr with rfl | hr
      · cases hq
      · exact hi.reqDedup r hr q hq
    · intro r hr hc
      simp only [step, List.mem_cons] at hr
      rcases hr with rfl | hr
      · cases hc
      · exact hi.clientStarted r hr hc

theorem invA_run (w : World Digest) (evs : List (Ev Sig)) (hi : InvA C E cfg w) :
    InvA C E cfg (run C E cfg w evs) := by
  induction evs generalizing w with
  | nil => exact hi
  | cons e es ih => exact ih _ (invA_step C E cfg w e hi)

/-! ## Monotone ghost logs, origin of new entries -/

theorem step_signed_sub (w : World Digest) (e : Ev Sig) (r : SignRec) (hr : r ∈ w.signed) :
    r ∈ (step C E cfg w e).1.signed := by
  cases e with
  | reg h id => exact hr
  | cstart a id P => simp only [step]; split <;> simp [hr]
  | sigReq h q id P =>
    rcases step_sigReq_cases C E cfg w h q id P with hw | ⟨m', _, _, _, hw⟩ <;> rw [hw]
    · exact hr
    · exact List.mem_cons_of_mem _ hr
  | msg h q id P sigs => simp only [step]; split <;> exact hr
  | foreign k hin => exact List.mem_cons_of_mem _ hr

theorem step_started_sub (w : World Digest) (e : Ev Sig) (x : Peer × Bytes × Payload)
    (hx : x ∈ w.started) : x ∈ (step C E cfg w e).1.started := by
  cases e with
  | reg h id => exact hx
  | cstart a id P => simp only [step]; split <;> simp [hx]
  | sigReq h q id P =>
    rcases step_sigReq_cases C E cfg w h q id P with hw | ⟨m', _, _, _, hw⟩ <;> rw [hw] <;> exact hx
  | msg h q id P sigs => simp only [step]; split <;> exact hx
  | foreign k hin => exact hx

theorem step_signed_new (w : World Digest) (e : Ev Sig) (r : SignRec)
    (hr : r ∈ (step C E cfg w e).1.signed) :
    r ∈ w.signed ∨
    (∃ a id P, e = .cstart a id P ∧ r = ⟨a, hinOf cfg.session id P, .client⟩) ∨
    (∃ h q id P, e = .sigReq h q id P ∧ r = ⟨h, hinOf cfg.session id P, .req q⟩) ∨
    (∃ k hin, e = .foreign k hin ∧ r = ⟨k, hin, .foreign⟩) := by
  cases e with
  | reg h id => exact .inl hr
  | cstart a id P =>
    simp only [step] at hr
    split at hr
    · simp only [List.mem_cons] at hr
      rcases hr with rfl | hr
      · exact .inr (.inl ⟨a, id, P, rfl, rfl⟩)
      · exact .inl hr
    · exact .inl hr
  | sigReq h q id P =>
    rcases step_sigReq_cases C E cfg w h q id P with hw | ⟨m', _, _, _, hw⟩ <;> rw [hw] at hr
    · exact .inl hr
    · simp only [List.mem_cons] at hr
      rcases hr with rfl | hr
      · exact .inr (.inr (.inl ⟨h, q, id, P, rfl, rfl⟩))
      · exact .inl hr
  | msg h q id P sigs =>
    simp only [step] at hr
    split at hr <;> exact .inl hr
  | foreign k hin =>
    simp only [step, List.mem_cons] at hr
    rcases hr with rfl | hr
    · exact .inr (.inr (.inr ⟨k, hin, rfl, rfl⟩))
    · exact .inl hr

theorem step_delivered_new (w : World Digest) (e : Ev Sig) (d : Delivery)
    (hd : d ∈ (step C E cfg w e).1.delivered) :
    d ∈ w.delivered ∨
    ∃ h q id P sigs, e = .msg h q id P sigs ∧ d.at_ = h ∧ d.sender = q ∧ d.id = id ∧
      d.payload = P ∧ verifySigs C cfg (w.mem h) id P sigs = .ok := by
  cases e with
  | reg h id => exact .inl hd
  | cstart a id P => simp only [step] at hd; split at hd <;> exact .inl hd
  | sigReq h q id P =>
    rcases step_sigReq_cases C E cfg w h q id P with hw | ⟨m', _, _, _, hw⟩ <;> rw [hw] at hd <;>
      exact .inl hd
  | msg h q id P sigs =>
    simp only [step] at hd
    split at hd
    · rename_i hinv
      simp only [List.mem_cons] at hd
      rcases hd with rfl | hd
      · exact .inr ⟨h, q, id, P, sigs, rfl, rfl, rfl, rfl, rfl,
          (onMessage_invoked C E cfg _ q id P sigs hinv).1⟩
      · exact .inl hd
    · exact .inl hd
  | foreign k hin => exact .inl hd

/-! ## Invariant B: needs the environment assumptions (`admissible`) and collision resistance -/

section
variable [DecidableEq Sig] (honest : Peer → Bool)

structure InvB (w : World Digest) : Prop where
  foreignSess : ∀ r ∈ w.signed, r.via = .foreign → r.hin.session ≠ cfg.session
  /-- requests carrying an honest member's identity are that member's own broadcasts -/
  reqHonest : ∀ r ∈ w.signed, ∀ q, r.via = .req q → honest q = true →
    (q, r.hin.id, payloadOf r.hin) ∈ w.started
  /-- every callback invocation is backed by a signature of every honest cluster member over
  exactly (session, id, payload) -/
  delivSigned : ∀ d ∈ w.delivered, ∀ k ∈ cfg.peers, honest k = true →
    ∃ via, via ≠ .foreign ∧ ⟨k, hinOf cfg.session d.id d.payload, via⟩ ∈ w.signed
  /-- messages carrying an honest member's identity were sent by its client -/
  delivHonest : ∀ d ∈ w.delivered, honest d.sender = true →
    d.at_ ≠ d.sender ∧ (d.sender, d.id, d.payload) ∈ w.started ∧
      ∀ h' ∈ cfg.peers, honest h' = true → h' ≠ d.sender →
        ⟨h', hinOf cfg.session d.id d.payload, .req d.sender⟩ ∈ w.signed

theorem invB_init : InvB cfg honest ({} : World Digest) :=
  ⟨by simp, by simp, by simp, by simp⟩

theorem invB_step (hinj : Function.Injective C.hash) (w : World Digest) (e : Ev Sig)
    (hi : InvB cfg honest w) (ha : admissible C cfg honest w e = true) :
    InvB cfg honest (step C E cfg w e).1 := by
  have hfs : ∀ r ∈ (step C E cfg w e).1.signed, r.via = .foreign → r.hin.session ≠ cfg.session := by
    intro r hr hv
    rcases step_signed_new C E cfg w e r hr with h0 | ⟨a, id, P, rfl, rfl⟩ | ⟨h, q, id, P, rfl, rfl⟩ |
      ⟨k, hin, rfl, rfl⟩
    · exact hi.foreignSess r h0 hv
    · cases hv
    · cases hv
    · simpa [admissible] using ha
  refine ⟨hfs, ?_, ?_, ?_⟩
  · intro r hr q hq hh
    rcases step_signed_new C E cfg w e r hr with h0 | ⟨a, id, P, rfl, rfl⟩ | ⟨h, q', id, P, rfl, rfl⟩ |
      ⟨k, hin, rfl, rfl⟩
    · exact step_started_sub C E cfg w e _ (hi.reqHonest r h0 q hq hh)
    · cases hq
    · cases hq
      apply step_started_sub
      simp only [admissible, Bool.or_eq_true, Bool.not_eq_true', hh] at ha
      have ha' : (q, id, P) ∈ w.started := by simpa using ha
      exact ha'
    · cases hq
  · intro d hd k hk hh
    rcases step_delivered_new C E cfg w e d hd with h0 | ⟨h, q, id, P, sigs, rfl, _, _, rfl, rfl, hv⟩
    · obtain ⟨via, hne, hm⟩ := hi.delivSigned d h0 k hk hh
      exact ⟨via, hne, step_signed_sub C E cfg w _ _ hm⟩
    · obtain ⟨hl, _, hall⟩ := verifySigs_ok C cfg _ _ _ _ hv
      obtain ⟨s, hs⟩ := mem_zip_of_mem_left cfg.peers sigs k hk hl
      have hver := hall _ hs
      simp only [admissible, Bool.and_eq_true, List.all_eq_true] at ha
      have h2 := ha.2 _ hs
      simp only [hh, hver, Bool.not_true, Bool.false_or, List.any_eq_true, Bool.and_eq_true,
        beq_iff_eq, decide_eq_true_eq] at h2
      obtain ⟨r, hr, hrs, hrh⟩ := h2
      have hin : r.hin = hinOf cfg.session d.id d.payload := encode_inj (hinj hrh)
      have hr' := step_signed_sub C E cfg w (.msg h q d.id d.payload sigs) r hr
      refine ⟨r.via, ?_, ?_⟩
      · intro hvf
        exact hfs r hr' hvf (by rw [hin]; rfl)
      · have : r = ⟨k, hinOf cfg.session d.id d.payload, r.via⟩ := by
          cases r; simp_all
        rw [← this]; exact hr'
  · intro d hd hh
    rcases step_delivered_new C E cfg w e d hd with h0 | ⟨h, q, id, P, sigs, rfl, rfl, rfl, rfl, rfl, hv⟩
    · obtain ⟨h1, h2, h3⟩ := hi.delivHonest d h0 hh
      exact ⟨h1, step_started_sub C E cfg w e _ h2,
        fun h' hp hh' hne => step_signed_sub C E cfg w e _ (h3 h' hp hh' hne)⟩
    · simp only [admissible, Bool.and_eq_true, Bool.or_eq_true, Bool.not_eq_true', hh,
        List.all_eq_true] at ha
      have h1 := ha.1
      simp only [Bool.true_eq_false, false_or, bne_iff_ne, ne_eq, List.contains_iff_mem,
        Bool.and_eq_true, beq_iff_eq] at h1
      refine ⟨h1.1.1, step_started_sub C E cfg w _ _ h1.1.2, ?_⟩
      intro h' hp hh' hne
      have := h1.2 h' hp
      simp only [hh', hne, false_or, Bool.false_eq_true, Bool.true_eq_false] at this
      exact step_signed_sub C E cfg w _ _ this

theorem inv_run (hinj : Function.Injective C.hash) (w : World Digest) (evs : List (Ev Sig))
    (hA : InvA C E cfg w) (hB : InvB cfg honest w) (ha : admRun C E cfg honest w evs = true) :
    InvA C E cfg (run C E cfg w evs) ∧ InvB cfg honest (run C E cfg w evs) := by
  induction evs generalizing w with
  | nil => exact ⟨hA, hB⟩
  | cons e es ih =>
    simp only [admRun, Bool.and_eq_true] at ha
    exact ih _ (invA_step C E cfg w e hA) (invB_step C E cfg honest hinj w e hB ha.1) ha.2

theorem reach_inv (hinj : Function.Injective C.hash) (evs : List (Ev Sig))
    (ha : admRun C E cfg honest ({} : World Digest) evs = true) :
    InvA C E cfg (run C E cfg {} evs) ∧ InvB cfg honest (run C E cfg {} evs) :=
  inv_run C E cfg honest hinj _ evs (invA_init C E cfg) (invB_init cfg honest) ha

end

/-! ## Dedup entries persist; what an `ok` answer says about the table -/

theorem step_dedup_mono (w : World Digest) (e : Ev Sig) (p : Peer) (k : Peer × Bytes) (v : Digest)
    (h : dget (w.mem p).dedup k = some v) : dget ((step C E cfg w e).1.mem p).dedup k = some v := by
  cases e with
  | reg m id =>
    show dget (upd w.mem m (register (w.mem m) id) p).dedup k = some v
    by_cases hp : p = m
    · rw [hp, upd_same]; rw [hp] at h; exact h
    · rw [upd_other _ _ _ _ hp]; exact h
  | cstart a id P => simp only [step]; split <;> exact h
  | sigReq m q id P =>
    rcases step_sigReq_cases C E cfg w m q id P with hw | ⟨m', _, hmono, _, hw⟩ <;> rw [hw]
    · exact h
    · show dget (upd w.mem m m' p).dedup k = some v
      by_cases hp : p = m
      · rw [hp, upd_same]; rw [hp] at h; exact hmono _ _ h
      · rw [upd_other _ _ _ _ hp]; exact h
  | msg m q id P sigs => simp only [step]; split <;> exact h
  | foreign a hin => exact h

theorem run_dedup_mono (w : World Digest) (evs : List (Ev Sig)) (p : Peer) (k : Peer × Bytes) (v : Digest)
    (h : dget (w.mem p).dedup k = some v) : dget ((run C E cfg w evs).mem p).dedup k = some v := by
  induction evs generalizing w with
  | nil => exact h
  | cons e es ih => exact ih _ (step_dedup_mono C E cfg w e p k v h)

/-- a signature answer of `step` for a request means the entry is in the table afterwards; an `ok`
answer on a table that already holds an entry means the entry is this very hash. -/
theorem step_sigReq_ok (w : World Digest) (h q : Peer) (id : Bytes) (P : Payload) (s : Sig)
    (hok : (step C E cfg w (.sigReq h q id P)).2 = .sig (.ok s)) :
    dget ((step C E cfg w (.sigReq h q id P)).1.mem h).dedup (q, id)
        = some (C.hash (encode (hinOf cfg.session id P))) ∧
    ∀ d, dget (w.mem h).dedup (q, id) = some d → d = C.hash (encode (hinOf cfg.session id P)) := by
  simp only [step] at hok ⊢
  rcases onSigRequest_cases C E cfg h (w.mem h) q id P with ⟨r, hr, hne⟩ | ⟨hd, hr⟩ | ⟨hn, hr⟩
  · rw [hr] at hok
    cases r with
    | ok s' => exact absurd rfl (hne s')
    | unknownId => simp at hok
    | checkFail => simp at hok
    | dup => simp at hok
  · rw [hr]
    refine ⟨by simp [upd_same, hd], ?_⟩
    intro d hd'; rw [hd] at hd'; exact (Option.some.inj hd').symm
  · rw [hr]
    refine ⟨by simp [upd_same, dget_cons], ?_⟩
    intro d hd'; rw [hn] at hd'; cases hd'


/-! ## The driver's composite `broadcast` is a run of primitive events -/

theorem run_append (w : World Digest) (xs ys : List (Ev Sig)) :
    run C E cfg w (xs ++ ys) = run C E cfg (run C E cfg w xs) ys := by
  induction xs generalizing w with
  | nil => rfl
  | cons e es ih => exact ih _

theorem collect_run (a : Peer) (id : Bytes) (P : Payload) (ov : Peer → Option (Option Sig)) (self : Sig) :
    ∀ (hs : List Peer) (w : World Digest), ∃ evs : List (Ev Sig),
      (collect C E cfg a id P ov self hs w).1 = run C E cfg w evs ∧
      ∀ e ∈ evs, ∃ h, e = .sigReq h a id P
  | [], w => ⟨[], rfl, by simp⟩
  | h :: hs, w => by
    unfold collect
    split
    · obtain ⟨evs, he, hall⟩ := collect_run a id P ov self hs w
      exact ⟨evs, he, hall⟩
    · split
      · obtain ⟨evs, he, hall⟩ := collect_run a id P ov self hs w
        exact ⟨evs, he, hall⟩
      · obtain ⟨evs, he, hall⟩ := collect_run a id P ov self hs (step C E cfg w (.sigReq h a id P)).1
        refine ⟨.sigReq h a id P :: evs, he, ?_⟩
        intro e hm
        simp only [List.mem_cons] at hm
        rcases hm with rfl | hm
        · exact ⟨h, rfl⟩
        · exact hall e hm

theorem sendAll_run (a : Peer) (id : Bytes) (P : Payload) (ov : Peer → Option (Option Sig)) (sigs : List Sig) :
    ∀ (hs : List Peer) (w : World Digest), ∃ evs : List (Ev Sig),
      (sendAll C E cfg a id P ov sigs hs w).1 = run C E cfg w evs ∧
      ∀ e ∈ evs, ∃ h, e = .msg h a id P sigs
  | [], w => ⟨[], rfl, by simp⟩
  | h :: hs, w => by
    unfold sendAll
    split
    · exact sendAll_run a id P ov sigs hs w
    · split
      · obtain ⟨evs, he, hall⟩ := sendAll_run a id P ov sigs hs w
        exact ⟨evs, he, hall⟩
      · obtain ⟨evs, he, hall⟩ := sendAll_run a id P ov sigs hs (step C E cfg w (.msg h a id P sigs)).1
        refine ⟨.msg h a id P sigs :: evs, he, ?_⟩
        intro e hm
        simp only [List.mem_cons] at hm
        rcases hm with rfl | hm
        · exact ⟨h, rfl⟩
        · exact hall e hm

/-- `client.Broadcast` (the composite used by the driver) is a run of primitive events: one
`cstart`, then `sigReq`s of requester `a`, then `msg`s of sender `a`. -/
theorem broadcast_run (w : World Digest) (a : Peer) (id : Bytes) (P : Payload)
    (ov : Peer → Option (Option Sig)) :
    ∃ evs : List (Ev Sig), (broadcast C E cfg w a id P ov).1 = run C E cfg w (.cstart a id P :: evs) ∧
      ∀ e ∈ evs, (∃ h, e = .sigReq h a id P) ∨ (∃ h sigs, e = .msg h a id P sigs) := by
  unfold broadcast
  split
  · rename_i w1 self hst
    obtain ⟨e1, h1, a1⟩ := collect_run C E cfg a id P ov self cfg.peers w1
    simp only
    split
    · split
      · obtain ⟨e2, h2, a2⟩ := sendAll_run C E cfg a id P ov
          ((collect C E cfg a id P ov self cfg.peers w1).2.2.filterMap fun x => x) cfg.peers
          (collect C E cfg a id P ov self cfg.peers w1).1
        refine ⟨e1 ++ e2, ?_, ?_⟩
        · simp only [run, hst, run_append]; rw [← h1]; exact h2
        · intro e hm
          rcases List.mem_append.mp hm with hm | hm
          · exact .inl (a1 e hm)
          · obtain ⟨h, rfl⟩ := a2 e hm; exact .inr ⟨h, _, rfl⟩
      · exact ⟨e1, by simp only [run, hst]; exact h1, fun e hm => .inl (a1 e hm)⟩
    · exact ⟨e1, by simp only [run, hst]; exact h1, fun e hm => .inl (a1 e hm)⟩
  · rename_i w1 o hne hst
    obtain ⟨e1, h1, a1⟩ := collect_run C E cfg a id P ov (C.sign a (C.hash [])) (cfg.peers.takeWhile (· != a)) w1
    exact ⟨e1, by simp only [run, hst]; exact h1, fun e hm => .inl (a1 e hm)⟩

/-! ## Concrete scenarios (symbolic crypto `symC`) used by witnesses and non-vacuity examples -/

namespace Witness

def B (l : List Nat) : Bytes := (Bytes.ofList? l).getD Bytes.empty

def sess : Bytes := B [7, 7]
def mid : Bytes := B [1]
/-- payloads whose first value byte names the peer they are bound to -/
def pay (owner tag : Nat) : Payload := ⟨B [116], B [owner, tag]⟩
/-- callbacks in the style of frost / nodesigs: the payload must name its transport sender -/
def envBind : Env := ⟨fun _ _ _ => true, fun _ => true, fun _ P q => P.value.data.head? == some q⟩
/-- callbacks in the style of the pedersen board (`handleNodePubKeyMessage`): any sender accepted -/
def envAny : Env := ⟨fun _ _ _ => true, fun _ => true, fun _ _ _ => true⟩

def cfg4 : Cfg := ⟨[0, 1, 2, 3], sess⟩

def sigsFor (P : Payload) : List SymSig :=
  cfg4.peers.map fun k => .good k (encode (hinOf cfg4.session mid P))

/-- honest run: member 0 broadcasts, everybody signs, 1..3 deliver. -/
def evsHonest : List (Ev SymSig) :=
  [.reg 0 mid, .reg 1 mid, .reg 2 mid, .reg 3 mid,
   .cstart 0 mid (pay 0 1),
   .sigReq 1 0 mid (pay 0 1), .sigReq 2 0 mid (pay 0 1), .sigReq 3 0 mid (pay 0 1),
   .msg 1 0 mid (pay 0 1) (sigsFor (pay 0 1)), .msg 2 0 mid (pay 0 1) (sigsFor (pay 0 1)),
   .msg 3 0 mid (pay 0 1) (sigsFor (pay 0 1))]

/-- two colluding dishonest members 2 and 3; callbacks bind payloads to the sender. -/
def honest2 : Peer → Bool := fun p => p < 2
def evsCollude : List (Ev SymSig) :=
  [.reg 0 mid, .reg 1 mid,
   .sigReq 0 2 mid (pay 2 1), .sigReq 1 2 mid (pay 2 1),   -- 2 asks for its payload #1
   .sigReq 0 3 mid (pay 2 2), .sigReq 1 3 mid (pay 2 2),   -- 3 lends its (3, id) slot to payload #2
   .msg 0 2 mid (pay 2 1) (sigsFor (pay 2 1)),               -- 2 sends #1 to member 0
   .msg 1 2 mid (pay 2 2) (sigsFor (pay 2 2))]               -- 2 sends #2 to member 1

/-- one dishonest member 3, callbacks accept any sender: 3 relays member 0's signed message. -/
def honest3 : Peer → Bool := fun p => p < 3
def evsRelay : List (Ev SymSig) :=
  [.reg 0 mid, .reg 1 mid, .reg 2 mid,
   .cstart 0 mid (pay 0 1),                                  -- honest 0 broadcasts
   .sigReq 1 0 mid (pay 0 1), .sigReq 2 0 mid (pay 0 1),
   .msg 1 0 mid (pay 0 1) (sigsFor (pay 0 1)), .msg 2 0 mid (pay 0 1) (sigsFor (pay 0 1)),
   .sigReq 0 3 mid (pay 3 9), .sigReq 1 3 mid (pay 3 9), .sigReq 2 3 mid (pay 3 9),
   .msg 1 3 mid (pay 3 9) (sigsFor (pay 3 9)),               -- 3 sends its own payload to 1
   .msg 2 3 mid (pay 0 1) (sigsFor (pay 0 1))]               -- 3 relays 0's message to 2 as its own

end Witness

end CharonV.Bcast
