import CharonV.Model.ForkJoin

/-
Helper lemmas for Props/C19ForkJoin.lean: the invariant `Inv` of the fork-join model (wait-group accounting,
the multiset equations between the ghost logs, what the flags imply), its preservation by every event, the
progress measure, existence of enabled events, delivery order, Fork budget, WithWaitOnCancel, Flatten.
-/
namespace CharonV.ForkJoin

theorem perm_eraseIdx {α} : ∀ (l : List α) (k : Nat) (r : α), l[k]? = some r → List.Perm l (r :: l.eraseIdx k)
  | [], k, r, h => by simp at h
  | x :: xs, 0, r, h => by simp at h; subst h; simp
  | x :: xs, k+1, r, h => by
    simp at h
    have := perm_eraseIdx xs k r h
    simp [List.eraseIdx]
    exact (List.Perm.cons x this).trans (List.Perm.swap r x _)

theorem runningOf_set_running : ∀ (ws : List WSt) (w i : Nat), ws[w]? = some .idle →
    List.Perm (runningOf (ws.set w (.running i))) (i :: runningOf ws)
  | [], w, i, h => by simp at h
  | x :: xs, 0, i, h => by simp at h; subst h; simp [runningOf]
  | x :: xs, w+1, i, h => by
    simp at h
    have := runningOf_set_running xs w i h
    cases x with
    | idle => simpa [runningOf] using this
    | running j => simp [runningOf]; exact (List.Perm.cons j this).trans (List.Perm.swap i j _)

theorem runningOf_set_idle : ∀ (ws : List WSt) (w i : Nat), ws[w]? = some (.running i) →
    List.Perm (runningOf ws) (i :: runningOf (ws.set w .idle))
  | [], w, i, h => by simp at h
  | x :: xs, 0, i, h => by simp at h; subst h; simp [runningOf]
  | x :: xs, w+1, i, h => by
    simp at h
    have := runningOf_set_idle xs w i h
    cases x with
    | idle => simpa [runningOf] using this
    | running j => simp [runningOf]; exact (List.Perm.cons j this).trans (List.Perm.swap i j _)

structure Inv (cfg : Cfg) (st : St) : Prop where
  ws_len : st.ws.length = cfg.workers
  wg_eq : st.wg = st.queue.length + blockedN st + (runningOf st.ws).length + st.senders.length
  closed_imp : st.closed = true → st.joined = true ∧ st.wg = 0
  joined_unblocked : st.joined = true → st.blocked = none
  forked_cnt : ∀ x, st.forked.count x = st.queue.count x + (runningOf st.ws).count x + (st.completed.map (·.input)).count x
  completed_cnt : ∀ r, st.completed.count r = st.received.count r + st.senders.count r + st.dropped.count r
  no_bug : st.bug = false
  dropped_nil : st.dropClosed = false → st.dropped = []
  src_work : st.ctxErr = .nil → ∀ r ∈ st.completed, r.src = .work
  skip_shape : ∀ r ∈ st.completed, r.src ≠ .work → r.out = 0 ∧ r.err = st.ctxErr ∧ r.err ≠ .nil
  drop_ctx : st.dropClosed = true → st.ctxErr ≠ .nil
  root_ctx : st.rootErr ≠ .nil → st.ctxErr ≠ .nil
  wait_imp : st.cancelWaiting = true → st.dropClosed = true ∧ st.closed = false ∧ cfg.waitOnCancel = true
  ff_err : cfg.failFast = true → (∃ r ∈ st.completed, r.src = .work ∧ r.err ≠ .nil) → st.ctxErr ≠ .nil
  noff_ctx : cfg.failFast = false → st.dropClosed = false → st.rootErr = .nil → st.ctxErr = .nil
  ctx_kind : st.ctxErr = .nil ∨ st.ctxErr = .canc ∨ st.ctxErr = st.rootErr
  root_kind : st.rootErr ≠ .fail


theorem count_eraseIdx {α} [DecidableEq α] (l : List α) (k : Nat) (r : α) (h : l[k]? = some r) (x : α) :
    l.count x = (l.eraseIdx k).count x + (if r = x then 1 else 0) := by
  rw [(perm_eraseIdx l k r h).count_eq x, List.count_cons]; simp

theorem length_eraseIdx' {α} (l : List α) (k : Nat) (r : α) (h : l[k]? = some r) :
    l.length = (l.eraseIdx k).length + 1 := by
  rw [(perm_eraseIdx l k r h).length_eq]; simp



macro "inv_frame" h:ident : tactic => `(tactic|
  (constructor <;> dsimp only [enqueue, blockedN] <;>
   try (first | exact ($h).ws_len | exact ($h).wg_eq | exact ($h).closed_imp | exact ($h).joined_unblocked
              | exact ($h).forked_cnt | exact ($h).completed_cnt | exact ($h).no_bug | exact ($h).dropped_nil
              | exact ($h).src_work | exact ($h).skip_shape | exact ($h).drop_ctx | exact ($h).root_ctx
              | exact ($h).wait_imp | exact ($h).ff_err | exact ($h).noff_ctx | exact ($h).ctx_kind
              | exact ($h).root_kind)))


theorem inv_fork {cfg st i p} (h : Inv cfg st) : Inv cfg (step cfg st (.fork i p)).1 := by
  simp only [step]
  split
  · exact h
  · rename_i hb
    split
    · split <;> exact h
    · rename_i hj
      have hwg := h.wg_eq
      have hci := h.closed_imp
      split
      · split
        · exact h
        · inv_frame h
          · simp [blockedN] at hwg ⊢; omega
          · intro hc; simp [(hci hc).1] at hj
          · intro x; have := h.forked_cnt x; simp [List.count_append] at this ⊢; omega
      · inv_frame h
        · simp [blockedN, hb] at hwg ⊢; omega
        · intro hc; simp [(hci hc).1] at hj
        · intro hc; simp [hc] at hj

theorem inv_forkAbort {cfg st} (h : Inv cfg st) : Inv cfg (step cfg st .forkAbort).1 := by
  simp only [step]
  split
  · rename_i j hb
    split
    · have hwg := h.wg_eq
      inv_frame h
      · simp [blockedN, hb] at hwg ⊢; omega
      · intro hc; have := h.closed_imp hc; have := h.joined_unblocked this.1; simp [hb] at this
      · simp
    · exact h
  · exact h

theorem inv_received1 {cfg st w i} (s0 : St) (hw : st.ws[w]? = some .idle)
    (hws : st.ws.length = cfg.workers)
    (hwg : st.wg = st.queue.length + blockedN st + (runningOf st.ws).length + st.senders.length + 1)
    (hclosed : st.closed = false)
    (hju : st.joined = true → st.blocked = none)
    (hf : ∀ x, st.forked.count x = st.queue.count x + (runningOf st.ws).count x + (st.completed.map (·.input)).count x + (if i = x then 1 else 0))
    (h : Inv cfg s0)
    (e1 : st.senders = s0.senders) (e2 : st.completed = s0.completed) (e3 : st.received = s0.received)
    (e4 : st.dropped = s0.dropped) (e5 : st.bug = s0.bug) (e6 : st.dropClosed = s0.dropClosed) (e7 : st.ctxErr = s0.ctxErr)
    (e8 : st.rootErr = s0.rootErr) (e9 : st.cancelWaiting = s0.cancelWaiting) (e10 : st.closed = s0.closed) :
    Inv cfg (received1 st w i) := by
  simp only [received1]
  split
  · rename_i hctx
    constructor <;> dsimp only [enqueue, blockedN]
    · exact hws
    · simp [blockedN] at hwg ⊢; omega
    · simp [hclosed]
    · exact hju
    · intro x; have := hf x; simp [List.count_append, List.count_cons] at this ⊢; split at this <;> simp_all <;> omega
    · intro r; have := h.completed_cnt r; simp [List.count_append, e1, e2, e3, e4] at this ⊢; omega
    · rw [e5]; exact h.no_bug
    · rw [e6, e4]; exact h.dropped_nil
    · intro hc; exact absurd hc hctx
    · intro r hr hs
      simp [e2] at hr
      rcases hr with hr | hr
      · have := h.skip_shape r hr hs; rw [e7]; exact this
      · subst hr; simp; exact hctx
    · intro _; exact hctx
    · intro _; exact hctx
    · rw [e9, e6, e10]; exact h.wait_imp
    · intro _ _; exact hctx
    · rw [e6, e8, e7]; exact h.noff_ctx
    · rw [e7, e8]; exact h.ctx_kind
    · rw [e8]; exact h.root_kind
  · rename_i hctx
    simp at hctx
    have p := runningOf_set_running st.ws w i hw
    constructor <;> dsimp only [enqueue, blockedN]
    · simp [hws]
    · simp [blockedN, p.length_eq] at hwg ⊢; omega
    · simp [hclosed]
    · exact hju
    · intro x; have := hf x; rw [p.count_eq x]; simp [List.count_cons] at this ⊢; split at this <;> simp_all <;> omega
    · rw [e1, e2, e3, e4]; exact h.completed_cnt
    · rw [e5]; exact h.no_bug
    · rw [e6, e4]; exact h.dropped_nil
    · rw [e7, e2]; exact h.src_work
    · rw [e7, e2]; exact h.skip_shape
    · rw [e6, e7]; exact h.drop_ctx
    · rw [e8, e7]; exact h.root_ctx
    · rw [e9, e6, e10]; exact h.wait_imp
    · rw [e2, e7]; exact h.ff_err
    · rw [e6, e8, e7]; exact h.noff_ctx
    · rw [e7, e8]; exact h.ctx_kind
    · rw [e8]; exact h.root_kind


theorem closed_false_of_wg {cfg st} (h : Inv cfg st) (hpos : 0 < st.wg) : st.closed = false := by
  cases hc : st.closed with
  | false => rfl
  | true => have := (h.closed_imp hc).2; omega

theorem inv_take {cfg st w} (h : Inv cfg st) : Inv cfg (step cfg st (.take w)).1 := by
  simp only [step]
  split
  · rename_i hw
    have hwg := h.wg_eq
    split
    · rename_i i rest hq
      have hcl : st.closed = false := closed_false_of_wg h (by rw [hwg, hq]; simp; omega)
      split
      · rename_i j hb
        refine inv_received1 (s0 := st) (h := h) (hw := hw) (hws := h.ws_len) (hclosed := hcl) (e1 := rfl) (e2 := rfl) (e3 := rfl) (e4 := rfl) (e5 := rfl) (e6 := rfl) (e7 := rfl) (e8 := rfl) (e9 := rfl) (e10 := rfl) (hwg := ?_) (hju := ?_) (hf := ?_)
        · simp [blockedN, hb, hq] at hwg ⊢; omega
        · simp
        · intro x; have := h.forked_cnt x; simp [hq, List.count_append, List.count_cons] at this ⊢
          split <;> split <;> simp_all <;> omega
      · rename_i hb
        refine inv_received1 (s0 := st) (h := h) (hw := hw) (hws := h.ws_len) (hclosed := hcl) (e1 := rfl) (e2 := rfl) (e3 := rfl) (e4 := rfl) (e5 := rfl) (e6 := rfl) (e7 := rfl) (e8 := rfl) (e9 := rfl) (e10 := rfl) (hwg := ?_) (hju := ?_) (hf := ?_)
        · simp [blockedN, hb, hq] at hwg ⊢; omega
        · exact h.joined_unblocked
        · intro x; have := h.forked_cnt x; simp [hq, List.count_cons] at this ⊢
          split <;> simp_all <;> omega
    · rename_i hq
      split
      · rename_i j hb
        have hcl : st.closed = false := closed_false_of_wg h (by rw [hwg]; simp [blockedN, hb]; omega)
        refine inv_received1 (s0 := st) (h := h) (hw := hw) (hws := h.ws_len) (hclosed := hcl) (e1 := rfl) (e2 := rfl) (e3 := rfl) (e4 := rfl) (e5 := rfl) (e6 := rfl) (e7 := rfl) (e8 := rfl) (e9 := rfl) (e10 := rfl) (hwg := ?_) (hju := ?_) (hf := ?_)
        · simp [blockedN, hb, hq] at hwg ⊢; omega
        · simp
        · intro x; have := h.forked_cnt x; simp [hq, List.count_append, List.count_cons] at this ⊢
          omega
      · exact h
  · exact h

theorem inv_complete {cfg st w out err} (h : Inv cfg st) : Inv cfg (step cfg st (.complete w out err)).1 := by
  simp only [step]
  split
  · rename_i i hw
    have hwg := h.wg_eq
    have p := runningOf_set_idle st.ws w i hw
    have hcl : st.closed = false := closed_false_of_wg h (by rw [hwg, p.length_eq]; simp; omega)
    inv_frame h
    case ws_len => simp [h.ws_len]
    case wg_eq => simp [blockedN, p.length_eq] at hwg ⊢; omega
    case forked_cnt =>
      intro x; have := h.forked_cnt x; rw [p.count_eq x] at this
      simp [List.count_append, List.count_cons] at this ⊢; omega
    case completed_cnt => intro r; have := h.completed_cnt r; simp [List.count_append] at this ⊢; omega
    case src_work =>
      intro hc r hr
      simp at hr
      rcases hr with hr | hr
      · refine h.src_work ?_ r hr
        by_cases h0 : st.ctxErr = .nil
        · exact h0
        · simp [h0] at hc
      · subst hr; rfl
    case skip_shape =>
      intro r hr hs
      simp at hr
      rcases hr with hr | hr
      · have := h.skip_shape r hr hs
        have h0 : st.ctxErr ≠ .nil := by rw [← this.2.1]; exact this.2.2
        simp [h0]; exact this
      · subst hr; simp at hs
    case drop_ctx => intro hd; have := h.drop_ctx hd; simp [this]
    case root_ctx => intro hd; have := h.root_ctx hd; simp [this]
    case ff_err =>
      intro hff hex
      by_cases h0 : st.ctxErr = .nil
      · obtain ⟨r, hr, hs, he⟩ := hex
        simp at hr
        rcases hr with hr | hr
        · exact absurd h0 (h.ff_err hff ⟨r, hr, hs, he⟩)
        · subst hr; simp at he; simp [hff, he, h0]
      · simp [h0]
    case noff_ctx => intro hff hd hr; have := h.noff_ctx hff hd hr; simp [hff, this]
    case ctx_kind => have := h.ctx_kind; split <;> simp_all
  · exact h

theorem inv_abort {cfg st w} (h : Inv cfg st) : Inv cfg (step cfg st (.abort w)).1 := by
  simp only [step]
  split
  · rename_i i hw
    split
    · rename_i hc
      have hwg := h.wg_eq
      have p := runningOf_set_idle st.ws w i hw
      have hcl : st.closed = false := closed_false_of_wg h (by rw [hwg, p.length_eq]; simp; omega)
      inv_frame h
      case ws_len => simp [h.ws_len]
      case wg_eq => simp [blockedN, p.length_eq] at hwg ⊢; omega
      case forked_cnt =>
        intro x; have := h.forked_cnt x; rw [p.count_eq x] at this
        simp [List.count_append, List.count_cons] at this ⊢; omega
      case completed_cnt => intro r; have := h.completed_cnt r; simp [List.count_append] at this ⊢; omega
      case src_work => intro h0; exact absurd h0 hc.2
      case skip_shape =>
        intro r hr hs
        simp at hr
        rcases hr with hr | hr
        · exact h.skip_shape r hr hs
        · subst hr; simp; exact hc.2
      case ff_err => intro hff hex; exact hc.2
    · exact h
  · exact h

theorem inv_deliver {cfg st k} (h : Inv cfg st) : Inv cfg (step cfg st (.deliver k)).1 := by
  simp only [step]
  split
  · rename_i r hr
    have hwg := h.wg_eq
    have hl := length_eraseIdx' _ _ _ hr
    split
    · have := h.closed_imp ‹_›
      omega
    · rename_i hcl
      inv_frame h
      case wg_eq => simp [blockedN] at hwg ⊢; omega
      case closed_imp => intro hc; exact absurd hc hcl
      case completed_cnt =>
        intro x; have := h.completed_cnt x; have := count_eraseIdx _ _ _ hr x
        simp [List.count_append, List.count_cons] at *; split at this <;> simp_all <;> omega
  · exact h

theorem inv_drop {cfg st k} (h : Inv cfg st) : Inv cfg (step cfg st (.drop k)).1 := by
  simp only [step]
  split
  · rename_i r hr
    have hwg := h.wg_eq
    have hl := length_eraseIdx' _ _ _ hr
    split
    · rename_i hd
      have hcl : st.closed = false := closed_false_of_wg h (by omega)
      inv_frame h
      case wg_eq => simp [blockedN] at hwg ⊢; omega
      case closed_imp => intro hc; simp [hcl] at hc
      case completed_cnt =>
        intro x; have := h.completed_cnt x; have := count_eraseIdx _ _ _ hr x
        simp [List.count_append, List.count_cons] at *; split at this <;> simp_all <;> omega
      case dropped_nil => intro hc; simp [hd] at hc
    · exact h
  · exact h

theorem inv_join {cfg st} (h : Inv cfg st) : Inv cfg (step cfg st .join).1 := by
  simp only [step]
  split
  · exact h
  · rename_i hj
    have hwg := h.wg_eq
    have hcl : st.closed = false := by
      cases hc : st.closed with
      | false => rfl
      | true => exact absurd (h.closed_imp hc).1 hj
    split
    · rename_i j hb
      inv_frame h
      case wg_eq => simp [blockedN, hb] at hwg ⊢; omega
      case closed_imp => simp [hcl]
      case joined_unblocked => simp
    · rename_i hb
      inv_frame h
      case closed_imp => simp [hcl]
      case joined_unblocked => intro _; exact hb

theorem inv_close {cfg st} (h : Inv cfg st) : Inv cfg (step cfg st .close).1 := by
  simp only [step]
  split
  · rename_i hc
    have hwg := h.wg_eq
    inv_frame h
    case closed_imp => intro _; exact ⟨hc.1, hc.2.1⟩
    case no_bug =>
      have : st.senders = [] := by
        have : st.senders.length = 0 := by omega
        exact List.eq_nil_of_length_eq_zero this
      simp [h.no_bug, this]
    case wait_imp => simp
  · exact h

theorem inv_cancel {cfg st} (h : Inv cfg st) : Inv cfg (step cfg st .cancel).1 := by
  simp only [step]
  split
  · exact h
  · rename_i hd
    inv_frame h
    case dropped_nil => intro hc; simp at hc
    case src_work => intro hc; split at hc <;> simp_all
    case skip_shape =>
      intro r hr hs
      have := h.skip_shape r hr hs
      have h0 : st.ctxErr ≠ .nil := by rw [← this.2.1]; exact this.2.2
      simp [h0]; exact this
    case drop_ctx => intro _; split <;> simp_all
    case root_ctx => intro _; split <;> simp_all
    case wait_imp => intro hw; simp at hw; simp [hw]
    case ff_err => intro _ _; split <;> simp_all
    case noff_ctx => intro _ hc; simp at hc
    case ctx_kind => have := h.ctx_kind; split <;> simp_all

theorem inv_rootCancel {cfg st dl} (h : Inv cfg st) : Inv cfg (step cfg st (.rootCancel dl)).1 := by
  simp only [step]
  split
  · exact h
  · rename_i hd
    inv_frame h
    case src_work => intro hc; split at hc <;> simp_all <;> (cases dl <;> simp at hc)
    case skip_shape =>
      intro r hr hs
      have := h.skip_shape r hr hs
      have h0 : st.ctxErr ≠ .nil := by rw [← this.2.1]; exact this.2.2
      simp [h0]; exact this
    case drop_ctx => intro hx; have := h.drop_ctx hx; simp [this]
    case root_ctx => intro _; split <;> simp_all <;> (cases dl <;> simp)
    case ff_err => intro a b; have := h.ff_err a b; simp [this]
    case noff_ctx => intro _ _ hc; cases dl <;> simp at hc
    case ctx_kind =>
      have := h.ctx_kind
      simp at hd
      split
      · simp
      · rename_i h0; rw [hd] at this; simp [h0] at this; simp [this]
    case root_kind => cases dl <;> simp

theorem inv_step {cfg st} (e : Ev) (h : Inv cfg st) : Inv cfg (step cfg st e).1 := by
  cases e with
  | fork i p => exact inv_fork h
  | forkAbort => exact inv_forkAbort h
  | take w => exact inv_take h
  | complete w o e => exact inv_complete h
  | abort w => exact inv_abort h
  | deliver k => exact inv_deliver h
  | drop k => exact inv_drop h
  | join => exact inv_join h
  | close => exact inv_close h
  | cancel => exact inv_cancel h
  | rootCancel dl => exact inv_rootCancel h

theorem runningOf_replicate (n : Nat) : runningOf (List.replicate n WSt.idle) = [] := by
  induction n with
  | zero => rfl
  | succ n ih => simp [List.replicate_succ, runningOf, ih]

theorem inv_init (cfg : Cfg) : Inv cfg (init cfg) := by
  constructor <;> simp [init, blockedN, runningOf_replicate]

theorem inv_run {cfg st} (evs : List Ev) (h : Inv cfg st) : Inv cfg (run cfg st evs) := by
  induction evs generalizing st with
  | nil => exact h
  | cons e es ih => exact ih (inv_step e h)


/-! ### runs -/

theorem run_nil (cfg : Cfg) (st : St) : run cfg st [] = st := rfl
theorem run_cons (cfg : Cfg) (st : St) (e : Ev) (es : List Ev) : run cfg st (e :: es) = run cfg (step cfg st e).1 es := rfl
theorem run_append (cfg : Cfg) (st : St) (a b : List Ev) : run cfg st (a ++ b) = run cfg (run cfg st a) b := by
  simp [run, List.foldl_append]

theorem inv_reach (cfg : Cfg) (evs : List Ev) : Inv cfg (run cfg (init cfg) evs) := inv_run evs (inv_init cfg)

/-! ### workers -/

theorem running_mem : ∀ (ws : List WSt) (i : Nat), i ∈ runningOf ws → ∃ w : Nat, ws[w]? = some (WSt.running i)
  | [], i, h => by simp [runningOf] at h
  | .idle :: ws, i, h => by
    obtain ⟨w, hw⟩ := running_mem ws i (by simpa [runningOf] using h)
    exact ⟨w + 1, by simpa using hw⟩
  | .running j :: ws, i, h => by
    simp [runningOf] at h
    rcases h with h | h
    · exact ⟨0, by simp [h]⟩
    · obtain ⟨w, hw⟩ := running_mem ws i h
      exact ⟨w + 1, by simpa using hw⟩

theorem mem_running : ∀ (ws : List WSt) (w i : Nat), ws[w]? = some (WSt.running i) → i ∈ runningOf ws
  | [], w, i, h => by simp at h
  | x :: ws, 0, i, h => by simp at h; subst h; simp [runningOf]
  | x :: ws, w + 1, i, h => by
    have := mem_running ws w i (by simpa using h)
    cases x <;> simp [runningOf, this]

theorem all_idle : ∀ (ws : List WSt), runningOf ws = [] → ∀ w : Nat, w < ws.length → ws[w]? = some WSt.idle
  | [], _, w, h => by simp at h
  | .idle :: ws, h, 0, _ => by simp
  | .idle :: ws, h, w + 1, hl => by
    have := all_idle ws (by simpa [runningOf] using h) w (by simpa using hl)
    simpa using this
  | .running j :: ws, h, _, _ => by simp [runningOf] at h

/-! ### monotone flags -/

theorem joined_mono {cfg st} (e : Ev) (h : st.joined = true) : (step cfg st e).1.joined = true := by
  cases e <;> simp only [step] <;> (repeat' split) <;> simp_all [received1, enqueue] <;> (repeat' split) <;> simp_all

theorem dropClosed_mono {cfg st} (e : Ev) (h : st.dropClosed = true) : (step cfg st e).1.dropClosed = true := by
  cases e <;> simp only [step] <;> (repeat' split) <;> simp_all [received1, enqueue] <;> (repeat' split) <;> simp_all

theorem closed_mono {cfg st} (e : Ev) (h : st.closed = true) : (step cfg st e).1.closed = true := by
  cases e <;> simp only [step] <;> (repeat' split) <;> simp_all [received1, enqueue] <;> (repeat' split) <;> simp_all

theorem ctxErr_sticky {cfg st} (e : Ev) (h : st.ctxErr ≠ .nil) : (step cfg st e).1.ctxErr = st.ctxErr := by
  cases e <;> simp only [step] <;> (repeat' split) <;> simp_all [received1, enqueue] <;> (repeat' split) <;> simp_all

theorem joined_run {cfg st} (evs : List Ev) (h : st.joined = true) : (run cfg st evs).joined = true := by
  induction evs generalizing st with
  | nil => exact h
  | cons e es ih => exact ih (joined_mono e h)

theorem ctxErr_run {cfg st} (evs : List Ev) (h : st.ctxErr ≠ .nil) : (run cfg st evs).ctxErr = st.ctxErr := by
  induction evs generalizing st with
  | nil => rfl
  | cons e es ih => rw [run_cons, ih (by rw [ctxErr_sticky e h]; exact h), ctxErr_sticky e h]


/-! ### progress -/

theorem measure_received1 {st : St} {w i : Nat} (hw : st.ws[w]? = some WSt.idle) :
    measure (received1 st w i) ≤ measure st + 2 := by
  simp only [received1]
  split
  · cases hcl : st.closed <;> cases hbl : st.blocked <;> simp [measure, enqueue, blockedN, hcl, hbl] <;> omega
  · have p := runningOf_set_running st.ws w i hw
    cases hcl : st.closed <;> cases hbl : st.blocked <;> simp [measure, blockedN, p.length_eq, hcl, hbl] <;> omega

theorem progress_decreases {cfg : Cfg} {st : St} (e : Ev) (hp : isProgress e = true)
    (hok : (step cfg st e).2 = .ok) : measure (step cfg st e).1 < measure st := by
  cases e with
  | take w =>
    simp only [step] at hok ⊢
    split at hok
    · rename_i hw
      split at hok
      · rename_i i rest hq
        split
        · rename_i j hb
          refine Nat.lt_of_le_of_lt (measure_received1 (by exact hw)) ?_
          cases hcl : st.closed <;> simp [measure, blockedN, hb, hq, hcl] <;> omega
        · rename_i hb
          refine Nat.lt_of_le_of_lt (measure_received1 (by exact hw)) ?_
          cases hcl : st.closed <;> simp [measure, blockedN, hb, hq, hcl] <;> omega
      · rename_i hq
        split at hok
        · rename_i j hb
          refine Nat.lt_of_le_of_lt (measure_received1 (by exact hw)) ?_
          cases hcl : st.closed <;> simp [measure, blockedN, hb, hq, hcl] <;> omega
        · simp at hok
    · simp at hok
  | complete w o er =>
    simp only [step] at hok ⊢
    split at hok
    · rename_i i hw
      have p := runningOf_set_idle st.ws w i hw
      cases hcl : st.closed <;> cases hbl : st.blocked <;> simp [measure, enqueue, blockedN, p.length_eq, hcl, hbl] <;> omega
    · simp at hok
  | abort w =>
    simp only [step] at hok ⊢
    split at hok
    · rename_i i hw
      split at hok
      · rename_i hc
        rw [if_pos hc]
        have p := runningOf_set_idle st.ws w i hw
        cases hcl : st.closed <;> cases hbl : st.blocked <;> simp [measure, enqueue, blockedN, p.length_eq, hcl, hbl] <;> omega
      · simp at hok
    · simp at hok
  | deliver k =>
    simp only [step] at hok ⊢
    split at hok
    · rename_i r hr
      have hl := length_eraseIdx' _ _ _ hr
      split at hok
      · simp at hok
      · rename_i hc
        rw [if_neg hc]
        cases hbl : st.blocked <;> simp [measure, blockedN, hc, hbl] at hl ⊢ <;> omega
    · simp at hok
  | drop k =>
    simp only [step] at hok ⊢
    split at hok
    · rename_i r hr
      have hl := length_eraseIdx' _ _ _ hr
      split at hok
      · rename_i hd
        rw [if_pos hd]
        cases hcl : st.closed <;> cases hbl : st.blocked <;> simp [measure, blockedN, hcl, hbl] at hl ⊢ <;> omega
      · simp at hok
    · simp at hok
  | close =>
    simp only [step] at hok ⊢
    split at hok
    · rename_i hc
      rw [if_pos hc]
      cases hbl : st.blocked <;> simp [measure, blockedN, hc.2.2, hbl]
    · simp at hok
  | fork _ _ => simp [isProgress] at hp
  | forkAbort => simp [isProgress] at hp
  | join => simp [isProgress] at hp
  | cancel => simp [isProgress] at hp
  | rootCancel _ => simp [isProgress] at hp

theorem measure_pos_of_open {st : St} (h : st.closed = false) : 0 < measure st := by
  simp [measure, h]

/-- joined, not closed, at least one worker: some progress event is enabled. -/
theorem exists_progress {cfg : Cfg} {st : St} (h : Inv cfg st) (hW : 1 ≤ cfg.workers)
    (hj : st.joined = true) (hc : st.closed = false) :
    ∃ e, isProgress e = true ∧ (step cfg st e).2 = .ok := by
  by_cases hs : st.senders = []
  · by_cases hr : runningOf st.ws = []
    · have hidle := all_idle st.ws hr 0 (by rw [h.ws_len]; omega)
      cases hq : st.queue with
      | cons i rest => exact ⟨.take 0, rfl, by simp [step, hidle, hq]⟩
      | nil =>
        have hb := h.joined_unblocked hj
        have hwg := h.wg_eq
        simp [hq, hs, hr, blockedN, hb] at hwg
        exact ⟨.close, rfl, by simp [step, hj, hwg, hc]⟩
    · obtain ⟨i, hi⟩ := List.exists_mem_of_ne_nil _ hr
      obtain ⟨w, hw⟩ := running_mem _ _ hi
      exact ⟨.complete w 0 .nil, rfl, by simp [step, hw]⟩
  · obtain ⟨r, rest, hr⟩ := List.exists_cons_of_ne_nil hs
    exact ⟨.deliver 0, rfl, by simp [step, hr, hc]⟩

/-- the same without the consumer and without the environment: after `cancel()`, if every running work function
honours its context. -/
theorem exists_internal {cfg : Cfg} {st : St} (h : Inv cfg st) (hW : 1 ≤ cfg.workers)
    (hj : st.joined = true) (hc : st.closed = false) (hd : st.dropClosed = true)
    (hh : ∀ i ∈ runningOf st.ws, cfg.hon i = true) :
    ∃ e, isInternal e = true ∧ (step cfg st e).2 = .ok := by
  have hctx := h.drop_ctx hd
  by_cases hs : st.senders = []
  · by_cases hr : runningOf st.ws = []
    · have hidle := all_idle st.ws hr 0 (by rw [h.ws_len]; omega)
      cases hq : st.queue with
      | cons i rest => exact ⟨.take 0, rfl, by simp [step, hidle, hq]⟩
      | nil =>
        have hb := h.joined_unblocked hj
        have hwg := h.wg_eq
        simp [hq, hs, hr, blockedN, hb] at hwg
        exact ⟨.close, rfl, by simp [step, hj, hwg, hc]⟩
    · obtain ⟨i, hi⟩ := List.exists_mem_of_ne_nil _ hr
      obtain ⟨w, hw⟩ := running_mem _ _ hi
      exact ⟨.abort w, rfl, by simp [step, hw, hh i hi, hctx]⟩
  · obtain ⟨r, rest, hr⟩ := List.exists_cons_of_ne_nil hs
    exact ⟨.drop 0, rfl, by simp [step, hr, hd]⟩

theorem internal_is_progress {e : Ev} (h : isInternal e = true) : isProgress e = true := by
  cases e <;> simp_all [isInternal, isProgress]

/-- an internal step in a cancelled state starts no work function. -/
theorem internal_keeps_hon {cfg : Cfg} {st : St} (e : Ev) (hi : isInternal e = true) (hctx : st.ctxErr ≠ .nil)
    (hh : ∀ i ∈ runningOf st.ws, cfg.hon i = true) :
    ∀ i ∈ runningOf (step cfg st e).1.ws, cfg.hon i = true := by
  cases e with
  | take w =>
    simp only [step]
    (repeat' split) <;> simp_all [received1, enqueue]
  | abort w =>
    simp only [step]
    split
    · rename_i i hw
      split
      · have p := runningOf_set_idle st.ws w i hw
        intro j hj
        exact hh j (p.mem_iff.mpr (List.mem_cons_of_mem _ hj))
      · exact hh
    · exact hh
  | drop k => simp only [step]; (repeat' split) <;> simp_all
  | close => simp only [step]; (repeat' split) <;> simp_all
  | fork _ _ => simp [isInternal] at hi
  | forkAbort => simp [isInternal] at hi
  | complete _ _ _ => simp [isInternal] at hi
  | deliver _ => simp [isInternal] at hi
  | join => simp [isInternal] at hi
  | cancel => simp [isInternal] at hi
  | rootCancel _ => simp [isInternal] at hi

theorem reach_closed {cfg : Cfg} (hW : 1 ≤ cfg.workers) :
    ∀ (n : Nat) (st : St), Inv cfg st → st.joined = true → measure st ≤ n →
      ∃ evs : List Ev, (∀ e ∈ evs, isProgress e = true) ∧ evs.length ≤ n ∧ (run cfg st evs).closed = true := by
  intro n
  induction n with
  | zero =>
    intro st _ _ hm
    cases hc : st.closed with
    | true => exact ⟨[], by simp, by simp, hc⟩
    | false => have := measure_pos_of_open hc; omega
  | succ n ih =>
    intro st h hj hm
    cases hc : st.closed with
    | true => exact ⟨[], by simp, by simp, hc⟩
    | false =>
      obtain ⟨e, hp, hok⟩ := exists_progress h hW hj hc
      have hlt := progress_decreases e hp hok
      obtain ⟨evs, h1, h2, h3⟩ := ih (step cfg st e).1 (inv_step e h) (joined_mono e hj) (by omega)
      refine ⟨e :: evs, ?_, by simp; omega, by rw [run_cons]; exact h3⟩
      intro x hx
      simp at hx
      rcases hx with hx | hx
      · subst hx; exact hp
      · exact h1 x hx

theorem reach_closed_internal {cfg : Cfg} (hW : 1 ≤ cfg.workers) :
    ∀ (n : Nat) (st : St), Inv cfg st → st.joined = true → st.dropClosed = true →
      (∀ i ∈ runningOf st.ws, cfg.hon i = true) → measure st ≤ n →
      ∃ evs : List Ev, (∀ e ∈ evs, isInternal e = true) ∧ evs.length ≤ n ∧ (run cfg st evs).closed = true := by
  intro n
  induction n with
  | zero =>
    intro st _ _ _ _ hm
    cases hc : st.closed with
    | true => exact ⟨[], by simp, by simp, hc⟩
    | false => have := measure_pos_of_open hc; omega
  | succ n ih =>
    intro st h hj hd hh hm
    cases hc : st.closed with
    | true => exact ⟨[], by simp, by simp, hc⟩
    | false =>
      obtain ⟨e, hp, hok⟩ := exists_internal h hW hj hc hd hh
      have hlt := progress_decreases e (internal_is_progress hp) hok
      obtain ⟨evs, h1, h2, h3⟩ := ih (step cfg st e).1 (inv_step e h) (joined_mono e hj) (dropClosed_mono e hd)
        (internal_keeps_hon e hp (h.drop_ctx hd) hh) (by omega)
      refine ⟨e :: evs, ?_, by simp; omega, by rw [run_cons]; exact h3⟩
      intro x hx
      simp at hx
      rcases hx with hx | hx
      · subst hx; exact hp
      · exact h1 x hx


/-! ### multiset facts as permutations -/

theorem forked_perm {cfg : Cfg} {st : St} (h : Inv cfg st) :
    List.Perm st.forked (st.queue ++ runningOf st.ws ++ st.completed.map (·.input)) := by
  rw [List.perm_iff_count]; intro x; rw [h.forked_cnt x]; simp [List.count_append]; omega

theorem completed_perm {cfg : Cfg} {st : St} (h : Inv cfg st) :
    List.Perm st.completed (st.received ++ st.senders ++ st.dropped) := by
  rw [List.perm_iff_count]; intro x; rw [h.completed_cnt x]; simp [List.count_append]; omega

/-- the wait group is zero: nothing is queued, blocked, running or waiting to be sent. -/
theorem quiet_of_wg_zero {cfg : Cfg} {st : St} (h : Inv cfg st) (hz : st.wg = 0) :
    st.queue = [] ∧ st.blocked = none ∧ runningOf st.ws = [] ∧ st.senders = [] := by
  have hwg := h.wg_eq
  rw [hz] at hwg
  have h1 : st.queue.length = 0 := by omega
  have h2 : (runningOf st.ws).length = 0 := by omega
  have h3 : st.senders.length = 0 := by omega
  have h4 : blockedN st = 0 := by omega
  refine ⟨List.eq_nil_of_length_eq_zero h1, ?_, List.eq_nil_of_length_eq_zero h2, List.eq_nil_of_length_eq_zero h3⟩
  cases hb : st.blocked with
  | none => rfl
  | some j => simp [blockedN, hb] at h4

theorem quiet_of_closed {cfg : Cfg} {st : St} (h : Inv cfg st) (hc : st.closed = true) :
    st.queue = [] ∧ st.blocked = none ∧ runningOf st.ws = [] ∧ st.senders = [] :=
  quiet_of_wg_zero h (h.closed_imp hc).2

/-! ### delivery order -/

/-- the channel hands results over oldest sender first, nothing is dropped. -/
def isFifoEv : Ev → Bool
  | .deliver k => k == 0
  | .drop _ => false
  | _ => true

theorem fifo_step {cfg : Cfg} {st : St} (e : Ev) (hf : isFifoEv e = true)
    (h : st.received ++ st.senders = st.completed) :
    (step cfg st e).1.received ++ (step cfg st e).1.senders = (step cfg st e).1.completed := by
  cases e with
  | deliver k =>
    simp [isFifoEv] at hf; subst hf
    simp only [step]
    split
    · rename_i r hr
      split
      · exact h
      · cases hs : st.senders with
        | nil => simp [hs] at hr
        | cons x xs => simp [hs] at hr h ⊢; subst hr; exact h
    · exact h
  | drop k => simp [isFifoEv] at hf
  | take w =>
    simp only [step]
    (repeat' split) <;> simp_all [received1, enqueue] <;> (repeat' split) <;> simp_all [← List.append_assoc]
  | complete w o er => simp only [step]; split <;> simp_all [enqueue, ← List.append_assoc]
  | abort w => simp only [step]; (repeat' split) <;> simp_all [enqueue, ← List.append_assoc]
  | fork i p => simp only [step]; (repeat' split) <;> simp_all
  | forkAbort => simp only [step]; (repeat' split) <;> simp_all
  | join => simp only [step]; (repeat' split) <;> simp_all
  | close => simp only [step]; (repeat' split) <;> simp_all
  | cancel => simp only [step]; (repeat' split) <;> simp_all
  | rootCancel dl => simp only [step]; (repeat' split) <;> simp_all

theorem fifo_run {cfg : Cfg} {st : St} (evs : List Ev) (hf : evs.all isFifoEv = true)
    (h : st.received ++ st.senders = st.completed) :
    (run cfg st evs).received ++ (run cfg st evs).senders = (run cfg st evs).completed := by
  induction evs generalizing st with
  | nil => exact h
  | cons e es ih =>
    simp at hf
    exact ih (by simpa using hf.2) (fifo_step e hf.1 h)

/-! ### idle workers -/

theorem exists_idle : ∀ (ws : List WSt), (runningOf ws).length < ws.length → ∃ w : Nat, ws[w]? = some WSt.idle
  | [], h => by simp at h
  | .idle :: ws, _ => ⟨0, by simp⟩
  | .running j :: ws, h => by
    obtain ⟨w, hw⟩ := exists_idle ws (by simpa [runningOf] using h)
    exact ⟨w + 1, by simpa using hw⟩

theorem take_enabled {cfg : Cfg} {st : St} {w : Nat} (hw : st.ws[w]? = some WSt.idle)
    (hq : st.queue ≠ [] ∨ st.blocked.isSome = true) : (step cfg st (.take w)).2 = .ok := by
  simp only [step, hw]
  cases hqq : st.queue with
  | cons i rest => simp
  | nil =>
    cases hb : st.blocked with
    | some j => simp
    | none => simp [hqq, hb] at hq

/-! ### counting Fork calls -/

def isFork : Ev → Bool
  | .fork _ _ => true
  | _ => false

def forkCount (evs : List Ev) : Nat := evs.countP isFork

theorem fork_budget_step {cfg : Cfg} {st : St} (e : Ev) :
    (step cfg st e).1.forked.length + blockedN (step cfg st e).1 ≤
      st.forked.length + blockedN st + (if isFork e then 1 else 0) := by
  cases e with
  | fork i p =>
    simp only [step, isFork]
    (repeat' split) <;> simp_all [blockedN]
  | take w =>
    simp only [step, isFork]
    (repeat' split) <;> simp_all [received1, enqueue, blockedN] <;> (repeat' split) <;> simp_all
  | forkAbort => simp only [step, isFork]; (repeat' split) <;> simp_all [blockedN]
  | complete w o er => simp only [step, isFork]; (repeat' split) <;> simp [enqueue, blockedN] <;> (cases st.blocked <;> simp)
  | abort w => simp only [step, isFork]; (repeat' split) <;> simp [enqueue, blockedN] <;> (cases st.blocked <;> simp)
  | deliver k => simp only [step, isFork]; (repeat' split) <;> simp_all [blockedN]
  | drop k => simp only [step, isFork]; (repeat' split) <;> simp_all [blockedN]
  | join => simp only [step, isFork]; (repeat' split) <;> simp_all [blockedN]
  | close => simp only [step, isFork]; (repeat' split) <;> simp_all [blockedN]
  | cancel => simp only [step, isFork]; (repeat' split) <;> simp_all [blockedN]
  | rootCancel dl => simp only [step, isFork]; (repeat' split) <;> simp_all [blockedN]

theorem fork_budget_run {cfg : Cfg} {st : St} (evs : List Ev) :
    (run cfg st evs).forked.length + blockedN (run cfg st evs) ≤ st.forked.length + blockedN st + forkCount evs := by
  induction evs generalizing st with
  | nil => simp [run, forkCount]
  | cons e es ih =>
    have h1 := ih (st := (step cfg st e).1)
    have h2 := fork_budget_step (cfg := cfg) (st := st) e
    rw [run_cons]
    simp only [forkCount, List.countP_cons] at h1 ⊢
    split at h2 <;> simp_all <;> omega

/-! ### WithWaitOnCancel -/

theorem cancelWaiting_cleared_only_by_close {cfg : Cfg} {st : St} (h : Inv cfg st) (e : Ev)
    (hw : st.cancelWaiting = true) (hc : (step cfg st e).1.cancelWaiting = false) : e = .close := by
  have hd := (h.wait_imp hw).1
  cases e with
  | close => rfl
  | cancel => simp [step, hd, hw] at hc
  | take w =>
    simp only [step] at hc
    (repeat' split at hc) <;> simp_all [received1, enqueue] <;> (repeat' split at hc) <;> simp_all
  | fork i p => simp only [step] at hc; (repeat' split at hc) <;> simp_all
  | forkAbort => simp only [step] at hc; (repeat' split at hc) <;> simp_all
  | complete w o er => simp only [step] at hc; (repeat' split at hc) <;> simp_all [enqueue]
  | abort w => simp only [step] at hc; (repeat' split at hc) <;> simp_all [enqueue]
  | deliver k => simp only [step] at hc; (repeat' split at hc) <;> simp_all
  | drop k => simp only [step] at hc; (repeat' split at hc) <;> simp_all
  | join => simp only [step] at hc; (repeat' split at hc) <;> simp_all
  | rootCancel dl => simp only [step] at hc; (repeat' split at hc) <;> simp_all

theorem unjoined_step {cfg : Cfg} {st : St} (e : Ev) (he : e ≠ .join) (hj : st.joined = false) :
    (step cfg st e).1.joined = false := by
  cases e with
  | join => exact absurd rfl he
  | take w =>
    simp only [step]
    (repeat' split) <;> simp_all [received1, enqueue] <;> (repeat' split) <;> simp_all
  | fork i p => simp only [step]; (repeat' split) <;> simp_all
  | forkAbort => simp only [step]; (repeat' split) <;> simp_all
  | complete w o er => simp only [step]; (repeat' split) <;> simp_all [enqueue]
  | abort w => simp only [step]; (repeat' split) <;> simp_all [enqueue]
  | deliver k => simp only [step]; (repeat' split) <;> simp_all
  | drop k => simp only [step]; (repeat' split) <;> simp_all
  | close => simp only [step]; (repeat' split) <;> simp_all
  | cancel => simp only [step]; (repeat' split) <;> simp_all
  | rootCancel dl => simp only [step]; (repeat' split) <;> simp_all

theorem waits_without_join {cfg : Cfg} {st : St} (evs : List Ev) (h : Inv cfg st) (hne : ∀ e ∈ evs, e ≠ Ev.join)
    (hj : st.joined = false) (hw : st.cancelWaiting = true) :
    (run cfg st evs).cancelWaiting = true ∧ (run cfg st evs).joined = false ∧ (run cfg st evs).closed = false := by
  induction evs generalizing st with
  | nil =>
    refine ⟨hw, hj, ?_⟩
    exact (h.wait_imp hw).2.1
  | cons e es ih =>
    rw [run_cons]
    have hne' : ∀ x ∈ es, x ≠ Ev.join := fun x hx => hne x (List.mem_cons_of_mem _ hx)
    have he : e ≠ .join := hne e (by simp)
    refine ih (inv_step e h) hne' (unjoined_step e he hj) ?_
    cases hc : (step cfg st e).1.cancelWaiting with
    | true => rfl
    | false =>
      have := cancelWaiting_cleared_only_by_close h e hw hc
      subst this
      simp [step, hj, hw] at hc

/-! ### Flatten -/

/-- the first error that is neither nil nor a cancellation (`.nil` if there is none). -/
def otherOf : List Result → ErrC
  | [] => .nil
  | r :: rs => if r.err ≠ .nil ∧ r.err ≠ .canc then r.err else otherOf rs

/-- `.canc` if some result carries a cancellation error. -/
def cancOf : List Result → ErrC
  | [] => .nil
  | r :: rs => if r.err = .canc then .canc else cancOf rs

theorem flatten_fold (rs : List Result) (a : FlatAcc) :
    rs.foldl flattenStep a =
      ⟨if a.ctxErr ≠ .nil then a.ctxErr else cancOf rs, if a.otherErr ≠ .nil then a.otherErr else otherOf rs,
        a.resp ++ rs.map (·.out)⟩ := by
  induction rs generalizing a with
  | nil => cases a; simp [otherOf, cancOf]
  | cons r rs ih =>
    rw [List.foldl_cons, ih]
    cases a with
    | mk c o resp =>
      cases hr : r.err <;> cases c <;> cases o <;> simp [flattenStep, otherOf, cancOf, hr]

theorem flatten_eq (rs : List Result) :
    flatten rs = (rs.map (·.out), if otherOf rs ≠ .nil then otherOf rs else cancOf rs) := by
  simp only [flatten, flatten_fold]
  by_cases h1 : otherOf rs = .nil
  · by_cases h2 : cancOf rs = .nil <;> simp [h1, h2]
  · simp [h1]

theorem otherOf_spec : ∀ (rs : List Result), otherOf rs ≠ .nil →
    ∃ pre r post, rs = pre ++ r :: post ∧ (∀ x ∈ pre, x.err = .nil ∨ x.err = .canc) ∧ r.err = otherOf rs ∧
      r.err ≠ .nil ∧ r.err ≠ .canc
  | [], h => by simp [otherOf] at h
  | r :: rs, h => by
    by_cases hr : r.err ≠ .nil ∧ r.err ≠ .canc
    · exact ⟨[], r, rs, rfl, by simp, by simp [otherOf, hr], hr.1, hr.2⟩
    · have he : otherOf (r :: rs) = otherOf rs := by simp [otherOf, hr]
      rw [he] at h
      obtain ⟨pre, x, post, h1, h2, h3, h4, h5⟩ := otherOf_spec rs h
      refine ⟨r :: pre, x, post, by simp [h1], ?_, by rw [he]; exact h3, h4, h5⟩
      intro y hy
      simp at hy
      rcases hy with hy | hy
      · subst hy
        by_cases h0 : y.err = .nil
        · exact Or.inl h0
        · right
          by_cases h1 : y.err = .canc
          · exact h1
          · exact absurd ⟨h0, h1⟩ hr
      · exact h2 y hy

theorem otherOf_nil : ∀ (rs : List Result), otherOf rs = .nil → ∀ r ∈ rs, r.err = .nil ∨ r.err = .canc
  | [], _, r, hr => by simp at hr
  | x :: rs, h, r, hr => by
    by_cases hx : x.err ≠ .nil ∧ x.err ≠ .canc
    · simp [otherOf, hx] at h
    · have he : otherOf rs = .nil := by simpa [otherOf, hx] using h
      simp at hr
      rcases hr with hr | hr
      · subst hr
        by_cases h0 : r.err = .nil
        · exact Or.inl h0
        · right
          by_cases h1 : r.err = .canc
          · exact h1
          · exact absurd ⟨h0, h1⟩ hx
      · exact otherOf_nil rs he r hr

theorem cancOf_nil : ∀ (rs : List Result), cancOf rs = .nil → ∀ r ∈ rs, r.err ≠ .canc
  | [], _, r, hr => by simp at hr
  | x :: rs, h, r, hr => by
    by_cases hx : x.err = .canc
    · simp [cancOf, hx] at h
    · have he : cancOf rs = .nil := by simpa [cancOf, hx] using h
      simp at hr
      rcases hr with hr | hr
      · subst hr; exact hx
      · exact cancOf_nil rs he r hr

theorem cancOf_cases (rs : List Result) : cancOf rs = .nil ∨ cancOf rs = .canc := by
  induction rs with
  | nil => simp [cancOf]
  | cons r rs ih => simp only [cancOf]; split <;> simp_all


/-! ### progress events leave `dropClosed` and (after Join) `forked` alone -/

theorem dropClosed_progress {cfg : Cfg} {st : St} (e : Ev) (hp : isProgress e = true) :
    (step cfg st e).1.dropClosed = st.dropClosed := by
  cases e with
  | take w =>
    simp only [step]
    (repeat' split) <;> simp_all [received1, enqueue] <;> (repeat' split) <;> simp_all
  | complete w o er => simp only [step]; (repeat' split) <;> simp_all [enqueue]
  | abort w => simp only [step]; (repeat' split) <;> simp_all [enqueue]
  | deliver k => simp only [step]; (repeat' split) <;> simp_all
  | drop k => simp only [step]; (repeat' split) <;> simp_all
  | close => simp only [step]; (repeat' split) <;> simp_all
  | fork _ _ => simp [isProgress] at hp
  | forkAbort => simp [isProgress] at hp
  | join => simp [isProgress] at hp
  | cancel => simp [isProgress] at hp
  | rootCancel _ => simp [isProgress] at hp

theorem dropClosed_progress_run {cfg : Cfg} {st : St} (evs : List Ev) (hp : ∀ e ∈ evs, isProgress e = true) :
    (run cfg st evs).dropClosed = st.dropClosed := by
  induction evs generalizing st with
  | nil => rfl
  | cons e es ih =>
    rw [run_cons, ih (fun x hx => hp x (List.mem_cons_of_mem _ hx)), dropClosed_progress e (hp e (by simp))]

theorem forked_progress {cfg : Cfg} {st : St} (h : Inv cfg st) (hj : st.joined = true) (e : Ev)
    (hp : isProgress e = true) : (step cfg st e).1.forked = st.forked := by
  have hb := h.joined_unblocked hj
  cases e with
  | take w =>
    simp only [step]
    (repeat' split) <;> simp_all [received1, enqueue] <;> (repeat' split) <;> simp_all
  | complete w o er => simp only [step]; (repeat' split) <;> simp_all [enqueue]
  | abort w => simp only [step]; (repeat' split) <;> simp_all [enqueue]
  | deliver k => simp only [step]; (repeat' split) <;> simp_all
  | drop k => simp only [step]; (repeat' split) <;> simp_all
  | close => simp only [step]; (repeat' split) <;> simp_all
  | fork _ _ => simp [isProgress] at hp
  | forkAbort => simp [isProgress] at hp
  | join => simp [isProgress] at hp
  | cancel => simp [isProgress] at hp
  | rootCancel _ => simp [isProgress] at hp

theorem forked_progress_run {cfg : Cfg} {st : St} (evs : List Ev) (h : Inv cfg st) (hj : st.joined = true)
    (hp : ∀ e ∈ evs, isProgress e = true) : (run cfg st evs).forked = st.forked := by
  induction evs generalizing st with
  | nil => rfl
  | cons e es ih =>
    rw [run_cons, ih (inv_step e h) (joined_mono e hj) (fun x hx => hp x (List.mem_cons_of_mem _ hx)),
      forked_progress h hj e (hp e (by simp))]

/-! ### NewWithInputs -/

theorem caller_view_progress {cfg : Cfg} {st : St} (e : Ev) (hp : isProgress e = true) :
    handedOver (step cfg st e).1 = handedOver st ∧ (step cfg st e).1.joined = st.joined ∧
    (step cfg st e).1.rootErr = st.rootErr := by
  cases e with
  | take w =>
    simp only [step, handedOver]
    (repeat' split) <;> simp_all [received1, enqueue] <;> (repeat' split) <;> simp_all
  | complete w o er => simp only [step, handedOver]; (repeat' split) <;> simp_all [enqueue]
  | abort w => simp only [step, handedOver]; (repeat' split) <;> simp_all [enqueue]
  | deliver k => simp only [step, handedOver]; (repeat' split) <;> simp_all
  | drop k => simp only [step, handedOver]; (repeat' split) <;> simp_all
  | close => simp only [step, handedOver]; (repeat' split) <;> simp_all
  | fork _ _ => simp [isProgress] at hp
  | forkAbort => simp [isProgress] at hp
  | join => simp [isProgress] at hp
  | cancel => simp [isProgress] at hp
  | rootCancel _ => simp [isProgress] at hp

theorem nwi_run_spec {cfg : Cfg} {st st' : St} {rest : List Nat} (r : NwiRun cfg st rest st')
    (hj : st.joined = false) (hroot : st.rootErr = .nil) :
    st'.joined = true ∧ st'.forked = handedOver st ++ rest ∧ st'.blocked = none := by
  induction r with
  | env e hp _ ih =>
    obtain ⟨a, b, c⟩ := caller_view_progress (cfg := cfg) e hp
    rw [← a]
    exact ih (by rw [b]; exact hj) (by rw [c]; exact hroot)
  | @fork st st' i rest hb _ ih =>
    have key : handedOver (step cfg st (.fork i true)).1 = handedOver st ++ [i] ∧
        (step cfg st (.fork i true)).1.joined = false ∧ (step cfg st (.fork i true)).1.rootErr = .nil := by
      have hb' : st.blocked.isSome = false := by simp [hb]
      simp only [step, handedOver]
      rw [if_neg (by simp [hb']), if_neg (by simp [hj])]
      split
      · rw [if_neg (by simp [hroot])]; simp [hb, hj, hroot]
      · simp [hb, hj, hroot]
    obtain ⟨a, b, c⟩ := ih key.2.1 key.2.2
    exact ⟨a, by rw [b, key.1]; simp, c⟩
  | @join st hb =>
    simp [step, hj, hb, handedOver]

end CharonV.ForkJoin
