/-
Proofs for the abstract QBFT specification `CharonV.Spec.Qbft` (C02, spec layer).

Contents
* arithmetic of `quorum`/`faulty`, counting lemma `quorum_meet` (two quorums share an honest node);
* the inductive invariant `Inv` (per-node facts tying `Node` fields to `hist`, uniqueness of
  PREPARE/COMMIT per round, "justification recorded" facts), `inv_init`, `inv_step`, `reach_inv`;
* the lock lemma `lock` (DESIGN.md appendix A, claims 7–10) by induction on *time* (on the run that
  produced an earlier state whose history is contained in the final one), `prepareQuorum_locked`,
  `commitQuorum_agree`;
* bookkeeping of `decide` events, `Steps` (reflexive-transitive closure of `Step`), origin of
  pre-prepared values in runs without Byzantine processes, a concrete witness run.
Core Lean only.
-/
import CharonV.Spec.Qbft
namespace CharonV.QbftSpec

set_option linter.unusedSimpArgs false
set_option linter.unusedVariables false

/-! ### `Node.enter`, `setNode` -/

@[simp, grind =] theorem enter_round (nd : Node) (r : Nat) : (nd.enter r).round = r := by
  unfold Node.enter; split <;> simp_all
@[simp, grind =] theorem enter_pr (nd : Node) (r : Nat) : (nd.enter r).pr = nd.pr := by
  unfold Node.enter; split <;> rfl
@[simp, grind =] theorem enter_pv (nd : Node) (r : Nat) : (nd.enter r).pv = nd.pv := by
  unfold Node.enter; split <;> rfl
@[simp, grind =] theorem enter_cfr (nd : Node) (r : Nat) : (nd.enter r).cfr = nd.cfr := by
  unfold Node.enter; split <;> rfl
@[simp, grind =] theorem enter_decided (nd : Node) (r : Nat) : (nd.enter r).decided = nd.decided := by
  unfold Node.enter; split <;> rfl
@[grind =] theorem enter_ppDone (nd : Node) (r : Nat) :
    (nd.enter r).ppDone = if r = nd.round then nd.ppDone else false := by
  unfold Node.enter; split <;> rfl
@[grind =] theorem enter_prepDone (nd : Node) (r : Nat) :
    (nd.enter r).prepDone = if r = nd.round then nd.prepDone else false := by
  unfold Node.enter; split <;> rfl

/-! ### monotonicity of availability -/

theorem avail_mono {P : Params} {H H' : List Ev} (hsub : ∀ e ∈ H, e ∈ H') {src : Nat} {e : Ev}
    (h : avail P H src e) : avail P H' src e := by
  rcases h with h | h
  · exact Or.inl h
  · exact Or.inr (hsub e h)

theorem quorumOf_mono {P : Params} {H H' : List Ev} (hsub : ∀ e ∈ H, e ∈ H') {mk : Nat → Ev}
    (h : quorumOf P H mk) : quorumOf P H' mk := by
  obtain ⟨srcs, hnd, hlen, hall⟩ := h
  exact ⟨srcs, hnd, hlen, fun j hj => ⟨(hall j hj).1, avail_mono hsub (hall j hj).2⟩⟩

theorem qrcAvail_mono {P : Params} {H H' : List Ev} (hsub : ∀ e ∈ H, e ∈ H') {r : Nat}
    {qrc : List (Nat × Nat × Nat)} (h : qrcAvail P H r qrc) : qrcAvail P H' r qrc :=
  ⟨h.1, h.2.1, fun t ht => ⟨(h.2.2 t ht).1, avail_mono hsub (h.2.2 t ht).2⟩⟩

theorem avail_append {P : Params} {H : List Ev} (N : List Ev) {src : Nat} {e : Ev}
    (h : avail P H src e) : avail P (H ++ N) src e :=
  avail_mono (fun _ he => List.mem_append_left N he) h

theorem quorumOf_append {P : Params} {H : List Ev} (N : List Ev) {mk : Nat → Ev}
    (h : quorumOf P H mk) : quorumOf P (H ++ N) mk :=
  quorumOf_mono (fun _ he => List.mem_append_left N he) h

theorem prepareQuorum_append {P : Params} {H : List Ev} (N : List Ev) {r v : Nat}
    (h : prepareQuorum P H r v) : prepareQuorum P (H ++ N) r v := quorumOf_append N h

theorem commitQuorum_append {P : Params} {H : List Ev} (N : List Ev) {r v : Nat}
    (h : commitQuorum P H r v) : commitQuorum P (H ++ N) r v := quorumOf_append N h

/-- every step only appends to the history. -/
theorem step_hist {P : Params} {s t : State} (hs : Step P s t) : ∃ N, t.hist = s.hist ++ N := by
  cases hs with
  | accept i r v path out => cases out <;> exact ⟨_, rfl⟩
  | _ => exact ⟨_, rfl⟩

theorem step_hist_sub {P : Params} {s t : State} (hs : Step P s t) : ∀ e ∈ s.hist, e ∈ t.hist := by
  obtain ⟨N, hN⟩ := step_hist hs
  intro e he; rw [hN]; exact List.mem_append_left N he

/-! ### decide events of one process -/

def isDecideOf (p : Nat) : Ev → Bool
  | .decide q _ _ => decide (q = p)
  | _ => false

def Ev.src : Ev → Nat
  | .prePrepare s _ _ => s
  | .prepare s _ _ => s
  | .commit s _ _ => s
  | .roundChange s _ _ _ => s
  | .accept s _ _ _ => s
  | .cmpFail s _ => s
  | .decide s _ _ => s

/-! ### the invariant -/

/-- The inductive invariant. `und p` below abbreviates `(s.nodes p).decided = none` (a decided process
is frozen: every transition requires `decided = none`). -/
structure Inv (P : Params) (s : State) : Prop where
  /-- only honest processes write to the history. -/
  srcHonest : ∀ e ∈ s.hist, P.honest e.src
  /-- rounds start at 1. -/
  roundPos : ∀ p, (s.nodes p).decided = none → 1 ≤ (s.nodes p).round
  /-- every PRE-PREPARE `p` accepted is for a round ≤ its current one, and the dedup key
  `(UponJustifiedPrePrepare, round)` is set if it was accepted in the current round. -/
  accRound : ∀ p r x path, (s.nodes p).decided = none → Ev.accept p r x path ∈ s.hist →
      r ≤ (s.nodes p).round ∧ (r = (s.nodes p).round → (s.nodes p).ppDone = true)
  /-- same for COMMITs and the key `(UponQuorumPrepares, round)`. -/
  comRound : ∀ p r v, (s.nodes p).decided = none → Ev.commit p r v ∈ s.hist →
      r ≤ (s.nodes p).round ∧ (r = (s.nodes p).round → (s.nodes p).prepDone = true)
  /-- ROUND-CHANGEs are for rounds ≤ the current one (they are sent on entering a round). -/
  rcRound : ∀ p ρ pr pv, (s.nodes p).decided = none → Ev.roundChange p ρ pr pv ∈ s.hist →
      ρ ≤ (s.nodes p).round
  /-- `(pr,pv)` dominates every COMMIT the process sent. -/
  comPr : ∀ p r v, Ev.commit p r v ∈ s.hist →
      r ≤ (s.nodes p).pr ∧ ((s.nodes p).pr = r → (s.nodes p).pv = v)
  /-- `compareFailureRound ≠ 0` is the round of a recorded comparison failure. -/
  cfrEv : ∀ p, (s.nodes p).cfr ≠ 0 → Ev.cmpFail p (s.nodes p).cfr ∈ s.hist ∧
      ∃ y path, Ev.accept p (s.nodes p).cfr y path ∈ s.hist ∧ P.cmp p y = false
  /-- the prepared pair is backed by a PREPARE quorum, null pairs are `(0,0)`, `pr ≤ round`. -/
  prNode : ∀ p, ((s.nodes p).pr ≠ 0 → prepareQuorum P s.hist (s.nodes p).pr (s.nodes p).pv) ∧
      ((s.nodes p).pr = 0 → (s.nodes p).pv = 0) ∧
      ((s.nodes p).decided = none → (s.nodes p).pr ≤ (s.nodes p).round)
  /-- a PREPARE follows an accepted PRE-PREPARE with a positive comparison. -/
  prepAcc : ∀ p r v, Ev.prepare p r v ∈ s.hist →
      (∃ path, Ev.accept p r v path ∈ s.hist) ∧ P.cmp p v = true
  /-- a comparison failure follows an accepted PRE-PREPARE with a negative comparison. -/
  failAcc : ∀ p c, Ev.cmpFail p c ∈ s.hist → ∃ y path, Ev.accept p c y path ∈ s.hist ∧ P.cmp p y = false
  /-- at most one PREPARE per process and round. -/
  prepUniq : ∀ p r v v', Ev.prepare p r v ∈ s.hist → Ev.prepare p r v' ∈ s.hist → v = v'
  /-- no PREPARE in a round in which the comparison failed. -/
  failNoPrep : ∀ p c w, Ev.cmpFail p c ∈ s.hist → Ev.prepare p c w ∉ s.hist
  /-- a COMMIT is backed by a PREPARE quorum of its round. -/
  comBacked : ∀ p r v, Ev.commit p r v ∈ s.hist → prepareQuorum P s.hist r v ∧ 1 ≤ r
  /-- at most one COMMIT per process and round. -/
  comUniq : ∀ p r v v', Ev.commit p r v ∈ s.hist → Ev.commit p r v' ∈ s.hist → v = v'
  /-- appendix A, claim 4: a ROUND-CHANGE for a round above a COMMIT `(r,v)` of the same process
  carries a prepared round `≥ r`, and value `v` if it is `r`. -/
  comRc : ∀ p r v ρ pr pv, Ev.commit p r v ∈ s.hist → Ev.roundChange p ρ pr pv ∈ s.hist →
      r < ρ → r ≤ pr ∧ (pr = r → pv = v)
  /-- a ROUND-CHANGE carries a prepared round below its round, backed by a PREPARE quorum. -/
  rcBacked : ∀ p ρ pr pv, Ev.roundChange p ρ pr pv ∈ s.hist →
      pr < ρ ∧ (pr ≠ 0 → prepareQuorum P s.hist pr pv) ∧ (pr = 0 → pv = 0)
  /-- accepted values are non-zero and were PRE-PREPAREd by the round's leader. -/
  accOk : ∀ p r v path, Ev.accept p r v path ∈ s.hist →
      v ≠ 0 ∧ P.leader r < P.n ∧ avail P s.hist (P.leader r) (.prePrepare (P.leader r) r v)
  /-- a decision is backed by a COMMIT quorum. -/
  decBacked : ∀ p r v, Ev.decide p r v ∈ s.hist → commitQuorum P s.hist r v
  /-- the `decide` events of `p` are exactly what `decided` records (none, or exactly one). -/
  decNode : ∀ p, s.hist.filter (isDecideOf p) =
      match (s.nodes p).decided with
      | none => []
      | some (r, v) => [.decide p r v]

theorem inv_init (P : Params) : Inv P init := by
  constructor <;> simp [init]

macro "step_auto" hs:ident : tactic => `(tactic|
  cases $hs:ident with
  | accept i r v path out hi hd hr hpp hl hav hv hj ho hf =>
    cases out <;> simp [acceptResult, setNode] at * <;> grind
  | _ => simp [setNode] at * <;> grind)

section step
variable {P : Params} {s t : State}

theorem step_srcHonest (hI : Inv P s) (hs : Step P s t) : ∀ e ∈ t.hist, P.honest e.src := by
  have h0 := hI.srcHonest
  intro e he
  cases hs with
  | accept i r v path out hi hd hr hpp hl hav hv hj ho hf =>
    cases out <;> simp [acceptResult, setNode] at he <;>
      rcases he with he | he | he <;> first | exact h0 e he | (subst he; exact hi)
  | _ =>
    simp [setNode] at he
    rcases he with he | he
    · exact h0 e he
    · subst he; assumption

theorem step_roundPos (hI : Inv P s) (hs : Step P s t) :
    ∀ p, (t.nodes p).decided = none → 1 ≤ (t.nodes p).round := by
  have h0 := hI.roundPos
  intro p hd'
  step_auto hs

theorem step_accRound (hI : Inv P s) (hs : Step P s t) :
    ∀ p r x path, (t.nodes p).decided = none → Ev.accept p r x path ∈ t.hist →
      r ≤ (t.nodes p).round ∧ (r = (t.nodes p).round → (t.nodes p).ppDone = true) := by
  have h0 := hI.accRound
  intro p r' x path' hd' hm
  have h0' := h0 p r' x path'
  step_auto hs

theorem step_comRound (hI : Inv P s) (hs : Step P s t) :
    ∀ p r v, (t.nodes p).decided = none → Ev.commit p r v ∈ t.hist →
      r ≤ (t.nodes p).round ∧ (r = (t.nodes p).round → (t.nodes p).prepDone = true) := by
  have h0 := hI.comRound
  intro p r' x hd' hm
  have h0' := h0 p r' x
  step_auto hs

theorem step_rcRound (hI : Inv P s) (hs : Step P s t) :
    ∀ p ρ pr pv, (t.nodes p).decided = none → Ev.roundChange p ρ pr pv ∈ t.hist →
      ρ ≤ (t.nodes p).round := by
  have h0 := hI.rcRound
  intro p ρ pr pv hd' hm
  have h0' := h0 p ρ pr pv
  step_auto hs

theorem step_comPr (hI : Inv P s) (hs : Step P s t) :
    ∀ p r v, Ev.commit p r v ∈ t.hist →
      r ≤ (t.nodes p).pr ∧ ((t.nodes p).pr = r → (t.nodes p).pv = v) := by
  have h0 := hI.comPr
  have h1 := hI.comRound
  intro p r' x hm
  have h0' := h0 p r' x
  have h1' := h1 p r' x
  step_auto hs


theorem step_cfrEv (hI : Inv P s) (hs : Step P s t) :
    ∀ p, (t.nodes p).cfr ≠ 0 → Ev.cmpFail p (t.nodes p).cfr ∈ t.hist ∧
      ∃ y path, Ev.accept p (t.nodes p).cfr y path ∈ t.hist ∧ P.cmp p y = false := by
  have h0 := hI.cfrEv
  intro p hc
  have h0' := h0 p
  step_auto hs

theorem step_prNode (hI : Inv P s) (hs : Step P s t) :
    ∀ p, ((t.nodes p).pr ≠ 0 → prepareQuorum P t.hist (t.nodes p).pr (t.nodes p).pv) ∧
      ((t.nodes p).pr = 0 → (t.nodes p).pv = 0) ∧
      ((t.nodes p).decided = none → (t.nodes p).pr ≤ (t.nodes p).round) := by
  have h0 := hI.prNode
  have h1 := hI.roundPos
  intro p
  have h0' := h0 p
  have h1' := h1 p
  have hm : ∀ N r v, prepareQuorum P s.hist r v → prepareQuorum P (s.hist ++ N) r v :=
    fun N r v h => prepareQuorum_append N h
  step_auto hs

theorem step_prepAcc (hI : Inv P s) (hs : Step P s t) :
    ∀ p r v, Ev.prepare p r v ∈ t.hist →
      (∃ path, Ev.accept p r v path ∈ t.hist) ∧ P.cmp p v = true := by
  have h0 := hI.prepAcc
  intro p r' x hm
  have h0' := h0 p r' x
  step_auto hs

theorem step_failAcc (hI : Inv P s) (hs : Step P s t) :
    ∀ p c, Ev.cmpFail p c ∈ t.hist → ∃ y path, Ev.accept p c y path ∈ t.hist ∧ P.cmp p y = false := by
  have h0 := hI.failAcc
  intro p c hm
  have h0' := h0 p c
  step_auto hs

theorem step_prepUniq (hI : Inv P s) (hs : Step P s t) :
    ∀ p r v v', Ev.prepare p r v ∈ t.hist → Ev.prepare p r v' ∈ t.hist → v = v' := by
  have h0 := hI.prepUniq
  have h1 := hI.prepAcc
  have h2 := hI.accRound
  intro p r' x x' hm hm'
  have h0' := h0 p r' x x'
  step_auto hs

theorem step_failNoPrep (hI : Inv P s) (hs : Step P s t) :
    ∀ p c w, Ev.cmpFail p c ∈ t.hist → Ev.prepare p c w ∉ t.hist := by
  have h0 := hI.failNoPrep
  have h1 := hI.prepAcc
  have h2 := hI.accRound
  have h3 := hI.failAcc
  intro p c w hm hm'
  have h0' := h0 p c w
  step_auto hs


theorem step_comBacked (hI : Inv P s) (hs : Step P s t) :
    ∀ p r v, Ev.commit p r v ∈ t.hist → prepareQuorum P t.hist r v ∧ 1 ≤ r := by
  have h0 := hI.comBacked
  have h1 := hI.roundPos
  intro p r' x hm
  have h0' := h0 p r' x
  have hmono : ∀ N r v, prepareQuorum P s.hist r v → prepareQuorum P (s.hist ++ N) r v :=
    fun N r v h => prepareQuorum_append N h
  step_auto hs

theorem step_comUniq (hI : Inv P s) (hs : Step P s t) :
    ∀ p r v v', Ev.commit p r v ∈ t.hist → Ev.commit p r v' ∈ t.hist → v = v' := by
  have h0 := hI.comUniq
  have h1 := hI.comRound
  intro p r' x x' hm hm'
  have h0' := h0 p r' x x'
  step_auto hs

theorem step_comRc (hI : Inv P s) (hs : Step P s t) :
    ∀ p r v ρ pr pv, Ev.commit p r v ∈ t.hist → Ev.roundChange p ρ pr pv ∈ t.hist →
      r < ρ → r ≤ pr ∧ (pr = r → pv = v) := by
  have h0 := hI.comRc
  have h1 := hI.comPr
  have h2 := hI.rcRound
  intro p r' x ρ pr pv hm hm' hlt
  have h0' := h0 p r' x ρ pr pv
  step_auto hs

theorem step_rcBacked (hI : Inv P s) (hs : Step P s t) :
    ∀ p ρ pr pv, Ev.roundChange p ρ pr pv ∈ t.hist →
      pr < ρ ∧ (pr ≠ 0 → prepareQuorum P t.hist pr pv) ∧ (pr = 0 → pv = 0) := by
  have h0 := hI.rcBacked
  have h1 := hI.prNode
  intro p ρ pr pv hm
  have h0' := h0 p ρ pr pv
  have hmono : ∀ N r v, prepareQuorum P s.hist r v → prepareQuorum P (s.hist ++ N) r v :=
    fun N r v h => prepareQuorum_append N h
  step_auto hs

theorem step_accOk (hI : Inv P s) (hs : Step P s t) :
    ∀ p r v path, Ev.accept p r v path ∈ t.hist →
      v ≠ 0 ∧ P.leader r < P.n ∧ avail P t.hist (P.leader r) (.prePrepare (P.leader r) r v) := by
  have h0 := hI.accOk
  intro p r' x path' hm
  have h0' := h0 p r' x path'
  have hmono : ∀ N src e, avail P s.hist src e → avail P (s.hist ++ N) src e :=
    fun N src e h => avail_append N h
  step_auto hs

theorem step_decBacked (hI : Inv P s) (hs : Step P s t) :
    ∀ p r v, Ev.decide p r v ∈ t.hist → commitQuorum P t.hist r v := by
  have h0 := hI.decBacked
  intro p r' x hm
  have h0' := h0 p r' x
  have hmono : ∀ N r v, commitQuorum P s.hist r v → commitQuorum P (s.hist ++ N) r v :=
    fun N r v h => commitQuorum_append N h
  step_auto hs

theorem step_decNode (hI : Inv P s) (hs : Step P s t) :
    ∀ p, t.hist.filter (isDecideOf p) =
      match (t.nodes p).decided with
      | none => []
      | some (r, v) => [.decide p r v] := by
  have h0 := hI.decNode
  intro p
  have h0' := h0 p
  cases hs with
  | accept i r v path out hi hd hr hpp hl hav hv hj ho hf =>
    cases out <;> simp [acceptResult, setNode, isDecideOf, List.filter_cons] at * <;> grind
  | _ => simp [setNode, isDecideOf, List.filter_cons] at * <;> grind

end step


/-! ### arithmetic and counting -/

theorem faulty_lt_quorum (n : Nat) (h : 1 ≤ n) : faulty n < quorum n := by
  unfold quorum faulty; omega

theorem quorum_le (n : Nat) (h : 1 ≤ n) : quorum n ≤ n := by
  unfold quorum; omega

theorem outside_lt_quorum (n fa : Nat) (h : 1 ≤ n) (hfa : fa ≤ faulty n) :
    fa + (n - quorum n) < quorum n := by
  unfold quorum faulty at *; omega

theorem two_quorum (n : Nat) (h : 1 ≤ n) : n + faulty n + 1 ≤ 2 * quorum n := by
  unfold quorum faulty; omega

theorem nodup_length_le_of_subset {l m : List Nat} (hl : l.Nodup) (h : ∀ x ∈ l, x ∈ m) :
    l.length ≤ m.length := by
  induction l generalizing m with
  | nil => simp
  | cons a l ih =>
    have ha : a ∈ m := h a (by simp)
    rw [List.nodup_cons] at hl
    have h' : ∀ x ∈ l, x ∈ m.erase a := by
      intro x hx
      have hne : x ≠ a := by rintro rfl; exact hl.1 hx
      exact (List.mem_erase_of_ne hne).2 (h x (by simp [hx]))
    have := ih hl.2 h'
    rw [List.length_erase_of_mem ha] at this
    have : 0 < m.length := List.length_pos_of_mem ha
    simp; omega

theorem filter_length_split (A : List Nat) (f : Nat → Bool) :
    (A.filter f).length + (A.filter (fun x => !f x)).length = A.length := by
  induction A with
  | nil => simp
  | cons a A ih => by_cases h : f a <;> simp [List.filter_cons, h] <;> omega

theorem quorum_meet (P : Params) (hn : 1 ≤ P.n) (hb : P.byzCount ≤ faulty P.n)
    {A B : List Nat} (hA : A.Nodup) (hB : B.Nodup)
    (hAn : ∀ j ∈ A, j < P.n) (hBn : ∀ j ∈ B, j < P.n)
    (hAq : quorum P.n ≤ A.length) (hBq : quorum P.n ≤ B.length) :
    ∃ j, j ∈ A ∧ j ∈ B ∧ P.byz j = false := by
  apply Classical.byContradiction
  intro hcon
  have hall : ∀ j, j ∈ A → j ∈ B → P.byz j = true := by
    intro j h1 h2
    cases hbz : P.byz j with
    | true => rfl
    | false => exact absurd ⟨j, h1, h2, hbz⟩ hcon
  have h1 : (A.filter (fun j => decide (j ∈ B))).length ≤ P.byzCount := by
    apply nodup_length_le_of_subset (hA.sublist List.filter_sublist)
    intro x hx
    simp only [List.mem_filter, decide_eq_true_eq] at hx
    simp only [List.mem_filter, List.mem_range]
    exact ⟨hAn x hx.1, hall x hx.1 hx.2⟩
  have h2 : ((A.filter (fun j => !decide (j ∈ B))) ++ B).length ≤ (List.range P.n).length := by
    apply nodup_length_le_of_subset
    · rw [List.nodup_append]
      refine ⟨hA.sublist List.filter_sublist, hB, ?_⟩
      intro a ha b hb' hab
      simp only [List.mem_filter, Bool.not_eq_true', decide_eq_false_iff_not] at ha
      exact ha.2 (hab ▸ hb')
    · intro x hx
      simp only [List.mem_append, List.mem_filter] at hx
      simp only [List.mem_range]
      rcases hx with hx | hx
      · exact hAn x hx.1
      · exact hBn x hx
  have h3 := filter_length_split A (fun j => decide (j ∈ B))
  have h4 := two_quorum P.n hn
  simp only [List.length_append, List.length_range] at h2
  omega

/-! ### the inductive invariant holds in every reachable state -/

theorem inv_step {P : Params} {s t : State} (hI : Inv P s) (hs : Step P s t) : Inv P t where
  srcHonest := step_srcHonest hI hs
  roundPos := step_roundPos hI hs
  accRound := step_accRound hI hs
  comRound := step_comRound hI hs
  rcRound := step_rcRound hI hs
  comPr := step_comPr hI hs
  cfrEv := step_cfrEv hI hs
  prNode := step_prNode hI hs
  prepAcc := step_prepAcc hI hs
  failAcc := step_failAcc hI hs
  prepUniq := step_prepUniq hI hs
  failNoPrep := step_failNoPrep hI hs
  comBacked := step_comBacked hI hs
  comUniq := step_comUniq hI hs
  comRc := step_comRc hI hs
  rcBacked := step_rcBacked hI hs
  accOk := step_accOk hI hs
  decBacked := step_decBacked hI hs
  decNode := step_decNode hI hs

theorem reach_inv {P : Params} {s : State} (h : Reach P s) : Inv P s := by
  induction h with
  | init => exact inv_init P
  | step _ hs ih => exact inv_step ih hs

/-! ### quorum intersection -/

section quorums
variable {P : Params} (hn : 1 ≤ P.n) (hb : P.byzCount ≤ faulty P.n)
include hn hb

theorem quorumOf_meet {H H' : List Ev} {mk mk' : Nat → Ev}
    (h1 : quorumOf P H mk) (h2 : quorumOf P H' mk') :
    ∃ j, P.honest j ∧ mk j ∈ H ∧ mk' j ∈ H' := by
  obtain ⟨A, hA, hAq, hAall⟩ := h1
  obtain ⟨B, hB, hBq, hBall⟩ := h2
  obtain ⟨j, hjA, hjB, hbz⟩ := quorum_meet P hn hb hA hB (fun j hj => (hAall j hj).1)
    (fun j hj => (hBall j hj).1) hAq hBq
  refine ⟨j, ⟨(hAall j hjA).1, hbz⟩, ?_, ?_⟩
  · rcases (hAall j hjA).2 with h | h
    · rw [hbz] at h; cases h
    · exact h
  · rcases (hBall j hjB).2 with h | h
    · rw [hbz] at h; cases h
    · exact h

theorem quorumOf_honest {H : List Ev} {mk : Nat → Ev} (h : quorumOf P H mk) :
    ∃ j, P.honest j ∧ mk j ∈ H := by
  obtain ⟨j, hj, hm, _⟩ := quorumOf_meet hn hb h h
  exact ⟨j, hj, hm⟩

theorem qrc_meet {H H' : List Ev} {r : Nat} {qrc : List (Nat × Nat × Nat)} {mk' : Nat → Ev}
    (h1 : qrcAvail P H r qrc) (h2 : quorumOf P H' mk') :
    ∃ t ∈ qrc, P.honest t.1 ∧ Ev.roundChange t.1 r t.2.1 t.2.2 ∈ H ∧ mk' t.1 ∈ H' := by
  obtain ⟨hA, hAq, hAall⟩ := h1
  obtain ⟨B, hB, hBq, hBall⟩ := h2
  have hAn : ∀ j ∈ qrc.map (·.1), j < P.n := by
    intro j hj
    obtain ⟨t, ht, rfl⟩ := List.mem_map.1 hj
    exact (hAall t ht).1
  obtain ⟨j, hjA, hjB, hbz⟩ := quorum_meet P hn hb hA hB hAn
    (fun j hj => (hBall j hj).1) (by simpa using hAq) hBq
  obtain ⟨t, ht, rfl⟩ := List.mem_map.1 hjA
  refine ⟨t, ht, ⟨(hAall t ht).1, hbz⟩, ?_, ?_⟩
  · rcases (hAall t ht).2 with h | h
    · rw [hbz] at h; cases h
    · exact h
  · rcases (hBall _ hjB).2 with h | h
    · rw [hbz] at h; cases h
    · exact h

/-! ### the lock lemma (claims 7–10 of the appendix) -/

/-- The new `accept` event of an `accept` step respects the lock, given that all earlier `accept`
events do (`IH`). `sf` is the final state whose history contains the COMMIT quorum. -/
theorem lock_accept {sf s : State} (hIf : Inv P sf) (hIs : Inv P s)
    (hsub : ∀ e ∈ s.hist, e ∈ sf.hist) {r v : Nat} (hr : 1 ≤ r)
    (hpq : prepareQuorum P sf.hist r v) (hcq : commitQuorum P sf.hist r v)
    (IH : ∀ p ρ x path, Ev.accept p ρ x path ∈ s.hist → r < ρ → x ≠ v → Ev.prepare p r v ∉ sf.hist)
    {i ρ x : Nat} {path : Path} (hj : justifiedPP P s.hist (s.nodes i).cfr ρ x path)
    (hρ : r < ρ) (hx : x ≠ v) : Ev.prepare i r v ∉ sf.hist := by
  intro hprep
  cases path with
  | first => simp only [justifiedPP] at hj; omega
  | afterFail =>
    simp only [justifiedPP] at hj
    have hc : (s.nodes i).cfr ≠ 0 := by omega
    obtain ⟨hcf, y, path', hacc, hcmp⟩ := hIs.cfrEv i hc
    have hcv : P.cmp i v = true := (hIf.prepAcc i r v hprep).2
    by_cases hcr : (s.nodes i).cfr = r
    · exact hIf.failNoPrep i r v (hcr ▸ hsub _ hcf) hprep
    · by_cases hy : y = v
      · subst hy; rw [hcmp] at hcv; cases hcv
      · exact IH i _ y path' hacc (by omega) hy hprep
  | qrcNull =>
    obtain ⟨qrc, hq, hnull⟩ := hj
    obtain ⟨t, ht, _, hrc, hcom⟩ := qrc_meet hn hb hq hcq
    have := (hIf.comRc t.1 r v ρ t.2.1 t.2.2 hcom (hsub _ hrc) hρ).1
    have := (hnull t ht).1
    omega
  | qrcPrep =>
    obtain ⟨qrc, pr, hq, hpq', hle, _⟩ := hj
    obtain ⟨t, ht, _, hrc, hcom⟩ := qrc_meet hn hb hq hcq
    have h1 := (hIf.comRc t.1 r v ρ t.2.1 t.2.2 hcom (hsub _ hrc) hρ).1
    have h2 := hle t ht
    obtain ⟨j, _, hjx, hjv⟩ := quorumOf_meet hn hb hpq' hpq
    by_cases hpr : pr = r
    · subst hpr
      exact hx (hIf.prepUniq j pr x v (hsub _ hjx) hjv)
    · obtain ⟨path', hacc⟩ := (hIs.prepAcc j pr x hjx).1
      exact IH j pr x path' hacc (by omega) hx hjv

/-- **Lock.** Once a COMMIT quorum for `(r,v)` exists (in the final history), no process that sent
PREPARE `(r,v)` ever accepts a PRE-PREPARE `(ρ,x)` with `ρ > r`, `x ≠ v`. Induction on the run that
produced the (earlier) state `s`, i.e. on time. -/
theorem lock {sf : State} (hIf : Inv P sf) {r v : Nat} (hr : 1 ≤ r)
    (hpq : prepareQuorum P sf.hist r v) (hcq : commitQuorum P sf.hist r v)
    {s : State} (hs : Reach P s) :
    (∀ e ∈ s.hist, e ∈ sf.hist) →
    ∀ p ρ x path, Ev.accept p ρ x path ∈ s.hist → r < ρ → x ≠ v → Ev.prepare p r v ∉ sf.hist := by
  induction hs with
  | init => intro _ p ρ x path hm; simp [init] at hm
  | @step s t hrs hst ih =>
    intro hsub
    have hsub' : ∀ e ∈ s.hist, e ∈ sf.hist := fun e he => hsub e (step_hist_sub hst e he)
    have IH := ih hsub'
    have hIs := reach_inv hrs
    intro p ρ x path hm hρ hx
    cases hst with
    | accept i r' v' path' out hi hd hr' hpp hl hav hv hj ho hf =>
      have hm' : Ev.accept p ρ x path ∈ s.hist ∨ (p = i ∧ ρ = r' ∧ x = v' ∧ path = path') := by
        cases out <;> simpa [acceptResult, setNode] using hm
      rcases hm' with hm' | ⟨rfl, rfl, rfl, rfl⟩
      · exact IH p ρ x path hm' hρ hx
      · exact lock_accept hn hb hIf hIs hsub' hr hpq hcq IH hj hρ hx
    | _ =>
      simp [setNode] at hm
      exact IH p ρ x path hm hρ hx

/-- Claim 10: a PREPARE quorum at a round above a COMMIT quorum `(r,v)` has value `v`. -/
theorem prepareQuorum_locked {s : State} (hs : Reach P s) {r v ρ x : Nat}
    (hcq : commitQuorum P s.hist r v) (hpq' : prepareQuorum P s.hist ρ x) (hρ : r < ρ) : x = v := by
  have hI := reach_inv hs
  obtain ⟨l, _, hl⟩ := quorumOf_honest hn hb hcq
  obtain ⟨hpq, hr⟩ := hI.comBacked l r v hl
  apply Classical.byContradiction
  intro hx
  obtain ⟨j, _, hjx, hjv⟩ := quorumOf_meet hn hb hpq' hpq
  obtain ⟨path, hacc⟩ := (hI.prepAcc j ρ x hjx).1
  exact lock hn hb hI hr hpq hcq hs (fun _ h => h) j ρ x path hacc hρ hx hjv

/-- The lock lemma stated on one reachable state. -/
theorem lock_reach {s : State} (hs : Reach P s) {r v : Nat} (hcq : commitQuorum P s.hist r v)
    {p ρ x : Nat} {path : Path} (hacc : Ev.accept p ρ x path ∈ s.hist) (hρ : r < ρ) (hx : x ≠ v) :
    Ev.prepare p r v ∉ s.hist := by
  have hI := reach_inv hs
  obtain ⟨l, _, hl⟩ := quorumOf_honest hn hb hcq
  obtain ⟨hpq, hr⟩ := hI.comBacked l r v hl
  exact lock hn hb hI hr hpq hcq hs (fun _ h => h) p ρ x path hacc hρ hx

theorem commitQuorum_agree_le {s : State} (hs : Reach P s) {r v r' v' : Nat}
    (h1 : commitQuorum P s.hist r v) (h2 : commitQuorum P s.hist r' v') (hle : r ≤ r') : v = v' := by
  have hI := reach_inv hs
  obtain ⟨l, _, hl⟩ := quorumOf_honest hn hb h1
  obtain ⟨hpq, _⟩ := hI.comBacked l r v hl
  obtain ⟨l', _, hl'⟩ := quorumOf_honest hn hb h2
  obtain ⟨hpq', _⟩ := hI.comBacked l' r' v' hl'
  by_cases heq : r = r'
  · subst heq
    obtain ⟨j, _, hj, hj'⟩ := quorumOf_meet hn hb hpq hpq'
    exact hI.prepUniq j r v v' hj hj'
  · exact (prepareQuorum_locked hn hb hs h1 hpq' (by omega)).symm

theorem commitQuorum_agree {s : State} (hs : Reach P s) {r v r' v' : Nat}
    (h1 : commitQuorum P s.hist r v) (h2 : commitQuorum P s.hist r' v') : v = v' := by
  by_cases hle : r ≤ r'
  · exact commitQuorum_agree_le hn hb hs h1 h2 hle
  · exact (commitQuorum_agree_le hn hb hs h2 h1 (by omega)).symm

end quorums

/-! ### `decide` bookkeeping -/

theorem decided_of_event {P : Params} {s : State} (hI : Inv P s) {p r v : Nat}
    (h : Ev.decide p r v ∈ s.hist) : (s.nodes p).decided = some (r, v) := by
  have hf : Ev.decide p r v ∈ s.hist.filter (isDecideOf p) := by
    simp [List.mem_filter, h, isDecideOf]
  rw [hI.decNode p] at hf
  cases hd : (s.nodes p).decided with
  | none => rw [hd] at hf; simp at hf
  | some d =>
    obtain ⟨r', v'⟩ := d
    rw [hd] at hf
    simp at hf
    obtain ⟨rfl, rfl⟩ := hf
    rfl

theorem event_of_decided {P : Params} {s : State} (hI : Inv P s) {p r v : Nat}
    (h : (s.nodes p).decided = some (r, v)) : Ev.decide p r v ∈ s.hist := by
  have hf := hI.decNode p
  rw [h] at hf
  have : Ev.decide p r v ∈ s.hist.filter (isDecideOf p) := by rw [hf]; simp
  exact (List.mem_filter.1 this).1

theorem decide_filter_length_le_one {P : Params} {s : State} (hI : Inv P s) (p : Nat) :
    (s.hist.filter (isDecideOf p)).length ≤ 1 := by
  rw [hI.decNode p]
  cases (s.nodes p).decided with
  | none => simp
  | some d => simp

/-- a step never changes a decision that was already taken. -/
theorem step_decided_stable {P : Params} {s t : State} (hs : Step P s t) {p : Nat} {d : Nat × Nat}
    (h : (s.nodes p).decided = some d) : (t.nodes p).decided = some d := by
  cases hs with
  | accept i r v path out hi hd hr hpp hl hav hv hj ho hf =>
    cases out <;> simp [acceptResult, setNode] at * <;> grind
  | _ => simp [setNode] at * <;> grind

/-- reflexive-transitive closure of `Step`. -/
inductive Steps (P : Params) : State → State → Prop where
  | refl (s : State) : Steps P s s
  | tail {s t u : State} : Steps P s t → Step P t u → Steps P s u

theorem Steps.reach {P : Params} {s t : State} (hs : Reach P s) (h : Steps P s t) : Reach P t := by
  induction h with
  | refl => exact hs
  | tail _ hst ih => exact Reach.step ih hst

theorem steps_decided_stable {P : Params} {s t : State} (h : Steps P s t) {p : Nat} {d : Nat × Nat}
    (hd : (s.nodes p).decided = some d) : (t.nodes p).decided = some d := by
  induction h with
  | refl => exact hd
  | tail _ hst ih => exact step_decided_stable hst ih

theorem steps_hist_sub {P : Params} {s t : State} (h : Steps P s t) : ∀ e ∈ s.hist, e ∈ t.hist := by
  induction h with
  | refl => exact fun _ h => h
  | tail _ hst ih => exact fun e he => step_hist_sub hst e (ih e he)

/-! ### values decided come from a PRE-PREPARE of the round's leader; without Byzantine processes
from somebody's input -/

theorem byzCount_eq_zero {P : Params} (h : ∀ i, P.byz i = false) : P.byzCount = 0 := by
  unfold Params.byzCount
  simp [h]

/-- a COMMIT quorum `(r,v)` is backed by an accepted PRE-PREPARE `(r,v)` of an honest process. -/
theorem commitQuorum_accept {P : Params} (hn : 1 ≤ P.n) (hb : P.byzCount ≤ faulty P.n)
    {s : State} (hI : Inv P s) {r v : Nat} (h : commitQuorum P s.hist r v) :
    ∃ p path, P.honest p ∧ Ev.accept p r v path ∈ s.hist := by
  obtain ⟨l, _, hl⟩ := quorumOf_honest hn hb h
  obtain ⟨hpq, _⟩ := hI.comBacked l r v hl
  obtain ⟨j, hj, hjp⟩ := quorumOf_honest hn hb hpq
  obtain ⟨path, hacc⟩ := (hI.prepAcc j r v hjp).1
  exact ⟨j, path, hj, hacc⟩

theorem prePrepare_input_no_byz {P : Params} (hn : 1 ≤ P.n) (hnb : ∀ i, P.byz i = false)
    {s : State} (hs : Reach P s) :
    ∀ src ρ v, Ev.prePrepare src ρ v ∈ s.hist → ∃ j, j < P.n ∧ v = P.input j ∧ v ≠ 0 := by
  have hb : P.byzCount ≤ faulty P.n := by rw [byzCount_eq_zero hnb]; exact Nat.zero_le _
  induction hs with
  | init => intro src ρ v hm; simp [init] at hm
  | @step s t hrs hst ih =>
    have hI := reach_inv hrs
    intro src ρ v hm
    cases hst with
    | propose i v' pr hi hl hv =>
      simp at hm
      rcases hm with hm | ⟨rfl, rfl, rfl⟩
      · exact ih src ρ v hm
      · rcases hv with ⟨h1, h2⟩ | hq
        · exact ⟨src, hi.1, h1, h2⟩
        · obtain ⟨j, _, hjp⟩ := quorumOf_honest hn hb hq
          obtain ⟨path, hacc⟩ := (hI.prepAcc j pr v hjp).1
          obtain ⟨_, _, hav⟩ := hI.accOk j pr v path hacc
          rcases hav with hav | hav
          · rw [hnb] at hav; cases hav
          · exact ih _ _ _ hav
    | accept i r v' path out hi hd hr hpp hl hav hv hj ho hf =>
      have hm' : Ev.prePrepare src ρ v ∈ s.hist := by
        cases out <;> simpa [acceptResult, setNode] using hm
      exact ih src ρ v hm'
    | _ =>
      simp [setNode] at hm
      exact ih src ρ v hm

/-! ### a concrete run (non-vacuity witness): n = 4, process 3 Byzantine, processes 0 and 1 decide 7
in round 1 with quorums {0,1,3} -/

def P4 : Params where
  n := 4
  byz := fun i => i == 3
  leader := fun _ => 0
  cmp := fun _ _ => true
  input := fun _ => 7

namespace Run4

theorem h0 : P4.honest 0 := ⟨by decide, rfl⟩
theorem h1 : P4.honest 1 := ⟨by decide, rfl⟩

theorem quorum013 (H : List Ev) (mk : Nat → Ev) (m0 : mk 0 ∈ H) (m1 : mk 1 ∈ H) : quorumOf P4 H mk := by
  refine ⟨[0, 1, 3], by decide, by decide, ?_⟩
  intro j hj
  simp at hj
  rcases hj with rfl | rfl | rfl
  · exact ⟨by decide, Or.inr m0⟩
  · exact ⟨by decide, Or.inr m1⟩
  · exact ⟨by decide, Or.inl (by decide)⟩

def s1 : State := { init with hist := init.hist ++ [.prePrepare 0 (init.nodes 0).round 7] }
theorem r1 : Reach P4 s1 :=
  Reach.step Reach.init (Step.propose init 0 7 0 h0 rfl (Or.inl ⟨rfl, by decide⟩))

def s2 : State := acceptResult s1 0 1 7 .first .ok
theorem r2 : Reach P4 s2 :=
  Reach.step r1 (Step.accept s1 0 1 7 .first .ok h0 rfl (by decide) (fun _ => rfl) (by decide)
    (Or.inr (by decide)) (by decide) rfl (fun _ => rfl) (fun h => by cases h))

def s3 : State := acceptResult s2 1 1 7 .first .ok
theorem r3 : Reach P4 s3 :=
  Reach.step r2 (Step.accept s2 1 1 7 .first .ok h1 rfl (by decide) (fun _ => rfl) (by decide)
    (Or.inr (by decide)) (by decide) rfl (fun _ => rfl) (fun h => by cases h))

def s4 : State :=
  { setNode s3 0 { s3.nodes 0 with pr := (s3.nodes 0).round, pv := 7, prepDone := true } with
      hist := s3.hist ++ [.commit 0 (s3.nodes 0).round 7] }
theorem r4 : Reach P4 s4 :=
  Reach.step r3 (Step.commit s3 0 7 h0 rfl rfl (quorum013 _ _ (by decide) (by decide)))

def s5 : State :=
  { setNode s4 1 { s4.nodes 1 with pr := (s4.nodes 1).round, pv := 7, prepDone := true } with
      hist := s4.hist ++ [.commit 1 (s4.nodes 1).round 7] }
theorem r5 : Reach P4 s5 :=
  Reach.step r4 (Step.commit s4 1 7 h1 rfl rfl (quorum013 _ _ (by decide) (by decide)))

def s6 : State :=
  { setNode s5 0 { s5.nodes 0 with round := 1, decided := some (1, 7) } with
      hist := s5.hist ++ [.decide 0 1 7] }
theorem r6 : Reach P4 s6 :=
  Reach.step r5 (Step.decide s5 0 1 7 h0 rfl (quorum013 _ _ (by decide) (by decide)))

def s7 : State :=
  { setNode s6 1 { s6.nodes 1 with round := 1, decided := some (1, 7) } with
      hist := s6.hist ++ [.decide 1 1 7] }
theorem r7 : Reach P4 s7 :=
  Reach.step r6 (Step.decide s6 1 1 7 h1 rfl (quorum013 _ _ (by decide) (by decide)))

end Run4

end CharonV.QbftSpec
