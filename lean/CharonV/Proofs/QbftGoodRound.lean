/-
C04 (liveness core), part 3: a *good round* decides — for every cluster size, every leader function,
every oracle (Go map order) at every step, and every arrival order of the messages of a phase.

The execution model. Members are independent `NodeState`s driven by `step` (`Model/Qbft.lean`).
The members of `R` (duplicate-free, at least a quorum) are running; everybody else is silent for the
whole execution. An execution is a sequence of *phases* (`phase`): in a phase every running member
executes a schedule of events, its broadcasts are collected as wire messages (`wire`: the
attachments are the justification cores, like the production transport) and handed to the next
phase. `deliverAll` is one network round trip: all messages of the previous phase are delivered
with `CmpOut.ok` to every running member (own messages included, as in production), to member `p`
in the order `env.ord ph p msgs` (any permutation, `Env.Fair`) and with the oracles `env.orc ph p i`.
No timer fires inside a good round.

Main results (`goodRound1_decides`, `goodRoundR_decides`; restated in `Props/C04Live.lean`):
every member of `R` ends running, decided on the leader's input, with exactly one `decide` output
and no `bug`/`unjust` output. Needed of the FIFO limit: `3 ≤ d.fifo` (round 1) / `4 ≤ d.fifo`
(round `r ≥ 2`) — per source a member buffers at most ROUND-CHANGE, PRE-PREPARE, PREPARE, COMMIT.

Structure of the proof:
* `filterMsgs_length_eq`: `filterMsgs` keeps exactly one core per matching source;
* `BufIs` / `mem_flatten_bufIs` / `count_delivered`: without trimming the buffer is a function of the
  delivered messages, and `flatten` — for every oracle order — holds exactly their cores;
* `step_prePrepare`, `step_prepare`, `step_commit`, `step_rc_*`: one step of an undecided member for
  each message type of a good round, for an arbitrary buffer;
* `thresh_run`: a phase in which one message per member arrives and a rule fires at the quorum-th;
* `pp_run`, `prepare_run`, `commit_run`, `rc_run`: the phases of one member;
* `start_input`, `timeouts_run`, `local_r`: what precedes the good round;
* `good_tail`, `goodRound1_decides`, `goodRoundR_decides`: the cluster.
-/
import CharonV.Proofs.QbftLive

namespace CharonV.Qbft

/-! ### filterMsgs: the result has exactly one entry per matching source -/

/-- the matching condition of `filterMsgs` (as in `filterMsgs_sound`). -/
def Matches (typ round : Nat) (value pr pv : Option Nat) (c : Core) : Prop :=
  c.typ = typ ∧ c.round = round ∧ (∀ v, value = some v → c.value = v) ∧
    (∀ v, pr = some v → c.pr = v) ∧ (∀ v, pv = some v → c.pv = v)

theorem filterMsgs_go_complete (typ round : Nat) (value pr pv : Option Nat) :
    ∀ (l : List Core) (seen S : List Nat), S.Nodup →
      (∀ s ∈ S, s ∉ seen ∧ ∃ c ∈ l, Matches typ round value pr pv c ∧ c.src = s) →
      S.length ≤ (filterMsgs.go typ round value pr pv seen l).length := by
  intro l
  induction l with
  | nil =>
    intro seen S _ h
    cases S with
    | nil => simp
    | cons a as =>
      obtain ⟨_, c, hc, _⟩ := h a List.mem_cons_self
      cases hc
  | cons m ms ih =>
    intro seen S hnd h
    -- witnesses other than `m` live in `ms`
    have hskip : (¬ Matches typ round value pr pv m ∨ m.src ∈ seen) →
        S.length ≤ (filterMsgs.go typ round value pr pv seen ms).length := by
      intro hm
      apply ih seen S hnd
      intro s hs
      obtain ⟨h1, c, hc, hmc, hsrc⟩ := h s hs
      refine ⟨h1, c, ?_, hmc, hsrc⟩
      rcases List.mem_cons.mp hc with rfl | hc'
      · rcases hm with hm | hm
        · exact absurd hmc hm
        · exact absurd (hsrc ▸ hm) h1
      · exact hc'
    unfold filterMsgs.go
    split
    · rename_i h1
      exact hskip (Or.inl (fun hm => by rcases h1 with h1 | h1; exact h1 hm.1; exact h1 hm.2.1))
    · rename_i h1
      split
      · rename_i h2
        apply hskip; left; intro hm
        cases value with
        | none => simp [optNe] at h2
        | some v => simp [optNe] at h2; exact h2 (hm.2.2.1 v rfl)
      · rename_i h2
        split
        · rename_i h3
          apply hskip; left; intro hm
          cases pv with
          | none => simp [optNe] at h3
          | some v => simp [optNe] at h3; exact h3 (hm.2.2.2.2 v rfl)
        · rename_i h3
          split
          · rename_i h4
            apply hskip; left; intro hm
            cases pr with
            | none => simp [optNe] at h4
            | some v => simp [optNe] at h4; exact h4 (hm.2.2.2.1 v rfl)
          · rename_i h4
            split
            · rename_i h5
              exact hskip (Or.inr h5)
            · rename_i h5
              have hlen : S.length ≤ (S.erase m.src).length + 1 := by
                have := List.length_erase (a := m.src) (l := S)
                split at this <;> omega
              have := ih (m.src :: seen) (S.erase m.src) (hnd.erase _) (by
                intro s hs
                have hsS : s ∈ S := List.mem_of_mem_erase hs
                have hne : s ≠ m.src := by
                  intro he; subst he
                  exact (List.Nodup.not_mem_erase hnd) hs
                obtain ⟨h1', c, hc, hmc, hsrc⟩ := h s hsS
                refine ⟨?_, c, ?_, hmc, hsrc⟩
                · intro hmem
                  rcases List.mem_cons.mp hmem with h' | h'
                  · exact hne h'
                  · exact h1' h'
                · rcases List.mem_cons.mp hc with rfl | hc'
                  · exact absurd hsrc.symm hne
                  · exact hc')
              simp only [List.length_cons]
              omega

/-- lower bound: every source of a duplicate-free list `S` with a matching core is kept. -/
theorem filterMsgs_length_ge {l : List Core} {typ round : Nat} {value pr pv : Option Nat}
    (S : List Nat) (hS : S.Nodup)
    (h : ∀ s ∈ S, ∃ c ∈ l, Matches typ round value pr pv c ∧ c.src = s) :
    S.length ≤ (filterMsgs l typ round value pr pv).length :=
  filterMsgs_go_complete typ round value pr pv l [] S hS (fun s hs => ⟨by simp, h s hs⟩)

/-- upper bound: if all matching cores come from sources in `S`. -/
theorem filterMsgs_length_le' {l : List Core} {typ round : Nat} {value pr pv : Option Nat}
    (S : List Nat) (h : ∀ c ∈ l, Matches typ round value pr pv c → c.src ∈ S) :
    (filterMsgs l typ round value pr pv).length ≤ S.length := by
  have := nodup_subset_length ((filterMsgs l typ round value pr pv).map (·.src)) S
    (filterMsgs_nodup _ _ _ _ _ _) (by
      intro s hs
      obtain ⟨c, hc, rfl⟩ := List.mem_map.mp hs
      have hsd := filterMsgs_sound hc
      exact h c hsd.1 ⟨hsd.2.1, hsd.2.2.1, hsd.2.2.2.1, hsd.2.2.2.2.1, hsd.2.2.2.2.2⟩)
  simpa using this

theorem filterMsgs_length_eq {l : List Core} {typ round : Nat} {value pr pv : Option Nat}
    (S : List Nat) (hS : S.Nodup)
    (h1 : ∀ s ∈ S, ∃ c ∈ l, Matches typ round value pr pv c ∧ c.src = s)
    (h2 : ∀ c ∈ l, Matches typ round value pr pv c → c.src ∈ S) :
    (filterMsgs l typ round value pr pv).length = S.length :=
  Nat.le_antisymm (filterMsgs_length_le' S h2) (filterMsgs_length_ge S hS h1)

/-! ### The buffer as a function of the delivered messages -/

/-- every core (message or attachment) of a list of messages. -/
def coresOf (del : List Msg) : List Core := del.flatMap (fun m => m.core :: m.just)

/-- `buf` is exactly what `bufferMsg` builds from the delivered messages `del` when nothing was
trimmed: one FIFO per source holding that source's messages in delivery order. -/
def BufIs (buf : List (Nat × List Msg)) (del : List Msg) : Prop :=
  (buf.map (·.1)).Nodup ∧
  (∀ e ∈ buf, e.2 = del.filter (fun x => x.core.src == e.1)) ∧
  (∀ x ∈ del, x.core.src ∈ buf.map (·.1))

theorem bufIs_nil : BufIs [] [] := ⟨by simp, by simp, by simp⟩

theorem bufIs_bufferMsg {fifo : Nat} {buf : List (Nat × List Msg)} {del : List Msg} {m : Msg}
    (h : BufIs buf del)
    (hf : ((del ++ [m]).filter (fun x => x.core.src == m.core.src)).length ≤ fifo) :
    BufIs (bufferMsg fifo buf m) (del ++ [m]) := by
  obtain ⟨hnd, hent, hkeys⟩ := h
  unfold bufferMsg
  simp only
  split
  · rename_i hany
    have hmap : (buf.map (fun e => if e.1 == m.core.src then
        (e.1, if (e.2 ++ [m]).length > fifo then (e.2 ++ [m]).drop ((e.2 ++ [m]).length - fifo)
              else e.2 ++ [m]) else e)).map (·.1) = buf.map (·.1) := by
      rw [List.map_map]
      apply List.map_congr_left
      intro e _
      simp only [Function.comp]
      split <;> rfl
    refine ⟨by rw [hmap]; exact hnd, ?_, ?_⟩
    · intro e he
      obtain ⟨e0, he0, rfl⟩ := List.mem_map.mp he
      have h0 := hent e0 he0
      split
      · rename_i hk
        have hk' : e0.1 = m.core.src := eq_of_beq hk
        have hnew : (del ++ [m]).filter (fun x => x.core.src == e0.1) = e0.2 ++ [m] := by
          rw [List.filter_append, ← h0]
          simp [hk']
        simp only
        rw [hk'] at hnew
        rw [hnew] at hf
        rw [if_neg (by omega), hk', hnew]
      · rename_i hk
        have hk' : (m.core.src == e0.1) = false := by
          cases hb : (m.core.src == e0.1) with
          | false => rfl
          | true => exact absurd (by rw [eq_of_beq hb]; simp) hk
        rw [List.filter_append, ← h0]
        simp [hk']
    · intro x hx
      rw [hmap]
      rcases List.mem_append.mp hx with hx | hx
      · exact hkeys x hx
      · simp only [List.mem_singleton] at hx
        subst hx
        exact (any_key_iff buf x.core.src).mp hany
  · rename_i hany
    have hk : m.core.src ∉ buf.map (·.1) := fun hm => hany ((any_key_iff buf m.core.src).mpr hm)
    have hnone : del.filter (fun x => x.core.src == m.core.src) = [] := by
      rw [List.filter_eq_nil_iff]
      intro x hx hb
      exact hk (eq_of_beq hb ▸ hkeys x hx)
    have hnew : (del ++ [m]).filter (fun x => x.core.src == m.core.src) = [m] := by
      rw [List.filter_append, hnone]; simp
    rw [hnew] at hf
    simp only [List.length_singleton] at hf
    refine ⟨?_, ?_, ?_⟩
    · rw [List.map_append, List.nodup_append]
      refine ⟨hnd, by simp, ?_⟩
      intro a ha b hb
      simp only [List.map_cons, List.map_nil, List.mem_singleton] at hb
      subst hb
      intro hab; subst hab; exact hk ha
    · intro e he
      rcases List.mem_append.mp he with he | he
      · have h0 := hent e he
        have hne : (m.core.src == e.1) = false := by
          cases hb : (m.core.src == e.1) with
          | false => rfl
          | true => exact absurd (eq_of_beq hb ▸ List.mem_map.mpr ⟨e, he, rfl⟩) hk
        rw [List.filter_append, ← h0]
        simp [hne]
      · simp only [List.mem_singleton] at he
        subst he
        simp only [List.length_singleton]
        rw [if_neg (by omega), hnew]
    · intro x hx
      rw [List.map_append]
      rcases List.mem_append.mp hx with hx | hx
      · exact List.mem_append_left _ (hkeys x hx)
      · simp only [List.mem_singleton] at hx
        subst hx
        simp

theorem keys_nodup_unique {buf : List (Nat × List Msg)} (hnd : (buf.map (·.1)).Nodup)
    {e e' : Nat × List Msg} (he : e ∈ buf) (he' : e' ∈ buf) (hk : e.1 = e'.1) : e = e' := by
  induction buf with
  | nil => cases he
  | cons a as ih =>
    simp only [List.map_cons, List.nodup_cons] at hnd
    rcases List.mem_cons.mp he with h1 | h1
    · rcases List.mem_cons.mp he' with h2 | h2
      · rw [h1, h2]
      · exact (hnd.1 (List.mem_map.mpr ⟨e', h2, by rw [← hk, h1]⟩)).elim
    · rcases List.mem_cons.mp he' with h2 | h2
      · exact (hnd.1 (List.mem_map.mpr ⟨e, h1, by rw [hk, h2]⟩)).elim
      · exact ih hnd.2 h1 h2

theorem mem_orderBuffer_of_mem {ord : List Nat} {buf : List (Nat × List Msg)}
    (hnd : (buf.map (·.1)).Nodup) {e : Nat × List Msg} (he : e ∈ buf) : e ∈ orderBuffer ord buf := by
  unfold orderBuffer
  by_cases hc : ord.contains e.1 = true
  · apply List.mem_append_left
    rw [List.mem_filterMap]
    refine ⟨e.1, by simpa using hc, ?_⟩
    cases hf : buf.find? (fun e' => e'.1 == e.1) with
    | none =>
      have := List.find?_eq_none.mp hf e he
      simp at this
    | some e' =>
      have h1 := List.mem_of_find?_eq_some hf
      have h2 : e'.1 = e.1 := by
        have := List.find?_some hf
        exact eq_of_beq this
      rw [keys_nodup_unique hnd h1 he h2]
  · apply List.mem_append_right
    rw [List.mem_filter]
    exact ⟨he, by simpa using hc⟩

/-- for every oracle order: the flattened buffer holds exactly the cores of the delivered messages. -/
theorem mem_flatten_bufIs {ord : List Nat} {buf : List (Nat × List Msg)} {del : List Msg}
    (h : BufIs buf del) (c : Core) : c ∈ flatten ord buf ↔ c ∈ coresOf del := by
  obtain ⟨hnd, hent, hkeys⟩ := h
  unfold coresOf
  constructor
  · intro hc
    obtain ⟨e, he, x, hx, hcx⟩ := mem_flatten hc
    rw [hent e he] at hx
    rw [List.mem_flatMap]
    refine ⟨x, (List.mem_filter.mp hx).1, ?_⟩
    rcases hcx with rfl | hcx
    · exact List.mem_cons_self
    · exact List.mem_cons_of_mem _ hcx
  · intro hc
    obtain ⟨x, hx, hcx⟩ := List.mem_flatMap.mp hc
    obtain ⟨e, he, hk⟩ := List.mem_map.mp (hkeys x hx)
    unfold flatten
    rw [List.mem_flatMap]
    refine ⟨e, mem_orderBuffer_of_mem hnd he, ?_⟩
    rw [List.mem_flatMap]
    refine ⟨x, ?_, hcx⟩
    rw [hent e he, List.mem_filter]
    exact ⟨hx, by simp [hk]⟩

theorem started_eta (s : NodeState) (h : s.started = true) :
    ({ s with started := true } : NodeState) = s := by
  cases s; simp only at h; subst h; rfl

theorem step_recv_undecided {d : Def} {o : Oracle} {s : NodeState} {m : Msg} {c : CmpOut}
    (hd : s.dead = false) (hs : s.started = true) (hq : s.qCommit = [])
    (hj : isJustified d m s.compareFailureRound = some true)
    (hb : (onRecvJustified d o s m c).2.any Out.isBug = false) :
    step d o s (.recv m c) = onRecvJustified d o s m c := by
  have hcore : stepCore d o s (.recv m c) = onRecvJustified d o s m c := by
    unfold stepCore
    simp only [hq, List.isEmpty_nil, Bool.not_true, Bool.false_eq_true, if_false, hj]
  unfold step
  rw [started_eta s hs, hcore]
  simp only [hd, hs, Event.isStart, Bool.false_eq_true, if_false, beq_iff_eq, Bool.true_eq_false, hb]

/-! ### classify on the message types of a good round -/

theorem classify_prePrepare {d : Def} {o : Oracle} {round proc : Nat} {buf : List (Nat × List Msg)}
    {m : Msg} (ht : m.core.typ = tPrePrepare) (hr : round ≤ m.core.round) :
    classify d o round proc buf m = some (uJustifiedPrePrepare, []) := by
  unfold classify
  simp only [ht]
  rw [if_neg (by decide), if_pos trivial, if_neg (by omega)]

theorem classify_prepare {d : Def} {o : Oracle} {round proc : Nat} {buf : List (Nat × List Msg)}
    {m : Msg} (ht : m.core.typ = tPrepare) (hr : m.core.round = round) :
    classify d o round proc buf m =
      if d.quorum ≤ (filterByRoundAndValue (flatten o.srcOrd buf) tPrepare m.core.round m.core.value).length
      then some (uQuorumPrepares,
        filterByRoundAndValue (flatten o.srcOrd buf) tPrepare m.core.round m.core.value)
      else some (uNothing, []) := by
  unfold classify
  simp only [ht]
  rw [if_neg (by decide), if_neg (by decide), if_pos trivial, if_neg (by omega)]

theorem classify_commit {d : Def} {o : Oracle} {round proc : Nat} {buf : List (Nat × List Msg)}
    {m : Msg} (ht : m.core.typ = tCommit) (hr : m.core.round = round) :
    classify d o round proc buf m =
      if d.quorum ≤ (filterByRoundAndValue (flatten o.srcOrd buf) tCommit m.core.round m.core.value).length
      then some (uQuorumCommits,
        filterByRoundAndValue (flatten o.srcOrd buf) tCommit m.core.round m.core.value)
      else some (uNothing, []) := by
  unfold classify
  simp only [ht]
  rw [if_neg (by decide), if_neg (by decide), if_neg (by decide), if_pos trivial, if_neg (by omega)]

theorem classify_rc_below {d : Def} {o : Oracle} {round proc : Nat} {buf : List (Nat × List Msg)}
    {m : Msg} (ht : m.core.typ = tRoundChange) (hr : m.core.round = round)
    (hlt : (filterRoundChange (flatten o.srcOrd buf) round).length < d.quorum) :
    classify d o round proc buf m = some (uNothing, []) := by
  unfold classify
  simp only [ht]
  rw [if_neg (by decide), if_neg (by decide), if_neg (by decide), if_neg (by decide), if_pos trivial,
    if_neg (by omega), if_neg (by omega), hr, if_pos hlt]

theorem classify_rc_quorum {d : Def} {o : Oracle} {round proc : Nat} {buf : List (Nat × List Msg)}
    {m : Msg} {qrc : List Core} (ht : m.core.typ = tRoundChange) (hr : m.core.round = round)
    (hge : d.quorum ≤ (filterRoundChange (flatten o.srcOrd buf) round).length)
    (hq : getJustifiedQrc d o.pqPerm (flatten o.srcOrd buf) round = some qrc) :
    classify d o round proc buf m =
      if d.leader round ≠ proc then some (uNothing, []) else some (uQuorumRoundChanges, qrc) := by
  unfold classify
  simp only [ht]
  rw [if_neg (by decide), if_neg (by decide), if_neg (by decide), if_neg (by decide), if_pos trivial,
    if_neg (by omega), if_neg (by omega), hr, if_neg (by omega), hq]

theorem onRecvJustified_nothing {d : Def} {o : Oracle} {s : NodeState} {m : Msg} {cmp : CmpOut}
    {just : List Core}
    (hcl : classify d o s.round s.proc (bufferMsg d.fifo s.buffer m) m = some (uNothing, just)) :
    onRecvJustified d o s m cmp = ({ s with buffer := bufferMsg d.fifo s.buffer m }, []) := by
  unfold onRecvJustified
  simp only [hcl, if_true]

theorem onRecvJustified_dup {d : Def} {o : Oracle} {s : NodeState} {m : Msg} {cmp : CmpOut}
    {rule : Nat} {just : List Core}
    (hcl : classify d o s.round s.proc (bufferMsg d.fifo s.buffer m) m = some (rule, just))
    (hdd : (rule, m.core.round) ∈ s.dedup) :
    onRecvJustified d o s m cmp = ({ s with buffer := bufferMsg d.fifo s.buffer m }, []) := by
  unfold onRecvJustified
  simp only [hcl]
  split
  · rfl
  · rw [if_pos (by simpa using hdd)]

theorem isJustified_plain (d : Def) {m : Msg} (cfr : Nat)
    (h : m.core.typ = tPrepare ∨ m.core.typ = tCommit) : isJustified d m cfr = some true := by
  unfold isJustified
  rcases h with h | h <;> simp [h, tPrepare, tCommit, tPrePrepare]

/-! ### single steps of a good round -/

/-- a justified PRE-PREPARE for the current round, first one: record, restart the timer, PREPARE. -/
theorem step_prePrepare {d : Def} {o : Oracle} {s : NodeState} {m : Msg}
    (hd : s.dead = false) (hs : s.started = true) (hq : s.qCommit = [])
    (hj : isJustified d m s.compareFailureRound = some true)
    (ht : m.core.typ = tPrePrepare) (hr : m.core.round = s.round)
    (hdd : (uJustifiedPrePrepare, m.core.round) ∉ s.dedup) :
    step d o s (.recv m .ok) =
      ({ s with buffer := bufferMsg d.fifo s.buffer m,
                dedup := (uJustifiedPrePrepare, m.core.round) :: s.dedup, timerOn := true },
       [.rule uJustifiedPrePrepare s.round, .stopTimer, .newTimer s.round,
        .bcast tPrepare s.round m.core.value 0 0 []]) := by
  have hcl : classify d o s.round s.proc (bufferMsg d.fifo s.buffer m) m =
      some (uJustifiedPrePrepare, []) := classify_prePrepare ht (by omega)
  have hrj := onRecvJustified_of_classify (cmp := .ok) hcl (by decide) hdd
  rw [onRule_pp] at hrj
  have hpp : onPrePrepare
        { s with buffer := bufferMsg d.fifo s.buffer m,
                 dedup := (uJustifiedPrePrepare, m.core.round) :: s.dedup } m .ok =
      ({ s with buffer := bufferMsg d.fifo s.buffer m,
                dedup := (uJustifiedPrePrepare, m.core.round) :: s.dedup, timerOn := true },
       [.stopTimer, .newTimer s.round, .bcast tPrepare s.round m.core.value 0 0 []]) := by
    unfold onPrePrepare changeRound
    simp [hr, bcastMsg]
  rw [hpp] at hrj
  rw [step_recv_undecided hd hs hq hj (by rw [hrj]; simp [Out.isBug]), hrj]

/-- a PREPARE for the current round: nothing below the quorum or after the rule fired; at the
quorum the node records the prepared state and broadcasts its COMMIT. -/
theorem step_prepare {d : Def} {o : Oracle} {s : NodeState} {m : Msg}
    (hd : s.dead = false) (hs : s.started = true) (hq : s.qCommit = [])
    (ht : m.core.typ = tPrepare) (hr : m.core.round = s.round) :
    step d o s (.recv m .ok) =
      if d.quorum ≤ (filterByRoundAndValue (flatten o.srcOrd (bufferMsg d.fifo s.buffer m))
            tPrepare m.core.round m.core.value).length ∧ (uQuorumPrepares, m.core.round) ∉ s.dedup then
        ({ s with buffer := bufferMsg d.fifo s.buffer m,
                  dedup := (uQuorumPrepares, m.core.round) :: s.dedup,
                  preparedRound := s.round, preparedValue := m.core.value,
                  preparedJust := filterByRoundAndValue
                    (flatten o.srcOrd (bufferMsg d.fifo s.buffer m)) tPrepare m.core.round m.core.value },
         [.rule uQuorumPrepares s.round, .bcast tCommit s.round m.core.value 0 0 []])
      else ({ s with buffer := bufferMsg d.fifo s.buffer m }, []) := by
  have hj := isJustified_plain d (m := m) s.compareFailureRound (Or.inl ht)
  have hcl := classify_prepare (d := d) (o := o) (proc := s.proc)
    (buf := bufferMsg d.fifo s.buffer m) ht hr
  split
  · rename_i h
    rw [if_pos h.1] at hcl
    have hrj := onRecvJustified_of_classify (cmp := .ok) hcl (by decide) h.2
    rw [onRule_qp] at hrj
    rw [step_recv_undecided hd hs hq hj (by rw [hrj]; simp [onQuorumPrepares, bcastMsg, Out.isBug]), hrj]
    simp [onQuorumPrepares, bcastMsg]
  · rename_i h
    by_cases hlen : d.quorum ≤ (filterByRoundAndValue (flatten o.srcOrd (bufferMsg d.fifo s.buffer m))
            tPrepare m.core.round m.core.value).length
    · rw [if_pos hlen] at hcl
      have hdd : (uQuorumPrepares, m.core.round) ∈ s.dedup := by
        apply Classical.byContradiction; intro hc; exact h ⟨hlen, hc⟩
      have hrj := onRecvJustified_dup (cmp := .ok) hcl hdd
      rw [step_recv_undecided hd hs hq hj (by rw [hrj]; rfl), hrj]
    · rw [if_neg hlen] at hcl
      have hrj := onRecvJustified_nothing (cmp := .ok) hcl
      rw [step_recv_undecided hd hs hq hj (by rw [hrj]; rfl), hrj]

/-- a COMMIT for the current round: at the quorum the node decides. -/
theorem step_commit {d : Def} {o : Oracle} {s : NodeState} {m : Msg}
    (hd : s.dead = false) (hs : s.started = true) (hq : s.qCommit = [])
    (ht : m.core.typ = tCommit) (hr : m.core.round = s.round) :
    step d o s (.recv m .ok) =
      if d.quorum ≤ (filterByRoundAndValue (flatten o.srcOrd (bufferMsg d.fifo s.buffer m))
            tCommit m.core.round m.core.value).length ∧ (uQuorumCommits, m.core.round) ∉ s.dedup then
        ({ s with buffer := bufferMsg d.fifo s.buffer m,
                  dedup := (uQuorumCommits, m.core.round) :: s.dedup,
                  qCommit := filterByRoundAndValue
                    (flatten o.srcOrd (bufferMsg d.fifo s.buffer m)) tCommit m.core.round m.core.value,
                  qCommitValue := m.core.value, timerOn := false },
         [.rule uQuorumCommits s.round, .stopTimer,
          .decide m.core.value m.core.round (filterByRoundAndValue
            (flatten o.srcOrd (bufferMsg d.fifo s.buffer m)) tCommit m.core.round m.core.value)])
      else ({ s with buffer := bufferMsg d.fifo s.buffer m }, []) := by
  have hj := isJustified_plain d (m := m) s.compareFailureRound (Or.inr ht)
  have hcl := classify_commit (d := d) (o := o) (proc := s.proc)
    (buf := bufferMsg d.fifo s.buffer m) ht hr
  split
  · rename_i h
    rw [if_pos h.1] at hcl
    have hrj := onRecvJustified_of_classify (cmp := .ok) hcl (by decide) h.2
    rw [onRule_qc] at hrj
    have hd' : onDecide
          { s with buffer := bufferMsg d.fifo s.buffer m,
                   dedup := (uQuorumCommits, m.core.round) :: s.dedup } m uQuorumCommits
          (filterByRoundAndValue (flatten o.srcOrd (bufferMsg d.fifo s.buffer m)) tCommit
            m.core.round m.core.value) =
        ({ s with buffer := bufferMsg d.fifo s.buffer m,
                  dedup := (uQuorumCommits, m.core.round) :: s.dedup,
                  qCommit := filterByRoundAndValue
                    (flatten o.srcOrd (bufferMsg d.fifo s.buffer m)) tCommit m.core.round m.core.value,
                  qCommitValue := m.core.value, timerOn := false },
         [.stopTimer, .decide m.core.value m.core.round (filterByRoundAndValue
            (flatten o.srcOrd (bufferMsg d.fifo s.buffer m)) tCommit m.core.round m.core.value)]) := by
      unfold onDecide changeRound
      simp [hr]
    rw [hd'] at hrj
    rw [step_recv_undecided hd hs hq hj (by rw [hrj]; simp [Out.isBug]), hrj]
  · rename_i h
    by_cases hlen : d.quorum ≤ (filterByRoundAndValue (flatten o.srcOrd (bufferMsg d.fifo s.buffer m))
            tCommit m.core.round m.core.value).length
    · rw [if_pos hlen] at hcl
      have hdd : (uQuorumCommits, m.core.round) ∈ s.dedup := by
        apply Classical.byContradiction; intro hc; exact h ⟨hlen, hc⟩
      have hrj := onRecvJustified_dup (cmp := .ok) hcl hdd
      rw [step_recv_undecided hd hs hq hj (by rw [hrj]; rfl), hrj]
    · rw [if_neg hlen] at hcl
      have hrj := onRecvJustified_nothing (cmp := .ok) hcl
      rw [step_recv_undecided hd hs hq hj (by rw [hrj]; rfl), hrj]


theorem getJustifiedQrc_null {d : Def} {k : Nat} {all : List Core} {round : Nat}
    (h : d.quorum ≤ (filterMsgs all tRoundChange round none (some 0) (some 0)).length) :
    getJustifiedQrc d k all round = some (filterMsgs all tRoundChange round none (some 0) (some 0)) := by
  unfold getJustifiedQrc
  simp only
  rw [if_pos h]

theorem step_rc_below {d : Def} {o : Oracle} {s : NodeState} {m : Msg}
    (hd : s.dead = false) (hs : s.started = true) (hq : s.qCommit = [])
    (hj : isJustified d m s.compareFailureRound = some true)
    (ht : m.core.typ = tRoundChange) (hr : m.core.round = s.round)
    (hlt : (filterRoundChange (flatten o.srcOrd (bufferMsg d.fifo s.buffer m)) s.round).length < d.quorum) :
    step d o s (.recv m .ok) = ({ s with buffer := bufferMsg d.fifo s.buffer m }, []) := by
  have hcl := classify_rc_below (d := d) (o := o) (proc := s.proc) ht hr hlt
  have hrj := onRecvJustified_nothing (cmp := .ok) hcl
  rw [step_recv_undecided hd hs hq hj (by rw [hrj]; rfl), hrj]

theorem step_rc_nonleader {d : Def} {o : Oracle} {s : NodeState} {m : Msg}
    (hd : s.dead = false) (hs : s.started = true) (hq : s.qCommit = [])
    (hj : isJustified d m s.compareFailureRound = some true)
    (ht : m.core.typ = tRoundChange) (hr : m.core.round = s.round)
    (hge : d.quorum ≤ (filterRoundChange (flatten o.srcOrd (bufferMsg d.fifo s.buffer m)) s.round).length)
    (hqn : d.quorum ≤ (filterMsgs (flatten o.srcOrd (bufferMsg d.fifo s.buffer m)) tRoundChange s.round
      none (some 0) (some 0)).length)
    (hl : d.leader s.round ≠ s.proc) :
    step d o s (.recv m .ok) = ({ s with buffer := bufferMsg d.fifo s.buffer m }, []) := by
  have hcl := classify_rc_quorum (d := d) (o := o) (proc := s.proc) ht hr hge (getJustifiedQrc_null hqn)
  rw [if_pos hl] at hcl
  have hrj := onRecvJustified_nothing (cmp := .ok) hcl
  rw [step_recv_undecided hd hs hq hj (by rw [hrj]; rfl), hrj]

theorem step_rc_dup {d : Def} {o : Oracle} {s : NodeState} {m : Msg}
    (hd : s.dead = false) (hs : s.started = true) (hq : s.qCommit = [])
    (hj : isJustified d m s.compareFailureRound = some true)
    (ht : m.core.typ = tRoundChange) (hr : m.core.round = s.round)
    (hge : d.quorum ≤ (filterRoundChange (flatten o.srcOrd (bufferMsg d.fifo s.buffer m)) s.round).length)
    (hqn : d.quorum ≤ (filterMsgs (flatten o.srcOrd (bufferMsg d.fifo s.buffer m)) tRoundChange s.round
      none (some 0) (some 0)).length)
    (hdd : (uQuorumRoundChanges, m.core.round) ∈ s.dedup) :
    step d o s (.recv m .ok) = ({ s with buffer := bufferMsg d.fifo s.buffer m }, []) := by
  have hcl := classify_rc_quorum (d := d) (o := o) (proc := s.proc) ht hr hge (getJustifiedQrc_null hqn)
  have hrj : onRecvJustified d o s m .ok = ({ s with buffer := bufferMsg d.fifo s.buffer m }, []) := by
    split at hcl
    · exact onRecvJustified_nothing hcl
    · exact onRecvJustified_dup hcl hdd
  rw [step_recv_undecided hd hs hq hj (by rw [hrj]; rfl), hrj]

/-- the leader of the current round receives the quorum-th null ROUND-CHANGE: it proposes its own
input, justified by the null quorum. -/
theorem step_rc_leader {d : Def} {o : Oracle} {s : NodeState} {m : Msg} (hq1 : 1 ≤ d.quorum)
    (hd : s.dead = false) (hs : s.started = true) (hq : s.qCommit = [])
    (hj : isJustified d m s.compareFailureRound = some true)
    (ht : m.core.typ = tRoundChange) (hr : m.core.round = s.round)
    (hge : d.quorum ≤ (filterRoundChange (flatten o.srcOrd (bufferMsg d.fifo s.buffer m)) s.round).length)
    (hqn : d.quorum ≤ (filterMsgs (flatten o.srcOrd (bufferMsg d.fifo s.buffer m)) tRoundChange s.round
      none (some 0) (some 0)).length)
    (hl : d.leader s.round = s.proc) (hdd : (uQuorumRoundChanges, m.core.round) ∉ s.dedup)
    (hcache : s.ppjCache = none) (hin : s.inputValue ≠ 0) :
    step d o s (.recv m .ok) =
      ({ s with buffer := bufferMsg d.fifo s.buffer m,
                dedup := (uQuorumRoundChanges, m.core.round) :: s.dedup },
       [.rule uQuorumRoundChanges s.round,
        .bcast tPrePrepare s.round s.inputValue 0 0
          (filterMsgs (flatten o.srcOrd (bufferMsg d.fifo s.buffer m)) tRoundChange s.round
            none (some 0) (some 0))]) := by
  have hcl := classify_rc_quorum (d := d) (o := o) (proc := s.proc) ht hr hge (getJustifiedQrc_null hqn)
  rw [if_neg (by simp [hl])] at hcl
  have hrj := onRecvJustified_of_classify (cmp := .ok) hcl (by decide) hdd
  rw [onRule_qrc] at hrj
  have hsingle : getSingleJustifiedPrPv d (filterMsgs (flatten o.srcOrd (bufferMsg d.fifo s.buffer m))
      tRoundChange s.round none (some 0) (some 0)) = (0, 0, false) := by
    apply getSingle_no_prepare d hq1
    intro c hc
    rw [(filterMsgs_sound hc).2.1]
    exact tRoundChange_ne_tPrepare
  have hqrc : onQuorumRoundChanges d
        { s with buffer := bufferMsg d.fifo s.buffer m,
                 dedup := (uQuorumRoundChanges, m.core.round) :: s.dedup }
        (filterMsgs (flatten o.srcOrd (bufferMsg d.fifo s.buffer m)) tRoundChange s.round
          none (some 0) (some 0)) =
      ({ s with buffer := bufferMsg d.fifo s.buffer m,
                dedup := (uQuorumRoundChanges, m.core.round) :: s.dedup },
       [.bcast tPrePrepare s.round s.inputValue 0 0
          (filterMsgs (flatten o.srcOrd (bufferMsg d.fifo s.buffer m)) tRoundChange s.round
            none (some 0) (some 0))]) := by
    unfold onQuorumRoundChanges
    simp only [hsingle]
    rw [if_neg (by simp)]
    unfold bcastOwnPrePrepare
    simp [hcache, hin, bcastMsg]
  rw [hqrc] at hrj
  rw [step_recv_undecided hd hs hq hj (by rw [hrj]; simp [Out.isBug]), hrj]

theorem step_recv_decided {d : Def} {o : Oracle} {s : NodeState} {m : Msg} {c : CmpOut}
    (hd : s.dead = false) (hs : s.started = true) (hq : s.qCommit ≠ [])
    (ht : m.core.typ ≠ tRoundChange) :
    step d o s (.recv m c) = (s, []) := by
  have hcore : stepCore d o s (.recv m c) = (s, []) := by
    unfold stepCore
    have : (!s.qCommit.isEmpty) = true := by
      cases h : s.qCommit with
      | nil => exact absurd h hq
      | cons a as => rfl
    simp only [this, if_true]
    unfold onRecvDecided
    rw [if_neg (fun h => ht h.2)]
  unfold step
  rw [started_eta s hs, hcore]
  simp [hd, hs, Event.isStart]

theorem step_timeout {d : Def} {o : Oracle} {s : NodeState}
    (hd : s.dead = false) (hs : s.started = true) (ht : s.timerOn = true) :
    step d o s .timeout =
      ({ s with round := s.round + 1, dedup := [], ppjCache := none, timerOn := true },
       [.roundChange s.round (s.round + 1) uRoundTimeout, .stopTimer, .newTimer (s.round + 1),
        .bcast tRoundChange (s.round + 1) 0 s.preparedRound s.preparedValue s.preparedJust]) := by
  unfold step
  rw [started_eta s hs]
  simp [hd, hs, Event.isStart, stepCore, onTimeout, ht, changeRound, bcastRoundChange, Out.isBug]

/-! ### Wire messages of a good round -/

def rcMsg (r p : Nat) : Msg := { core := ⟨tRoundChange, p, r, 0, 0, 0⟩, just := [] }
def ppMsg (r v : Nat) (J : List Core) (p : Nat) : Msg :=
  { core := ⟨tPrePrepare, p, r, v, 0, 0⟩, just := J }
def prepMsg (r v p : Nat) : Msg := { core := ⟨tPrepare, p, r, v, 0, 0⟩, just := [] }
def commitMsg (r v p : Nat) : Msg := { core := ⟨tCommit, p, r, v, 0, 0⟩, just := [] }

theorem coresOf_append (a b : List Msg) : coresOf (a ++ b) = coresOf a ++ coresOf b := by
  unfold coresOf; exact List.flatMap_append

/-- counting for every oracle order: after `pre` (no core of type `typ`) and one attachment-free
matching message `mk q` from every `q ∈ T` (duplicate-free), the filter finds exactly `|T|`. -/
theorem count_delivered {ord : List Nat} {buf : List (Nat × List Msg)} {pre : List Msg}
    {T : List Nat} {mk : Nat → Msg} {typ r : Nat} {value pr pv : Option Nat}
    (hb : BufIs buf (pre ++ T.map mk)) (hT : T.Nodup)
    (hpre : ∀ c ∈ coresOf pre, c.typ ≠ typ)
    (hmk : ∀ q, Matches typ r value pr pv (mk q).core ∧ (mk q).core.src = q ∧ (mk q).just = []) :
    (filterMsgs (flatten ord buf) typ r value pr pv).length = T.length := by
  apply filterMsgs_length_eq T hT
  · intro s hs
    refine ⟨(mk s).core, ?_, (hmk s).1, (hmk s).2.1⟩
    rw [mem_flatten_bufIs hb, coresOf_append]
    apply List.mem_append_right
    unfold coresOf
    rw [List.mem_flatMap]
    exact ⟨mk s, List.mem_map.mpr ⟨s, hs, rfl⟩, List.mem_cons_self⟩
  · intro c hc hm
    rw [mem_flatten_bufIs hb, coresOf_append] at hc
    rcases List.mem_append.mp hc with hc | hc
    · exact absurd hm.1 (hpre c hc)
    · unfold coresOf at hc
      obtain ⟨x, hx, hcx⟩ := List.mem_flatMap.mp hc
      obtain ⟨q, hq, rfl⟩ := List.mem_map.mp hx
      rw [(hmk q).2.2] at hcx
      simp only [List.mem_cons, List.not_mem_nil, or_false] at hcx
      rw [hcx, (hmk q).2.1]
      exact hq

theorem filter_src_map_le_one {mk : Nat → Msg} (hsrc : ∀ q, (mk q).core.src = q) {R : List Nat}
    (hR : R.Nodup) (s : Nat) : ((R.map mk).filter (fun x => x.core.src == s)).length ≤ 1 := by
  induction R with
  | nil => simp
  | cons a as ih =>
    simp only [List.nodup_cons] at hR
    simp only [List.map_cons, List.filter_cons, hsrc]
    split
    · rename_i h
      have ha : a = s := eq_of_beq h
      have : (as.map mk).filter (fun x => x.core.src == s) = [] := by
        rw [List.filter_eq_nil_iff]
        intro x hx hb
        obtain ⟨q, hq, rfl⟩ := List.mem_map.mp hx
        rw [hsrc] at hb
        exact hR.1 (ha ▸ (eq_of_beq hb ▸ hq))
      rw [this]; simp
    · exact ih hR.2

/-! ### Runs with one oracle per step -/

def runO (d : Def) (s : NodeState) : List (Oracle × Event) → NodeState × List Out
  | [] => (s, [])
  | oe :: rest =>
    ((runO d (step d oe.1 s oe.2).1 rest).1, (step d oe.1 s oe.2).2 ++ (runO d (step d oe.1 s oe.2).1 rest).2)

/-- deliver `msgs` in order with `CmpOut.ok`; step `i` uses oracle `orc (k+i)`. -/
def recvs (orc : Nat → Oracle) : Nat → List Msg → List (Oracle × Event)
  | _, [] => []
  | k, m :: ms => (orc k, .recv m .ok) :: recvs orc (k + 1) ms

/-- events without a message (start / input / timeout): `step` ignores the oracle for them. -/
def locals (evs : List Event) : List (Oracle × Event) := evs.map (fun e => (({} : Oracle), e))

theorem runO_append (d : Def) (s : NodeState) (a b : List (Oracle × Event)) :
    runO d s (a ++ b) =
      ((runO d (runO d s a).1 b).1, (runO d s a).2 ++ (runO d (runO d s a).1 b).2) := by
  induction a generalizing s with
  | nil => simp [runO]
  | cons oe rest ih =>
    simp only [List.cons_append, runO]
    rw [ih]
    simp

/-- Threshold phases. The members of `R` send one message `msgOf a` each; they are delivered in the
order of `R`. If every single delivery maintains `Inv` (indexed by the senders delivered so far)
and produces output only at the `q`-th delivery, then the whole phase produces exactly that output
(if `1 ≤ q ≤ |R|`), for every choice of oracles. -/
theorem thresh_run (d : Def) (R : List Nat) (msgOf : Nat → Msg) (Inv : List Nat → NodeState → Prop)
    (Fire : List Out → Prop) (q : Nat)
    (hstep : ∀ (T : List Nat) (a : Nat) (s : NodeState) (o : Oracle), (∃ U, (T ++ [a]) ++ U = R) →
      Inv T s →
      Inv (T ++ [a]) (step d o s (.recv (msgOf a) .ok)).1 ∧
      (if T.length + 1 = q then Fire (step d o s (.recv (msgOf a) .ok)).2
       else (step d o s (.recv (msgOf a) .ok)).2 = [])) :
    ∀ (U T : List Nat) (s : NodeState) (orc : Nat → Oracle) (k : Nat), T ++ U = R → Inv T s →
      Inv R (runO d s (recvs orc k (U.map msgOf))).1 ∧
      (if T.length < q ∧ q ≤ R.length then Fire (runO d s (recvs orc k (U.map msgOf))).2
       else (runO d s (recvs orc k (U.map msgOf))).2 = []) := by
  intro U
  induction U with
  | nil =>
    intro T s orc k hTU hinv
    simp only [List.append_nil] at hTU
    subst hTU
    simp only [List.map_nil, recvs, runO]
    refine ⟨hinv, ?_⟩
    split
    · omega
    · trivial
  | cons a U ih =>
    intro T s orc k hTU hinv
    have hTU' : (T ++ [a]) ++ U = R := by simpa using hTU
    obtain ⟨h1, h2⟩ := hstep T a s (orc k) ⟨U, hTU'⟩ hinv
    obtain ⟨h3, h4⟩ := ih (T ++ [a]) _ orc (k + 1) hTU' h1
    have hlen : R.length = T.length + 1 + U.length := by
      rw [← hTU]; simp only [List.length_append, List.length_cons]; omega
    simp only [List.map_cons, recvs, runO]
    refine ⟨h3, ?_⟩
    simp only [List.length_append, List.length_singleton] at h4
    by_cases hq : T.length + 1 = q
    · rw [if_pos hq] at h2
      rw [if_neg (by omega)] at h4
      rw [if_pos (by omega), h4, List.append_nil]
      exact h2
    · rw [if_neg hq] at h2
      rw [h2, List.nil_append]
      by_cases hc : T.length < q ∧ q ≤ R.length
      · rw [if_pos hc]
        rw [if_pos (by omega)] at h4
        exact h4
      · rw [if_neg hc]
        rw [if_neg (by omega)] at h4
        exact h4

/-! ### Per-member state predicates -/

/-- a running, undecided member `p` in round `r` whose compare callback never failed. -/
structure Mid (r p : Nat) (s : NodeState) : Prop where
  dead : s.dead = false
  started : s.started = true
  round : s.round = r
  qc : s.qCommit = []
  cfr : s.compareFailureRound = 0
  proc : s.proc = p

/-- a running member that decided `v`. -/
structure Done (v : Nat) (s : NodeState) : Prop where
  dead : s.dead = false
  started : s.started = true
  qc : s.qCommit ≠ []
  qcv : s.qCommitValue = v

/-- The setting of a good round `r` with value `v`, seen from one member: `pre0` = what was delivered
to it before the PRE-PREPARE (nothing in round 1, the ROUND-CHANGEs otherwise; at most `b0` per
source), `J` = the justification attached to the leader's PRE-PREPARE, `R1` / `R2` = the senders of
the PREPAREs / COMMITs in the order in which their messages reach this member. -/
structure GoodCtx (d : Def) (R1 R2 : List Nat) (r v : Nat) (pre0 : List Msg) (J : List Core)
    (b0 : Nat) : Prop where
  nodup1 : R1.Nodup
  nodup2 : R2.Nodup
  quorum1 : d.quorum ≤ R1.length
  quorum2 : d.quorum ≤ R2.length
  qpos : 1 ≤ d.quorum
  pre0_rc : ∀ c ∈ coresOf pre0, c.typ = tRoundChange
  J_rc : ∀ c ∈ J, c.typ = tRoundChange
  pre0_len : ∀ s, (pre0.filter (fun x => x.core.src == s)).length ≤ b0
  fifo : b0 + 3 ≤ d.fifo
  ppJust : isJustified d (ppMsg r v J (d.leader r)) 0 = some true

/-- everything delivered to a member in the good round. -/
def fullDel (d : Def) (R1 R2 : List Nat) (r v : Nat) (pre0 : List Msg) (J : List Core) : List Msg :=
  pre0 ++ [ppMsg r v J (d.leader r)] ++ R1.map (prepMsg r v) ++ R2.map (commitMsg r v)

theorem GoodCtx.fifo_ok {d : Def} {R1 R2 : List Nat} {r v : Nat} {pre0 : List Msg} {J : List Core}
    {b0 : Nat} (hc : GoodCtx d R1 R2 r v pre0 J b0) {del : List Msg} {m : Msg}
    (hp : ∃ rest, (del ++ [m]) ++ rest = fullDel d R1 R2 r v pre0 J) :
    ((del ++ [m]).filter (fun x => x.core.src == m.core.src)).length ≤ d.fifo := by
  obtain ⟨rest, hrest⟩ := hp
  have h1 : ((del ++ [m]).filter (fun x => x.core.src == m.core.src)).length ≤
      ((fullDel d R1 R2 r v pre0 J).filter (fun x => x.core.src == m.core.src)).length := by
    rw [← hrest, List.filter_append (del ++ [m]), List.length_append]
    omega
  have h2 := hc.pre0_len m.core.src
  have h3 := filter_src_map_le_one (mk := prepMsg r v) (fun _ => rfl) hc.nodup1 m.core.src
  have h4 := filter_src_map_le_one (mk := commitMsg r v) (fun _ => rfl) hc.nodup2 m.core.src
  have h5 : ([ppMsg r v J (d.leader r)].filter (fun x => x.core.src == m.core.src)).length ≤ 1 := by
    have := List.length_filter_le (fun x : Msg => x.core.src == m.core.src) [ppMsg r v J (d.leader r)]
    simpa using this
  have hfifo := hc.fifo
  unfold fullDel at h1
  simp only [List.filter_append, List.length_append] at h1 ⊢
  omega

theorem ppMsg_cores {r v : Nat} {J : List Core} {p : Nat} (hJ : ∀ c ∈ J, c.typ = tRoundChange) :
    ∀ c ∈ coresOf [ppMsg r v J p], c.typ = tPrePrepare ∨ c.typ = tRoundChange := by
  intro c hc
  simp only [coresOf, List.flatMap_cons, List.flatMap_nil, List.append_nil, List.mem_cons] at hc
  rcases hc with rfl | hc
  · exact Or.inl rfl
  · exact Or.inr (hJ c hc)

theorem map_cores {mk : Nat → Msg} {typ : Nat} (h : ∀ q, (mk q).core.typ = typ ∧ (mk q).just = [])
    (T : List Nat) : ∀ c ∈ coresOf (T.map mk), c.typ = typ := by
  intro c hc
  unfold coresOf at hc
  obtain ⟨x, hx, hcx⟩ := List.mem_flatMap.mp hc
  obtain ⟨q, _, rfl⟩ := List.mem_map.mp hx
  rw [(h q).2] at hcx
  simp only [List.mem_cons, List.not_mem_nil, or_false] at hcx
  rw [hcx]; exact (h q).1

theorem nodup_of_prefix {R T : List Nat} {a : Nat} (hR : R.Nodup) (h : ∃ U, (T ++ [a]) ++ U = R) :
    (T ++ [a]).Nodup := by
  obtain ⟨U, hU⟩ := h
  rw [← hU] at hR
  exact (List.nodup_append.mp hR).1

/-! ### Phase PRE-PREPARE (one message) -/

theorem pp_phase {d : Def} {R1 R2 : List Nat} {r v : Nat} {pre0 : List Msg} {J : List Core}
    {b0 : Nat} (hc : GoodCtx d R1 R2 r v pre0 J b0) {p : Nat} {s : NodeState} (o : Oracle)
    (hm : Mid r p s) (hb : BufIs s.buffer pre0)
    (h1 : (uJustifiedPrePrepare, r) ∉ s.dedup) (h2 : (uQuorumPrepares, r) ∉ s.dedup)
    (h3 : (uQuorumCommits, r) ∉ s.dedup) :
    Mid r p (step d o s (.recv (ppMsg r v J (d.leader r)) .ok)).1 ∧
    BufIs (step d o s (.recv (ppMsg r v J (d.leader r)) .ok)).1.buffer
      (pre0 ++ [ppMsg r v J (d.leader r)]) ∧
    (uQuorumPrepares, r) ∉ (step d o s (.recv (ppMsg r v J (d.leader r)) .ok)).1.dedup ∧
    (uQuorumCommits, r) ∉ (step d o s (.recv (ppMsg r v J (d.leader r)) .ok)).1.dedup ∧
    (step d o s (.recv (ppMsg r v J (d.leader r)) .ok)).2 =
      [.rule uJustifiedPrePrepare r, .stopTimer, .newTimer r, .bcast tPrepare r v 0 0 []] := by
  have hj : isJustified d (ppMsg r v J (d.leader r)) s.compareFailureRound = some true := by
    rw [hm.cfr]; exact hc.ppJust
  have hst := step_prePrepare (d := d) (o := o) (m := ppMsg r v J (d.leader r)) hm.dead hm.started
    hm.qc hj rfl hm.round.symm h1
  rw [hst]
  have hbuf : BufIs (bufferMsg d.fifo s.buffer (ppMsg r v J (d.leader r)))
      (pre0 ++ [ppMsg r v J (d.leader r)]) := by
    apply bufIs_bufferMsg hb
    apply hc.fifo_ok
    exact ⟨R1.map (prepMsg r v) ++ R2.map (commitMsg r v), by simp [fullDel]⟩
  refine ⟨⟨hm.dead, hm.started, hm.round, hm.qc, hm.cfr, hm.proc⟩, hbuf, ?_, ?_, ?_⟩
  · simp only [ppMsg, List.mem_cons, Prod.mk.injEq, not_or]
    exact ⟨by simp [uQuorumPrepares, uJustifiedPrePrepare], h2⟩
  · simp only [ppMsg, List.mem_cons, Prod.mk.injEq, not_or]
    exact ⟨by simp [uQuorumCommits, uJustifiedPrePrepare], h3⟩
  · simp [hm.round, ppMsg]

/-! ### Phase PREPARE -/

/-- invariant of the PREPARE phase after the PREPAREs of the members `T` were delivered. -/
def InvP (d : Def) (r v : Nat) (pre : List Msg) (p : Nat) (T : List Nat) (s : NodeState) : Prop :=
  Mid r p s ∧ BufIs s.buffer (pre ++ T.map (prepMsg r v)) ∧
    ((uQuorumPrepares, r) ∈ s.dedup ↔ d.quorum ≤ T.length) ∧ (uQuorumCommits, r) ∉ s.dedup

theorem prepare_step {d : Def} {R1 R2 : List Nat} {r v : Nat} {pre0 : List Msg} {J : List Core}
    {b0 : Nat} (hc : GoodCtx d R1 R2 r v pre0 J b0) (p : Nat) (T : List Nat) (a : Nat) (s : NodeState) (o : Oracle)
    (hpre : ∃ U, (T ++ [a]) ++ U = R1)
    (hinv : InvP d r v (pre0 ++ [ppMsg r v J (d.leader r)]) p T s) :
    InvP d r v (pre0 ++ [ppMsg r v J (d.leader r)]) p (T ++ [a])
      (step d o s (.recv (prepMsg r v a) .ok)).1 ∧
    (if T.length + 1 = d.quorum then
      (step d o s (.recv (prepMsg r v a) .ok)).2 =
        [.rule uQuorumPrepares r, .bcast tCommit r v 0 0 []]
     else (step d o s (.recv (prepMsg r v a) .ok)).2 = []) := by
  obtain ⟨hm, hb, hdd, h3⟩ := hinv
  obtain ⟨U, hU⟩ := hpre
  have hnd := nodup_of_prefix hc.nodup1 ⟨U, hU⟩
  have hbuf : BufIs (bufferMsg d.fifo s.buffer (prepMsg r v a))
      ((pre0 ++ [ppMsg r v J (d.leader r)]) ++ (T ++ [a]).map (prepMsg r v)) := by
    have := bufIs_bufferMsg (fifo := d.fifo) (m := prepMsg r v a) hb (by
      apply hc.fifo_ok
      refine ⟨U.map (prepMsg r v) ++ R2.map (commitMsg r v), ?_⟩
      rw [← hU]; simp [fullDel])
    simpa using this
  have hcount : (filterByRoundAndValue (flatten o.srcOrd (bufferMsg d.fifo s.buffer (prepMsg r v a)))
      tPrepare r v).length = T.length + 1 := by
    unfold filterByRoundAndValue
    rw [count_delivered hbuf hnd]
    · simp
    · intro c hcm
      rw [coresOf_append] at hcm
      rcases List.mem_append.mp hcm with h | h
      · rw [hc.pre0_rc c h]; decide
      · rcases ppMsg_cores hc.J_rc c h with h | h <;> rw [h] <;> decide
    · intro q
      exact ⟨⟨rfl, rfl, by simp [prepMsg], by simp, by simp⟩, rfl, rfl⟩
  have hst := step_prepare (d := d) (o := o) (m := prepMsg r v a) hm.dead hm.started hm.qc rfl
    hm.round.symm
  have hcount' : (filterByRoundAndValue (flatten o.srcOrd (bufferMsg d.fifo s.buffer (prepMsg r v a)))
      tPrepare (prepMsg r v a).core.round (prepMsg r v a).core.value).length = T.length + 1 := hcount
  rw [hcount'] at hst
  have hmid : ∀ s' : NodeState, s'.dead = s.dead → s'.started = s.started → s'.round = s.round →
      s'.qCommit = s.qCommit → s'.compareFailureRound = s.compareFailureRound → s'.proc = s.proc →
      Mid r p s' := by
    intro s' e1 e2 e3 e4 e5 e6
    exact ⟨e1.trans hm.dead, e2.trans hm.started, e3.trans hm.round, e4.trans hm.qc, e5.trans hm.cfr,
      e6.trans hm.proc⟩
  by_cases hq : T.length + 1 = d.quorum
  · have hnot : (uQuorumPrepares, (prepMsg r v a).core.round) ∉ s.dedup := by
      intro h; have := hdd.mp h; omega
    rw [if_pos ⟨by omega, hnot⟩] at hst
    rw [hst, if_pos hq]
    refine ⟨⟨hmid _ rfl rfl rfl rfl rfl rfl, hbuf, ?_, ?_⟩, by simp [hm.round, prepMsg]⟩
    · simp only [List.length_append, List.length_singleton]
      constructor
      · intro _; omega
      · intro _; exact List.mem_cons_self
    · simp only [prepMsg, List.mem_cons, Prod.mk.injEq, not_or]
      exact ⟨by simp [uQuorumCommits, uQuorumPrepares], h3⟩
  · have hno : ¬ (d.quorum ≤ T.length + 1 ∧ (uQuorumPrepares, (prepMsg r v a).core.round) ∉ s.dedup) := by
      intro ⟨h1, h2⟩
      apply h2
      apply hdd.mpr
      omega
    rw [if_neg hno] at hst
    rw [hst, if_neg hq]
    refine ⟨⟨hmid _ rfl rfl rfl rfl rfl rfl, hbuf, ?_, h3⟩, rfl⟩
    simp only [List.length_append, List.length_singleton]
    constructor
    · intro h; have := hdd.mp h; omega
    · intro h; apply hdd.mpr; omega

/-! ### Phase COMMIT -/

/-- invariant of the COMMIT phase after the COMMITs of the members `T` were delivered. -/
def InvC (d : Def) (r v : Nat) (pre : List Msg) (p : Nat) (T : List Nat) (s : NodeState) : Prop :=
  (T.length < d.quorum → Mid r p s ∧ BufIs s.buffer (pre ++ T.map (commitMsg r v)) ∧
      (uQuorumCommits, r) ∉ s.dedup) ∧
  (d.quorum ≤ T.length → Done v s)

theorem commit_step {d : Def} {R1 R2 : List Nat} {r v : Nat} {pre0 : List Msg} {J : List Core}
    {b0 : Nat} (hc : GoodCtx d R1 R2 r v pre0 J b0) (p : Nat) (T : List Nat) (a : Nat) (s : NodeState) (o : Oracle)
    (hpre : ∃ U, (T ++ [a]) ++ U = R2)
    (hinv : InvC d r v (pre0 ++ [ppMsg r v J (d.leader r)] ++ R1.map (prepMsg r v)) p T s) :
    InvC d r v (pre0 ++ [ppMsg r v J (d.leader r)] ++ R1.map (prepMsg r v)) p (T ++ [a])
      (step d o s (.recv (commitMsg r v a) .ok)).1 ∧
    (if T.length + 1 = d.quorum then
      ∃ j, (step d o s (.recv (commitMsg r v a) .ok)).2 =
        [.rule uQuorumCommits r, .stopTimer, .decide v r j]
     else (step d o s (.recv (commitMsg r v a) .ok)).2 = []) := by
  obtain ⟨hlow, hhigh⟩ := hinv
  obtain ⟨U, hU⟩ := hpre
  have hnd := nodup_of_prefix hc.nodup2 ⟨U, hU⟩
  by_cases hdone : d.quorum ≤ T.length
  · -- already decided: the COMMIT is ignored
    have hd := hhigh hdone
    rw [step_recv_decided hd.dead hd.started hd.qc (show (commitMsg r v a).core.typ ≠ tRoundChange by
      show tCommit ≠ tRoundChange; decide), if_neg (by omega)]
    refine ⟨⟨?_, fun _ => hd⟩, rfl⟩
    intro h; simp only [List.length_append, List.length_singleton] at h; omega
  · obtain ⟨hm, hb, h3⟩ := hlow (by omega)
    have hbuf : BufIs (bufferMsg d.fifo s.buffer (commitMsg r v a))
        ((pre0 ++ [ppMsg r v J (d.leader r)] ++ R1.map (prepMsg r v)) ++
          (T ++ [a]).map (commitMsg r v)) := by
      have := bufIs_bufferMsg (fifo := d.fifo) (m := commitMsg r v a) hb (by
        apply hc.fifo_ok
        refine ⟨U.map (commitMsg r v), ?_⟩
        rw [← hU]; simp [fullDel])
      simpa using this
    have hcount : (filterByRoundAndValue
        (flatten o.srcOrd (bufferMsg d.fifo s.buffer (commitMsg r v a)))
        tCommit (commitMsg r v a).core.round (commitMsg r v a).core.value).length = T.length + 1 := by
      show (filterByRoundAndValue _ tCommit r v).length = _
      unfold filterByRoundAndValue
      rw [count_delivered hbuf hnd]
      · simp
      · intro c hcm
        rw [coresOf_append, coresOf_append] at hcm
        rcases List.mem_append.mp hcm with h | h
        · rcases List.mem_append.mp h with h | h
          · rw [hc.pre0_rc c h]; decide
          · rcases ppMsg_cores hc.J_rc c h with h | h <;> rw [h] <;> decide
        · rw [map_cores (mk := prepMsg r v) (typ := tPrepare) (fun _ => ⟨rfl, rfl⟩) R1 c h]; decide
      · intro q
        exact ⟨⟨rfl, rfl, by simp [commitMsg], by simp, by simp⟩, rfl, rfl⟩
    have hst := step_commit (d := d) (o := o) (m := commitMsg r v a) hm.dead hm.started hm.qc rfl
      hm.round.symm
    by_cases hq : T.length + 1 = d.quorum
    · rw [if_pos ⟨by omega, h3⟩] at hst
      rw [hst, if_pos hq]
      refine ⟨⟨?_, ?_⟩, ⟨filterByRoundAndValue
        (flatten o.srcOrd (bufferMsg d.fifo s.buffer (commitMsg r v a))) tCommit r v, ?_⟩⟩
      rotate_left 2
      · simp only [hm.round]; rfl
      · intro h; simp only [List.length_append, List.length_singleton] at h; omega
      · intro _
        refine ⟨hm.dead, hm.started, ?_, rfl⟩
        intro hnil
        have h0 : (filterByRoundAndValue
          (flatten o.srcOrd (bufferMsg d.fifo s.buffer (commitMsg r v a)))
          tCommit (commitMsg r v a).core.round (commitMsg r v a).core.value).length = 0 := by
          simp only at hnil
          rw [hnil]; rfl
        have := hc.qpos
        omega
    · rw [if_neg (by omega)] at hst
      rw [hst, if_neg hq]
      refine ⟨⟨?_, ?_⟩, rfl⟩
      · intro _
        exact ⟨⟨hm.dead, hm.started, hm.round, hm.qc, hm.cfr, hm.proc⟩, hbuf, h3⟩
      · intro h; simp only [List.length_append, List.length_singleton] at h; omega

/-! ### Phase ROUND-CHANGE (rounds > 1) -/

theorem rcMsg_justified (d : Def) (r p cfr : Nat) : isJustified d (rcMsg r p) cfr = some true := by
  simp [isJustified, rcMsg, isJustifiedRoundChange, tRoundChange, tPrePrepare, tPrepare, tCommit]

/-- a null quorum selected by the leader is accepted by every receiver (`containsJustifiedQrc`). -/
theorem null_quorum_contains {d : Def} (hq1 : 1 ≤ d.quorum) {all : List Core} {round : Nat}
    (h : d.quorum ≤ (filterMsgs all tRoundChange round none (some 0) (some 0)).length) :
    containsJustifiedQrc d (filterMsgs all tRoundChange round none (some 0) (some 0)) round = (0, true) := by
  rcases getJustifiedQrc_contains d hq1 (k := 0) (getJustifiedQrc_null h) with ⟨h1, _⟩ | ⟨pr, pv, h1, _⟩
  · exact h1
  · have : getSingleJustifiedPrPv d (filterMsgs all tRoundChange round none (some 0) (some 0)) =
        (0, 0, false) := by
      apply getSingle_no_prepare d hq1
      intro c hc
      rw [(filterMsgs_sound hc).2.1]
      exact tRoundChange_ne_tPrepare
    rw [this] at h1
    simp at h1

/-- invariant of the ROUND-CHANGE phase of member `p` (input value `iv`). -/
def InvR (d : Def) (r iv p : Nat) (T : List Nat) (s : NodeState) : Prop :=
  Mid r p s ∧ BufIs s.buffer (T.map (rcMsg r)) ∧
    (uJustifiedPrePrepare, r) ∉ s.dedup ∧ (uQuorumPrepares, r) ∉ s.dedup ∧
    (uQuorumCommits, r) ∉ s.dedup ∧ s.ppjCache = none ∧ s.inputValue = iv ∧
    ((uQuorumRoundChanges, r) ∈ s.dedup ↔ (d.leader r = p ∧ d.quorum ≤ T.length))

/-- what the leader emits at the quorum-th ROUND-CHANGE. -/
def FireR (d : Def) (r iv : Nat) (outs : List Out) : Prop :=
  ∃ J, outs = [.rule uQuorumRoundChanges r, .bcast tPrePrepare r iv 0 0 J] ∧
    (∀ c ∈ J, c.typ = tRoundChange) ∧ containsJustifiedQrc d J r = (0, true)

theorem rc_step {d : Def} {R : List Nat} {r iv : Nat} (hR : R.Nodup) (hq1 : 1 ≤ d.quorum)
    (hf : 1 ≤ d.fifo) (p : Nat) (hiv : d.leader r = p → iv ≠ 0)
    (T : List Nat) (a : Nat) (s : NodeState) (o : Oracle)
    (hpre : ∃ U, (T ++ [a]) ++ U = R) (hinv : InvR d r iv p T s) :
    InvR d r iv p (T ++ [a]) (step d o s (.recv (rcMsg r a) .ok)).1 ∧
    (if T.length + 1 = (if d.leader r = p then d.quorum else 0) then
      FireR d r iv (step d o s (.recv (rcMsg r a) .ok)).2
     else (step d o s (.recv (rcMsg r a) .ok)).2 = []) := by
  obtain ⟨hm, hb, h1, h2, h3, hcache, hin, hdd⟩ := hinv
  have hnd := nodup_of_prefix hR hpre
  have hbuf : BufIs (bufferMsg d.fifo s.buffer (rcMsg r a)) ((T ++ [a]).map (rcMsg r)) := by
    have := bufIs_bufferMsg (fifo := d.fifo) (m := rcMsg r a) hb (by
      have h := filter_src_map_le_one (mk := rcMsg r) (fun _ => rfl) hnd (rcMsg r a).core.src
      simp only [List.map_append, List.map_cons, List.map_nil] at h
      omega)
    simpa using this
  have hbuf' : BufIs (bufferMsg d.fifo s.buffer (rcMsg r a)) ([] ++ (T ++ [a]).map (rcMsg r)) := by
    simpa using hbuf
  have hcnt1 : (filterRoundChange (flatten o.srcOrd (bufferMsg d.fifo s.buffer (rcMsg r a))) s.round).length
      = T.length + 1 := by
    unfold filterRoundChange
    rw [hm.round, count_delivered hbuf' hnd (by simp [coresOf])]
    · simp
    · intro q; exact ⟨⟨rfl, rfl, by simp, by simp, by simp⟩, rfl, rfl⟩
  have hcnt2 : (filterMsgs (flatten o.srcOrd (bufferMsg d.fifo s.buffer (rcMsg r a))) tRoundChange s.round
      none (some 0) (some 0)).length = T.length + 1 := by
    rw [hm.round, count_delivered hbuf' hnd (by simp [coresOf])]
    · simp
    · intro q; exact ⟨⟨rfl, rfl, by simp, by simp [rcMsg], by simp [rcMsg]⟩, rfl, rfl⟩
  have hj := rcMsg_justified d r a s.compareFailureRound
  have hmid : ∀ s' : NodeState, s'.dead = s.dead → s'.started = s.started → s'.round = s.round →
      s'.qCommit = s.qCommit → s'.compareFailureRound = s.compareFailureRound → s'.proc = s.proc →
      Mid r p s' := by
    intro s' e1 e2 e3 e4 e5 e6
    exact ⟨e1.trans hm.dead, e2.trans hm.started, e3.trans hm.round, e4.trans hm.qc, e5.trans hm.cfr,
      e6.trans hm.proc⟩
  have hlen : (T ++ [a]).length = T.length + 1 := by simp
  -- the three quiet cases share their conclusion
  have hquiet : step d o s (.recv (rcMsg r a) .ok) =
        ({ s with buffer := bufferMsg d.fifo s.buffer (rcMsg r a) }, []) →
      ¬ (d.leader r = p ∧ T.length + 1 = d.quorum) →
      InvR d r iv p (T ++ [a]) (step d o s (.recv (rcMsg r a) .ok)).1 ∧
      (if T.length + 1 = (if d.leader r = p then d.quorum else 0) then
        FireR d r iv (step d o s (.recv (rcMsg r a) .ok)).2
       else (step d o s (.recv (rcMsg r a) .ok)).2 = []) := by
    intro hst hne
    rw [hst]
    refine ⟨⟨hmid _ rfl rfl rfl rfl rfl rfl, hbuf, h1, h2, h3, hcache, hin, ?_⟩, ?_⟩
    · rw [hlen]
      constructor
      · intro h; have := hdd.mp h; exact ⟨this.1, by omega⟩
      · intro h; apply hdd.mpr; refine ⟨h.1, ?_⟩
        have : T.length + 1 ≠ d.quorum := fun e => hne ⟨h.1, e⟩
        omega
    · rw [if_neg]
      intro h
      split at h
      · rename_i hl; exact hne ⟨hl, h⟩
      · omega
  by_cases hlt : T.length + 1 < d.quorum
  · exact hquiet (step_rc_below hm.dead hm.started hm.qc hj rfl hm.round.symm (by omega))
      (fun h => by omega)
  · by_cases hl : d.leader r = p
    · by_cases hq : T.length + 1 = d.quorum
      · -- the leader fires
        have hnot : (uQuorumRoundChanges, (rcMsg r a).core.round) ∉ s.dedup := by
          intro h; have := (hdd.mp h).2; omega
        have hst := step_rc_leader (d := d) (o := o) (m := rcMsg r a) hq1 hm.dead hm.started hm.qc hj
          rfl hm.round.symm (by omega) (by omega) (by rw [hm.round, hm.proc]; exact hl) hnot hcache
          (by rw [hin]; exact hiv hl)
        rw [hst, if_pos (by rw [if_pos hl]; exact hq)]
        refine ⟨⟨hmid _ rfl rfl rfl rfl rfl rfl, hbuf, ?_, ?_, ?_, hcache, hin, ?_⟩, ?_⟩
        · simp only [rcMsg, List.mem_cons, Prod.mk.injEq, not_or]
          exact ⟨by simp [uQuorumRoundChanges, uJustifiedPrePrepare], h1⟩
        · simp only [rcMsg, List.mem_cons, Prod.mk.injEq, not_or]
          exact ⟨by simp [uQuorumRoundChanges, uQuorumPrepares], h2⟩
        · simp only [rcMsg, List.mem_cons, Prod.mk.injEq, not_or]
          exact ⟨by simp [uQuorumRoundChanges, uQuorumCommits], h3⟩
        · rw [hlen]
          constructor
          · intro _; exact ⟨hl, by omega⟩
          · intro _; exact List.mem_cons_self
        · refine ⟨filterMsgs (flatten o.srcOrd (bufferMsg d.fifo s.buffer (rcMsg r a))) tRoundChange r
            none (some 0) (some 0), ?_, ?_, ?_⟩
          · simp only [hm.round, hin]
          · intro c hcm; exact (filterMsgs_sound hcm).2.1
          · rw [hm.round] at hcnt2
            exact null_quorum_contains hq1 (by omega)
      · have hdd' : (uQuorumRoundChanges, (rcMsg r a).core.round) ∈ s.dedup :=
          hdd.mpr ⟨hl, by omega⟩
        exact hquiet (step_rc_dup hm.dead hm.started hm.qc hj rfl hm.round.symm (by omega) (by omega)
          hdd') (fun h => hq h.2)
    · exact hquiet (step_rc_nonleader hm.dead hm.started hm.qc hj rfl hm.round.symm (by omega)
        (by omega) (by rw [hm.round, hm.proc]; exact hl)) (fun h => hl h.1)

/-! ### Whole phases of one member (every oracle assignment) -/

theorem pp_run {d : Def} {R1 R2 : List Nat} {r v : Nat} {pre0 : List Msg} {J : List Core}
    {b0 : Nat} (hc : GoodCtx d R1 R2 r v pre0 J b0) {p : Nat} {s : NodeState} (orc : Nat → Oracle) (k : Nat)
    (hm : Mid r p s) (hb : BufIs s.buffer pre0)
    (h1 : (uJustifiedPrePrepare, r) ∉ s.dedup) (h2 : (uQuorumPrepares, r) ∉ s.dedup)
    (h3 : (uQuorumCommits, r) ∉ s.dedup) :
    InvP d r v (pre0 ++ [ppMsg r v J (d.leader r)]) p []
      (runO d s (recvs orc k [ppMsg r v J (d.leader r)])).1 ∧
    (runO d s (recvs orc k [ppMsg r v J (d.leader r)])).2 =
      [.rule uJustifiedPrePrepare r, .stopTimer, .newTimer r, .bcast tPrepare r v 0 0 []] := by
  obtain ⟨a1, a2, a3, a4, a5⟩ := pp_phase hc (orc k) hm hb h1 h2 h3
  simp only [recvs, runO, List.append_nil]
  refine ⟨⟨a1, by simpa using a2, ?_, a4⟩, a5⟩
  constructor
  · intro h; exact absurd h a3
  · intro h; have := hc.qpos; simp at h; omega

theorem prepare_run {d : Def} {R1 R2 : List Nat} {r v : Nat} {pre0 : List Msg} {J : List Core}
    {b0 : Nat} (hc : GoodCtx d R1 R2 r v pre0 J b0) {p : Nat} {s : NodeState} (orc : Nat → Oracle) (k : Nat)
    (hinv : InvP d r v (pre0 ++ [ppMsg r v J (d.leader r)]) p [] s) :
    InvP d r v (pre0 ++ [ppMsg r v J (d.leader r)]) p R1
      (runO d s (recvs orc k (R1.map (prepMsg r v)))).1 ∧
    (runO d s (recvs orc k (R1.map (prepMsg r v)))).2 =
      [.rule uQuorumPrepares r, .bcast tCommit r v 0 0 []] := by
  have := thresh_run d R1 (prepMsg r v) (InvP d r v (pre0 ++ [ppMsg r v J (d.leader r)]) p)
    (fun outs => outs = [.rule uQuorumPrepares r, .bcast tCommit r v 0 0 []]) d.quorum
    (fun T a s o hpre hinv => prepare_step hc p T a s o hpre hinv) R1 [] s orc k rfl hinv
  have hq := hc.qpos
  have hq' := hc.quorum1
  rw [if_pos ⟨by simp; omega, hq'⟩] at this
  exact this

theorem commit_run {d : Def} {R1 R2 : List Nat} {r v : Nat} {pre0 : List Msg} {J : List Core}
    {b0 : Nat} (hc : GoodCtx d R1 R2 r v pre0 J b0) {p : Nat} {s : NodeState} (orc : Nat → Oracle) (k : Nat)
    (hinv : InvP d r v (pre0 ++ [ppMsg r v J (d.leader r)]) p R1 s) :
    Done v (runO d s (recvs orc k (R2.map (commitMsg r v)))).1 ∧
    ∃ j, (runO d s (recvs orc k (R2.map (commitMsg r v)))).2 =
      [.rule uQuorumCommits r, .stopTimer, .decide v r j] := by
  have hq := hc.qpos
  have hq' := hc.quorum2
  have h0 : InvC d r v (pre0 ++ [ppMsg r v J (d.leader r)] ++ R1.map (prepMsg r v)) p [] s := by
    refine ⟨fun _ => ⟨hinv.1, by simpa using hinv.2.1, hinv.2.2.2⟩, ?_⟩
    intro h; simp at h; omega
  have := thresh_run d R2 (commitMsg r v)
    (InvC d r v (pre0 ++ [ppMsg r v J (d.leader r)] ++ R1.map (prepMsg r v)) p)
    (fun outs => ∃ j, outs = [.rule uQuorumCommits r, .stopTimer, .decide v r j]) d.quorum
    (fun T a s o hpre hinv => commit_step hc p T a s o hpre hinv) R2 [] s orc k rfl h0
  rw [if_pos ⟨by simp; omega, hq'⟩] at this
  exact ⟨this.1.2 hq', this.2⟩

theorem rc_run {d : Def} {R : List Nat} {r iv : Nat} (hR : R.Nodup) (hq1 : 1 ≤ d.quorum)
    (hq : d.quorum ≤ R.length) (hf : 1 ≤ d.fifo) (p : Nat) (hiv : d.leader r = p → iv ≠ 0)
    {s : NodeState} (orc : Nat → Oracle) (k : Nat) (hinv : InvR d r iv p [] s) :
    InvR d r iv p R (runO d s (recvs orc k (R.map (rcMsg r)))).1 ∧
    (if d.leader r = p then FireR d r iv (runO d s (recvs orc k (R.map (rcMsg r)))).2
     else (runO d s (recvs orc k (R.map (rcMsg r)))).2 = []) := by
  have := thresh_run d R (rcMsg r) (InvR d r iv p) (FireR d r iv)
    (if d.leader r = p then d.quorum else 0)
    (fun T a s o hpre hinv => rc_step hR hq1 hf p hiv T a s o hpre hinv) R [] s orc k rfl hinv
  refine ⟨this.1, ?_⟩
  have h2 := this.2
  split
  · rename_i hl
    rw [if_pos hl, if_pos ⟨by simp; omega, hq⟩] at h2
    exact h2
  · rename_i hl
    rw [if_neg hl, if_neg (by simp)] at h2
    exact h2

/-! ### Observations on a member's output trace -/

def Out.isDecide : Out → Bool
  | .decide _ _ _ => true
  | _ => false

def Out.isUnjust : Out → Bool
  | .unjust _ => true
  | _ => false

/-- exactly one `decide` output, and it is `decide v r _`. -/
def decidedOnce (v r : Nat) (outs : List Out) : Bool :=
  match outs.filter Out.isDecide with
  | [.decide v' r' _] => v' == v && r' == r
  | _ => false

/-- no "bug:" panic and no message rejected as unjustified. -/
def noFault (outs : List Out) : Bool := outs.all (fun o => !o.isBug && !o.isUnjust)

/-- neither a fault nor a decision. -/
def Quiet (outs : List Out) : Prop := noFault outs = true ∧ outs.filter Out.isDecide = []

theorem Quiet.append {a b : List Out} (ha : Quiet a) (hb : Quiet b) : Quiet (a ++ b) := by
  unfold Quiet noFault at *
  rw [List.all_append, List.filter_append, ha.1, ha.2, hb.1, hb.2]
  exact ⟨rfl, rfl⟩

theorem Quiet.nil : Quiet [] := ⟨rfl, rfl⟩

/-- the production transport: a broadcast becomes a wire message from `p` whose attachments are the
justification cores. -/
def wire (p : Nat) : Out → Option Msg
  | .bcast typ round value pr pv just => some { core := ⟨typ, p, round, value, pr, pv⟩, just := just }
  | _ => none

def wires (p : Nat) (outs : List Out) : List Msg := outs.filterMap (wire p)

theorem wires_append (p : Nat) (a b : List Out) : wires p (a ++ b) = wires p a ++ wires p b := by
  unfold wires; exact List.filterMap_append

/-! ### Before the good round: start, input, silent time-outs -/

def inputEvs (iv : Nat) : List Event := if iv = 0 then [] else [.input iv]

/-- a member in round `r` that has not received anything in this round and never prepared. -/
structure Fresh (r p iv : Nat) (s : NodeState) : Prop where
  mid : Mid r p s
  timer : s.timerOn = true
  buf : s.buffer = []
  dd : s.dedup = []
  pr : s.preparedRound = 0
  pv : s.preparedValue = 0
  pj : s.preparedJust = []
  inp : s.inputValue = iv

theorem start_input (d : Def) (p iv : Nat) :
    Fresh 1 p iv (runO d { proc := p } (locals (.start :: inputEvs iv))).1 ∧
    Quiet (runO d { proc := p } (locals (.start :: inputEvs iv))).2 ∧
    wires p (runO d { proc := p } (locals (.start :: inputEvs iv))).2 =
      (if d.leader 1 = p ∧ iv ≠ 0 then [ppMsg 1 iv [] p] else []) := by
  by_cases hl : d.leader 1 = p <;> by_cases hiv : iv = 0
  all_goals
    refine ⟨⟨⟨?_, ?_, ?_, ?_, ?_, ?_⟩, ?_, ?_, ?_, ?_, ?_, ?_, ?_⟩, ⟨?_, ?_⟩, ?_⟩ <;>
    (simp [runO, locals, inputEvs, step, stepCore, onStart, onInput, bcastOwnPrePrepare, hl, hiv,
      Event.isStart, Out.isBug, bcastMsg, noFault, Out.isUnjust, Out.isDecide, wires, wire, ppMsg] <;>
     try rfl)

/-- `k` silent time-outs: the member walks to round `ρ + k`, still fresh, announcing every round;
of its ROUND-CHANGE broadcasts exactly one is for round `rt` (if `ρ < rt ≤ ρ + k`). -/
theorem timeouts_run (d : Def) (p iv rt : Nat) :
    ∀ (k ρ : Nat) (s : NodeState), Fresh ρ p iv s →
      Fresh (ρ + k) p iv (runO d s (locals (List.replicate k .timeout))).1 ∧
      (s.ppjCache = none ∨ 1 ≤ k →
        (runO d s (locals (List.replicate k .timeout))).1.ppjCache = none) ∧
      Quiet (runO d s (locals (List.replicate k .timeout))).2 ∧
      (wires p (runO d s (locals (List.replicate k .timeout))).2).filter
          (fun m => m.core.typ == tRoundChange && m.core.round == rt) =
        (if ρ < rt ∧ rt ≤ ρ + k then [rcMsg rt p] else []) := by
  intro k
  induction k with
  | zero =>
    intro ρ s hs
    simp only [List.replicate_zero, locals, List.map_nil, runO, Nat.add_zero]
    refine ⟨hs, ?_, Quiet.nil, ?_⟩
    · intro h; rcases h with h | h
      · exact h
      · omega
    · rw [if_neg (by omega)]; rfl
  | succ k ih =>
    intro ρ s hs
    have hst := step_timeout (d := d) (o := ({} : Oracle)) hs.mid.dead hs.mid.started hs.timer
    have hfresh : Fresh (ρ + 1) p iv
        { s with round := s.round + 1, dedup := [], ppjCache := none, timerOn := true } :=
      ⟨⟨hs.mid.dead, hs.mid.started, by simp [hs.mid.round], hs.mid.qc, hs.mid.cfr, hs.mid.proc⟩,
        rfl, hs.buf, rfl, hs.pr, hs.pv, hs.pj, hs.inp⟩
    obtain ⟨i1, i2, i3, i4⟩ := ih (ρ + 1) _ hfresh
    have hloc : locals (List.replicate (k + 1) Event.timeout) =
        (({} : Oracle), Event.timeout) :: locals (List.replicate k Event.timeout) := rfl
    rw [hloc]
    simp only [runO, hst]
    have hw : (wires p [Out.roundChange s.round (s.round + 1) uRoundTimeout, Out.stopTimer,
          Out.newTimer (s.round + 1),
          Out.bcast tRoundChange (s.round + 1) 0 s.preparedRound s.preparedValue s.preparedJust]).filter
          (fun m => m.core.typ == tRoundChange && m.core.round == rt) =
        (if ρ + 1 = rt then [rcMsg rt p] else []) := by
      simp only [wires, wire, List.filterMap_cons, List.filterMap_nil, hs.pr, hs.pv, hs.pj,
        hs.mid.round, List.filter_cons, List.filter_nil]
      by_cases h1 : ρ + 1 = rt
      · subst h1; simp [rcMsg]
      · simp [h1]
    refine ⟨by rw [show ρ + (k + 1) = ρ + 1 + k by omega]; exact i1, fun _ => i2 (Or.inl rfl), ?_, ?_⟩
    · exact Quiet.append ⟨rfl, rfl⟩ i3
    · rw [wires_append, List.filter_append, i4, hw]
      by_cases h1 : ρ + 1 = rt
      · rw [if_pos h1, if_neg (by omega), if_pos (by omega)]; rfl
      · rw [if_neg h1]
        by_cases h2 : ρ + 1 < rt ∧ rt ≤ ρ + 1 + k
        · rw [if_pos h2, if_pos (by omega)]; rfl
        · rw [if_neg h2, if_neg (by omega)]; rfl

/-- start, optional input, then `r - 1` silent time-outs (`r ≥ 2`). -/
theorem local_r (d : Def) (p iv r : Nat) (hr : 2 ≤ r) :
    Fresh r p iv (runO d { proc := p }
      (locals (.start :: inputEvs iv ++ List.replicate (r - 1) .timeout))).1 ∧
    (runO d { proc := p }
      (locals (.start :: inputEvs iv ++ List.replicate (r - 1) .timeout))).1.ppjCache = none ∧
    Quiet (runO d { proc := p }
      (locals (.start :: inputEvs iv ++ List.replicate (r - 1) .timeout))).2 ∧
    (wires p (runO d { proc := p }
      (locals (.start :: inputEvs iv ++ List.replicate (r - 1) .timeout))).2).filter
        (fun m => m.core.typ == tRoundChange && m.core.round == r) = [rcMsg r p] := by
  obtain ⟨a1, a2, a3⟩ := start_input d p iv
  obtain ⟨b1, b2, b3, b4⟩ := timeouts_run d p iv r (r - 1) 1 _ a1
  have hl : locals (.start :: inputEvs iv ++ List.replicate (r - 1) .timeout) =
      locals (.start :: inputEvs iv) ++ locals (List.replicate (r - 1) .timeout) := by
    unfold locals; exact List.map_append
  rw [hl, runO_append]
  simp only
  have h1r : 1 + (r - 1) = r := by omega
  rw [h1r] at b1
  rw [if_pos (by omega)] at b4
  refine ⟨b1, b2 (Or.inr (by omega)), Quiet.append a2 b3, ?_⟩
  rw [wires_append, List.filter_append, b4, a3]
  split <;> simp [ppMsg, tPrePrepare, tRoundChange]

/-! ### The cluster: independent members, broadcasts collected per phase -/

/-- a member together with everything it has output so far. -/
abbrev Node := NodeState × List Out
abbrev Cluster := Nat → Node

def initCluster : Cluster := fun p => ({ proc := p }, [])

/-- One phase: every running member `p ∈ R` (in the order of `R`) executes its schedule `sched p`;
the broadcasts of all members are collected as wire messages (nothing is delivered within the phase).
Members outside `R` are silent: they neither move nor send. -/
def phase (d : Def) (R : List Nat) (cl : Cluster) (sched : Nat → List (Oracle × Event)) :
    Cluster × List Msg :=
  (fun p => if p ∈ R then ((runO d (cl p).1 (sched p)).1, (cl p).2 ++ (runO d (cl p).1 (sched p)).2)
            else cl p,
   R.flatMap (fun p => wires p (runO d (cl p).1 (sched p)).2))

theorem phase_state {d : Def} {R : List Nat} {cl : Cluster} {sched : Nat → List (Oracle × Event)}
    {p : Nat} (hp : p ∈ R) :
    (phase d R cl sched).1 p =
      ((runO d (cl p).1 (sched p)).1, (cl p).2 ++ (runO d (cl p).1 (sched p)).2) := by
  simp only [phase, hp, if_true]

theorem flatMap_congr_mem {α β : Type} {R : List α} {f g : α → List β}
    (h : ∀ p ∈ R, f p = g p) : R.flatMap f = R.flatMap g := by
  induction R with
  | nil => rfl
  | cons a as ih =>
    simp only [List.flatMap_cons]
    rw [h a List.mem_cons_self, ih (fun p hp => h p (List.mem_cons_of_mem _ hp))]

theorem flatMap_singleton_map {α β : Type} (R : List α) (f : α → β) :
    R.flatMap (fun p => [f p]) = R.map f := by
  induction R with
  | nil => rfl
  | cons a as ih => simp only [List.flatMap_cons, List.map_cons, ih, List.singleton_append]

theorem flatMap_leader {β : Type} {R : List Nat} (hR : R.Nodup) {l : Nat} (hl : l ∈ R) (x : β) :
    R.flatMap (fun p => if l = p then [x] else []) = [x] := by
  induction R with
  | nil => cases hl
  | cons a as ih =>
    simp only [List.nodup_cons] at hR
    simp only [List.flatMap_cons]
    rcases List.mem_cons.mp hl with h | h
    · subst h
      rw [if_pos rfl]
      have : as.flatMap (fun p => if l = p then [x] else []) = [] := by
        rw [List.flatMap_eq_nil_iff]
        intro p hp
        rw [if_neg]
        intro he; subst he; exact hR.1 hp
      rw [this]; rfl
    · rw [if_neg (by intro he; subst he; exact hR.1 h), ih hR.2 h]; rfl

/-! ### Good-round executions -/

/-- The environment's choices in an execution, per phase (0 = ROUND-CHANGE, 1 = PRE-PREPARE,
2 = PREPARE, 3 = COMMIT) and member: `orc ph p i` is the oracle (Go map iteration orders) of member
`p` at its `i`-th delivery of phase `ph`; `ord ph p msgs` is the order in which the messages of
phase `ph` reach member `p`. -/
structure Env where
  orc : Nat → Nat → Nat → Oracle
  ord : Nat → Nat → List Msg → List Msg

/-- every message of a phase reaches every running member exactly once — in any order, chosen
independently for every member. -/
def Env.Fair (env : Env) : Prop := ∀ (ph p : Nat) (l : List Msg), (env.ord ph p l).Perm l

/-- One network round trip: every message of `msgs` is delivered to every member `p` of `R` with
`CmpOut.ok`, in the order `ord p msgs`; `orc p i` is the oracle of `p` at its `i`-th delivery. -/
def deliverAll (d : Def) (orc : Nat → Nat → Oracle) (ord : Nat → List Msg → List Msg) (R : List Nat)
    (cl : Cluster) (msgs : List Msg) : Cluster × List Msg :=
  phase d R cl (fun p => recvs (orc p) 0 (ord p msgs))

/-- PRE-PREPARE → PREPARE → COMMIT: three network round trips starting from the wire messages
`msgs` (the leader's PRE-PREPARE). -/
def tail3 (d : Def) (env : Env) (R : List Nat) (cl : Cluster) (msgs : List Msg) : Cluster :=
  let p1 := deliverAll d (env.orc 1) (env.ord 1) R cl msgs
  let p2 := deliverAll d (env.orc 2) (env.ord 2) R p1.1 p1.2
  let p3 := deliverAll d (env.orc 3) (env.ord 3) R p2.1 p2.2
  p3.1

/-- Round 1: every member of `R` starts and (if `inp p ≠ 0`) obtains its input; everything broadcast
so far (the leader's PRE-PREPARE) is delivered to all of `R`, then all PREPAREs, then all COMMITs.
No timer fires. -/
def goodRound1 (d : Def) (env : Env) (R : List Nat) (inp : Nat → Nat) : Cluster :=
  let p0 := phase d R initCluster (fun p => locals (.start :: inputEvs (inp p)))
  tail3 d env R p0.1 p0.2

/-- Round `r ≥ 2`: every member of `R` starts, obtains its input and times out `r - 1` times while
nothing at all is delivered (rounds `1 … r-1` are lost). Then the ROUND-CHANGEs for round `r`
broadcast at the last time-out are delivered to all of `R`, then whatever that triggered (the
leader's PRE-PREPARE), then all PREPAREs, then all COMMITs. No further timer fires. -/
def goodRoundR (d : Def) (env : Env) (R : List Nat) (inp : Nat → Nat) (r : Nat) : Cluster :=
  let p0 := phase d R initCluster
    (fun p => locals (.start :: inputEvs (inp p) ++ List.replicate (r - 1) .timeout))
  let rcs := p0.2.filter (fun m => m.core.typ == tRoundChange && m.core.round == r)
  let p1 := deliverAll d (env.orc 0) (env.ord 0) R p0.1 rcs
  tail3 d env R p1.1 p1.2

/-- the member is running, has decided `v`, emitted exactly one `decide` output — `decide v r _` —
and neither hit a "bug:" panic nor rejected a message as unjustified. -/
def GoodOutcome (v r : Nat) (nd : Node) : Prop :=
  nd.1.dead = false ∧ nd.1.qCommit ≠ [] ∧ nd.1.qCommitValue = v ∧
    decidedOnce v r nd.2 = true ∧ noFault nd.2 = true

instance (v r : Nat) (nd : Node) : Decidable (GoodOutcome v r nd) := by
  unfold GoodOutcome; infer_instance

/-- a reordering of one message per member of `R` is one message per member of a reordering of `R`. -/
theorem perm_map_srcs {mk : Nat → Msg} (hsrc : ∀ q, (mk q).core.src = q) {R : List Nat}
    {l : List Msg} (h : l.Perm (R.map mk)) :
    l = (l.map (·.core.src)).map mk ∧ (l.map (·.core.src)).Perm R := by
  constructor
  · rw [List.map_map]
    conv => lhs; rw [← List.map_id l]
    apply List.map_congr_left
    intro x hx
    obtain ⟨q, _, rfl⟩ := List.mem_map.mp (h.mem_iff.mp hx)
    simp [hsrc]
  · have h2 := h.map (·.core.src)
    rw [List.map_map] at h2
    have : R.map ((fun x : Msg => x.core.src) ∘ mk) = R := by
      conv => rhs; rw [← List.map_id R]
      apply List.map_congr_left
      intro q _
      simp [hsrc]
    rw [this] at h2
    exact h2

/-- what a member looks like when the leader's PRE-PREPARE of the good round arrives. -/
def ReadyPP (r : Nat) (pre0 : List Msg) (p : Nat) (nd : Node) : Prop :=
  Mid r p nd.1 ∧ BufIs nd.1.buffer pre0 ∧ (uJustifiedPrePrepare, r) ∉ nd.1.dedup ∧
    (uQuorumPrepares, r) ∉ nd.1.dedup ∧ (uQuorumCommits, r) ∉ nd.1.dedup ∧ Quiet nd.2

theorem good_tail {d : Def} {R : List Nat} {r v : Nat} {J : List Core} {b0 : Nat}
    (pre0 : Nat → List Msg) (hR : R.Nodup) (hq : d.quorum ≤ R.length) (hq1 : 1 ≤ d.quorum)
    (hJ : ∀ c ∈ J, c.typ = tRoundChange) (hf : b0 + 3 ≤ d.fifo)
    (hpp : isJustified d (ppMsg r v J (d.leader r)) 0 = some true)
    (hpre_rc : ∀ p ∈ R, ∀ c ∈ coresOf (pre0 p), c.typ = tRoundChange)
    (hpre_len : ∀ p ∈ R, ∀ s, ((pre0 p).filter (fun x => x.core.src == s)).length ≤ b0)
    (env : Env) (henv : env.Fair) (cl : Cluster)
    (hcl : ∀ p ∈ R, ReadyPP r (pre0 p) p (cl p)) :
    ∀ p ∈ R, GoodOutcome v r (tail3 d env R cl [ppMsg r v J (d.leader r)] p) := by
  -- the arrival orders of the PREPAREs and COMMITs at member `p`, as orders of the senders
  let R1 : Nat → List Nat := fun p => (env.ord 2 p (R.map (prepMsg r v))).map (·.core.src)
  let R2 : Nat → List Nat := fun p => (env.ord 3 p (R.map (commitMsg r v))).map (·.core.src)
  have e1 : ∀ p, env.ord 2 p (R.map (prepMsg r v)) = (R1 p).map (prepMsg r v) := fun p =>
    (perm_map_srcs (mk := prepMsg r v) (fun _ => rfl) (henv 2 p _)).1
  have e2 : ∀ p, env.ord 3 p (R.map (commitMsg r v)) = (R2 p).map (commitMsg r v) := fun p =>
    (perm_map_srcs (mk := commitMsg r v) (fun _ => rfl) (henv 3 p _)).1
  have q1 : ∀ p, (R1 p).Perm R := fun p =>
    (perm_map_srcs (mk := prepMsg r v) (fun _ => rfl) (henv 2 p _)).2
  have q2 : ∀ p, (R2 p).Perm R := fun p =>
    (perm_map_srcs (mk := commitMsg r v) (fun _ => rfl) (henv 3 p _)).2
  have e0 : ∀ p, env.ord 1 p [ppMsg r v J (d.leader r)] = [ppMsg r v J (d.leader r)] := fun p =>
    List.perm_singleton.mp (henv 1 p _)
  have hc : ∀ p ∈ R, GoodCtx d (R1 p) (R2 p) r v (pre0 p) J b0 := fun p hp =>
    ⟨(q1 p).nodup_iff.mpr hR, (q2 p).nodup_iff.mpr hR, by rw [(q1 p).length_eq]; exact hq,
      by rw [(q2 p).length_eq]; exact hq, hq1, hpre_rc p hp, hJ, hpre_len p hp, hf, hpp⟩
  -- phase 1: the PRE-PREPARE
  have h1 : ∀ p ∈ R,
      InvP d r v (pre0 p ++ [ppMsg r v J (d.leader r)]) p []
        ((deliverAll d (env.orc 1) (env.ord 1) R cl [ppMsg r v J (d.leader r)]).1 p).1 ∧
      Quiet ((deliverAll d (env.orc 1) (env.ord 1) R cl [ppMsg r v J (d.leader r)]).1 p).2 := by
    intro p hp
    obtain ⟨a1, a2, a3, a4, a5, a6⟩ := hcl p hp
    obtain ⟨b1, b2⟩ := pp_run (hc p hp) (env.orc 1 p) 0 a1 a2 a3 a4 a5
    unfold deliverAll
    rw [phase_state hp, e0 p]
    refine ⟨b1, Quiet.append a6 ?_⟩
    rw [b2]; exact ⟨rfl, rfl⟩
  have m1 : (deliverAll d (env.orc 1) (env.ord 1) R cl [ppMsg r v J (d.leader r)]).2 =
      R.map (prepMsg r v) := by
    unfold deliverAll phase
    simp only
    rw [← flatMap_singleton_map R (prepMsg r v)]
    apply flatMap_congr_mem
    intro p hp
    obtain ⟨a1, a2, a3, a4, a5, _⟩ := hcl p hp
    rw [e0 p, (pp_run (hc p hp) (env.orc 1 p) 0 a1 a2 a3 a4 a5).2]
    rfl
  -- phase 2: the PREPAREs
  have h2 : ∀ p ∈ R,
      InvP d r v (pre0 p ++ [ppMsg r v J (d.leader r)]) p (R1 p)
        ((deliverAll d (env.orc 2) (env.ord 2) R
          (deliverAll d (env.orc 1) (env.ord 1) R cl [ppMsg r v J (d.leader r)]).1
          (R.map (prepMsg r v))).1 p).1 ∧
      Quiet ((deliverAll d (env.orc 2) (env.ord 2) R
          (deliverAll d (env.orc 1) (env.ord 1) R cl [ppMsg r v J (d.leader r)]).1
          (R.map (prepMsg r v))).1 p).2 := by
    intro p hp
    obtain ⟨a1, a2⟩ := h1 p hp
    obtain ⟨b1, b2⟩ := prepare_run (hc p hp) (env.orc 2 p) 0 a1
    unfold deliverAll at a1 a2 b1 b2 ⊢
    rw [phase_state hp, e1 p]
    refine ⟨b1, Quiet.append a2 ?_⟩
    rw [b2]; exact ⟨rfl, rfl⟩
  have m2 : (deliverAll d (env.orc 2) (env.ord 2) R
      (deliverAll d (env.orc 1) (env.ord 1) R cl [ppMsg r v J (d.leader r)]).1
      (R.map (prepMsg r v))).2 = R.map (commitMsg r v) := by
    rw [← flatMap_singleton_map R (commitMsg r v)]
    show R.flatMap _ = _
    apply flatMap_congr_mem
    intro p hp
    show wires p (runO d _ (recvs (env.orc 2 p) 0 (env.ord 2 p (R.map (prepMsg r v))))).2 = _
    rw [e1 p, (prepare_run (hc p hp) (env.orc 2 p) 0 (h1 p hp).1).2]
    rfl
  -- phase 3: the COMMITs
  intro p hp
  unfold tail3
  rw [m1, m2]
  obtain ⟨a1, a2⟩ := h2 p hp
  obtain ⟨b1, j, b2⟩ := commit_run (hc p hp) (env.orc 3 p) 0 a1
  unfold deliverAll at a1 a2 b1 b2 ⊢
  rw [phase_state hp, e2 p]
  refine ⟨b1.dead, b1.qc, b1.qcv, ?_, ?_⟩
  · simp only
    unfold decidedOnce
    rw [b2, List.filter_append, a2.2]
    simp [List.filter, Out.isDecide]
  · simp only
    have a21 := a2.1
    unfold noFault at a21 ⊢
    rw [b2, List.all_append, a21]
    rfl

theorem filter_flatMap' {α β : Type} (R : List α) (f : α → List β) (g : β → Bool) :
    (R.flatMap f).filter g = R.flatMap (fun p => (f p).filter g) := by
  induction R with
  | nil => rfl
  | cons a as ih => simp only [List.flatMap_cons, List.filter_append, ih]

theorem ppMsg_justified_1 (d : Def) (v : Nat) (hv : v ≠ 0) :
    isJustified d (ppMsg 1 v [] (d.leader 1)) 0 = some true :=
  justified_prePrepare d (d.leader 1) 1 v [] 0 rfl hv (Or.inl rfl)

theorem ppMsg_justified_r (d : Def) (r v : Nat) (J : List Core) (hv : v ≠ 0)
    (hJ : containsJustifiedQrc d J r = (0, true)) :
    isJustified d (ppMsg r v J (d.leader r)) 0 = some true :=
  justified_prePrepare d (d.leader r) r v J 0 rfl hv (Or.inr (Or.inl hJ))

/-- **Good round 1.** -/
theorem goodRound1_decides (d : Def) (hn : 1 ≤ d.nodes) (hf : 3 ≤ d.fifo) (R : List Nat)
    (hR : R.Nodup) (hq : d.quorum ≤ R.length) (hl : d.leader 1 ∈ R) (inp : Nat → Nat) (v : Nat)
    (hv : v ≠ 0) (hinp : inp (d.leader 1) = v) (env : Env) (henv : env.Fair) :
    ∀ p ∈ R, GoodOutcome v 1 (goodRound1 d env R inp p) := by
  have hmsgs : (phase d R initCluster (fun p => locals (.start :: inputEvs (inp p)))).2 =
      [ppMsg 1 v [] (d.leader 1)] := by
    unfold phase
    simp only
    rw [← flatMap_leader hR hl (ppMsg 1 v [] (d.leader 1))]
    apply flatMap_congr_mem
    intro p _
    show wires p (runO d { proc := p } _).2 = _
    rw [(start_input d p (inp p)).2.2]
    by_cases h : d.leader 1 = p
    · have : inp p = v := by rw [← h]; exact hinp
      rw [if_pos ⟨h, by rw [this]; exact hv⟩, if_pos h, this, h]
    · rw [if_neg (fun hh => h hh.1), if_neg h]
  have hready : ∀ p ∈ R, ReadyPP 1 [] p
      ((phase d R initCluster (fun p => locals (.start :: inputEvs (inp p)))).1 p) := by
    intro p hp
    rw [phase_state hp]
    obtain ⟨a1, a2, _⟩ := start_input d p (inp p)
    refine ⟨a1.mid, ?_, ?_, ?_, ?_, ?_⟩
    · show BufIs (runO d { proc := p } _).1.buffer []
      rw [a1.buf]; exact bufIs_nil
    · show _ ∉ (runO d { proc := p } _).1.dedup
      rw [a1.dd]; simp
    · show _ ∉ (runO d { proc := p } _).1.dedup
      rw [a1.dd]; simp
    · show _ ∉ (runO d { proc := p } _).1.dedup
      rw [a1.dd]; simp
    · exact Quiet.append Quiet.nil a2
  intro p hp
  unfold goodRound1
  rw [hmsgs]
  exact good_tail (b0 := 0) (fun _ => []) hR hq (quorum_pos d hn) (by simp) (by omega)
    (ppMsg_justified_1 d v hv) (by simp [coresOf]) (by simp) env henv _ hready p hp

/-- **Good round `r ≥ 2`** after `r - 1` silently lost rounds. -/
theorem goodRoundR_decides (d : Def) (hn : 1 ≤ d.nodes) (hf : 4 ≤ d.fifo) (R : List Nat)
    (hR : R.Nodup) (hq : d.quorum ≤ R.length) (r : Nat) (hr : 2 ≤ r) (hl : d.leader r ∈ R)
    (inp : Nat → Nat) (v : Nat) (hv : v ≠ 0) (hinp : inp (d.leader r) = v) (env : Env)
    (henv : env.Fair) :
    ∀ p ∈ R, GoodOutcome v r (goodRoundR d env R inp r p) := by
  have hq1 := quorum_pos d hn
  -- phase 0: start, input, time-outs
  have hrcs : ((phase d R initCluster
      (fun p => locals (.start :: inputEvs (inp p) ++ List.replicate (r - 1) .timeout))).2.filter
      (fun m => m.core.typ == tRoundChange && m.core.round == r)) = R.map (rcMsg r) := by
    unfold phase
    simp only
    rw [filter_flatMap', ← flatMap_singleton_map R (rcMsg r)]
    apply flatMap_congr_mem
    intro p _
    exact (local_r d p (inp p) r hr).2.2.2
  have h0 : ∀ p ∈ R,
      InvR d r (inp p) p [] ((phase d R initCluster
        (fun p => locals (.start :: inputEvs (inp p) ++ List.replicate (r - 1) .timeout))).1 p).1 ∧
      Quiet ((phase d R initCluster
        (fun p => locals (.start :: inputEvs (inp p) ++ List.replicate (r - 1) .timeout))).1 p).2 := by
    intro p hp
    rw [phase_state hp]
    obtain ⟨a1, a2, a3, _⟩ := local_r d p (inp p) r hr
    refine ⟨⟨a1.mid, ?_, ?_, ?_, ?_, a2, a1.inp, ?_⟩, Quiet.append Quiet.nil a3⟩
    · show BufIs (runO d { proc := p } _).1.buffer _
      rw [a1.buf]; exact bufIs_nil
    · show _ ∉ (runO d { proc := p } _).1.dedup
      rw [a1.dd]; simp
    · show _ ∉ (runO d { proc := p } _).1.dedup
      rw [a1.dd]; simp
    · show _ ∉ (runO d { proc := p } _).1.dedup
      rw [a1.dd]; simp
    · show _ ∈ (runO d { proc := p } _).1.dedup ↔ _
      rw [a1.dd]
      simp only [List.not_mem_nil, List.length_nil, false_iff, not_and]
      intro _; omega
  -- phase 1: the ROUND-CHANGEs, in the arrival order `R0 p` at member `p`
  let R0 : Nat → List Nat := fun p => (env.ord 0 p (R.map (rcMsg r))).map (·.core.src)
  have e0 : ∀ p, env.ord 0 p (R.map (rcMsg r)) = (R0 p).map (rcMsg r) := fun p =>
    (perm_map_srcs (mk := rcMsg r) (fun _ => rfl) (henv 0 p _)).1
  have q0 : ∀ p, (R0 p).Perm R := fun p =>
    (perm_map_srcs (mk := rcMsg r) (fun _ => rfl) (henv 0 p _)).2
  have hiv : ∀ p, d.leader r = p → inp p ≠ 0 := by
    intro p h; rw [← h, hinp]; exact hv
  have hrun := fun p (hp : p ∈ R) =>
    rc_run (r := r) ((q0 p).nodup_iff.mpr hR) hq1 (by rw [(q0 p).length_eq]; exact hq) (by omega) p
      (hiv p) (env.orc 0 p) 0 (h0 p hp).1
  obtain ⟨J, hJ1, hJ2, hJ3⟩ : FireR d r v _ := by
    have := (hrun (d.leader r) hl).2
    rw [if_pos rfl, hinp] at this
    exact this
  have hmsgs : (deliverAll d (env.orc 0) (env.ord 0) R (phase d R initCluster
        (fun p => locals (.start :: inputEvs (inp p) ++ List.replicate (r - 1) .timeout))).1
        (R.map (rcMsg r))).2 = [ppMsg r v J (d.leader r)] := by
    rw [← flatMap_leader hR hl (ppMsg r v J (d.leader r))]
    show R.flatMap _ = _
    apply flatMap_congr_mem
    intro p hp
    show wires p (runO d _ (recvs (env.orc 0 p) 0 (env.ord 0 p (R.map (rcMsg r))))).2 = _
    rw [e0 p]
    by_cases h : d.leader r = p
    · subst h
      rw [if_pos rfl, hJ1]
      rfl
    · rw [if_neg h]
      have := (hrun p hp).2
      rw [if_neg h] at this
      rw [this]
      rfl
  have hready : ∀ p ∈ R, ReadyPP r ((R0 p).map (rcMsg r)) p
      ((deliverAll d (env.orc 0) (env.ord 0) R (phase d R initCluster
        (fun p => locals (.start :: inputEvs (inp p) ++ List.replicate (r - 1) .timeout))).1
        (R.map (rcMsg r))).1 p) := by
    intro p hp
    obtain ⟨⟨b1, b2, b3, b4, b5, _⟩, b7⟩ := hrun p hp
    unfold deliverAll
    rw [phase_state hp, e0 p]
    refine ⟨b1, b2, b3, b4, b5, Quiet.append (h0 p hp).2 ?_⟩
    split at b7
    · obtain ⟨J', e, _⟩ := b7
      rw [e]; exact ⟨rfl, rfl⟩
    · rw [b7]; exact Quiet.nil
  intro p hp
  unfold goodRoundR
  rw [hrcs, hmsgs]
  exact good_tail (b0 := 1) (fun p => (R0 p).map (rcMsg r)) hR hq hq1 hJ2 (by omega)
    (ppMsg_justified_r d r v J hv hJ3)
    (fun p _ => map_cores (mk := rcMsg r) (typ := tRoundChange) (fun _ => ⟨rfl, rfl⟩) (R0 p))
    (fun p _ s => filter_src_map_le_one (mk := rcMsg r) (fun _ => rfl) ((q0 p).nodup_iff.mpr hR) s)
    env henv _ hready p hp

/-! ### Corollaries used by `Props/C04Live.lean` -/

/-- the good-round execution for round `r` (`goodRound1` for `r = 1`). -/
def goodRoundAt (d : Def) (env : Env) (R : List Nat) (inp : Nat → Nat) (r : Nat) : Cluster :=
  if r = 1 then goodRound1 d env R inp else goodRoundR d env R inp r

theorem goodRoundAt_decides (d : Def) (hn : 1 ≤ d.nodes) (hf : 4 ≤ d.fifo) (R : List Nat)
    (hR : R.Nodup) (hq : d.quorum ≤ R.length) (r : Nat) (hr : 1 ≤ r) (hl : d.leader r ∈ R)
    (inp : Nat → Nat) (hv : inp (d.leader r) ≠ 0) (env : Env) (henv : env.Fair) :
    ∀ p ∈ R, GoodOutcome (inp (d.leader r)) r (goodRoundAt d env R inp r p) := by
  unfold goodRoundAt
  by_cases h1 : r = 1
  · subst h1
    rw [if_pos rfl]
    exact goodRound1_decides d hn (by omega) R hR hq hl inp _ hv rfl env henv
  · rw [if_neg h1]
    exact goodRoundR_decides d hn hf R hR hq r (by omega) hl inp _ hv rfl env henv

/-- `step` does not look at the oracle for events that carry no message. -/
theorem step_oracle_irrelevant (d : Def) (o o' : Oracle) (s : NodeState) (e : Event)
    (h : ∀ m c, e ≠ .recv m c) : step d o s e = step d o' s e := by
  cases e with
  | recv m c => exact absurd rfl (h m c)
  | start => rfl
  | input v => rfl
  | timeout => rfl

/-- `decidedOnce` spelled out. -/
theorem decidedOnce_iff (v r : Nat) (outs : List Out) :
    decidedOnce v r outs = true ↔ ∃ j, outs.filter Out.isDecide = [.decide v r j] := by
  unfold decidedOnce
  constructor
  · intro h
    split at h
    · rename_i v' r' j heq
      simp only [Bool.and_eq_true, beq_iff_eq] at h
      exact ⟨j, by rw [heq, h.1, h.2]⟩
    · cases h
  · rintro ⟨j, hj⟩
    rw [hj]
    simp

/-- a cluster definition with the production leader function `leaderFn`
(`core/consensus/qbft`: `leader(duty, round, nodes)`). -/
def rotDef (slot ty n fifo : Nat) : Def :=
  { nodes := n, fifo := fifo, leader := fun r => leaderFn slot ty r n }

end CharonV.Qbft
