/-
Helper lemmas for C11: the sum of the dealers' polynomials is the sharing polynomial.
-/
import CharonV.Spec.Frost
import CharonV.Proofs.Tbls
import CharonV.Model.FrostGlue

namespace CharonV.Frost

open Polynomial Finset CharonV.Tbls

variable {F : Type*} [Field F]

theorem groupPoly_degree_lt (t : ℕ) (D : Finset ℕ) (f : ℕ → F[X]) (hf : ∀ i ∈ D, (f i).degree < t) :
    (groupPoly D f).degree < t := by
  unfold groupPoly
  refine lt_of_le_of_lt (degree_sum_le D f) ?_
  exact (Finset.sup_lt_iff (WithBot.bot_lt_coe t)).mpr hf

theorem nodeShare_eq_share (D : Finset ℕ) (f : ℕ → F[X]) (j : ℕ) :
    nodeShare D f j = share (groupPoly D f) j := by
  unfold nodeShare share groupPoly
  rw [eval_finsetSum]

theorem groupSecret_eq_eval (D : Finset ℕ) (f : ℕ → F[X]) :
    groupSecret D f = (groupPoly D f).eval 0 := by
  unfold groupSecret groupPoly
  rw [eval_finsetSum]

theorem resharePoly_degree_lt (t' : ℕ) (O : Finset ℕ) (g : ℕ → F[X])
    (hg : ∀ i ∈ O, (g i).degree < t') : (resharePoly O g).degree < t' := by
  unfold resharePoly
  refine lt_of_le_of_lt (degree_sum_le O _) ?_
  refine (Finset.sup_lt_iff (WithBot.bot_lt_coe t')).mpr fun i hi => ?_
  by_cases h0 : (lam O i : F) = 0
  · rw [h0, C_0, zero_mul, degree_zero]; exact WithBot.bot_lt_coe _
  · rw [degree_C_mul h0]; exact hg i hi

theorem reshareShare_eq_share (O : Finset ℕ) (g : ℕ → F[X]) (j : ℕ) :
    reshareShare O g j = share (resharePoly O g) j := by
  unfold reshareShare share resharePoly
  rw [eval_finsetSum]
  exact Finset.sum_congr rfl fun i _ => by rw [eval_mul, eval_C]

end CharonV.Frost

/-! ### routing model (`Model/FrostGlue.lean`) -/
namespace CharonV.FrostGlue

theorem lastMatch_none {α : Type} (pred : MsgKey → Bool) (l : List (MsgKey × α))
    (h : lastMatch pred l = none) : ∀ k a, (k, a) ∈ l → pred k = false := by
  induction l with
  | nil => intro k a hm; simp at hm
  | cons e rest ih =>
    obtain ⟨k0, x⟩ := e
    simp only [lastMatch] at h
    cases hr : lastMatch pred rest with
    | some b => rw [hr] at h; simp at h
    | none =>
      rw [hr] at h
      intro k a hm
      rcases List.mem_cons.mp hm with heq | hm'
      · cases heq
        by_cases hp : pred k0 = true
        · simp [hp] at h
        · simpa using hp
      · exact ih hr k a hm'

theorem lastMatch_some_mem {α : Type} (pred : MsgKey → Bool) (l : List (MsgKey × α)) (a : α)
    (h : lastMatch pred l = some a) : ∃ k, (k, a) ∈ l ∧ pred k = true := by
  induction l with
  | nil => simp [lastMatch] at h
  | cons e rest ih =>
    obtain ⟨k0, x⟩ := e
    simp only [lastMatch] at h
    cases hr : lastMatch pred rest with
    | some b =>
      rw [hr] at h
      simp only [Option.some.injEq] at h
      subst h
      obtain ⟨k', hm, hp⟩ := ih hr
      exact ⟨k', List.mem_cons_of_mem _ hm, hp⟩
    | none =>
      rw [hr] at h
      by_cases hp : pred k0 = true
      · simp only [hp, if_true, Option.some.injEq] at h
        subst h
        exact ⟨k0, List.mem_cons_self, hp⟩
      · simp [hp] at h

theorem lastMatch_of_unique {α : Type} (pred : MsgKey → Bool) (l : List (MsgKey × α)) (k : MsgKey)
    (a : α) (hm : (k, a) ∈ l) (hp : pred k = true)
    (huniq : ∀ k' a', (k', a') ∈ l → pred k' = true → a' = a) : lastMatch pred l = some a := by
  cases h : lastMatch pred l with
  | none => have := lastMatch_none pred l h k a hm; rw [hp] at this; cases this
  | some b =>
    obtain ⟨k', hm', hp'⟩ := lastMatch_some_mem pred l b h
    rw [huniq k' b hm' hp']

/-- in a Go map (pairwise different keys) a key has one value. -/
theorem value_unique {α : Type} (l : List (MsgKey × α)) (hnd : (l.map (·.1)).Nodup)
    (k : MsgKey) (a a' : α) (h : (k, a) ∈ l) (h' : (k, a') ∈ l) : a = a' := by
  induction l with
  | nil => simp at h
  | cons e rest ih =>
    simp only [List.map_cons, List.nodup_cons] at hnd
    rcases List.mem_cons.mp h with h1 | h1 <;> rcases List.mem_cons.mp h' with h2 | h2
    · rw [← h1] at h2; exact ((Prod.mk.inj h2).2).symm
    · exact absurd (List.mem_map_of_mem (f := (·.1)) h2) (by rw [← h1] at hnd; exact hnd.1)
    · exact absurd (List.mem_map_of_mem (f := (·.1)) h1) (by rw [← h2] at hnd; exact hnd.1)
    · exact ih hnd.2 h1 h2

end CharonV.FrostGlue
