/-
Helper lemmas for `CharonV.Props.C10Signing` (`CharonV.Model.Signing`).
-/
import CharonV.Model.Signing
import CharonV.Model.Admit
import CharonV.Proofs.SszSchema

namespace CharonV.Signing

open CharonV.Ssz (Bytes Chunk mkChunk Collision mkChunk_bytes mkChunk_inj Chunk.ext')

/-- an explicit collision of the compression function on the first 28 bytes of its output (a
224-bit truncated SHA-256 collision): what equal domains for different fork data amount to, because
`compute_domain` keeps only 28 bytes of the fork data root. -/
def TruncCollision (h : Chunk → Chunk → Chunk) : Prop :=
  ∃ a b c d : Chunk, (a, b) ≠ (c, d) ∧ (h a b).bytes.take 28 = (h c d).bytes.take 28

variable (h : Chunk → Chunk → Chunk)

theorem mkChunk_of_length32 (b : Bytes) (hb : b.length = 32) : (mkChunk b).bytes = b := by
  rw [mkChunk_bytes, List.take_append_of_le_length (by omega)]
  rw [← hb, List.take_length]

theorem computeDomain_bytes (ty v g : Bytes) (hty : ty.length = 4) :
    (computeDomain h ty v g).bytes = ty ++ (forkDataRoot h v g).bytes.take 28 := by
  unfold computeDomain
  have h1 : (ty ++ [0, 0, 0, 0]).take 4 = ty := by
    rw [List.take_append_of_le_length (by omega), ← hty, List.take_length]
  rw [h1]
  apply mkChunk_of_length32
  simp [List.length_append, List.length_take, hty, (forkDataRoot h v g).len]

theorem scanForks_spec (e : Nat) : ∀ (l : List Fork) (cur : Fork),
    (scanForks cur l e = cur ∧ (l = [] ∨ ∃ g rest, l = g :: rest ∧ e < g.epoch)) ∨
    (∃ pre post, l = pre ++ scanForks cur l e :: post ∧ (∀ g ∈ pre, g.epoch ≤ e) ∧
      (scanForks cur l e).epoch ≤ e ∧ ∀ g, post.head? = some g → e < g.epoch) := by
  intro l
  induction l with
  | nil => intro cur; left; simp [scanForks]
  | cons f fs ih =>
    intro cur
    by_cases hf : f.epoch > e
    · have hs : scanForks cur (f :: fs) e = cur := by simp [scanForks, hf]
      rw [hs]
      exact Or.inl ⟨rfl, Or.inr ⟨f, fs, rfl, hf⟩⟩
    · have hs : scanForks cur (f :: fs) e = scanForks f fs e := by simp [scanForks, hf]
      rw [hs]
      have hle : f.epoch ≤ e := by omega
      rcases ih f with ⟨heq, hcase⟩ | ⟨pre, post, hl, hpre, hlast, hpost⟩
      · refine Or.inr ⟨[], fs, by simp [heq], by simp, by rw [heq]; exact hle, ?_⟩
        intro g hg
        rcases hcase with rfl | ⟨g', rest, rfl, hg'⟩
        · simp at hg
        · simp at hg; subst hg; exact hg'
      · refine Or.inr ⟨f :: pre, post, by simp [← hl], ?_, hlast, hpost⟩
        intro g hg
        rcases List.mem_cons.mp hg with rfl | hg
        · exact hle
        · exact hpre g hg

theorem serviceDomain_eq (c : Chain) (ty : Bytes) (e : Nat) :
    serviceDomain h c ty e =
      (forkVersionAt c.schedule e).map fun v => computeDomain h ty v (gvrFor ty c.gvr) := by
  unfold serviceDomain forkVersionAt
  cases forkAtEpoch c.schedule e <;> rfl

end CharonV.Signing
