/-
Invariant and helper lemmas for `Model/LazyMulti.lean` (C19, lazy client / multi client).
-/
import CharonV.Model.LazyMulti
import CharonV.Proofs.Provide

namespace CharonV.LazyMulti

/-- what holds in every reachable state of a lazy client. -/
structure Inv (l : Lazy) : Prop where
  lockNoClient : ∀ c, l.lock = some c → l.client = none
  clientId : ∀ i, l.client = some i → i.id = 0 ∧ l.created = 1
  noClient : l.client = none → l.created = 0

theorem inv_init (a : Nat) : Inv (Lazy.init a) :=
  ⟨fun _ h => by simp [Lazy.init] at h ⊢, fun _ h => by simp [Lazy.init] at h, fun _ => rfl⟩

theorem dropCaller_fields (l : Lazy) (c : Nat) :
    (dropCaller l c).client = l.client ∧ (dropCaller l c).lock = l.lock ∧ (dropCaller l c).created = l.created ∧
    (dropCaller l c).val = l.val ∧ (dropCaller l c).dut = l.dut ∧ (dropCaller l c).provCalls = l.provCalls ∧
    (dropCaller l c).addr = l.addr := by
  simp [dropCaller]

/-- a step's return of a client names client 0, and the invariant is kept. -/
theorem inv_step {l : Lazy} (h : Inv l) (e : LEv) (fx : Fixes := Fixes.current) :
    Inv (step l e fx).1 ∧ ∀ c k a, (step l e fx).2 = some (c, .got k a) → k = 0 := by
  obtain ⟨h1, h2, h3⟩ := h
  cases e <;> simp only [step] <;> (repeat' split) <;>
    (refine ⟨⟨?_, ?_, ?_⟩, ?_⟩ <;> simp_all [dropCaller, newClient])

theorem inv_run {l : Lazy} (h : Inv l) (evs : List LEv) (fx : Fixes := Fixes.current) :
    Inv (run l evs fx).1 ∧ ∀ c k a, (c, CallRes.got k a) ∈ (run l evs fx).2 → k = 0 := by
  induction evs generalizing l with
  | nil => exact ⟨h, by simp [run]⟩
  | cons e es ih =>
    have hs := inv_step h e fx
    have hr := ih hs.1
    simp only [run]
    refine ⟨hr.1, ?_⟩
    intro c k a hm
    simp only [List.mem_append] at hm
    rcases hm with hm | hm
    · cases hr' : (step l e fx).2 with
      | none => rw [hr'] at hm; simp at hm
      | some p =>
        rw [hr'] at hm
        simp only [Option.toList_some, List.mem_singleton] at hm
        exact hs.2 c k a (by rw [hr', ← hm])
    · exact hr.2 c k a hm

/-- cancelling marks exactly caller `c`. -/
theorem find_after_cancel (cs : List Caller) (c : Nat) (cl : Caller)
    (h : cs.find? (fun x => x.id == c) = some cl) :
    (cs.map (fun x => if x.id == c then { x with cancelled := true } else x)).find? (fun x => x.id == c) =
      some { cl with cancelled := true } := by
  induction cs with
  | nil => simp at h
  | cons x xs ih =>
    simp only [List.map_cons, List.find?_cons] at h ⊢
    by_cases hx : (x.id == c) = true
    · simp only [hx, if_true] at h ⊢
      cases h; rfl
    · simp only [hx] at h ⊢
      simp only [Bool.false_eq_true, if_false, hx]
      exact ih h

/-- the other callers are untouched by cancelling `c` and letting it return. -/
theorem filter_after_cancel (cs : List Caller) (c : Nat) :
    (cs.map (fun x => if x.id == c then { x with cancelled := true } else x)).filter (fun x => x.id != c) =
      cs.filter (fun x => x.id != c) := by
  induction cs with
  | nil => rfl
  | cons x xs ih =>
    simp only [List.map_cons]
    by_cases hx : x.id = c
    · simp_all [List.filter_cons]
    · simp_all [List.filter_cons]

theorem getElem?_zipScripts_map {β : Type} (ls : List Lazy) (ss : List Script) (f : Lazy × Script → β) (i : Nat)
    (p : Lazy × Script) (h : (zipScripts ls ss)[i]? = some p) :
    ((zipScripts ls ss).map f)[i]? = some (f p) := by
  simp [List.getElem?_map, h]

end CharonV.LazyMulti
