/-
Helper lemmas for C08 (threshold BLS algebra) and C11 (FROST DKG): Lagrange recovery at 0,
linearity of the combination "in the exponent", effect of replacing one contribution.
-/
import CharonV.Spec.Tbls
import Mathlib.Algebra.CharP.Basic

namespace CharonV.Tbls

open Polynomial Finset

variable {F : Type*} [Field F]

/-- explicit product formula (the one herumi's `Recover` and `Model/Fr.lean` compute):
`λ_j = ∏_{k ∈ S, k ≠ j} k / (k - j)`. -/
theorem lam_eq_prod (S : Finset ℕ) (j : ℕ) :
    (lam S j : F) = ∏ k ∈ S.erase j, idF F k / (idF F k - idF F j) := by
  unfold lam Lagrange.basis
  rw [eval_prod]
  refine Finset.prod_congr rfl fun k _ => ?_
  unfold Lagrange.basisDivisor
  simp only [eval_mul, eval_C, eval_sub, eval_X, zero_sub]
  rw [div_eq_mul_inv, mul_comm, ← neg_sub (idF F k) (idF F j), inv_neg]
  ring

/-- Lagrange interpolation at 0 recovers `p 0` from any `> deg p` shares with distinct ids. -/
theorem recover_share (p : F[X]) (S : Finset ℕ) (hinj : IdsDistinct F S)
    (hdeg : p.degree < S.card) : recover S (share p) = p.eval 0 := by
  have h := Lagrange.eq_interpolate (f := p) hinj hdeg
  conv_rhs => rw [h]
  rw [Lagrange.interpolate_apply, eval_finsetSum]
  unfold recover lam share
  refine Finset.sum_congr rfl fun j _ => ?_
  simp [eval_mul, eval_C, mul_comm]

section Module
variable {G : Type*} [AddCommGroup G] [Module F G]

/-- the combination in the exponent of `y j • g` is the scalar combination times `g`. -/
theorem recoverG_smul (S : Finset ℕ) (y : ℕ → F) (g : G) :
    recoverG F S (fun j => y j • g) = (recover S y : F) • g := by
  unfold recoverG recover
  rw [Finset.sum_smul]
  exact Finset.sum_congr rfl fun j _ => by rw [smul_smul]

/-- replacing the contribution of `j ∈ S` by `Z` shifts the result by `λ_j • (Z - Y j)`. -/
theorem recoverG_update (S : Finset ℕ) (Y : ℕ → G) (j : ℕ) (hj : j ∈ S) (Z : G) :
    recoverG F S (Function.update Y j Z) = recoverG F S Y + (lam S j : F) • (Z - Y j) := by
  unfold recoverG
  rw [← Finset.add_sum_erase _ _ hj, ← Finset.add_sum_erase S (fun k => (lam S k : F) • Y k) hj]
  have : ∀ k ∈ S.erase j, (lam S k : F) • Function.update Y j Z k = (lam S k : F) • Y k := by
    intro k hk
    rw [Function.update_of_ne (Finset.ne_of_mem_erase hk)]
  rw [Finset.sum_congr rfl this, Function.update_self, smul_sub]
  abel

end Module

/-- with distinct, non-zero identifiers every Lagrange coefficient at 0 is non-zero. -/
theorem lam_ne_zero (S : Finset ℕ) (hinj : IdsDistinct F S) (hnz : IdsNonzero F S)
    {j : ℕ} (hj : j ∈ S) : (lam S j : F) ≠ 0 := by
  rw [lam_eq_prod, Finset.prod_ne_zero_iff]
  intro k hk
  have hkS := Finset.mem_of_mem_erase hk
  have hne : k ≠ j := Finset.ne_of_mem_erase hk
  refine div_ne_zero (hnz k hkS) (sub_ne_zero.mpr fun h => hne (hinj hkS hj h))

/-- identifiers are distinct in characteristic zero. -/
theorem idsDistinct_of_charZero [CharZero F] (S : Finset ℕ) : IdsDistinct F S :=
  fun _ _ _ _ h => Nat.cast_injective h

/-- identifiers below the characteristic are distinct (BLS12-381: ids `1..n`, `n < r`). -/
theorem idsDistinct_of_lt_char (q : ℕ) [CharP F q] (S : Finset ℕ) (h : ∀ k ∈ S, k < q) :
    IdsDistinct F S := by
  intro a ha b hb hab
  exact CharP.natCast_injOn_Iio F q (h a ha) (h b hb) hab

/-- identifiers in `1..q-1` are non-zero scalars. -/
theorem idsNonzero_of_lt_char (q : ℕ) [CharP F q] (S : Finset ℕ) (h : ∀ k ∈ S, 0 < k ∧ k < q) :
    IdsNonzero F S := by
  intro k hk h0
  have h0' : ((k : ℕ) : F) = 0 := h0
  rw [CharP.cast_eq_zero_iff F q] at h0'
  exact absurd (Nat.le_of_dvd (h k hk).1 h0') (not_le.mpr (h k hk).2)

theorem idsNonzero_of_charZero [CharZero F] (S : Finset ℕ) (h : ∀ k ∈ S, 0 < k) :
    IdsNonzero F S := by
  intro k hk h0
  have : ((k : ℕ) : F) = 0 := h0
  exact absurd (Nat.cast_eq_zero.mp this) (Nat.pos_iff_ne_zero.mp (h k hk))

/-! ### objects for the non-vacuity examples of `Props/C08.lean`, `Props/C11.lean` -/

/-- 2-of-3 split of the secret 3 with polynomial `3 + 2X`: shares 5, 7, 9. -/
noncomputable def pEx : ℚ[X] := C 3 + C 2 * X

theorem pEx_deg : pEx.degree < (2 : ℕ) := by
  unfold pEx
  refine lt_of_le_of_lt (degree_add_le _ _) ?_
  refine max_lt (lt_of_le_of_lt degree_C_le (by norm_num)) ?_
  refine lt_of_le_of_lt (degree_C_mul_X_le _) (by norm_num)

theorem lin_deg (a b : ℚ) : (C a + C b * X : ℚ[X]).degree < (2 : ℕ) := by
  refine lt_of_le_of_lt (degree_add_le _ _) ?_
  refine max_lt (lt_of_le_of_lt degree_C_le (by norm_num)) ?_
  refine lt_of_le_of_lt (degree_C_mul_X_le _) (by norm_num)

theorem sEx_ok (S : Finset ℕ) (h : ∀ k ∈ S, 0 < k) : IdsDistinct ℚ S ∧ IdsNonzero ℚ S :=
  ⟨idsDistinct_of_charZero S, idsNonzero_of_charZero S h⟩

end CharonV.Tbls
