/-
Helper lemmas for the router model (`CharonV.Model.Router`), used by `CharonV.Props.C10Router`.
-/
import CharonV.Model.Router
import CharonV.Proofs.Admit

namespace CharonV.Router

open CharonV.Admit

variable {β : Type}

/-- what a successful `decodeArgs` says about the request. -/
theorem decodeArgs_ok {rq : Request β} {ep : Endpoint} {enc : Enc} {v : Option Version}
    (h : decodeArgs rq = .ok (ep, enc, v)) :
    rq.method = .post ∧ contentType rq.ct = some enc ∧ rq.route.encodings.contains enc = true ∧
    rq.route.handling = .handler ep ∧
    ((rq.route.needsVersion = true ∧ ∃ w, v = some w ∧ parseVersion rq.version = some w ∧
        rq.route.supports w = true) ∨
     (rq.route.needsVersion = false ∧ v = none)) := by
  unfold decodeArgs at h
  split at h
  · cases h
  · rename_i hm
    have hm' : rq.method = .post := by simpa using hm
    split at h
    · cases h
    · rename_i enc' hct
      split at h
      · cases h
      · rename_i hin
        have hin' : rq.route.encodings.contains enc' = true := by simpa using hin
        split at h
        · cases h
        · cases h
        · rename_i ep' hh
          split at h
          · rename_i hnv
            split at h
            · cases h
            · rename_i w hw
              split at h
              · rename_i hs
                cases h
                exact ⟨hm', hct, hin', hh, Or.inl ⟨hnv, w, rfl, hw, hs⟩⟩
              · cases h
          · rename_i hnv
            cases h
            exact ⟨hm', hct, hin', hh, Or.inr ⟨by simpa using hnv, rfl⟩⟩

theorem afterDecode_call {r : Route} {ep ep' : Endpoint} {enc : Enc} {d : Decoded}
    {elems : List Elem} (h : afterDecode r ep enc d = .call ep' elems) :
    ep' = ep ∧ d = .ok elems ∧ (r.nullIsDecodeError = true → elems.contains .nil = false) := by
  unfold afterDecode at h
  split at h
  · rename_i es
    split at h
    · cases h
    · rename_i hn
      cases h
      refine ⟨rfl, rfl, ?_⟩
      intro hr
      cases hc : elems.contains Elem.nil
      · rfl
      · simp [hr] at hn
        exact absurd (by simpa using hc) hn
  · cases h

/-- the router calls the Component only with the list the decoder returned, for the question
`decodeArgs` fixed. -/
theorem route_call {decode : Decoder β} {rq : Request β} {ep : Endpoint} {elems : List Elem}
    (h : route decode rq = .call ep elems) :
    ∃ enc v, decodeArgs rq = .ok (ep, enc, v) ∧ decode enc rq.route v rq.body = .ok elems ∧
      (rq.route.nullIsDecodeError = true → elems.contains .nil = false) := by
  unfold route at h
  split at h
  · cases h
  · rename_i ep' enc v hargs
    obtain ⟨rfl, hd, hn⟩ := afterDecode_call h
    exact ⟨enc, v, hargs, hd, hn⟩

theorem route_respond_of_args_error {decode : Decoder β} {rq : Request β} {s : Status}
    (h : decodeArgs rq = .error s) : route decode rq = .respond s := by
  unfold route; rw [h]

theorem afterDecode_not_ok {r : Route} {ep : Endpoint} {enc : Enc} {d : Decoded}
    (hd : ∀ es, d ≠ .ok es) :
    afterDecode r ep enc d =
      .respond (if r.keepsApiError then unmarshalStatus enc d else .ise500) := by
  unfold afterDecode
  split
  · rename_i es; exact absurd rfl (hd es)
  · rfl

theorem component_no_nil {verify : VerifyFn} {L : Lock} {env : AttEnv} {idx : ShareIdx} {nsub : Nat}
    {ord : List GKey → List GKey} {failAt : Option Nat} {r : Route} {ep : Endpoint}
    {elems : List Elem} (hn : elems.contains .nil = false) :
    component verify L env idx nsub ord failAt r ep elems =
      (statusOf (admitVC verify L idx nsub ord failAt ep (elems.filterMap (toItem env))).1,
       (admitVC verify L idx nsub ord failAt ep (elems.filterMap (toItem env))).2) := by
  unfold component
  have hm : Elem.nil ∉ elems := by simpa using hn
  simp [hm]

theorem component_nil {verify : VerifyFn} {L : Lock} {env : AttEnv} {idx : ShareIdx} {nsub : Nat}
    {ord : List GKey → List GKey} {failAt : Option Nat} {r : Route} {ep : Endpoint}
    {elems : List Elem} (hn : elems.contains .nil = true) :
    (component verify L env idx nsub ord failAt r ep elems).2 = [] ∧
    (component verify L env idx nsub ord failAt r ep elems).1 ≠ .ok200 := by
  unfold component
  simp only [hn, Bool.not_true, Bool.false_eq_true, if_false]
  split
  · exact ⟨rfl, by simp⟩
  · refine ⟨rfl, ?_⟩
    cases r.nilPanics <;> simp

/-- subscriber calls of the Component stage come from `admitVC` on the converted list, and only
when no element is nil. -/
theorem component_calls {verify : VerifyFn} {L : Lock} {env : AttEnv} {idx : ShareIdx} {nsub : Nat}
    {ord : List GKey → List GKey} {failAt : Option Nat} {r : Route} {ep : Endpoint}
    {elems : List Elem} {c : Call}
    (hc : c ∈ (component verify L env idx nsub ord failAt r ep elems).2) :
    elems.contains .nil = false ∧
    c ∈ (admitVC verify L idx nsub ord failAt ep (elems.filterMap (toItem env))).2 := by
  cases hn : elems.contains Elem.nil
  · rw [component_no_nil hn] at hc
    exact ⟨rfl, hc⟩
  · rw [(component_nil hn).1] at hc
    cases hc

/-- the calls `admitVC` makes carry only valid partials under this node's share index (the
validator-client half of `Admit.admitted_valid`). -/
theorem admitVC_valid {verify : VerifyFn} {L : Lock} {idx : ShareIdx} {nsub : Nat}
    {ord : List GKey → List GKey} {failAt : Option Nat} {ep : Endpoint} {items : List Item}
    {c : Call} (hc : c ∈ (admitVC verify L idx nsub ord failAt ep items).2) :
    c.dutyTy = ep.dutyTy ∧
    ∀ e ∈ c.set, Valid verify L e.1 e.2 ∧ e.2.idx = idx ∧
      ∃ it ∈ items, it.obj = e.2.obj ∧ it.val = some e.1 ∧ it.slot = c.slot := by
  obtain ⟨hall, hcf⟩ := admitVC_calls hc
  obtain ⟨g, _, s, _, rfl⟩ := mem_callsFor.mp hcf
  refine ⟨rfl, ?_⟩
  intro e he
  obtain ⟨it, hit, hg, hv, hp⟩ := mem_setOf he
  obtain ⟨_, _, v, hv', hval⟩ := checkItem_ok (hall it hit)
  have hvv : v = e.1 := by rw [hv] at hv'; exact (Option.some.inj hv').symm
  subst hvv
  refine ⟨?_, by rw [hp], it, hit, by rw [hp], hv, ?_⟩
  · rw [hp]; exact hval
  · have : (gkey ep it).1 = g.1 := by rw [hg]
    simpa [gkey] using this

/-- `admitVC` reports an error together with subscriber calls only for a subscriber failure. -/
theorem admitVC_calls_status {verify : VerifyFn} {L : Lock} {idx : ShareIdx} {nsub : Nat}
    {ord : List GKey → List GKey} {failAt : Option Nat} {ep : Endpoint} {items : List Item}
    (hne : (admitVC verify L idx nsub ord failAt ep items).2 ≠ []) :
    (admitVC verify L idx nsub ord failAt ep items).1 = .ok ∨
    ((admitVC verify L idx nsub ord failAt ep items).1 = .subErr ∧ failAt ≠ none) := by
  unfold admitVC at hne ⊢
  split
  · rename_i r hr; simp [hr] at hne
  · cases failAt with
    | none => exact Or.inl rfl
    | some k =>
      simp only
      split
      · exact Or.inr ⟨rfl, by simp⟩
      · exact Or.inl rfl

theorem unmarshalStatus_ne_panic (enc : Enc) (d : Decoded) : unmarshalStatus enc d ≠ .panic := by
  cases d <;> cases enc <;> simp [unmarshalStatus]

theorem decodeArgs_error_ne_panic {rq : Request β} {s : Status} (h : decodeArgs rq = .error s) :
    s ≠ .panic := by
  unfold decodeArgs at h
  split at h
  · cases h; simp
  · split at h
    · cases h; simp
    · split at h
      · cases h; simp
      · split at h
        · cases h; simp
        · cases h; simp
        · split at h
          · split at h
            · cases h; simp
            · split at h
              · cases h
              · cases h; simp
          · cases h

theorem afterDecode_respond_ne_panic {r : Route} {ep : Endpoint} {enc : Enc} {d : Decoded}
    {s : Status} (h : afterDecode r ep enc d = .respond s) : s ≠ .panic := by
  unfold afterDecode at h
  split at h
  · split at h
    · cases h; simp
    · cases h
  · cases h
    split
    · exact unmarshalStatus_ne_panic _ _
    · simp

theorem route_respond_ne_panic {decode : Decoder β} {rq : Request β} {s : Status}
    (h : route decode rq = .respond s) : s ≠ .panic := by
  unfold route at h
  split at h
  · rename_i s' ha
    cases h
    exact decodeArgs_error_ne_panic ha
  · exact afterDecode_respond_ne_panic h

theorem mem_filterMap_toItem_of_item {env : AttEnv} {elems : List Elem} {e : Elem} {it : Item}
    (he : e ∈ elems) (hit : toItem env e = some it) : it ∈ elems.filterMap (toItem env) :=
  List.mem_filterMap.mpr ⟨e, he, hit⟩

end CharonV.Router
