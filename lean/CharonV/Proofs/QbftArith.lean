/-
Quorum arithmetic of `core/qbft` for every cluster size (used by C01–C04).
-/
import CharonV.Model.Qbft

namespace CharonV.Qbft

/-- two quorums intersect in more than `faulty` members: `2q ≥ n + f + 1`. -/
theorem quorum_intersect (d : Def) (h : 1 ≤ d.nodes) : d.nodes + d.faulty + 1 ≤ 2 * d.quorum := by
  unfold Def.quorum Def.faulty; omega

theorem faulty_lt_quorum (d : Def) (h : 1 ≤ d.nodes) : d.faulty < d.quorum := by
  unfold Def.quorum Def.faulty; omega

/-- a quorum fits into the cluster, so `n - f` running members suffice for progress. -/
theorem quorum_le_honest (d : Def) (h : 1 ≤ d.nodes) : d.quorum ≤ d.nodes - d.faulty := by
  unfold Def.quorum Def.faulty; omega

/-- with `fa ≤ f` Byzantine members, the members outside a quorum plus the Byzantine ones are
fewer than a quorum. -/
theorem outside_lt_quorum (d : Def) (h : 1 ≤ d.nodes) (fa : Nat) (hfa : fa ≤ d.faulty) :
    fa + (d.nodes - d.quorum) < d.quorum := by
  unfold Def.quorum Def.faulty at *; omega

theorem quorum_pos (d : Def) (h : 1 ≤ d.nodes) : 1 ≤ d.quorum := by
  unfold Def.quorum; omega

end CharonV.Qbft
