import CharonV.Model.Transport
import CharonV.Proofs.QbftWire
/-
Invariants and helper lemmas for `Model/Transport.lean` (C05 extension: per-instance transport).
-/
namespace CharonV.Transport

open CharonV.QbftWire

/-! ### association lists -/

theorem get_cons (h' : Hash) (v : Val) (m : VMap) (h : Hash) :
    VMap.get ((h', v) :: m) h = if h' = h then some v else VMap.get m h := by
  rfl

theorem get_append (a b : VMap) (h : Hash) :
    VMap.get (a ++ b) h = match VMap.get a h with | some v => some v | none => VMap.get b h := by
  induction a with
  | nil => simp [VMap.get]
  | cons p rest ih =>
    obtain ⟨h', v⟩ := p
    simp only [List.cons_append, get_cons]
    split
    · rfl
    · exact ih

theorem get_entries (m : VMap) : ∀ (seen : List Hash) (h : Hash),
    VMap.get (entries m seen) h = if seen.contains h then none else VMap.get m h := by
  induction m with
  | nil => intro seen h; simp [entries, VMap.get]
  | cons p rest ih =>
    intro seen h
    obtain ⟨h', v⟩ := p
    unfold entries
    cases hs : seen.contains h' with
    | true =>
      simp only [if_true]
      rw [ih seen h, get_cons]
      cases hh : seen.contains h with
      | true => simp
      | false =>
        have : h' ≠ h := by intro e; subst e; rw [hs] at hh; cases hh
        simp [this]
    | false =>
      simp only [Bool.false_eq_true, if_false]
      rw [get_cons, get_cons]
      by_cases he : h' = h
      · subst he; rw [hs]; simp
      · simp only [he, if_false]
        rw [ih (h' :: seen) h]
        have hc : (h' :: seen).contains h = seen.contains h := by
          simp only [List.contains_cons]
          have hb : (h == h') = false := by
            simp only [beq_eq_false_iff_ne, ne_eq]; intro e; exact he e.symm
          rw [hb]; simp
        rw [hc]

theorem get_entries_nil (m : VMap) (h : Hash) : VMap.get (entries m []) h = VMap.get m h := by
  rw [get_entries]; simp

theorem mem_entries (m : VMap) : ∀ (seen : List Hash) (p : Hash × Val),
    p ∈ entries m seen → seen.contains p.1 = false ∧ VMap.get m p.1 = some p.2 := by
  induction m with
  | nil => intro seen p hp; simp [entries] at hp
  | cons q rest ih =>
    intro seen p hp
    obtain ⟨h', v⟩ := q
    unfold entries at hp
    by_cases hs : seen.contains h' = true
    · simp only [hs, if_true] at hp
      obtain ⟨h1, h2⟩ := ih seen p hp
      refine ⟨h1, ?_⟩
      rw [get_cons]
      have : h' ≠ p.1 := by intro e; rw [e] at hs; rw [h1] at hs; cases hs
      simp [this, h2]
    · simp only [hs] at hp
      cases hp with
      | head =>
        refine ⟨by simpa using hs, ?_⟩
        simp [get_cons]
      | tail _ hp' =>
        obtain ⟨h1, h2⟩ := ih (h' :: seen) p hp'
        simp only [List.contains_cons, Bool.or_eq_false_iff] at h1
        refine ⟨h1.2, ?_⟩
        rw [get_cons]
        have : h' ≠ p.1 := by
          intro e; have := h1.1; simp [e] at this
        simp [this, h2]

theorem valuesByHash_append (C : Crypto) : ∀ (xs ys : List Val) (acc : VMap),
    valuesByHash C (xs ++ ys) acc = (valuesByHash C xs acc).bind (valuesByHash C ys)
  | [], ys, acc => by simp [valuesByHash]
  | x :: xs, ys, acc => by
    simp only [List.cons_append]
    unfold valuesByHash
    cases valHash C x with
    | none => rfl
    | some h => exact valuesByHash_append C xs ys _

/-- re-hashing the values of well-hashed bindings rebuilds the bindings. -/
theorem valuesByHash_rebuild (C : Crypto) : ∀ (E : VMap) (acc : VMap),
    (∀ p ∈ E, valHash C p.2 = some p.1) →
    valuesByHash C ((E.map (·.2)).reverse) acc = some (E ++ acc)
  | [], acc, _ => by simp [valuesByHash]
  | p :: E, acc, h => by
    simp only [List.map_cons, List.reverse_cons]
    rw [valuesByHash_append, valuesByHash_rebuild C E acc (fun q hq => h q (List.mem_cons_of_mem _ hq))]
    simp only [Option.bind_some]
    unfold valuesByHash
    rw [h p (List.mem_cons_self ..)]
    simp [valuesByHash]

/-! ### messages -/

/-- the non-zero hashes a message refers to: value / prepared value of the main message and of
every justification. -/
def Refs (m : TMsg) (h : Hash) : Prop :=
  ∃ x ∈ m.pb :: m.just, toHash32 x.fields.valueHash = some h ∨ toHash32 x.fields.preparedValueHash = some h

/-- a message whose map binds hashes to values with that hash and holds every referenced value. -/
def MsgOk (C : Crypto) (m : TMsg) : Prop :=
  ValuesOk C m.values ∧ ∀ x ∈ m.pb :: m.just, RefsOk m.values x

theorem newTMsg_ok {c : Core} {just : List Core} {vals : VMap} {m : TMsg}
    (h : newTMsg c just vals = .ok m) :
    m = { pb := c, just := just, values := vals } ∧ (∀ x ∈ c :: just, RefsOk vals x) ∧
      QbftWire.newMsg c just vals = .ok m.view := by
  unfold newTMsg at h
  split at h
  · cases h
  · rename_i mv hmv
    cases h
    obtain ⟨hm, hr⟩ := newMsg_ok hmv
    refine ⟨rfl, hr, ?_⟩
    rw [hmv, hm]; rfl

theorem newTMsg_of_refs {c : Core} {just : List Core} {vals : VMap}
    (h : ∀ x ∈ c :: just, RefsOk vals x) :
    newTMsg c just vals = .ok { pb := c, just := just, values := vals } := by
  unfold newTMsg QbftWire.newMsg
  rw [checkRefs_of_ok (h c (List.mem_cons_self ..)),
    checkRefsList_of_ok (fun j hj => h j (List.mem_cons_of_mem _ hj))]

theorem newTMsg_error {c : Core} {just : List Core} {vals : VMap} {r : Reason}
    (h : newTMsg c just vals = .error r) : ¬ ∀ x ∈ c :: just, RefsOk vals x := by
  intro hall
  rw [newTMsg_of_refs hall] at h
  cases h

theorem admitMsg_ok {C : Crypto} {c : Core} {just : List Core} {vs : List Val} {m : TMsg}
    (h : admitMsg C c just vs = .ok m) : MsgOk C m ∧ m.pb = c ∧ m.just = just := by
  unfold admitMsg at h
  split at h
  · cases h
  · rename_i vals hv
    obtain ⟨hm, hr, _⟩ := newTMsg_ok h
    subst hm
    exact ⟨⟨valuesByHash_ok hv (valuesOk_nil C), hr⟩, rfl, rfl⟩

@[simp] theorem toHash32_hbytes (x : Option Hash) : toHash32 (hbytes x) = x := by
  cases x <;> rfl

/-! ### getValue / collect -/

/-- cache and value channel only hold well-hashed values. -/
def CacheOk (C : Crypto) (s : State) : Prop :=
  ValuesOk C s.cache ∧ ∀ p ∈ s.valueCh, valHash C p.2 = some p.1

/-- everything but cache and channel is untouched, and cached hashes stay cached. -/
def Grows (s s' : State) : Prop :=
  s'.pending = s.pending ∧ s'.sent = s.sent ∧ s'.selfDelivered = s.selfDelivered ∧
  s'.delivered = s.delivered ∧ ∀ h, (s.cache.get h).isSome → (s'.cache.get h).isSome

theorem grows_refl (s : State) : Grows s s := ⟨rfl, rfl, rfl, rfl, fun _ h => h⟩

theorem grows_trans {a b c : State} (h1 : Grows a b) (h2 : Grows b c) : Grows a c :=
  ⟨h2.1.trans h1.1, h2.2.1.trans h1.2.1, h2.2.2.1.trans h1.2.2.1, h2.2.2.2.1.trans h1.2.2.2.1,
    fun h hh => h2.2.2.2.2 h (h1.2.2.2.2 h hh)⟩

theorem getValue_grows (s : State) (h : Hash) : Grows s (getValue s h).1 := by
  unfold getValue
  cases hc : s.valueCh with
  | nil => exact grows_refl s
  | cons p rest =>
    obtain ⟨ph, pv⟩ := p
    refine ⟨rfl, rfl, rfl, rfl, ?_⟩
    intro h' hh
    simp only [get_cons]
    split
    · rfl
    · exact hh

theorem getValue_snd (s : State) (h : Hash) : (getValue s h).2 = (getValue s h).1.cache.get h := by
  unfold getValue; rfl

theorem getValue_cacheOk {C : Crypto} {s : State} (h : Hash) (hs : CacheOk C s) :
    CacheOk C (getValue s h).1 := by
  unfold getValue
  cases hc : s.valueCh with
  | nil => exact hs
  | cons p rest =>
    obtain ⟨ph, pv⟩ := p
    have hp := hs.2 (ph, pv) (by rw [hc]; exact List.mem_cons_self ..)
    refine ⟨valuesOk_cons hs.1 hp, ?_⟩
    intro q hq
    exact hs.2 q (by rw [hc]; exact List.mem_cons_of_mem _ hq)

theorem getValue_nil {s : State} (h : Hash) (hc : s.valueCh = []) : getValue s h = (s, s.cache.get h) := by
  unfold getValue; rw [hc]

/-- what a successful run of the look-up loop guarantees. -/
theorem collect_ok {C : Crypto} : ∀ (hs : List (Option Hash)) (s : State) (acc : VMap) (s' : State) (vals : VMap),
    collect s hs acc = (s', some vals) →
    Grows s s' ∧
    (CacheOk C s → CacheOk C s') ∧
    (CacheOk C s → ValuesOk C acc → ValuesOk C vals) ∧
    (∀ h, (acc.get h).isSome → (vals.get h).isSome) ∧
    (∀ h, some h ∈ hs → (vals.get h).isSome) ∧
    (∀ h, (vals.get h).isSome → (acc.get h).isSome ∨ (some h ∈ hs ∧ (s'.cache.get h).isSome))
  | [], s, acc, s', vals, h => by
    simp only [collect, Prod.mk.injEq, Option.some.injEq] at h
    obtain ⟨h1, h2⟩ := h
    subst h1; subst h2
    refine ⟨grows_refl _, id, fun _ h => h, fun _ h => h, ?_, fun _ h => Or.inl h⟩
    intro x hx; simp at hx
  | none :: rest, s, acc, s', vals, h => by
    simp only [collect] at h
    obtain ⟨g, c1, c2, c3, c4, c5⟩ := collect_ok (C := C) rest s acc s' vals h
    refine ⟨g, c1, c2, c3, ?_, ?_⟩
    · intro x hx
      cases hx with
      | tail _ hx' => exact c4 x hx'
    · intro x hx
      rcases c5 x hx with h1 | ⟨h1, h2⟩
      · exact Or.inl h1
      · exact Or.inr ⟨List.mem_cons_of_mem _ h1, h2⟩
  | some k :: rest, s, acc, s', vals, h => by
    unfold collect at h
    by_cases hk : (acc.get k).isSome = true
    · simp only [hk, if_true] at h
      obtain ⟨g, c1, c2, c3, c4, c5⟩ := collect_ok (C := C) rest s acc s' vals h
      refine ⟨g, c1, c2, c3, ?_, ?_⟩
      · intro x hx
        cases hx with
        | head => exact c3 k hk
        | tail _ hx' => exact c4 x hx'
      · intro x hx
        rcases c5 x hx with h1 | ⟨h1, h2⟩
        · exact Or.inl h1
        · exact Or.inr ⟨List.mem_cons_of_mem _ h1, h2⟩
    · rw [if_neg hk] at h
      have hsnd := getValue_snd s k
      have hg := getValue_grows s k
      cases hgv : getValue s k with
      | mk s1 r =>
        rw [hgv] at h hsnd hg
        simp only at hsnd hg
        cases r with
        | none => simp at h
        | some v =>
          simp only at h
          obtain ⟨g, c1, c2, c3, c4, c5⟩ := collect_ok (C := C) rest s1 ((k, v) :: acc) s' vals h
          have hcok : CacheOk C s → CacheOk C s1 := by
            intro hc; have := getValue_cacheOk (C := C) k hc; rw [hgv] at this; exact this
          refine ⟨grows_trans hg g, fun hc => c1 (hcok hc), ?_, ?_, ?_, ?_⟩
          · intro hc ha
            have hc1 := hcok hc
            exact c2 hc1 (valuesOk_cons ha (hc1.1 k v hsnd.symm))
          · intro x hx
            apply c3
            rw [get_cons]; split
            · rfl
            · exact hx
          · intro x hx
            cases hx with
            | head => apply c3; simp [get_cons]
            | tail _ hx' => exact c4 x hx'
          · intro x hx
            rcases c5 x hx with h1 | ⟨h1, h2⟩
            · rw [get_cons] at h1
              by_cases hkx : k = x
              · subst hkx
                right
                refine ⟨List.mem_cons_self .., ?_⟩
                apply g.2.2.2.2
                rw [← hsnd]; rfl
              · simp only [hkx, if_false] at h1
                exact Or.inl h1
            · exact Or.inr ⟨List.mem_cons_of_mem _ h1, h2⟩

/-- a failing look-up loop: state growth only. -/
theorem collect_grows {C : Crypto} : ∀ (hs : List (Option Hash)) (s : State) (acc : VMap) (s' : State) (r : Option VMap),
    collect s hs acc = (s', r) → Grows s s' ∧ (CacheOk C s → CacheOk C s')
  | [], s, acc, s', r, h => by
    simp only [collect, Prod.mk.injEq] at h
    obtain ⟨h1, _⟩ := h
    subst h1
    exact ⟨grows_refl _, id⟩
  | none :: rest, s, acc, s', r, h => by
    simp only [collect] at h
    exact collect_grows (C := C) rest s acc s' r h
  | some k :: rest, s, acc, s', r, h => by
    unfold collect at h
    by_cases hk : (acc.get k).isSome = true
    · simp only [hk, if_true] at h
      exact collect_grows (C := C) rest s acc s' r h
    · rw [if_neg hk] at h
      have hg := getValue_grows s k
      have hcok : CacheOk C s → CacheOk C (getValue s k).1 := getValue_cacheOk (C := C) k
      cases hgv : getValue s k with
      | mk s1 r1 =>
        rw [hgv] at h hg hcok
        simp only at hg hcok
        cases r1 with
        | none =>
          simp only at h
          injection h with h1 _
          subst h1
          exact ⟨hg, hcok⟩
        | some v =>
          simp only at h
          obtain ⟨g, c⟩ := collect_grows (C := C) rest s1 ((k, v) :: acc) s' r h
          exact ⟨grows_trans hg g, fun hc => c (hcok hc)⟩

/-- the loop fails only on a referenced hash that was not cached when the loop started. -/
theorem collect_none : ∀ (hs : List (Option Hash)) (s : State) (acc : VMap) (s' : State),
    collect s hs acc = (s', none) → ∃ h, some h ∈ hs ∧ s.cache.get h = none
  | [], s, acc, s', h => by simp [collect] at h
  | none :: rest, s, acc, s', h => by
    simp only [collect] at h
    obtain ⟨x, hx, hc⟩ := collect_none rest s acc s' h
    exact ⟨x, List.mem_cons_of_mem _ hx, hc⟩
  | some k :: rest, s, acc, s', h => by
    unfold collect at h
    by_cases hk : (acc.get k).isSome = true
    · simp only [hk, if_true] at h
      obtain ⟨x, hx, hc⟩ := collect_none rest s acc s' h
      exact ⟨x, List.mem_cons_of_mem _ hx, hc⟩
    · rw [if_neg hk] at h
      have hg := getValue_grows s k
      have hsnd := getValue_snd s k
      cases hgv : getValue s k with
      | mk s1 r1 =>
        rw [hgv] at h hg hsnd
        simp only at hg hsnd
        have mono : ∀ x, s1.cache.get x = none → s.cache.get x = none := by
          intro x hx
          cases hsx : s.cache.get x with
          | none => rfl
          | some v =>
            have := hg.2.2.2.2 x (by rw [hsx]; rfl)
            rw [hx] at this; cases this
        cases r1 with
        | none =>
          exact ⟨k, List.mem_cons_self .., mono k hsnd.symm⟩
        | some v =>
          simp only at h
          obtain ⟨x, hx, hc⟩ := collect_none rest s1 ((k, v) :: acc) s' h
          exact ⟨x, List.mem_cons_of_mem _ hx, mono x hc⟩

/-- with an empty value channel the loop fails exactly on a referenced hash that is neither
collected nor cached. -/
theorem collect_nil_iff : ∀ (hs : List (Option Hash)) (s : State) (acc : VMap), s.valueCh = [] →
    ((collect s hs acc).2 = none ↔ ∃ h, some h ∈ hs ∧ acc.get h = none ∧ s.cache.get h = none)
  | [], s, acc, _ => by simp [collect]
  | none :: rest, s, acc, hc => by
    simp only [collect]
    rw [collect_nil_iff rest s acc hc]
    constructor
    · rintro ⟨x, hx, h1, h2⟩; exact ⟨x, List.mem_cons_of_mem _ hx, h1, h2⟩
    · rintro ⟨x, hx, h1, h2⟩
      cases hx with
      | tail _ hx' => exact ⟨x, hx', h1, h2⟩
  | some k :: rest, s, acc, hc => by
    unfold collect
    by_cases hk : (acc.get k).isSome = true
    · simp only [hk, if_true]
      rw [collect_nil_iff rest s acc hc]
      constructor
      · rintro ⟨x, hx, h1, h2⟩; exact ⟨x, List.mem_cons_of_mem _ hx, h1, h2⟩
      · rintro ⟨x, hx, h1, h2⟩
        cases hx with
        | head => rw [h1] at hk; cases hk
        | tail _ hx' => exact ⟨x, hx', h1, h2⟩
    · rw [if_neg hk]
      rw [getValue_nil k hc]
      have hkn : acc.get k = none := by
        cases ha : acc.get k with
        | none => rfl
        | some v => rw [ha] at hk; exact absurd rfl hk
      cases hck : s.cache.get k with
      | none =>
        simp only
        constructor
        · intro _; exact ⟨k, List.mem_cons_self .., hkn, hck⟩
        · intro _; trivial
      | some v =>
        simp only
        rw [collect_nil_iff rest s ((k, v) :: acc) hc]
        constructor
        · rintro ⟨x, hx, h1, h2⟩
          rw [get_cons] at h1
          by_cases hkx : k = x
          · simp [hkx] at h1
          · simp only [hkx, if_false] at h1
            exact ⟨x, List.mem_cons_of_mem _ hx, h1, h2⟩
        · rintro ⟨x, hx, h1, h2⟩
          cases hx with
          | head => rw [hck] at h2; cases h2
          | tail _ hx' =>
            refine ⟨x, hx', ?_, h2⟩
            rw [get_cons]
            have : k ≠ x := by intro e; subst e; rw [hck] at h2; cases h2
            simp [this, h1]

/-! ### Broadcast -/

theorem mem_hashesOf {a : BArgs} {h : Hash} :
    some h ∈ hashesOf a ↔ (a.value = some h ∨ a.pvalue = some h ∨
      ∃ j ∈ a.just, j.value = some h ∨ j.preparedValue = some h) := by
  unfold hashesOf
  simp only [List.mem_cons, List.mem_flatMap, List.not_mem_nil, or_false]
  constructor
  · rintro (h1 | h1 | ⟨j, hj, h1 | h1⟩)
    · exact Or.inl h1.symm
    · exact Or.inr (Or.inl h1.symm)
    · exact Or.inr (Or.inr ⟨j, hj, Or.inl h1.symm⟩)
    · exact Or.inr (Or.inr ⟨j, hj, Or.inr h1.symm⟩)
  · rintro (h1 | h1 | ⟨j, hj, h1 | h1⟩)
    · exact Or.inl h1.symm
    · exact Or.inr (Or.inl h1.symm)
    · exact Or.inr (Or.inr ⟨j, hj, Or.inl h1.symm⟩)
    · exact Or.inr (Or.inr ⟨j, hj, Or.inr h1.symm⟩)

/-- the protos `createMsg` hands to `newMsg`. -/
def protoOf (C : Crypto) (sign : C.Digest → SigB) (a : BArgs) : Core :=
  { fields := fieldsOf a, sig := some (sign (C.digest (fieldsOf a))) }

/-- a non-zero hash referenced by the protos is one of the collected hashes, and conversely. -/
theorem refs_iff_hashesOf (C : Crypto) (sign : C.Digest → SigB) (a : BArgs) (h : Hash) :
    (∃ x ∈ protoOf C sign a :: a.just.map (·.pb),
        toHash32 x.fields.valueHash = some h ∨ toHash32 x.fields.preparedValueHash = some h) ↔
      some h ∈ hashesOf a := by
  rw [mem_hashesOf]
  constructor
  · rintro ⟨x, hx, hr⟩
    cases hx with
    | head =>
      simp only [protoOf, fieldsOf, toHash32_hbytes] at hr
      rcases hr with hr | hr
      · exact Or.inl hr
      · exact Or.inr (Or.inl hr)
    | tail _ hx' =>
      obtain ⟨j, hj, hje⟩ := List.mem_map.mp hx'
      subst hje
      exact Or.inr (Or.inr ⟨j, hj, hr⟩)
  · rintro (h1 | h1 | ⟨j, hj, hr⟩)
    · exact ⟨_, List.mem_cons_self .., Or.inl (by simp [protoOf, fieldsOf, h1])⟩
    · exact ⟨_, List.mem_cons_self .., Or.inr (by simp [protoOf, fieldsOf, h1])⟩
    · exact ⟨j.pb, List.mem_cons_of_mem _ (List.mem_map.mpr ⟨j, hj, rfl⟩), hr⟩

theorem refsOk_of_collected (C : Crypto) (sign : C.Digest → SigB) (a : BArgs) (vals : VMap)
    (hall : ∀ h, some h ∈ hashesOf a → (vals.get h).isSome) :
    ∀ x ∈ protoOf C sign a :: a.just.map (·.pb), RefsOk vals x := by
  intro x hx
  constructor
  · intro h hh
    exact hall h ((refs_iff_hashesOf C sign a h).mp ⟨x, hx, Or.inl hh⟩)
  · intro h hh
    exact hall h ((refs_iff_hashesOf C sign a h).mp ⟨x, hx, Or.inr hh⟩)

/-- everything a call of `Broadcast` can do. -/
theorem broadcast_cases (C : Crypto) (sign : C.Digest → SigB) (s : State) (a : BArgs) :
    (∃ s', collect s (hashesOf a) [] = (s', none) ∧ broadcast C sign s a = (s', .error .unknownValue)) ∨
    (∃ s' vals, collect s (hashesOf a) [] = (s', some vals) ∧
      let m : TMsg := { pb := protoOf C sign a, just := a.just.map (·.pb), values := vals }
      broadcast C sign s a =
        ({ s' with pending := s'.pending ++ [m], sent := s'.sent ++ [m] }, .ok m)) := by
  unfold broadcast
  cases hc : collect s (hashesOf a) [] with
  | mk s' r =>
    cases r with
    | none => exact Or.inl ⟨s', rfl, rfl⟩
    | some vals =>
      right
      refine ⟨s', vals, rfl, ?_⟩
      obtain ⟨_, _, _, _, c4, _⟩ := collect_ok (C := C) _ _ _ _ _ hc
      have hr := refsOk_of_collected C sign a vals c4
      simp only [createMsg]
      have := newTMsg_of_refs hr
      unfold protoOf at this
      rw [this]
      rfl

/-! ### the invariant over event sequences -/

/-- every non-zero hash the message refers to has a cached value. -/
def Cached (s : State) (m : TMsg) : Prop := ∀ x ∈ m.pb :: m.just, RefsOk s.cache x

/-- a well-formed message all of whose referenced values are cached. -/
def Good (C : Crypto) (s : State) (m : TMsg) : Prop := MsgOk C m ∧ Cached s m

def Inv (C : Crypto) (s : State) : Prop :=
  CacheOk C s ∧
  (∀ m ∈ s.sent, Good C s m) ∧
  (∀ m ∈ s.pending, Good C s m) ∧
  (∀ m ∈ s.delivered, Good C s m)

/-- events as the surrounding code produces them: `propose` pairs a value with its own hash,
`handle` only enqueues messages built by `valuesByHash` + `newMsg`. -/
def EvOk (C : Crypto) : Ev → Prop
  | .propose h v => valHash C v = some h
  | .receive m => MsgOk C m
  | _ => True

theorem inv_init (C : Crypto) : Inv C {} := by
  refine ⟨⟨valuesOk_nil C, ?_⟩, ?_, ?_, ?_⟩ <;> intro x hx <;> cases hx

theorem cached_mono {s s' : State} {m : TMsg}
    (hg : ∀ h, (s.cache.get h).isSome → (s'.cache.get h).isSome) (hc : Cached s m) : Cached s' m := by
  intro x hx
  exact ⟨fun h hh => hg h ((hc x hx).1 h hh), fun h hh => hg h ((hc x hx).2 h hh)⟩

theorem good_mono {C : Crypto} {s s' : State} {m : TMsg}
    (hg : ∀ h, (s.cache.get h).isSome → (s'.cache.get h).isSome) (hc : Good C s m) : Good C s' m :=
  ⟨hc.1, cached_mono hg hc.2⟩

theorem step_cache_mono (C : Crypto) (sign : C.Digest → SigB) (s : State) (e : Ev) :
    ∀ h, (s.cache.get h).isSome → ((step C sign s e).cache.get h).isSome := by
  intro h hh
  cases e with
  | propose ph pv => exact hh
  | selfDeliver i =>
    simp only [step, selfDeliver]
    split <;> exact hh
  | receive m =>
    simp only [step, receive, setValues]
    rw [get_append]
    split
    · rfl
    · exact hh
  | broadcast a =>
    simp only [step]
    rcases broadcast_cases C sign s a with ⟨s', hc, hb⟩ | ⟨s', vals, hc, hb⟩
    · rw [hb]; exact (collect_grows (C := C) _ _ _ _ _ hc).1.2.2.2.2 h hh
    · rw [hb]; exact (collect_grows (C := C) _ _ _ _ _ hc).1.2.2.2.2 h hh

theorem valuesOk_append {C : Crypto} {a b : VMap} (ha : ValuesOk C a) (hb : ValuesOk C b) :
    ValuesOk C (a ++ b) := by
  intro h v hg
  rw [get_append] at hg
  split at hg
  · rename_i v' hv'; cases hg; exact ha h _ hv'
  · exact hb h v hg

/-- the message a successful `Broadcast` builds is well-formed and fully cached. -/
theorem broadcast_good {C : Crypto} {s s' : State} {a : BArgs} {vals : VMap} (sign : C.Digest → SigB)
    (hcache : CacheOk C s) (hc : collect s (hashesOf a) [] = (s', some vals)) (s'' : State)
    (hs'' : s''.cache = s'.cache) :
    Good C s'' { pb := protoOf C sign a, just := a.just.map (·.pb), values := vals } := by
  obtain ⟨_, _, c2, _, c4, c5⟩ := collect_ok (C := C) _ _ _ _ _ hc
  refine ⟨⟨c2 hcache (valuesOk_nil C), refsOk_of_collected C sign a vals c4⟩, ?_⟩
  have hall : ∀ h, some h ∈ hashesOf a → (s''.cache.get h).isSome := by
    intro h hh
    rcases c5 h (c4 h hh) with h1 | ⟨_, h2⟩
    · simp [VMap.get] at h1
    · rw [hs'']; exact h2
  exact refsOk_of_collected C sign a s''.cache hall

theorem inv_step {C : Crypto} {sign : C.Digest → SigB} {s : State} {e : Ev}
    (hi : Inv C s) (he : EvOk C e) : Inv C (step C sign s e) := by
  obtain ⟨hc, hsent, hpend, hdel⟩ := hi
  have mono := step_cache_mono C sign s e
  cases e with
  | propose ph pv =>
    refine ⟨⟨hc.1, ?_⟩, hsent, hpend, hdel⟩
    intro p hp
    simp only [step, propose, List.mem_append, List.mem_singleton] at hp
    rcases hp with hp | hp
    · exact hc.2 p hp
    · subst hp; exact he
  | selfDeliver i =>
    simp only [step, selfDeliver]
    cases hp : s.pending[i]? with
    | none => exact ⟨hc, hsent, hpend, hdel⟩
    | some m =>
      simp only
      refine ⟨hc, hsent, ?_, ?_⟩
      · intro m' hm'
        exact hpend m' (List.mem_of_mem_eraseIdx hm')
      · intro m' hm'
        simp only [List.mem_append, List.mem_singleton] at hm'
        rcases hm' with hm' | hm'
        · exact hdel m' hm'
        · subst hm'
          exact hpend m' (List.mem_of_getElem? hp)
  | receive m =>
    simp only [step] at mono ⊢
    have hcache : CacheOk C (receive s m) := ⟨valuesOk_append he.1 hc.1, hc.2⟩
    refine ⟨hcache, fun m' hm' => good_mono mono (hsent m' hm'), fun m' hm' => good_mono mono (hpend m' hm'), ?_⟩
    intro m' hm'
    simp only [receive, setValues, List.mem_append, List.mem_singleton] at hm'
    rcases hm' with hm' | hm'
    · exact good_mono mono (hdel m' hm')
    · subst hm'
      refine ⟨he, ?_⟩
      intro x hx
      have hr := he.2 x hx
      have up : ∀ h, (m'.values.get h).isSome → ((receive s m').cache.get h).isSome := by
        intro h hh
        simp only [receive, setValues]
        rw [get_append]
        cases hv : m'.values.get h with
        | none => rw [hv] at hh; cases hh
        | some v => rfl
      exact ⟨fun h hh => up h (hr.1 h hh), fun h hh => up h (hr.2 h hh)⟩
  | broadcast a =>
    simp only [step] at mono ⊢
    rcases broadcast_cases C sign s a with ⟨s', hcol, hb⟩ | ⟨s', vals, hcol, hb⟩
    · rw [hb] at mono ⊢
      obtain ⟨g, ck⟩ := collect_grows (C := C) _ _ _ _ _ hcol
      refine ⟨ck hc, ?_, ?_, ?_⟩
      · rw [g.2.1]; exact fun m' hm' => good_mono mono (hsent m' hm')
      · rw [g.1]; exact fun m' hm' => good_mono mono (hpend m' hm')
      · rw [g.2.2.2.1]; exact fun m' hm' => good_mono mono (hdel m' hm')
    · simp only at hb
      rw [hb] at mono ⊢
      obtain ⟨g, ck⟩ := collect_grows (C := C) _ _ _ _ _ hcol
      have hgood := broadcast_good sign hc hcol
        { s' with pending := s'.pending ++ [{ pb := protoOf C sign a, just := a.just.map (·.pb), values := vals }],
                  sent := s'.sent ++ [{ pb := protoOf C sign a, just := a.just.map (·.pb), values := vals }] } rfl
      refine ⟨ck hc, ?_, ?_, ?_⟩
      · intro m' hm'
        simp only [List.mem_append, List.mem_singleton] at hm'
        rcases hm' with hm' | hm'
        · rw [g.2.1] at hm'; exact good_mono mono (hsent m' hm')
        · subst hm'; exact hgood
      · intro m' hm'
        simp only [List.mem_append, List.mem_singleton] at hm'
        rcases hm' with hm' | hm'
        · rw [g.1] at hm'; exact good_mono mono (hpend m' hm')
        · subst hm'; exact hgood
      · intro m' hm'
        simp only at hm'
        rw [g.2.2.2.1] at hm'
        exact good_mono mono (hdel m' hm')

theorem inv_run {C : Crypto} {sign : C.Digest → SigB} : ∀ (evs : List Ev) {s : State},
    Inv C s → (∀ e ∈ evs, EvOk C e) → Inv C (run C sign s evs)
  | [], _, h, _ => h
  | e :: es, _, h, he => by
    unfold run
    exact inv_run es (inv_step h (he e (List.mem_cons_self ..)))
      (fun e' he' => he e' (List.mem_cons_of_mem _ he'))

theorem run_cache_mono (C : Crypto) (sign : C.Digest → SigB) : ∀ (evs : List Ev) (s : State) (h : Hash),
    (s.cache.get h).isSome → ((run C sign s evs).cache.get h).isSome
  | [], _, _, hh => hh
  | e :: es, s, h, hh => by
    unfold run
    exact run_cache_mono C sign es _ h (step_cache_mono C sign s e h hh)

/-! ### self-delivery bookkeeping -/

/-- every broadcast is either parked or was self-delivered, exactly once. -/
def SelfInv (s : State) : Prop := List.Perm s.sent (s.selfDelivered ++ s.pending)

theorem selfInv_init : SelfInv {} := List.Perm.refl _

theorem perm_eraseIdx {α : Type} : ∀ (l : List α) (i : Nat) (x : α), l[i]? = some x →
    List.Perm l (x :: l.eraseIdx i)
  | [], i, x, h => by simp at h
  | y :: ys, 0, x, h => by
    simp only [List.getElem?_cons_zero, Option.some.injEq] at h
    subst h; simp [List.eraseIdx]
  | y :: ys, i + 1, x, h => by
    simp only [List.getElem?_cons_succ] at h
    simp only [List.eraseIdx_cons_succ]
    exact ((perm_eraseIdx ys i x h).cons y).trans (List.Perm.swap x y _)

theorem selfInv_step (C : Crypto) (sign : C.Digest → SigB) {s : State} (e : Ev) (hi : SelfInv s) :
    SelfInv (step C sign s e) := by
  unfold SelfInv at *
  cases e with
  | propose ph pv => exact hi
  | receive m => exact hi
  | selfDeliver i =>
    simp only [step, selfDeliver]
    cases hp : s.pending[i]? with
    | none => exact hi
    | some m =>
      simp only
      refine hi.trans ?_
      have h1 := perm_eraseIdx s.pending i m hp
      refine (List.Perm.append_left s.selfDelivered h1).trans ?_
      rw [List.append_assoc]
      simp
  | broadcast a =>
    simp only [step]
    rcases broadcast_cases C sign s a with ⟨s', hcol, hb⟩ | ⟨s', vals, hcol, hb⟩
    · rw [hb]
      obtain ⟨g, _⟩ := collect_grows (C := C) _ _ _ _ _ hcol
      rw [g.2.1, g.1, g.2.2.1]; exact hi
    · simp only at hb
      rw [hb]
      obtain ⟨g, _⟩ := collect_grows (C := C) _ _ _ _ _ hcol
      simp only
      rw [g.2.1, g.1, g.2.2.1, ← List.append_assoc]
      exact List.Perm.append_right _ hi

theorem selfInv_run (C : Crypto) (sign : C.Digest → SigB) : ∀ (evs : List Ev) {s : State},
    SelfInv s → SelfInv (run C sign s evs)
  | [], _, h => h
  | e :: es, _, h => by
    unfold run
    exact selfInv_run C sign es (selfInv_step C sign e h)

theorem get_mem {l : VMap} {h : Hash} {v : Val} (hg : l.get h = some v) : (h, v) ∈ l := by
  induction l with
  | nil => simp [VMap.get] at hg
  | cons p rest ih =>
    obtain ⟨h', v'⟩ := p
    rw [get_cons] at hg
    split at hg
    · rename_i e; cases hg; subst e; exact List.mem_cons_self ..
    · exact List.mem_cons_of_mem _ (ih hg)

/-- a successfully broadcast message is well-formed when cache and channel are. -/
theorem broadcast_msgOk {C : Crypto} {sign : C.Digest → SigB} {s s' : State} {a : BArgs} {m : TMsg}
    (hcache : CacheOk C s) (h : broadcast C sign s a = (s', .ok m)) : MsgOk C m := by
  rcases broadcast_cases C sign s a with ⟨s1, _, hb⟩ | ⟨s1, vals, hc, hb⟩
  · rw [hb] at h; cases h
  · simp only at hb
    rw [hb] at h
    injection h with _ h2
    injection h2 with h2
    subst h2
    exact (broadcast_good sign hcache hc s1 rfl).1

/-! ### reachable states -/

/-- states reached from a fresh transport by events as the surrounding code produces them. -/
def Reach (C : Crypto) (sign : C.Digest → SigB) (s : State) : Prop :=
  ∃ evs, (∀ e ∈ evs, EvOk C e) ∧ run C sign {} evs = s

theorem reach_inv {C : Crypto} {sign : C.Digest → SigB} {s : State} (h : Reach C sign s) : Inv C s := by
  obtain ⟨evs, he, hr⟩ := h
  rw [← hr]
  exact inv_run evs (inv_init C) he

/-- collision freedom of the value hash on the values that occur (hypothesis of theorems only). -/
def HashInj (C : Crypto) : Prop := ∀ x y h, C.hashInner x = some h → C.hashInner y = some h → x = y

theorem valHash_some {C : Crypto} {v : Val} {h : Hash} (hv : valHash C v = some h) :
    ∃ x, C.unmarshalAny v = some x ∧ C.hashInner x = some h := by
  unfold valHash at hv
  cases hu : C.unmarshalAny v with
  | none => rw [hu] at hv; cases hv
  | some x => rw [hu] at hv; exact ⟨x, rfl, hv⟩

theorem isSome_get {m : VMap} {h : Hash} (hs : (m.get h).isSome) : ∃ v, m.get h = some v := by
  cases hv : m.get h with
  | none => rw [hv] at hs; cases hs
  | some v => exact ⟨v, rfl⟩

end CharonV.Transport
