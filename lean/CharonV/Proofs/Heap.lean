/-
Helper lemmas and the pipeline invariant for C18 (Model/Heap.lean).
-/
import CharonV.Model.Heap

namespace CharonV.Heap

/-! ### reading -/

theorem read_congr {h h' : Heap} : ∀ {t : Tree}, (∀ c : Nat, c ∈ t.cells → h c = h' c) → read h t = read h' t
  | .nil, _ => rfl
  | .node c k s, hc => by
    have h0 : h c = h' c := hc c (by simp [Tree.cells])
    have hk : read h k = read h' k := read_congr (fun x hx => hc x (by simp [Tree.cells, hx]))
    have hs : read h s = read h' s := read_congr (fun x hx => hc x (by simp [Tree.cells, hx]))
    simp [read, h0, hk, hs]

theorem set_other {h : Heap} {c x p : Nat} (hx : x ≠ c) : set h c p x = h x := by
  simp [set, hx]

theorem set_same {h : Heap} {c p : Nat} : set h c p c = p := by
  simp [set]

/-- a mutation of a cell that is not reachable from `t` is invisible through `t`. -/
theorem read_set_of_not_mem {h : Heap} {t : Tree} {c p : Nat} (hc : c ∉ t.cells) :
    read (set h c p) t = read h t :=
  read_congr (fun _ hx => set_other (fun e => hc (e ▸ hx)))

theorem read_setAll_of_disjoint {h : Heap} {t : Tree} {cs : List Cell} {p : Nat}
    (hd : ∀ c : Nat, c ∈ t.cells → c ∉ cs) : read (setAll h cs p) t = read h t :=
  read_congr (fun x hx => by simp [setAll, hd x hx])

/-- a mutation of a reachable cell to a different payload IS visible. -/
theorem read_set_ne {h : Heap} {c p : Nat} (hp : p ≠ h c) :
    ∀ {t : Tree}, c ∈ t.cells → read (set h c p) t ≠ read h t
  | .nil, hc => by simp [Tree.cells] at hc
  | .node c0 k s, hc => by
    intro heq
    simp only [read, VTree.node.injEq] at heq
    obtain ⟨h0, hk, hs⟩ := heq
    simp only [Tree.cells, List.mem_cons, List.mem_append] at hc
    rcases hc with hc | hc | hc
    · subst hc
      rw [set_same] at h0
      exact hp h0
    · exact read_set_ne hp hc hk
    · exact read_set_ne hp hc hs

/-! ### clone / fresh -/

theorem clone_spec : ∀ (t : Tree) (h : Heap) (n : Nat), (∀ c : Nat, c ∈ t.cells → c < n) →
    (clone h n t).next = n + t.size ∧
    (∀ c : Nat, c ∈ (clone h n t).tree.cells → n ≤ c ∧ c < (clone h n t).next) ∧
    (∀ x, x < n → (clone h n t).heap x = h x) ∧
    read (clone h n t).heap (clone h n t).tree = read h t
  | .nil, h, n, _ => by simp [clone, Tree.size, Tree.cells, read]
  | .node c k s, h, n, hb => by
    have hck : ∀ x : Nat, x ∈ k.cells → x < n := fun x hx => hb x (by simp [Tree.cells, hx])
    have hcs : ∀ x : Nat, x ∈ s.cells → x < n := fun x hx => hb x (by simp [Tree.cells, hx])
    have hc : c < n := hb c (by simp [Tree.cells])
    obtain ⟨k1, k2, k3, k4⟩ := clone_spec k (set h n (h c)) (n + 1) (fun x hx => Nat.lt_succ_of_lt (hck x hx))
    have hn2 : n + 1 ≤ (clone (set h n (h c)) (n + 1) k).next := by omega
    obtain ⟨s1, s2, s3, s4⟩ := clone_spec s (clone (set h n (h c)) (n + 1) k).heap
      (clone (set h n (h c)) (n + 1) k).next (fun x hx => by have := hcs x hx; omega)
    -- abbreviations
    generalize hrk : clone (set h n (h c)) (n + 1) k = rk at *
    generalize hrs : clone rk.heap rk.next s = rs at *
    have hcl : clone h n (.node c k s) = ⟨.node n rk.tree rs.tree, rs.heap, rs.next⟩ := by
      simp [clone, hrk, hrs]
    rw [hcl]
    refine ⟨?_, ?_, ?_, ?_⟩
    · simp [Tree.size]; omega
    · intro x hx
      simp only [Tree.cells, List.mem_cons, List.mem_append] at hx
      rcases hx with hx | hx | hx
      · subst hx; simp; omega
      · have := k2 x hx; simp; omega
      · have := s2 x hx; simp; omega
    · intro x hx
      show rs.heap x = h x
      rw [s3 x (by omega), k3 x (by omega), set_other (by omega)]
    · show VTree.node (rs.heap n) (read rs.heap rk.tree) (read rs.heap rs.tree) = read h (.node c k s)
      have e0 : rs.heap n = h c := by
        rw [s3 n (by omega), k3 n (by omega), set_same]
      have ek : read rs.heap rk.tree = read h k := by
        rw [← read_congr (h := rk.heap) (h' := rs.heap) (fun x hx => (s3 x (k2 x hx).2).symm), k4]
        exact read_congr (fun x hx => set_other (by have := hck x hx; omega))
      have es : read rs.heap rs.tree = read h s := by
        rw [s4]
        exact read_congr (fun x hx => by
          have := hcs x hx
          rw [k3 x (by omega), set_other (by omega)])
      simp [read, e0, ek, es]

theorem fresh_spec : ∀ (t : Tree) (h : Heap) (n p : Nat),
    (fresh h n p t).next = n + t.size ∧
    (∀ c : Nat, c ∈ (fresh h n p t).tree.cells → n ≤ c ∧ c < (fresh h n p t).next) ∧
    (∀ x, x < n → (fresh h n p t).heap x = h x)
  | .nil, h, n, p => by simp [fresh, Tree.size, Tree.cells]
  | .node c k s, h, n, p => by
    obtain ⟨k1, k2, k3⟩ := fresh_spec k (set h n p) (n + 1) p
    obtain ⟨s1, s2, s3⟩ := fresh_spec s (fresh (set h n p) (n + 1) p k).heap (fresh (set h n p) (n + 1) p k).next p
    generalize hrk : fresh (set h n p) (n + 1) p k = rk at *
    generalize hrs : fresh rk.heap rk.next p s = rs at *
    have hcl : fresh h n p (.node c k s) = ⟨.node n rk.tree rs.tree, rs.heap, rs.next⟩ := by
      simp [fresh, hrk, hrs]
    rw [hcl]
    refine ⟨?_, ?_, ?_⟩
    · simp [Tree.size]; omega
    · intro x hx
      simp only [Tree.cells, List.mem_cons, List.mem_append] at hx
      rcases hx with hx | hx | hx
      · subst hx; simp; omega
      · have := k2 x hx; simp; omega
      · have := s2 x hx; simp; omega
    · intro x hx
      show rs.heap x = h x
      rw [s3 x (by omega), k3 x (by omega), set_other (by omega)]

/-! ### holders -/

theorem lookup_erase_ne {g d : Holder} (hne : g ≠ d) : ∀ (l : List (Holder × Tree)), lookup g (erase d l) = lookup g l
  | [] => rfl
  | (h, t) :: r => by
    have ih := lookup_erase_ne hne r
    by_cases hd : h = d
    · have hg : ¬ h = g := fun e => hne (e ▸ hd)
      simp only [erase, lookup, hd, if_true]
      rw [ih]
      have hg' : ¬ d = g := fun e => hne e.symm
      simp [hg']
    · by_cases hg : h = g
      · subst hg
        simp [erase, lookup, hne]
      · simp [erase, lookup, hd, hg, ih]

theorem lookup_erase_self (d : Holder) : ∀ (l : List (Holder × Tree)), lookup d (erase d l) = none
  | [] => rfl
  | (h, t) :: r => by
    by_cases hd : h = d <;> simp [erase, lookup, hd, lookup_erase_self d r]

theorem lookup_bind_ne {s : State} {g d : Holder} {a : Alloc} (hne : g ≠ d) :
    lookup g (bind s d a).holders = lookup g s.holders := by
  have : d ≠ g := fun e => hne e.symm
  simp [bind, lookup, this, lookup_erase_ne hne]

theorem lookup_bind_self {s : State} {d : Holder} {a : Alloc} :
    lookup d (bind s d a).holders = some a.tree := by
  simp [bind, lookup]

/-! ### the invariant of an all-`clone` pipeline -/

/-- every reachable cell of every holder has been allocated. -/
def Bounded (s : State) : Prop :=
  ∀ g t, lookup g s.holders = some t → ∀ c : Nat, c ∈ t.cells → c < s.next

/-- no two holders' reachable cell sets intersect. -/
def Isolated (s : State) : Prop :=
  ∀ g g' t t', g ≠ g' → lookup g s.holders = some t → lookup g' s.holders = some t' →
    ∀ c : Nat, c ∈ t.cells → c ∉ t'.cells

def Inv (s : State) : Prop := Bounded s ∧ Isolated s

theorem inv_init : Inv init := by
  constructor <;> intro g <;> simp [init, lookup]

/-- binding a holder to a tree made of cells in `[s.next, a.next)`, heap unchanged below `s.next`. -/
theorem inv_bind_fresh {s : State} {d : Holder} {a : Alloc} (hi : Inv s)
    (hn : s.next ≤ a.next) (hc : ∀ c : Nat, c ∈ a.tree.cells → s.next ≤ c ∧ c < a.next) :
    Inv (bind s d a) := by
  obtain ⟨hb, hiso⟩ := hi
  constructor
  · intro g t hl c hcm
    by_cases hg : g = d
    · subst hg
      rw [lookup_bind_self] at hl
      cases hl
      exact (hc c hcm).2
    · rw [lookup_bind_ne hg] at hl
      have := hb g t hl c hcm
      show c < a.next
      omega
  · intro g g' t t' hne hl hl' c hcm hcm'
    by_cases hg : g = d
    · subst hg
      have hg' : g' ≠ g := fun e => hne e.symm
      rw [lookup_bind_self] at hl
      cases hl
      rw [lookup_bind_ne hg'] at hl'
      have h1 := hb g' t' hl' c hcm'
      have h2 := (hc c hcm).1
      omega
    · rw [lookup_bind_ne hg] at hl
      by_cases hg' : g' = d
      · subst hg'
        rw [lookup_bind_self] at hl'
        cases hl'
        have h1 := hb g t hl c hcm
        have h2 := (hc c hcm').1
        omega
      · rw [lookup_bind_ne hg'] at hl'
        exact hiso g g' t t' hne hl hl' c hcm hcm'

theorem observe_bind_fresh {s : State} {d g : Holder} {a : Alloc} (hi : Inv s) (hg : g ≠ d)
    (hh : ∀ x, x < s.next → a.heap x = s.heap x) :
    observe (bind s d a) g = observe s g := by
  unfold observe
  rw [lookup_bind_ne hg]
  cases hl : lookup g s.holders with
  | none => rfl
  | some t =>
    simp only [Option.map]
    congr 1
    exact read_congr (fun c hc => hh c (hi.1 g t hl c hc))

/-- an op whose port (if any) is `clone` preserves the invariant. -/
theorem inv_step (tbl : Port → Mode) {s : State} (op : Op) (hi : Inv s)
    (hp : ∀ p, op.port? = some p → tbl p = .clone) : Inv (step tbl s op) := by
  cases op with
  | alloc g shape =>
    obtain ⟨f1, f2, _⟩ := fresh_spec shape s.heap s.next 0
    exact inv_bind_fresh hi (by omega) f2
  | pass port src dst =>
    simp only [step]
    cases hl : lookup src s.holders with
    | none => exact hi
    | some t =>
      have hm : tbl port = .clone := hp port rfl
      simp only [hm]
      obtain ⟨c1, c2, _, _⟩ := clone_spec t s.heap s.next (hi.1 src t hl)
      exact inv_bind_fresh hi (by omega) c2
  | mutCell g i p =>
    simp only [step]
    cases hl : lookup g s.holders with
    | none => exact hi
    | some t =>
      simp only []
      cases hcell : t.cells[i % t.cells.length]? with
      | none => exact hi
      | some c => exact hi
  | mutAll g p =>
    simp only [step]
    cases hl : lookup g s.holders with
    | none => exact hi
    | some t => exact hi
  | drop g =>
    obtain ⟨hb, hiso⟩ := hi
    have key : ∀ x t, lookup x (erase g s.holders) = some t → lookup x s.holders = some t := by
      intro x t hx
      by_cases hxg : x = g
      · subst hxg; rw [lookup_erase_self] at hx; cases hx
      · rwa [lookup_erase_ne hxg] at hx
    constructor
    · intro x t hl c hc
      exact hb x t (key x t hl) c hc
    · intro x x' t t' hne hl hl'
      exact hiso x x' t t' hne (key x t hl) (key x' t' hl')

theorem inv_run (tbl : Port → Mode) : ∀ (ops : List Op) (s : State), Inv s →
    (∀ o, o ∈ ops → ∀ p, o.port? = some p → tbl p = .clone) → Inv (run tbl s ops)
  | [], s, hi, _ => hi
  | o :: r, s, hi, hp => by
    have h1 := inv_step tbl o hi (hp o (by simp))
    exact inv_run tbl r (step tbl s o) h1 (fun o' ho' => hp o' (by simp [ho']))

/-- an op whose port (if any) is `clone` does not change what any holder it does not target observes. -/
theorem observe_step (tbl : Port → Mode) {s : State} (op : Op) (hi : Inv s)
    (hp : ∀ p, op.port? = some p → tbl p = .clone) (g : Holder) (hg : op.targets g = false) :
    observe (step tbl s op) g = observe s g := by
  cases op with
  | alloc d shape =>
    have hne : g ≠ d := by
      intro e; subst e; simp [Op.targets] at hg
    obtain ⟨_, _, f3⟩ := fresh_spec shape s.heap s.next 0
    exact observe_bind_fresh hi hne f3
  | pass port src dst =>
    have hne : g ≠ dst := by
      intro e; subst e; simp [Op.targets] at hg
    simp only [step]
    cases hl : lookup src s.holders with
    | none => rfl
    | some t =>
      have hm : tbl port = .clone := hp port rfl
      simp only [hm]
      obtain ⟨_, _, c3, _⟩ := clone_spec t s.heap s.next (hi.1 src t hl)
      exact observe_bind_fresh hi hne c3
  | mutCell d i p =>
    have hne : g ≠ d := by
      intro e; subst e; simp [Op.targets] at hg
    simp only [step]
    cases hl : lookup d s.holders with
    | none => rfl
    | some t =>
      simp only []
      cases hcell : t.cells[i % t.cells.length]? with
      | none => rfl
      | some c =>
        have hcm : c ∈ t.cells := List.mem_of_getElem? hcell
        unfold observe
        simp only []
        cases hl' : lookup g s.holders with
        | none => rfl
        | some t' =>
          simp only [Option.map]
          congr 1
          exact read_set_of_not_mem (hi.2 d g t t' (fun e => hne e.symm) hl hl' c hcm)
  | mutAll d p =>
    have hne : g ≠ d := by
      intro e; subst e; simp [Op.targets] at hg
    simp only [step]
    cases hl : lookup d s.holders with
    | none => rfl
    | some t =>
      unfold observe
      simp only []
      cases hl' : lookup g s.holders with
      | none => rfl
      | some t' =>
        simp only [Option.map]
        congr 1
        exact read_setAll_of_disjoint (fun c hc hc' => hi.2 d g t t' (fun e => hne e.symm) hl hl' c hc' hc)
  | drop d =>
    have hne : g ≠ d := by
      intro e; subst e; simp [Op.targets] at hg
    unfold observe
    simp only [step]
    rw [lookup_erase_ne hne]

theorem run_append (tbl : Port → Mode) (s : State) (a b : List Op) :
    run tbl s (a ++ b) = run tbl (run tbl s a) b := by
  simp [run, List.foldl_append]

theorem modeOf_clone_of_all {tbl : List (String × String × Mode)}
    (hall : tbl.all (fun r => r.2.2 == .clone) = true) {p : Port}
    (hp : (tbl.any (fun r => portName r.1 r.2.1 == p)) = true) : modeOf tbl p = .clone := by
  unfold modeOf
  cases hf : tbl.find? (fun r => portName r.1 r.2.1 == p) with
  | none =>
    rw [List.find?_eq_none] at hf
    rw [List.any_eq_true] at hp
    obtain ⟨r, hr, hrp⟩ := hp
    exact absurd hrp (hf r hr)
  | some r =>
    have hm := List.mem_of_find?_eq_some hf
    rw [List.all_eq_true] at hall
    simpa using hall r hm

end CharonV.Heap
