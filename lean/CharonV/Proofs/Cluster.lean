/-
Invariant of the cluster pipeline model (C01).
-/
import CharonV.Model.Cluster
import CharonV.Props.C02Spec

namespace CharonV.Cluster

open CharonV.QbftSpec (quorum faulty Params)

theorem threshold_eq_quorum (n : Nat) : threshold n = quorum n := rfl

/-- a partial (k,r) exists: member k is Byzantine or its validator client signed r. -/
def Exists (c : Cfg) (s : State) (k r : Nat) : Prop :=
  k < c.n ∧ (c.byz k = true ∨ (s k).signed = some r)

structure Inv (c : Cfg) (s : State) : Prop where
  adm     : ∀ j k r, (k, r) ∈ (s j).parsigs → Exists c s k r
  oneper  : ∀ j, ((s j).parsigs.map (·.1)).Nodup
  backed  : ∀ j r, r ∈ (s j).emitted → threshold c.n ≤ countRoot (s j).parsigs r
  signedOf : ∀ i, c.byz i = false → ∀ r, (s i).signed = some r →
      ∃ v, (s i).decided = some v ∧ r = c.root v

theorem inv_init (c : Cfg) : Inv c init := by
  constructor <;> simp [init]

theorem countRoot_cons_le (ps : List (Nat × Nat)) (e : Nat × Nat) (r : Nat) :
    countRoot ps r ≤ countRoot (e :: ps) r := by
  unfold countRoot
  simp only [List.filter_cons]
  split <;> simp

theorem thresholdRoot_some {n : Nat} {ps : List (Nat × Nat)} {r0 r : Nat}
    (h : thresholdRoot n ps r0 = some r) : countRoot ps r = threshold n := by
  unfold thresholdRoot at h
  split at h
  · cases h; assumption
  · cases h

/-- effect of `storePartial` on the node-local facts. -/
theorem storePartial_spec (n : Nat) (nd : NodeSt) (k r : Nat) :
    let res := storePartial n nd k r
    res.1.decided = nd.decided ∧ res.1.signed = nd.signed ∧
    (∀ e ∈ res.1.parsigs, e ∈ nd.parsigs ∨ e = (k, r)) ∧
    ((nd.parsigs.map (·.1)).Nodup → (res.1.parsigs.map (·.1)).Nodup) ∧
    (∀ x, countRoot nd.parsigs x ≤ countRoot res.1.parsigs x) ∧
    (∀ x ∈ res.1.emitted, x ∈ nd.emitted ∨ threshold n ≤ countRoot res.1.parsigs x) ∧
    (∀ x ∈ res.2.2, x ∈ res.1.emitted) := by
  unfold storePartial
  cases hf : nd.parsigs.find? (fun e => e.1 == k) with
  | some e =>
    simp only
    split
    · exact ⟨rfl, rfl, fun e he => Or.inl he, fun h => h, fun _ => Nat.le_refl _,
        fun x hx => Or.inl hx, fun x hx => by cases hx⟩
    · exact ⟨rfl, rfl, fun e he => Or.inl he, fun h => h, fun _ => Nat.le_refl _,
        fun x hx => Or.inl hx, fun x hx => by cases hx⟩
  | none =>
    have hk : k ∉ nd.parsigs.map (·.1) := by
      intro hm
      obtain ⟨e, he, hek⟩ := List.mem_map.mp hm
      have := List.find?_eq_none.mp hf e he
      simp [hek] at this
    simp only
    cases ht : thresholdRoot n ((k, r) :: nd.parsigs) r with
    | some r' =>
      simp only
      refine ⟨by trivial, by trivial, ?_, ?_, ?_, ?_, ?_⟩
      · intro e he; rcases List.mem_cons.mp he with rfl | h
        · exact Or.inr rfl
        · exact Or.inl h
      · intro hnd; simp only [List.map_cons, List.nodup_cons]; exact ⟨hk, hnd⟩
      · intro x; exact countRoot_cons_le _ _ _
      · intro x hx
        rcases List.mem_cons.mp hx with rfl | h
        · exact Or.inr (by rw [thresholdRoot_some ht]; exact Nat.le_refl _)
        · exact Or.inl h
      · intro x hx; simp at hx; subst hx; simp
    | none =>
      simp only
      refine ⟨by trivial, by trivial, ?_, ?_, ?_, ?_, ?_⟩
      · intro e he; rcases List.mem_cons.mp he with rfl | h
        · exact Or.inr rfl
        · exact Or.inl h
      · intro hnd; simp only [List.map_cons, List.nodup_cons]; exact ⟨hk, hnd⟩
      · intro x; exact countRoot_cons_le _ _ _
      · intro x hx; exact Or.inl hx
      · intro x hx; cases hx

theorem exists_mono {c : Cfg} {s s' : State} {k r : Nat}
    (hs : ∀ i x, (s i).signed = some x → (s' i).signed = some x) (h : Exists c s k r) :
    Exists c s' k r := by
  obtain ⟨h1, h2⟩ := h
  refine ⟨h1, ?_⟩
  rcases h2 with h2 | h2
  · exact Or.inl h2
  · exact Or.inr (hs k r h2)

theorem inv_step {c : Cfg} {s : State} (h : Inv c s) (o : Op) : Inv c (step c s o).1 := by
  cases o with
  | decide i v =>
    simp only [step]
    cases hd : (s i).decided with
    | some w => simp only; split <;> exact h
    | none =>
      simp only
      have hsig : ∀ i' x, (s i').signed = some x →
          ((upd s i { s i with decided := some v }) i').signed = some x := by
        intro i' x hx; unfold upd; split
        · rename_i he; subst he; simpa using hx
        · exact hx
      constructor
      · intro j k r hm
        have hm' : (k, r) ∈ (s j).parsigs := by
          unfold upd at hm; split at hm
          · rename_i he; subst he; simpa using hm
          · exact hm
        exact exists_mono hsig (h.adm j k r hm')
      · intro j; unfold upd; split
        · rename_i he; subst he; simpa using h.oneper j
        · exact h.oneper j
      · intro j r hr; unfold upd at hr ⊢; split at hr
        · rename_i he; subst he; simpa using h.backed j r (by simpa using hr)
        · rename_i he; simp only [he, if_false]; exact h.backed j r hr
      · intro i' hb r hr
        unfold upd at hr ⊢
        by_cases he : i' = i
        · subst he
          simp only [if_true] at hr ⊢
          obtain ⟨v', hv', _⟩ := h.signedOf i' hb r hr
          rw [hd] at hv'; cases hv'
        · simp only [he, if_false] at hr ⊢
          exact h.signedOf i' hb r hr
  | sign i =>
    simp only [step]
    by_cases hb0 : c.byz i = true ∨ ¬ i < c.n
    · rw [if_pos hb0]; exact h
    · have hb : ¬ c.byz i = true := fun e => hb0 (Or.inl e)
      have hlt : i < c.n := by
        rcases Nat.lt_or_ge i c.n with h1 | h1
        · exact h1
        · exact absurd (Or.inr (by omega)) hb0
      have hb' : c.byz i = false := by cases hx : c.byz i <;> simp_all
      rw [if_neg hb0]
      cases hd : (s i).decided with
      | none => simp only; exact h
      | some v =>
        cases hsg : (s i).signed with
        | some x => simp only; exact h
        | none =>
          simp only
          generalize hnd1 : (NodeSt.mk (some v) (some (c.root v)) (s i).parsigs (s i).emitted) = nd1
          have hnd1d : nd1.decided = some v := by rw [← hnd1]
          have hnd1s : nd1.signed = some (c.root v) := by rw [← hnd1]
          have hnd1p : nd1.parsigs = (s i).parsigs := by rw [← hnd1]
          have hnd1e : nd1.emitted = (s i).emitted := by rw [← hnd1]
          have spec := storePartial_spec c.n nd1 i (c.root v)
          simp only at spec
          obtain ⟨sd, ss, sp, sn, sc, se, _⟩ := spec
          rw [hnd1d] at sd; rw [hnd1s] at ss; rw [hnd1p] at sp sn sc; rw [hnd1e] at se
          -- the new state
          have hsig : ∀ i' x, (s i').signed = some x →
              ((upd s i (storePartial c.n nd1 i (c.root v)).1) i').signed = some x := by
            intro i' x hx; unfold upd; split
            · rename_i he; subst he; rw [hsg] at hx; cases hx
            · exact hx
          have hnew : ((upd s i (storePartial c.n nd1 i (c.root v)).1) i).signed
              = some (c.root v) := by
            unfold upd; simp only [if_true]; rw [ss]
          constructor
          · intro j k r hm
            unfold upd at hm
            by_cases he : j = i
            · subst he
              simp only [if_true] at hm
              rcases sp (k, r) hm with hold | hnewe
              · exact exists_mono hsig (h.adm j k r (by simpa using hold))
              · cases hnewe
                exact ⟨hlt, Or.inr hnew⟩
            · simp only [he, if_false] at hm
              exact exists_mono hsig (h.adm j k r hm)
          · intro j; unfold upd; split
            · rename_i he; subst he; exact sn (by simpa using h.oneper j)
            · exact h.oneper j
          · intro j r hr; unfold upd at hr ⊢
            by_cases he : j = i
            · subst he
              simp only [if_true] at hr ⊢
              rcases se r hr with hold | hn
              · exact Nat.le_trans (h.backed j r (by simpa using hold)) (by simpa using sc r)
              · exact hn
            · simp only [he, if_false] at hr ⊢; exact h.backed j r hr
          · intro i' hbi r hr
            unfold upd at hr ⊢
            by_cases he : i' = i
            · subst he
              simp only [if_true] at hr ⊢
              rw [ss] at hr; simp at hr
              exact ⟨v, by rw [sd], hr.symm⟩
            · simp only [he, if_false] at hr ⊢
              exact h.signedOf i' hbi r hr
  | deliver j k r =>
    simp only [step]
    split
    · rename_i hadm
      show Inv c (upd s j (storePartial c.n (s j) k r).1)
      have spec := storePartial_spec c.n (s j) k r
      simp only at spec
      obtain ⟨sd, ss, sp, sn, sc, se, _⟩ := spec
      have hsig : ∀ i' x, (s i').signed = some x →
          ((upd s j (storePartial c.n (s j) k r).1) i').signed = some x := by
        intro i' x hx; unfold upd; split
        · rename_i he; subst he; rw [ss]; exact hx
        · exact hx
      constructor
      · intro j' k' r' hm
        unfold upd at hm
        by_cases he : j' = j
        · subst he
          simp only [if_true] at hm
          rcases sp (k', r') hm with hold | hnewe
          · exact exists_mono hsig (h.adm j' k' r' hold)
          · cases hnewe
            exact exists_mono hsig ⟨hadm.1, hadm.2⟩
        · simp only [he, if_false] at hm
          exact exists_mono hsig (h.adm j' k' r' hm)
      · intro j'; unfold upd; split
        · rename_i he; subst he; exact sn (h.oneper j')
        · exact h.oneper j'
      · intro j' r' hr; unfold upd at hr ⊢
        by_cases he : j' = j
        · subst he
          simp only [if_true] at hr ⊢
          rcases se r' hr with hold | hn
          · exact Nat.le_trans (h.backed j' r' hold) (sc r')
          · exact hn
        · simp only [he, if_false] at hr ⊢; exact h.backed j' r' hr
      · intro i' hbi r' hr
        unfold upd at hr ⊢
        by_cases he : i' = j
        · subst he
          simp only [if_true] at hr ⊢
          rw [ss] at hr; rw [sd]
          exact h.signedOf i' hbi r' hr
        · simp only [he, if_false] at hr ⊢
          exact h.signedOf i' hbi r' hr
    · exact h

theorem inv_run {c : Cfg} {s : State} (h : Inv c s) (os : List Op) : Inv c (run c s os) := by
  induction os generalizing s with
  | nil => exact h
  | cons o os ih => exact ih (inv_step h o)

end CharonV.Cluster
