/-
Refinement, part 5: the remaining rule branches (quorum PREPAREs, decision, F+1 jump, quorum
ROUND-CHANGEs) and their generic spec wrappers.
-/
import CharonV.Proofs.QbftRefine4

namespace CharonV.QbftSys

open CharonV.Qbft CharonV.QbftSpec

variable {P : Params} {fifo : Nat}

local notation "D" => mkDef P fifo

/-! ### generic wrappers -/

theorem sim_commit {t : QbftSpec.State} {p : Nat} {n n' : NodeState} {v : Nat}
    (hr : QbftSpec.Reach P t) (hp : P.honest p) (heq : t.nodes p = absNode n)
    (hund : (absNode n).decided = none) (hpd : (absNode n).prepDone = false)
    (hq : prepareQuorum P t.hist (absNode n).round v)
    (habs : absNode n' = { absNode n with pr := (absNode n).round, pv := v, prepDone := true }) :
    SimOut P t p n' [.commit p (absNode n).round v] := by
  have hstep := QbftSpec.Step.commit t p v hp (by rw [heq]; exact hund) (by rw [heq]; exact hpd)
    (by rw [heq]; exact hq)
  refine ⟨_, QbftSpec.Reach.step hr hstep, by simp [heq], ?_, ?_⟩
  · intro q hq; simp [setNode, hq]
  · rw [habs]; simp [setNode, heq]; exact nodeRel_refl _

theorem sim_decide {t : QbftSpec.State} {p : Nat} {n n' : NodeState} {r v : Nat}
    (hr : QbftSpec.Reach P t) (hp : P.honest p) (heq : t.nodes p = absNode n)
    (hund : (absNode n).decided = none) (hq : commitQuorum P t.hist r v)
    (habs : (absNode n').decided = some (r, v)) :
    SimOut P t p n' [.decide p r v] := by
  have hstep := QbftSpec.Step.decide t p r v hp (by rw [heq]; exact hund) hq
  refine ⟨_, QbftSpec.Reach.step hr hstep, by simp, ?_, ?_⟩
  · intro q hq; simp [setNode, hq]
  · refine ⟨by simp [setNode, habs], ?_⟩
    intro h; rw [habs] at h; cases h

theorem sim_jump {t : QbftSpec.State} {p : Nat} {n n' : NodeState} {r : Nat}
    (hr : QbftSpec.Reach P t) (hp : P.honest p) (heq : t.nodes p = absNode n)
    (hund : (absNode n).decided = none) (hlt : (absNode n).round < r)
    (habs : absNode n' = (absNode n).enter r) :
    SimOut P t p n' [.roundChange p r (absNode n).pr (absNode n).pv] := by
  have hstep := QbftSpec.Step.jump t p r hp (by rw [heq]; exact hund) (by rw [heq]; exact hlt)
  refine ⟨_, QbftSpec.Reach.step hr hstep, by simp [heq], ?_, ?_⟩
  · intro q hq; simp [setNode, hq]
  · rw [habs]; simp [setNode, heq]; exact nodeRel_refl _

theorem sim_propose {t : QbftSpec.State} {p : Nat} {n n' : NodeState} {v pr : Nat}
    (hr : QbftSpec.Reach P t) (hp : P.honest p) (hrel : nodeRel (t.nodes p) (absNode n))
    (hround : (t.nodes p).round = (absNode n).round)
    (hl : P.leader (absNode n).round = p)
    (hv : (v = P.input p ∧ v ≠ 0) ∨ prepareQuorum P t.hist pr v)
    (habs : absNode n' = absNode n) :
    SimOut P t p n' [.prePrepare p (absNode n).round v] := by
  have hstep := QbftSpec.Step.propose t p v pr hp (by rw [hround]; exact hl) hv
  refine ⟨_, QbftSpec.Reach.step hr hstep, by simp [hround], fun _ _ => rfl, ?_⟩
  rw [habs]; exact hrel

/-! ### UponQuorumPrepares -/

theorem abs_onQuorumPrepares (n : NodeState) (B : List (Nat × List Msg)) (m : Msg) (just : List Core)
    (hrd : m.core.round = n.round) :
    absNode (onQuorumPrepares { n with buffer := B, dedup := (uQuorumPrepares, m.core.round) :: n.dedup } m just).1 =
      { absNode n with pr := (absNode n).round, pv := m.core.value, prepDone := true } := by
  unfold onQuorumPrepares
  simp [absNode, hrd, uJustifiedPrePrepare, uQuorumPrepares]

theorem ghost_onQuorumPrepares (n : NodeState) (B : List (Nat × List Msg)) (m : Msg) (just : List Core)
    (p cfr : Nat) (e : Event) :
    (Out.rule uQuorumPrepares n.round ::
        (onQuorumPrepares { n with buffer := B, dedup := (uQuorumPrepares, m.core.round) :: n.dedup } m just).2).flatMap
        (outEv D p cfr e) = [.commit p (absNode n).round m.core.value] := by
  unfold onQuorumPrepares
  simp [outEv, bcastMsg, tCommit, tPrepare, tPrePrepare, uQuorumPrepares, uJustifiedPrePrepare, absNode]

/-! ### decision -/

theorem abs_onDecide (n1 : NodeState) (m : Msg) (rule : Nat) (just : List Core) (hne : just ≠ []) :
    (absNode (onDecide n1 m rule just).1).decided = some (m.core.round, m.core.value) := by
  unfold onDecide
  have h := changeRound_fields n1 m.core.round rule
  simp only at h ⊢
  have hj : just.isEmpty = false := by cases just <;> simp_all
  simp [absNode, hj, h.1]

theorem ghost_onDecide (n1 : NodeState) (m : Msg) (rule : Nat) (just : List Core) (p cfr rd : Nat) (e : Event)
    (hrule : rule ≠ uJustifiedPrePrepare) :
    (Out.rule rule rd :: (onDecide n1 m rule just).2).flatMap (outEv D p cfr e) =
      [.decide p m.core.round m.core.value] := by
  unfold onDecide
  simp only [List.flatMap_cons, List.flatMap_append, changeRound_ghost, List.flatMap_nil]
  simp [outEv, hrule]

/-! ### F+1 jump -/

theorem abs_onFPlus1 (n1 : NodeState) (just : List Core) (nr : Nat)
    (h : nextMinRound D just n1.round = some nr) (hq : n1.qCommit = []) :
    absNode (onFPlus1 D n1 just).1 = (absNode n1).enter nr := by
  unfold onFPlus1
  rw [h]
  have hgt := nextMinRound_gt h
  have hne : n1.round ≠ nr := by omega
  simp only
  rw [changeRound_diff hne]
  have hne' : ¬ nr = n1.round := fun e => hne e.symm
  simp [absNode, Node.enter, hne', hq]

theorem ghost_onFPlus1 (n1 : NodeState) (just : List Core) (nr : Nat) (p cfr rd : Nat) (e : Event)
    (h : nextMinRound D just n1.round = some nr) :
    (Out.rule uFPlus1RoundChanges rd :: (onFPlus1 D n1 just).2).flatMap (outEv D p cfr e) =
      [.roundChange p nr (absNode n1).pr (absNode n1).pv] := by
  unfold onFPlus1
  rw [h]
  have hgt := nextMinRound_gt h
  have hne : n1.round ≠ nr := by omega
  simp only
  rw [changeRound_diff hne]
  simp [outEv, bcastRoundChange, tRoundChange, tPrePrepare, tPrepare, tCommit, uFPlus1RoundChanges,
    uJustifiedPrePrepare, absNode]

theorem ghost_onFPlus1_bug (n1 : NodeState) (just : List Core) (p cfr rd : Nat) (e : Event)
    (h : nextMinRound D just n1.round = none) :
    (Out.rule uFPlus1RoundChanges rd :: (onFPlus1 D n1 just).2).flatMap (outEv D p cfr e) = [] ∧
      (onFPlus1 D n1 just).1 = n1 := by
  unfold onFPlus1
  rw [h]
  simp [outEv, uFPlus1RoundChanges, uJustifiedPrePrepare]

end CharonV.QbftSys
