/-
Helper lemmas and the inductive invariant for the deadliner model (C16).
-/
import CharonV.Model.Deadliner

namespace CharonV.Deadliner

variable (dl : Duty → Option Nat) (cap : Nat)

/-! ### `minDl` / `getCurr` -/

theorem minDl_le {ds : List Duty} {m : Nat} (h : minDl dl ds = some m) :
    ∀ d ∈ ds, m ≤ dlOf dl d := by
  induction ds generalizing m with
  | nil => intro d hd; cases hd
  | cons a as ih =>
    intro d hd
    simp only [minDl] at h
    cases hm : minDl dl as with
    | none =>
      rw [hm] at h
      cases as with
      | nil =>
        simp at hd; subst hd; simp at h; omega
      | cons b bs =>
        simp only [minDl] at hm
        cases h2 : minDl dl bs <;> rw [h2] at hm <;> simp at hm
    | some m' =>
      rw [hm] at h
      simp at h
      have := ih hm
      rcases List.mem_cons.mp hd with rfl | hd'
      · subst h; exact Nat.min_le_left _ _
      · have := this d hd'; subst h
        exact Nat.le_trans (Nat.min_le_right _ _) this

theorem minDl_none {ds : List Duty} (h : minDl dl ds = none) : ds = [] := by
  cases ds with
  | nil => rfl
  | cons a as =>
    simp only [minDl] at h
    cases hm : minDl dl as <;> rw [hm] at h <;> simp at h

theorem minDl_attained {ds : List Duty} {m : Nat} (h : minDl dl ds = some m) :
    ∃ d ∈ ds, dlOf dl d = m := by
  induction ds generalizing m with
  | nil => simp [minDl] at h
  | cons a as ih =>
    simp only [minDl] at h
    cases hm : minDl dl as with
    | none => rw [hm] at h; simp at h; exact ⟨a, by simp, h⟩
    | some m' =>
      rw [hm] at h; simp at h
      obtain ⟨d, hd, hdm⟩ := ih hm
      by_cases hle : dlOf dl a ≤ m'
      · exact ⟨a, by simp, by rw [← h]; exact (Nat.min_eq_left hle).symm⟩
      · refine ⟨d, by simp [hd], ?_⟩
        rw [← h, hdm]; exact (Nat.min_eq_right (by omega)).symm

theorem getCurr_some {ds : List Duty} {o : Nat} {c : Duty} (h : getCurr dl ds o = some c) :
    c ∈ ds ∧ ∀ d ∈ ds, dlOf dl c ≤ dlOf dl d := by
  unfold getCurr at h
  cases hm : minDl dl ds with
  | none => rw [hm] at h; simp at h
  | some m =>
    rw [hm] at h
    simp only at h
    have hmem := List.mem_of_getElem? h
    rw [List.mem_filter] at hmem
    obtain ⟨hc, hcm⟩ := hmem
    have hcm' : dlOf dl c = m := by simpa using hcm
    exact ⟨hc, fun d hd => by rw [hcm']; exact minDl_le dl hm d hd⟩

theorem getCurr_none {ds : List Duty} {o : Nat} (h : getCurr dl ds o = none) : ds = [] := by
  unfold getCurr at h
  cases hm : minDl dl ds with
  | none => exact minDl_none dl hm
  | some m =>
    rw [hm] at h
    simp only at h
    obtain ⟨d, hd, hdm⟩ := minDl_attained dl hm
    have hne : (ds.filter (fun d => dlOf dl d == m)) ≠ [] := by
      intro hnil
      have : d ∈ ds.filter (fun d => dlOf dl d == m) := by
        rw [List.mem_filter]; exact ⟨hd, by simp [hdm]⟩
      rw [hnil] at this; cases this
    have hlen : 0 < (ds.filter (fun d => dlOf dl d == m)).length :=
      List.length_pos_iff.mpr hne
    have hlt := Nat.mod_lt o hlen
    rw [List.getElem?_eq_none_iff] at h
    omega

/-! ### The invariant -/

structure Inv (s : State) : Prop where
  nodup     : s.duties.Nodup
  expiring  : ∀ d ∈ s.duties, ∃ t, dl d = some t
  currMin   : ∀ c, s.curr = some c → c ∈ s.duties ∧ ∀ d ∈ s.duties, dlOf dl c ≤ dlOf dl d
  currNone  : s.curr = none → s.duties = []
  firedIff  : s.fired = true ↔ ∃ c, s.curr = some c ∧ dlOf dl c ≤ s.now
  pastDone  : ∀ d ∈ s.reported ++ s.dropped, dlOf dl d ≤ s.now ∧ ∃ t, dl d = some t
  disjoint  : ∀ d ∈ s.duties, d ∉ s.reported ++ s.dropped
  doneNodup : (s.reported ++ s.dropped).Nodup
  schedAcc  : ∀ d ∈ s.sched, d ∈ s.duties ∨ d ∈ s.reported ++ s.dropped
  outSub    : ∀ d ∈ s.out, d ∈ s.reported

theorem inv_init : Inv dl ({} : State) := by
  constructor <;> simp

/-- `setCurr` re-establishes the `curr`/`fired` part of the invariant. -/
theorem inv_setCurr {s : State} {o : Nat}
    (nodup : s.duties.Nodup)
    (expiring : ∀ d ∈ s.duties, ∃ t, dl d = some t)
    (pastDone : ∀ d ∈ s.reported ++ s.dropped, dlOf dl d ≤ s.now ∧ ∃ t, dl d = some t)
    (disjoint : ∀ d ∈ s.duties, d ∉ s.reported ++ s.dropped)
    (doneNodup : (s.reported ++ s.dropped).Nodup)
    (schedAcc : ∀ d ∈ s.sched, d ∈ s.duties ∨ d ∈ s.reported ++ s.dropped)
    (outSub : ∀ d ∈ s.out, d ∈ s.reported) :
    Inv dl (setCurr dl s o) := by
  unfold setCurr
  cases hc : getCurr dl s.duties o with
  | none =>
    have := getCurr_none dl hc
    constructor <;> simp_all
  | some c =>
    have := getCurr_some dl hc
    constructor <;> simp_all

theorem inv_step {s : State} (h : Inv dl s) (e : Ev) : Inv dl (step dl cap s e).1 := by
  cases e with
  | add d o =>
    simp only [step]
    cases hd : dl d with
    | none => simpa using h
    | some t =>
      simp only
      by_cases hle : t ≤ s.now
      · simpa [hle] using h
      · simp only [hle, if_false]
        have hnotdone : d ∉ s.reported ++ s.dropped := by
          intro hmem
          have := (h.pastDone d hmem).1
          simp [dlOf, hd] at this; omega
        by_cases hmem : d ∈ s.duties
        · -- already pending: only the ghost `sched` grows; curr is minimal so no `setCurr`
          simp only [hmem, if_true]
          have hbase : Inv dl { s with sched := d :: s.sched } := by
            refine { h with schedAcc := ?_ }
            intro x hx
            simp at hx
            rcases hx with rfl | hx
            · exact Or.inl hmem
            · exact h.schedAcc x hx
          have hno : isEarlier dl s.curr t = false := by
            unfold isEarlier
            cases hcur : s.curr with
            | none =>
              have := h.currNone hcur; rw [this] at hmem; cases hmem
            | some c =>
              have hmin := (h.currMin c hcur).2 d hmem
              have hdd : dlOf dl d = t := by simp [dlOf, hd]
              rw [hdd] at hmin
              have : ¬ t < dlOf dl c := by omega
              simp [this]
          simp only [hno]
          exact hbase
        · simp only [hmem, if_false]
          -- the state after insertion, before the optional `setCurr`
          have nodup' : (d :: s.duties).Nodup := List.nodup_cons.mpr ⟨hmem, h.nodup⟩
          have expiring' : ∀ x ∈ d :: s.duties, ∃ t, dl x = some t := by
            intro x hx; rcases List.mem_cons.mp hx with rfl | hx
            · exact ⟨t, hd⟩
            · exact h.expiring x hx
          have disjoint' : ∀ x ∈ d :: s.duties, x ∉ s.reported ++ s.dropped := by
            intro x hx; rcases List.mem_cons.mp hx with rfl | hx
            · exact hnotdone
            · exact h.disjoint x hx
          have sched' : ∀ x ∈ d :: s.sched, x ∈ d :: s.duties ∨ x ∈ s.reported ++ s.dropped := by
            intro x hx; rcases List.mem_cons.mp hx with rfl | hx
            · exact Or.inl (by simp)
            · rcases h.schedAcc x hx with h1 | h1
              · exact Or.inl (by simp [h1])
              · exact Or.inr h1
          cases hcur : s.curr with
          | none =>
            simp only [isEarlier, if_true]
            exact inv_setCurr dl nodup' expiring' h.pastDone disjoint' h.doneNodup sched' h.outSub
          | some c =>
            by_cases hlt : t < dlOf dl c
            · simp only [isEarlier, hlt, decide_true, if_true]
              exact inv_setCurr dl nodup' expiring' h.pastDone disjoint' h.doneNodup sched' h.outSub
            · simp only [isEarlier, hlt, decide_false]
              have hcm := h.currMin c hcur
              constructor
              · exact nodup'
              · exact expiring'
              · intro c' hc'
                cases hc'
                refine ⟨by simp [hcm.1], ?_⟩
                intro x hx; rcases List.mem_cons.mp hx with rfl | hx
                · have hdd : dlOf dl x = t := by simp [dlOf, hd]
                  omega
                · exact hcm.2 x hx
              · intro hn; simp at hn
              · simpa [hcur] using h.firedIff
              · exact h.pastDone
              · exact disjoint'
              · exact h.doneNodup
              · exact sched'
              · exact h.outSub
  | advance k =>
    simp only [step]
    constructor
    · exact h.nodup
    · exact h.expiring
    · exact h.currMin
    · exact h.currNone
    · show (match s.curr with
            | none => s.fired
            | some c => s.fired || decide (dlOf dl c ≤ s.now + k)) = true ↔
           ∃ c, s.curr = some c ∧ dlOf dl c ≤ s.now + k
      cases hcur : s.curr with
      | none =>
        simp only
        constructor
        · intro hf
          obtain ⟨c, hc, _⟩ := h.firedIff.mp hf; rw [hcur] at hc; cases hc
        · rintro ⟨c, hc, _⟩; cases hc
      | some c =>
        simp only [Bool.or_eq_true, decide_eq_true_eq]
        constructor
        · rintro (hf | hle)
          · obtain ⟨c', hc', hle'⟩ := h.firedIff.mp hf
            rw [hcur] at hc'; cases hc'
            exact ⟨c, rfl, by omega⟩
          · exact ⟨c, rfl, hle⟩
        · rintro ⟨c', hc', hle⟩
          cases hc'; exact Or.inr hle
    · intro d hd
      have := h.pastDone d hd
      exact ⟨by show dlOf dl d ≤ s.now + k; omega, this.2⟩
    · exact h.disjoint
    · exact h.doneNodup
    · exact h.schedAcc
    · exact h.outSub
  | fire o =>
    simp only [step]
    cases hf : s.fired with
    | false => simpa using h
    | true =>
      simp only [if_true]
      obtain ⟨c, hc, hle⟩ := h.firedIff.mp hf
      simp only [hc]
      have hcm := h.currMin c hc
      have hcnd : c ∉ s.reported ++ s.dropped := h.disjoint c hcm.1
      have hexp := h.expiring c hcm.1
      have nodupE : (s.duties.erase c).Nodup := h.nodup.erase c
      have expE : ∀ d ∈ s.duties.erase c, ∃ t, dl d = some t :=
        fun d hd => h.expiring d (List.mem_of_mem_erase hd)
      have hcne : ∀ d ∈ s.duties.erase c, d ≠ c := by
        intro d hd heq; subst heq
        exact (List.Nodup.mem_erase_iff h.nodup).mp hd |>.1 rfl
      by_cases hlen : s.out.length < cap
      · simp only [hlen, if_true]
        apply inv_setCurr
        · exact nodupE
        · exact expE
        · intro d hd
          simp only [List.append_assoc, List.mem_append, List.mem_singleton] at hd
          rcases hd with hd | rfl | hd
          · exact h.pastDone d (by simp [hd])
          · exact ⟨hle, hexp⟩
          · exact h.pastDone d (by simp [hd])
        · intro d hd hmem
          simp only [List.append_assoc, List.mem_append, List.mem_singleton] at hmem
          have hd' := List.mem_of_mem_erase hd
          rcases hmem with hm | rfl | hm
          · exact h.disjoint d hd' (by simp [hm])
          · exact hcne d hd rfl
          · exact h.disjoint d hd' (by simp [hm])
        · have := h.doneNodup
          simp only [List.mem_append, not_or] at hcnd
          rw [List.append_assoc, List.nodup_append] at *
          refine ⟨this.1, ?_, ?_⟩
          · simp [hcnd.2, this.2.1]
          · intro a ha b hb
            simp at hb
            rcases hb with rfl | hb
            · intro heq; subst heq; exact hcnd.1 ha
            · exact this.2.2 a ha b hb
        · intro d hd
          rcases h.schedAcc d hd with h1 | h1
          · by_cases hdc : d = c
            · subst hdc; exact Or.inr (by simp)
            · exact Or.inl ((List.mem_erase_of_ne hdc).mpr h1)
          · refine Or.inr ?_
            simp only [List.mem_append] at h1 ⊢
            rcases h1 with h1 | h1
            · exact Or.inl (Or.inl h1)
            · exact Or.inr h1
        · intro d hd
          simp only [List.mem_append, List.mem_singleton] at hd ⊢
          rcases hd with hd | rfl
          · exact Or.inl (h.outSub d hd)
          · exact Or.inr rfl
      · simp only [hlen, if_false]
        apply inv_setCurr
        · exact nodupE
        · exact expE
        · intro d hd
          simp only [← List.append_assoc, List.mem_append, List.mem_singleton] at hd
          rcases hd with hd | rfl
          · exact h.pastDone d (by simpa using hd)
          · exact ⟨hle, hexp⟩
        · intro d hd hmem
          simp only [← List.append_assoc, List.mem_append, List.mem_singleton] at hmem
          have hd' := List.mem_of_mem_erase hd
          rcases hmem with hm | rfl
          · exact h.disjoint d hd' (by simpa using hm)
          · exact hcne d hd rfl
        · have := h.doneNodup
          rw [← List.append_assoc]
          rw [List.nodup_append]
          refine ⟨this, by simp, ?_⟩
          intro a ha b hb
          simp at hb; subst hb
          intro heq; subst heq; exact hcnd ha
        · intro d hd
          rcases h.schedAcc d hd with h1 | h1
          · by_cases hdc : d = c
            · subst hdc; exact Or.inr (by simp)
            · exact Or.inl ((List.mem_erase_of_ne hdc).mpr h1)
          · refine Or.inr ?_
            rw [← List.append_assoc]
            exact List.mem_append_left _ h1
        · exact h.outSub
  | read =>
    simp only [step]
    cases ho : s.out with
    | nil => simpa using h
    | cons d rest =>
      simp only
      refine { h with outSub := ?_ }
      intro x hx
      exact h.outSub x (by rw [ho]; simp [hx])

theorem inv_run {s : State} (h : Inv dl s) (es : List Ev) : Inv dl (run dl cap s es) := by
  induction es generalizing s with
  | nil => exact h
  | cons e es ih => exact ih (inv_step dl cap h e)

/-- States reachable from the initial state by any sequence of events. -/
def Reach (s : State) : Prop := ∃ es, s = run dl cap {} es

theorem reach_inv {s : State} (h : Reach dl cap s) : Inv dl s := by
  obtain ⟨es, rfl⟩ := h
  exact inv_run dl cap (inv_init dl) es

theorem reach_step {s : State} (h : Reach dl cap s) (e : Ev) : Reach dl cap (step dl cap s e).1 := by
  obtain ⟨es, rfl⟩ := h
  refine ⟨es ++ [e], ?_⟩
  have : ∀ (s0 : State) (es : List Ev), run dl cap s0 (es ++ [e]) = (step dl cap (run dl cap s0 es) e).1 := by
    intro s0 es
    induction es generalizing s0 with
    | nil => rfl
    | cons a as ih => simp [run, ih]
  exact (this _ _).symm

theorem flush_reach {s : State} (h : Reach dl cap s) (fuel : Nat) : Reach dl cap (flush dl cap fuel s) := by
  induction fuel generalizing s with
  | zero => exact h
  | succ n ih =>
    simp only [flush]
    split
    · exact ih (reach_step dl cap h _)
    · exact h

/-! ### Refused duties stay unreported -/

/-- Condition under which a duty can never be reported (again): its deadline is reached and it is
neither pending nor already in the history. -/
def Late (d : Duty) (t : Nat) (s : State) : Prop :=
  t ≤ s.now ∧ d ∉ s.duties ∧ d ∉ s.reported

theorem late_step {d : Duty} {t : Nat} (hd : dl d = some t) {s : State} (hi : Inv dl s)
    (hl : Late d t s) (e : Ev) : Late d t (step dl cap s e).1 := by
  obtain ⟨hnow, hnd, hnr⟩ := hl
  cases e with
  | add d' o =>
    simp only [step]
    cases hd' : dl d' with
    | none => exact ⟨hnow, hnd, hnr⟩
    | some t' =>
      simp only
      by_cases hle : t' ≤ s.now
      · simp only [hle, if_true]; exact ⟨hnow, hnd, hnr⟩
      · have hne : d ≠ d' := by
          intro heq; subst heq; rw [hd] at hd'; cases hd'; exact hle hnow
        simp only [hle, if_false]
        split <;> split <;> simp [setCurr, Late, hnow, hnd, hnr, hne]
  | advance k =>
    exact ⟨by simp only [step]; omega, by simpa [step] using hnd, by simpa [step] using hnr⟩
  | read =>
    simp only [step]
    cases s.out <;> exact ⟨hnow, hnd, hnr⟩
  | fire o =>
    simp only [step]
    cases hf : s.fired with
    | false => exact ⟨hnow, hnd, hnr⟩
    | true =>
      simp only [if_true]
      obtain ⟨c, hc, _⟩ := hi.firedIff.mp hf
      have hcm := (hi.currMin c hc).1
      have hdc : d ≠ c := fun heq => hnd (heq ▸ hcm)
      simp only [hc]
      have hnd' : d ∉ s.duties.erase c := fun h2 => hnd (List.mem_of_mem_erase h2)
      split
      · exact ⟨by simpa [setCurr] using hnow, by simpa [setCurr] using hnd',
          by simp [setCurr, hnr, hdc]⟩
      · exact ⟨by simpa [setCurr] using hnow, by simpa [setCurr] using hnd',
          by simpa [setCurr] using hnr⟩

theorem late_run {d : Duty} {t : Nat} (hd : dl d = some t) {s : State} (hi : Inv dl s)
    (hl : Late d t s) (es : List Ev) : Late d t (run dl cap s es) := by
  induction es generalizing s with
  | nil => exact hl
  | cons e es ih => exact ih (inv_step dl cap hi e) (late_step dl cap hd hi hl e)

/-! ### Re-adding a pending duty -/

theorem readd_noop {s : State} (hi : Inv dl s) {d : Duty} (hmem : d ∈ s.duties) (o : Nat) :
    let s' := (step dl cap s (.add d o)).1
    s'.now = s.now ∧ s'.duties = s.duties ∧ s'.curr = s.curr ∧ s'.fired = s.fired ∧
    s'.out = s.out ∧ s'.reported = s.reported ∧ s'.dropped = s.dropped := by
  obtain ⟨t, hd⟩ := hi.expiring d hmem
  simp only [step, hd]
  by_cases hle : t ≤ s.now
  · simp [hle]
  · have hno : isEarlier dl s.curr t = false := by
      unfold isEarlier
      cases hcur : s.curr with
      | none => have := hi.currNone hcur; rw [this] at hmem; cases hmem
      | some c =>
        have hmin := (hi.currMin c hcur).2 d hmem
        have hdd : dlOf dl d = t := by simp [dlOf, hd]
        rw [hdd] at hmin
        have : ¬ t < dlOf dl c := by omega
        simp [this]
    simp [hle, hmem, hno]

/-! ### Flushing timer events terminates in a quiescent state -/

theorem fire_duties_length {s : State} (hi : Inv dl s) (hf : s.fired = true) (o : Nat) :
    (step dl cap s (.fire o)).1.duties.length + 1 = s.duties.length := by
  obtain ⟨c, hc, _⟩ := hi.firedIff.mp hf
  have hcm := (hi.currMin c hc).1
  simp only [step, hf, hc, if_true]
  have : (s.duties.erase c).length + 1 = s.duties.length := by
    rw [List.length_erase_of_mem hcm]
    have : 0 < s.duties.length := List.length_pos_of_mem hcm
    omega
  split <;> simpa [setCurr] using this

theorem flush_fired_false {s : State} (hi : Inv dl s) (fuel : Nat) (hfuel : s.duties.length ≤ fuel) :
    (flush dl cap fuel s).fired = false := by
  induction fuel generalizing s with
  | zero =>
    simp only [flush]
    cases hf : s.fired with
    | false => rfl
    | true =>
      obtain ⟨c, hc, _⟩ := hi.firedIff.mp hf
      have := (hi.currMin c hc).1
      have : 0 < s.duties.length := List.length_pos_of_mem this
      omega
  | succ n ih =>
    simp only [flush]
    cases hf : s.fired with
    | false => simp [hf]
    | true =>
      simp only [if_true]
      apply ih (inv_step dl cap hi (.fire 0))
      have := fire_duties_length dl cap hi hf 0
      omega

end CharonV.Deadliner
