import CharonV.Model.QbftWire
/-
Helper lemmas for C05 (`CharonV.Props.C05`): what each check of `handle` establishes when it passes,
how `handle` changes the state, and the buffer invariant behind `value_binding`.
-/
namespace CharonV.QbftWire

open CharonV.Generated

/-- What a passed `verifyMsg` establishes about one proto message: it is well-formed and carries a
signature that recovers to the key of the member named as its source, over exactly its own fields. -/
structure CoreOk (C : Crypto) (keys : List Key) (c : Core) : Prop where
  duty : ∃ d, c.fields.duty = some d ∧ dutyTypeValid d.type = true
  type : msgTypeValid c.fields.type = true
  round : 0 < c.fields.round
  pround : 0 ≤ c.fields.preparedRound
  signed : ∃ k s, lookupKey keys c.fields.peerIdx = some k ∧ c.sig = some s ∧
    C.recover (C.digest c.fields) s = some k

theorem lookupKey_mem {keys : List Key} {idx : Int} {k : Key} (h : lookupKey keys idx = some k) : k ∈ keys := by
  unfold lookupKey at h
  split at h
  · cases h
  · exact List.mem_of_getElem? h

theorem lookupKey_range {keys : List Key} {idx : Int} {k : Key} (h : lookupKey keys idx = some k) :
    0 ≤ idx ∧ idx < keys.length := by
  unfold lookupKey at h
  split at h
  · cases h
  · rename_i hn
    have := (List.getElem?_eq_some_iff.mp h).1
    omega

theorem verifyMsg_none {C : Crypto} {keys : List Key} {oc : Option Core}
    (h : verifyMsg C keys oc = none) : ∃ c, oc = some c ∧ CoreOk C keys c := by
  unfold verifyMsg at h
  split at h
  · cases h
  · rename_i c
    refine ⟨c, rfl, ?_⟩
    split at h
    · cases h
    · rename_i d hd
      split at h
      · cases h
      · rename_i ht
        split at h
        · cases h
        · rename_i hdt
          split at h
          · cases h
          · rename_i hr
            split at h
            · cases h
            · rename_i hpr
              split at h
              · cases h
              · rename_i pk hk
                split at h
                · cases h
                · rename_i sg hs
                  split at h
                  · cases h
                  · rename_i k hrec
                    split at h
                    · rename_i hkk
                      exact { duty := ⟨d, hd, by simpa using hdt⟩
                              type := by simpa using ht
                              round := by omega
                              pround := by omega
                              signed := ⟨pk, sg, hk, hs, by rw [hrec, hkk]⟩ }
                    · cases h

theorem verifyMsg_of_ok {C : Crypto} {keys : List Key} {c : Core} (h : CoreOk C keys c) :
    verifyMsg C keys (some c) = none := by
  obtain ⟨d, hd, hdt⟩ := h.duty
  obtain ⟨k, s, hk, hs, hr⟩ := h.signed
  have h1 := h.round
  have h2 := h.pround
  unfold verifyMsg
  simp only [hd]
  rw [if_neg (by simp [h.type]), if_neg (by simp [hdt]), if_neg (by omega), if_neg (by omega)]
  simp only [hk, hs, hr]
  simp

/-- a signature failure of `verifyMsg`: everything before the signature check passed and the
signature does not recover to the named member's key. -/
theorem verifyMsg_some_of_not_signed {C : Crypto} {keys : List Key} {c : Core}
    (h : ∀ k s, lookupKey keys c.fields.peerIdx = some k → c.sig = some s →
      C.recover (C.digest c.fields) s ≠ some k) : ∃ e, verifyMsg C keys (some c) = some e := by
  cases hv : verifyMsg C keys (some c) with
  | some e => exact ⟨e, rfl⟩
  | none =>
    obtain ⟨c', hc', hok⟩ := verifyMsg_none hv
    cases hc'
    obtain ⟨k, s, hk, hs, hr⟩ := hok.signed
    exact absurd hr (h k s hk hs)

/-! ### justification loop -/

theorem checkJust_none {C : Crypto} {keys : List Key} {ctx : Bool} {duty : Duty} :
    ∀ {js : List Core}, checkJust C keys ctx duty js = none →
      ∀ j ∈ js, CoreOk C keys j ∧ (coreView j).duty = duty ∧ ctx = false
  | [], _, j, hj => by cases hj
  | x :: xs, h, j, hj => by
    unfold checkJust at h
    split at h
    · cases h
    · rename_i hctx
      split at h
      · cases h
      · rename_i hv
        split at h
        · cases h
        · rename_i hd
          obtain ⟨c, hc, hok⟩ := verifyMsg_none hv
          cases hc
          cases hj with
          | head => exact ⟨hok, by simpa using hd, by simpa using hctx⟩
          | tail _ hj' => exact checkJust_none h j hj'

theorem checkJust_some_of_bad {C : Crypto} {keys : List Key} {ctx : Bool} {duty : Duty} :
    ∀ {js : List Core} {x : Core}, x ∈ js → (∃ e, verifyMsg C keys (some x) = some e) →
      ∃ r, checkJust C keys ctx duty js = some r
  | [], x, hx, _ => by cases hx
  | y :: ys, x, hx, hbad => by
    cases hc : checkJust C keys ctx duty (y :: ys) with
    | some r => exact ⟨r, rfl⟩
    | none =>
      have := (checkJust_none hc x hx).1
      obtain ⟨e, he⟩ := hbad
      rw [verifyMsg_of_ok this] at he
      cases he

theorem checkJust_of_ok {C : Crypto} {keys : List Key} {duty : Duty} :
    ∀ {js : List Core}, (∀ j ∈ js, CoreOk C keys j ∧ (coreView j).duty = duty) →
      checkJust C keys false duty js = none
  | [], _ => rfl
  | x :: xs, h => by
    obtain ⟨hok, hd⟩ := h x (List.mem_cons_self ..)
    unfold checkJust
    simp only [verifyMsg_of_ok hok, hd]
    simp
    exact checkJust_of_ok (fun j hj => h j (List.mem_cons_of_mem _ hj))

/-! ### values -/

/-- every binding of the map is a value whose recomputed hash is its key. -/
def ValuesOk (C : Crypto) (m : VMap) : Prop := ∀ h v, m.get h = some v → valHash C v = some h

theorem valuesOk_nil (C : Crypto) : ValuesOk C [] := by
  intro h v hv; simp [VMap.get] at hv

theorem valuesOk_cons {C : Crypto} {m : VMap} {h : Hash} {v : Val}
    (hm : ValuesOk C m) (hv : valHash C v = some h) : ValuesOk C ((h, v) :: m) := by
  intro h' v' hg
  unfold VMap.get at hg
  split at hg
  · rename_i heq; cases hg; rw [← heq]; exact hv
  · exact hm h' v' hg

theorem valuesByHash_ok {C : Crypto} : ∀ {vs : List Val} {acc m : VMap},
    valuesByHash C vs acc = some m → ValuesOk C acc → ValuesOk C m
  | [], acc, m, h, ha => by simp [valuesByHash] at h; rw [← h]; exact ha
  | v :: vs, acc, m, h, ha => by
    unfold valuesByHash at h
    split at h
    · cases h
    · rename_i hh hv
      exact valuesByHash_ok h (valuesOk_cons ha hv)

/-- every binding comes from the wire (or from the accumulator). -/
theorem valuesByHash_mem {C : Crypto} : ∀ {vs : List Val} {acc m : VMap},
    valuesByHash C vs acc = some m → ∀ h v, m.get h = some v → v ∈ vs ∨ acc.get h = some v
  | [], acc, m, h, hh, v, hg => by simp [valuesByHash] at h; rw [← h] at hg; exact Or.inr hg
  | x :: xs, acc, m, h, hh, v, hg => by
    unfold valuesByHash at h
    split at h
    · cases h
    · rename_i hx hvx
      rcases valuesByHash_mem h hh v hg with hm | hm
      · exact Or.inl (List.mem_cons_of_mem _ hm)
      · unfold VMap.get at hm
        split at hm
        · cases hm; exact Or.inl (List.mem_cons_self ..)
        · exact Or.inr hm

/-- a value of the wire with recomputed hash `h` makes `h` a key of the map. -/
theorem valuesByHash_complete {C : Crypto} : ∀ {vs : List Val} {acc m : VMap},
    valuesByHash C vs acc = some m → ∀ h, ((∃ v ∈ vs, valHash C v = some h) ∨ (acc.get h).isSome) →
      (m.get h).isSome
  | [], acc, m, hm, h, hx => by
    simp [valuesByHash] at hm; rw [← hm]
    rcases hx with ⟨v, hv, _⟩ | hx
    · cases hv
    · exact hx
  | x :: xs, acc, m, hm, h, hx => by
    unfold valuesByHash at hm
    split at hm
    · cases hm
    · rename_i hxh hvx
      apply valuesByHash_complete hm h
      rcases hx with ⟨v, hv, hvh⟩ | hx
      · cases hv with
        | head =>
          right
          rw [hvx] at hvh; cases hvh
          simp [VMap.get]
        | tail _ hv' => exact Or.inl ⟨v, hv', hvh⟩
      · right
        unfold VMap.get
        split
        · rfl
        · exact hx

theorem valuesByHash_some_of_all {C : Crypto} : ∀ {vs : List Val} {acc : VMap},
    (∀ v ∈ vs, (valHash C v).isSome) → ∃ m, valuesByHash C vs acc = some m
  | [], acc, _ => ⟨acc, rfl⟩
  | x :: xs, acc, h => by
    have hx := h x (List.mem_cons_self ..)
    cases hv : valHash C x with
    | none => rw [hv] at hx; cases hx
    | some hh =>
      obtain ⟨m, hm⟩ := valuesByHash_some_of_all (C := C) (vs := xs) (acc := (hh, x) :: acc)
        (fun v hv' => h v (List.mem_cons_of_mem _ hv'))
      exact ⟨m, by unfold valuesByHash; simp only [hv]; exact hm⟩

/-- the two presence checks of `newMsg` for one message. -/
def RefsOk (vals : VMap) (c : Core) : Prop :=
  (∀ h, toHash32 c.fields.valueHash = some h → (vals.get h).isSome) ∧
  (∀ h, toHash32 c.fields.preparedValueHash = some h → (vals.get h).isSome)

theorem checkRefs_none {vals : VMap} {c : Core} (h : checkRefs vals c = none) : RefsOk vals c := by
  unfold checkRefs at h
  constructor
  · intro hh hv
    rw [hv] at h
    simp only at h
    split at h
    · cases h
    · rename_i hn; cases hg : vals.get hh <;> simp_all
  · intro hh hp
    split at h
    · split at h
      · cases h
      · rw [hp] at h
        simp only at h
        split at h
        · cases h
        · rename_i hn; cases hg : vals.get hh <;> simp_all
    · rw [hp] at h
      simp only at h
      split at h
      · cases h
      · rename_i hn; cases hg : vals.get hh <;> simp_all

theorem checkRefs_of_ok {vals : VMap} {c : Core} (h : RefsOk vals c) : checkRefs vals c = none := by
  unfold checkRefs
  obtain ⟨h1, h2⟩ := h
  cases hv : toHash32 c.fields.valueHash with
  | none =>
    cases hp : toHash32 c.fields.preparedValueHash with
    | none => rfl
    | some p => have := h2 p hp; simp [Option.isSome_iff_ne_none.mp this, Option.isNone_iff_eq_none]
  | some v =>
    have := h1 v hv
    cases hp : toHash32 c.fields.preparedValueHash with
    | none => simp [Option.isSome_iff_ne_none.mp this, Option.isNone_iff_eq_none]
    | some p =>
      have := h2 p hp
      simp [Option.isSome_iff_ne_none.mp this, Option.isSome_iff_ne_none.mp (h1 v hv), Option.isNone_iff_eq_none]

theorem checkRefsList_none {vals : VMap} : ∀ {js : List Core}, checkRefsList vals js = none →
    ∀ j ∈ js, RefsOk vals j
  | [], _, j, hj => by cases hj
  | x :: xs, h, j, hj => by
    unfold checkRefsList at h
    split at h
    · cases h
    · rename_i hx
      cases hj with
      | head => exact checkRefs_none hx
      | tail _ hj' => exact checkRefsList_none h j hj'

theorem checkRefsList_of_ok {vals : VMap} : ∀ {js : List Core}, (∀ j ∈ js, RefsOk vals j) →
    checkRefsList vals js = none
  | [], _ => rfl
  | x :: xs, h => by
    unfold checkRefsList
    rw [checkRefs_of_ok (h x (List.mem_cons_self ..))]
    exact checkRefsList_of_ok (fun j hj => h j (List.mem_cons_of_mem _ hj))

theorem newMsg_ok {c : Core} {just : List Core} {vals : VMap} {m : MsgView}
    (h : newMsg c just vals = .ok m) :
    m = { core := coreView c, just := just.map coreView, values := vals } ∧
      ∀ x ∈ c :: just, RefsOk vals x := by
  unfold newMsg at h
  split at h
  · cases h
  · rename_i hc
    split at h
    · cases h
    · rename_i hj
      refine ⟨by cases h; rfl, ?_⟩
      intro x hx
      cases hx with
      | head => exact checkRefs_none hc
      | tail _ hx' => exact checkRefsList_none hj x hx'

/-! ### limits -/

theorem verifyMsgLimits_none {w : Wire} {n : Nat} :
    verifyMsgLimits w n = none ↔ (w.just.length ≤ 2 * n ∧ w.values.length ≤ 2 * (w.just.length + 1)) := by
  simp only [verifyMsgLimits, QbftConst.maxJustFactor, QbftConst.maxValuesFactor, QbftConst.maxValuesOffset]
  by_cases h1 : w.just.length > 2 * n
  · simp [h1]; omega
  · by_cases h2 : w.values.length > 2 * (w.just.length + 1)
    · simp [h1, h2]
    · simp [h1, h2]; omega

/-! ### `validate` -/

/-- Everything a successful `validate` went through. -/
structure Validated (C : Crypto) (keys : List Key) (env : Env) (w : Wire) (c : Core) (duty : Duty)
    (vals : VMap) (m : MsgView) : Prop where
  main : w.main = some c
  mainOk : verifyMsg C keys (some c) = none
  dutyEq : duty = (coreView c).duty
  gater : env.gater duty = true
  limits : verifyMsgLimits w keys.length = none
  just : checkJust C keys env.ctxDone duty w.just = none
  values : valuesByHash C w.values [] = some vals
  msg : newMsg c w.just vals = .ok m
  ctx : env.ctxDone = false
  dl : env.dl duty = .scheduled

theorem validate_ok {C : Crypto} {keys : List Key} {env : Env} {req : Option Wire} {duty : Duty} {m : MsgView}
    (h : validate C keys env req = .ok (duty, m)) :
    ∃ w c vals, req = some w ∧ Validated C keys env w c duty vals m := by
  unfold validate at h
  split at h
  · cases h
  · rename_i w
    split at h
    · cases h
    · rename_i hv
      split at h
      · cases h
      · rename_i c hc
        simp only at h
        split at h
        · cases h
        · rename_i hg
          split at h
          · cases h
          · rename_i hl
            split at h
            · cases h
            · rename_i hj
              split at h
              · cases h
              · rename_i vals hvals
                split at h
                · cases h
                · rename_i m' hm
                  split at h
                  · cases h
                  · rename_i hctx
                    split at h
                    · cases h
                    · cases h
                    · rename_i hdl
                      cases h
                      exact ⟨w, c, vals, rfl,
                        { main := hc, mainOk := by rw [← hc]; exact hv, dutyEq := rfl
                          gater := by simpa using hg, limits := hl, just := hj, values := hvals
                          msg := hm, ctx := by simpa using hctx, dl := hdl }⟩

theorem validate_of {C : Crypto} {keys : List Key} {env : Env} {w : Wire} {c : Core} {duty : Duty}
    {vals : VMap} {m : MsgView} (h : Validated C keys env w c duty vals m) :
    validate C keys env (some w) = .ok (duty, m) := by
  unfold validate
  have hj : checkJust C keys false duty w.just = none := by rw [← h.ctx]; exact h.just
  simp only [h.main, h.mainOk, ← h.dutyEq, h.gater, h.limits, hj, h.values, h.msg, h.ctx, h.dl]
  simp

/-- a message containing a core that `verifyMsg` rejects is rejected by `validate`. -/
theorem validate_error_of_bad_core {C : Crypto} {keys : List Key} {env : Env} {w : Wire} {x : Core}
    (hx : w.main = some x ∨ x ∈ w.just) (hbad : ∃ e, verifyMsg C keys (some x) = some e) :
    ∃ r, validate C keys env (some w) = .error r := by
  cases hv : validate C keys env (some w) with
  | error r => exact ⟨r, rfl⟩
  | ok p =>
    obtain ⟨duty, m⟩ := p
    obtain ⟨w', c, vals, hw, V⟩ := validate_ok hv
    cases hw
    obtain ⟨e, he⟩ := hbad
    rcases hx with hx | hx
    · rw [V.main] at hx; cases hx
      rw [V.mainOk] at he; cases he
    · have := (checkJust_none V.just x hx).1
      rw [verifyMsg_of_ok this] at he; cases he

/-! ### state -/

theorem find_setInst_same (l : List Inst) (i : Inst) :
    (setInst l i).find? (fun x => x.duty = i.duty) = some i := by
  induction l with
  | nil => simp [setInst]
  | cons x xs ih =>
    unfold setInst
    split
    · simp
    · rename_i hne
      rw [List.find?_cons]
      simp [hne, ih]

theorem find_setInst_eq (l : List Inst) (i : Inst) (d : Duty) (hd : i.duty = d) :
    (setInst l i).find? (fun x => x.duty = d) = some i := by
  subst hd; exact find_setInst_same l i

theorem find_setInst_other (l : List Inst) (i : Inst) (d : Duty) (hd : d ≠ i.duty) :
    (setInst l i).find? (fun x => x.duty = d) = l.find? (fun x => x.duty = d) := by
  induction l with
  | nil => simp [setInst]; intro h; exact absurd h.symm hd
  | cons x xs ih =>
    unfold setInst
    split
    · rename_i heq
      rw [List.find?_cons, List.find?_cons]
      have h1 : (decide (i.duty = d)) = false := by simp; intro h; exact hd h.symm
      have h2 : (decide (x.duty = d)) = false := by simp; intro h; exact hd (by rw [← h, heq])
      simp [h1, h2]
    · rw [List.find?_cons, List.find?_cons, ih]

theorem setInst_of_find {l : List Inst} {i : Inst} {d : Duty}
    (h : l.find? (fun x => x.duty = d) = some i) : setInst l i = l := by
  induction l with
  | nil => simp at h
  | cons x xs ih =>
    rw [List.find?_cons] at h
    unfold setInst
    split at h
    · rename_i hx
      cases h
      simp
    · rename_i hx
      have hid : i.duty = d := by simpa using List.find?_some h
      have : ¬ x.duty = i.duty := by rw [hid]; simpa using hx
      simp [this, ih h]

theorem mem_setInst {l : List Inst} {i x : Inst} (h : x ∈ setInst l i) : x ∈ l ∨ x = i := by
  induction l with
  | nil => simp [setInst] at h; exact Or.inr h
  | cons y ys ih =>
    unfold setInst at h
    split at h
    · cases h with
      | head => exact Or.inr rfl
      | tail _ h' => exact Or.inl (List.mem_cons_of_mem _ h')
    · cases h with
      | head => exact Or.inl (List.mem_cons_self ..)
      | tail _ h' =>
        rcases ih h' with h'' | h''
        · exact Or.inl (List.mem_cons_of_mem _ h'')
        · exact Or.inr h''

theorem getOrNew_duty (s : State) (d : Duty) : (s.getOrNew d).duty = d := by
  unfold State.getOrNew State.find
  split
  · rename_i i hi; simpa using List.find?_some hi
  · rfl

theorem getOrNew_buf_mem {s : State} {d : Duty} {m : MsgView} (h : m ∈ (s.getOrNew d).buf) :
    ∃ i ∈ s.insts, m ∈ i.buf := by
  unfold State.getOrNew State.find at h
  split at h
  · rename_i i hi; exact ⟨i, List.mem_of_find?_eq_some hi, h⟩
  · cases h

theorem bufLen_eq (s : State) (d : Duty) : s.bufLen d = (s.getOrNew d).buf.length := by
  unfold State.bufLen State.getOrNew
  cases s.find d <;> rfl

/-- the three possible outcomes of `handle`. -/
theorem handle_cases (C : Crypto) (keys : List Key) (cap : Nat) (env : Env) (s : State) (req : Option Wire) :
    (∃ r, validate C keys env req = .error r ∧ handle C keys cap env s req = (s, .reject r)) ∨
    (∃ duty m, validate C keys env req = .ok (duty, m) ∧ (s.getOrNew duty).buf.length < cap ∧
      handle C keys cap env s req =
        ({ insts := setInst s.insts { s.getOrNew duty with buf := (s.getOrNew duty).buf ++ [m] },
           dlSet := addDuty s.dlSet duty }, .accept m)) ∨
    (∃ duty m, validate C keys env req = .ok (duty, m) ∧ ¬ (s.getOrNew duty).buf.length < cap ∧
      handle C keys cap env s req =
        ({ insts := setInst s.insts (s.getOrNew duty), dlSet := addDuty s.dlSet duty }, .reject .timeout)) := by
  unfold handle
  cases hv : validate C keys env req with
  | error r => exact Or.inl ⟨r, rfl, rfl⟩
  | ok p =>
    obtain ⟨duty, m⟩ := p
    by_cases hl : (s.getOrNew duty).buf.length < cap
    · exact Or.inr (Or.inl ⟨duty, m, rfl, hl, by simp [hl]⟩)
    · exact Or.inr (Or.inr ⟨duty, m, rfl, hl, by simp [hl]⟩)

/-! ### buffer invariant -/

/-- an enqueued message only maps hashes to values with that hash, and holds a value for every
non-zero hash its main message or a justification refers to. -/
def ViewOk (C : Crypto) (m : MsgView) : Prop :=
  ValuesOk C m.values ∧
  ∀ c ∈ m.core :: m.just,
    (∀ h, c.value = some h → (m.values.get h).isSome) ∧
    (∀ h, c.preparedValue = some h → (m.values.get h).isSome)

def Inv (C : Crypto) (s : State) : Prop := ∀ i ∈ s.insts, ∀ m ∈ i.buf, ViewOk C m

theorem inv_init (C : Crypto) : Inv C {} := by
  intro i hi; cases hi

theorem validated_viewOk {C : Crypto} {keys : List Key} {env : Env} {w : Wire} {c : Core} {duty : Duty}
    {vals : VMap} {m : MsgView} (V : Validated C keys env w c duty vals m) : ViewOk C m := by
  obtain ⟨hm, hrefs⟩ := newMsg_ok V.msg
  subst hm
  refine ⟨valuesByHash_ok V.values (valuesOk_nil C), ?_⟩
  intro cv hcv
  have : ∃ x ∈ c :: w.just, cv = coreView x := by
    cases hcv with
    | head => exact ⟨c, List.mem_cons_self .., rfl⟩
    | tail _ h' =>
      obtain ⟨x, hx, hxe⟩ := List.mem_map.mp h'
      exact ⟨x, List.mem_cons_of_mem _ hx, hxe.symm⟩
  obtain ⟨x, hx, hcx⟩ := this
  subst hcx
  exact ⟨fun h hh => (hrefs x hx).1 h hh, fun h hh => (hrefs x hx).2 h hh⟩

theorem inv_step {C : Crypto} {keys : List Key} {cap : Nat} {env : Env} {s : State} {req : Option Wire}
    (hi : Inv C s) : Inv C (handle C keys cap env s req).1 := by
  rcases handle_cases C keys cap env s req with ⟨r, _, h⟩ | ⟨duty, m, hv, _, h⟩ | ⟨duty, m, hv, _, h⟩
  · rw [h]; exact hi
  · rw [h]
    obtain ⟨w, c, vals, _, V⟩ := validate_ok hv
    intro i hi' m' hm'
    rcases mem_setInst hi' with hold | hnew
    · exact hi i hold m' hm'
    · subst hnew
      simp only [List.mem_append, List.mem_singleton] at hm'
      rcases hm' with hm' | hm'
      · obtain ⟨i0, hi0, hm0⟩ := getOrNew_buf_mem hm'
        exact hi i0 hi0 m' hm0
      · subst hm'; exact validated_viewOk V
  · rw [h]
    intro i hi' m' hm'
    rcases mem_setInst hi' with hold | hnew
    · exact hi i hold m' hm'
    · subst hnew
      obtain ⟨i0, hi0, hm0⟩ := getOrNew_buf_mem hm'
      exact hi i0 hi0 m' hm0

theorem inv_run {C : Crypto} {keys : List Key} {cap : Nat} : ∀ (ops : List Op) {s : State},
    Inv C s → Inv C (run C keys cap s ops)
  | [], _, h => h
  | o :: os, _, h => by
    unfold run
    exact inv_run os (inv_step h)

end CharonV.QbftWire
