import CharonV.Model.ConsWrap
import CharonV.Proofs.QbftWire
/-
Helper lemmas for the wrapper-level C03 theorems (`CharonV.Props.C03Wrap`).
-/
namespace CharonV.ConsWrap

open CharonV.QbftWire (Duty Crypto Status VMap Hash Inner)

/-! ### instance map -/

theorem findIO_setIO_same (ios : List IOSt) (i : IOSt) :
    (setIO ios i).find? (fun x => x.duty = i.duty) = some i := by
  induction ios with
  | nil => simp [setIO]
  | cons x xs ih =>
    unfold setIO
    split
    · simp
    · rename_i hne
      rw [List.find?_cons]
      simp [hne, ih]

theorem findIO_setIO_eq (ios : List IOSt) (i : IOSt) (d : Duty) (hd : i.duty = d) :
    (setIO ios i).find? (fun x => x.duty = d) = some i := by
  subst hd; exact findIO_setIO_same ios i

theorem findIO_setIO_other (ios : List IOSt) (i : IOSt) (d : Duty) (hd : d ≠ i.duty) :
    (setIO ios i).find? (fun x => x.duty = d) = ios.find? (fun x => x.duty = d) := by
  induction ios with
  | nil => simp [setIO]; intro h; exact absurd h.symm hd
  | cons x xs ih =>
    unfold setIO
    split
    · rename_i heq
      rw [List.find?_cons, List.find?_cons]
      have h1 : (decide (i.duty = d)) = false := by simp; intro h; exact hd h.symm
      have h2 : (decide (x.duty = d)) = false := by simp; intro h; exact hd (by rw [← h, heq])
      simp [h1, h2]
    · rw [List.find?_cons, List.find?_cons, ih]

theorem setIO_of_find {ios : List IOSt} {i : IOSt} {d : Duty}
    (h : ios.find? (fun x => x.duty = d) = some i) : setIO ios i = ios := by
  induction ios with
  | nil => simp at h
  | cons x xs ih =>
    rw [List.find?_cons] at h
    unfold setIO
    split at h
    · cases h; simp
    · rename_i hx
      have hid : i.duty = d := by simpa using List.find?_some h
      have : ¬ x.duty = i.duty := by rw [hid]; simpa using hx
      simp [this, ih h]

theorem find_filter_other (ios : List IOSt) {d d' : Duty} (hd : d ≠ d') :
    (ios.filter (fun i => i.duty ≠ d')).find? (fun x => x.duty = d) = ios.find? (fun x => x.duty = d) := by
  induction ios with
  | nil => rfl
  | cons x xs ih =>
    by_cases hx : x.duty = d'
    · have hxd : ¬ x.duty = d := fun h => hd (by rw [← h, hx])
      rw [List.filter_cons_of_neg (by simp [hx]), List.find?_cons_of_neg (by simpa using hxd)]
      exact ih
    · rw [List.filter_cons_of_pos (by simp [hx])]
      by_cases hxd : x.duty = d
      · rw [List.find?_cons_of_pos (by simpa using hxd), List.find?_cons_of_pos (by simpa using hxd)]
      · rw [List.find?_cons_of_neg (by simpa using hxd), List.find?_cons_of_neg (by simpa using hxd)]
        exact ih

theorem getIO_duty (s : State) (d : Duty) : (getIO s d).duty = d := by
  unfold getIO findIO
  split
  · rename_i i hi; simpa using List.find?_some hi
  · rfl

/-- the duty's IO is in the map and has `running` set. -/
def isRunning (s : State) (d : Duty) : Prop := ∃ io, findIO s d = some io ∧ io.running = true

def runDuties (s : State) : List Duty := s.runs.map (·.duty)

theorem setRun_duties (runs : List RunSt) (d : Duty) (f : RunSt → RunSt) (hf : ∀ r, (f r).duty = r.duty) :
    (setRun runs d f).map (·.duty) = runs.map (·.duty) := by
  unfold setRun
  rw [List.map_map]
  apply List.map_congr_left
  intro r _
  simp only [Function.comp]
  split
  · exact hf r
  · rfl

/-! ### `runInstance` -/

theorem runInstance_cases (s : State) (io : IOSt) (who : Caller) (dl : Status) :
    (dlStatus s io.duty dl = .scheduled ∧
      runInstance s io who dl =
        ({ s with ios := setIO s.ios io, runs := s.runs ++ [{ duty := io.duty, starter := who }] },
         [.runStarted io.duty, .blocked who io.duty])) ∨
    (dlStatus s io.duty dl ≠ .scheduled ∧
      runInstance s io who dl =
        ({ s with ios := setIO s.ios { io with errCh := some .ok } }, [.skipped io.duty, .ret who io.duty .ok])) := by
  unfold runInstance
  cases h : dlStatus s io.duty dl with
  | scheduled => exact Or.inl ⟨rfl, rfl⟩
  | expired => exact Or.inr ⟨by simp, rfl⟩
  | exempt => exact Or.inr ⟨by simp, rfl⟩

theorem dlStatus_expired {s : State} {d : Duty} {dl : Status} (h : d ∈ s.expired) :
    dlStatus s d dl = .expired := by
  unfold dlStatus
  simp [h]

theorem dlStatus_scheduled {s : State} {d : Duty} {dl : Status} (h : dlStatus s d dl = .scheduled) :
    d ∉ s.expired ∧ dl = .scheduled := by
  unfold dlStatus at h
  split at h
  · cases h
  · rename_i hc; exact ⟨by simpa using hc, h⟩

/-! ### what one step does to the set of runs -/

/-- number of `runStarted d` outputs. -/
def startedIn (outs : List Out) (d : Duty) : Nat := (outs.filter (fun o => o = .runStarted d)).length

/-- A step either leaves the duties of the runs alone and starts nothing, or appends exactly one
run for a duty that is not expired and whose IO was not running, and reports exactly that start. -/
inductive StepRuns (s s' : State) (outs : List Out) : Prop where
  | same (hr : runDuties s' = runDuties s) (hs : ∀ d, startedIn outs d = 0)
  | start (d0 : Duty) (hr : runDuties s' = runDuties s ++ [d0])
      (hs : ∀ d, startedIn outs d = if d = d0 then 1 else 0)
      (hne : d0 ∉ s.expired) (hnr : ¬ isRunning s d0) (hrun : isRunning s' d0)

theorem startedIn_nil (d : Duty) : startedIn [] d = 0 := rfl

theorem runInstance_stepRuns (s : State) (io : IOSt) (who : Caller) (dl : Status)
    (hnr : ¬ isRunning s io.duty) (hrun : io.running = true) :
    StepRuns s (runInstance s io who dl).1 (runInstance s io who dl).2 := by
  rcases runInstance_cases s io who dl with ⟨hs, h⟩ | ⟨_, h⟩
  · rw [h]
    refine .start io.duty ?_ ?_ (dlStatus_scheduled hs).1 hnr ?_
    · simp [runDuties]
    · intro d
      by_cases hd : d = io.duty
      · subst hd; simp [startedIn]
      · have : io.duty ≠ d := fun h => hd h.symm
        simp [startedIn, hd, this]
    · exact ⟨io, findIO_setIO_same s.ios io, hrun⟩
  · rw [h]
    exact .same rfl (fun d => by simp [startedIn])

theorem getIO_not_running_of (s : State) (d : Duty) (h : (getIO s d).running = false) : ¬ isRunning s d := by
  rintro ⟨io, hio, hr⟩
  unfold getIO at h
  rw [hio] at h
  simp only at h
  rw [hr] at h
  cases h

theorem step_stepRuns (C : Crypto) (cfg : Cfg) (s : State) (op : Op) :
    StepRuns s (step C cfg s op).1 (step C cfg s op).2 := by
  cases op with
  | propose d p dl =>
    simp only [step]
    split
    · exact .same rfl (fun d => by simp [startedIn])
    · split
      · exact .same rfl (fun d => by simp [startedIn])
      · split
        · exact .same rfl (fun d => by simp [startedIn])
        · split
          · split
            · exact .same rfl (fun d => by simp [startedIn])
            · refine .same ?_ (fun d => by simp [startedIn])
              simp only [runDuties]
              exact setRun_duties _ _ _ (fun r => rfl)
          · rename_i hrun
            have hnr : ¬ isRunning s d := by
              apply getIO_not_running_of
              simpa using hrun
            refine runInstance_stepRuns s _ _ dl ?_ rfl
            simpa [getIO_duty] using hnr
  | participate d dl =>
    simp only [step]
    split
    · exact .same rfl (fun d => by simp [startedIn])
    · split
      · exact .same rfl (fun d => by simp [startedIn])
      · split
        · exact .same rfl (fun d => by simp [startedIn])
        · rename_i hrun
          have hnr : ¬ isRunning s d := by
            apply getIO_not_running_of
            simpa using hrun
          refine runInstance_stepRuns s _ _ dl ?_ rfl
          simpa [getIO_duty] using hnr
  | message d =>
    simp only [step]
    split <;> exact .same rfl (fun d => by simp [startedIn])
  | decide d h vals =>
    simp only [step]
    split
    · exact .same rfl (fun d => by simp [startedIn])
    · split
      · exact .same rfl (fun d => by simp [startedIn])
      · split
        · exact .same (by simp only [runDuties]; exact setRun_duties _ _ _ (fun r => rfl)) (fun d => by simp [startedIn])
        · split
          · exact .same (by simp only [runDuties]; exact setRun_duties _ _ _ (fun r => rfl)) (fun d => by simp [startedIn])
          · refine .same (by simp only [runDuties]; exact setRun_duties _ _ _ (fun r => rfl)) ?_
            intro d'
            simp [startedIn, subCalls]
  | ends d =>
    simp only [step]
    split
    · exact .same rfl (fun d => by simp [startedIn])
    · rename_i r hr
      have hd : ∀ d', startedIn ([Out.ret r.starter d (if r.decided = true then Ret.ok else Ret.timeout)] ++
          if r.waiter = true then [Out.ret Caller.propose d (if r.decided = true then Ret.ok else Ret.timeout)] else []) d' = 0 := by
        intro d'
        cases r.waiter <;> simp [startedIn]
      split
      · split
        · exact .same (by simp only [runDuties]; exact setRun_duties _ _ _ (fun r => rfl)) hd
        · exact .same (by simp only [runDuties]; exact setRun_duties _ _ _ (fun r => rfl)) hd
      · exact .same (by simp only [runDuties]; exact setRun_duties _ _ _ (fun r => rfl)) hd
  | expire d =>
    simp only [step]
    refine .same ?_ (fun d => by simp [startedIn])
    simp only [runDuties, List.map_map]
    apply List.map_congr_left
    intro r _
    simp only [Function.comp]
    split <;> rfl

/-! ### what one step does to the instance map -/

/-- the IO written back keeps `running` and `proposed` if the duty's IO had them. -/
def KeepsRunning (s : State) (io' : IOSt) : Prop :=
  ∀ io0, findIO s io'.duty = some io0 →
    (io0.running = true → io'.running = true) ∧ (io0.proposed = true → io'.proposed = true)

inductive StepIOs (s s' : State) (op : Op) : Prop where
  | same (he : s'.expired = s.expired) (hi : s'.ios = s.ios)
  | set (io' : IOSt) (he : s'.expired = s.expired) (hi : s'.ios = setIO s.ios io') (hk : KeepsRunning s io')
  | expire (d : Duty) (hop : op = .expire d) (hi : s'.ios = s.ios.filter (fun i => i.duty ≠ d))
      (he : s'.expired = if s.expired.contains d then s.expired else s.expired ++ [d])

theorem keeps_getIO (s : State) (d : Duty) (io' : IOSt) (hd : io'.duty = d)
    (h : (getIO s d).running = true → io'.running = true)
    (hp : (getIO s d).proposed = true → io'.proposed = true) : KeepsRunning s io' := by
  intro io0 hf
  rw [hd] at hf
  have hg : getIO s d = io0 := by unfold getIO; rw [hf]
  rw [hg] at h hp
  exact ⟨h, hp⟩

theorem runInstance_stepIOs (s : State) (io : IOSt) (who : Caller) (dl : Status)
    (op : Op) (hk : KeepsRunning s io) : StepIOs s (runInstance s io who dl).1 op := by
  rcases runInstance_cases s io who dl with ⟨_, h⟩ | ⟨_, h⟩
  · rw [h]; exact .set io rfl rfl hk
  · rw [h]; exact .set { io with errCh := some .ok } rfl rfl hk

theorem step_stepIOs (C : Crypto) (cfg : Cfg) (s : State) (op : Op) : StepIOs s (step C cfg s op).1 op := by
  cases op with
  | propose d p dl =>
    simp only [step]
    split
    · exact .same rfl rfl
    · split
      · exact .set _ rfl rfl (keeps_getIO s d _ (getIO_duty s d) (fun h => h) (fun h => by first | exact h | rfl))
      · split
        · exact .set _ rfl rfl (keeps_getIO s d _ (getIO_duty s d) (fun h => h) (fun h => by first | exact h | rfl))
        · split
          · split
            · exact .set _ rfl rfl (keeps_getIO s d _ (getIO_duty s d) (fun h => h) (fun h => by first | exact h | rfl))
            · exact .set _ rfl rfl (keeps_getIO s d _ (getIO_duty s d) (fun h => h) (fun h => by first | exact h | rfl))
          · exact runInstance_stepIOs s _ _ dl _ (keeps_getIO s d _ (getIO_duty s d) (fun _ => rfl) (fun h => by first | exact h | rfl))
  | participate d dl =>
    simp only [step]
    split
    · exact .same rfl rfl
    · split
      · exact .set _ rfl rfl (keeps_getIO s d _ (getIO_duty s d) (fun h => h) (fun h => by first | exact h | rfl))
      · split
        · exact .set _ rfl rfl (keeps_getIO s d _ (getIO_duty s d) (fun h => h) (fun h => by first | exact h | rfl))
        · exact runInstance_stepIOs s _ _ dl _ (keeps_getIO s d _ (getIO_duty s d) (fun _ => rfl) (fun h => by first | exact h | rfl))
  | message d =>
    simp only [step]
    split
    · exact .same rfl rfl
    · exact .set _ rfl rfl (keeps_getIO s d _ (getIO_duty s d) (fun h => h) (fun h => by first | exact h | rfl))
  | decide d h vals =>
    simp only [step]
    split
    · exact .same rfl rfl
    · split
      · exact .same rfl rfl
      · split
        · exact .same rfl rfl
        · split <;> exact .same rfl rfl
  | ends d =>
    simp only [step]
    split
    · exact .same rfl rfl
    · split
      · split
        · rename_i io hio
          refine .set _ rfl rfl ?_
          intro io0 hf
          have hd : io.duty = d := by simpa using List.find?_some hio
          simp only [hd] at hf
          unfold findIO at hio hf
          rw [hio] at hf
          cases hf
          exact ⟨fun h => h, fun h => h⟩
        · exact .same rfl rfl
      · exact .same rfl rfl
  | expire d =>
    simp only [step]
    exact .expire d rfl rfl rfl

theorem step_expired_mono {C : Crypto} {cfg : Cfg} {s : State} {op : Op} {d : Duty}
    (h : d ∈ s.expired) : d ∈ (step C cfg s op).1.expired := by
  cases step_stepIOs C cfg s op with
  | same he _ => rw [he]; exact h
  | set _ he _ _ => rw [he]; exact h
  | expire d' _ _ he =>
    rw [he]
    split
    · exact h
    · exact List.mem_append_left _ h

theorem step_running_mono {C : Crypto} {cfg : Cfg} {s : State} {op : Op} {d : Duty}
    (h : isRunning s d) : d ∈ (step C cfg s op).1.expired ∨ isRunning (step C cfg s op).1 d := by
  obtain ⟨io, hio, hr⟩ := h
  cases step_stepIOs C cfg s op with
  | same _ hi => exact Or.inr ⟨io, by unfold findIO; rw [hi]; exact hio, hr⟩
  | set io' _ hi hk =>
    right
    by_cases hd : d = io'.duty
    · refine ⟨io', ?_, (hk io (by rw [← hd]; exact hio)).1 hr⟩
      unfold findIO
      rw [hi]
      exact findIO_setIO_eq s.ios io' d hd.symm
    · refine ⟨io, ?_, hr⟩
      unfold findIO
      rw [hi, findIO_setIO_other s.ios io' d hd]
      exact hio
  | expire d' _ hi he =>
    by_cases hd : d = d'
    · left
      rw [he, hd]
      split
      · rename_i hc; simpa using hc
      · simp
    · right
      refine ⟨io, ?_, hr⟩
      unfold findIO
      rw [hi, find_filter_other s.ios hd]
      exact hio

/-! ### invariant: one run per duty -/

structure Inv (s : State) : Prop where
  nodup : (runDuties s).Nodup
  backed : ∀ d ∈ runDuties s, d ∈ s.expired ∨ isRunning s d

theorem inv_init : Inv {} := ⟨by simp [runDuties], by intro d hd; simp [runDuties] at hd⟩

theorem inv_step {C : Crypto} {cfg : Cfg} {s : State} (op : Op) (hi : Inv s) : Inv (step C cfg s op).1 := by
  cases step_stepRuns C cfg s op with
  | same hr _ =>
    refine ⟨by rw [hr]; exact hi.nodup, ?_⟩
    intro d hd
    rw [hr] at hd
    rcases hi.backed d hd with h | h
    · exact Or.inl (step_expired_mono h)
    · exact step_running_mono h
  | start d0 hr _ hne hnr hrun =>
    have hnot : d0 ∉ runDuties s := by
      intro hmem
      rcases hi.backed d0 hmem with h | h
      · exact hne h
      · exact hnr h
    refine ⟨?_, ?_⟩
    · rw [hr]
      exact List.nodup_append.mpr ⟨hi.nodup, by simp, by
        intro a ha b hb
        simp at hb
        subst hb
        intro hab
        subst hab
        exact hnot ha⟩
    · intro d hd
      rw [hr] at hd
      rcases List.mem_append.mp hd with h | h
      · rcases hi.backed d h with h' | h'
        · exact Or.inl (step_expired_mono h')
        · exact step_running_mono h'
      · simp at h
        subst h
        exact Or.inr hrun

theorem inv_trace {C : Crypto} {cfg : Cfg} : ∀ (ops : List Op) {s : State}, Inv s → Inv (trace C cfg s ops).1
  | [], _, h => h
  | o :: os, s, h => by
    simp only [trace]
    exact inv_trace os (inv_step o h)

theorem startedIn_append (a b : List Out) (d : Duty) : startedIn (a ++ b) d = startedIn a d + startedIn b d := by
  simp [startedIn, List.filter_append]

/-- starts reported along a history are exactly the growth of the run list. -/
theorem trace_started {C : Crypto} {cfg : Cfg} (d : Duty) : ∀ (ops : List Op) (s : State),
    startedIn (trace C cfg s ops).2 d + (runDuties s).count d = (runDuties (trace C cfg s ops).1).count d
  | [], s => by simp [trace, startedIn]
  | o :: os, s => by
    simp only [trace]
    rw [startedIn_append]
    have ih := trace_started (C := C) (cfg := cfg) d os (step C cfg s o).1
    cases step_stepRuns C cfg s o with
    | same hr hs => rw [hs d]; rw [hr] at ih; omega
    | start d0 hr hs _ _ _ =>
      rw [hs d]
      rw [hr, List.count_append] at ih
      by_cases hd : d = d0
      · subst hd; simp at ih ⊢; omega
      · have : d0 ≠ d := fun h => hd h.symm
        simp [hd, this] at ih ⊢; omega

theorem step_proposed_persists {C : Crypto} {cfg : Cfg} {s : State} {op : Op} {d : Duty}
    (h : ∃ io, findIO s d = some io ∧ io.proposed = true) (hop : ∀ d', op = .expire d' → d' ≠ d) :
    ∃ io, findIO (step C cfg s op).1 d = some io ∧ io.proposed = true := by
  obtain ⟨io, hio, hp⟩ := h
  cases step_stepIOs C cfg s op with
  | same _ hi => exact ⟨io, by unfold findIO; rw [hi]; exact hio, hp⟩
  | set io' _ hi hk =>
    by_cases hd : d = io'.duty
    · refine ⟨io', ?_, (hk io (by rw [← hd]; exact hio)).2 hp⟩
      unfold findIO
      rw [hi]
      exact findIO_setIO_eq s.ios io' d hd.symm
    · refine ⟨io, ?_, hp⟩
      unfold findIO
      rw [hi, findIO_setIO_other s.ios io' d hd]
      exact hio
  | expire d' hop' hi _ =>
    have hne : d' ≠ d := hop d' hop'
    refine ⟨io, ?_, hp⟩
    unfold findIO
    rw [hi, find_filter_other s.ios (fun h => hne h.symm)]
    exact hio

end CharonV.ConsWrap
